/* A scripted base NiceSocket for driving libnice's stream layers (http, socks5, pseudossl,
 * udp-turn-over-tcp, ...) without a kernel.  Self-contained: needs only <glib.h>, socket.h and hcommon.h.
 *
 * Semantics (part of the trusted base of the checks that use it):
 *  - the harness appends bytes to the socket's pending buffer (ss_push) = "the kernel received a segment";
 *  - recv_messages(sock, msgs, n): for each message in turn, copies min(pending, total buffer capacity)
 *    bytes into the message's buffers (sequentially), sets msg->length; stops at the first message that
 *    would get 0 bytes (nothing pending, or zero capacity).  Returns the number of messages filled
 *    (0 = would block).  Every request is logged through ss->on_read(req, got) before the copy.
 *  - before copying, an optional guard (ss->guard) is asked whether [dst, dst+k) may be written; if it
 *    refuses, ss_on_fault() is called (it must not return: the harness longjmps out of the layer).
 *  - send_messages / send_messages_reliable: each message is flattened and handed to ss_on_send(bytes,len,
 *    reliable); unreliable sends can be refused whole (ss->refuse_unreliable -> returns 0 for the first
 *    message).  Returns n_messages.
 *  - close(): marks the socket closed (the layer frees the NiceSocket struct itself via nice_socket_free);
 *    the ScriptSock (sock->priv) stays owned by the harness.
 */
#ifndef SCRIPTED_SOCK_H
#define SCRIPTED_SOCK_H
#include <glib.h>
#include <string.h>
#include "socket.h"

typedef struct _ScriptSock ScriptSock;
struct _ScriptSock {
  guint8 *pend; gsize pend_len, pend_off, pend_cap;
  gboolean closed;
  gboolean refuse_unreliable;
  gboolean (*guard) (ScriptSock *ss, const guint8 *dst, gsize k);
  void (*on_read) (ScriptSock *ss, gsize req, gsize got);
  void (*on_send) (ScriptSock *ss, const guint8 *b, gsize n, gboolean reliable);
  void (*on_fault) (ScriptSock *ss);
  gpointer user;
};

static inline gsize ss_pending (ScriptSock *ss) { return ss->pend_len - ss->pend_off; }

static void ss_push (ScriptSock *ss, const guint8 *b, gsize n)
{
  if (ss->pend_off == ss->pend_len) ss->pend_off = ss->pend_len = 0;
  if (ss->pend_len + n > ss->pend_cap) {
    ss->pend_cap = (ss->pend_len + n) * 2 + 64;
    ss->pend = realloc (ss->pend, ss->pend_cap);
  }
  memcpy (ss->pend + ss->pend_len, b, n);
  ss->pend_len += n;
}

static gint ss_recv_messages (NiceSocket *sock, NiceInputMessage *msgs, guint n)
{
  ScriptSock *ss = sock->priv;
  guint i;
  for (i = 0; i < n; i++) {
    NiceInputMessage *m = &msgs[i];
    gsize cap = 0, got = 0; gint j;
    for (j = 0; (m->n_buffers >= 0 && j < m->n_buffers) || (m->n_buffers < 0 && m->buffers[j].buffer != NULL); j++)
      cap += m->buffers[j].size;
    gsize k = MIN (cap, ss_pending (ss));
    if (ss->on_read) ss->on_read (ss, cap, k);
    /* guard first, so that an out-of-range destination is reported before anything is written */
    {
      gsize left = k;
      for (j = 0; left > 0; j++) {
        gsize c = MIN (left, m->buffers[j].size);
        if (c && ss->guard && !ss->guard (ss, m->buffers[j].buffer, c)) { if (ss->on_fault) ss->on_fault (ss); return -1; }
        left -= c;
      }
    }
    for (j = 0; got < k; j++) {
      gsize c = MIN (k - got, m->buffers[j].size);
      memcpy (m->buffers[j].buffer, ss->pend + ss->pend_off, c);
      ss->pend_off += c; got += c;
    }
    if (got == 0) break;
    m->length = got;
    if (m->from) memset (m->from, 0, sizeof (NiceAddress));
  }
  return i;
}

static gint ss_send_common (NiceSocket *sock, const NiceOutputMessage *msgs, guint n, gboolean reliable)
{
  ScriptSock *ss = sock->priv;
  guint i;
  if (!reliable && ss->refuse_unreliable) return 0;
  for (i = 0; i < n; i++) {
    const NiceOutputMessage *m = &msgs[i];
    gsize tot = 0, o = 0; gint j;
    for (j = 0; (m->n_buffers >= 0 && j < m->n_buffers) || (m->n_buffers < 0 && m->buffers[j].buffer != NULL); j++)
      tot += m->buffers[j].size;
    guint8 *flat = malloc (tot ? tot : 1);
    for (j = 0; (m->n_buffers >= 0 && j < m->n_buffers) || (m->n_buffers < 0 && m->buffers[j].buffer != NULL); j++) {
      memcpy (flat + o, m->buffers[j].buffer, m->buffers[j].size); o += m->buffers[j].size;
    }
    if (ss->on_send) ss->on_send (ss, flat, tot, reliable);
    free (flat);
  }
  return n;
}
static gint ss_send_messages (NiceSocket *sock, const NiceAddress *to, const NiceOutputMessage *m, guint n)
{ return ss_send_common (sock, m, n, FALSE); }
static gint ss_send_messages_reliable (NiceSocket *sock, const NiceAddress *to, const NiceOutputMessage *m, guint n)
{ return ss_send_common (sock, m, n, TRUE); }
static gboolean ss_is_reliable (NiceSocket *sock) { return TRUE; }
static gboolean ss_can_send (NiceSocket *sock, NiceAddress *a) { return TRUE; }
static void ss_set_writable_callback (NiceSocket *sock, NiceSocketWritableCb cb, gpointer d) { }
static void ss_close (NiceSocket *sock) { ScriptSock *ss = sock->priv; ss->closed = TRUE; }

/* the NiceSocket is g_slice-allocated because layers release it with nice_socket_free() */
static NiceSocket *ss_new (ScriptSock **out)
{
  NiceSocket *sock = g_slice_new0 (NiceSocket);
  ScriptSock *ss = calloc (1, sizeof *ss);
  sock->priv = ss;
  sock->type = NICE_SOCKET_TYPE_TCP_BSD;
  sock->recv_messages = ss_recv_messages;
  sock->send_messages = ss_send_messages;
  sock->send_messages_reliable = ss_send_messages_reliable;
  sock->is_reliable = ss_is_reliable;
  sock->can_send = ss_can_send;
  sock->set_writable_callback = ss_set_writable_callback;
  sock->close = ss_close;
  *out = ss;
  return sock;
}
static void ss_free (ScriptSock *ss) { free (ss->pend); free (ss); }
#endif
