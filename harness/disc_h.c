/* Tie for coq/Agent/DiscoveryModel.v: the real priv_discovery_tick_unlocked / priv_discovery_tick_agent_locked /
 * discovery_schedule of agent/discovery.c (static: the file is #included) and the real answer path
 * conn_check_handle_inbound_stun -> priv_map_reply_to_discovery_request / priv_map_reply_to_relay_request of
 * agent/conncheck.c, on a real NiceAgent whose discovery list holds fabricated CandidateDiscovery items (made the way
 * priv_add_new_candidate_discovery_stun / _turn make them) on a scripted socket.  The clock is interposed
 * (clock_gettime below feeds g_get_monotonic_time and stun_gettime), answers are real STUN messages built with the
 * STUN library for the request bytes the item last put on the wire.
 *
 * line : <id> <T> <N> <item,item,...> <op> <op> ...
 *   item: s<stream>.<server>  |  r<stream>.<server>        (stream 1|2, server index 1..9)
 *   op  : S:<sec>:<usec>:<failmask>    end of nice_agent_gather_candidates (discovery_schedule / agent_gathering_done)
 *         T:<sec>:<usec>:<failmask>    the discovery timer fires (only when its source exists)
 *         A:<i>:<c|o|b>:<kind>         an answer for item i carrying its current / an older / a never used transaction id;
 *                                      kind = ok | inv | garb | e<code>.<realm 0|1|2> | alt<server>
 * out  : <id> <snap>;<snap>;...     one snapshot per op:
 *   items(p.d.b.retrans.auth.next.server.redirects, '/' separated, '-' = empty list)|unsched|timer|gathering|sends|cands|done-signals */
#include "hcommon.h"
#include <time.h>
static long long cur_s, cur_us;
int clock_gettime (clockid_t id, struct timespec *ts) { ts->tv_sec = cur_s; ts->tv_nsec = cur_us * 1000; return 0; }
#include "agent/discovery.c"
#include "stun/usages/bind.h"

static NiceAgent *ag;
static unsigned failmask; static int nsends, ndone_sig;
static int item_index (const void *buf)
{ int k = 0; for (GSList *i = ag->discovery_list; i; i = i->next, k++) if ((const void *) ((CandidateDiscovery *) i->data)->stun_buffer == buf) return k; return -1; }
static gint ds_send (NiceSocket *s, const NiceAddress *to, const NiceOutputMessage *m, guint n)
{ int k = (n && m[0].n_buffers) ? item_index (m[0].buffers[0].buffer) : -1;
  if (k >= 0 && (failmask >> k) & 1) return -1;
  nsends++; return n; }
static gint ds_send_rel (NiceSocket *s, const NiceAddress *to, const NiceOutputMessage *m, guint n) { return -1; }
static gint ds_recv (NiceSocket *s, NiceInputMessage *m, guint n) { return 0; }
static gboolean ds_false (NiceSocket *s) { return FALSE; }
static gboolean ds_can_send (NiceSocket *s, NiceAddress *a) { return TRUE; }
static void ds_set_cb (NiceSocket *s, NiceSocketWritableCb cb, gpointer u) { }
static gboolean ds_based (NiceSocket *s, NiceSocket *o) { return s == o; }
static void ds_close (NiceSocket *s) { }
static NiceSocket *mk_sock (int stream)
{ NiceSocket *s = g_slice_new0 (NiceSocket); char ip[32]; sprintf (ip, "10.0.%d.1", stream); nice_address_init (&s->addr); nice_address_set_from_string (&s->addr, ip); nice_address_set_port (&s->addr, 5000);
  s->type = NICE_SOCKET_TYPE_UDP_BSD; s->recv_messages = ds_recv; s->send_messages = ds_send; s->send_messages_reliable = ds_send_rel; s->is_reliable = ds_false;
  s->can_send = ds_can_send; s->set_writable_callback = ds_set_cb; s->is_based_on = ds_based; s->close = ds_close; return s; }
static NiceAddress srv_addr (int k) { NiceAddress a; char ip[32]; sprintf (ip, "10.9.0.%d", k); nice_address_init (&a); nice_address_set_from_string (&a, ip); nice_address_set_port (&a, 3478); return a; }
static int srv_index (const NiceAddress *a) { char s[64]; int k = 0; nice_address_to_string (a, s); sscanf (s, "10.9.0.%d", &k); return k; }
static void on_done (NiceAgent *a, guint sid, gpointer u) { ndone_sig++; }

/* the counter of followed ALTERNATE-SERVER answers exists since /repo 1878027; a tree without it still builds (regression run) */
#ifdef NICE_DISCOVERY_MAX_REDIRECTS
#define DISC_REDIRECTS(d) ((d)->redirects)
#else
#define DISC_REDIRECTS(d) 0u
#endif
#define MAXI 16
static uint8_t cur_req[MAXI][STUN_MAX_MESSAGE_SIZE_IPV6], old_req[MAXI][STUN_MAX_MESSAGE_SIZE_IPV6]; static size_t cur_len[MAXI], old_len[MAXI];
/* remember the request each item currently has in its buffer (and the one before) */
static void capture (void)
{ int k = 0; for (GSList *i = ag->discovery_list; i && k < MAXI; i = i->next, k++) { CandidateDiscovery *d = i->data;
    if (!d->stun_message.buffer) continue; size_t l = stun_message_length (&d->stun_message);
    if (cur_len[k] && memcmp (cur_req[k] + 4, d->stun_buffer + 4, 16) == 0) continue;
    if (cur_len[k]) { memcpy (old_req[k], cur_req[k], cur_len[k]); old_len[k] = cur_len[k]; }
    memcpy (cur_req[k], d->stun_buffer, l); cur_len[k] = l; } }

static const uint16_t srv_known[] = { 0x0006, 0x0008, 0x0014, 0x0015, 0x0019, 0x000d, 0x0012, 0x000c, 0x001a, 0x0018, 0 };
static int cand_serial;
/* build the answer of the given kind to the request bytes [rq]; returns its length (0 = nothing to send) */
static size_t build_answer (const uint8_t *rq, size_t rl, const char *kind, int bogus, uint8_t *out, size_t outsz)
{
  if (!strcmp (kind, "garb")) { for (int i = 0; i < 36; i++) out[i] = (uint8_t) (i * 37 + 11); return 36; }
  uint8_t c[STUN_MAX_MESSAGE_SIZE_IPV6]; memcpy (c, rq, rl); if (bogus) { c[10] ^= 0x55; c[17] ^= 0xaa; }
  StunAgent sa; StunMessage req, rep; int old3489 = 0;
  stun_agent_init (&sa, srv_known, STUN_COMPATIBILITY_RFC5389, STUN_AGENT_USAGE_IGNORE_CREDENTIALS | STUN_AGENT_USAGE_NO_INDICATION_AUTH);
  StunValidationStatus st = stun_agent_validate (&sa, &req, c, rl, NULL, NULL);
  if (st == STUN_VALIDATION_BAD_REQUEST) { stun_agent_init (&sa, srv_known, STUN_COMPATIBILITY_RFC3489, STUN_AGENT_USAGE_IGNORE_CREDENTIALS); st = stun_agent_validate (&sa, &req, c, rl, NULL, NULL); old3489 = 1; }
  if (st != STUN_VALIDATION_SUCCESS && st != STUN_VALIDATION_UNKNOWN_REQUEST_ATTRIBUTE) return 0;
  uint16_t l; int authed = stun_message_find (&req, STUN_ATTRIBUTE_MESSAGE_INTEGRITY, &l) != NULL;
  uint8_t md5[16]; const uint8_t *key = NULL; size_t klen = 0;
  if (authed) { uint16_t rlm_len = 0; const uint8_t *rlm = stun_message_find (&req, STUN_ATTRIBUTE_REALM, &rlm_len);
    stun_hash_creds (rlm, rlm_len, (uint8_t *) "user", 4, (uint8_t *) "pass", 4, md5); key = md5; klen = 16; }
  struct sockaddr_storage ss; NiceAddress a; char ip[32]; nice_address_init (&a);
  if (!strcmp (kind, "ok")) {
    stun_agent_init_response (&sa, &rep, out, outsz, &req); cand_serial++;
    if (stun_message_get_method (&req) == STUN_BINDING) {
      sprintf (ip, "198.51.%d.%d", cand_serial / 250, cand_serial % 250 + 1); nice_address_set_from_string (&a, ip); nice_address_set_port (&a, 6000); nice_address_copy_to_sockaddr (&a, (struct sockaddr *) &ss);
      if (old3489) stun_message_append_addr (&rep, STUN_ATTRIBUTE_MAPPED_ADDRESS, (struct sockaddr *) &ss, sizeof ss); else stun_message_append_xor_addr (&rep, STUN_ATTRIBUTE_XOR_MAPPED_ADDRESS, &ss, sizeof ss);
    } else {
      sprintf (ip, "203.0.%d.%d", cand_serial / 250, cand_serial % 250 + 1); nice_address_set_from_string (&a, ip); nice_address_set_port (&a, 50000); nice_address_copy_to_sockaddr (&a, (struct sockaddr *) &ss);
      stun_message_append_xor_addr (&rep, STUN_ATTRIBUTE_RELAY_ADDRESS, &ss, sizeof ss); stun_message_append32 (&rep, STUN_ATTRIBUTE_LIFETIME, 600);
    }
  } else if (!strcmp (kind, "inv")) {
    /* an error-class answer without ERROR-CODE: validated by the StunAgent, ..._RETURN_INVALID for the handlers */
    stun_agent_init_error (&sa, &rep, out, outsz, &req, 500);
    /* drop the ERROR-CODE attribute stun_agent_init_error appended: the message is header only again */
    rep.buffer[2] = 0; rep.buffer[3] = 0;
  } else if (!strncmp (kind, "alt", 3)) {
    stun_agent_init_error (&sa, &rep, out, outsz, &req, 300); a = srv_addr (atoi (kind + 3)); nice_address_copy_to_sockaddr (&a, (struct sockaddr *) &ss);
    stun_message_append_addr (&rep, STUN_ATTRIBUTE_ALTERNATE_SERVER, (struct sockaddr *) &ss, sizeof ss);
  } else if (kind[0] == 'e') {
    int code = atoi (kind + 1); const char *dot = strchr (kind, '.'); int realm = dot ? atoi (dot + 1) : 0;
    stun_agent_init_error (&sa, &rep, out, outsz, &req, code);
    if (realm) { stun_message_append_string (&rep, STUN_ATTRIBUTE_REALM, realm == 1 ? "realmA" : "realmB"); stun_message_append_string (&rep, STUN_ATTRIBUTE_NONCE, "nonce"); }
  } else return 0;
  return stun_agent_finish_message (&sa, &rep, key, klen);
}

int main (void)
{
  static char line[1 << 18]; hc_init ();
  while (fgets (line, sizeof line, stdin)) {
    char *sv, *id = strtok_r (line, " \n", &sv); if (!id) continue;
    unsigned T = strtoul (strtok_r (NULL, " \n", &sv), NULL, 10), N = strtoul (strtok_r (NULL, " \n", &sv), NULL, 10);
    char *items = strtok_r (NULL, " \n", &sv);
    cur_s = 100; cur_us = 0; nsends = ndone_sig = 0; failmask = 0; memset (cur_len, 0, sizeof cur_len); memset (old_len, 0, sizeof old_len);
    ag = nice_agent_new (g_main_context_default (), NICE_COMPATIBILITY_RFC5245);
    g_object_set (ag, "upnp", FALSE, "ice-tcp", FALSE, NULL); ag->stun_initial_timeout = T; ag->stun_max_retransmissions = N;   /* set directly: the properties clamp to 20..9999 / 1..99 */
    g_signal_connect (ag, "candidate-gathering-done", G_CALLBACK (on_done), NULL);
    guint sid[3]; sid[1] = nice_agent_add_stream (ag, 1); sid[2] = nice_agent_add_stream (ag, 1);
    NiceStream *st[3]; NiceComponent *cm[3]; NiceSocket *sock[3]; TurnServer *turn[3][10]; memset (turn, 0, sizeof turn);
    agent_lock (ag);
    for (int g = 1; g <= 2; g++) { agent_find_component (ag, sid[g], 1, &st[g], &cm[g]); sock[g] = mk_sock (g); nice_component_attach_socket (cm[g], sock[g]); st[g]->gathering = (g == 1); }
    int nitems = 0; char *sv2;
    for (char *it = strtok_r (items, ",", &sv2); it; it = strtok_r (NULL, ",", &sv2), nitems++) {
      int g = it[1] - '0', k = atoi (it + 3); CandidateDiscovery *d = g_slice_new0 (CandidateDiscovery);
      d->nicesock = sock[g]; d->server = srv_addr (k); d->stream_id = sid[g]; d->component_id = 1;
      if (it[0] == 's') { d->type = NICE_CANDIDATE_TYPE_SERVER_REFLEXIVE; stun_agent_init (&d->stun_agent, STUN_ALL_KNOWN_ATTRIBUTES, STUN_COMPATIBILITY_RFC3489, 0); }
      else { d->type = NICE_CANDIDATE_TYPE_RELAYED; if (!turn[g][k]) turn[g][k] = turn_server_new ("10.9.0.1", 3478, "user", "pass", NICE_RELAY_TYPE_TURN_UDP), turn[g][k]->server = srv_addr (k);
        d->turn = turn_server_ref (turn[g][k]);
        stun_agent_init (&d->stun_agent, STUN_ALL_KNOWN_ATTRIBUTES, STUN_COMPATIBILITY_RFC5389, STUN_AGENT_USAGE_ADD_SOFTWARE | STUN_AGENT_USAGE_LONG_TERM_CREDENTIALS); }
      ag->discovery_list = g_slist_append (ag->discovery_list, d); ++ag->discovery_unsched_items;
    }
    agent_unlock_and_emit (ag);
    fprintf (hc_out, "%s ", id);
    char *op; int first = 1;
    while ((op = strtok_r (NULL, " \n", &sv))) {
      agent_lock (ag);
      if (op[0] == 'S' || op[0] == 'T') {
        long long s_, u_; unsigned fm; sscanf (op + 2, "%lld:%lld:%u", &s_, &u_, &fm); cur_s = s_; cur_us = u_;
        /* failures only hit items whose request is created in this tick */
        failmask = 0; int k = 0; for (GSList *i = ag->discovery_list; i; i = i->next, k++) if (!((CandidateDiscovery *) i->data)->pending && ((fm >> k) & 1)) failmask |= 1u << k;
        if (op[0] == 'S') { if (ag->discovery_unsched_items) discovery_schedule (ag); else agent_gathering_done (ag); }
        else if (ag->discovery_timer_source != NULL) priv_discovery_tick_agent_locked (ag, NULL);
        failmask = 0; capture ();
      } else if (op[0] == 'A') {
        int i; char which; char kind[32]; sscanf (op + 2, "%d:%c:%31s", &i, &which, kind);
        CandidateDiscovery *d = g_slist_nth_data (ag->discovery_list, i);
        const uint8_t *rq = which == 'o' ? old_req[i] : cur_req[i]; size_t rl = which == 'o' ? old_len[i] : cur_len[i];
        if (i < MAXI && rl) { uint8_t buf[1500]; size_t l = build_answer (rq, rl, kind, which == 'b', buf, sizeof buf);
          if (l) { /* the answer comes from where the request went; once the list is gone the packet still arrives on the first socket */
            NiceAddress from = d ? d->server : srv_addr (1); int g = d ? (d->stream_id == sid[1] ? 1 : 2) : 1;
            conn_check_handle_inbound_stun (ag, st[g], cm[g], sock[g], &from, (gchar *) buf, l); } }
      }
      agent_unlock_and_emit (ag);
      agent_lock (ag);
      fprintf (hc_out, "%s", first ? "" : ";"); first = 0;
      if (!ag->discovery_list) fprintf (hc_out, "-");
      int k = 0; for (GSList *i = ag->discovery_list; i; i = i->next, k++) { CandidateDiscovery *d = i->data;
        fprintf (hc_out, "%s%d.%d.%d.%u.%u.%lld.%d.%u", k ? "/" : "", d->pending ? 1 : 0, d->done ? 1 : 0, d->stun_message.buffer ? 1 : 0, d->timer.retransmissions, d->auth_retries, (long long) d->next_tick, srv_index (&d->server), DISC_REDIRECTS (d)); }
      int ncand = 0; for (int g = 1; g <= 2; g++) for (GSList *c = cm[g]->local_candidates; c; c = c->next) ncand++;
      fprintf (hc_out, "|%u|%d|%d|%d|%d|%d", ag->discovery_unsched_items, ag->discovery_timer_source ? 1 : 0, (st[1]->gathering || st[2]->gathering) ? 1 : 0, nsends, ncand, ndone_sig);
      agent_unlock (ag);
    }
    fprintf (hc_out, "\n");
    agent_lock (ag); discovery_free (ag); agent_unlock (ag);
    for (int g = 1; g <= 2; g++) for (int k = 0; k < 10; k++) if (turn[g][k]) turn_server_unref (turn[g][k]);
    g_object_unref (ag); ag = NULL;
  }
  fflush (hc_out); return 0;
}
