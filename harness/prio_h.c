/* Correspondence harness for C15: the real candidate.c (included, so statics are reachable), the real
 * agent_candidate_pair_priority / conn_check_compare / recalculate_pair_priorities, GLib's
 * g_slist_insert_sorted as conncheck.c uses it.  nice_interfaces_get_local_ips is replaced so that the
 * "ip local preference" (position of the address in the interface list) is an input of the case.
 * A failed g_assert is reported as "F" (SIGABRT caught). */
#include "agent/candidate.c"
#include "agent/conncheck.c"      /* peer_reflexive_candidate_priority (static): the PRIORITY attribute of the checks the agent sends */
#include "agent/agent-priv.h"
#include "agent/conncheck.h"
#include "agent/stream.h"
#include "hcommon.h"

static int n_ips = 4;
GList *nice_interfaces_get_local_ips (gboolean include_loopback)
{ GList *l = NULL; for (int i = n_ips - 1; i >= 0; i--) l = g_list_prepend (l, g_strdup_printf ("10.0.0.%d", i)); return l; }
GList *nice_interfaces_get_local_interfaces (void) { return NULL; }
gchar *nice_interfaces_get_ip_for_interface (gchar *n) { return NULL; }
guint nice_interfaces_get_if_index_by_addr (NiceAddress *a) { return 0; }
gboolean nice_interfaces_is_private_ip (const struct sockaddr *sa) { return FALSE; }

#define printf(...) fprintf (hc_out, __VA_ARGS__)
#define GUARDED(stmt) do { if (HC_TRY) { stmt; HC_END; } else { HC_END; printf (" F"); } } while (0)

static unsigned long long U (char **sv) { char *t = strtok_r (NULL, " \n", sv); return t ? strtoull (t, NULL, 10) : 0; }

int main (void)
{
  static char line[1 << 20];
  hc_init (); hc_catch_abort ();
  g_log_set_always_fatal (0);
  while (fgets (line, sizeof line, stdin)) {
    char *sv, *id = strtok_r (line, " \n", &sv); if (!id) continue;
    char *cmd = strtok_r (NULL, " \n", &sv);
    printf ("%s", id);
    if (!strcmp (cmd, "P")) { guint a = U (&sv), b = U (&sv), c = U (&sv); GUARDED (printf (" %u", nice_candidate_ice_priority_full (a, b, c))); }
    else if (!strcmp (cmd, "L")) { guint a = U (&sv), b = U (&sv), c = U (&sv); GUARDED (printf (" %u", (unsigned) nice_candidate_ice_local_preference_full (a, b, c))); }
    else if (!strcmp (cmd, "M")) { guint a = U (&sv), b = U (&sv), c = U (&sv), d = U (&sv); GUARDED (printf (" %u", (unsigned) nice_candidate_ms_ice_local_preference_full (a, b, c, d))); }
    else if (!strcmp (cmd, "Q")) { guint32 g = U (&sv), d = U (&sv); GUARDED (printf (" %llu", (unsigned long long) nice_candidate_pair_priority (g, d))); }
    else if (!strcmp (cmd, "C") || !strcmp (cmd, "D") || !strcmp (cmd, "T")) {
      /* reliable nat type transport turn_nonnull turn_type turn_pref ipidx nips component */
      gboolean rel = U (&sv), nat = U (&sv); guint type = U (&sv), tr = U (&sv), tnn = U (&sv), tty = U (&sv), tpref = U (&sv), ipidx = U (&sv);
      n_ips = U (&sv); guint comp = U (&sv);
      NiceCandidateImpl c; TurnServer ts; memset (&c, 0, sizeof c); memset (&ts, 0, sizeof ts);
      c.c.type = type; c.c.transport = tr; c.c.component_id = comp; ts.type = tty; ts.preference = tpref; c.turn = tnn ? &ts : NULL;
      char ip[32]; snprintf (ip, sizeof ip, "10.0.0.%u", ipidx);
      nice_address_set_from_string (&c.c.addr, ip); nice_address_set_from_string (&c.c.base_addr, ip);
      if (!strcmp (cmd, "C")) GUARDED (printf (" %u", nice_candidate_ice_priority (&c.c, rel, nat)));
      else if (!strcmp (cmd, "D")) GUARDED (printf (" %u", nice_candidate_ms_ice_priority (&c.c, rel, nat)));
      else GUARDED (printf (" %u", (unsigned) nice_candidate_ice_type_preference (&c.c, rel, nat)));
    }
    else if (!strcmp (cmd, "R")) {
      /* rank: reliable nat transport turn_type -> type preference of host, prflx, srflx, relayed */
      gboolean rel = U (&sv), nat = U (&sv); guint tr = U (&sv), tty = U (&sv);
      guint types[4] = { NICE_CANDIDATE_TYPE_HOST, NICE_CANDIDATE_TYPE_PEER_REFLEXIVE, NICE_CANDIDATE_TYPE_SERVER_REFLEXIVE, NICE_CANDIDATE_TYPE_RELAYED };
      for (int k = 0; k < 4; k++) {
        NiceCandidateImpl c; TurnServer ts; memset (&c, 0, sizeof c); memset (&ts, 0, sizeof ts);
        c.c.type = types[k]; c.c.transport = tr; c.c.component_id = 1; ts.type = tty; c.turn = &ts;
        GUARDED (printf (" %u", (unsigned) nice_candidate_ice_type_preference (&c.c, rel, nat)));
      }
    }
    else if (!strcmp (cmd, "A")) {
      NiceAgent *ag = g_malloc0 (sizeof (NiceAgent)); NiceCandidate l, r; memset (&l, 0, sizeof l); memset (&r, 0, sizeof r);
      ag->controlling_mode = U (&sv); l.priority = U (&sv); r.priority = U (&sv);
      GUARDED (printf (" %llu", (unsigned long long) agent_candidate_pair_priority (ag, &l, &r))); g_free (ag);
    }
    else if (!strcmp (cmd, "Y")) {
      /* PRIORITY attribute of a check sent from a local candidate: reliable transport ipidx nips component (RFC 5245 compatibility) */
      gboolean rel = U (&sv); guint tr = U (&sv), ipidx = U (&sv); n_ips = U (&sv); guint comp = U (&sv);
      NiceAgent *ag = g_malloc0 (sizeof (NiceAgent)); ag->compatibility = NICE_COMPATIBILITY_RFC5245; ag->reliable = rel;
      NiceCandidateImpl c; memset (&c, 0, sizeof c); c.c.type = NICE_CANDIDATE_TYPE_HOST; c.c.transport = tr; c.c.component_id = comp;
      char ip[32]; snprintf (ip, sizeof ip, "10.0.0.%u", ipidx);
      nice_address_set_from_string (&c.c.addr, ip); nice_address_set_from_string (&c.c.base_addr, ip);
      GUARDED (printf (" %u", peer_reflexive_candidate_priority (ag, &c.c))); g_free (ag);
      /* second field: what nice_candidate_ice_priority gives a peer-reflexive candidate with this transport, base and component (RFC 8445 7.1.1) */
      c.c.type = NICE_CANDIDATE_TYPE_PEER_REFLEXIVE; GUARDED (printf (" %u", nice_candidate_ice_priority (&c.c, rel, FALSE)));
    }
    else if (!strcmp (cmd, "X")) {
      CandidateCheckPair a, b; memset (&a, 0, sizeof a); memset (&b, 0, sizeof b); a.priority = U (&sv); b.priority = U (&sv);
      printf (" %d", conn_check_compare (&a, &b));
    }
    else if (!strcmp (cmd, "S")) {
      /* check list program: ctrl0 then ops a<id>:<l>:<r> | r<idx> | c<0|1> ; prints the list after every op */
      NiceAgent *ag = g_malloc0 (sizeof (NiceAgent)); NiceStream *st = g_malloc0 (sizeof (NiceStream));
      ag->streams = g_slist_append (NULL, st); ag->controlling_mode = U (&sv);
      char *op;
      while ((op = strtok_r (NULL, " \n", &sv))) {
        if (op[0] == 'a') {
          unsigned long long pid, l, r; sscanf (op + 1, "%llu:%llu:%llu", &pid, &l, &r);
          CandidateCheckPair *p = g_malloc0 (sizeof *p); p->local = g_malloc0 (sizeof (NiceCandidateImpl)); p->remote = g_malloc0 (sizeof (NiceCandidateImpl));
          p->stream_id = pid; p->local->priority = l; p->remote->priority = r;
          p->priority = agent_candidate_pair_priority (ag, p->local, p->remote);
          st->conncheck_list = g_slist_insert_sorted (st->conncheck_list, p, (GCompareFunc) conn_check_compare);
        } else if (op[0] == 'r') {
          GSList *n = g_slist_nth (st->conncheck_list, atoi (op + 1));
          if (n) { CandidateCheckPair *p = n->data; st->conncheck_list = g_slist_delete_link (st->conncheck_list, n); g_free (p->local); g_free (p->remote); g_free (p); }
        } else if (op[0] == 'c') {
          gboolean c = atoi (op + 1);
          if (c != ag->controlling_mode) { ag->controlling_mode = c; recalculate_pair_priorities (ag); }
        }
        printf (" |");
        for (GSList *i = st->conncheck_list; i; i = i->next) { CandidateCheckPair *p = i->data; printf (" %u:%llu", p->stream_id, (unsigned long long) p->priority); }
      }
      for (GSList *i = st->conncheck_list; i; i = i->next) { CandidateCheckPair *p = i->data; g_free (p->local); g_free (p->remote); g_free (p); }
      g_slist_free (st->conncheck_list); g_slist_free (ag->streams); g_free (st); g_free (ag);
    }
    printf ("\n");
  }
  fflush (hc_out);
  return 0;
}
