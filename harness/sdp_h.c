/* Correspondence harness for C18: the REAL nice_address_* functions and the REAL SDP generator / parser of
 * agent.c on real NiceAgent objects (no network: candidates are injected through the private headers).
 * Same line protocol as ocaml/sdp_driver.ml:
 *   address    -  |  4:<ip>:<port>  |  6:<32 hex digits>:<port>:<scope>
 *   candidate  <type>/<transport>/<priority>/<component>/<foundation hex|->/<address>/<base address>
 *   byte strings in hex, "-" = empty, "~" = NULL
 * Commands: A <hex text>             nice_address_set_from_string, then to_string / is_private / is_linklocal
 *           T <address>              to_string, classification, from_string (to_string)
 *           E <address> <address>    nice_address_equal, _equal_no_port, equality of the texts, then both swapped
 *           G <candidate>            generate_local_candidate_sdp then parse_remote_candidate_sdp of the line
 *           P <hex line>             parse_remote_candidate_sdp
 *           R <hex sdp>              parse_remote_stream_sdp
 *           S <n> {name ufrag pwd ncomp {k cand*k}*ncomp}*n   agent A: generate_local_sdp; agent B: parse_remote_sdp
 *           Q <n> <ncomp>*n <hex sdp>                        agent B: parse_remote_sdp of arbitrary text
 * "C1" in a parse result = GLib logged a CRITICAL during the call (the NULL-tcptype path). */
#include "agent/agent-priv.h"
#include "agent/component.h"
#include "agent/stream.h"
#include "hcommon.h"

static int n_glib_crit;
static void log_handler (const gchar *dom, GLogLevelFlags lvl, const gchar *msg, gpointer u)
{
  if ((lvl & G_LOG_LEVEL_CRITICAL) && dom && !strcmp (dom, "GLib")) n_glib_crit++;
}

#define printf(...) fprintf (hc_out, __VA_ARGS__)

static char *cstr_of_hex (const char *h)      /* exactly sized, NUL terminated heap copy */
{
  size_t n; unsigned char *b = hc_unhex (h, &n);
  char *s = malloc (n + 1); memcpy (s, b, n); s[n] = 0; free (b); return s;
}
static void put_hex_str (const char *s) { hc_puthex (hc_out, (const unsigned char *) s, strlen (s)); }

static void addr_of_tok (const char *t, NiceAddress *a)
{
  nice_address_init (a);
  if (t[0] == '4') {
    unsigned long ip, port; sscanf (t + 2, "%lu:%lu", &ip, &port);
    nice_address_set_ipv4 (a, (guint32) ip); nice_address_set_port (a, port);
  } else if (t[0] == '6') {
    guchar b[16]; unsigned long port, scope;
    for (int i = 0; i < 16; i++) b[i] = hc_hexval (t[2 + 2 * i]) * 16 + hc_hexval (t[3 + 2 * i]);
    sscanf (t + 35, "%lu:%lu", &port, &scope);
    nice_address_set_ipv6 (a, b); nice_address_set_port (a, port); a->s.ip6.sin6_scope_id = scope;
  }
}
static void put_addr (const NiceAddress *a)
{
  if (a->s.addr.sa_family == AF_INET)
    printf ("4:%u:%u", (unsigned) ntohl (a->s.ip4.sin_addr.s_addr), (unsigned) ntohs (a->s.ip4.sin_port));
  else if (a->s.addr.sa_family == AF_INET6) {
    printf ("6:");
    for (int i = 0; i < 16; i++) printf ("%02x", a->s.ip6.sin6_addr.s6_addr[i]);
    printf (":%u:%u", (unsigned) ntohs (a->s.ip6.sin6_port), (unsigned) a->s.ip6.sin6_scope_id);
  } else printf ("-");
}
static NiceCandidate *cand_of_tok (char *t)
{
  char *sv, *ty = strtok_r (t, "/", &sv), *tr = strtok_r (NULL, "/", &sv), *pr = strtok_r (NULL, "/", &sv),
       *co = strtok_r (NULL, "/", &sv), *f = strtok_r (NULL, "/", &sv), *a = strtok_r (NULL, "/", &sv), *b = strtok_r (NULL, "/", &sv);
  NiceCandidate *c = nice_candidate_new ((NiceCandidateType) atoi (ty));
  c->transport = (NiceCandidateTransport) atoi (tr);
  c->priority = (guint32) strtoull (pr, NULL, 10);
  c->component_id = (guint) strtoull (co, NULL, 10);
  char *fs = cstr_of_hex (f);
  g_strlcpy (c->foundation, fs, NICE_CANDIDATE_MAX_FOUNDATION); free (fs);
  addr_of_tok (a, &c->addr); addr_of_tok (b, &c->base_addr);
  return c;
}
static void put_cand (const NiceCandidate *c)
{
  printf ("%d/%d/%u/%u/", (int) c->type, (int) c->transport, (unsigned) c->priority, (unsigned) c->component_id);
  put_hex_str (c->foundation); printf ("/"); put_addr (&c->addr); printf ("/"); put_addr (&c->base_addr);
}
static void put_parse_result (NiceCandidate *c, int crit)
{
  if (!c) { printf ("N"); return; }
  printf ("C%d ", crit ? 1 : 0); put_cand (c);
}
static NiceAgent *new_agent (void)
{
  return nice_agent_new (g_main_context_default (), NICE_COMPATIBILITY_RFC5245);
}
static void dump_remote (NiceAgent *b)
{
  for (GSList *i = b->streams; i; i = i->next) {
    NiceStream *st = i->data;
    printf (" | "); put_hex_str (st->remote_ufrag); printf (" "); put_hex_str (st->remote_password);
    for (GSList *j = st->components; j; j = j->next) {
      NiceComponent *co = j->data;
      printf (" #%u", g_slist_length (co->remote_candidates));
      for (GSList *k = co->remote_candidates; k; k = k->next) { printf (" "); put_cand (k->data); }
    }
  }
}

int main (void)
{
  static char line[1 << 20];
  hc_init ();
  g_log_set_always_fatal (0);
  g_log_set_default_handler (log_handler, NULL);
  NiceAgent *ag = new_agent ();
  nice_agent_add_stream (ag, 1);
  while (fgets (line, sizeof line, stdin)) {
    char *sv, *id = strtok_r (line, " \n", &sv); if (!id) continue;
    char *cmd = strtok_r (NULL, " \n", &sv);
    printf ("%s ", id);
    if (!strcmp (cmd, "A")) {
      char *s = cstr_of_hex (strtok_r (NULL, " \n", &sv));
      NiceAddress a; nice_address_init (&a);
      if (!nice_address_set_from_string (&a, s)) printf ("N");
      else {
        char buf[INET6_ADDRSTRLEN + 8] = "";
        put_addr (&a); nice_address_to_string (&a, buf);
        printf (" "); put_hex_str (buf);
        printf (" p%d l%d v%d", nice_address_is_private (&a) ? 1 : 0, nice_address_is_linklocal (&a) ? 1 : 0, nice_address_ip_version (&a));
      }
      free (s);
    } else if (!strcmp (cmd, "T")) {
      NiceAddress a, r; addr_of_tok (strtok_r (NULL, " \n", &sv), &a);
      char *buf = calloc (1, INET6_ADDRSTRLEN);         /* exactly the documented size: ASan sees an overrun */
      nice_address_to_string (&a, buf);
      put_hex_str (buf);
      printf (" p%d l%d ", nice_address_is_private (&a) ? 1 : 0, nice_address_is_linklocal (&a) ? 1 : 0);
      nice_address_init (&r);
      if (nice_address_set_from_string (&r, buf)) put_addr (&r); else printf ("N");
      free (buf);
    } else if (!strcmp (cmd, "E")) {
      NiceAddress a, b; char *ta = strtok_r (NULL, " \n", &sv), *tb = strtok_r (NULL, " \n", &sv);
      addr_of_tok (ta, &a); addr_of_tok (tb, &b);
      char sa[INET6_ADDRSTRLEN] = "", sb[INET6_ADDRSTRLEN] = "";
      nice_address_to_string (&a, sa); nice_address_to_string (&b, sb);
      printf ("%d %d %d %d %d", nice_address_equal (&a, &b) ? 1 : 0, nice_address_equal_no_port (&a, &b) ? 1 : 0, !strcmp (sa, sb),
              nice_address_equal (&b, &a) ? 1 : 0, nice_address_equal_no_port (&b, &a) ? 1 : 0);
    } else if (!strcmp (cmd, "G")) {
      NiceCandidate *c = cand_of_tok (strtok_r (NULL, " \n", &sv));
      gchar *l = nice_agent_generate_local_candidate_sdp (ag, c);
      put_hex_str (l); printf (" ");
      char *copy = malloc (strlen (l) + 1); strcpy (copy, l);       /* exactly sized */
      n_glib_crit = 0;
      NiceCandidate *p = nice_agent_parse_remote_candidate_sdp (ag, 1, copy);
      put_parse_result (p, n_glib_crit);
      if (p) nice_candidate_free (p);
      free (copy); g_free (l); nice_candidate_free (c);
    } else if (!strcmp (cmd, "P")) {
      char *s = cstr_of_hex (strtok_r (NULL, " \n", &sv));
      n_glib_crit = 0;
      NiceCandidate *p = nice_agent_parse_remote_candidate_sdp (ag, 1, s);
      put_parse_result (p, n_glib_crit);
      if (p) nice_candidate_free (p);
      free (s);
    } else if (!strcmp (cmd, "R")) {
      char *s = cstr_of_hex (strtok_r (NULL, " \n", &sv));
      gchar *uf = NULL, *pw = NULL;
      GSList *cs = nice_agent_parse_remote_stream_sdp (ag, 1, s, &uf, &pw);
      printf ("U"); if (uf) put_hex_str (uf); else printf ("~");
      printf (" W"); if (pw) put_hex_str (pw); else printf ("~");
      printf (" %u", g_slist_length (cs));
      for (GSList *i = cs; i; i = i->next) { printf (" "); put_cand (i->data); }
      g_slist_free_full (cs, (GDestroyNotify) nice_candidate_free); g_free (uf); g_free (pw); free (s);
    } else if (!strcmp (cmd, "S")) {
      int n = atoi (strtok_r (NULL, " \n", &sv));
      NiceAgent *a = new_agent (), *b = new_agent ();
      for (int si = 0; si < n; si++) {
        char *name = strtok_r (NULL, " \n", &sv), *uf = strtok_r (NULL, " \n", &sv), *pw = strtok_r (NULL, " \n", &sv);
        int nc = atoi (strtok_r (NULL, " \n", &sv));
        guint sid = nice_agent_add_stream (a, nc); nice_agent_add_stream (b, nc);
        NiceStream *st = agent_find_stream (a, sid);
        if (strcmp (name, "~")) { char *nm = cstr_of_hex (name); st->name = g_strdup (nm); free (nm); }
        char *ufs = cstr_of_hex (uf), *pws = cstr_of_hex (pw);
        nice_agent_set_local_credentials (a, sid, ufs, pws); free (ufs); free (pws);
        for (int ci = 1; ci <= nc; ci++) {
          int k = atoi (strtok_r (NULL, " \n", &sv));
          NiceComponent *co = nice_stream_find_component_by_id (st, ci);
          for (int j = 0; j < k; j++) {
            NiceCandidate *c = cand_of_tok (strtok_r (NULL, " \n", &sv));
            c->stream_id = sid;
            co->local_candidates = g_slist_append (co->local_candidates, c);
          }
        }
      }
      gchar *sdp = nice_agent_generate_local_sdp (a);
      put_hex_str (sdp);
      char *copy = malloc (strlen (sdp) + 1); strcpy (copy, sdp);
      int ret = nice_agent_parse_remote_sdp (b, copy);
      printf (" ret=%d", ret);
      dump_remote (b);
      free (copy); g_free (sdp);
      g_object_unref (a); g_object_unref (b);
    } else if (!strcmp (cmd, "Q")) {
      int n = atoi (strtok_r (NULL, " \n", &sv));
      NiceAgent *b = new_agent ();
      for (int si = 0; si < n; si++) nice_agent_add_stream (b, atoi (strtok_r (NULL, " \n", &sv)));
      char *s = cstr_of_hex (strtok_r (NULL, " \n", &sv));
      int ret = nice_agent_parse_remote_sdp (b, s);
      printf ("ret=%d", ret);
      dump_remote (b);
      free (s); g_object_unref (b);
    }
    printf ("\n");
    fflush (hc_out);     /* one line per case on the wire: after a sanitizer abort the first case without output is the culprit */
  }
  fflush (hc_out);
  return 0;
}
