/* Correspondence harness for C16: the REAL socket/udp-turn.c (and the real stun message code it uses)
 * driven over a scripted base NiceSocket under a virtual clock.
 *
 *   - base socket: vtable implemented here (type UDP_BSD, unreliable: send_messages_reliable fails
 *     like udp-bsd.c does); every datagram the TURN layer hands down is logged (destination + bytes);
 *   - relay side: packets are injected through nice_udp_turn_socket_parse_recv_message() (the entry
 *     point agent.c uses) in an EXACTLY-SIZED heap buffer, so ASan sees any read beyond the packet;
 *     the build uses -fsanitize-recover=address and __asan_on_error() turns a report into the
 *     token "!" (the model prints the same token when a checked read is out of range);
 *   - clock_gettime is defined here: GLib timeout sources and stun/usages/timer.c follow it;
 *   - stun/stunhmac.c and stun/rand.c are NOT linked: transaction ids are a counter, MESSAGE-INTEGRITY
 *     is the constant 20 x 0x5a (the model treats MI as an opaque trailer), see props/C16.py.
 *
 * line  : <id> <compat 0..4> <userhex> <passhex> op...
 *   S:<addr>:<hex>       nice_socket_send_messages (turn, addr, payload)        -> S<ret> {>addr:hex}
 *   B:<addr>             nice_udp_turn_socket_set_peer                          -> B<ret> {>..}
 *   R:<addr>:<template>  packet from addr; {TTTT.j} = bytes 4..19 of the j-th most recent datagram
 *                        sent down whose first two bytes are TTTT              -> R<ret>:<from>:<hex>:<fs> {>..} | R!
 *   T:<ms>               advance the clock, dispatch until quiescent            -> T {>..}
 *   K:<realm>:<nonce>    nice_udp_turn_socket_cache_realm_nonce                 -> K
 *   M:<realm>            nice_udp_turn_socket_set_ms_realm                      -> M
 *   C:<24 bytes>         nice_udp_turn_socket_set_ms_connection_id              -> C
 * addr  : '4' ip(8 hex) port(4 hex) | '6' ip(32 hex) port(4 hex)
 */
#include <time.h>
#include <glib.h>
#include "socket/socket.h"
#include "socket/udp-turn.h"
#include "agent/address.h"
#include "stun/stunagent.h"
#include "stun/stunhmac.h"
#include "agent/debug.h"
#include "hcommon.h"

/* ---- virtual clock --------------------------------------------------------------------------- */
static long long now_us;
int clock_gettime (clockid_t id, struct timespec *ts)
{ ts->tv_sec = now_us / 1000000; ts->tv_nsec = (now_us % 1000000) * 1000; return 0; }

/* ---- deterministic replacements of stun/rand.c and stun/stunhmac.c ------------------------------ */
static unsigned tid_counter;
void nice_RAND_nonce (uint8_t *dst, int len)
{
  tid_counter++;
  for (int i = 0; i < len; i++) dst[i] = 0xa0 + i;
  if (len >= 4) { dst[len - 4] = tid_counter >> 24; dst[len - 3] = tid_counter >> 16; dst[len - 2] = tid_counter >> 8; dst[len - 1] = tid_counter; }
}
void stun_make_transid (StunTransactionId id) { nice_RAND_nonce (id, 16); }
void stun_sha1 (const uint8_t *msg, size_t len, size_t msg_len, uint8_t *sha, const void *key, size_t keylen, int padding)
{ memset (sha, 0x5a, 20); }
void stun_hash_creds (const uint8_t *realm, size_t realm_len, const uint8_t *username, size_t username_len,
    const uint8_t *password, size_t password_len, unsigned char md5[16])
{ memset (md5, 0x3c, 16); }

/* ---- sanitizer reports become a token ---------------------------------------------------------- */
static volatile int asan_hits;
void __asan_on_error (void) { asan_hits++; }
const char *__asan_default_options (void) { return "halt_on_error=0:suppress_equal_pcs=0:detect_leaks=0:allocator_may_return_null=1"; }

/* ---- scripted base socket ----------------------------------------------------------------------- */
typedef struct { NiceAddress to; unsigned char *b; size_t n; } Dgram;
static Dgram *dlog; static size_t dlog_n, dlog_cap, dlog_printed;
static gint base_send (NiceSocket *s, const NiceAddress *to, const NiceOutputMessage *m, guint n)
{
  for (guint k = 0; k < n; k++) {
    size_t tot = 0; guint j;
    for (j = 0; (m[k].n_buffers >= 0 && j < (guint) m[k].n_buffers) || (m[k].n_buffers < 0 && m[k].buffers[j].buffer); j++) tot += m[k].buffers[j].size;
    unsigned char *b = malloc (tot ? tot : 1); size_t o = 0;
    for (guint i = 0; i < j; i++) { memcpy (b + o, m[k].buffers[i].buffer, m[k].buffers[i].size); o += m[k].buffers[i].size; }
    if (dlog_n == dlog_cap) { dlog_cap = dlog_cap ? 2 * dlog_cap : 64; dlog = realloc (dlog, dlog_cap * sizeof *dlog); }
    dlog[dlog_n].to = *to; dlog[dlog_n].b = b; dlog[dlog_n].n = tot; dlog_n++;
  }
  return n;
}
static gint base_send_reliable (NiceSocket *s, const NiceAddress *to, const NiceOutputMessage *m, guint n) { return -1; }
static gint base_recv (NiceSocket *s, NiceInputMessage *m, guint n) { return 0; }
static gboolean base_is_reliable (NiceSocket *s) { return FALSE; }
static gboolean base_can_send (NiceSocket *s, NiceAddress *a) { return TRUE; }
static void base_set_writable (NiceSocket *s, NiceSocketWritableCb cb, gpointer u) { }
static gboolean base_is_based_on (NiceSocket *s, NiceSocket *o) { return s == o; }
static void base_close (NiceSocket *s) { }
static NiceSocket *base_new (void)
{
  NiceSocket *s = g_slice_new0 (NiceSocket);
  s->type = NICE_SOCKET_TYPE_UDP_BSD; s->recv_messages = base_recv; s->send_messages = base_send;
  s->send_messages_reliable = base_send_reliable; s->is_reliable = base_is_reliable; s->can_send = base_can_send;
  s->set_writable_callback = base_set_writable; s->is_based_on = base_is_based_on; s->close = base_close;
  return s;
}

/* ---- addresses ------------------------------------------------------------------------------------ */
static int parse_addr (const char *t, size_t tl, NiceAddress *a)
{
  unsigned char raw[18]; size_t need = t[0] == '4' ? 6 : t[0] == '6' ? 18 : 0;
  if (!need || tl != 1 + 2 * need) return 0;
  for (size_t i = 0; i < need; i++) raw[i] = hc_hexval (t[1 + 2 * i]) * 16 + hc_hexval (t[2 + 2 * i]);
  nice_address_init (a);
  if (t[0] == '4') nice_address_set_ipv4 (a, ((guint32) raw[0] << 24) | (raw[1] << 16) | (raw[2] << 8) | raw[3]);
  else nice_address_set_ipv6 (a, raw);
  nice_address_set_port (a, (raw[need - 2] << 8) | raw[need - 1]);
  return 1;
}
static void put_addr (const NiceAddress *a)
{
  if (a->s.addr.sa_family == AF_INET) { fputc ('4', hc_out); hc_puthex (hc_out, (const unsigned char *) &a->s.ip4.sin_addr, 4); hc_puthex (hc_out, (const unsigned char *) &a->s.ip4.sin_port, 2); }
  else if (a->s.addr.sa_family == AF_INET6) { fputc ('6', hc_out); hc_puthex (hc_out, (const unsigned char *) &a->s.ip6.sin6_addr, 16); hc_puthex (hc_out, (const unsigned char *) &a->s.ip6.sin6_port, 2); }
  else fputc ('0', hc_out);
}
static void flush_log (void)
{
  for (; dlog_printed < dlog_n; dlog_printed++) {
    fputs (" >", hc_out); put_addr (&dlog[dlog_printed].to); fputc (':', hc_out);
    hc_puthex (hc_out, dlog[dlog_printed].b, dlog[dlog_printed].n);
  }
}

/* expand a packet template: hex digits and {TTTT.j} placeholders */
static unsigned char *expand (const char *t, size_t *n)
{
  size_t cap = strlen (t) / 2 + 16, o = 0; unsigned char *b = malloc (cap);
  while (*t && *t != '-') {
    if (*t == '{') {
      unsigned ty = 0; int j = 0; const char *p = t + 1;
      for (int i = 0; i < 4; i++) ty = ty * 16 + hc_hexval (*p++);
      if (*p == '.') p++;
      j = atoi (p); while (*p && *p != '}') p++; if (*p) p++;
      t = p;
      unsigned char tid[16]; memset (tid, 0, 16);
      for (size_t k = dlog_n; k-- > 0;) {
        if (dlog[k].n >= 20 && dlog[k].b[0] == (ty >> 8) && dlog[k].b[1] == (ty & 255)) { if (j-- == 0) { memcpy (tid, dlog[k].b + 4, 16); break; } }
      }
      if (o + 16 > cap) { cap = 2 * cap + 16; b = realloc (b, cap); }
      memcpy (b + o, tid, 16); o += 16;
    } else {
      if (o + 1 > cap) { cap = 2 * cap + 16; b = realloc (b, cap); }
      b[o++] = hc_hexval (t[0]) * 16 + hc_hexval (t[1]); t += 2;
    }
  }
  /* exactly-sized copy */
  unsigned char *e = malloc (o); memcpy (e, b, o); free (b); *n = o; return e;
}

static gchar *cred (int compat, const unsigned char *b, size_t n)
{
  if (compat == NICE_TURN_SOCKET_COMPATIBILITY_MSN || compat == NICE_TURN_SOCKET_COMPATIBILITY_OC2007)
    return g_base64_encode (b, n);
  return g_strndup ((const char *) b, n);
}

/* a StunMessage carrying one attribute (for the set_ms_* / cache_realm_nonce entry points) */
static void one_attr_msg (StunAgent *ag, StunMessage *m, uint8_t *buf, size_t cap, int compat)
{
  stun_agent_init (ag, STUN_ALL_KNOWN_ATTRIBUTES,
      compat == NICE_TURN_SOCKET_COMPATIBILITY_OC2007 ? STUN_COMPATIBILITY_OC2007 : STUN_COMPATIBILITY_RFC5389,
      compat == NICE_TURN_SOCKET_COMPATIBILITY_OC2007 ? (STUN_AGENT_USAGE_LONG_TERM_CREDENTIALS | STUN_AGENT_USAGE_NO_ALIGNED_ATTRIBUTES) : STUN_AGENT_USAGE_LONG_TERM_CREDENTIALS);
  StunTransactionId id; memset (id, 0, sizeof id); id[0] = 0x21; id[1] = 0x12; id[2] = 0xa4; id[3] = 0x42;   /* has_cookie: exact attribute lengths */
  m->buffer = buf; m->buffer_len = cap; m->agent = ag; m->key = NULL; m->key_len = 0; m->long_term_valid = FALSE;
  stun_message_init (m, STUN_RESPONSE, STUN_ALLOCATE, id);
}

static void quiet_log (const gchar *d, GLogLevelFlags l, const gchar *m, gpointer u) { }

int main (void)
{
  size_t cap = 1 << 22; char *line = malloc (cap);
  hc_init (); hc_catch_abort ();
  unsetenv ("DBUS_SESSION_BUS_ADDRESS"); unsetenv ("HOSTNAME");
  g_log_set_always_fatal (0);
  if (getenv ("TURN_H_DEBUG")) { nice_debug_enable (TRUE); } else g_log_set_default_handler (quiet_log, NULL);
  while (fgets (line, cap, stdin)) {
    char *sv, *id = strtok_r (line, " \n", &sv); if (!id) continue;
    int compat = atoi (strtok_r (NULL, " \n", &sv));
    size_t ul, pl; unsigned char *ub = hc_unhex (strtok_r (NULL, " \n", &sv), &ul), *pb = hc_unhex (strtok_r (NULL, " \n", &sv), &pl);
    gchar *user = cred (compat, ub, ul), *pass = cred (compat, pb, pl);
    now_us = 1000000000LL; tid_counter = 0; asan_hits = 0;
    dlog_n = dlog_printed = 0;
    GMainContext *ctx = g_main_context_new ();
    NiceSocket *base = base_new ();
    NiceAddress local, server;
    parse_addr ("40a0000011388", 13, &local); parse_addr ("4c0000201" "0d96", 13, &server);
    NiceSocket *turn = nice_udp_turn_socket_new (ctx, &local, base, &server, user, pass, compat);
    fprintf (hc_out, "%s", id);
    char *op; int dead = 0;
    while ((op = strtok_r (NULL, " \n", &sv))) {
      if (dead) continue;
      char k = op[0]; char *a1 = op + 2, *a2 = strchr (a1, ':'); size_t a1l = a2 ? (size_t) (a2 - a1) : strlen (a1); if (a2) a2++;
      fputc (' ', hc_out);
      if (k == 'S') {
        NiceAddress to; parse_addr (a1, a1l, &to);
        size_t n; unsigned char *p = hc_unhex (a2, &n);
        /* the payload is handed over scattered (1..4 buffers, zero-length ones included; layout derived from its length and first byte):
         * the relay must see the same bytes whatever the layout */
        GOutputVector v[5]; guint nv = 1 + (n + (n ? p[0] : 0)) % 4; gsize off = 0;
        for (guint k = 0; k < nv; k++) { gsize rem = n - off, sz = k == nv - 1 ? rem : (k == 1 && (n & 1) ? 0 : rem / (nv - k)); v[k].buffer = p + off; v[k].size = sz; off += sz; }
        NiceOutputMessage m = { v, (gint) nv };
        gint r = nice_socket_send_messages (turn, &to, &m, 1);
        fprintf (hc_out, "S%d", r); free (p);
      } else if (k == 'B') {
        NiceAddress to; parse_addr (a1, a1l, &to);
        fprintf (hc_out, "B%d", nice_udp_turn_socket_set_peer (turn, &to) ? 1 : 0);
      } else if (k == 'R') {
        NiceAddress from; parse_addr (a1, a1l, &from);
        size_t n; unsigned char *p = expand (a2, &n);
        GInputVector v = { p, n }; NiceInputMessage m = { &v, 1, &from, n };
        NiceSocket *fs = NULL; int before = asan_hits; guint r = 0; int aborted = 0;
        if (HC_TRY) { r = nice_udp_turn_socket_parse_recv_message (turn, &fs, &m); HC_END; } else { HC_END; aborted = 1; }
        if (asan_hits != before || aborted) { fputs (aborted ? "R!abort" : "R!", hc_out); dead = 1; }
        else { fprintf (hc_out, "R%u:", r); put_addr (&from); fputc (':', hc_out); hc_puthex (hc_out, p, m.length); fprintf (hc_out, ":%d", fs == turn); }
        free (p);
      } else if (k == 'T') {
        now_us += atoll (a1) * 1000;
        for (int i = 0; i < 10000 && g_main_context_iteration (ctx, FALSE); i++) ;
        fputc ('T', hc_out);
      } else if (k == 'K' || k == 'M' || k == 'C') {
        StunAgent ag; StunMessage m; static uint8_t buf[4096];
        one_attr_msg (&ag, &m, buf, sizeof buf, compat);
        size_t n1, n2 = 0; char *c = a2 ? a2 - 1 : NULL; if (c) *c = 0;
        unsigned char *v1 = hc_unhex (a1, &n1), *v2 = a2 ? hc_unhex (a2, &n2) : NULL;
        if (k == 'K') {
          if (strcmp (a1, "~")) stun_message_append_bytes (&m, STUN_ATTRIBUTE_REALM, v1, n1);
          if (a2 && strcmp (a2, "~")) stun_message_append_bytes (&m, STUN_ATTRIBUTE_NONCE, v2, n2);
          nice_udp_turn_socket_cache_realm_nonce (turn, &m);
        } else if (k == 'M') {
          stun_message_append_bytes (&m, STUN_ATTRIBUTE_REALM, v1, n1);
          nice_udp_turn_socket_set_ms_realm (turn, &m);
        } else {
          stun_message_append_bytes (&m, STUN_ATTRIBUTE_MS_SEQUENCE_NUMBER, v1, n1);
          nice_udp_turn_socket_set_ms_connection_id (turn, &m);
        }
        fputc (k, hc_out); free (v1); free (v2);
      } else fputc ('?', hc_out);
      if (!dead) flush_log ();
    }
    fputc ('\n', hc_out);
    nice_socket_free (turn);
    for (int i = 0; i < 100 && g_main_context_iteration (ctx, FALSE); i++) ;
    g_main_context_unref (ctx);
    nice_socket_free (base);
    for (size_t i = 0; i < dlog_n; i++) free (dlog[i].b);
    g_free (user); g_free (pass); free (ub); free (pb);
  }
  fflush (hc_out);
  return 0;
}
