/* Tie for coq/Agent/CheckListModel.v: the real (mostly static) check-list functions of agent/conncheck.c on fabricated check lists.
 *
 * line:  <id> <op> <a1> <a2> <a3> <a4>  A <rfc> <ctl> <disc>  { S <creds> <ncomp> { C <state> <sel> <selloc> <selrem> <hasremote> }*ncomp  <npairs>
 *                 (sel = selected_pair.priority; selloc / selrem = local / remote candidate of the selected pair, 0 = NULL)
 *                 { P <pid> <comp> <lf> <rf> <loc> <rem> <prio> <state> <nom> <valid> <usec> <mnora> <retrans> <stun> <trig> <disc> }*npairs }*
 *        pair state letters: Z frozen, W waiting, I in-progress, S succeeded, F failed, D discovered.
 *  ops:  un               priv_conn_check_unfreeze_next (agent)
 *        ur <pid>         conn_check_unfreeze_related (agent, pair)
 *        um <pid>         priv_conn_check_unfreeze_maybe (agent, pair)
 *        fw <si>          priv_conn_check_find_next_waiting (stream->conncheck_list)           ret = pid or 0
 *        oc <si> <ok>     priv_conn_check_ordinary_check (agent, stream); the socket's send succeeds iff ok
 *        oa <okmask>      for (streams && !stun_sent) stun_sent = priv_conn_check_ordinary_check (...)   (loop of the Ta tick)
 *        fc <si>          priv_update_check_list_failed_components (agent, stream)
 *        pr <si> <cid>    priv_prune_pending_checks (agent, stream, component)                   ret = its result
 *        fr <si> <cid>    conn_check_update_check_list_state_for_ready (agent, stream, component)
 *        mn <si> <cid> <loc> <rem>   priv_mark_pair_nominated (agent, stream, component, localcand, remotecand)
 * out:   <id> <ret> { S <pid>:<state><nom><valid><usec><mnora><retrans><stun><trig>,... | <cstate>:<sel>:<selloc>:<selrem>,... } # <si>.<cid>.<state>,...
 *        (signals in emission order; state 100 = new-selected-pair)
 *        or "<id> Fault" when a g_assert of the code under test failed. */
#include "hcommon.h"
#include "agent/conncheck.c"

static int send_ok = 1;
static gint fk_send (NiceSocket *s, const NiceAddress *to, const NiceOutputMessage *m, guint n) { (void) s; (void) to; (void) m; return send_ok ? (gint) n : -1; }
static gint fk_send_rel (NiceSocket *s, const NiceAddress *to, const NiceOutputMessage *m, guint n) { (void) s; (void) to; (void) m; (void) n; return -1; }
static gboolean fk_is_rel (NiceSocket *s) { (void) s; return FALSE; }
static NiceSocket fk;

#define MAXS 4
#define MAXP 64
static struct { CandidateCheckPair *ptr; int pid; } PT[MAXS * MAXP]; static int npt;
static NiceCandidate *CANDS[4 * MAXS * MAXP]; static int ncands;
static char sigbuf[4096]; static guint SID[MAXS];

static int pid_of (CandidateCheckPair *p) { for (int i = 0; i < npt; i++) if (PT[i].ptr == p) return PT[i].pid; return -1; }
static CandidateCheckPair *ptr_of (int pid) { for (int i = 0; i < npt; i++) if (PT[i].pid == pid) return PT[i].ptr; return NULL; }
static void on_state (NiceAgent *a, guint sid, guint cid, guint st, gpointer u)
{ (void) a; (void) u; int si = -1; for (int i = 0; i < MAXS; i++) if (SID[i] == sid) si = i;
  size_t l = strlen (sigbuf); snprintf (sigbuf + l, sizeof sigbuf - l, "%d.%u.%u,", si, cid, st); }

static void on_selected (NiceAgent *a, guint sid, guint cid, gchar *lf, gchar *rf, gpointer u)
{ (void) a; (void) u; (void) lf; (void) rf; int si = -1; for (int i = 0; i < MAXS; i++) if (SID[i] == sid) si = i;
  size_t l = strlen (sigbuf); snprintf (sigbuf + l, sizeof sigbuf - l, "%d.%u.100,", si, cid); }

static NiceCandidate *cand (int remote, guint sid, int comp, int idn, int fnd, int creds)
{
  for (int i = 0; i < ncands; i++) { NiceCandidate *c = CANDS[i];
    if (c->stream_id == sid && (int) c->component_id == comp && (int) nice_address_get_port (&c->addr) == 1000 + idn && (c->addr.s.ip4.sin_addr.s_addr == htonl (remote ? 0x0a050002 : 0x0a050001))) return c; }
  NiceCandidate *c = nice_candidate_new (NICE_CANDIDATE_TYPE_HOST); char ip[32];
  sprintf (ip, "10.5.0.%d", remote ? 2 : 1); nice_address_set_from_string (&c->addr, ip); nice_address_set_port (&c->addr, 1000 + idn); c->base_addr = c->addr;
  c->transport = NICE_CANDIDATE_TRANSPORT_UDP; c->stream_id = sid; c->component_id = comp; c->priority = 1000 + idn;
  snprintf (c->foundation, sizeof c->foundation, "%d", fnd);
  if (creds) { c->username = g_strdup (remote ? "ru" : "lu"); c->password = g_strdup (remote ? "rpasswordrpasswordrpass" : "lpasswordlpasswordlpass"); }
  ((NiceCandidateImpl *) c)->sockptr = &fk; CANDS[ncands++] = c; return c;
}
static NiceCheckState st_of (char c) { switch (c) { case 'Z': return NICE_CHECK_FROZEN; case 'W': return NICE_CHECK_WAITING; case 'I': return NICE_CHECK_IN_PROGRESS; case 'S': return NICE_CHECK_SUCCEEDED; case 'F': return NICE_CHECK_FAILED; default: return NICE_CHECK_DISCOVERED; } }

int main (void)
{
  static char line[1 << 17]; hc_init (); hc_catch_abort ();
  memset (&fk, 0, sizeof fk); fk.type = NICE_SOCKET_TYPE_UDP_BSD; fk.send_messages = fk_send; fk.send_messages_reliable = fk_send_rel; fk.is_reliable = fk_is_rel;
  nice_address_init (&fk.addr); nice_address_set_from_string (&fk.addr, "10.5.0.1"); nice_address_set_port (&fk.addr, 999);
  while (fgets (line, sizeof line, stdin)) {
    char *sv, *id = strtok_r (line, " \n", &sv); if (!id) continue;
#define TOK strtok_r (NULL, " \n", &sv)
#define INT atoi (TOK)
    char op[8]; snprintf (op, sizeof op, "%s", TOK); long a1 = atol (TOK), a2 = atol (TOK), a3 = atol (TOK), a4 = atol (TOK);
    TOK; int rfc = INT, ctl = INT, disc = INT;
    NiceAgent *ag = nice_agent_new (g_main_context_default (), rfc ? NICE_COMPATIBILITY_RFC5245 : NICE_COMPATIBILITY_GOOGLE);
    g_object_set (ag, "controlling-mode", ctl, "upnp", FALSE, NULL);
    g_signal_connect (ag, "component-state-changed", G_CALLBACK (on_state), NULL);
    g_signal_connect (ag, "new-selected-pair", G_CALLBACK (on_selected), NULL);
    NiceStream *ST[MAXS]; int ns = 0, discl[MAXS * MAXP][2], ndl = 0; GSList *rem[MAXS][8]; memset (rem, 0, sizeof rem);
    npt = 0; ncands = 0; sigbuf[0] = 0; memset (SID, 0, sizeof SID);
    char *t;
    while ((t = TOK) && t[0] == 'S') {
      int creds = INT, nc = INT; guint sid = nice_agent_add_stream (ag, nc); SID[ns] = sid;
      agent_lock (ag); NiceStream *st = agent_find_stream (ag, sid); ST[ns] = st;
      if (creds) { g_strlcpy (st->remote_ufrag, "rufrag", NICE_STREAM_MAX_UFRAG); g_strlcpy (st->remote_password, "rpasswordrpasswordrpass", NICE_STREAM_MAX_PWD); }
      for (int c = 1; c <= nc; c++) { TOK; NiceComponent *cm = nice_stream_find_component_by_id (st, c);
        cm->state = INT; cm->selected_pair.priority = strtoull (TOK, NULL, 10); int sl = INT, sr = INT;
        if (sl) cm->selected_pair.local = (NiceCandidateImpl *) cand (0, sid, c, sl, sl, creds);
        if (sr) cm->selected_pair.remote = (NiceCandidateImpl *) cand (1, sid, c, sr, sr, creds);
        if (INT) rem[ns][c] = g_slist_prepend (NULL, cand (1, sid, c, 900, 900, creds)); }
      int np = INT;
      for (int k = 0; k < np; k++) { TOK; CandidateCheckPair *p = g_slice_new0 (CandidateCheckPair);
        int pid = INT; p->stream_id = sid; p->component_id = INT; int lf = INT, rf = INT, loc = INT, rm = INT;
        p->local = cand (0, sid, p->component_id, loc, lf, creds); p->remote = cand (1, sid, p->component_id, rm, rf, creds); p->sockptr = &fk;
        g_snprintf (p->foundation, NICE_CANDIDATE_PAIR_MAX_FOUNDATION, "%d:%d", lf, rf);
        p->priority = strtoull (TOK, NULL, 10); p->state = st_of (TOK[0]); p->nominated = INT; p->valid = INT; p->use_candidate_on_next_check = INT;
        p->mark_nominated_on_response_arrival = INT; int retr = INT, stun = INT, trig = INT, dp = INT;
        if (stun) priv_add_stun_transaction (p);
        p->retransmit = retr; p->stun_priority = 100;
        if (trig) ag->triggered_check_queue = g_slist_append (ag->triggered_check_queue, p);
        if (dp) { discl[ndl][0] = npt; discl[ndl][1] = dp; ndl++; }
        PT[npt].ptr = p; PT[npt].pid = pid; npt++;
        st->conncheck_list = g_slist_append (st->conncheck_list, p);      /* the order given on the line is the list order */
        if (rem[ns][p->component_id] && !g_slist_find (rem[ns][p->component_id], p->remote)) rem[ns][p->component_id] = g_slist_prepend (rem[ns][p->component_id], p->remote);
      }
      for (int c = 1; c <= nc; c++) nice_stream_find_component_by_id (st, c)->remote_candidates = rem[ns][c];
      agent_unlock (ag); ns++;
    }
    for (int k = 0; k < ndl; k++) { CandidateCheckPair *p = PT[discl[k][0]].ptr, *d = ptr_of (discl[k][1]); p->discovered_pair = d; if (d) d->succeeded_pair = p; }
    static CandidateDiscovery dummy; GSList *dl = NULL;
    if (disc) { memset (&dummy, 0, sizeof dummy); dummy.stream_id = 77; dummy.done = TRUE; dl = g_slist_prepend (NULL, &dummy); ag->discovery_list = dl; }
    long ret = 0; int fault = 0;
    agent_lock (ag);
    if (HC_TRY) {
      NiceStream *st = (a1 >= 0 && a1 < ns) ? ST[a1] : NULL; NiceComponent *cm = st ? nice_stream_find_component_by_id (st, a2) : NULL;
      if (!strcmp (op, "un")) ret = priv_conn_check_unfreeze_next (ag);
      else if (!strcmp (op, "ur")) conn_check_unfreeze_related (ag, ptr_of (a1));
      else if (!strcmp (op, "um")) priv_conn_check_unfreeze_maybe (ag, ptr_of (a1));
      else if (!strcmp (op, "fw")) { CandidateCheckPair *p = priv_conn_check_find_next_waiting (st->conncheck_list); ret = p ? pid_of (p) : 0; }
      else if (!strcmp (op, "oc")) { send_ok = a2; ret = priv_conn_check_ordinary_check (ag, st); }
      else if (!strcmp (op, "oa")) { gboolean sent = FALSE; int k = 0; for (GSList *i = ag->streams; i && !sent; i = i->next, k++) { send_ok = (a1 >> k) & 1; sent = priv_conn_check_ordinary_check (ag, i->data); } ret = sent; }
      else if (!strcmp (op, "fc")) priv_update_check_list_failed_components (ag, st);
      else if (!strcmp (op, "pr")) ret = priv_prune_pending_checks (ag, st, cm);
      else if (!strcmp (op, "fr")) conn_check_update_check_list_state_for_ready (ag, st, cm);
      else if (!strcmp (op, "mn")) ret = priv_mark_pair_nominated (ag, st, cm, cand (0, st->id, a2, a3, 0, 1), cand (1, st->id, a2, a4, 0, 1));
      HC_END;
    } else fault = 1;
    send_ok = 1;
    if (dl) { ag->discovery_list = NULL; g_slist_free (dl); }
    if (fault) { fprintf (hc_out, "%s Fault\n", id); fflush (hc_out); agent_unlock (ag); continue; }   /* the agent is leaked on purpose */
    agent_unlock_and_emit (ag);
    fprintf (hc_out, "%s %ld", id, ret);
    agent_lock (ag);
    for (int s = 0; s < ns; s++) { NiceStream *st = ST[s]; fprintf (hc_out, " S ");
      for (GSList *i = st->conncheck_list; i; i = i->next) { CandidateCheckPair *p = i->data;
        fprintf (hc_out, "%d:%c%d%d%d%d%d%d%d,", pid_of (p), priv_state_to_gchar (p->state), !!p->nominated, !!p->valid, !!p->use_candidate_on_next_check, !!p->mark_nominated_on_response_arrival,
                 !!p->retransmit, p->stun_transactions != NULL, g_slist_find (ag->triggered_check_queue, p) != NULL); }
      fprintf (hc_out, " | ");
      for (guint c = 1; c <= st->n_components; c++) { NiceComponent *cm = nice_stream_find_component_by_id (st, c); fprintf (hc_out, "%d:%" G_GUINT64_FORMAT ":%d:%d,", (int) cm->state, (guint64) cm->selected_pair.priority,
          cm->selected_pair.local ? (int) nice_address_get_port (&cm->selected_pair.local->c.addr) - 1000 : 0,
          cm->selected_pair.remote ? (int) nice_address_get_port (&cm->selected_pair.remote->c.addr) - 1000 : 0);
        g_slist_free (cm->remote_candidates); cm->remote_candidates = NULL; if (cm->selected_pair.remote_consent.tick_source) { g_source_destroy (cm->selected_pair.remote_consent.tick_source); g_source_unref (cm->selected_pair.remote_consent.tick_source); }
        memset (&cm->selected_pair, 0, sizeof cm->selected_pair); } }
    fprintf (hc_out, " # %s\n", sigbuf[0] ? sigbuf : "-");
    agent_unlock (ag);
    g_object_unref (ag);
    for (int i = 0; i < ncands; i++) nice_candidate_free (CANDS[i]);
  }
  fflush (hc_out); return 0;
}
