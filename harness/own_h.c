/* Tie for coq/Agent/OwnModel.v (C12 reference graph): a real NiceAgent + stream + component whose containers are filled from a text
 * line with fabricated, id-tagged objects; one REAL removal function is called; then every container is walked and every reference
 * is followed (reading the tag stored inside the referenced object, so that a dangling pointer is an ASan report).
 *
 * line:  <case> <op> <tokens...>          tokens are applied in order (list order = token order)
 *   K<id>:<base|->        NiceSocket attached to the component (socket_sources); base = id of the socket a TURN socket is layered on
 *   Z<id>                 NiceSocket that belongs to somebody else (not attached)
 *   L<id>:<sock>:<relay>  local candidate (cmp->local_candidates)          R<id>:<sock|->  remote candidate (cmp->remote_candidates)
 *   E<id>:<sock|->        candidate that belongs to another component       U<id>:<sock>    cmp->turn_candidate
 *   P<id>:<comp>:<local>:<remote>:<sock>:<state>:<nominated>:<valid>:<prio>    CandidateCheckPair on stream->conncheck_list
 *   T<pair>               agent->triggered_check_queue                      I<id>:<sock>    IncomingCheck
 *   D<id>:<sock>          CandidateDiscovery                                F<id>:<sock>:<cand>:<lists>  CandidateRefresh (lists: 1 refresh_list, 2 pruning_refreshes, 3 both)
 *   X<l|->:<r|->:<prio>   selected pair                                      C<state>        component state
 * op:    rs:<sock> nice_component_remove_socket   td teardown (conn_check_prune_stream, discovery_prune_stream, nice_component_close)
 *        dp:<sock> discovery_prune_socket  rp:<sock> refresh_prune_socket  rc:<cand> refresh_prune_candidate  cp:<sock> conn_check_prune_socket
 *        ds:<sock> nice_component_detach_socket  cs nice_component_clear_selected_pair  ps conn_check_prune_stream
 *        rb:<sock> (not part of the tie) remove_socket, then nice_socket_is_based_on (turn_candidate->sockptr, first attached socket) as agent.c does on the next packet
 * out:   <case> f=0 c=<state> K=<sockets not closed> L=.. R=.. U=.. X=.. P=.. T=.. I=.. S=.. D=.. F=.. Q=..   (or "<case> f=A" after a failed g_assert)
 */
#include "hcommon.h"
#include "agent/component.c"
#include "agent/conncheck.h"
#include "agent/discovery.h"

#define MAXO 64
typedef struct { int id; NiceSocket *base; } SockTag;
static NiceSocket *socks[MAXO]; static int sock_made[MAXO], sock_closed[MAXO], sock_order[MAXO], nsock;
static NiceCandidateImpl *cands[MAXO]; static int foreign_cand[MAXO];
static CandidateCheckPair *pairs[MAXO];
static CandidateRefresh *refrs[MAXO];

static void tag_close (NiceSocket *s) { SockTag *t = s->priv; sock_closed[t->id] = 1; g_free (t); }
static gboolean tag_is_based_on (NiceSocket *s, NiceSocket *other)
{ SockTag *t = s->priv; return s == other || (t && nice_socket_is_based_on (t->base, other)); }

static int sid_of (NiceSocket *s) { return s ? ((SockTag *) s->priv)->id : -1; }
static int cid_of (NiceCandidateImpl *c) { return c ? (int) c->c.priority : -1; }
static int rid_of (CandidateRefresh *r) { int v; memcpy (&v, r->stun_buffer, sizeof v); return v; }

static NiceSocket *mk_sock (int id, int base)
{
  NiceSocket *s = g_slice_new0 (NiceSocket); SockTag *t = g_new0 (SockTag, 1);
  t->id = id; t->base = base >= 0 ? socks[base] : NULL; s->priv = t; s->close = tag_close;
  nice_address_init (&s->addr); nice_address_set_from_string (&s->addr, "10.1.0.1"); nice_address_set_port (&s->addr, 2000 + id);
  if (base >= 0) { s->type = NICE_SOCKET_TYPE_UDP_TURN; s->is_based_on = tag_is_based_on; } else s->type = NICE_SOCKET_TYPE_UDP_BSD;
  socks[id] = s; sock_made[id] = 1; sock_closed[id] = 0; sock_order[nsock++] = id; return s;
}
static NiceCandidateImpl *mk_cand (int id, int sock, NiceCandidateType type, guint sid)
{
  NiceCandidateImpl *c = (NiceCandidateImpl *) nice_candidate_new (type);
  c->c.priority = id; c->c.stream_id = sid; c->c.component_id = 1; c->c.transport = NICE_CANDIDATE_TRANSPORT_UDP;
  g_snprintf (c->c.foundation, sizeof c->c.foundation, "%d", id);
  nice_address_init (&c->c.addr); nice_address_set_from_string (&c->c.addr, "10.2.0.1"); nice_address_set_port (&c->c.addr, 3000 + id);
  c->c.base_addr = c->c.addr; c->sockptr = sock >= 0 ? socks[sock] : NULL; cands[id] = c; return c;
}
static int num (const char *s) { return (!s || *s == '-' || !*s) ? -1 : atoi (s); }

static void dump_cand (NiceCandidateImpl *c) { fprintf (hc_out, "%d:%d,", cid_of (c), sid_of (c->sockptr)); }

int main (void)
{
  static char line[1 << 16]; hc_init (); hc_catch_abort ();
  while (fgets (line, sizeof line, stdin)) {
    char *sv, *id = strtok_r (line, " \n", &sv); if (!id) continue;
    char *opstr = strtok_r (NULL, " \n", &sv); if (!opstr) continue;
    NiceAgent *ag = nice_agent_new (g_main_context_default (), NICE_COMPATIBILITY_RFC5245); guint sid = nice_agent_add_stream (ag, 1);
    NiceStream *st; NiceComponent *cm; agent_lock (ag); agent_find_component (ag, sid, 1, &st, &cm);
    memset (socks, 0, sizeof socks); memset (sock_made, 0, sizeof sock_made); memset (cands, 0, sizeof cands); memset (pairs, 0, sizeof pairs);
    memset (refrs, 0, sizeof refrs); memset (foreign_cand, 0, sizeof foreign_cand); nsock = 0;
    int attach[MAXO], nattach = 0; char *tk;
    while ((tk = strtok_r (NULL, " \n", &sv))) {
      char k = tk[0]; char *f[10]; int nf = 0; char *sv2; char *p = strtok_r (tk + 1, ":", &sv2);
      while (p && nf < 10) { f[nf++] = p; p = strtok_r (NULL, ":", &sv2); }
      for (int j = nf; j < 10; j++) f[j] = NULL;
      switch (k) {
      case 'K': mk_sock (num (f[0]), num (f[1])); attach[nattach++] = num (f[0]); break;
      case 'Z': mk_sock (num (f[0]), -1); break;
      case 'L': cm->local_candidates = g_slist_append (cm->local_candidates, mk_cand (num (f[0]), num (f[1]), num (f[2]) == 1 ? NICE_CANDIDATE_TYPE_RELAYED : NICE_CANDIDATE_TYPE_HOST, sid)); break;
      case 'R': cm->remote_candidates = g_slist_append (cm->remote_candidates, mk_cand (num (f[0]), num (f[1]), num (f[1]) >= 0 ? NICE_CANDIDATE_TYPE_PEER_REFLEXIVE : NICE_CANDIDATE_TYPE_HOST, sid)); break;
      case 'E': mk_cand (num (f[0]), num (f[1]), NICE_CANDIDATE_TYPE_HOST, sid); foreign_cand[num (f[0])] = 1; break;
      case 'U': cm->turn_candidate = mk_cand (num (f[0]), num (f[1]), NICE_CANDIDATE_TYPE_RELAYED, sid); break;
      case 'P': { CandidateCheckPair *q = g_slice_new0 (CandidateCheckPair); q->stream_id = sid; q->component_id = num (f[1]); q->local = (NiceCandidate *) cands[num (f[2])];
          q->remote = (NiceCandidate *) cands[num (f[3])]; q->sockptr = socks[num (f[4])]; q->state = num (f[5]); q->nominated = num (f[6]); q->valid = num (f[7]);
          q->priority = num (f[8]); q->stun_priority = num (f[0]); g_snprintf (q->foundation, sizeof q->foundation, "%d", num (f[0]));
          pairs[num (f[0])] = q; st->conncheck_list = g_slist_append (st->conncheck_list, q); break; }
      case 'T': ag->triggered_check_queue = g_slist_append (ag->triggered_check_queue, pairs[num (f[0])]); break;
      case 'I': { IncomingCheck *ic = g_slice_new0 (IncomingCheck); ic->priority = num (f[0]); ic->local_socket = socks[num (f[1])]; ic->from = socks[num (f[1])]->addr;
          g_queue_push_tail (&cm->incoming_checks, ic); break; }
      case 'D': { CandidateDiscovery *d = g_slice_new0 (CandidateDiscovery); d->type = NICE_CANDIDATE_TYPE_SERVER_REFLEXIVE; d->nicesock = socks[num (f[1])]; d->next_tick = num (f[0]);
          d->stream_id = sid; d->component_id = 1; ag->discovery_list = g_slist_append (ag->discovery_list, d); break; }
      case 'F': { CandidateRefresh *r = g_slice_new0 (CandidateRefresh); int v = num (f[0]); memcpy (r->stun_buffer, &v, sizeof v); r->nicesock = socks[num (f[1])];
          r->candidate = cands[num (f[2])]; r->stream_id = sid; r->component_id = 1; refrs[v] = r;
          if (num (f[3]) & 1) ag->refresh_list = g_slist_append (ag->refresh_list, r);
          if (num (f[3]) & 2) ag->pruning_refreshes = g_slist_append (ag->pruning_refreshes, r); break; }
      case 'X': cm->selected_pair.local = num (f[0]) >= 0 ? cands[num (f[0])] : NULL; cm->selected_pair.remote = num (f[1]) >= 0 ? cands[num (f[1])] : NULL;
          cm->selected_pair.priority = num (f[2]); break;
      case 'C': cm->state = num (f[0]); break;
      default: break;
      }
    }
    /* nice_component_attach_socket prepends: attach from the last to the first so that socket_sources is in token order */
    for (int j = nattach - 1; j >= 0; j--) nice_component_attach_socket (cm, socks[attach[j]]);

    char *oa = strchr (opstr, ':'); int arg = oa ? atoi (oa + 1) : -1; int faulted = 0;
    if (HC_TRY) {
      if (!strncmp (opstr, "rs", 2)) nice_component_remove_socket (ag, cm, socks[arg]);
      else if (!strncmp (opstr, "rb", 2)) {   /* remove the socket, then what _agent_recv_turn_message_unlocked (agent.c) does for the next packet on any other socket */
        nice_component_remove_socket (ag, cm, socks[arg]);
        if (cm->turn_candidate && cm->socket_sources) nice_socket_is_based_on (cm->turn_candidate->sockptr, ((SocketSource *) cm->socket_sources->data)->socket); }
      else if (!strncmp (opstr, "td", 2)) { conn_check_prune_stream (ag, st); discovery_prune_stream (ag, sid); nice_component_close (ag, st, cm); }
      else if (!strncmp (opstr, "dp", 2)) discovery_prune_socket (ag, socks[arg]);
      else if (!strncmp (opstr, "rp", 2)) refresh_prune_socket (ag, socks[arg]);
      else if (!strncmp (opstr, "rc", 2)) refresh_prune_candidate (ag, cands[arg]);
      else if (!strncmp (opstr, "cp", 2)) conn_check_prune_socket (ag, st, cm, socks[arg]);
      else if (!strncmp (opstr, "ds", 2)) nice_component_detach_socket (cm, socks[arg]);
      else if (!strncmp (opstr, "cs", 2)) nice_component_clear_selected_pair (cm);
      else if (!strncmp (opstr, "ps", 2)) conn_check_prune_stream (ag, st);
      HC_END;
    } else faulted = 1;
    if (faulted) { fprintf (hc_out, "%s f=A\n", id); fflush (hc_out); _exit (3); }

    fprintf (hc_out, "%s f=0 c=%d K=", id, (int) cm->state);
    for (int j = 0; j < nsock; j++) if (!sock_closed[sock_order[j]]) fprintf (hc_out, "%d,", sock_order[j]);
    fprintf (hc_out, " L="); for (GSList *i = cm->local_candidates; i; i = i->next) dump_cand (i->data);
    fprintf (hc_out, " R="); for (GSList *i = cm->remote_candidates; i; i = i->next) dump_cand (i->data);
    fprintf (hc_out, " U="); if (cm->turn_candidate) dump_cand (cm->turn_candidate);
    fprintf (hc_out, " X=%d:%d:%d", cid_of (cm->selected_pair.local), cid_of (cm->selected_pair.remote), (int) cm->selected_pair.priority);
    fprintf (hc_out, " P="); for (GSList *i = st->conncheck_list; i; i = i->next) { CandidateCheckPair *q = i->data;
      fprintf (hc_out, "%d:%d:%d:%d,", (int) q->stun_priority, cid_of ((NiceCandidateImpl *) q->local), cid_of ((NiceCandidateImpl *) q->remote), sid_of (q->sockptr)); }
    fprintf (hc_out, " T="); for (GSList *i = ag->triggered_check_queue; i; i = i->next) fprintf (hc_out, "%d,", (int) ((CandidateCheckPair *) i->data)->stun_priority);
    fprintf (hc_out, " I="); for (GList *i = cm->incoming_checks.head; i; i = i->next) { IncomingCheck *ic = i->data; fprintf (hc_out, "%d:%d,", (int) ic->priority, sid_of (ic->local_socket)); }
    fprintf (hc_out, " S="); for (GSList *i = cm->socket_sources; i; i = i->next) { SocketSource *ss = i->data; SockTag *t = ss->socket->priv; fprintf (hc_out, "%d:%d,", t->id, sid_of (t->base)); }
    fprintf (hc_out, " D="); for (GSList *i = ag->discovery_list; i; i = i->next) { CandidateDiscovery *d = i->data; fprintf (hc_out, "%d:%d,", (int) d->next_tick, sid_of (d->nicesock)); }
    fprintf (hc_out, " F="); for (GSList *i = ag->refresh_list; i; i = i->next) { CandidateRefresh *r = i->data; fprintf (hc_out, "%d:%d:%d,", rid_of (r), sid_of (r->nicesock), cid_of (r->candidate)); }
    fprintf (hc_out, " Q="); for (GSList *i = ag->pruning_refreshes; i; i = i->next) fprintf (hc_out, "%d,", rid_of (i->data));
    fprintf (hc_out, "\n");

    /* give everything back: refreshes first (nice_agent_dispose warns about live ones), then the agent (closes the component: candidates,
     * sockets, pairs, discoveries), then what never belonged to the component */
    while (ag->refresh_list) refresh_free (ag, ag->refresh_list->data);
    while (ag->pruning_refreshes) refresh_free (ag, ag->pruning_refreshes->data);
    agent_unlock_and_emit (ag); g_object_unref (ag);
    for (int j = 0; j < MAXO; j++) if (foreign_cand[j]) nice_candidate_free ((NiceCandidate *) cands[j]);
    for (int j = 0; j < nsock; j++) if (!sock_closed[sock_order[j]]) nice_socket_free (socks[sock_order[j]]);
  }
  fflush (hc_out); return 0;
}
