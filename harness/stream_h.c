/* Correspondence harness for C17: drives the REAL stream layers of libnice (compiled from /repo's working
 * tree) over a scripted base socket (scripted_sock.h) and the REAL tcp-bsd.c / socket.c send queue over an
 * interposed g_socket_send_message ("the kernel").
 *
 * Line protocol (one case per line, first token = id):
 *   <id> Q <G> <script> <op>...            tcp-bsd send queue;  script = comma list of a<n>|w|f|x  ('-' = empty,
 *                                          exhausted script = accept everything)
 *                                          ops: s:<buf>,<buf>..  r:<buf>,..  w (writable event)  z (drain)  c (can_send)
 *   <id> T <compat> <op>...                udp-turn-over-tcp;   ops: f:<hex> (readable event delivering a chunk)
 *                                          s:<buf>,.. / r:<buf>,.. (send through the layer)
 *   <id> S <G> <user> <pass> <addr> <op>.. socks5 (user/pass hex, '-' = NULL; addr = 6 or 18 bytes address+port)
 *   <id> P <compat> <op>...                pseudossl (0 = GOOGLE, 1 = MSOC)
 *   <id> H <G> <op>...                     http; extra op c:<cap> = from now on the caller's receive buffer has <cap>
 *                                          bytes (1..UPCAP; a fresh instance starts with UPCAP)
 * G = byte value every uninitialised heap / stack byte has in this case (the harness paints fresh g_malloc /
 * g_realloc memory and the stack below the call with it), so that behaviour which depends on uninitialised
 * memory is deterministic and can be compared with the model, which takes the same G.
 *
 * Output tokens, in order of occurrence:
 *   q<req>/<got>   a read the layer issued on the base socket       D<hex>   bytes sent to the base socket
 *   R<ret>[:<len>:<hex>[:z<size>]]  return of one recv_messages call on the layer (1 message, 1 buffer of UPCAP)
 *                  z<size> = the layer changed the caller's buffer size field to <size>
 *   S<ret>         return of a send through the layer               K<hex>|Kw|Kf|Kx  one kernel write attempt
 *   +              (Q only) a send op starts
 *   C<0|1>         can_send                                         FAULT    out-of-range access / failed assertion
 *   LIVE           a call consumed nothing although bytes were pending (the poll loop would spin)
 * A "|" token among the ops starts over on a fresh instance of the same layer (prints " |"): used to put the
 * chunked and the one-chunk delivery of the same stream into one case.  After an error return, a FAULT or LIVE
 * later readable events of that instance are ignored (the agent drops such a socket).
 * A readable event (f:) appends the chunk to the base socket and calls recv_messages while bytes are pending,
 * stopping after an error return or a call that consumed nothing (level-triggered poll, as the agent does).
 * For H the loop is the agent's read-until-would-block loop (component_io_cb): it also calls again after a call
 * that delivered a message although the base socket is empty by then (the layer may hold bytes of its own), and
 * ends with the call that returns 0 without consuming anything (LIVE if bytes were pending in the base socket).
 */
#define socket_close turn_tcp_socket_close
#include "socket/udp-turn-over-tcp.c"
#undef socket_close
#include "socket/tcp-bsd.h"
#include "socket/socks5.h"
#include "socket/http.h"
#include "socket/pseudossl.h"
#include <malloc.h>
#include "hcommon.h"
#include "scripted_sock.h"

#define UPCAP 70000

/* ---- uninitialised memory is painted with G ------------------------------------------------------- */
static int paint_g = 0xbe;
gpointer g_malloc (gsize n)
{
  if (n == 0) return NULL;
  void *p = malloc (n);
  if (!p) abort ();
  memset (p, paint_g, n);
  return p;
}
gpointer g_realloc (gpointer p, gsize n)
{
  if (n == 0) { free (p); return NULL; }
  gsize old = p ? malloc_usable_size (p) : 0;
  guint8 *q = malloc (n);
  if (!q) abort ();
  memset (q, paint_g, n);
  if (p) { memcpy (q, p, MIN (old, n)); free (p); }
  return q;
}
static void __attribute__ ((noinline)) paint_stack (int g)
{
  volatile unsigned char a[32768];
  memset ((void *) a, g, sizeof a);
  __asm__ volatile ("" : : "r" (a) : "memory");
}

const char *__asan_default_options (void) { return "detect_leaks=0:allocator_may_return_null=1"; }

/* ---- output ------------------------------------------------------------------------------------------- */
static char *obuf; static size_t olen; static FILE *of;
static void o_hex (const guint8 *b, gsize n) { hc_puthex (of, b, n); }

/* ---- scripted base socket callbacks ------------------------------------------------------------------- */
static sigjmp_buf fault_jb;
static void on_read (ScriptSock *ss, gsize req, gsize got) { fprintf (of, " q%zu/%zu", req, got); }
static void on_send (ScriptSock *ss, const guint8 *b, gsize n, gboolean rel) { fprintf (of, " D"); o_hex (b, n); }
static void on_fault (ScriptSock *ss) { siglongjmp (fault_jb, 1); }
static const guint8 *guard_lo, *guard_hi;
static gboolean guard (ScriptSock *ss, const guint8 *dst, gsize k) { return dst >= guard_lo && dst + k <= guard_hi && dst + k >= dst; }

/* ---- "the kernel" for tcp-bsd.c: g_socket_send_message is interposed ---------------------------------- */
static char *k_script;     /* rest of the comma list, NULL/empty = accept all */
gssize g_socket_send_message (GSocket *socket, GSocketAddress *address, GOutputVector *vectors, gint num_vectors,
    GSocketControlMessage **messages, gint num_messages, gint flags, GCancellable *cancellable, GError **error)
{
  gsize tot = 0, o = 0; gint j;
  for (j = 0; (num_vectors >= 0 && j < num_vectors) || (num_vectors < 0 && vectors[j].buffer != NULL); j++) tot += vectors[j].size;
  guint8 *flat = malloc (tot ? tot : 1);
  for (j = 0; (num_vectors >= 0 && j < num_vectors) || (num_vectors < 0 && vectors[j].buffer != NULL); j++) {
    memcpy (flat + o, vectors[j].buffer, vectors[j].size); o += vectors[j].size;
  }
  gssize ret;
  char kind = 'a'; gsize n = tot;
  if (k_script && *k_script && *k_script != '-') {
    kind = *k_script++;
    if (kind == 'a') n = strtoul (k_script, &k_script, 10);
    if (*k_script == ',') k_script++;
  }
  if (kind == 'a') {
    if (n > tot) n = tot;
    fprintf (of, " K"); o_hex (flat, n);
    ret = n;
  } else {
    fprintf (of, " K%c", kind);
    g_set_error_literal (error, G_IO_ERROR, kind == 'w' ? G_IO_ERROR_WOULD_BLOCK : kind == 'f' ? G_IO_ERROR_FAILED : G_IO_ERROR_BROKEN_PIPE, "scripted");
    ret = -1;
  }
  free (flat);
  return ret;
}

/* ---- helpers ---------------------------------------------------------------------------------------------- */
typedef struct { GOutputVector v[64]; guint8 *data[64]; int n; } OutMsg;
static void parse_bufs (char *s, OutMsg *m)
{
  m->n = 0;
  char *sv, *t;
  for (t = strtok_r (s, ",", &sv); t && m->n < 64; t = strtok_r (NULL, ",", &sv)) {
    gsize l; m->data[m->n] = hc_unhex (t, &l);
    m->v[m->n].buffer = m->data[m->n]; m->v[m->n].size = l; m->n++;
  }
}
static void free_bufs (OutMsg *m) { for (int i = 0; i < m->n; i++) free (m->data[i]); }

static guint8 *upbuf;
static gsize up_cap;          /* size of the caller's buffer */
static gboolean until_wouldblock;     /* read loop of the H layer, see above */
/* the caller's buffer is a heap block of exactly up_cap bytes, so that ASan sees a write past it */
static void set_cap (gsize n) { if (upbuf && n == up_cap) return; free (upbuf); up_cap = n; upbuf = malloc (n); }
static gboolean dead_layer;   /* an error return ends the life of the socket: later readable events are ignored */

/* one readable event on a layer over the scripted socket */
static void feed (NiceSocket *layer, ScriptSock *ss, const guint8 *chunk, gsize n, int g)
{
  ss_push (ss, chunk, n);
  gboolean more = FALSE;
  while (ss_pending (ss) > 0 || more) {
    gsize p0 = ss_pending (ss);
    GInputVector iv = { upbuf, up_cap };
    NiceAddress from;
    NiceInputMessage im = { &iv, 1, &from, 0 };
    gint ret;
    /* an out-of-range access caught by the guard, or a failed g_assert, ends the life of this instance */
    if (sigsetjmp (fault_jb, 1) != 0) { hc_armed = 0; fprintf (of, " FAULT"); dead_layer = TRUE; return; }
    if (!HC_TRY) { HC_END; fprintf (of, " FAULT"); dead_layer = TRUE; return; }
    paint_stack (g);
    ret = nice_socket_recv_messages (layer, &im, 1);
    HC_END;
    fprintf (of, " R%d", ret);
    if (ret == 1) {
      gsize l = im.length > up_cap ? up_cap : im.length;
      fprintf (of, ":%zu:", (size_t) im.length); o_hex (upbuf, l);
      if (iv.size != up_cap) fprintf (of, ":z%zu", (size_t) iv.size);
    }
    if (ret < 0) { dead_layer = TRUE; break; }
    if (until_wouldblock) {
      if (ret == 0 && ss_pending (ss) == p0) {
        if (p0 > 0) { fprintf (of, " LIVE"); dead_layer = TRUE; }
        break;
      }
      more = ret > 0;
    } else if (ss_pending (ss) == p0) { fprintf (of, " LIVE"); dead_layer = TRUE; break; }
  }
}

static void layer_send (NiceSocket *layer, char *arg, gboolean reliable)
{
  OutMsg m; parse_bufs (arg, &m);
  NiceOutputMessage om = { m.v, m.n };
  if (HC_TRY) {
    gint r = reliable ? nice_socket_send_messages_reliable (layer, NULL, &om, 1) : nice_socket_send_messages (layer, NULL, &om, 1);
    HC_END;
    fprintf (of, " S%d", r);
  } else { HC_END; fprintf (of, " FAULT"); }
  free_bufs (&m);
}

/* returns TRUE when it stopped at a "|" token (= run the rest on a fresh layer) */
static gboolean run_layer_ops (NiceSocket *layer, ScriptSock *ss, char **sv, int g)
{
  char *op;
  while ((op = strtok_r (NULL, " \n", sv))) {
    if (op[0] == '|') return TRUE;
    if (op[0] == 'f' && op[1] == ':') {
      gsize n; guint8 *b = hc_unhex (op + 2, &n);
      if (!dead_layer) feed (layer, ss, b, n, g);
      free (b);
    } else if (op[0] == 'c' && op[1] == ':') { int c = atoi (op + 2); set_cap (c < 1 || c > UPCAP ? UPCAP : c); }
    else if (op[0] == 's' && op[1] == ':') layer_send (layer, op + 2, FALSE);
    else if (op[0] == 'r' && op[1] == ':') layer_send (layer, op + 2, TRUE);
  }
  return FALSE;
}

static void addr_from_bytes (NiceAddress *a, const guint8 *b, gsize n)
{
  nice_address_init (a);
  if (n == 6) { nice_address_set_ipv4 (a, (b[0] << 24) | (b[1] << 16) | (b[2] << 8) | b[3]); nice_address_set_port (a, (b[4] << 8) | b[5]); }
  else { nice_address_set_ipv6 (a, b); nice_address_set_port (a, (b[16] << 8) | b[17]); }
}

static void quiet_log (const gchar *d, GLogLevelFlags l, const gchar *m, gpointer u) { }

int main (void)
{
  static char line[1 << 23];
  hc_init (); hc_catch_abort ();
  g_log_set_always_fatal (0);
  g_log_set_default_handler (quiet_log, NULL);
  set_cap (UPCAP);
  while (fgets (line, sizeof line, stdin)) {
    char *sv, *id = strtok_r (line, " \n", &sv); if (!id) continue;
    char *cmd = strtok_r (NULL, " \n", &sv);
    of = open_memstream (&obuf, &olen);
    fprintf (of, "%s", id);
    NiceSocket *volatile layer = NULL; ScriptSock *volatile ss = NULL;
    guard_lo = guard_hi = NULL;
    if (!strcmp (cmd, "Q")) {
      paint_g = atoi (strtok_r (NULL, " \n", &sv));
      char *script = g_strdup (strtok_r (NULL, " \n", &sv)); k_script = script;
      GMainContext *ctx = g_main_context_new ();
      GSocket *gs = g_socket_new (G_SOCKET_FAMILY_IPV4, G_SOCKET_TYPE_DATAGRAM, G_SOCKET_PROTOCOL_UDP, NULL);
      NiceAddress la, ra; nice_address_init (&la); nice_address_init (&ra);
      nice_address_set_from_string (&la, "127.0.0.1"); nice_address_set_from_string (&ra, "127.0.0.1"); nice_address_set_port (&ra, 9);
      NiceSocket *s = nice_tcp_bsd_socket_new_from_gsock (ctx, gs, &la, &ra, TRUE);
      char *op;
      while ((op = strtok_r (NULL, " \n", &sv))) {
        if ((op[0] == 's' || op[0] == 'r') && op[1] == ':') {
          OutMsg m; parse_bufs (op + 2, &m);
          NiceOutputMessage om = { m.v, m.n };
          fprintf (of, " +");
          if (HC_TRY) {
            gint r = op[0] == 'r' ? nice_socket_send_messages_reliable (s, NULL, &om, 1) : nice_socket_send_messages (s, NULL, &om, 1);
            HC_END;
            fprintf (of, " S%d", r);
          } else { HC_END; fprintf (of, " FAULT"); }
          free_bufs (&m);
        } else if (op[0] == 'w') {
          fprintf (of, " W");
          if (HC_TRY) { g_main_context_iteration (ctx, FALSE); HC_END; } else { HC_END; fprintf (of, " FAULT"); }
        }
        else if (op[0] == 'c') fprintf (of, " C%d", nice_socket_can_send (s, NULL) ? 1 : 0);
        else if (op[0] == 'z') {
          fprintf (of, " Z"); k_script = NULL;
          for (int k = 0; k < 1000 && !nice_socket_can_send (s, NULL); k++) g_main_context_iteration (ctx, FALSE);
        }
      }
      nice_socket_free (s); g_object_unref (gs); g_main_context_unref (ctx); g_free (script); k_script = NULL;
    } else {
      /* parameters of the layer, kept so that a "|" token can start over on a fresh instance */
      char *par[4] = { 0 }; int npar = !strcmp (cmd, "S") ? 4 : 1;
      until_wouldblock = FALSE;
      for (int i = 0; i < npar; i++) par[i] = strtok_r (NULL, " \n", &sv);
      gboolean again = TRUE;
      while (again) {
        NiceSocket *base = ss_new ((ScriptSock **) &ss);
        ss->on_read = on_read; ss->on_send = on_send; ss->on_fault = on_fault;
        int g = 0xbe;
        dead_layer = FALSE;
        set_cap (UPCAP);
        if (!strcmp (cmd, "T")) {
          layer = nice_udp_turn_over_tcp_socket_new (base, atoi (par[0]));
          TurnTcpPriv *tp = layer->priv;
          guard_lo = tp->recv_buf.u8; guard_hi = tp->recv_buf.u8 + sizeof tp->recv_buf;
          ss->guard = getenv ("C17_NO_GUARD") ? NULL : guard;
        } else if (!strcmp (cmd, "S")) {
          g = paint_g = atoi (par[0]);
          gsize ul, pl, al;
          guint8 *u = hc_unhex (par[1], &ul), *p = hc_unhex (par[2], &pl), *a = hc_unhex (par[3], &al);
          gchar *user = strcmp (par[1], "-") ? g_strndup ((gchar *) u, ul) : NULL, *pass = strcmp (par[2], "-") ? g_strndup ((gchar *) p, pl) : NULL;
          NiceAddress addr; addr_from_bytes (&addr, a, al);
          layer = nice_socks5_socket_new (base, &addr, user, pass);
          g_free (user); g_free (pass); free (u); free (p); free (a);
        } else if (!strcmp (cmd, "P")) {
          layer = nice_pseudossl_socket_new (base, atoi (par[0]));
        } else if (!strcmp (cmd, "H")) {
          g = paint_g = atoi (par[0]);
          until_wouldblock = TRUE;
          NiceAddress addr; nice_address_init (&addr); nice_address_set_from_string (&addr, "192.0.2.7"); nice_address_set_port (&addr, 3478);
          FILE *keep = of; of = fopen ("/dev/null", "w");       /* the CONNECT request text is not modelled */
          layer = nice_http_socket_new (base, &addr, NULL, NULL, NULL);
          fclose (of); of = keep;
        }
        again = layer ? run_layer_ops (layer, ss, &sv, g) : FALSE;
        if (again) {
          fprintf (of, " |");
          nice_socket_free (layer); layer = NULL; ss_free (ss); ss = NULL;
        }
      }
    }
    if (layer) { if (HC_TRY) { nice_socket_free (layer); HC_END; } else HC_END; }
    if (ss) ss_free (ss);
    paint_g = 0xbe;
    fclose (of);
    fprintf (hc_out, "%s\n", obuf);
    free (obuf);
  }
  fflush (hc_out);
  return 0;
}
