/* Tie for coq/Agent/RoleModel.v: the real role-conflict decision of stun_usage_ice_conncheck_create_reply.
 * line: <id> <my_ctl 0|1> <my_tie> <req_ctl 0|1|2(no role attr)> <peer_tie>   out: <id> <new_ctl> <is487 0|1> <ret> */
#include "hcommon.h"
#include <arpa/inet.h>
#include "stun/stunagent.h"
#include "stun/usages/ice.h"
static const uint16_t known[] = { 0x0006, 0x0008, 0x0020, 0x0024, 0x0025, 0x8029, 0x802a, 0 };
int main (void)
{
  char line[512]; hc_init ();
  while (fgets (line, sizeof line, stdin)) {
    char id[64]; int my_ctl, req_ctl; unsigned long long my_tie, peer_tie;
    if (sscanf (line, "%63s %d %llu %d %llu", id, &my_ctl, &my_tie, &req_ctl, &peer_tie) != 5) continue;
    StunAgent pa, ma; StunMessage req, in, rep; uint8_t rb[512], ob[512];
    stun_agent_init (&pa, known, STUN_COMPATIBILITY_RFC5389, STUN_AGENT_USAGE_SHORT_TERM_CREDENTIALS | STUN_AGENT_USAGE_USE_FINGERPRINT);
    stun_agent_init (&ma, known, STUN_COMPATIBILITY_RFC5389, STUN_AGENT_USAGE_SHORT_TERM_CREDENTIALS | STUN_AGENT_USAGE_USE_FINGERPRINT);
    size_t l;
    if (req_ctl == 2) { stun_agent_init_request (&pa, &req, rb, sizeof rb, STUN_BINDING); stun_message_append32 (&req, STUN_ATTRIBUTE_PRIORITY, 5);
      stun_message_append_bytes (&req, STUN_ATTRIBUTE_USERNAME, "ab:cd", 5); l = stun_agent_finish_message (&pa, &req, (uint8_t *) "pw", 2); }
    else l = stun_usage_ice_conncheck_create (&pa, &req, rb, sizeof rb, (uint8_t *) "ab:cd", 5, (uint8_t *) "pw", 2, 0, req_ctl, 5, peer_tie, NULL, STUN_USAGE_ICE_COMPATIBILITY_RFC5245);
    StunDefaultValidaterData vd[] = { { (uint8_t *) "ab:cd", 5, (uint8_t *) "pw", 2 }, { NULL, 0, NULL, 0 } };
    stun_agent_validate (&ma, &in, rb, l, stun_agent_default_validater, vd);
    struct sockaddr_in sa; memset (&sa, 0, sizeof sa); sa.sin_family = AF_INET; sa.sin_port = htons (1); size_t ol = sizeof ob; bool ctl = my_ctl;
    int r = stun_usage_ice_conncheck_create_reply (&ma, &in, &rep, ob, &ol, (struct sockaddr_storage *) &sa, sizeof sa, &ctl, my_tie, STUN_USAGE_ICE_COMPATIBILITY_RFC5245);
    int code = 0; int is487 = ol && stun_message_get_class (&rep) == STUN_ERROR && stun_message_find_error (&rep, &code) == STUN_MESSAGE_RETURN_SUCCESS && code == 487;
    fprintf (hc_out, "%s %d %d %d\n", id, (int) ctl, is487, r);
  }
  fflush (hc_out); return 0;
}
