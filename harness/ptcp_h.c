/* Correspondence harness for agent/pseudotcp.c (included, so the private struct is visible).  Two sockets A and B,
 * a shared virtual clock (pseudo_tcp_socket_set_time), every packet either socket hands to WritePacket is appended
 * to a global list and can be delivered (any order, any number of times, possibly mutated) or injected raw.
 * line: <id> <cfgA> <cfgB> op...      cfg = rcvbuf:sndbuf:nodelay:ackdelay:finack:wndscale:conv
 * See ocaml/ptcp_driver.ml for the model side (same tokens). */
#include "agent/pseudotcp.c"
#include "hcommon.h"
#define P(...) fprintf (hc_out, __VA_ARGS__)

typedef struct { unsigned char *b; size_t n; int from; } Pkt;
static Pkt *pkts; static size_t npkts, cappkts;
static size_t pend[1 << 16]; static size_t npend; static size_t hist[1 << 16]; static size_t nhist;
static PseudoTcpSocket *S[2]; static size_t wr_limit[2];
static char evbuf[1 << 23]; static size_t evlen;
#define EV(...) do { if (evlen + 256 < sizeof evbuf) evlen += snprintf (evbuf + evlen, sizeof evbuf - evlen, __VA_ARGS__); } while (0)

static unsigned digest (const unsigned char *p, size_t n) { unsigned h = 5381; for (size_t i = 0; i < n; i++) h = (h * 33 + p[i]) & 0xffffff; return h; }
static void gen_data (unsigned char *d, size_t n, unsigned seed, unsigned long base) { for (size_t i = 0; i < n; i++) { unsigned long k = base + i; d[i] = (seed * 31 + k * 7 + (k >> 8)) & 0xff; } }
static unsigned long sent_total[2];

static void cb_opened (PseudoTcpSocket *s, gpointer d) { EV (" O"); }
static void cb_readable (PseudoTcpSocket *s, gpointer d) { EV (" R"); }
static void cb_writable (PseudoTcpSocket *s, gpointer d) { EV (" W"); }
static void cb_closed (PseudoTcpSocket *s, guint32 err, gpointer d) { EV (" C%u", err); }
static PseudoTcpWriteResult cb_write (PseudoTcpSocket *s, const gchar *buf, guint32 len, gpointer d)
{
  int who = GPOINTER_TO_INT (d);
  if (len > wr_limit[who]) return WR_TOO_LARGE;
  if (npkts == cappkts) { cappkts = cappkts ? cappkts * 2 : 256; pkts = realloc (pkts, cappkts * sizeof *pkts); }
  pkts[npkts].b = malloc (len ? len : 1); memcpy (pkts[npkts].b, buf, len); pkts[npkts].n = len; pkts[npkts].from = who;
  EV (" P%zu=", npkts); for (int i = 0; i < 24 && i < (int) len; i++) EV ("%02x", (unsigned char) buf[i]);
  EV (":%u:%u", len - 24, digest ((const unsigned char *) buf + 24, len - 24));
  if (npend < (1 << 16)) pend[npend++] = npkts;
  npkts++;
  return WR_SUCCESS;
}

static void summary (int w)
{
  PseudoTcpSocketPrivate *p = S[w]->priv;
  P (" [%d %u %u %u %u %u %u %u %u %u %u %u %u %zu %zu %u %d%d%d %u %u %zu]", (int) p->state, p->snd_una, p->snd_nxt, p->rcv_nxt, p->snd_wnd, p->rcv_wnd,
     p->cwnd, p->ssthresh, p->rx_rto, p->rto_base, p->t_ack, (unsigned) p->dup_acks, p->mss, p->sbuf.data_length, p->rbuf.data_length,
     g_queue_get_length (&p->slist), (int) p->support_fin_ack, (int) p->shutdown, (int) p->shutdown_reads, (unsigned) p->swnd_scale,
     p->rbuf_len, p->rbuf.buffer_length);      /* receive-buffer bookkeeping and the real capacity of the FIFO */
  if (getenv ("PTCP_DEBUG")) { P ("{"); for (GList *i = p->slist.head; i; i = i->next) { SSegment *g = i->data; P ("%u+%u/x%u/f%u ", g->seq, g->len, g->xmit, g->flags); } P ("}"); }
}

/* A datagram reaches the socket either through pseudo_tcp_socket_notify_packet or - as in the agent (agent_recv_message_unlocked) - through
 * pseudo_tcp_socket_notify_message with a 24-byte header buffer and a body buffer; both must behave alike.  Every second delivery takes the
 * message path; the body buffer is exactly sized, so that ASan sees any access beyond the datagram. */
static unsigned notify_ctr;
static gboolean notify_any (PseudoTcpSocket *sk, const char *d, size_t n)
{
  if ((notify_ctr++ & 1) == 0) return pseudo_tcp_socket_notify_packet (sk, d, n);
  guint8 *hdr = malloc (24); memset (hdr, 0xaa, 24); memcpy (hdr, d, n < 24 ? n : 24);
  size_t bl = n > 24 ? n - 24 : 0; guint8 *body = malloc (bl ? bl : 1); if (bl) memcpy (body, d + 24, bl);
  GInputVector v[2] = { { hdr, 24 }, { body, bl } }; NiceInputMessage m = { v, 2, NULL, n };
  gboolean r = pseudo_tcp_socket_notify_message (sk, &m); free (hdr); free (body); return r;
}

static int deliver (size_t i)
{
  int w = 1 - pkts[i].from; unsigned char *c = malloc (pkts[i].n ? pkts[i].n : 1); memcpy (c, pkts[i].b, pkts[i].n);
  int r = notify_any (S[w], (char *) c, pkts[i].n); free (c);
  if (nhist < (1 << 16)) hist[nhist++] = i;
  return r;
}
static size_t take_pending (size_t k) { size_t i = pend[k]; memmove (pend + k, pend + k + 1, (npend - k - 1) * sizeof *pend); npend--; return i; }

static PseudoTcpSocket *mk (int who, char *cfg)
{
  unsigned rb, sb, nd, ad, fa, ws, cv; sscanf (cfg, "%u:%u:%u:%u:%u:%u:%u", &rb, &sb, &nd, &ad, &fa, &ws, &cv);
  PseudoTcpCallbacks cbs = { GINT_TO_POINTER (who), cb_opened, cb_readable, cb_writable, cb_closed, cb_write };
  PseudoTcpSocket *s = g_object_new (PSEUDO_TCP_SOCKET_TYPE, "conversation", cv, "callbacks", &cbs, "support-fin-ack", fa ? TRUE : FALSE, NULL);
  s->priv->support_wnd_scale = ws;
  g_object_set (s, "no-delay", nd ? TRUE : FALSE, "ack-delay", ad, NULL);
  if (rb) g_object_set (s, "rcv-buf", rb, NULL);
  if (sb) g_object_set (s, "snd-buf", sb, NULL);
  return s;
}

int main (void)
{
  static char line[1 << 22];
  hc_init (); hc_catch_abort ();
  while (fgets (line, sizeof line, stdin)) {
    char *sv, *id = strtok_r (line, " \n", &sv); if (!id) continue;
    for (size_t i = 0; i < npkts; i++) free (pkts[i].b);
    npkts = 0; npend = 0; nhist = 0; sent_total[0] = sent_total[1] = 0; wr_limit[0] = wr_limit[1] = 65535;
    S[0] = mk (0, strtok_r (NULL, " \n", &sv)); S[1] = mk (1, strtok_r (NULL, " \n", &sv));
    guint32 now = 1000; pseudo_tcp_socket_set_time (S[0], now); pseudo_tcp_socket_set_time (S[1], now);
    P ("%s", id);
    char *op; int aborted = 0;
    while (!aborted && (op = strtok_r (NULL, " \n", &sv))) {
      evlen = 0; evbuf[0] = 0;
      int w = (op[1] == 'B') ? 1 : 0; char *arg = op + 2;
      P (" %c", op[0]);
      if (!HC_TRY) { HC_END; P ("=ABORT"); aborted = 1; break; }
      switch (op[0]) {
      case 'T': now = strtoul (op + 1, NULL, 10); pseudo_tcp_socket_set_time (S[0], now); pseudo_tcp_socket_set_time (S[1], now); w = -1; break;
      case 'c': P ("=%d", pseudo_tcp_socket_connect (S[w])); break;
      case 's': { unsigned ln, seed; sscanf (arg, "%u:%u", &ln, &seed); unsigned char *d = malloc (ln ? ln : 1); gen_data (d, ln, seed, sent_total[w]);
                  int r = pseudo_tcp_socket_send (S[w], (char *) d, ln); if (r > 0) sent_total[w] += r; P ("=%d:%d", r, r < 0 ? pseudo_tcp_socket_get_error (S[w]) : 0); free (d); break; }
      case 'r': { unsigned n = strtoul (arg, NULL, 10); unsigned char *d = malloc (n ? n : 1); int r = pseudo_tcp_socket_recv (S[w], (char *) d, n);
                  P ("=%d:%d:", r, r < 0 ? pseudo_tcp_socket_get_error (S[w]) : 0); hc_puthex (hc_out, d, r > 0 ? r : 0); free (d); break; }
      case 'h': pseudo_tcp_socket_shutdown (S[w], atoi (arg)); break;
      case 'x': pseudo_tcp_socket_close (S[w], atoi (arg)); break;
      case 'k': pseudo_tcp_socket_notify_clock (S[w]); break;
      case 'n': { guint64 t = strtoull (arg, NULL, 10); gboolean r = pseudo_tcp_socket_get_next_clock (S[w], &t); if (r) P ("=%llu", (unsigned long long) t); else P ("=F"); break; }
      case 'm': pseudo_tcp_socket_notify_mtu (S[w], atoi (arg)); break;
      case 'l': wr_limit[w] = strtoul (arg, NULL, 10); break;
      case 'd': { size_t i = strtoul (op + 1, NULL, 10); if (i < npkts) { w = 1 - pkts[i].from; unsigned char *c = malloc (pkts[i].n ? pkts[i].n : 1); memcpy (c, pkts[i].b, pkts[i].n);
                  P ("=%d", (int) notify_any (S[w], (char *) c, pkts[i].n)); free (c); } else { w = -1; P ("=x"); } break; }
      case 'j': { /* mutated delivery: jA<idx>:<off>=<val>,<off>=<val>... */
                  size_t i = strtoul (arg, NULL, 10); char *m = strchr (arg, ':');
                  if (i < npkts) { size_t n = pkts[i].n; unsigned char *c = malloc (n ? n : 1); memcpy (c, pkts[i].b, n);
                    while (m && *m) { m++; unsigned off, val; if (sscanf (m, "%u=%u", &off, &val) == 2 && off < n) c[off] = val;
                      else if (sscanf (m, "%u~%u", &off, &val) == 2 && off + 4 <= n) { /* 32-bit big-endian field decreased by val */ guint32 f = ((guint32) c[off] << 24 | c[off + 1] << 16 | c[off + 2] << 8 | c[off + 3]) - val; c[off] = f >> 24; c[off + 1] = f >> 16; c[off + 2] = f >> 8; c[off + 3] = f; }
                      m = strchr (m, ','); }
                    P ("=%d", (int) notify_any (S[w], (char *) c, n)); free (c); } else { P ("=x"); w = -1; } break; }
      case 'i': { size_t n; unsigned char *c = hc_unhex_tight (arg, &n); P ("=%d", (int) notify_any (S[w], (char *) c, n)); break; }
      case 'N': if (npend) { size_t i = take_pending (0); w = 1 - pkts[i].from; P ("%zu=%d", i, deliver (i)); } else { w = -1; P ("=x"); } break;
      case 'X': if (npend) { size_t i = take_pending (0); P ("%zu", i); } else P ("=x"); w = -1; break;
      case 'Z': { /* total outage: every pending packet is lost */ unsigned k = 0; while (npend) { take_pending (0); k++; } P ("%u", k); w = -1; break; }
      case 'D': { size_t k = strtoul (op + 1, NULL, 10); if (npend) { size_t i = take_pending (k % npend); w = 1 - pkts[i].from; P ("%zu=%d", i, deliver (i)); } else { w = -1; P ("=x"); } break; }
      case 'U': { size_t k = strtoul (op + 1, NULL, 10); if (nhist) { size_t i = hist[nhist - 1 - (k % nhist)]; w = 1 - pkts[i].from; P ("%zu=%d", i, deliver (i)); } else { w = -1; P ("=x"); } break; }
      case 'Q': { unsigned n = strtoul (op + 1, NULL, 10); w = -1;
                  for (unsigned it = 0; it < n; it++) {
                    unsigned guard = 0; while (npend && guard++ < 4000) { size_t i = take_pending (0); deliver (i); }
                    now += 250; if (now == 0) now = 1; pseudo_tcp_socket_set_time (S[0], now); pseudo_tcp_socket_set_time (S[1], now);
                    pseudo_tcp_socket_notify_clock (S[0]); pseudo_tcp_socket_notify_clock (S[1]);
                  }
                  P ("%s", evbuf); evlen = 0; evbuf[0] = 0; summary (0); summary (1); break; }
      default: P ("=?"); w = -1;
      }
      HC_END;
      P ("%s", evbuf);
      if (w >= 0) summary (w);
    }
    P ("\n"); fflush (hc_out);
    g_object_unref (S[0]); g_object_unref (S[1]);
  }
  return 0;
}
