/* Tie for the plain-UDP socket layer (socket/udp-bsd.c) over REAL loopback sockets: one nice_socket_send_messages call with a batch of scatter/gather
 * messages (the sendmmsg path for two or more), then everything is received back through nice_socket_recv_messages.
 * line: <id> <seed> <msg>|<msg>...     msg = sizes "n.n.n" (bytes per buffer; exactly-sized heap blocks, so ASan sees any over-read)
 * out:  <id> s=<ret> d=<hex>,<hex>,...  (datagrams in arrival order) */
#include "hcommon.h"
#include <gio/gio.h>
#include "agent/address.h"
#include "socket/socket.h"
#include "socket/udp-bsd.h"

static void gen (guint8 *d, gsize n, unsigned long seed, int k, int j) { for (gsize i = 0; i < n; i++) d[i] = (guint8) ((seed * 131 + k * 31 + j * 7 + i * 13 + (i >> 7)) & 0xff); }

int main (void)
{
  static char line[1 << 20]; hc_init ();
  NiceAddress la, lb; nice_address_init (&la); nice_address_set_from_string (&la, "127.0.0.1"); nice_address_set_port (&la, 0); lb = la;
  NiceSocket *A = nice_udp_bsd_socket_new (&la, NULL), *B = nice_udp_bsd_socket_new (&lb, NULL);
  if (!A || !B) { fprintf (hc_out, "NOSOCKET\n"); fflush (hc_out); return 0; }
  while (fgets (line, sizeof line, stdin)) {
    char *sv, *id = strtok_r (line, " \n", &sv); if (!id) continue;
    unsigned long seed = strtoul (strtok_r (NULL, " \n", &sv), NULL, 10);
    char *spec = strtok_r (NULL, " \n", &sv);
    NiceOutputMessage om[32]; GOutputVector *ov[32]; int nm = 0; char *sm, *m;
    for (m = strtok_r (spec, "|", &sm); m && nm < 32; m = strtok_r (NULL, "|", &sm), nm++) {
      char *sb, *b; int nb = 0; ov[nm] = g_new0 (GOutputVector, 16);
      for (b = strtok_r (m, ".", &sb); b && nb < 16; b = strtok_r (NULL, ".", &sb), nb++) {
        gsize n = strtoul (b, NULL, 10); guint8 *d = malloc (n ? n : 1); gen (d, n, seed, nm, nb); ov[nm][nb].buffer = d; ov[nm][nb].size = n; }
      om[nm].buffers = ov[nm]; om[nm].n_buffers = nb;
    }
    gint r = nice_socket_send_messages (A, &B->addr, om, nm);
    fprintf (hc_out, "%s s=%d d=", id, r);
    static guint8 rb[70000]; int got = 0;
    for (int tries = 0; tries < 200 && got < nm; tries++) {
      GInputVector iv = { rb, sizeof rb }; NiceInputMessage im = { &iv, 1, NULL, 0 }; NiceAddress from; im.from = &from;
      gint k = nice_socket_recv_messages (B, &im, 1);
      if (k == 1) { if (got) fputc (',', hc_out); hc_puthex (hc_out, rb, im.length); if (!im.length) fputc ('-', hc_out); got++; tries = 0; }
      else if (r <= got) break; else g_usleep (200);
    }
    if (!got) fputc ('-', hc_out);
    fputc ('\n', hc_out); fflush (hc_out);
    for (int k = 0; k < nm; k++) { for (guint j = 0; j < (guint) om[k].n_buffers; j++) free ((void *) ov[k][j].buffer); g_free (ov[k]); }
  }
  nice_socket_free (A); nice_socket_free (B);
  return 0;
}
