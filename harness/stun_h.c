/* Correspondence harness for the STUN message code (stun/stunmessage.c, stunagent.c, stun5389.c, stunhmac.c,
 * stuncrc32.c, utils.c).  One program per line:
 *     <id> <compat 0..3> <flags> <known: hex list of uint16 | -> OP ; OP ; ...
 * Received packets and output buffers are exactly-sized heap blocks (ASan sees any access outside them);
 * transaction ids come from the case (nice_RAND_nonce is replaced).  See ocaml/stun_driver.ml for the
 * model side, which prints the same tokens. */
#include "hcommon.h"
#include <arpa/inet.h>
#include <netinet/in.h>
#include "stun/stunagent.h"
#include "stun/stunhmac.h"

static uint8_t next_id[16];
void nice_RAND_nonce (uint8_t *dst, int len) { memcpy (dst, next_id, len < 16 ? len : 16); }
void nice_RAND_bytes (uint8_t *dst, int len) { memset (dst, 0x5a, len); }

#define P(...) fprintf (hc_out, __VA_ARGS__)

static const uint16_t dump_types[] = { 0x0001, 0x0006, 0x0008, 0x0009, 0x000d, 0x0013, 0x0014, 0x0015, 0x0020, 0x0024, 0x0025,
                                       0x8022, 0x8028, 0x8029, 0x802a, 0x8070 };

static void dump_addr (StunMessageReturn r, struct sockaddr_storage *ss)
{
  if (r != STUN_MESSAGE_RETURN_SUCCESS) { P ("%d", (int) r); return; }
  if (ss->ss_family == AF_INET) {
    struct sockaddr_in *s = (struct sockaddr_in *) ss; P ("0:1:%u:", ntohs (s->sin_port)); hc_puthex (hc_out, (uint8_t *) &s->sin_addr, 4);
  } else {
    struct sockaddr_in6 *s = (struct sockaddr_in6 *) ss; P ("0:2:%u:", ntohs (s->sin6_port)); hc_puthex (hc_out, (uint8_t *) &s->sin6_addr, 16);
  }
}

static void dump_msg (StunAgent *ag, StunMessage *m, uint16_t extra)
{
  P (" c%d m%d k%d", (int) stun_message_get_class (m), (int) stun_message_get_method (m), (int) stun_message_has_cookie (m));
  for (unsigned i = 0; i <= sizeof dump_types / sizeof dump_types[0]; i++) {
    uint16_t t = i < sizeof dump_types / sizeof dump_types[0] ? dump_types[i] : extra, l = 0;
    const uint8_t *p = stun_message_find (m, t, &l);
    if (p) P (" %x=%ld:%u", t, (long) (p - m->buffer), l); else P (" %x=n", t);
  }
  int code = -1; StunMessageReturn r = stun_message_find_error (m, &code);
  P (" e=%d:%d", (int) r, r == STUN_MESSAGE_RETURN_SUCCESS ? code : -1);
  uint32_t v32 = 0; r = stun_message_find32 (m, STUN_ATTRIBUTE_PRIORITY, &v32); P (" p=%d:%u", (int) r, r ? 0 : v32);
  uint64_t v64 = 0; r = stun_message_find64 (m, STUN_ATTRIBUTE_ICE_CONTROLLING, &v64); P (" g=%d:%llu", (int) r, r ? 0ULL : (unsigned long long) v64);
  P (" f=%d", (int) stun_message_find_flag (m, STUN_ATTRIBUTE_USE_CANDIDATE));
  { char sb[10]; r = stun_message_find_string (m, STUN_ATTRIBUTE_USERNAME, sb, sizeof sb); P (" s=%d:", (int) r); if (!r) hc_puthex (hc_out, (uint8_t *) sb, strlen (sb)); else P ("-"); }
  { struct sockaddr_storage ss; socklen_t sl = sizeof ss; r = stun_message_find_addr (m, STUN_ATTRIBUTE_MAPPED_ADDRESS, &ss, &sl); P (" a="); dump_addr (r, &ss); }
  { struct sockaddr_storage ss; socklen_t sl = sizeof ss; r = stun_message_find_xor_addr (m, STUN_ATTRIBUTE_XOR_MAPPED_ADDRESS, &ss, &sl); P (" x="); dump_addr (r, &ss); }
  { struct sockaddr_in s4; socklen_t sl = sizeof s4; r = stun_message_find_xor_addr (m, extra, (struct sockaddr_storage *) &s4, &sl); P (" y=%d", (int) r); }
  P (" K="); if (m->key) hc_puthex (hc_out, m->key, m->key_len); else P ("n");
}

static __attribute__((noinline)) void dirty_stack (void) { volatile int a[2048]; for (int i = 0; i < 2048; i++) a[i] = 403; }
static int n_valid (StunAgent *ag) { int n = 0; for (int i = 0; i < STUN_AGENT_MAX_SAVED_IDS; i++) n += ag->sent_ids[i].valid ? 1 : 0; return n; }

int main (void)
{
  static char line[1 << 22];
  hc_init (); hc_catch_abort ();
  while (fgets (line, sizeof line, stdin)) {
    char *sv, *id = strtok_r (line, " \n", &sv); if (!id) continue;
    int compat = atoi (strtok_r (NULL, " \n", &sv)); unsigned flags = strtoul (strtok_r (NULL, " \n", &sv), NULL, 10);
    size_t kn; uint8_t *kb = hc_unhex (strtok_r (NULL, " \n", &sv), &kn);
    uint16_t *known = calloc (kn / 2 + 1, 2); for (size_t i = 0; i < kn / 2; i++) known[i] = kb[2 * i] << 8 | kb[2 * i + 1];
    StunAgent ag; stun_agent_init (&ag, known, compat, flags);
    StunMessage B, R; uint8_t *bbuf = NULL, *rbuf = NULL; size_t bcap = 0, blen = 0; int have_b = 0, have_r = 0;
    uint8_t *keys[64]; int nkeys = 0; char *swstr = NULL;
    memset (&B, 0, sizeof B); memset (&R, 0, sizeof R);
    P ("%s", id);
    char *op;
    while ((op = strtok_r (NULL, " \n", &sv))) {
      if (!strcmp (op, ";")) continue;
      if (!strcmp (op, "VF")) {
        int padded = atoi (strtok_r (NULL, " \n", &sv)); size_t total = strtoul (strtok_r (NULL, " \n", &sv), NULL, 10);
        int nullterm = atoi (strtok_r (NULL, " \n", &sv)); int n = atoi (strtok_r (NULL, " \n", &sv));
        StunInputVector *v = calloc (n + 1, sizeof *v);
        for (int i = 0; i < n; i++) { size_t l; char *tk = strtok_r (NULL, " \n", &sv);
          if (!strcmp (tk, "~")) { v[i].buffer = NULL; v[i].size = 0; continue; }      /* a {NULL, 0} placeholder entry of a counted vector */
          v[i].buffer = hc_unhex_tight (tk, &l); v[i].size = l; }
        P (" vf=%zd", stun_message_validate_buffer_length_fast (v, nullterm ? -1 : n, total, padded));
      } else if (!strcmp (op, "VL")) {
        int padded = atoi (strtok_r (NULL, " \n", &sv)); size_t l; uint8_t *b = hc_unhex_tight (strtok_r (NULL, " \n", &sv), &l);
        P (" vl=%d", stun_message_validate_buffer_length (b, l, padded));
      } else if (!strcmp (op, "V")) {
        /* validater table: "n" = NULL validater, "-" = empty table, else u:p,u:p (hex) ; then extra type ; then hex | @ */
        char *vt = strtok_r (NULL, " \n", &sv); unsigned extra = strtoul (strtok_r (NULL, " \n", &sv), NULL, 16); char *hx = strtok_r (NULL, " \n", &sv);
        StunDefaultValidaterData vd[17]; memset (vd, 0, sizeof vd); int nv = 0;
        if (strcmp (vt, "n") && strcmp (vt, "-")) {
          char *s2, *e = strtok_r (vt, ",", &s2);
          while (e && nv < 16) { char *c = strchr (e, ':'); *c = 0; size_t ul, pl; vd[nv].username = hc_unhex (e, &ul); vd[nv].username_len = ul;
            vd[nv].password = hc_unhex (c + 1, &pl); vd[nv].password_len = pl; nv++; e = strtok_r (NULL, ",", &s2); }
        }
        size_t l; uint8_t *b;
        if (!strcmp (hx, "@")) { l = blen; b = malloc (l ? l : 1); if (l) memcpy (b, bbuf, l); b = realloc (b, l ? l : 1); } else b = hc_unhex_tight (hx, &l);
        StunMessage m; memset (&m, 0, sizeof m);
        dirty_stack ();   /* whatever the callee reads from the stack without having written it first is 403 / 0x93 bytes, not luck */
        StunValidationStatus st = stun_agent_validate (&ag, &m, b, l, strcmp (vt, "n") ? stun_agent_default_validater : NULL, vd);
        P (" v=%d n%d", (int) st, n_valid (&ag));
        if (st != STUN_VALIDATION_NOT_STUN && st != STUN_VALIDATION_INCOMPLETE_STUN) { dump_msg (&ag, &m, extra); R = m; rbuf = b; have_r = 1; }
      } else if (!strcmp (op, "IR") || !strcmp (op, "II")) {
        int meth = strtol (strtok_r (NULL, " \n", &sv), NULL, 10); bcap = strtoul (strtok_r (NULL, " \n", &sv), NULL, 10);
        size_t il; uint8_t *idb = hc_unhex (strtok_r (NULL, " \n", &sv), &il); memcpy (next_id, idb, 16);
        bbuf = malloc (bcap ? bcap : 1); if (!bcap) bbuf += 1; memset (bbuf, 0xee, bcap); blen = 0;
        have_b = !strcmp (op, "IR") ? stun_agent_init_request (&ag, &B, bbuf, bcap, meth) : stun_agent_init_indication (&ag, &B, bbuf, bcap, meth);
        P (" i=%d", have_b);
      } else if (!strcmp (op, "IS") || !strcmp (op, "IE")) {
        bcap = strtoul (strtok_r (NULL, " \n", &sv), NULL, 10); int code = !strcmp (op, "IE") ? atoi (strtok_r (NULL, " \n", &sv)) : 0;
        if (!have_r) { P (" i=x"); continue; }
        bbuf = malloc (bcap ? bcap : 1); if (!bcap) bbuf += 1; memset (bbuf, 0xee, bcap); blen = 0;
        have_b = !strcmp (op, "IS") ? stun_agent_init_response (&ag, &B, bbuf, bcap, &R) : stun_agent_init_error (&ag, &B, bbuf, bcap, &R, code);
        P (" i=%d", have_b);
      } else if (!strcmp (op, "SW")) {
        size_t l; uint8_t *b = hc_unhex (strtok_r (NULL, " \n", &sv), &l); swstr = malloc (l + 1); memcpy (swstr, b, l); swstr[l] = 0; stun_agent_set_software (&ag, swstr); P (" sw");
      } else if (op[0] == 'A') {
        unsigned type = strtoul (strtok_r (NULL, " \n", &sv), NULL, strcmp (op, "AE") ? 16 : 10); StunMessageReturn r = -1;
        if (!strcmp (op, "AB")) { size_t l; uint8_t *b = hc_unhex (strtok_r (NULL, " \n", &sv), &l); if (have_b) r = stun_message_append_bytes (&B, type, b, l); }
        else if (!strcmp (op, "A32")) { uint32_t v = strtoul (strtok_r (NULL, " \n", &sv), NULL, 10); if (have_b) r = stun_message_append32 (&B, type, v); }
        else if (!strcmp (op, "A64")) { uint64_t v = strtoull (strtok_r (NULL, " \n", &sv), NULL, 10); if (have_b) r = stun_message_append64 (&B, type, v); }
        else if (!strcmp (op, "AF")) { if (have_b) r = stun_message_append_flag (&B, type); }
        else if (!strcmp (op, "AE")) { if (have_b) r = stun_message_append_error (&B, type); }
        else if (!strcmp (op, "AA") || !strcmp (op, "AX")) {
          int fam = atoi (strtok_r (NULL, " \n", &sv)); unsigned port = atoi (strtok_r (NULL, " \n", &sv)); size_t l; uint8_t *b = hc_unhex (strtok_r (NULL, " \n", &sv), &l);
          struct sockaddr_storage ss; memset (&ss, 0, sizeof ss); socklen_t sl;
          if (fam == 1) { struct sockaddr_in *s = (void *) &ss; s->sin_family = AF_INET; s->sin_port = htons (port); memcpy (&s->sin_addr, b, 4); sl = sizeof *s; }
          else if (fam == 2) { struct sockaddr_in6 *s = (void *) &ss; s->sin6_family = AF_INET6; s->sin6_port = htons (port); memcpy (&s->sin6_addr, b, 16); sl = sizeof *s; }
          else { ss.ss_family = AF_UNIX; sl = sizeof (struct sockaddr_in); }
          if (have_b) r = !strcmp (op, "AA") ? stun_message_append_addr (&B, type, (struct sockaddr *) &ss, sl) : stun_message_append_xor_addr (&B, type, &ss, sl);
        }
        if (!have_b) P (" a=x"); else P (" a=%d:%u", (int) r, (unsigned) stun_message_length (&B));
      } else if (!strcmp (op, "F")) {
        char *kx = strtok_r (NULL, " \n", &sv); size_t kl = 0; uint8_t *k = NULL;
        if (strcmp (kx, "n")) { k = hc_unhex (strcmp (kx, "e") ? kx : "-", &kl); keys[nkeys++ & 63] = k; }
        if (!have_b) { P (" f=x"); continue; }
        blen = stun_agent_finish_message (&ag, &B, k, kl);
        P (" f=%zu:", blen); hc_puthex (hc_out, bbuf, blen); P (":n%d", n_valid (&ag)); have_b = 0;
        if (blen == 0) { /* the buffer content must still be confined to the caller's buffer; show header length field */ }
      } else if (!strcmp (op, "FG")) {
        size_t il; uint8_t *idb = hc_unhex (strtok_r (NULL, " \n", &sv), &il); P (" fg=%d", (int) stun_agent_forget_transaction (&ag, idb));
      } else { P (" ?%s", op); }
    }
    P ("\n"); fflush (hc_out);
  }
  return 0;
}
