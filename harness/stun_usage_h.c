/* C05, runtime part: usage-level processing functions (binding, ICE check, TURN allocate/refresh, reply construction
 * and the request builders) fed with arbitrary packets in exactly-sized heap buffers under ASan/UBSan.  No Coq model
 * stands behind these functions: this harness only supports the tie (crash / sanitizer report / abort = violation,
 * plus the bounds the property states: produced lengths within the caller's buffer).
 *   line: <id> <compat 0..3> <flags> <icecompat 0..5> <turncompat 0..4> <outcap> <validater u:p,...|-> <hex packet>
 *   out : <id> v=<status> [b=.. i=.. t=.. r=.. rp=<ret>:<len> ...] c=<lens of builders> */
#include "hcommon.h"
#include <arpa/inet.h>
#include "stun/stunagent.h"
#include "stun/usages/bind.h"
#include "stun/usages/ice.h"
#include "stun/usages/turn.h"
#define P(...) fprintf (hc_out, __VA_ARGS__)
static const uint16_t known[] = { 0x0001, 0x0006, 0x0008, 0x0009, 0x000d, 0x0013, 0x0014, 0x0015, 0x0020, 0x0024, 0x0025, 0x0012, 0x0016, 0x000c, 0 };

int main (void)
{
  static char line[1 << 20];
  hc_init (); hc_catch_abort ();
  while (fgets (line, sizeof line, stdin)) {
    char *sv, *id = strtok_r (line, " \n", &sv); if (!id) continue;
    int compat = atoi (strtok_r (NULL, " \n", &sv)); unsigned flags = strtoul (strtok_r (NULL, " \n", &sv), NULL, 10);
    int icec = atoi (strtok_r (NULL, " \n", &sv)), turnc = atoi (strtok_r (NULL, " \n", &sv)); size_t outcap = strtoul (strtok_r (NULL, " \n", &sv), NULL, 10);
    char *vt = strtok_r (NULL, " \n", &sv);
    StunDefaultValidaterData vd[9]; memset (vd, 0, sizeof vd); int nv = 0;
    if (strcmp (vt, "-")) { char *s2, *e = strtok_r (vt, ",", &s2);
      while (e && nv < 8) { char *c = strchr (e, ':'); *c = 0; size_t ul, pl; vd[nv].username = hc_unhex (e, &ul); vd[nv].username_len = ul; vd[nv].password = hc_unhex (c + 1, &pl); vd[nv].password_len = pl; nv++; e = strtok_r (NULL, ",", &s2); } }
    size_t l; uint8_t *pkt = hc_unhex_tight (strtok_r (NULL, " \n", &sv), &l);
    StunAgent ag; stun_agent_init (&ag, known, compat, flags);
    StunMessage m; memset (&m, 0, sizeof m);
    P ("%s", id);
    if (!HC_TRY) { HC_END; P (" ABORT\n"); fflush (hc_out); continue; }
    StunValidationStatus st = stun_agent_validate (&ag, &m, pkt, l, stun_agent_default_validater, vd);
    P (" v=%d", (int) st);
    if (st != STUN_VALIDATION_NOT_STUN && st != STUN_VALIDATION_INCOMPLETE_STUN) {
      struct sockaddr_storage a1, a2, a3; socklen_t l1 = sizeof a1, l2 = sizeof a2, l3 = sizeof a3; uint32_t bw = 0, lt = 0;
      P (" b=%d", (int) stun_usage_bind_process (&m, (struct sockaddr *) &a1, &l1, (struct sockaddr *) &a2, &l2));
      l1 = sizeof a1; P (" i=%d", (int) stun_usage_ice_conncheck_process (&m, &a1, &l1, icec));
      l1 = sizeof a1; l2 = sizeof a2; l3 = sizeof a3;
      P (" t=%d", (int) stun_usage_turn_process (&m, &a1, &l1, &a2, &l2, &a3, &l3, &bw, &lt, turnc));
      P (" r=%d", (int) stun_usage_turn_refresh_process (&m, &lt, turnc));
      P (" p=%u u=%d", stun_usage_ice_conncheck_priority (&m), (int) stun_usage_ice_conncheck_use_candidate (&m));
      if (stun_message_get_class (&m) == STUN_REQUEST) {
        uint8_t *ob = (uint8_t *) malloc (outcap ? outcap : 1) + (outcap ? 0 : 1); size_t ol = outcap; StunMessage rep; bool ctl = flags & 1;
        struct sockaddr_in sa; memset (&sa, 0, sizeof sa); sa.sin_family = AF_INET; sa.sin_port = htons (1234); sa.sin_addr.s_addr = htonl (0x0a000001);
        int rr = stun_usage_ice_conncheck_create_reply (&ag, &m, &rep, ob, &ol, (struct sockaddr_storage *) &sa, sizeof sa, &ctl, 0x1122334455667788ULL, icec);
        P (" rp=%d:%zu", rr, ol);
        if (rr == STUN_USAGE_ICE_RETURN_SUCCESS && ol >= 20) {
          /* reads back equal: the mapped address decodes to the source given, the request's USERNAME is echoed */
          struct sockaddr_storage back; socklen_t bl = sizeof back; memset (&back, 0, sizeof back); int mr;
          if (icec == STUN_USAGE_ICE_COMPATIBILITY_MSN) { StunTransactionId id; stun_message_id (&rep, id); uint32_t ck; memcpy (&ck, id, 4);
            mr = stun_message_find_xor_addr_full (&rep, STUN_ATTRIBUTE_XOR_MAPPED_ADDRESS, &back, &bl, htonl (ck)); }
          else if (stun_message_has_cookie (&rep) && icec != STUN_USAGE_ICE_COMPATIBILITY_GOOGLE) mr = stun_message_find_xor_addr (&rep, STUN_ATTRIBUTE_XOR_MAPPED_ADDRESS, &back, &bl);
          else mr = stun_message_find_addr (&rep, STUN_ATTRIBUTE_MAPPED_ADDRESS, &back, &bl);
          struct sockaddr_in *b4 = (struct sockaddr_in *) &back;
          P (" rm=%d", mr == STUN_MESSAGE_RETURN_SUCCESS && b4->sin_family == AF_INET && b4->sin_port == sa.sin_port && b4->sin_addr.s_addr == sa.sin_addr.s_addr);
          uint16_t ul1 = 0, ul2 = 0; const void *u1 = stun_message_find (&m, STUN_ATTRIBUTE_USERNAME, &ul1), *u2 = stun_message_find (&rep, STUN_ATTRIBUTE_USERNAME, &ul2);
          /* a reply without the RFC 5389 cookie carries attribute lengths rounded up to a multiple of 4 (RFC 3489 compatibility of stun_message_append):
           * the echoed USERNAME then is the request's value followed by zero padding counted in its length */
          size_t want = (stun_message_has_cookie (&rep) || (flags & STUN_AGENT_USAGE_NO_ALIGNED_ATTRIBUTES)) ? ul1 : (size_t) ((ul1 + 3) & ~3u);
          if (!u1) P (" ru=-"); else P (" ru=%d", u2 != NULL && ul2 == want && !memcmp (u1, u2, ul1));
        }
        /* whatever length is reported must be a complete, well-formed message inside the output buffer */
        P (" rw=%d", ol == 0 ? 1 : (ol <= outcap && ol >= 20 && stun_message_validate_buffer_length (ob, ol, !(flags & STUN_AGENT_USAGE_NO_ALIGNED_ATTRIBUTES)) == (int) ol));
        uint8_t *eb = (uint8_t *) malloc (outcap ? outcap : 1) + (outcap ? 0 : 1); StunMessage em;
        { size_t ul = stun_agent_build_unknown_attributes_error (&ag, &em, eb, outcap, &m); P (" ue=%zu", ul);
          P (" uw=%d", ul == 0 ? 1 : (ul <= outcap && ul >= 20 && stun_message_validate_buffer_length (eb, ul, !(flags & STUN_AGENT_USAGE_NO_ALIGNED_ATTRIBUTES)) == (int) ul)); }
      } else {
        /* use the response as "previous_response" of the TURN request builders */
        uint8_t *ob = (uint8_t *) malloc (outcap ? outcap : 1) + (outcap ? 0 : 1); StunMessage q;
        P (" tc=%zu", stun_usage_turn_create (&ag, &q, ob, outcap, &m, 0, -1, 600, (uint8_t *) "user", 4, (uint8_t *) "pass", 4, turnc));
        uint8_t *ob2 = (uint8_t *) malloc (outcap ? outcap : 1) + (outcap ? 0 : 1);
        P (" tr=%zu", stun_usage_turn_create_refresh (&ag, &q, ob2, outcap, &m, 0, (uint8_t *) "user", 4, (uint8_t *) "pass", 4, turnc));
      }
    }
    { /* builders into a buffer of outcap bytes */
      uint8_t *ob = (uint8_t *) malloc (outcap ? outcap : 1) + (outcap ? 0 : 1); StunMessage q; StunAgent a2; stun_agent_init (&a2, known, compat, flags);
      P (" c=%zu", stun_usage_bind_create (&a2, &q, ob, outcap));
      P (",%zu", stun_usage_bind_keepalive (&a2, &q, ob, outcap));
      P (",%zu", stun_usage_ice_conncheck_create (&a2, &q, ob, outcap, (uint8_t *) "ab:cd", 5, (uint8_t *) "pw", 2, 1, 1, 77, 99, icec == 4 ? "cand" : NULL, icec));
      P (",%zu", stun_usage_turn_create (&a2, &q, ob, outcap, NULL, 0, 1, 600, (uint8_t *) "user", 4, (uint8_t *) "pass", 4, turnc));
      struct sockaddr_storage ss; memset (&ss, 0, sizeof ss); struct sockaddr_in *sa = (struct sockaddr_in *) &ss; sa->sin_family = AF_INET; sa->sin_port = htons (1234);
      P (",%zu", stun_usage_turn_create_permission (&a2, &q, ob, outcap, (uint8_t *) "user", 4, (uint8_t *) "pass", 4, (uint8_t *) "realm", 5, (uint8_t *) "nonce", 5, &ss, turnc));
    }
    HC_END;
    P ("\n"); fflush (hc_out);
  }
  return 0;
}
