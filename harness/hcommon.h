/* Shared helpers of the correspondence harnesses. */
#ifndef HCOMMON_H
#define HCOMMON_H
#include <stdio.h>
#include <stdlib.h>
#include <string.h>
#include <unistd.h>
#include <setjmp.h>
#include <signal.h>

/* Protocol output goes to a private FILE* bound to the original stdout; fd 1 is then pointed at stderr so
 * that anything GLib prints on stdout ("Bail out!" lines of failed assertions) cannot corrupt the protocol. */
static FILE *hc_out;
static void hc_init (void)
{
  int fd = dup (1);
  hc_out = fdopen (fd, "w");
  setvbuf (hc_out, NULL, _IOFBF, 1 << 16);
  dup2 (2, 1);
}

/* A failed g_assert / abort() inside the code under test is reported as a Fault instead of killing the run. */
static sigjmp_buf hc_jb;
static volatile int hc_armed;
static void hc_on_abrt (int s) { if (hc_armed) siglongjmp (hc_jb, 1); _exit (134); }
static void hc_catch_abort (void)
{
  struct sigaction sa; memset (&sa, 0, sizeof sa); sa.sa_handler = hc_on_abrt; sa.sa_flags = SA_NODEFER;
  sigaction (SIGABRT, &sa, NULL);
}
/* usage: if (HC_TRY) { ...code...; HC_END; } else { fault } */
#define HC_TRY (hc_armed = 1, sigsetjmp (hc_jb, 1) == 0)
#define HC_END (hc_armed = 0)

static int hc_hexval (int c) { return c <= '9' ? c - '0' : (c | 32) - 'a' + 10; }
/* "-" = empty; returns malloc'd exactly-sized buffer (so ASan sees any over-read), length in *n */
static unsigned char *hc_unhex (const char *s, size_t *n)
{
  if (!s || !strcmp (s, "-")) { *n = 0; return malloc (0); }
  size_t l = strlen (s) / 2; unsigned char *b = malloc (l);
  for (size_t i = 0; i < l; i++) b[i] = hc_hexval (s[2 * i]) * 16 + hc_hexval (s[2 * i + 1]);
  *n = l; return b;
}
/* like hc_unhex, but an empty string yields a pointer one past a 1-byte block, so that reading even one
 * byte of an empty received buffer is an ASan report (malloc(0) is silently 1 byte under ASan); never free() it */
static unsigned char *hc_unhex_tight (const char *s, size_t *n)
{
  if (!s || !strcmp (s, "-")) { *n = 0; return (unsigned char *) malloc (1) + 1; }
  return hc_unhex (s, n);
}
static void hc_puthex (FILE *f, const unsigned char *b, size_t n)
{
  if (n == 0) { fputc ('-', f); return; }
  for (size_t i = 0; i < n; i++) fprintf (f, "%02x", b[i]);
}
#endif
