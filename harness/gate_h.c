/* Tie for coq/Agent/GateModel.v: the real nice_component_add_valid_candidate / nice_component_verify_remote_candidate.
 * line: <id> <op>...   ops: A<tr>:<addrid>  (authenticated check from candidate)   D<socktype>:<addrid>  (datagram; socktype = NiceSocketType)
 * out:  <id> <0|1 per D op, concatenated or '-'> <final list tr:addr,...> */
#include "hcommon.h"
#include "agent/agent.h"
#include "agent/agent-priv.h"
#include "agent/component.h"
#include "socket/socket.h"
static NiceAddress mk (int id) { NiceAddress a; char ip[32]; sprintf (ip, "10.2.%d.%d", (id / 4) / 250, (id / 4) % 250 + 1); nice_address_init (&a); nice_address_set_from_string (&a, ip); nice_address_set_port (&a, 5000 + id % 4); return a; }
static int unmk (const NiceAddress *a) { char ip[64]; int x, y; nice_address_to_string (a, ip); sscanf (ip, "10.2.%d.%d", &x, &y); return (x * 250 + y - 1) * 4 + (nice_address_get_port (a) - 5000); }
int main (void)
{
  static char line[1 << 16]; hc_init ();
  while (fgets (line, sizeof line, stdin)) {
    char *sv, *id = strtok_r (line, " \n", &sv); if (!id) continue;
    NiceAgent *ag = nice_agent_new (g_main_context_default (), NICE_COMPATIBILITY_RFC5245); guint sid = nice_agent_add_stream (ag, 1);
    NiceStream *st; NiceComponent *cm; agent_lock (ag); agent_find_component (ag, sid, 1, &st, &cm);
    char outs[4096]; int no = 0; char *op;
    while ((op = strtok_r (NULL, " \n", &sv))) {
      int x, y; if (sscanf (op + 1, "%d:%d", &x, &y) != 2) continue;
      if (op[0] == 'A') { NiceCandidate *c = nice_candidate_new (NICE_CANDIDATE_TYPE_HOST); c->transport = x; c->addr = mk (y); c->stream_id = sid; c->component_id = 1;
        nice_component_add_valid_candidate (ag, cm, c); nice_candidate_free (c); }
      else if (op[0] == 'D') { NiceSocket s; memset (&s, 0, sizeof s); s.type = x; NiceAddress a = mk (y); outs[no++] = nice_component_verify_remote_candidate (cm, &a, &s) ? '1' : '0'; }
    }
    outs[no] = 0; fprintf (hc_out, "%s %s ", id, no ? outs : "-");
    for (GList *i = cm->valid_candidates; i; i = i->next) { NiceCandidate *c = i->data; fprintf (hc_out, "%d:%d,", (int) c->transport, unmk (&c->addr)); }
    fprintf (hc_out, "\n"); agent_unlock (ag); g_object_unref (ag);
  }
  fflush (hc_out); return 0;
}
