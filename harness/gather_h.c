/* Tie for coq/Agent/GatherModel.v: the real (static) priv_add_local_candidate_pruned of agent/discovery.c.
 * line: <id> <type>:<tr>:<ip>:<port>:<bip>:<bport> ...    out: <id> <accepted bits> <final list, same syntax, comma separated> */
#include "hcommon.h"
#include "agent/discovery.c"
static NiceAddress mk (int ip, int port) { NiceAddress a; char s[32]; sprintf (s, "10.3.%d.%d", ip / 250, ip % 250 + 1); nice_address_init (&a); nice_address_set_from_string (&a, s); nice_address_set_port (&a, 1000 + port); return a; }
static void unmk (const NiceAddress *a, int *ip, int *port) { char s[64]; int x, y; nice_address_to_string (a, s); sscanf (s, "10.3.%d.%d", &x, &y); *ip = x * 250 + y - 1; *port = nice_address_get_port (a) - 1000; }
int main (void)
{
  static char line[1 << 16]; hc_init ();
  while (fgets (line, sizeof line, stdin)) {
    char *sv, *id = strtok_r (line, " \n", &sv); if (!id) continue;
    NiceAgent *ag = nice_agent_new (g_main_context_default (), NICE_COMPATIBILITY_RFC5245); guint sid = nice_agent_add_stream (ag, 1);
    NiceStream *st; NiceComponent *cm; agent_lock (ag); agent_find_component (ag, sid, 1, &st, &cm);
    char bits[4096]; int nb = 0; char *op;
    while ((op = strtok_r (NULL, " \n", &sv))) {
      int t, tr, ip, port, bip, bport; if (sscanf (op, "%d:%d:%d:%d:%d:%d", &t, &tr, &ip, &port, &bip, &bport) != 6) continue;
      NiceCandidate *c = nice_candidate_new (t); c->transport = tr; c->addr = mk (ip, port); c->base_addr = mk (bip, bport); c->stream_id = sid; c->component_id = 1;
      gboolean ok = priv_add_local_candidate_pruned (ag, sid, cm, c); bits[nb++] = ok ? '1' : '0'; if (!ok) nice_candidate_free (c);
    }
    bits[nb] = 0; fprintf (hc_out, "%s %s ", id, nb ? bits : "-");
    for (GSList *i = cm->local_candidates; i; i = i->next) { NiceCandidate *c = i->data; int ip, port, bip, bport; unmk (&c->addr, &ip, &port); unmk (&c->base_addr, &bip, &bport);
      fprintf (hc_out, "%d:%d:%d:%d:%d:%d,", (int) c->type, (int) c->transport, ip, port, bip, bport); }
    fprintf (hc_out, "\n"); agent_unlock (ag); g_object_unref (ag);
  }
  fflush (hc_out); return 0;
}
