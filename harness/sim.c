/* Deterministic two-(or more-)agent ICE simulator over /repo's real libnice sources.
 *  - virtual time: clock_gettime() below feeds g_get_monotonic_time(), GLib timeout sources and stun timers;
 *  - virtual UDP: nice_udp_bsd_socket_new() below replaces socket/udp-bsd.c (in-memory datagrams, a socketpair
 *    as the readable "doorbell" GSocket); drop / duplicate / delay decided by a seeded policy;
 *  - scripted STUN / TURN servers living on virtual addresses;
 *  - one scenario per input line (ops separated by spaces), one trace per scenario on the protocol stream:
 *       <id> | <t_ms> <event> ... | ...
 * Everything observable is printed: signals, API results, datagrams (with a STUN summary), received data,
 * periodic state digests (check list order, selected pairs, roles).  Oracles live in props/sim_common.py. */
#include "hcommon.h"
#include <time.h>
#include <sys/socket.h>
#include <arpa/inet.h>
#include <gio/gio.h>
#include <sanitizer/lsan_interface.h>
#include <sys/wait.h>
#include "agent/agent.h"
#include "agent/agent-priv.h"
#include "agent/component.h"
#include "agent/stream.h"
#include "agent/conncheck.h"
#include "agent/discovery.h"
#include "socket/socket.h"
#include "stun/stunagent.h"
#include "stun/usages/bind.h"
#include "stun/usages/turn.h"

/* ------------------------------------------------------------------ virtual clock */
static gint64 vnow_us = 1000000000LL;   /* 1000 s */
static gint64 t0_us = 1000000000LL;
int clock_gettime (clockid_t id, struct timespec *ts) { ts->tv_sec = vnow_us / 1000000; ts->tv_nsec = (vnow_us % 1000000) * 1000; return 0; }
static long now_ms (void) { return (long) ((vnow_us - t0_us) / 1000); }

/* ------------------------------------------------------------------ trace */
#define T(...) do { fprintf (hc_out, " | %ld ", now_ms ()); fprintf (hc_out, __VA_ARGS__); } while (0)

/* timer trace (C12, op tracetimers): every timeout source libnice creates goes through g_source_set_name() right after
 * g_timeout_source_new(); the definition below takes precedence over GLib's for the calls made by the libnice objects linked
 * into this executable and logs the timer's name and the interval it was armed with */
#include <dlfcn.h>
static int trace_timers;
void g_source_set_name (GSource *src, const char *name)
{
  static void (*real) (GSource *, const char *); if (!real) real = (void (*) (GSource *, const char *)) dlsym (RTLD_NEXT, "g_source_set_name");
  real (src, name);
  if (trace_timers && hc_out && name) { gint64 rt = g_source_get_ready_time (src);
    if (rt >= 0) { char nm[80]; size_t k = 0; for (; name[k] && k < 79; k++) nm[k] = name[k] == ' ' ? '_' : name[k]; nm[k] = 0; T ("tmr %s %ld", nm, (long) ((rt - vnow_us) / 1000)); } }
}
static void hexs (char *o, const guint8 *b, gsize n, gsize max) { gsize k = n < max ? n : max; for (gsize i = 0; i < k; i++) sprintf (o + 2 * i, "%02x", b[i]); o[2 * k] = 0; }
static void addr_s (const NiceAddress *a, char *o) { char ip[64]; nice_address_to_string (a, ip); sprintf (o, "%s:%u", ip, nice_address_get_port (a)); }

/* ------------------------------------------------------------------ PRNG (xorshift, seeded per scenario) */
static guint64 rng_s = 88172645463325252ULL;
static guint32 rnd (void) { rng_s ^= rng_s << 13; rng_s ^= rng_s >> 7; rng_s ^= rng_s << 17; return (guint32) (rng_s >> 16); }
/* transaction ids etc.: deterministic replacement of stun/rand.c */
static guint64 nonce_s = 0x9e3779b97f4a7c15ULL;
void nice_RAND_nonce (uint8_t *dst, int len) { for (int i = 0; i < len; i++) { nonce_s ^= nonce_s << 13; nonce_s ^= nonce_s >> 7; nonce_s ^= nonce_s << 17; dst[i] = nonce_s >> 24; } }
static double rndf (void) { return (rnd () & 0xffffff) / (double) 0x1000000; }

/* ------------------------------------------------------------------ virtual network */
typedef struct { NiceAddress from, to; guint8 *data; gsize len; gint64 due_us; guint64 serial; } VPkt;
typedef struct { NiceSocket *nsock; GQueue rx; int db_w; gboolean closed; int fail_next; } VSock;
static GPtrArray *vsocks; static GList *inflight; static guint64 pkt_serial; static guint next_port = 40000;
static double p_drop, p_dup; static long d_min_us = 1000, d_max_us = 1000; static int max_consec_loss = 2;
static GHashTable *consec;      /* "from>to" -> consecutive losses */
static GHashTable *resp_tokens; /* transaction id -> responses still to be lost */
static GHashTable *blackhole;   /* "ip>ip" or "ip:port>ip:port" -> 1 : silently dropped */
/* virtual interface list (replaces agent/interfaces.c): every simulated local address, in registration order, so that
 * multihomed hosts get distinct local preferences exactly as nice_candidate_ip_local_preference computes them */
static char *vif[64]; static int n_vif;
GList *nice_interfaces_get_local_ips (gboolean include_loopback) { GList *l = NULL; for (int i = 0; i < n_vif; i++) l = g_list_append (l, g_strdup (vif[i])); return l; }
GList *nice_interfaces_get_local_interfaces (void) { return NULL; }
gchar *nice_interfaces_get_ip_for_interface (gchar *n) { return NULL; }
guint nice_interfaces_get_if_index_by_addr (NiceAddress *a) { return 0; }
gboolean nice_interfaces_is_private_ip (const struct sockaddr *sa) { return TRUE; }
static int trace_pkts = 1; static int srv_loss; static NiceAddress nat_priv[8], nat_pub[8]; static int n_nat;

static VSock *vsock_find (const NiceAddress *a)
{
  for (guint i = 0; i < vsocks->len; i++) { VSock *v = vsocks->pdata[i]; if (!v->closed && nice_address_equal (&v->nsock->addr, a)) return v; }
  return NULL;
}

static void stun_summary (const guint8 *d, gsize n, char *o)
{
  o[0] = 0;
  if (n >= 20 && (d[0] >> 6) == 0 && ((d[2] << 8 | d[3]) + 20 == (int) n)) {
    int t = d[0] << 8 | d[1]; int cls = ((t & 0x0100) >> 7) | ((t & 0x0010) >> 4); int m = ((t & 0x3e00) >> 2) | ((t & 0x00e0) >> 1) | (t & 0x000f);
    char tid[25]; hexs (tid, d + 8, 12, 12);
    int off = 20; char attrs[256] = ""; int ctl = -1, usec = 0, err = 0;
    while (off + 4 <= (int) n) { int at = d[off] << 8 | d[off + 1], al = d[off + 2] << 8 | d[off + 3];
      if (at == 0x802a) ctl = 1; if (at == 0x8029) ctl = 0; if (at == 0x0025) usec = 1; if (at == 0x0009 && al >= 4) err = (d[off + 6] & 7) * 100 + d[off + 7];
      off += 4 + ((al + 3) & ~3); }
    unsigned h = 5381; for (gsize i = 0; i < n; i++) h = (h * 33 + d[i]) & 0xffffff;      /* the hash an "rx" line would show for these bytes */
    sprintf (o, "stun c%d m%d tid=%s ctl=%d uc=%d err=%d h=%u n=%zu", cls, m, tid, ctl, usec, err, h, n);
  } else { unsigned h = 5381; for (gsize i = 0; i < n; i++) h = (h * 33 + d[i]) & 0xffffff; sprintf (o, "data h=%u len=%zu", h, n); }
}

static void net_send (const NiceAddress *from, const NiceAddress *to, const guint8 *d, gsize n);
static gboolean is_atk_addr (const NiceAddress *a);
typedef struct { NiceAddress from, to; guint8 d[1500]; gsize n; } ReqLog; static ReqLog reqlog[16]; static int reqlog_n;

static gint vs_recv (NiceSocket *sock, NiceInputMessage *msgs, guint n)
{
  VSock *v = sock->priv; guint i;
  if (v->fail_next) { v->fail_next = 0; char c; while (recv (g_socket_get_fd (sock->fileno), &c, 1, MSG_DONTWAIT) > 0) ; errno = ECONNRESET; return -1; }   /* recvmsg() failed (ICMP error, ENOMEM ...) */
  for (i = 0; i < n; i++) {
    VPkt *p = g_queue_pop_head (&v->rx); if (!p) break;
    char c; while (recv (g_socket_get_fd (sock->fileno), &c, 1, MSG_DONTWAIT) > 0) if (g_queue_get_length (&v->rx) >= 0) break;
    gsize off = 0; NiceInputMessage *m = &msgs[i];
    for (gint b = 0; (m->n_buffers >= 0 && b < m->n_buffers) || (m->n_buffers < 0 && m->buffers[b].buffer != NULL); b++) {
      gsize k = MIN (m->buffers[b].size, p->len - off); memcpy (m->buffers[b].buffer, p->data + off, k); off += k; if (off >= p->len) break; }
    m->length = off; if (m->from) *m->from = p->from;
    g_free (p->data); g_free (p);
  }
  return i;
}
static GHashTable *sendfail;    /* destination ip -> 1 : sendto() fails (no route, EPERM ...) */
static gint vs_send (NiceSocket *sock, const NiceAddress *to, const NiceOutputMessage *msgs, guint n)
{
  if (sendfail && g_hash_table_size (sendfail)) { char ip[64]; nice_address_to_string (to, ip); if (g_hash_table_contains (sendfail, ip)) return -1; }
  for (guint i = 0; i < n; i++) {
    gsize len = 0; for (gint b = 0; (msgs[i].n_buffers >= 0 && b < msgs[i].n_buffers) || (msgs[i].n_buffers < 0 && msgs[i].buffers[b].buffer != NULL); b++) len += msgs[i].buffers[b].size;
    guint8 *d = g_malloc (len ? len : 1); gsize off = 0;
    for (gint b = 0; (msgs[i].n_buffers >= 0 && b < msgs[i].n_buffers) || (msgs[i].n_buffers < 0 && msgs[i].buffers[b].buffer != NULL); b++) { memcpy (d + off, msgs[i].buffers[b].buffer, msgs[i].buffers[b].size); off += msgs[i].buffers[b].size; }
    net_send (&sock->addr, to, d, len); g_free (d);
  }
  return n;
}
static gint vs_send_rel (NiceSocket *sock, const NiceAddress *to, const NiceOutputMessage *m, guint n) { return -1; }
static gboolean vs_is_reliable (NiceSocket *s) { return FALSE; }
static gboolean vs_can_send (NiceSocket *s, NiceAddress *a) { return TRUE; }
static void vs_set_wcb (NiceSocket *s, NiceSocketWritableCb cb, gpointer u) { }
static void vs_close (NiceSocket *sock)
{
  VSock *v = sock->priv; v->closed = TRUE; VPkt *p; while ((p = g_queue_pop_head (&v->rx))) { g_free (p->data); g_free (p); }
  close (v->db_w); if (sock->fileno) { g_socket_close (sock->fileno, NULL); g_object_unref (sock->fileno); sock->fileno = NULL; }
}

NiceSocket *nice_udp_bsd_socket_new (NiceAddress *addr, GError **error)
{
  NiceAddress a; if (addr) a = *addr; else { nice_address_init (&a); nice_address_set_from_string (&a, "0.0.0.0"); }
  if (nice_address_get_port (&a) == 0) nice_address_set_port (&a, next_port++);
  if (vsock_find (&a)) { g_set_error (error, G_IO_ERROR, G_IO_ERROR_ADDRESS_IN_USE, "in use"); return NULL; }
  int fd[2]; if (socketpair (AF_UNIX, SOCK_DGRAM, 0, fd) < 0) return NULL;
  NiceSocket *s = g_slice_new0 (NiceSocket); VSock *v = g_new0 (VSock, 1);
  s->addr = a; s->type = NICE_SOCKET_TYPE_UDP_BSD; s->fileno = g_socket_new_from_fd (fd[0], NULL); g_socket_set_blocking (s->fileno, FALSE);
  s->send_messages = vs_send; s->send_messages_reliable = vs_send_rel; s->recv_messages = vs_recv; s->is_reliable = vs_is_reliable;
  s->can_send = vs_can_send; s->set_writable_callback = vs_set_wcb; s->close = vs_close; s->priv = v;
  v->nsock = s; v->db_w = fd[1]; g_queue_init (&v->rx); g_ptr_array_add (vsocks, v);
  return s;
}

/* scripted servers */
static void server_handle (const NiceAddress *srv, const NiceAddress *from, const guint8 *d, gsize n);
static gboolean is_server (const NiceAddress *a);

static void pair_key (const NiceAddress *f, const NiceAddress *t, char *o, int withport)
{ char a[80], b[80]; if (withport) { addr_s (f, a); addr_s (t, b); } else { nice_address_to_string (f, a); nice_address_to_string (t, b); } sprintf (o, "%s>%s", a, b); }

static void net_send (const NiceAddress *from, const NiceAddress *to, const guint8 *d, gsize n)
{
  char k[200], k2[200], sum[400], fa[80], ta[80]; pair_key (from, to, k, 0); pair_key (from, to, k2, 1); addr_s (from, fa); addr_s (to, ta);
  stun_summary (d, n, sum);
  const char *fate = "ok"; int copies = 1;
  if (is_atk_addr (to)) { if (trace_pkts) T ("pkt %s %s toatk %s", fa, ta, sum); return; }   /* answers to the attacker: off the modelled network, no PRNG use */
  if (!strncmp (sum, "stun c0", 7) && n <= 1500) { ReqLog *r = &reqlog[reqlog_n++ % 16]; r->from = *from; r->to = *to; memcpy (r->d, d, n); r->n = n; }
  if (g_hash_table_contains (blackhole, k) || g_hash_table_contains (blackhole, k2)) { fate = "blackhole"; copies = 0; }
  else if (srv_loss || (!is_server (to) && !is_server (from))) {
    /* Loss is decided per check ATTEMPT (one transmission of a binding request together with its response), per candidate pair and
     * direction of the check: an attempt is lost by dropping the request or by dropping one response carrying its transaction id; fewer
     * than max_consec_loss consecutive attempts are lost on a (pair, direction).  Other packets (data, indications) are dropped per direction. */
    int is_stun = !strncmp (sum, "stun", 4), cls = is_stun ? sum[6] - '0' : -1; char tid[25] = ""; if (is_stun) { memcpy (tid, strstr (sum, "tid=") + 4, 24); tid[24] = 0; }
    if (is_stun && (cls == 2 || cls == 3)) {
      int tok = GPOINTER_TO_INT (g_hash_table_lookup (resp_tokens, tid));
      if (tok > 0) { fate = "drop"; copies = 0; g_hash_table_insert (resp_tokens, g_strdup (tid), GINT_TO_POINTER (tok - 1)); }
      else if (p_dup > 0 && rndf () < p_dup) { fate = "dup"; copies = 2; }
    } else {
      int cl = GPOINTER_TO_INT (g_hash_table_lookup (consec, k2));
      if (p_drop > 0 && rndf () < p_drop && cl + 1 < max_consec_loss) {
        g_hash_table_insert (consec, g_strdup (k2), GINT_TO_POINTER (cl + 1));
        if (is_stun && cls == 0 && rndf () < 0.5) { fate = "ok-resp-lost"; g_hash_table_insert (resp_tokens, g_strdup (tid), GINT_TO_POINTER (GPOINTER_TO_INT (g_hash_table_lookup (resp_tokens, tid)) + 1)); }
        else { fate = "drop"; copies = 0; }
      } else {
        g_hash_table_insert (consec, g_strdup (k2), GINT_TO_POINTER (0));
        if (is_stun && cls == 0) g_hash_table_remove (resp_tokens, tid);   /* this attempt gets through, response included */
        if (p_dup > 0 && rndf () < p_dup) { fate = "dup"; copies = 2; }
      }
    }
  }
  /* 1:1 port-preserving full-cone NAT: the source of a packet leaving a NATed host is rewritten to its public address, a packet to
   * the public address is forwarded to the host, and the private address itself is not routable from outside */
  NiceAddress wfrom = *from, dto = *to; int natted = 0;
  for (int i = 0; i < n_nat; i++) {
    if (nice_address_equal_no_port (from, &nat_priv[i])) { guint pt = nice_address_get_port (from); wfrom = nat_pub[i]; nice_address_set_port (&wfrom, pt); natted = 1; }
  }
  for (int i = 0; i < n_nat; i++) {
    if (nice_address_equal_no_port (to, &nat_pub[i])) { guint pt = nice_address_get_port (to); dto = nat_priv[i]; nice_address_set_port (&dto, pt); }
    else if (nice_address_equal_no_port (to, &nat_priv[i]) && !nice_address_equal_no_port (from, &nat_priv[i]) && copies) { fate = "nat-unroutable"; copies = 0; }
  }
  if (natted) addr_s (&wfrom, fa);
  if (trace_pkts) T ("pkt %s %s %s %s", fa, ta, fate, sum);
  for (int c = 0; c < copies; c++) {
    VPkt *p = g_new0 (VPkt, 1); p->from = wfrom; p->to = dto; p->data = g_memdup2 (d, n ? n : 1); p->len = n; p->serial = pkt_serial++;
    p->due_us = vnow_us + d_min_us + (d_max_us > d_min_us ? (long) (rndf () * (d_max_us - d_min_us)) : 0);
    inflight = g_list_append (inflight, p);
  }
}

static gint64 next_pkt_due (void) { gint64 m = G_MAXINT64; for (GList *i = inflight; i; i = i->next) { VPkt *p = i->data; if (p->due_us < m) m = p->due_us; } return m; }
static gboolean deliver_due (void)
{
  VPkt *best = NULL; GList *bl = NULL;
  for (GList *i = inflight; i; i = i->next) { VPkt *p = i->data; if (p->due_us <= vnow_us && (!best || p->due_us < best->due_us || (p->due_us == best->due_us && p->serial < best->serial))) { best = p; bl = i; } }
  if (!best) return FALSE;
  inflight = g_list_delete_link (inflight, bl);
  if (is_server (&best->to)) { server_handle (&best->to, &best->from, best->data, best->len); g_free (best->data); g_free (best); return TRUE; }
  VSock *v = vsock_find (&best->to);
  if (!v) { g_free (best->data); g_free (best); return TRUE; }
  g_queue_push_tail (&v->rx, best); char c = 1; if (write (v->db_w, &c, 1) < 0) { }
  return TRUE;
}

/* ------------------------------------------------------------------ agents */
#define MAXA 4
typedef struct { NiceAgent *agent; int idx; guint64 rx_bytes[8][4]; guint rx_msgs[8][4]; guint64 txn[8][4], rxn[8][4]; guint32 txh[8][4], rxh[8][4]; } SimAgent;
static guint32 roll (guint32 h, const guint8 *d, gsize n) { for (gsize i = 0; i < n; i++) h = h * 16777619u ^ d[i]; return h; }
static SimAgent A[MAXA]; static int nagents; static GMainContext *ctx;
static guint dispatch_count, sleep_count;

static const char *stname (guint s) { static const char *n[] = { "DISCONNECTED", "GATHERING", "CONNECTING", "CONNECTED", "READY", "FAILED" }; return s < 6 ? n[s] : "?"; }
static void cand_s (NiceCandidate *c, char *o)
{ char a[80], b[80]; addr_s (&c->addr, a); addr_s (&c->base_addr, b); sprintf (o, "%s/%d/%d/%s/%s/%u/%s", c->foundation, c->type, c->transport, a, b, c->priority, c->username ? c->username : "-"); }

static void cb_state (NiceAgent *ag, guint s, guint c, guint st, gpointer u)
{ SimAgent *sa = u; T ("sig %d state %u %u %s get=%s", sa->idx, s, c, stname (st), stname (nice_agent_get_component_state (ag, s, c)));
  NiceCandidate *l = NULL, *r = NULL; if (st == NICE_COMPONENT_STATE_CONNECTED || st == NICE_COMPONENT_STATE_READY) fprintf (hc_out, " selected=%d", (int) nice_agent_get_selected_pair (ag, s, c, &l, &r)); }
static void cb_gdone (NiceAgent *ag, guint s, gpointer u) { SimAgent *sa = u; T ("sig %d gathering-done %u", sa->idx, s); }
static void cb_pair (NiceAgent *ag, guint s, guint c, NiceCandidate *l, NiceCandidate *r, gpointer u)
{ SimAgent *sa = u; char a[80], b[80]; addr_s (&l->addr, a); addr_s (&r->addr, b); T ("sig %d selected-pair %u %u %s %s", sa->idx, s, c, a, b); }
static void cb_newcand (NiceAgent *ag, NiceCandidate *c, gpointer u) { SimAgent *sa = u; char o[300]; cand_s (c, o); T ("sig %d new-candidate %u %u %s", sa->idx, c->stream_id, c->component_id, o); }
static void cb_newrcand (NiceAgent *ag, NiceCandidate *c, gpointer u) { SimAgent *sa = u; char o[300]; cand_s (c, o); T ("sig %d new-remote-candidate %u %u %s", sa->idx, c->stream_id, c->component_id, o); }
static void cb_ibr (NiceAgent *ag, guint s, gpointer u) { SimAgent *sa = u; T ("sig %d initial-binding-request %u", sa->idx, s); }
static gchar *last_sdp[MAXA];
static void cb_closed (GObject *o, GAsyncResult *res, gpointer u) { SimAgent *sa = u; T ("sig %d closed", sa->idx); }
static void cb_removed (NiceAgent *ag, guint *ids, gpointer u) { SimAgent *sa = u; T ("sig %d streams-removed", sa->idx); for (; *ids; ids++) fprintf (hc_out, " %u", *ids); }
static void cb_recv (NiceAgent *ag, guint s, guint c, guint len, gchar *buf, gpointer u)
{ SimAgent *sa = u; unsigned h = 5381; for (guint i = 0; i < len; i++) h = (h * 33 + (guint8) buf[i]) & 0xffffff; T ("rx %d %u %u %u %u", sa->idx, s, c, len, h);
  if (s < 8 && c < 4) { sa->rxh[s][c] = roll (sa->rxh[s][c], (guint8 *) buf, len); sa->rxn[s][c] += len; } }

static void digest (int i)
{
  NiceAgent *ag = A[i].agent; if (!ag) return;
  agent_lock (ag);
  T ("dig %d ctl=%d", i, (int) ag->controlling_mode);
  for (GSList *l = ag->streams; l; l = l->next) {
    NiceStream *st = l->data; fprintf (hc_out, " s%u[", st->id);
    for (GSList *k = st->conncheck_list; k; k = k->next) { CandidateCheckPair *p = k->data; char a[80], b[80]; addr_s (&p->local->addr, a); addr_s (&p->remote->addr, b);
      fprintf (hc_out, "%u:%s>%s:%" G_GUINT64_FORMAT ":%d%d%d ", p->component_id, a, b, p->priority, (int) p->state, (int) p->nominated, (int) p->valid); }
    fprintf (hc_out, "]");
    for (GSList *c = st->components; c; c = c->next) { NiceComponent *cm = c->data; fprintf (hc_out, " c%u=%s", cm->id, stname (cm->state));
      if (cm->selected_pair.local) { char a[80], b[80]; addr_s (&cm->selected_pair.local->c.addr, a); addr_s (&cm->selected_pair.remote->c.addr, b); fprintf (hc_out, "(%s>%s)", a, b); }
      fprintf (hc_out, " nv=%u", g_queue_get_length (&cm->valid_candidates) ? 0 : 0); }
  }
  agent_unlock (ag);
}

/* ------------------------------------------------------------------ pull-mode receive: the application has no receive callback and calls
 * nice_agent_recv_messages_nonblocking itself with a scatter layout (exactly-sized heap buffers, so that ASan sees any access outside them);
 * polled after every delivery / dispatch round until it would block.  Events are logged like callback deliveries ("rx"). */
typedef struct { int agent; guint s, c; int nb; gsize sz[8]; int active; } Pull;
static Pull pulls[16]; static int npulls;
static void pull_all (void)
{
  for (int k = 0; k < npulls; k++) {
    Pull *pl = &pulls[k]; if (!pl->active || !A[pl->agent].agent) continue;
    for (int guard = 0; guard < 64; guard++) {
      GInputVector v[8]; for (int j = 0; j < pl->nb; j++) { v[j].buffer = g_malloc (pl->sz[j] ? pl->sz[j] : 1); if (!pl->sz[j]) { g_free (v[j].buffer); v[j].buffer = g_malloc (1); } v[j].size = pl->sz[j]; }
      NiceInputMessage m = { v, pl->nb, NULL, 0 }; GError *err = NULL;
      gint r = nice_agent_recv_messages_nonblocking (A[pl->agent].agent, pl->s, pl->c, &m, 1, NULL, &err);
      if (r == 1) {
        guint8 *flat = g_malloc (m.length ? m.length : 1); gsize off = 0;
        for (int j = 0; j < pl->nb && off < m.length; j++) { gsize take = MIN (pl->sz[j], m.length - off); memcpy (flat + off, v[j].buffer, take); off += take; }
        if (off != m.length) T ("rxbad %d %u %u length %" G_GSIZE_FORMAT " exceeds the layout", pl->agent, pl->s, pl->c, m.length);
        else cb_recv (A[pl->agent].agent, pl->s, pl->c, (guint) m.length, (gchar *) flat, &A[pl->agent]);
        g_free (flat);
      } else if (err && !g_error_matches (err, G_IO_ERROR, G_IO_ERROR_WOULD_BLOCK)) { T ("pullerr %d %u %u %d %s", pl->agent, pl->s, pl->c, err->code, err->message); pl->active = 0; }
      g_clear_error (&err);
      for (int j = 0; j < pl->nb; j++) g_free (v[j].buffer);
      if (r != 1) break;
    }
  }
}

/* ------------------------------------------------------------------ main loop in virtual time */
static int spinning;
static gint64 atk_period_us, atk_next_us; static void atk_fire (void);
/* every dispatch advances the virtual clock by one microsecond (as real time would at the very least), so that code
 * comparing "now" with a deadline it just computed cannot be fooled by a frozen clock */
static void pump (void) { int guard = 0; if (npulls) pull_all (); while (!spinning && g_main_context_iteration (ctx, FALSE)) { dispatch_count++; vnow_us++; if (npulls) pull_all (); if (++guard > 200000) { spinning = 1; T ("SPIN dispatches=%d without the main loop going back to sleep", guard); } } }
static void run_for (long ms)
{
  gint64 end = vnow_us + ms * 1000LL; int guard = 0;
  while (guard++ < 2000000 && !spinning) {
    pump ();
    if (deliver_due ()) continue;
    if (vnow_us >= atk_next_us) { atk_next_us += atk_period_us; atk_fire (); continue; }
    gint64 nxt = next_pkt_due (); if (atk_next_us < nxt) nxt = atk_next_us;
    gint timeout = -1; gint prio; GPollFD fds[64];
    if (g_main_context_acquire (ctx)) { g_main_context_prepare (ctx, &prio); g_main_context_query (ctx, prio, &timeout, fds, 64); g_main_context_release (ctx); }
    if (timeout == 0) { continue; }
    if (timeout > 0) { gint64 t = vnow_us + (gint64) timeout * 1000; if (t < nxt) nxt = t; }
    if (nxt > end) { vnow_us = end; pump (); break; }
    if (nxt > vnow_us) { vnow_us = nxt; sleep_count++; }
  }
}

/* ------------------------------------------------------------------ scripted STUN / TURN servers */
typedef struct { NiceAddress addr; char mode[32]; int count; } Server;
static Server servers[40]; static int nservers;
static gboolean is_server (const NiceAddress *a) { for (int i = 0; i < nservers; i++) if (nice_address_equal (&servers[i].addr, a)) return TRUE; return FALSE; }
static const uint16_t srv_known[] = { 0x0006, 0x0008, 0x0014, 0x0015, 0x0019, 0x000d, 0x0012, 0x000c, 0x001a, 0x0018, 0 };

static void server_reply (Server *sv, const NiceAddress *to, StunMessage *rep, StunAgent *ag, uint8_t *buf, const uint8_t *key, size_t klen)
{
  size_t l = stun_agent_finish_message (ag, rep, key, klen);
  if (l) { net_send (&sv->addr, to, buf, l); if (strstr (sv->mode, "twice")) net_send (&sv->addr, to, buf, l); }
}

static void server_handle (const NiceAddress *srv, const NiceAddress *from, const guint8 *d, gsize n)
{
  Server *sv = NULL; for (int i = 0; i < nservers; i++) if (nice_address_equal (&servers[i].addr, srv)) sv = &servers[i];
  if (!sv) return; sv->count++;
  if (!strcmp (sv->mode, "silent")) return;
  if (!strcmp (sv->mode, "garbage")) { guint8 g[40]; for (int i = 0; i < 40; i++) g[i] = rnd (); net_send (&sv->addr, from, g, 20 + rnd () % 20); return; }
  StunAgent ag; stun_agent_init (&ag, srv_known, STUN_COMPATIBILITY_RFC5389, STUN_AGENT_USAGE_IGNORE_CREDENTIALS | STUN_AGENT_USAGE_NO_INDICATION_AUTH);
  StunMessage req; StunValidationStatus st = stun_agent_validate (&ag, &req, d, n, NULL, NULL); int old3489 = 0;
  if (st == STUN_VALIDATION_BAD_REQUEST) { /* no magic cookie: a classic RFC 3489 request (libnice's STUN server discovery) */ stun_agent_init (&ag, srv_known, STUN_COMPATIBILITY_RFC3489, STUN_AGENT_USAGE_IGNORE_CREDENTIALS); st = stun_agent_validate (&ag, &req, d, n, NULL, NULL); old3489 = 1; }
  if (getenv ("SIM_DEBUG")) fprintf (stderr, "server %s: validate=%d class=%d method=%d\n", sv->mode, st, st < 3 ? -1 : (int) stun_message_get_class (&req), st < 3 ? -1 : (int) stun_message_get_method (&req));
  if (st == STUN_VALIDATION_NOT_STUN || st == STUN_VALIDATION_INCOMPLETE_STUN || st == STUN_VALIDATION_BAD_REQUEST) return;
  if (stun_message_get_class (&req) != STUN_REQUEST) return;
  uint8_t buf[1000]; StunMessage rep; struct sockaddr_storage ss; nice_address_copy_to_sockaddr (from, (struct sockaddr *) &ss);
  StunMethod m = stun_message_get_method (&req);
  if (!strcmp (sv->mode, "wrongtid")) { guint8 c[1500]; memcpy (c, d, n); /* answer another transaction */
    StunMessage fake; stun_agent_validate (&ag, &fake, c, n, NULL, NULL); c[10] ^= 0x55;
    stun_agent_init_response (&ag, &rep, buf, sizeof buf, &fake); stun_message_append_xor_addr (&rep, STUN_ATTRIBUTE_XOR_MAPPED_ADDRESS, &ss, sizeof ss); server_reply (sv, from, &rep, &ag, buf, NULL, 0); return; }
  int errcode = 0;
  if (!strncmp (sv->mode, "err", 3)) errcode = atoi (sv->mode + 3);
  if (!strcmp (sv->mode, "loop300")) { /* two servers (ports 3478 / 3479) that send every client to each other for ever */
    stun_agent_init_error (&ag, &rep, buf, sizeof buf, &req, 300);
    NiceAddress alt = sv->addr; nice_address_set_port (&alt, nice_address_get_port (&alt) == 3478 ? 3479 : 3478); struct sockaddr_storage as; nice_address_copy_to_sockaddr (&alt, (struct sockaddr *) &as);
    stun_message_append_addr (&rep, STUN_ATTRIBUTE_ALTERNATE_SERVER, (struct sockaddr *) &as, sizeof as);
    server_reply (sv, from, &rep, &ag, buf, NULL, 0); return; }
  if (errcode) { stun_agent_init_error (&ag, &rep, buf, sizeof buf, &req, errcode);
    if (errcode == 401 || errcode == 438) { stun_message_append_string (&rep, STUN_ATTRIBUTE_REALM, "realm"); char nonce[32]; sprintf (nonce, "nonce%d", sv->count); stun_message_append_string (&rep, STUN_ATTRIBUTE_NONCE, nonce); }
    if (errcode == 300) { NiceAddress alt = sv->addr; nice_address_set_port (&alt, nice_address_get_port (&alt) + 1 + sv->count % 3); struct sockaddr_storage as; nice_address_copy_to_sockaddr (&alt, (struct sockaddr *) &as);
      stun_message_append_addr (&rep, STUN_ATTRIBUTE_ALTERNATE_SERVER, (struct sockaddr *) &as, sizeof as); }
    server_reply (sv, from, &rep, &ag, buf, NULL, 0); return; }
  if (m == STUN_BINDING) {
    /* reflexive address = the source as seen by the server; "nat" mode maps 10.x to 198.51.100.x */
    NiceAddress mapped = *from;
    if (strstr (sv->mode, "sameip")) { nice_address_set_port (&mapped, nice_address_get_port (from) + 1000); }   /* a NAT on the host's own address: same IP, other port */
    else if (strstr (sv->mode, "nat")) { char ip[64]; nice_address_to_string (from, ip); unsigned a, b, c, e; if (sscanf (ip, "%u.%u.%u.%u", &a, &b, &c, &e) == 4) { char nip[64]; sprintf (nip, "198.51.%u.%u", c, e); nice_address_set_from_string (&mapped, nip); nice_address_set_port (&mapped, nice_address_get_port (from)); } }
    nice_address_copy_to_sockaddr (&mapped, (struct sockaddr *) &ss);
    stun_agent_init_response (&ag, &rep, buf, sizeof buf, &req);
    if (strstr (sv->mode, "badxor")) { /* a success answer whose XOR-MAPPED-ADDRESS cannot be decoded (wrong length for its family, unknown family, too short);
         in "badxornat" a well-formed MAPPED-ADDRESS stands beside it */
      static const uint8_t bad[4][20] = { { 0, 2, 0x12, 0x34, 1, 2, 3, 4 }, { 0, 1, 0x12, 0x34, 1, 2, 3, 4, 5, 6, 7, 8, 9, 10, 11, 12, 13, 14, 15, 16 }, { 0, 1, 0x12 }, { 0, 7, 0x12, 0x34, 1, 2, 3, 4 } };
      static const int badlen[4] = { 8, 20, 3, 8 }; int v = sv->count % 4;
      stun_message_append_bytes (&rep, STUN_ATTRIBUTE_XOR_MAPPED_ADDRESS, bad[v], badlen[v]);
      if (strstr (sv->mode, "nat")) stun_message_append_addr (&rep, STUN_ATTRIBUTE_MAPPED_ADDRESS, (struct sockaddr *) &ss, sizeof ss);
      server_reply (sv, from, &rep, &ag, buf, NULL, 0); return; }
    if (old3489) stun_message_append_addr (&rep, STUN_ATTRIBUTE_MAPPED_ADDRESS, (struct sockaddr *) &ss, sizeof ss); else stun_message_append_xor_addr (&rep, STUN_ATTRIBUTE_XOR_MAPPED_ADDRESS, &ss, sizeof ss);
    if (strstr (sv->mode, "late")) { long a = d_min_us, b = d_max_us; d_min_us = d_max_us = 1500000; server_reply (sv, from, &rep, &ag, buf, NULL, 0); d_min_us = a; d_max_us = b; return; }
    server_reply (sv, from, &rep, &ag, buf, NULL, 0); return;
  }
  if (m == STUN_ALLOCATE || m == STUN_REFRESH) {
    /* TURN: first 401 with realm/nonce unless the request carries MESSAGE-INTEGRITY, then success */
    uint16_t l;
    if (!stun_message_find (&req, STUN_ATTRIBUTE_MESSAGE_INTEGRITY, &l) || !strcmp (sv->mode, "turn438")) {
      stun_agent_init_error (&ag, &rep, buf, sizeof buf, &req, !strcmp (sv->mode, "turn438") && stun_message_find (&req, STUN_ATTRIBUTE_MESSAGE_INTEGRITY, &l) ? 438 : 401);
      stun_message_append_string (&rep, STUN_ATTRIBUTE_REALM, "realm"); char nonce[32]; sprintf (nonce, "nonce%d", sv->count); stun_message_append_string (&rep, STUN_ATTRIBUTE_NONCE, nonce);
      server_reply (sv, from, &rep, &ag, buf, NULL, 0); return; }
    stun_agent_init_response (&ag, &rep, buf, sizeof buf, &req);
    if (strstr (sv->mode, "nat")) { /* the client sits behind a NAT: XOR-MAPPED-ADDRESS of the Allocate success is 198.51.c.e, a server reflexive address the agent learns from the relay */
      char ip[64]; nice_address_to_string (from, ip); unsigned a_, b_, c_, e_; NiceAddress mapped = *from;
      if (sscanf (ip, "%u.%u.%u.%u", &a_, &b_, &c_, &e_) == 4) { char nip[64]; sprintf (nip, "198.51.%u.%u", c_, e_); nice_address_set_from_string (&mapped, nip); nice_address_set_port (&mapped, nice_address_get_port (from)); }
      nice_address_copy_to_sockaddr (&mapped, (struct sockaddr *) &ss); }
    NiceAddress rel = sv->addr; nice_address_set_port (&rel, 50000 + sv->count); struct sockaddr_storage rs; nice_address_copy_to_sockaddr (&rel, (struct sockaddr *) &rs);
    stun_message_append_xor_addr (&rep, STUN_ATTRIBUTE_RELAY_ADDRESS, &rs, sizeof rs);
    stun_message_append_xor_addr (&rep, STUN_ATTRIBUTE_XOR_MAPPED_ADDRESS, &ss, sizeof ss);
    stun_message_append32 (&rep, STUN_ATTRIBUTE_LIFETIME, 600);
    /* long-term key md5(user:realm:pass) with user "user", pass "pass" */
    uint8_t md5[16]; stun_hash_creds ((uint8_t *) "realm", 5, (uint8_t *) "user", 4, (uint8_t *) "pass", 4, md5);
    server_reply (sv, from, &rep, &ag, buf, md5, 16); return;
  }
}

/* name lookups run in GResolver worker threads, in real time: wait (at most 10 s of real time) until no agent has a lookup outstanding, so that every
 * answer lands at this point of virtual time whatever the load of the machine */
static gboolean any_resolving (void)
{
  gboolean r = FALSE;
  for (int i = 0; i < nagents && !r; i++) { NiceAgent *ag = A[i].agent; if (!ag) continue;
    agent_lock (ag);
    if (ag->stun_resolving_list) r = TRUE;
    for (GSList *l = ag->streams; l && !r; l = l->next) { NiceStream *st = l->data;
      for (GSList *c = st->components; c && !r; c = c->next) if (nice_component_resolving_turn (c->data)) r = TRUE; }
    agent_unlock (ag); }
  return r;
}
static void settle (void)
{
  for (int k = 0; k < 5000; k++) {
    while (g_main_context_iteration (ctx, FALSE)) { dispatch_count++; vnow_us++; }
    if (k >= 2 && !any_resolving ()) break;
    g_usleep (2000);
  }
  while (g_main_context_iteration (ctx, FALSE)) { dispatch_count++; vnow_us++; }
}

/* ------------------------------------------------------------------ scenario interpreter */
static NiceAddress mkaddr (const char *ip, guint port) { NiceAddress a; nice_address_init (&a); nice_address_set_from_string (&a, ip); nice_address_set_port (&a, port); return a; }

static void copy_creds (int from, int to, guint s)
{ gchar *u = NULL, *p = NULL; if (nice_agent_get_local_credentials (A[from].agent, s, &u, &p)) { gboolean r = nice_agent_set_remote_credentials (A[to].agent, s, u, p); T ("api %d set_remote_credentials %u %s %s =%d", to, s, u, p, r); } else T ("api %d get_local_credentials %u =0", from, s); g_free (u); g_free (p); }
static void copy_cands (int from, int to, guint s, guint c, int which)
{ GSList *l = nice_agent_get_local_candidates (A[from].agent, s, c); GSList *sel = NULL; int k = 0;
  for (GSList *i = l; i; i = i->next, k++) if (which < 0 || which == k) sel = g_slist_append (sel, i->data);
  int r = nice_agent_set_remote_candidates (A[to].agent, s, c, sel); T ("api %d set_remote_candidates %u %u n=%u =%d", to, s, c, g_slist_length (sel), r);
  g_slist_free (sel); g_slist_free_full (l, (GDestroyNotify) nice_candidate_free); }


/* ------------------------------------------------------------------ attacker (C03): knows every username, sees every transaction id
 * on the wire, can spoof any source address -- but does not know any ICE password.  Its own addresses are 10.66.x.x. */
static guint64 atk_s = 1; static gchar *old_ufrag[4], *old_pwd[4]; static unsigned atk_mask = ~0u;
static guint32 arnd (void) { atk_s ^= atk_s << 13; atk_s ^= atk_s >> 7; atk_s ^= atk_s << 17; return (guint32) (atk_s >> 16); }
static gboolean is_atk_addr (const NiceAddress *a) { char ip[64]; nice_address_to_string (a, ip); return !strncmp (ip, "10.66.", 6); }
static void atk_put (const char *kind, const NiceAddress *f, const NiceAddress *t, const guint8 *d, gsize n)
{
  char fa[80], ta[80], sum[400]; addr_s (f, fa); addr_s (t, ta); stun_summary (d, n, sum); T ("atk %s %s %s %s", kind, fa, ta, sum);
  VPkt *p = g_new0 (VPkt, 1); p->from = *f; p->to = *t; p->data = g_memdup2 (d, n ? n : 1); p->len = n; p->serial = pkt_serial++; p->due_us = vnow_us + 500;
  inflight = g_list_append (inflight, p);
}
/* which agent / stream owns the local transport address a; fills the username an inbound check to it must carry */
static int atk_owner (const NiceAddress *a, char *uname, guint *comp)
{
  for (int i = 0; i < nagents; i++) { NiceAgent *ag = A[i].agent; if (!ag) continue; int found = -1;
    agent_lock (ag);
    for (GSList *l = ag->streams; l && found < 0; l = l->next) { NiceStream *st = l->data;
      for (GSList *c = st->components; c && found < 0; c = c->next) { NiceComponent *cm = c->data;
        for (GSList *k = cm->local_candidates; k; k = k->next) { NiceCandidate *lc = k->data;
          if (nice_address_equal (&lc->base_addr, a)) { const char *ru = st->remote_ufrag;
            if (!ru[0]) for (int j = 0; j < nagents; j++) if (j != i && A[j].agent && A[j].agent->streams) ru = ((NiceStream *) A[j].agent->streams->data)->local_ufrag;
            sprintf (uname, "%s:%s", st->local_ufrag, ru[0] ? ru : "zzzz"); *comp = cm->id; found = i; break; } } } }
    agent_unlock (ag);
    if (found >= 0) return found; }
  return -1;
}
static const uint16_t atk_known[] = { 0x0006, 0x0008, 0x0020, 0x0024, 0x0025, 0x8029, 0x802a, 0x0009, 0 };
static void atk_fire (void)
{
  static const char *names[] = { "rand", "rtp", "req-nomi", "req-wrongkey", "req-truncmi", "resp-forged", "err487-forged", "err403-forged", "indication", "req-conflict", "req-3489-bare", "resp-unmatched", "data-spoofed", "req-5389-bare" };
  guint live = 0; for (guint i = 0; i < vsocks->len; i++) { VSock *v = vsocks->pdata[i]; if (!v->closed) live++; }
  if (!live) return;
  int kind; int guard = 0; do kind = arnd () % 14; while (!(atk_mask & (1u << kind)) && ++guard < 100);
  VSock *tv = NULL; guint pick = arnd () % live; for (guint i = 0; i < vsocks->len; i++) { VSock *v = vsocks->pdata[i]; if (!v->closed && pick-- == 0) tv = v; }
  NiceAddress to = tv->nsock->addr, me; nice_address_init (&me); nice_address_set_from_string (&me, "10.66.0.1"); nice_address_set_port (&me, 6000 + arnd () % 4);
  guint8 buf[1500]; gsize n = 0; char uname[600] = "a:b"; guint comp = 1; int owner = atk_owner (&to, uname, &comp);
  NiceAddress from = me;
  /* kinds 11 / 12: from a candidate address of the peer that was signalled to the victim; 12 (plain data) only makes sense against a victim
   * that never validated that source (the isolated-victim scenarios) */
  if (kind >= 2 && kind != 5 && kind != 6 && kind != 7 && kind != 10 && (arnd () % 10 < 3 || kind == 12 || (kind == 11 && (arnd () & 1)))) {   /* spoof one of the peer's addresses (not for datagrams the agent may
       legitimately treat as application data from that peer: ICE does not authenticate data) */
    for (guint i = 0; i < vsocks->len; i++) { VSock *v = vsocks->pdata[(i + arnd ()) % vsocks->len]; char u2[600]; guint c2; if (!v->closed && atk_owner (&v->nsock->addr, u2, &c2) != owner) { from = v->nsock->addr; break; } } }
  StunAgent sa; StunMessage m; stun_agent_init (&sa, atk_known, STUN_COMPATIBILITY_RFC5389, STUN_AGENT_USAGE_SHORT_TERM_CREDENTIALS | STUN_AGENT_USAGE_USE_FINGERPRINT);
  const uint8_t *wrong = (const uint8_t *) "not-the-ice-password-1"; size_t wl = 22;
  switch (kind) {
    case 0: n = 1 + arnd () % 120; for (gsize i = 0; i < n; i++) buf[i] = arnd (); break;
    case 1: n = 12 + arnd () % 200; for (gsize i = 0; i < n; i++) buf[i] = arnd (); buf[0] = 0x80; buf[1] = 96 + arnd () % 20; break;
    case 2: n = stun_usage_ice_conncheck_create (&sa, &m, buf, sizeof buf, (uint8_t *) uname, strlen (uname), NULL, 0, arnd () & 1, arnd () & 1, 0x7e0000ff, ~0ULL - arnd () % 3, NULL, STUN_USAGE_ICE_COMPATIBILITY_RFC5245); break;
    case 3: n = stun_usage_ice_conncheck_create (&sa, &m, buf, sizeof buf, (uint8_t *) uname, strlen (uname), wrong, wl, TRUE, TRUE, 0x7e0000ff, ~0ULL, NULL, STUN_USAGE_ICE_COMPATIBILITY_RFC5245); break;
    case 9: n = stun_usage_ice_conncheck_create (&sa, &m, buf, sizeof buf, (uint8_t *) uname, strlen (uname), (arnd () & 1) ? wrong : NULL, wl, FALSE, FALSE, 0x7e0000ff, arnd () % 2, NULL, STUN_USAGE_ICE_COMPATIBILITY_RFC5245); break;
    case 4: { guint8 junk[64]; for (int i = 0; i < 64; i++) junk[i] = arnd (); static const int lens[] = { 0, 1, 10, 19, 21, 24, 32 };
      stun_agent_init_request (&sa, &m, buf, sizeof buf, STUN_BINDING); stun_message_append32 (&m, STUN_ATTRIBUTE_PRIORITY, 0x7e0000ff); stun_message_append_flag (&m, STUN_ATTRIBUTE_USE_CANDIDATE);
      stun_message_append64 (&m, STUN_ATTRIBUTE_ICE_CONTROLLING, ~0ULL); stun_message_append_bytes (&m, STUN_ATTRIBUTE_USERNAME, uname, strlen (uname));
      stun_message_append_bytes (&m, STUN_ATTRIBUTE_MESSAGE_INTEGRITY, junk, lens[arnd () % 7]); n = stun_agent_finish_message (&sa, &m, NULL, 0); break; }
    case 10: { /* classic RFC 3489 request: no magic cookie, no USERNAME, no MESSAGE-INTEGRITY (what a STUN-server discovery agent would validate) */
      StunAgent old; stun_agent_init (&old, atk_known, STUN_COMPATIBILITY_RFC3489, 0); stun_agent_init_request (&old, &m, buf, sizeof buf, STUN_BINDING);
      if (arnd () & 1) stun_message_append32 (&m, STUN_ATTRIBUTE_PRIORITY, 0x7e0000ff);
      n = stun_agent_finish_message (&old, &m, NULL, 0); break; }
    case 13: { /* RFC 5389 request without any credential: only attributes whose length is a multiple of 4 (reads the same with and without attribute
                * alignment), with or without a correct FINGERPRINT - what an agent whose STUN flavour lost its credential flags would accept */
      StunAgent pa; stun_agent_init (&pa, atk_known, STUN_COMPATIBILITY_RFC5389, (arnd () & 1) ? STUN_AGENT_USAGE_USE_FINGERPRINT : 0);
      stun_agent_init_request (&pa, &m, buf, sizeof buf, STUN_BINDING); stun_message_append32 (&m, STUN_ATTRIBUTE_PRIORITY, 0x6e0000ff);
      if (arnd () & 1) stun_message_append64 (&m, (arnd () & 1) ? STUN_ATTRIBUTE_ICE_CONTROLLING : STUN_ATTRIBUTE_ICE_CONTROLLED, 0x1122334455667788ULL);
      if (arnd () % 3 == 0) stun_message_append_flag (&m, STUN_ATTRIBUTE_USE_CANDIDATE);
      n = stun_agent_finish_message (&pa, &m, NULL, 0); break; }
    case 11: { /* a response (success or error) to a transaction nobody started: correct FINGERPRINT (needs no secret), no or junk MESSAGE-INTEGRITY */
      guint8 rq[64]; StunMessage req; StunAgent pa; stun_agent_init (&pa, atk_known, STUN_COMPATIBILITY_RFC5389, STUN_AGENT_USAGE_USE_FINGERPRINT | STUN_AGENT_USAGE_IGNORE_CREDENTIALS);
      stun_agent_init_request (&pa, &req, rq, sizeof rq, STUN_BINDING); for (int i = 8; i < 20; i++) rq[i] = arnd ();
      if (arnd () & 1) { if (!stun_agent_init_response (&pa, &m, buf, sizeof buf, &req)) return;
        union { struct sockaddr_storage ss; struct sockaddr sa; } u; nice_address_copy_to_sockaddr (&me, &u.sa); stun_message_append_xor_addr (&m, STUN_ATTRIBUTE_XOR_MAPPED_ADDRESS, &u.ss, sizeof u.ss); }
      else if (!stun_agent_init_error (&pa, &m, buf, sizeof buf, &req, (arnd () & 1) ? STUN_ERROR_ROLE_CONFLICT : 400)) return;
      if (arnd () % 3 == 0) { guint8 junk[20]; for (int i = 0; i < 20; i++) junk[i] = arnd (); stun_message_append_bytes (&m, STUN_ATTRIBUTE_MESSAGE_INTEGRITY, junk, 20); }
      n = stun_agent_finish_message (&pa, &m, NULL, 0); break; }
    case 12: n = 12 + arnd () % 200; for (gsize i = 0; i < n; i++) buf[i] = arnd (); buf[0] = 0x80; buf[1] = 96 + arnd () % 20; break;
    case 8: stun_agent_init_indication (&sa, &m, buf, sizeof buf, STUN_BINDING); if (arnd () & 1) stun_message_append_bytes (&m, STUN_ATTRIBUTE_USERNAME, uname, strlen (uname)); n = stun_agent_finish_message (&sa, &m, NULL, 0); break;
    case 5: case 6: case 7: {
      if (!reqlog_n) return;
      ReqLog *r = &reqlog[arnd () % (reqlog_n < 16 ? reqlog_n : 16)]; StunAgent pa; StunMessage req; guint8 rq[1500]; memcpy (rq, r->d, r->n);
      stun_agent_init (&pa, atk_known, STUN_COMPATIBILITY_RFC5389, STUN_AGENT_USAGE_USE_FINGERPRINT | STUN_AGENT_USAGE_IGNORE_CREDENTIALS);
      if (stun_agent_validate (&pa, &req, rq, r->n, NULL, NULL) != STUN_VALIDATION_SUCCESS) return;
      if (kind == 5) { if (!stun_agent_init_response (&pa, &m, buf, sizeof buf, &req)) return;
        union { struct sockaddr_storage ss; struct sockaddr sa; } u; if (arnd () & 1) nice_address_copy_to_sockaddr (&r->from, &u.sa); else nice_address_copy_to_sockaddr (&me, &u.sa);
        stun_message_append_xor_addr (&m, STUN_ATTRIBUTE_XOR_MAPPED_ADDRESS, &u.ss, sizeof u.ss); }
      else if (!stun_agent_init_error (&pa, &m, buf, sizeof buf, &req, kind == 6 ? STUN_ERROR_ROLE_CONFLICT : 403)) return;
      int mi = arnd () % 3;   /* none / wrong key / junk of wrong length */
      if (mi == 2) { guint8 junk[20]; for (int i = 0; i < 20; i++) junk[i] = arnd (); stun_message_append_bytes (&m, STUN_ATTRIBUTE_MESSAGE_INTEGRITY, junk, 20); }
      n = stun_agent_finish_message (&pa, &m, mi == 1 ? wrong : NULL, mi == 1 ? wl : 0);
      from = r->to; to = r->from; break; }
  }
  if (n) atk_put (names[kind], &from, &to, buf, n);
}

static void do_op (char *op)
{
  char *a[12]; int n = 0; char *sv; for (char *t = strtok_r (op, ",", &sv); t && n < 12; t = strtok_r (NULL, ",", &sv)) a[n++] = t;
  if (n == 0) return;
#define I(k) atoi (a[k])
  if (!strcmp (a[0], "seed")) { rng_s = 88172645463325252ULL ^ ((guint64) atol (a[1]) * 2654435761ULL); if (!rng_s) rng_s = 1; nonce_s = rng_s * 0x9e3779b97f4a7c15ULL | 1; g_random_set_seed (I (1)); }
  else if (!strcmp (a[0], "agent")) { /* agent,i,compat,controlling,options,ip[,ip2..] */
    int i = I (1); A[i].idx = i; if (i >= nagents) nagents = i + 1;
    NiceAgent *ag = nice_agent_new_full (ctx, I (2), I (4)); A[i].agent = ag;
    g_object_set (ag, "controlling-mode", I (3), "ice-tcp", FALSE, "upnp", FALSE, NULL);
    for (int k = 5; k < n; k++) { NiceAddress la = mkaddr (a[k], 0); if (n_vif < 64) vif[n_vif++] = g_strdup (a[k]); nice_agent_add_local_address (ag, &la); }
    g_signal_connect (ag, "component-state-changed", G_CALLBACK (cb_state), &A[i]); g_signal_connect (ag, "candidate-gathering-done", G_CALLBACK (cb_gdone), &A[i]);
    g_signal_connect (ag, "new-selected-pair-full", G_CALLBACK (cb_pair), &A[i]); g_signal_connect (ag, "new-candidate-full", G_CALLBACK (cb_newcand), &A[i]);
    g_signal_connect (ag, "new-remote-candidate-full", G_CALLBACK (cb_newrcand), &A[i]); g_signal_connect (ag, "initial-binding-request-received", G_CALLBACK (cb_ibr), &A[i]);
    g_signal_connect (ag, "streams-removed", G_CALLBACK (cb_removed), &A[i]);
    T ("api %d agent_new compat=%d ctl=%d opt=%d", i, I (2), I (3), I (4)); }
  else if (!strcmp (a[0], "prop")) { /* prop,i,name,uint */ g_object_set (A[I (1)].agent, a[2], (guint) atol (a[3]), NULL); T ("api %d set %s %s", I (1), a[2], a[3]); }
  else if (!strcmp (a[0], "propb")) { g_object_set (A[I (1)].agent, a[2], (gboolean) I (3), NULL); T ("api %d set %s %s", I (1), a[2], a[3]); }
  else if (!strcmp (a[0], "props")) { g_object_set (A[I (1)].agent, a[2], a[3], NULL); T ("api %d set %s %s", I (1), a[2], a[3]); }
  else if (!strcmp (a[0], "tie")) { A[I (1)].agent->tie_breaker = g_ascii_strtoull (a[2], NULL, 10); T ("api %d tie %s", I (1), a[2]); }
  else if (!strcmp (a[0], "stream")) { guint s = nice_agent_add_stream (A[I (1)].agent, I (2)); T ("api %d add_stream %d =%u", I (1), I (2), s);
    for (int c = 1; c <= I (2); c++) nice_agent_attach_recv (A[I (1)].agent, s, c, ctx, cb_recv, &A[I (1)]); }
  else if (!strcmp (a[0], "pull")) { /* pull,i,s,c,size.size... : no receive callback any more, the simulator polls nice_agent_recv_messages_nonblocking with this layout */
    if (npulls < 16) { Pull *pl = &pulls[npulls++]; memset (pl, 0, sizeof *pl); pl->agent = I (1); pl->s = I (2); pl->c = I (3); pl->active = 1;
      char **z = g_strsplit (a[4], ".", 8); for (int j = 0; z[j] && j < 8; j++) pl->sz[pl->nb++] = atol (z[j]); g_strfreev (z);
      gboolean r = nice_agent_attach_recv (A[I (1)].agent, I (2), I (3), ctx, NULL, NULL); T ("api %d pull %d %d %s =%d", I (1), I (2), I (3), a[4], r); } }
  else if (!strcmp (a[0], "gather")) { gboolean r = nice_agent_gather_candidates (A[I (1)].agent, I (2)); T ("api %d gather %d =%d", I (1), I (2), r); }
  else if (!strcmp (a[0], "creds")) copy_creds (I (1), I (2), I (3));
  else if (!strcmp (a[0], "cands")) copy_cands (I (1), I (2), I (3), I (4), n > 5 ? I (5) : -1);
  else if (!strcmp (a[0], "run")) { guint d0 = dispatch_count, s0 = sleep_count; run_for (atol (a[1])); if (n > 2) T ("stat run %s sleeps=%u dispatches=%u", a[1], sleep_count - s0, dispatch_count - d0); }
  else if (!strcmp (a[0], "net")) { p_drop = atof (a[1]); p_dup = atof (a[2]); d_min_us = atol (a[3]) * 1000; d_max_us = atol (a[4]) * 1000; if (n > 5) max_consec_loss = I (5); }
  else if (!strcmp (a[0], "hole")) { /* hole,ipA,ipB,on|off  (directional) */ char k[200]; sprintf (k, "%s>%s", a[1], a[2]); if (!strcmp (a[3], "on")) g_hash_table_insert (blackhole, g_strdup (k), GINT_TO_POINTER (1)); else g_hash_table_remove (blackhole, k); T ("net hole %s %s", k, a[3]); }
  else if (!strcmp (a[0], "server")) { Server *sv2 = &servers[nservers++]; sv2->addr = mkaddr (a[1], I (2)); strncpy (sv2->mode, a[3], 31); sv2->count = 0; T ("net server %s:%s %s", a[1], a[2], a[3]); }
  else if (!strcmp (a[0], "uptime")) { /* uptime,<seconds> : origin of the monotonic clock (first op of a scenario); beyond 4294967 s the millisecond count no longer fits 32 bits */ vnow_us = atoll (a[1]) * 1000000LL; t0_us = vnow_us; }
  else if (!strcmp (a[0], "srvloss")) srv_loss = I (1);
  else if (!strcmp (a[0], "nat")) { if (n_nat < 8) { nat_priv[n_nat] = mkaddr (a[1], 0); nat_pub[n_nat] = mkaddr (a[2], 0); n_nat++; T ("net nat %s %s", a[1], a[2]); } }
  else if (!strcmp (a[0], "servermode")) { strncpy (servers[I (1)].mode, a[2], 31); }
  else if (!strcmp (a[0], "stun")) { g_object_set (A[I (1)].agent, "stun-server", a[2], "stun-server-port", (guint) I (3), NULL); T ("api %d stun-server %s:%s", I (1), a[2], a[3]); }
  else if (!strcmp (a[0], "relayname")) { /* relayname,i,s,c,port : TURN server given by HOST NAME (this machine's name -> 127.0.0.1), resolved asynchronously by GResolver */
    char hn[256] = "localhost"; gethostname (hn, sizeof hn - 1);
    gboolean r = nice_agent_set_relay_info (A[I (1)].agent, I (2), I (3), hn, I (4), "user", "pass", NICE_RELAY_TYPE_TURN_UDP);
    T ("api %d set_relay_info %d %d name:%d =%d", I (1), I (2), I (3), I (4), r);
    /* the resolver runs in a worker thread in real time: wait for its answer here, so that it lands at this point of virtual time */
    settle (); }
  else if (!strcmp (a[0], "relayhost")) { /* relayhost,i,s,c,name,port : TURN server given by an arbitrary host name (e.g. one that does not resolve) */
    gboolean r = nice_agent_set_relay_info (A[I (1)].agent, I (2), I (3), a[4], I (5), "user", "pass", NICE_RELAY_TYPE_TURN_UDP);
    T ("api %d set_relay_info %d %d host:%s:%s =%d", I (1), I (2), I (3), a[4], a[5], r); }
  else if (!strcmp (a[0], "settle")) { /* real-time wait for resolver worker threads; their answers land at this point of virtual time */
    settle (); T ("net settle"); }
  else if (!strcmp (a[0], "relay")) { gboolean r = nice_agent_set_relay_info (A[I (1)].agent, I (2), I (3), a[4], I (5), "user", "pass", NICE_RELAY_TYPE_TURN_UDP); T ("api %d set_relay_info %d %d %s:%s =%d", I (1), I (2), I (3), a[4], a[5], r); }
  else if (!strcmp (a[0], "restart") || !strcmp (a[0], "restart_stream")) { int i = I (1); guint sid = n > 2 ? I (2) : 1;
    gchar *u = NULL, *p = NULL; if (nice_agent_get_local_credentials (A[i].agent, sid, &u, &p)) { g_free (old_ufrag[i]); g_free (old_pwd[i]); old_ufrag[i] = u; old_pwd[i] = p; }
    gboolean r = n > 2 ? nice_agent_restart_stream (A[i].agent, sid) : nice_agent_restart (A[i].agent);
    if (n > 2) T ("api %d restart_stream %d =%d", i, sid, r); else T ("api %d restart =%d", i, r); }
  else if (!strcmp (a[0], "oldcheck")) { /* oldcheck,victim : a well-formed check authenticated with the victim's PRE-restart credentials, from the peer's address */
    int y = I (1), x = 1 - y; if (old_ufrag[y] && A[x].agent && A[y].agent) {
      GSList *ly = nice_agent_get_local_candidates (A[y].agent, 1, 1), *lx = nice_agent_get_local_candidates (A[x].agent, 1, 1); gchar *ux = NULL, *px = NULL; nice_agent_get_local_credentials (A[x].agent, 1, &ux, &px);
      if (ly && lx && ux) { char uname[600]; sprintf (uname, "%s:%s", old_ufrag[y], ux); StunAgent sa; StunMessage m; guint8 buf[1500];
        stun_agent_init (&sa, atk_known, STUN_COMPATIBILITY_RFC5389, STUN_AGENT_USAGE_SHORT_TERM_CREDENTIALS | STUN_AGENT_USAGE_USE_FINGERPRINT);
        gsize l = stun_usage_ice_conncheck_create (&sa, &m, buf, sizeof buf, (uint8_t *) uname, strlen (uname), (uint8_t *) old_pwd[y], strlen (old_pwd[y]), TRUE, TRUE, 0x6e0000ff, 12345, NULL, STUN_USAGE_ICE_COMPATIBILITY_RFC5245);
        if (l) atk_put ("oldcheck", &((NiceCandidate *) lx->data)->addr, &((NiceCandidate *) ly->data)->addr, buf, l); }
      g_free (ux); g_free (px); g_slist_free_full (ly, (GDestroyNotify) nice_candidate_free); g_slist_free_full (lx, (GDestroyNotify) nice_candidate_free); } }
  else if (!strcmp (a[0], "remotecands")) { GSList *l = nice_agent_get_remote_candidates (A[I (1)].agent, I (2), I (3)); T ("api %d remote_candidates %d %d n=%u", I (1), I (2), I (3), g_slist_length (l)); g_slist_free_full (l, (GDestroyNotify) nice_candidate_free); }
  else if (!strcmp (a[0], "getcreds")) { gchar *u = NULL, *p = NULL; gboolean r = nice_agent_get_local_credentials (A[I (1)].agent, I (2), &u, &p); T ("api %d local_credentials %d =%d %s %s", I (1), I (2), r, u ? u : "-", p ? p : "-"); g_free (u); g_free (p); }
  else if (!strcmp (a[0], "send")) { /* send,i,s,c,len,seed */ guint len = I (4); guint8 *d = g_malloc (len ? len : 1); unsigned h = 5381; for (guint k = 0; k < len; k++) { d[k] = (I (5) * 31 + k * 7 + (k >> 8)) & 0xff; h = (h * 33 + d[k]) & 0xffffff; }
    if (n > 6 && !strcmp (a[6], "stunlike") && len >= 20) { d[0] = 0; d[1] = 1; d[2] = (len - 20) >> 8; d[3] = (len - 20) & 0xff; d[4] = 0x21; d[5] = 0x12; d[6] = 0xa4; d[7] = 0x42; h = 5381; for (guint k = 0; k < len; k++) h = (h * 33 + d[k]) & 0xffffff; }
    GOutputVector ov = { d, len }; NiceOutputMessage om = { &ov, 1 }; GError *ge = NULL;
    gint r = nice_agent_send_messages_nonblocking (A[I (1)].agent, I (2), I (3), &om, 1, NULL, &ge); if (r == 1) r = len;
    T ("api %d send %d %d %u %u err=%d =%d", I (1), I (2), I (3), len, h, ge ? ge->code : -1, r); g_clear_error (&ge); g_free (d); }
  else if (!strcmp (a[0], "sendv")) { /* sendv,i,s,c,len,seed,layoutseed[,stunlike] : one message scattered over 1..8 buffers (zero-length ones included), counted or NULL-terminated vector */
    guint len = I (4); guint8 *d = g_malloc (len + 1); unsigned h = 5381; for (guint k = 0; k < len; k++) d[k] = (I (5) * 31 + k * 7 + (k >> 8)) & 0xff;
    if (n > 7 && !strcmp (a[7], "stunlike") && len >= 20) { d[0] = 0; d[1] = 1; d[2] = (len - 20) >> 8; d[3] = (len - 20) & 0xff; d[4] = 0x21; d[5] = 0x12; d[6] = 0xa4; d[7] = 0x42; }
    for (guint k = 0; k < len; k++) h = (h * 33 + d[k]) & 0xffffff;
    guint64 ls = (guint64) atol (a[6]) * 2654435761ULL + 12345; guint nb = 1 + (ls >> 8) % 8; int nullterm = (ls >> 20) & 1; GOutputVector ov[10]; guint8 *copies[10]; gsize off = 0;
    for (guint b = 0; b < nb; b++) { ls = ls * 6364136223846793005ULL + 1442695040888963407ULL; gsize rem = len - off; gsize sz = b == nb - 1 ? rem : ((ls >> 33) % 4 == 0 ? 0 : (ls >> 35) % (rem + 1));
      if (nullterm && sz == 0 && b != nb - 1) sz = rem ? 1 : 0;
      copies[b] = g_malloc (sz ? sz : 1); memcpy (copies[b], d + off, sz); ov[b].buffer = copies[b]; ov[b].size = sz; off += sz; }   /* exactly sized heap copies: an over-read is an ASan report */
    ov[nb].buffer = NULL; ov[nb].size = 0;
    NiceOutputMessage om = { ov, nullterm ? -1 : (gint) nb }; GError *ge = NULL; int i = I (1);
    gint r = nice_agent_send_messages_nonblocking (A[i].agent, I (2), I (3), &om, 1, NULL, &ge);
    T ("api %d send %d %d %u %u nb=%u%s err=%d =%d", i, I (2), I (3), len, h, nb, nullterm ? "z" : "", ge ? ge->code : -1, r == 1 ? (gint) len : r);
    if (r == 1 && I (2) < 8 && I (3) < 4) { A[i].txh[I (2)][I (3)] = roll (A[i].txh[I (2)][I (3)], d, len); A[i].txn[I (2)][I (3)] += len; }
    g_clear_error (&ge); for (guint b = 0; b < nb; b++) g_free (copies[b]); g_free (d); }
  else if (!strcmp (a[0], "sendstream")) { /* sendstream,i,s,c,len,seed : reliable mode, byte-stream semantics: nice_agent_send may accept a prefix */
    guint len = I (4); guint8 *d = g_malloc (len + 1); for (guint k = 0; k < len; k++) d[k] = (I (5) * 131 + k * 13 + (k >> 7)) & 0xff; int i = I (1);
    gint r = nice_agent_send (A[i].agent, I (2), I (3), len, (gchar *) d); T ("api %d sendstream %d %d %u %d =%d", i, I (2), I (3), len, I (5), r);
    if (r > 0 && I (2) < 8 && I (3) < 4) { A[i].txh[I (2)][I (3)] = roll (A[i].txh[I (2)][I (3)], d, r); A[i].txn[I (2)][I (3)] += r; } g_free (d); }
  else if (!strcmp (a[0], "sendbatch")) { /* sendbatch,i,s,c,len1.len2...,seed : reliable mode, several messages in ONE nice_agent_send_messages_nonblocking call (each message goes out whole or not at all) */
    int i = I (1); char **z = g_strsplit (a[4], ".", 8); int nm = g_strv_length (z); GOutputVector ov[8]; NiceOutputMessage om[8]; guint8 *d[8];
    for (int k = 0; k < nm; k++) { gsize len = atol (z[k]); d[k] = g_malloc (len + 1); for (gsize j = 0; j < len; j++) d[k][j] = ((I (5) + k) * 131 + j * 13 + (j >> 7)) & 0xff; ov[k].buffer = d[k]; ov[k].size = len; om[k].buffers = &ov[k]; om[k].n_buffers = 1; }
    GError *ge = NULL; gint r = nice_agent_send_messages_nonblocking (A[i].agent, I (2), I (3), om, nm, NULL, &ge);
    T ("api %d sendbatch %d %d %s %d err=%d =%d", i, I (2), I (3), a[4], I (5), ge ? ge->code : -1, r);
    for (int k = 0; k < nm; k++) { if (k < r && I (2) < 8 && I (3) < 4) { A[i].txh[I (2)][I (3)] = roll (A[i].txh[I (2)][I (3)], d[k], ov[k].size); A[i].txn[I (2)][I (3)] += ov[k].size; } g_free (d[k]); }
    g_clear_error (&ge); g_strfreev (z); }
  else if (!strcmp (a[0], "streamhash")) { int i = I (1); guint s_ = I (2), c_ = I (3); if (s_ < 8 && c_ < 4) T ("strm %d %u %u tx=%" G_GUINT64_FORMAT ":%u rx=%" G_GUINT64_FORMAT ":%u", i, s_, c_, A[i].txn[s_][c_], A[i].txh[s_][c_], A[i].rxn[s_][c_], A[i].rxh[s_][c_]); }
  else if (!strcmp (a[0], "remove_stream")) { nice_agent_remove_stream (A[I (1)].agent, I (2)); T ("api %d remove_stream %d", I (1), I (2)); }
  else if (!strcmp (a[0], "consent_lost")) { gboolean r = nice_agent_consent_lost (A[I (1)].agent, I (2), I (3)); T ("api %d consent_lost %d %d =%d", I (1), I (2), I (3), r); }
  else if (!strcmp (a[0], "set_selected")) { /* force pair: first local, first remote candidate foundations */
    GSList *l = nice_agent_get_local_candidates (A[I (1)].agent, I (2), I (3)), *r = nice_agent_get_remote_candidates (A[I (1)].agent, I (2), I (3)); gboolean ok = FALSE;
    if (l && r) ok = nice_agent_set_selected_pair (A[I (1)].agent, I (2), I (3), ((NiceCandidate *) l->data)->foundation, ((NiceCandidate *) r->data)->foundation);
    T ("api %d set_selected_pair %d %d =%d", I (1), I (2), I (3), ok); g_slist_free_full (l, (GDestroyNotify) nice_candidate_free); g_slist_free_full (r, (GDestroyNotify) nice_candidate_free); }
  else if (!strcmp (a[0], "inject")) { /* inject,fromip,fromport,toip,toport,hex : attacker datagram */ NiceAddress f = mkaddr (a[1], I (2)), t = mkaddr (a[3], I (4)); size_t l; unsigned char *b = hc_unhex (a[5], &l); net_send (&f, &t, b, l); free (b); }
  else if (!strcmp (a[0], "attacker")) { /* attacker,period_ms(0=off),kind mask */ atk_period_us = I (1) * 1000LL; atk_next_us = atk_period_us ? vnow_us + atk_period_us : G_MAXINT64; atk_mask = n > 2 ? (unsigned) atoi (a[2]) : ~0u; atk_s = rng_s * 0x2545F4914F6CDD1DULL | 1; }
  else if (!strcmp (a[0], "sdpgen")) { int i = I (1); g_free (last_sdp[i]); last_sdp[i] = nice_agent_generate_local_sdp (A[i].agent); T ("api %d generate_local_sdp len=%zu", i, last_sdp[i] ? strlen (last_sdp[i]) : 0); }
  else if (!strcmp (a[0], "sdpparse")) { int i = I (1), j = I (2); int r = last_sdp[j] ? nice_agent_parse_remote_sdp (A[i].agent, last_sdp[j]) : -99; T ("api %d parse_remote_sdp from=%d =%d", i, j, r); }
  else if (!strcmp (a[0], "sdpbad")) { /* sdpbad,i,j,variant : agent j's last SDP, damaged, parsed by agent i (whole-session and per-stream parsers) */
    int i = I (1), j = I (2), v = I (3);
    if (last_sdp[j]) { GString *g = g_string_new (last_sdp[j]);
      switch (v % 6) {
        case 0: g_string_append (g, "a=candidate:1 1 UDP 2015363327 10.0.9.9 9 typ host\na=candidate:garbage\n"); break;
        case 1: g_string_append (g, "a=candidate:1 1 UDP 2015363327 10.0.9.9 9 typ host\na=candidate:2 1 UDP notanumber 10.0.9.8 9 typ host\n"); break;
        case 2: g_string_truncate (g, g->len > 17 ? g->len - 17 : 0); break;
        case 3: g_string_append (g, "a=candidate:3 1 UDP 2015363327 10.0.9.9 9 typ host\na=candidate:4 1 UDP 1 999.1.1.1 9 typ host\n"); break;
        case 4: g_string_append (g, "m=audio 0 ICE/SDP\na=ice-ufrag:\na=candidate:5 7 UDP 1 10.0.9.9 9 typ srflx raddr\n"); break;
        default: g_string_append (g, "a=candidate:6 1 TCP 1 10.0.9.9 9 typ host tcptype\n"); break; }
      int r = nice_agent_parse_remote_sdp (A[i].agent, g->str); gchar *uf = NULL, *pw = NULL;
      /* the per-stream parser gets one stream's SDP (a session SDP repeats a=ice-ufrag per stream) with the same damage appended */
      gchar *ss = nice_agent_generate_local_stream_sdp (A[j].agent, 1, TRUE); GString *g2 = g_string_new (ss ? ss : ""); g_free (ss);
      { const char *tail = strstr (g->str, "a=candidate:1 1 UDP 2015363327 10.0.9.9"); if (!tail) tail = strstr (g->str, "a=candidate:3 1 UDP 2015363327 10.0.9.9"); if (!tail) tail = strstr (g->str, "a=candidate:6 1 TCP"); if (tail) g_string_append (g2, tail); else if (g2->len > 17) g_string_truncate (g2, g2->len - 17); }
      GSList *l = nice_agent_parse_remote_stream_sdp (A[i].agent, 1, g2->str, &uf, &pw); g_string_free (g2, TRUE);
      T ("api %d parse_damaged_sdp from=%d v=%d =%d n=%u", i, j, v % 6, r, g_slist_length (l));
      g_slist_free_full (l, (GDestroyNotify) nice_candidate_free); g_free (uf); g_free (pw); g_string_free (g, TRUE); } }
  else if (!strcmp (a[0], "detach")) { gboolean r = nice_agent_attach_recv (A[I (1)].agent, I (2), I (3), ctx, NULL, NULL); T ("api %d detach_recv %d %d =%d", I (1), I (2), I (3), r); }
  else if (!strcmp (a[0], "attach")) { gboolean r = nice_agent_attach_recv (A[I (1)].agent, I (2), I (3), ctx, cb_recv, &A[I (1)]); T ("api %d attach_recv %d %d =%d", I (1), I (2), I (3), r); }
  else if (!strcmp (a[0], "setremote")) { GSList *r = nice_agent_get_remote_candidates (A[I (1)].agent, I (2), I (3)); gboolean ok = FALSE; if (r) ok = nice_agent_set_selected_remote_candidate (A[I (1)].agent, I (2), I (3), r->data);
    T ("api %d set_selected_remote_candidate %d %d =%d", I (1), I (2), I (3), ok); g_slist_free_full (r, (GDestroyNotify) nice_candidate_free); }
  else if (!strcmp (a[0], "setalien")) { /* setalien,i,s,c,kind : forced selection of a remote candidate no local candidate can be paired with (0: IPv6 address on an IPv4-only agent, 1: TCP-passive with ICE-TCP off) */
    NiceCandidate *rc = nice_candidate_new (NICE_CANDIDATE_TYPE_HOST); rc->stream_id = I (2); rc->component_id = I (3); rc->transport = I (4) == 1 ? NICE_CANDIDATE_TRANSPORT_TCP_PASSIVE : NICE_CANDIDATE_TRANSPORT_UDP;
    nice_address_set_from_string (&rc->addr, I (4) == 0 ? "fd00::77" : "10.0.7.7"); nice_address_set_port (&rc->addr, 5000); rc->base_addr = rc->addr; g_strlcpy (rc->foundation, "alien", NICE_CANDIDATE_MAX_FOUNDATION);
    gboolean ok = nice_agent_set_selected_remote_candidate (A[I (1)].agent, I (2), I (3), rc); T ("api %d set_selected_remote_candidate %d %d alien%d =%d", I (1), I (2), I (3), I (4), ok); nice_candidate_free (rc); }
  else if (!strcmp (a[0], "forget")) { gboolean r = nice_agent_forget_relays (A[I (1)].agent, I (2), I (3)); T ("api %d forget_relays %d %d =%d", I (1), I (2), I (3), r); }
  else if (!strcmp (a[0], "close")) { int i = I (1); if (A[i].agent) { nice_agent_close_async (A[i].agent, cb_closed, &A[i]); T ("api %d close_async", i); } }
  else if (!strcmp (a[0], "setcreds")) { gboolean r = nice_agent_set_local_credentials (A[I (1)].agent, I (2), a[3], a[4]); T ("api %d set_local_credentials %d =%d", I (1), I (2), r); }
  else if (!strcmp (a[0], "tos")) { nice_agent_set_stream_tos (A[I (1)].agent, I (2), I (3)); T ("api %d set_stream_tos %d", I (1), I (2)); }
  else if (!strcmp (a[0], "name")) { gboolean r = nice_agent_set_stream_name (A[I (1)].agent, I (2), a[3]); T ("api %d set_stream_name %d %s =%d", I (1), I (2), a[3], r); }
  else if (!strcmp (a[0], "peerrfx")) { /* remote candidates containing a bogus extra one, set twice */ GSList *l = nice_agent_get_local_candidates (A[I (2)].agent, I (3), I (4)); int r = nice_agent_set_remote_candidates (A[I (1)].agent, I (3), I (4), l); r = nice_agent_set_remote_candidates (A[I (1)].agent, I (3), I (4), l); T ("api %d set_remote_candidates_twice %d %d =%d", I (1), I (3), I (4), r); g_slist_free_full (l, (GDestroyNotify) nice_candidate_free); }
  else if (!strcmp (a[0], "pairs")) { /* pairs,i : the check lists with the priorities of both candidates of every pair (C15) */
    int i = I (1); NiceAgent *ag = A[i].agent; if (ag) { agent_lock (ag); T ("pl %d ctl=%d", i, (int) ag->controlling_mode);
      for (GSList *l = ag->streams; l; l = l->next) { NiceStream *st = l->data; fprintf (hc_out, " s%u[", st->id);
        for (GSList *k = st->conncheck_list; k; k = k->next) { CandidateCheckPair *p = k->data;
          fprintf (hc_out, "%u:%u:%u:%" G_GUINT64_FORMAT " ", p->component_id, p->local->priority, p->remote->priority, p->priority); }
        fprintf (hc_out, "]"); }
      agent_unlock (ag); } }
  else if (!strcmp (a[0], "recand")) { /* recand,from,to,s,c,seed : the candidates of `from` signalled to `to` AGAIN, same type and address, new priorities (a re-offer) */
    GSList *l = nice_agent_get_local_candidates (A[I (1)].agent, I (3), I (4)); guint64 x = (guint64) atol (a[5]) * 2654435761ULL + 12345; int k = 0;
    for (GSList *j = l; j; j = j->next, k++) { NiceCandidate *c = j->data; x ^= x << 13; x ^= x >> 7; x ^= x << 17;
      if ((x >> 8) % 3) c->priority = (guint32) ((x >> 20) % 0x7ffffffeu) + 1; }
    int r = nice_agent_set_remote_candidates (A[I (2)].agent, I (3), I (4), l); T ("api %d set_remote_candidates_again %d %d n=%u =%d", I (2), I (3), I (4), g_slist_length (l), r);
    g_slist_free_full (l, (GDestroyNotify) nice_candidate_free); }
  else if (!strcmp (a[0], "digest")) { for (int i = 0; i < nagents; i++) digest (i); }
  else if (!strcmp (a[0], "state")) { guint st = nice_agent_get_component_state (A[I (1)].agent, I (2), I (3)); T ("api %d get_state %d %d =%s", I (1), I (2), I (3), stname (st)); }
  else if (!strcmp (a[0], "selected")) { NiceCandidate *l = NULL, *r = NULL; gboolean ok = nice_agent_get_selected_pair (A[I (1)].agent, I (2), I (3), &l, &r); char x[80] = "-", y[80] = "-"; if (ok) { addr_s (&l->addr, x); addr_s (&r->addr, y); } T ("api %d get_selected_pair %d %d =%d %s %s", I (1), I (2), I (3), ok, x, y); }
  else if (!strcmp (a[0], "localcands")) { GSList *l = nice_agent_get_local_candidates (A[I (1)].agent, I (2), I (3)); T ("api %d local_candidates %d %d n=%u", I (1), I (2), I (3), g_slist_length (l)); for (GSList *k = l; k; k = k->next) { char o[300]; cand_s (k->data, o); fprintf (hc_out, " %s", o); } g_slist_free_full (l, (GDestroyNotify) nice_candidate_free); }
  else if (!strcmp (a[0], "unref")) { int i = I (1); if (A[i].agent) { g_object_unref (A[i].agent); A[i].agent = NULL; T ("api %d unref", i); } }
  else if (!strcmp (a[0], "dispatches")) { T ("stat dispatches=%u", dispatch_count); dispatch_count = 0; }
  else if (!strcmp (a[0], "tracepkts")) trace_pkts = I (1);
  else if (!strcmp (a[0], "tracetimers")) trace_timers = I (1);
  else if (!strcmp (a[0], "recvfail")) { /* recvfail,ip,k : the next receive on the k-th live socket bound to that ip fails (the agent removes the socket) */
    int k = I (2), seen = 0; for (guint j = 0; j < vsocks->len; j++) { VSock *v = vsocks->pdata[j]; char ip[64]; if (v->closed) continue; nice_address_to_string (&v->nsock->addr, ip);
      if (!strcmp (ip, a[1]) && seen++ == k) { v->fail_next = 1; char c = 1; if (write (v->db_w, &c, 1) < 0) { } char as[80]; addr_s (&v->nsock->addr, as); T ("net recvfail %s", as); break; } } }
  else if (!strcmp (a[0], "sendfail")) { /* sendfail,ip,on|off : every send to that address fails from now on */
    if (!sendfail) sendfail = g_hash_table_new_full (g_str_hash, g_str_equal, g_free, NULL);
    if (!strcmp (a[2], "on")) g_hash_table_insert (sendfail, g_strdup (a[1]), GINT_TO_POINTER (1)); else g_hash_table_remove (sendfail, a[1]); T ("net sendfail %s %s", a[1], a[2]); }
  else T ("?op %s", a[0]);
}

static int run_case (char *line)
{
    char *sv, *id = strtok_r (line, " \n", &sv); if (!id) return 0;
    /* fresh world */
    ctx = g_main_context_new (); g_main_context_push_thread_default (ctx); vsocks = g_ptr_array_new (); inflight = NULL; pkt_serial = 0; next_port = 40000; nagents = 0; nservers = 0; npulls = 0; memset (A, 0, sizeof A);
    consec = g_hash_table_new_full (g_str_hash, g_str_equal, g_free, NULL); resp_tokens = g_hash_table_new_full (g_str_hash, g_str_equal, g_free, NULL); blackhole = g_hash_table_new_full (g_str_hash, g_str_equal, g_free, NULL);
    for (int i = 0; i < n_vif; i++) g_free (vif[i]); n_vif = 0;
    atk_period_us = 0; atk_next_us = G_MAXINT64; reqlog_n = 0; srv_loss = 0; n_nat = 0; for (int i = 0; i < MAXA; i++) { g_free (last_sdp[i]); last_sdp[i] = NULL; } for (int i = 0; i < 4; i++) { g_free (old_ufrag[i]); g_free (old_pwd[i]); old_ufrag[i] = old_pwd[i] = NULL; }
    p_drop = p_dup = 0; d_min_us = d_max_us = 1000; max_consec_loss = 2; vnow_us = 1000000000LL; t0_us = vnow_us; dispatch_count = 0; trace_pkts = 1; spinning = 0; trace_timers = 0; if (sendfail) g_hash_table_remove_all (sendfail);
    fprintf (hc_out, "%s", id);
    char *op; int aborted = 0;
    while ((op = strtok_r (NULL, " \n", &sv))) {
      if (!HC_TRY) { HC_END; T ("ABORT"); aborted = 1; break; }
      do_op (op);
      HC_END;
    }
    if (!aborted) {
      if (HC_TRY) {
        for (int i = 0; i < nagents; i++) digest (i);
        for (int i = 0; i < nagents; i++) if (A[i].agent) { g_object_unref (A[i].agent); A[i].agent = NULL; }
        run_for (100);
        guint live = 0; for (guint i = 0; i < vsocks->len; i++) { VSock *v = vsocks->pdata[i]; if (!v->closed) live++; }
        if (live) { /* asynchronous closing (TURN deallocation with its retransmissions) may still be in flight: let the main context drain */
          run_for (15000); live = 0; for (guint i = 0; i < vsocks->len; i++) { VSock *v = vsocks->pdata[i]; if (!v->closed) live++; } }
        T ("end live_sockets=%u", live);
        HC_END;
      } else { HC_END; T ("ABORT"); }
    }
    /* tear the simulated world down, so that whatever is still allocated now was leaked by the library */
    for (GList *i = inflight; i; i = i->next) { VPkt *p = i->data; g_free (p->data); g_free (p); } g_list_free (inflight); inflight = NULL;
    for (guint i = 0; i < vsocks->len; i++) { VSock *v = vsocks->pdata[i]; if (v->closed) g_free (v); } g_ptr_array_free (vsocks, TRUE);
    g_hash_table_destroy (consec); g_hash_table_destroy (resp_tokens); g_hash_table_destroy (blackhole);
    g_main_context_pop_thread_default (ctx); g_main_context_unref (ctx); ctx = NULL;
    fflush (hc_out);
    return aborted;
}

int main (void)
{
  static char line[1 << 20];
  hc_init (); hc_catch_abort ();
  if (!getenv ("SIM_DEBUG")) g_setenv ("G_MESSAGES_DEBUG", "", TRUE); else { g_setenv ("G_MESSAGES_DEBUG", "libnice", TRUE); nice_debug_enable (FALSE); }
  int leakcheck = getenv ("SIM_LEAKCHECK") != NULL;
  while (fgets (line, sizeof line, stdin)) {
    if (!leakcheck) { run_case (line); fprintf (hc_out, "\n"); fflush (hc_out); continue; }
    /* one process per scenario: whatever LeakSanitizer finds at its exit was leaked by this scenario */
    fflush (hc_out); fflush (stderr);
    pid_t pid = fork ();
    if (pid == 0) { int ab = run_case (line); fflush (hc_out); if (ab) _exit (0); _exit (__lsan_do_recoverable_leak_check () ? 23 : 0); }
    int st = 0; waitpid (pid, &st, 0);
    if (WIFEXITED (st) && WEXITSTATUS (st) == 23) fprintf (hc_out, " | 0 LEAK");
    else if (!WIFEXITED (st) || WEXITSTATUS (st) != 0) fprintf (hc_out, " | 0 CRASH status=%d", st);
    fprintf (hc_out, "\n"); fflush (hc_out);
  }
  return 0;
}
