/* Correspondence harness for stun/usages/timer.c: the clock is interposed (clock_gettime below),
 * so the real code sees exactly the instants of the test case.
 * line: <id> T N|R s0 u0 s1 u1 ...   output: <id> rem:ret:delay:retrans ...  */
#include <stdio.h>
#include <stdlib.h>
#include <string.h>
#include <time.h>
#include "stun/usages/timer.h"

static long long cur_s, cur_us;
int clock_gettime (clockid_t id, struct timespec *ts) { ts->tv_sec = cur_s; ts->tv_nsec = cur_us * 1000 + 7; return 0; }

int main (void)
{
  static char line[1 << 20];
  while (fgets (line, sizeof line, stdin)) {
    char *save, *tok = strtok_r (line, " \n", &save);
    if (!tok) continue;
    char id[64]; snprintf (id, sizeof id, "%s", tok);
    unsigned T = strtoul (strtok_r (NULL, " \n", &save), NULL, 10);
    char *ntok = strtok_r (NULL, " \n", &save); int reliable = ntok[0] == 'R';   /* N = "R": stun_timer_start_reliable */
    unsigned N = reliable ? 0 : strtoul (ntok, NULL, 10);
    cur_s = atoll (strtok_r (NULL, " \n", &save)); cur_us = atoll (strtok_r (NULL, " \n", &save));
    StunTimer t;
    if (reliable) stun_timer_start_reliable (&t, T); else stun_timer_start (&t, T, N);
    printf ("%s", id);
    while ((tok = strtok_r (NULL, " \n", &save))) {
      cur_s = atoll (tok); cur_us = atoll (strtok_r (NULL, " \n", &save));
      unsigned rem = stun_timer_remainder (&t);
      StunUsageTimerReturn r = stun_timer_refresh (&t);
      printf (" %u:%c:%u:%u", rem, r == STUN_USAGE_TIMER_RETURN_SUCCESS ? 'S' : r == STUN_USAGE_TIMER_RETURN_RETRANSMIT ? 'R' : 'T',
              t.delay, t.retransmissions);
    }
    printf ("\n");
  }
  return 0;
}
