(** SHA-1 (RFC 3174) and HMAC-SHA1 (RFC 2104) as Gallina specifications over byte lists. *)
From Coq Require Import ZArith List Lia.
From Nice Require Import Base.Bytes.
Import ListNotations.
Local Open Scope Z_scope.

Definition M32 : Z := 4294967296.
Definition w32 (x : Z) : Z := x mod M32.
Definition rotl (n x : Z) : Z := Z.lor (w32 (Z.shiftl x n)) (Z.shiftr x (32 - n)).
Definition not32 (x : Z) : Z := M32 - 1 - x.

Fixpoint words_be (l : bytes) : list Z :=
  match l with
  | a :: b :: c :: d :: l' => be32_of a b c d :: words_be l'
  | _ => []
  end.

Definition be64_bytes (v : Z) : bytes := be32_bytes (v / M32) ++ be32_bytes (v mod M32).

(* message padding to a multiple of 64 bytes: 0x80, zeros, 64-bit big-endian bit length *)
Definition pad_len (n : Z) : Z := (55 - n) mod 64.
Definition sha1_pad (m : bytes) : bytes :=
  m ++ [128] ++ zeros (Z.to_nat (pad_len (len m))) ++ be64_bytes (8 * len m).

Fixpoint chunks (n : nat) (fuel : nat) (l : list Z) : list (list Z) :=
  match fuel with
  | O => []
  | S f => match l with [] => [] | _ => firstn n l :: chunks n f (skipn n l) end
  end.

(* message schedule: w[t] = rotl1 (w[t-3] ^ w[t-8] ^ w[t-14] ^ w[t-16]); kept as a reversed list *)
Fixpoint expand (k : nat) (rev_w : list Z) : list Z :=
  match k with
  | O => rev_w
  | S k' =>
      let x := Z.lxor (Z.lxor (nth 2 rev_w 0) (nth 7 rev_w 0)) (Z.lxor (nth 13 rev_w 0) (nth 15 rev_w 0)) in
      expand k' (rotl 1 x :: rev_w)
  end.

Definition f_k (t : nat) (b c d : Z) : Z * Z :=
  if Nat.ltb t 20 then (Z.lor (Z.land b c) (Z.land (not32 b) d), 1518500249)
  else if Nat.ltb t 40 then (Z.lxor (Z.lxor b c) d, 1859775393)
  else if Nat.ltb t 60 then (Z.lor (Z.lor (Z.land b c) (Z.land b d)) (Z.land c d), 2400959708)
  else (Z.lxor (Z.lxor b c) d, 3395469782).

Fixpoint rounds (t : nat) (ws : list Z) (s : Z * Z * Z * Z * Z) : Z * Z * Z * Z * Z :=
  match ws with
  | [] => s
  | w :: ws' =>
      let '(a, b, c, d, e) := s in
      let '(f, k) := f_k t b c d in
      let tmp := w32 (rotl 5 a + f + e + k + w) in
      rounds (S t) ws' (tmp, a, rotl 30 b, c, d)
  end.

Definition sha1_block (h : Z * Z * Z * Z * Z) (blk : list Z) : Z * Z * Z * Z * Z :=
  let ws := rev (expand 64 (rev blk)) in
  let '(h0, h1, h2, h3, h4) := h in
  let '(a, b, c, d, e) := rounds 0 ws h in
  (w32 (h0 + a), w32 (h1 + b), w32 (h2 + c), w32 (h3 + d), w32 (h4 + e)).

Definition sha1 (m : bytes) : bytes :=
  let p := sha1_pad m in
  let blocks := chunks 16 (S (length p / 64)) (words_be p) in
  let '(h0, h1, h2, h3, h4) :=
    fold_left sha1_block blocks (1732584193, 4023233417, 2562383102, 271733878, 3285377520) in
  be32_bytes h0 ++ be32_bytes h1 ++ be32_bytes h2 ++ be32_bytes h3 ++ be32_bytes h4.

Definition xor_pad (k : bytes) (c : Z) : bytes := map (fun b => Z.lxor b c) k.

Definition hmac_sha1 (key m : bytes) : bytes :=
  let k0 := if 64 <? len key then sha1 key else key in
  let k := k0 ++ zeros (64 - length k0) in
  sha1 (xor_pad k 92 ++ sha1 (xor_pad k 54 ++ m)).

(* RFC 3174 test vectors; RFC 2202 HMAC-SHA1 test cases 1, 2 *)
Definition ascii (s : list Z) := s.
Example sha1_abc : sha1 [97; 98; 99] =
  [169; 153; 62; 54; 71; 6; 129; 106; 186; 62; 37; 113; 120; 80; 194; 108; 156; 208; 216; 157].
Proof. vm_compute. reflexivity. Qed.
Example sha1_empty : sha1 [] =
  [218; 57; 163; 238; 94; 107; 75; 13; 50; 85; 191; 239; 149; 96; 24; 144; 175; 216; 7; 9].
Proof. vm_compute. reflexivity. Qed.
(* "abcdbcdecdefdefgefghfghighijhijkijkljklmklmnlmnomnopnopq" : two blocks *)
Example sha1_two_blocks :
  sha1 [97;98;99;100;98;99;100;101;99;100;101;102;100;101;102;103;101;102;103;104;102;103;104;105;103;104;105;106;
        104;105;106;107;105;106;107;108;106;107;108;109;107;108;109;110;108;109;110;111;109;110;111;112;110;111;112;113] =
  [132; 152; 62; 68; 28; 59; 210; 110; 186; 174; 74; 161; 249; 81; 41; 229; 229; 70; 112; 241].
Proof. vm_compute. reflexivity. Qed.
(* RFC 2202 #1: key = 0x0b * 20, data = "Hi There" *)
Example hmac_rfc2202_1 :
  hmac_sha1 (repeat 11 20) [72; 105; 32; 84; 104; 101; 114; 101] =
  [182; 23; 49; 134; 85; 5; 114; 100; 226; 139; 192; 182; 251; 55; 140; 142; 241; 70; 190; 0].
Proof. vm_compute. reflexivity. Qed.
(* RFC 2202 #2: key = "Jefe", data = "what do ya want for nothing?" *)
Example hmac_rfc2202_2 :
  hmac_sha1 [74; 101; 102; 101]
    [119;104;97;116;32;100;111;32;121;97;32;119;97;110;116;32;102;111;114;32;110;111;116;104;105;110;103;63] =
  [239; 252; 223; 106; 229; 235; 47; 162; 210; 116; 22; 213; 241; 132; 223; 156; 37; 154; 124; 121].
Proof. vm_compute. reflexivity. Qed.
