(** CRC-32 as stun/stuncrc32.c computes it (table-driven; the table is generated from the source into
    Gen/Crc32Tab.v) and the bitwise polynomial specification (reflected 0xEDB88320). *)
From Coq Require Import ZArith List Bool Lia.
From Nice Require Import Base.Bytes Gen.Crc32Tab.
Import ListNotations.
Local Open Scope Z_scope.

Definition crc_step (typo : bool) (crc b : Z) : Z :=
  let lkp := nth (Z.to_nat (Z.land (Z.lxor crc b) 255)) crc32_tab 0 in
  let lkp := if (lkp =? crc32_typo_from) && typo then crc32_typo_to else lkp in
  Z.lxor lkp (Z.shiftr crc 8).

Definition crc32 (typo : bool) (data : bytes) : Z :=
  Z.lxor (fold_left (crc_step typo) data 4294967295) 4294967295.

(* specification: one table entry = 8 steps of the reflected polynomial division *)
Definition poly_bit (c : Z) : Z := if Z.odd c then Z.lxor 3988292384 (Z.shiftr c 1) else Z.shiftr c 1.
Definition poly_entry (i : Z) : Z := poly_bit (poly_bit (poly_bit (poly_bit (poly_bit (poly_bit (poly_bit (poly_bit i))))))).

Definition table_ok : bool :=
  forallb (fun i => nth i crc32_tab 0 =? poly_entry (Z.of_nat i)) (seq 0 256) && (length crc32_tab =? 256)%nat.

(* "123456789" -> 0xCBF43926 (the standard check value of CRC-32/ISO-HDLC) *)
Example crc32_check : crc32 false [49; 50; 51; 52; 53; 54; 55; 56; 57] = 3421780262.
Proof. vm_compute. reflexivity. Qed.
