(** MD5 (RFC 1321) as a Gallina specification over byte lists. *)
From Coq Require Import ZArith List Lia.
From Nice Require Import Base.Bytes Crypto.Sha1.
Import ListNotations.
Local Open Scope Z_scope.

Definition le32_of (b0 b1 b2 b3 : Z) : Z := ((b3 * 256 + b2) * 256 + b1) * 256 + b0.
Definition le32_bytes (v : Z) : bytes := [v mod 256; (v / 256) mod 256; (v / 65536) mod 256; (v / 16777216) mod 256].
Fixpoint words_le (l : bytes) : list Z :=
  match l with
  | a :: b :: c :: d :: l' => le32_of a b c d :: words_le l'
  | _ => []
  end.
Definition le64_bytes (v : Z) : bytes := le32_bytes (v mod M32) ++ le32_bytes (v / M32).
Definition md5_pad (m : bytes) : bytes :=
  m ++ [128] ++ zeros (Z.to_nat (pad_len (len m))) ++ le64_bytes (8 * len m).

Definition md5_K : list Z := [
 3614090360; 3905402710; 606105819; 3250441966; 4118548399; 1200080426; 2821735955; 4249261313;
 1770035416; 2336552879; 4294925233; 2304563134; 1804603682; 4254626195; 2792965006; 1236535329;
 4129170786; 3225465664; 643717713; 3921069994; 3593408605; 38016083; 3634488961; 3889429448;
 568446438; 3275163606; 4107603335; 1163531501; 2850285829; 4243563512; 1735328473; 2368359562;
 4294588738; 2272392833; 1839030562; 4259657740; 2763975236; 1272893353; 4139469664; 3200236656;
 681279174; 3936430074; 3572445317; 76029189; 3654602809; 3873151461; 530742520; 3299628645;
 4096336452; 1126891415; 2878612391; 4237533241; 1700485571; 2399980690; 4293915773; 2240044497;
 1873313359; 4264355552; 2734768916; 1309151649; 4149444226; 3174756917; 718787259; 3951481745].
Definition md5_S : list Z := [
 7; 12; 17; 22; 7; 12; 17; 22; 7; 12; 17; 22; 7; 12; 17; 22;
 5; 9; 14; 20; 5; 9; 14; 20; 5; 9; 14; 20; 5; 9; 14; 20;
 4; 11; 16; 23; 4; 11; 16; 23; 4; 11; 16; 23; 4; 11; 16; 23;
 6; 10; 15; 21; 6; 10; 15; 21; 6; 10; 15; 21; 6; 10; 15; 21].

Fixpoint md5_rounds (n : nat) (i : Z) (blk : list Z) (s : Z * Z * Z * Z) : Z * Z * Z * Z :=
  match n with
  | O => s
  | S n' =>
      let '(a, b, c, d) := s in
      let '(f, g) :=
        if i <? 16 then (Z.lor (Z.land b c) (Z.land (not32 b) d), i)
        else if i <? 32 then (Z.lor (Z.land d b) (Z.land (not32 d) c), (5 * i + 1) mod 16)
        else if i <? 48 then (Z.lxor (Z.lxor b c) d, (3 * i + 5) mod 16)
        else (Z.lxor c (Z.lor b (not32 d)), (7 * i) mod 16) in
      let f2 := w32 (f + a + nth (Z.to_nat i) md5_K 0 + nth (Z.to_nat g) blk 0) in
      md5_rounds n' (i + 1) blk (d, w32 (b + rotl (nth (Z.to_nat i) md5_S 0) f2), b, c)
  end.

Definition md5_block (h : Z * Z * Z * Z) (blk : list Z) : Z * Z * Z * Z :=
  let '(a0, b0, c0, d0) := h in
  let '(a, b, c, d) := md5_rounds 64 0 blk h in
  (w32 (a0 + a), w32 (b0 + b), w32 (c0 + c), w32 (d0 + d)).

Definition md5 (m : bytes) : bytes :=
  let p := md5_pad m in
  let blocks := chunks 16 (S (length p / 64)) (words_le p) in
  let '(a, b, c, d) := fold_left md5_block blocks (1732584193, 4023233417, 2562383102, 271733878) in
  le32_bytes a ++ le32_bytes b ++ le32_bytes c ++ le32_bytes d.

(* RFC 1321 test suite *)
Example md5_empty : md5 [] = [212; 29; 140; 217; 143; 0; 178; 4; 233; 128; 9; 152; 236; 248; 66; 126].
Proof. vm_compute. reflexivity. Qed.
Example md5_abc : md5 [97; 98; 99] = [144; 1; 80; 152; 60; 210; 79; 176; 214; 150; 63; 125; 40; 225; 127; 114].
Proof. vm_compute. reflexivity. Qed.
(* "12345678901234567890123456789012345678901234567890123456789012345678901234567890" (two blocks) *)
Example md5_80 : md5 (concat (repeat [49;50;51;52;53;54;55;56;57;48] 8)) =
  [87; 237; 244; 162; 43; 227; 201; 85; 172; 73; 218; 46; 33; 7; 182; 122].
Proof. vm_compute. reflexivity. Qed.
