(** C integer semantics used by the generated definitions (coq/Gen) and by hand-written models. *)
From Coq Require Import ZArith Bool Lia.
Local Open Scope Z_scope.

Definition uwrap (w : Z) (x : Z) : Z := x mod 2 ^ w.
Definition swrap (w : Z) (x : Z) : Z :=
  let y := x mod 2 ^ w in if y <? 2 ^ (w - 1) then y else y - 2 ^ w.
Definition in_urange (w : Z) (x : Z) : bool := (0 <=? x) && (x <? 2 ^ w).
Definition in_srange (w : Z) (x : Z) : bool := (- 2 ^ (w - 1) <=? x) && (x <? 2 ^ (w - 1)).
Definition oget (o : option Z) : Z := match o with Some v => v | None => 0 end.
Definition odef (o : option Z) : bool := match o with Some _ => true | None => false end.

Lemma uwrap_small w x : 0 <= x < 2 ^ w -> uwrap w x = x.
Proof. intros; unfold uwrap; apply Z.mod_small; assumption. Qed.

Lemma uwrap_range w x : 0 < w -> 0 <= uwrap w x < 2 ^ w.
Proof. intros; unfold uwrap; apply Z.mod_pos_bound; apply Z.pow_pos_nonneg; lia. Qed.
