(** Bytes are Z in 0..255; byte strings are lists.  Big-endian words, checked reads. *)
From Coq Require Import ZArith List Lia.
Import ListNotations.
Local Open Scope Z_scope.

Definition bytes := list Z.

Definition isbyte (b : Z) : Prop := 0 <= b < 256.
Definition wf_bytes (l : bytes) : Prop := Forall isbyte l.

Definition len (l : bytes) : Z := Z.of_nat (length l).

(* checked read: None when out of range *)
Definition rd (l : bytes) (i : Z) : option Z :=
  if (i <? 0) then None else nth_error l (Z.to_nat i).

Definition sub (l : bytes) (off n : Z) : bytes := firstn (Z.to_nat n) (skipn (Z.to_nat off) l).

Definition be16 (hi lo : Z) : Z := hi * 256 + lo.
Definition setw (v : Z) : bytes := [(v / 256) mod 256; v mod 256].
Definition be32_bytes (v : Z) : bytes := [(v / 16777216) mod 256; (v / 65536) mod 256; (v / 256) mod 256; v mod 256].
Definition be32_of (b0 b1 b2 b3 : Z) : Z := ((b0 * 256 + b1) * 256 + b2) * 256 + b3.

Definition getw (l : bytes) (off : Z) : option Z :=
  match rd l off, rd l (off + 1) with
  | Some a, Some b => Some (be16 a b)
  | _, _ => None
  end.

(* overwrite [n = length v] bytes at offset [off]; the caller guarantees the range *)
Definition wr (l : bytes) (off : Z) (v : bytes) : bytes :=
  firstn (Z.to_nat off) l ++ v ++ skipn (Z.to_nat off + length v) l.

Fixpoint zeros (n : nat) : bytes := match n with O => [] | S k => 0 :: zeros k end.

Fixpoint bytes_eqb (a b : bytes) : bool :=
  match a, b with
  | [], [] => true
  | x :: a', y :: b' => (x =? y) && bytes_eqb a' b'
  | _, _ => false
  end.
