(** A small weakest-precondition calculus for the state monad of [PtcpModel] (partial correctness:
    a [Fault] satisfies every post-condition; faults are the business of C10), used by the C09 proofs.
    Only lemmas and tactics; nothing of the model is changed or re-defined. *)
From Coq Require Import ZArith List Lia Bool.
From RecordUpdate Require Import RecordSet.
From Nice Require Import Base.Bytes Ptcp.PtcpModel.
Import ListNotations.
Import RecordSetNotations.
Local Open Scope Z_scope.
Local Open Scope bool_scope.

Definition wp {A} (m : M A) (s : sock) (ev : list event) (Q : A -> sock -> list event -> Prop) : Prop :=
  match m s ev with Ok (a, s', ev') => Q a s' ev' | Fault => True end.

Section Rules.
Context {A B C : Type}.
Implicit Types (Q : B -> sock -> list event -> Prop) (s : sock) (ev : list event).

Lemma wp_intro (m : M A) s ev (Q : A -> sock -> list event -> Prop) :
  (forall a s' ev', m s ev = Ok (a, s', ev') -> Q a s' ev') -> wp m s ev Q.
Proof. unfold wp. destruct (m s ev) as [[[a s'] ev']|]; auto. Qed.

Lemma wp_elim (m : M A) s ev (Q : A -> sock -> list event -> Prop) a s' ev' :
  wp m s ev Q -> m s ev = Ok (a, s', ev') -> Q a s' ev'.
Proof. unfold wp. intros H E. rewrite E in H. exact H. Qed.

Lemma wp_conseq (m : M A) s ev (Q Q' : A -> sock -> list event -> Prop) :
  wp m s ev Q -> (forall a s' ev', Q a s' ev' -> Q' a s' ev') -> wp m s ev Q'.
Proof. unfold wp. destruct (m s ev) as [[[a s'] ev']|]; auto. Qed.

Lemma wp_and (m : M A) s ev (Q Q' : A -> sock -> list event -> Prop) :
  wp m s ev Q -> wp m s ev Q' -> wp m s ev (fun a s' ev' => Q a s' ev' /\ Q' a s' ev').
Proof. unfold wp. destruct (m s ev) as [[[a s'] ev']|]; auto. Qed.

Lemma wp_bind (m : M A) (f : A -> M B) s ev Q :
  wp m s ev (fun a s' ev' => wp (f a) s' ev' Q) -> wp (bind m f) s ev Q.
Proof. unfold wp, bind. destruct (m s ev) as [[[a s'] ev']|]; auto. Qed.

Lemma wp_bind_rev (m : M A) (f : A -> M B) s ev Q :
  wp (bind m f) s ev Q -> wp m s ev (fun a s' ev' => wp (f a) s' ev' Q).
Proof. unfold wp, bind. destruct (m s ev) as [[[a s'] ev']|]; auto. Qed.

(* cut: run [m] against an intermediate assertion, continue from an arbitrary state satisfying it *)
Lemma wp_bind_cut (R : A -> sock -> list event -> Prop) (m : M A) (f : A -> M B) s ev Q :
  wp m s ev R -> (forall a s' ev', R a s' ev' -> wp (f a) s' ev' Q) -> wp (bind m f) s ev Q.
Proof. intros H1 H2. apply wp_bind. eapply wp_conseq; [exact H1|]. exact H2. Qed.

Lemma wp_bind_assoc (m : M A) (f : A -> M B) (g : B -> M C) s ev (Q : C -> sock -> list event -> Prop) :
  wp (bind m (fun a => bind (f a) g)) s ev Q -> wp (bind (bind m f) g) s ev Q.
Proof. unfold wp, bind. destruct (m s ev) as [[[a s'] ev']|]; auto. Qed.

Lemma wp_ret (a : A) s ev (Q : A -> sock -> list event -> Prop) : Q a s ev -> wp (ret a) s ev Q.
Proof. exact (fun H => H). Qed.
Lemma wp_fault s ev (Q : A -> sock -> list event -> Prop) : wp (@fault A) s ev Q.
Proof. exact I. Qed.
Lemma wp_bind_ret (a : A) (f : A -> M B) s ev Q : wp (f a) s ev Q -> wp (bind (ret a) f) s ev Q.
Proof. exact (fun H => H). Qed.
Lemma wp_bind_fault (f : A -> M B) s ev Q : wp (bind (@fault A) f) s ev Q.
Proof. exact I. Qed.

Lemma wp_get s ev (Q : sock -> sock -> list event -> Prop) : Q s s ev -> wp get s ev Q.
Proof. exact (fun H => H). Qed.
Lemma wp_put x s ev (Q : unit -> sock -> list event -> Prop) : Q tt x ev -> wp (put x) s ev Q.
Proof. exact (fun H => H). Qed.
Lemma wp_upd g s ev (Q : unit -> sock -> list event -> Prop) : Q tt (g s) ev -> wp (upd g) s ev Q.
Proof. exact (fun H => H). Qed.
Lemma wp_emit e s ev (Q : unit -> sock -> list event -> Prop) : Q tt s (ev ++ [e]) -> wp (emit e) s ev Q.
Proof. exact (fun H => H). Qed.
Lemma wp_assert b s ev (Q : unit -> sock -> list event -> Prop) : (b = true -> Q tt s ev) -> wp (assert b) s ev Q.
Proof. destruct b; intros H; [apply H; reflexivity|exact I]. Qed.
Lemma wp_when b m s ev (Q : unit -> sock -> list event -> Prop) :
  (b = true -> wp m s ev Q) -> (b = false -> Q tt s ev) -> wp (when b m) s ev Q.
Proof. destruct b; intros H1 H2; [apply H1|apply H2]; reflexivity. Qed.

Lemma wp_bind_get (f : sock -> M B) s ev Q : wp (f s) s ev Q -> wp (bind get f) s ev Q.
Proof. exact (fun H => H). Qed.
Lemma wp_bind_put x (f : unit -> M B) s ev Q : wp (f tt) x ev Q -> wp (bind (put x) f) s ev Q.
Proof. exact (fun H => H). Qed.
Lemma wp_bind_upd g (f : unit -> M B) s ev Q : wp (f tt) (g s) ev Q -> wp (bind (upd g) f) s ev Q.
Proof. exact (fun H => H). Qed.
Lemma wp_bind_emit e (f : unit -> M B) s ev Q : wp (f tt) s (ev ++ [e]) Q -> wp (bind (emit e) f) s ev Q.
Proof. exact (fun H => H). Qed.
Lemma wp_bind_assert b (f : unit -> M B) s ev Q : (b = true -> wp (f tt) s ev Q) -> wp (bind (assert b) f) s ev Q.
Proof. destruct b; intros H; [apply H; reflexivity|exact I]. Qed.
Lemma wp_bind_when b m (f : unit -> M B) s ev Q :
  (b = true -> wp (bind m f) s ev Q) -> (b = false -> wp (f tt) s ev Q) -> wp (bind (when b m) f) s ev Q.
Proof. destruct b; intros H1 H2; [apply H1|apply H2]; reflexivity. Qed.
End Rules.

(** one symbolic-execution step on primitive heads; [if]s, [match]es and calls are left to the caller *)
Ltac wp_prim :=
  lazymatch goal with
  | |- wp (bind (bind _ _) _) _ _ _ => apply wp_bind_assoc
  | |- wp (bind (ret _) _) _ _ _ => apply wp_bind_ret
  | |- wp (bind get _) _ _ _ => apply wp_bind_get
  | |- wp (bind (put _) _) _ _ _ => apply wp_bind_put
  | |- wp (bind (upd _) _) _ _ _ => apply wp_bind_upd
  | |- wp (bind (emit _) _) _ _ _ => apply wp_bind_emit
  | |- wp (bind fault _) _ _ _ => apply wp_bind_fault
  | |- wp (bind (assert _) _) _ _ _ => apply wp_bind_assert; intro
  | |- wp (ret _) _ _ _ => apply wp_ret
  | |- wp get _ _ _ => apply wp_get
  | |- wp (put _) _ _ _ => apply wp_put
  | |- wp (upd _) _ _ _ => apply wp_upd
  | |- wp (emit _) _ _ _ => apply wp_emit
  | |- wp fault _ _ _ => apply wp_fault
  | |- wp (assert _) _ _ _ => apply wp_assert; intro
  end; cbv beta.

(** ---- invariants: predicates on the socket preserved by a computation ---- *)
Definition pres {A} (I : sock -> Prop) (m : M A) : Prop :=
  forall s ev, I s -> wp m s ev (fun _ s' _ => I s').

Lemma pres_elim {A} (I : sock -> Prop) (m : M A) s ev a s' ev' :
  pres I m -> I s -> m s ev = Ok (a, s', ev') -> I s'.
Proof. intros H Hi E. exact (wp_elim _ _ _ _ _ _ _ (H s ev Hi) E). Qed.

Lemma pres_wp {A} (I : sock -> Prop) (m : M A) s ev : pres I m -> I s -> wp m s ev (fun _ s' _ => I s').
Proof. intros H Hi. exact (H s ev Hi). Qed.

Lemma wp_bind_pres {A B} (I : sock -> Prop) (m : M A) (f : A -> M B) s ev :
  wp m s ev (fun _ s' _ => I s') -> (forall a s' ev', I s' -> wp (f a) s' ev' (fun _ s'' _ => I s'')) ->
  wp (bind m f) s ev (fun _ s'' _ => I s'').
Proof. intros H1 H2. eapply wp_bind_cut; [exact H1|]. intros a s' ev' Hi. apply H2. exact Hi. Qed.

(** invariant-mode symbolic execution.  [Inv] the invariant, [solveI] closes goals [Inv (s <| .. |>)];
    calls are discharged from the hint database [c09_pres] (lemmas [pres Inv (f args)]). *)
Create HintDb c09_pres.
Ltac wp_inv_step Inv solveI :=
  lazymatch goal with
  | |- wp (bind (when _ _) _) _ _ _ => apply wp_bind_when; intro
  | |- wp (when _ _) _ _ _ => apply wp_when; intro
  | |- wp (if ?b then _ else _) _ _ _ => destruct b eqn:?
  | |- wp (match ?x with _ => _ end) _ _ _ => destruct x eqn:?
  | |- wp (bind _ _) _ _ _ => first [ wp_prim | eapply (wp_bind_pres Inv); [ | intros ] ]
  | |- wp _ _ _ _ => first [ wp_prim | apply pres_wp; [ solve [ auto with c09_pres ] | ] ]
  | |- Inv _ => solveI
  | |- _ = _ -> _ => intro
  end; cbv beta match zeta.
Ltac wp_inv Inv solveI := repeat (wp_inv_step Inv solveI).

(* events only grow *)
Definition extends (ev ev' : list event) : Prop := exists l, ev' = ev ++ l.
Lemma extends_refl ev : extends ev ev. Proof. exists []. symmetry. apply app_nil_r. Qed.
Lemma extends_trans a b c : extends a b -> extends b c -> extends a c.
Proof. intros [l1 H1] [l2 H2]. exists (l1 ++ l2). subst. rewrite app_assoc. reflexivity. Qed.
Lemma extends_snoc ev e : extends ev (ev ++ [e]). Proof. exists [e]. reflexivity. Qed.
Lemma extends_in ev ev' e : extends ev ev' -> In e ev -> In e ev'.
Proof. intros [l H] Hi. subst. apply in_or_app. left. exact Hi. Qed.

(** ---- invariants that also speak about the emitted events ---- *)
Definition presE {A} (J : sock -> list event -> Prop) (m : M A) : Prop :=
  forall s ev, J s ev -> wp m s ev (fun _ s' ev' => J s' ev').
Lemma presE_wp {A} (J : sock -> list event -> Prop) (m : M A) s ev :
  presE J m -> J s ev -> wp m s ev (fun _ s' ev' => J s' ev').
Proof. intros H Hi. exact (H s ev Hi). Qed.
Lemma wp_bind_presE {A B} (J : sock -> list event -> Prop) (m : M A) (f : A -> M B) s ev :
  wp m s ev (fun _ s' ev' => J s' ev') -> (forall a s' ev', J s' ev' -> wp (f a) s' ev' (fun _ s'' ev'' => J s'' ev'')) ->
  wp (bind m f) s ev (fun _ s'' ev'' => J s'' ev'').
Proof. intros H1 H2. eapply wp_bind_cut; [exact H1|]. intros a s' ev' Hi. apply H2. exact Hi. Qed.

Create HintDb c09_presE.
Ltac wp_invE_step Inv solveI :=
  lazymatch goal with
  | |- wp (bind (when _ _) _) _ _ _ => apply wp_bind_when; intro
  | |- wp (when _ _) _ _ _ => apply wp_when; intro
  | |- wp (if ?b then _ else _) _ _ _ => destruct b eqn:?
  | |- wp (match ?x with _ => _ end) _ _ _ => destruct x eqn:?
  | |- wp (bind _ _) _ _ _ => first [ wp_prim | eapply (wp_bind_presE Inv); [ | intros ] ]
  | |- wp _ _ _ _ => first [ wp_prim | apply presE_wp; [ solve [ auto with c09_presE ] | ] ]
  | |- Inv _ _ => solveI
  | |- _ = _ -> _ => intro
  end; cbv beta match zeta.
Ltac wp_invE Inv solveI := repeat (wp_invE_step Inv solveI).

(* plain symbolic execution: primitives, [when], and case splits on [if] / [match] in head position *)
Ltac wp_split :=
  lazymatch goal with
  | |- wp (bind (when _ _) _) _ _ _ => apply wp_bind_when; intro
  | |- wp (when _ _) _ _ _ => apply wp_when; intro
  | |- wp (if ?b then _ else _) _ _ _ => destruct b eqn:?
  | |- wp (match ?x with _ => _ end) _ _ _ => destruct x eqn:?
  | |- wp (bind (if ?b then _ else _) _) _ _ _ => destruct b eqn:?
  | |- wp (bind (match ?x with _ => _ end) _) _ _ _ => destruct x eqn:?
  | |- wp _ _ _ _ => wp_prim
  end; cbv beta match zeta.
