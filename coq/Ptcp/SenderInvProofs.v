(** C08, sender honesty: over ALL sequences of socket operations, every data packet the socket emits carries exactly the bytes the
    application wrote, at the sequence position of those bytes (first transmissions, retransmissions, MTU-driven re-segmentations).
    The model (PtcpModel.v) is untouched; this file only states and proves an invariant about it. *)
From Coq Require Import ZArith List Bool Lia.
From RecordUpdate Require Import RecordSet.
From Nice Require Import Base.Bytes Ptcp.PtcpModel Ptcp.PtcpProofs Ptcp.PtcpHoare.
Import ListNotations.
Import RecordSetNotations.
Local Open Scope Z_scope.
Local Open Scope bool_scope.

(** the no-wrap bound: sequence arithmetic of the code is modulo 2^32 and its comparisons are serial-number comparisons (valid below 2^31) *)
Definition NW : Z := 2147483648.

(** ---- packets as the peer parses them ---- *)
Definition pkt_seq (p : bytes) : Z := be32_of (nth 4 p 0) (nth 5 p 0) (nth 6 p 0) (nth 7 p 0).
Definition pkt_flags (p : bytes) : Z := nth 13 p 0.
Definition pkt_ctl (p : bytes) : bool := has_flag (pkt_flags p) FLAG_CTL.

Definition flag_ok (f : Z) : Prop := f = 0 \/ f = FLAG_FIN \/ f = FLAG_CTL \/ f = FLAG_RST.

(** ---- the segment list tiles the queued stream ---- *)
(* [cl] = number of control bytes (the connect message) at the head of the queued stream *)
Definition seg_ok (cl pos : Z) (g : sseg) : Prop :=
  ss_seq g = pos /\ 0 <= ss_len g /\ flag_ok (ss_flags g) /\
  (ss_flags g = FLAG_CTL -> pos + ss_len g <= cl) /\ (ss_flags g <> FLAG_CTL -> 0 < ss_len g -> cl <= pos).

Fixpoint tiles (cl pos : Z) (l : list sseg) (endp : Z) : Prop :=
  match l with
  | [] => pos = endp
  | g :: r => seg_ok cl pos g /\ tiles cl (pos + ss_len g) r endp
  end.

Lemma tiles_app cl l1 : forall pos l2 e, tiles cl pos (l1 ++ l2) e <-> exists m, tiles cl pos l1 m /\ tiles cl m l2 e.
Proof.
  induction l1 as [|g l1 IH]; intros pos l2 e; cbn [app tiles].
  - split; [intros H; exists pos; auto|intros (m & -> & H); exact H].
  - rewrite IH. split.
    + intros (Hg & m & H1 & H2). exists m. auto.
    + intros (m & (Hg & H1) & H2). split; [exact Hg|]. exists m; auto.
Qed.

Lemma tiles_le cl l : forall pos e, tiles cl pos l e -> pos <= e.
Proof.
  induction l as [|g l IH]; intros pos e; cbn [tiles]; [lia|]. intros ((_ & Hl & _) & H). apply IH in H. lia.
Qed.

Lemma tiles_all_zero cl l : forall e, tiles cl e l e -> Forall (fun g => ss_len g = 0) l.
Proof.
  induction l as [|g l IH]; intros e; cbn [tiles]; [constructor|]. intros (Hg & H).
  pose proof (tiles_le _ _ _ _ H). destruct Hg as (_ & Hl & _). assert (Z : ss_len g = 0) by lia.
  constructor; [exact Z|]. rewrite Z in H. replace (e + 0) with e in H by lia. eapply IH; exact H.
Qed.

(* list surgery used by the model *)
Lemma set_nth_seg_app l1 g l2 x : set_nth_seg (l1 ++ g :: l2) (length l1) x = l1 ++ x :: l2.
Proof. induction l1 as [|y l1 IH]; cbn; [reflexivity|]. f_equal. exact IH. Qed.
Lemma insert_after_app l1 g l2 x : insert_after (l1 ++ g :: l2) (length l1) x = l1 ++ g :: x :: l2.
Proof. induction l1 as [|y l1 IH]; cbn; [reflexivity|]. f_equal. exact IH. Qed.

Lemma nth_error_split_seg (l : list sseg) i g : nth_error l i = Some g -> exists l1 l2, l = l1 ++ g :: l2 /\ length l1 = i.
Proof. apply nth_error_split. Qed.

Lemma last_seg_split l t : last_seg l = Some t -> l = removelast l ++ [t].
Proof.
  unfold last_seg. destruct (rev l) as [|x r] eqn:E; [discriminate|]. intros H; injection H as ->.
  assert (L : l = rev r ++ [t]) by (rewrite <- (rev_involutive l), E; reflexivity).
  rewrite L at 1. rewrite L. rewrite removelast_last. reflexivity.
Qed.
Lemma last_seg_none l : last_seg l = None -> l = [].
Proof.
  unfold last_seg. destruct (rev l) as [|x r] eqn:E; [|discriminate]. intros _.
  rewrite <- (rev_involutive l), E. reflexivity.
Qed.

(* splitting a segment at any point inside it keeps the tiling *)
Lemma seg_ok_split cl pos g k x :
  seg_ok cl pos g -> 0 <= k <= ss_len g -> ss_len g < M32 -> 0 <= pos -> pos + ss_len g < M32 ->
  seg_ok cl pos (g <| ss_len := k |>) /\
  seg_ok cl (pos + k) {| ss_seq := w32 (ss_seq g + k); ss_len := w32 (ss_len g - k); ss_xmit := x; ss_flags := ss_flags g |}.
Proof.
  intros (Hs & Hl & Hf & Hc & Hd) Hk Hb Hp Hpb. unfold seg_ok; cbn [ss_seq ss_len ss_flags set].
  assert (W1 : w32 (ss_seq g + k) = pos + k) by (unfold w32, M32 in *; rewrite Hs; apply Z.mod_small; lia).
  assert (W2 : w32 (ss_len g - k) = ss_len g - k) by (unfold w32, M32 in *; apply Z.mod_small; lia).
  rewrite W1, W2. repeat split; try assumption; try lia.
Qed.

Lemma seg_ok_xmit cl pos g x : seg_ok cl pos g -> seg_ok cl pos (g <| ss_xmit := x |>).
Proof. intros H. exact H. Qed.

(** ---- what the sender-side invariant looks at, and calls that leave it alone ---- *)
Definition st_ok (o n : tstate) : Prop := (has_sent_fin o = true -> has_sent_fin n = true) /\ (n = LISTEN -> o = LISTEN).
Definition same_snd (s s' : sock) : Prop :=
  slist s' = slist s /\ snd_una s' = snd_una s /\ sbuf s' = sbuf s /\ sbuf_n s' = sbuf_n s /\ (0 <= mss s -> 0 <= mss s') /\
  st_ok (state s) (state s').
Definition nopkt (ev ev' : list event) : Prop := forall p, In (EvPacket p) ev' -> In (EvPacket p) ev.
Definition fr (s : sock) (ev : list event) (s' : sock) (ev' : list event) : Prop := same_snd s s' /\ nopkt ev ev'.

Lemma st_ok_refl o : st_ok o o. Proof. split; auto. Qed.
Lemma st_ok_trans a b c : st_ok a b -> st_ok b c -> st_ok a c. Proof. unfold st_ok. intuition. Qed.
Lemma same_snd_refl s : same_snd s s. Proof. unfold same_snd. repeat split; auto. Qed.
Lemma same_snd_trans a b c : same_snd a b -> same_snd b c -> same_snd a c.
Proof.
  unfold same_snd. intros (A1 & A2 & A3 & A4 & A5 & A6) (B1 & B2 & B3 & B4 & B5 & B6).
  repeat split; try congruence; try (intros; apply B5, A5; assumption); try (apply (st_ok_trans _ _ _ A6 B6)); auto.
Qed.
Lemma nopkt_refl ev : nopkt ev ev. Proof. intros p H; exact H. Qed.
Lemma nopkt_trans a b c : nopkt a b -> nopkt b c -> nopkt a c. Proof. unfold nopkt. auto. Qed.
Lemma nopkt_app ev e : (forall p, e <> EvPacket p) -> nopkt ev (ev ++ [e]).
Proof. intros H p Hin. apply in_app_or in Hin. destruct Hin as [Hin|[Hin|[]]]; [exact Hin|]. exfalso. eapply H; eauto. Qed.
Lemma fr_refl s ev : fr s ev s ev. Proof. split; [apply same_snd_refl|apply nopkt_refl]. Qed.
Lemma fr_trans s ev s1 ev1 s2 ev2 : fr s ev s1 ev1 -> fr s1 ev1 s2 ev2 -> fr s ev s2 ev2.
Proof. intros (A & B) (C & D). split; [eapply same_snd_trans; eauto|eapply nopkt_trans; eauto]. Qed.

Definition frames {A} (m : M A) : Prop := forall s ev, wp m s ev (fun _ s' ev' => fr s ev s' ev').

Lemma wp_bind_fr {A B} (m : M A) (f : A -> M B) s ev Q :
  frames m -> (forall a s1 ev1, fr s ev s1 ev1 -> wp (f a) s1 ev1 Q) -> wp (bind m f) s ev Q.
Proof. intros Hm Hf. eapply wp_bind_spec; [apply Hm|exact Hf]. Qed.

Ltac nopkt_triv :=
  first [ apply nopkt_refl
        | apply nopkt_app; intros ? ?; discriminate ].
Ltac same_triv :=
  unfold same_snd; cbn;
  repeat split; try reflexivity; try (intros; assumption); try apply st_ok_refl; try discriminate; auto.
Ltac fr_triv := split; [same_triv|nopkt_triv].
Ltac fr_chain :=
  repeat match goal with H : fr ?a ?b ?c ?d |- fr ?a ?b _ _ => eapply fr_trans; [exact H|]; clear H end;
  try apply fr_refl; try fr_triv.

(* set_state towards anything but LISTEN / SYN_SENT *)
Lemma transition_st_ok o n : transition_ok o n = true -> n <> LISTEN -> n <> SYN_SENT -> st_ok o n.
Proof. intros H H1 H2. destruct o, n; try discriminate H; try congruence; split; cbn; intros; try reflexivity; try discriminate; auto. Qed.

Lemma set_state_frames n : n <> LISTEN -> n <> SYN_SENT -> frames (set_state n).
Proof.
  intros H1 H2 s ev. unfold set_state. wp_prims. destruct (st_eqb (state s) n) eqn:E.
  - wp_prims. apply fr_refl.
  - wp_prims. split; [|nopkt_triv]. unfold same_snd; cbn. repeat split; auto.
    + apply transition_st_ok; auto.
    + intros ->. contradiction.
Qed.

Lemma adjustMTU_frames : frames adjustMTU.
Proof.
  intros s ev. unfold adjustMTU. wp_prims. split; [|nopkt_triv]. unfold same_snd; cbn.
  repeat split; try reflexivity; try apply st_ok_refl. intros _. unfold w32, M32. apply Z.mod_pos_bound. lia.
Qed.
