(** C08, sender honesty: over ALL sequences of socket operations, every data packet the socket emits carries exactly the bytes the
    application wrote, at the sequence position of those bytes (first transmissions, retransmissions, MTU-driven re-segmentations).
    The model (PtcpModel.v) is untouched; this file only states and proves an invariant about it. *)
From Coq Require Import ZArith List Bool Lia ZifyBool.
From RecordUpdate Require Import RecordSet.
From Nice Require Import Base.Bytes Ptcp.PtcpModel Ptcp.PtcpProofs Ptcp.PtcpHoare Ptcp.SockOps.
Import ListNotations.
Import RecordSetNotations.
Local Open Scope Z_scope.
Local Open Scope bool_scope.

(** the no-wrap bound: sequence arithmetic of the code is modulo 2^32 and its comparisons are serial-number comparisons (valid below 2^31) *)
Definition NW : Z := 2147483648.

(** ---- packets as the peer parses them ---- *)
Definition pkt_seq (p : bytes) : Z := be32_of (nth 4 p 0) (nth 5 p 0) (nth 6 p 0) (nth 7 p 0).
Definition pkt_flags (p : bytes) : Z := nth 13 p 0.
Definition pkt_ctl (p : bytes) : bool := has_flag (pkt_flags p) FLAG_CTL.

Definition flag_ok (f : Z) : Prop := f = 0 \/ f = FLAG_FIN \/ f = FLAG_CTL \/ f = FLAG_RST.

(** ---- the segment list tiles the queued stream ---- *)
(* [cl] = number of control bytes (the connect message) at the head of the queued stream *)
Definition seg_ok (cl pos : Z) (g : sseg) : Prop :=
  ss_seq g = pos /\ 0 <= ss_len g /\ flag_ok (ss_flags g) /\
  (ss_flags g = FLAG_CTL -> pos + ss_len g <= cl) /\ (ss_flags g <> FLAG_CTL -> 0 < ss_len g -> cl <= pos).

Fixpoint tiles (cl pos : Z) (l : list sseg) (endp : Z) : Prop :=
  match l with
  | [] => pos = endp
  | g :: r => seg_ok cl pos g /\ tiles cl (pos + ss_len g) r endp
  end.

Lemma tiles_app cl l1 : forall pos l2 e, tiles cl pos (l1 ++ l2) e <-> exists m, tiles cl pos l1 m /\ tiles cl m l2 e.
Proof.
  induction l1 as [|g l1 IH]; intros pos l2 e; cbn [app tiles].
  - split; [intros H; exists pos; auto|intros (m & -> & H); exact H].
  - rewrite IH. split.
    + intros (Hg & m & H1 & H2). exists m. auto.
    + intros (m & (Hg & H1) & H2). split; [exact Hg|]. exists m; auto.
Qed.

Lemma tiles_le cl l : forall pos e, tiles cl pos l e -> pos <= e.
Proof.
  induction l as [|g l IH]; intros pos e; cbn [tiles]; [lia|]. intros ((_ & Hl & _) & H). apply IH in H. lia.
Qed.

Lemma tiles_all_zero cl l : forall e, tiles cl e l e -> Forall (fun g => ss_len g = 0) l.
Proof.
  induction l as [|g l IH]; intros e; cbn [tiles]; [constructor|]. intros (Hg & H).
  pose proof (tiles_le _ _ _ _ H). destruct Hg as (_ & Hl & _). assert (Z : ss_len g = 0) by lia.
  constructor; [exact Z|]. rewrite Z in H. replace (e + 0) with e in H by lia. eapply IH; exact H.
Qed.

(* list surgery used by the model *)
Lemma set_nth_seg_app l1 g l2 x : set_nth_seg (l1 ++ g :: l2) (length l1) x = l1 ++ x :: l2.
Proof. induction l1 as [|y l1 IH]; cbn; [reflexivity|]. f_equal. exact IH. Qed.
Lemma insert_after_app l1 g l2 x : insert_after (l1 ++ g :: l2) (length l1) x = l1 ++ g :: x :: l2.
Proof. induction l1 as [|y l1 IH]; cbn; [reflexivity|]. f_equal. exact IH. Qed.

Lemma nth_error_split_seg (l : list sseg) i g : nth_error l i = Some g -> exists l1 l2, l = l1 ++ g :: l2 /\ length l1 = i.
Proof. apply nth_error_split. Qed.

Lemma last_seg_split l t : last_seg l = Some t -> l = removelast l ++ [t].
Proof.
  unfold last_seg. destruct (rev l) as [|x r] eqn:E; [discriminate|]. intros H; injection H as ->.
  assert (L : l = rev r ++ [t]) by (rewrite <- (rev_involutive l), E; reflexivity).
  rewrite L at 1. rewrite L. rewrite removelast_last. reflexivity.
Qed.
Lemma last_seg_none l : last_seg l = None -> l = [].
Proof.
  unfold last_seg. destruct (rev l) as [|x r] eqn:E; [|discriminate]. intros _.
  rewrite <- (rev_involutive l), E. reflexivity.
Qed.

(* splitting a segment at any point inside it keeps the tiling *)
Lemma seg_ok_split cl pos g k x :
  seg_ok cl pos g -> 0 <= k <= ss_len g -> ss_len g < M32 -> 0 <= pos -> pos + ss_len g < M32 ->
  seg_ok cl pos (g <| ss_len := k |>) /\
  seg_ok cl (pos + k) {| ss_seq := w32 (ss_seq g + k); ss_len := w32 (ss_len g - k); ss_xmit := x; ss_flags := ss_flags g |}.
Proof.
  intros (Hs & Hl & Hf & Hc & Hd) Hk Hb Hp Hpb. unfold seg_ok; cbn [ss_seq ss_len ss_flags set].
  assert (W1 : w32 (ss_seq g + k) = pos + k) by (unfold w32, M32 in *; rewrite Hs; apply Z.mod_small; lia).
  assert (W2 : w32 (ss_len g - k) = ss_len g - k) by (unfold w32, M32 in *; apply Z.mod_small; lia).
  rewrite W1, W2. repeat split; try assumption; try lia.
Qed.

Lemma seg_ok_xmit cl pos g x : seg_ok cl pos g -> seg_ok cl pos (g <| ss_xmit := x |>).
Proof. intros H. exact H. Qed.

(** ---- what the sender-side invariant looks at, and calls that leave it alone ---- *)
Definition st_ok (o n : tstate) : Prop := (has_sent_fin o = true -> has_sent_fin n = true) /\ (n = LISTEN -> o = LISTEN).
Definition same_snd (s s' : sock) : Prop :=
  slist s' = slist s /\ snd_una s' = snd_una s /\ sbuf s' = sbuf s /\ sbuf_n s' = sbuf_n s /\ (0 <= mss s -> 0 <= mss s') /\
  st_ok (state s) (state s').
Definition nopkt (ev ev' : list event) : Prop := forall p, In (EvPacket p) ev' -> In (EvPacket p) ev.
Definition fr (s : sock) (ev : list event) (s' : sock) (ev' : list event) : Prop := same_snd s s' /\ nopkt ev ev'.

Lemma st_ok_refl o : st_ok o o. Proof. split; auto. Qed.
Lemma st_ok_trans a b c : st_ok a b -> st_ok b c -> st_ok a c. Proof. unfold st_ok. intuition. Qed.
Lemma same_snd_refl s : same_snd s s. Proof. unfold same_snd. repeat split; auto. Qed.
Lemma same_snd_trans a b c : same_snd a b -> same_snd b c -> same_snd a c.
Proof.
  unfold same_snd. intros (A1 & A2 & A3 & A4 & A5 & A6) (B1 & B2 & B3 & B4 & B5 & B6).
  repeat split; try congruence; try (intros; apply B5, A5; assumption); try (apply (st_ok_trans _ _ _ A6 B6)); auto.
Qed.
Lemma nopkt_refl ev : nopkt ev ev. Proof. intros p H; exact H. Qed.
Lemma nopkt_trans a b c : nopkt a b -> nopkt b c -> nopkt a c. Proof. unfold nopkt. auto. Qed.
Lemma nopkt_app ev e : (forall p, e <> EvPacket p) -> nopkt ev (ev ++ [e]).
Proof. intros H p Hin. apply in_app_or in Hin. destruct Hin as [Hin|[Hin|[]]]; [exact Hin|]. exfalso. eapply H; eauto. Qed.
Lemma fr_refl s ev : fr s ev s ev. Proof. split; [apply same_snd_refl|apply nopkt_refl]. Qed.
Lemma fr_trans s ev s1 ev1 s2 ev2 : fr s ev s1 ev1 -> fr s1 ev1 s2 ev2 -> fr s ev s2 ev2.
Proof. intros (A & B) (C & D). split; [eapply same_snd_trans; eauto|eapply nopkt_trans; eauto]. Qed.

Definition frames {A} (m : M A) : Prop := forall s ev, wp m s ev (fun _ s' ev' => fr s ev s' ev').

Lemma wp_bind_fr {A B} (m : M A) (f : A -> M B) s ev Q :
  frames m -> (forall a s1 ev1, fr s ev s1 ev1 -> wp (f a) s1 ev1 Q) -> wp (bind m f) s ev Q.
Proof. intros Hm Hf. eapply wp_bind_spec; [apply Hm|exact Hf]. Qed.

Ltac nopkt_triv :=
  first [ apply nopkt_refl
        | apply nopkt_app; intros ? ?; discriminate ].
Ltac same_triv :=
  unfold same_snd; cbn;
  repeat split; try reflexivity; try (intros; assumption); try apply st_ok_refl; try discriminate; auto.
Ltac fr_triv := solve [split; [same_triv|nopkt_triv]].
Ltac fr_chain :=
  repeat match goal with H : fr ?a ?b ?c ?d |- fr ?a ?b _ _ => eapply fr_trans; [exact H|]; clear H end;
  first [ apply fr_refl | fr_triv | eapply fr_trans; [|eassumption]; fr_triv | idtac ].

(* set_state towards anything but LISTEN / SYN_SENT *)
Lemma transition_st_ok o n : transition_ok o n = true -> n <> LISTEN -> n <> SYN_SENT -> st_ok o n.
Proof. intros H H1 H2. destruct o, n; try discriminate H; try congruence; split; cbn; intros; try reflexivity; try discriminate; auto. Qed.

Lemma set_state_frames n : n <> LISTEN -> n <> SYN_SENT -> frames (set_state n).
Proof.
  intros H1 H2 s ev. unfold set_state. wp_prims. destruct (st_eqb (state s) n) eqn:E.
  - wp_prims. apply fr_refl.
  - wp_prims. split; [|nopkt_triv]. unfold same_snd; cbn. repeat split; auto.
    + apply transition_st_ok; auto.
    + intros ->. contradiction.
Qed.

Lemma adjustMTU_frames : frames adjustMTU.
Proof.
  intros s ev. unfold adjustMTU. wp_prims. split; [|nopkt_triv]. unfold same_snd; cbn.
  repeat split; try reflexivity; try apply st_ok_refl. intros _. unfold w32, M32. apply Z.mod_pos_bound. lia.
Qed.

Ltac fr_call L := eapply wp_bind_fr; [apply L; try discriminate|intros ? ? ? ?].
Ltac fr_last L := eapply wp_conseq; [apply L; try discriminate|cbv beta; intros ? ? ? ?; fr_chain].

Lemma set_state_established_frames : frames set_state_established.
Proof.
  intros s ev. unfold set_state_established.
  fr_call set_state_frames. fr_call adjustMTU_frames. wp_prims. fr_chain.
Qed.

Lemma set_state_closed_frames err : frames (set_state_closed err).
Proof.
  intros s ev. unfold set_state_closed. fr_call set_state_frames.
  apply wp_when; intros _; [wp_prims|]; fr_chain.
Qed.

Lemma closedown_states_frames : frames closedown_states.
Proof.
  intros s ev. unfold closedown_states. wp_prims.
  destruct (state s); wp_prims; try apply fr_refl;
  repeat (fr_call set_state_frames); fr_last set_state_frames.
Qed.

Lemma closedown_remote_frames err : frames (closedown_remote err).
Proof. intros s ev. unfold closedown_remote. fr_call closedown_states_frames. fr_last set_state_closed_frames. Qed.

Lemma resize_receive_buffer_frames n : frames (resize_receive_buffer n).
Proof.
  intros s ev. unfold resize_receive_buffer. wp_prims. destruct (rbuf_len s =? n); [wp_prims; apply fr_refl|].
  match goal with |- context [let '(sz, sf) := ?e in _] => destruct e as [sz sf] end.
  destruct (negb _); wp_prims; [apply fr_refl|fr_triv].
Qed.

Lemma apply_opts_frames fuel : forall d, frames (apply_opts fuel d).
Proof.
  induction fuel as [|f IH]; intros d s ev; cbn [apply_opts]; [wp_prims; apply fr_refl|].
  destruct d as [|kind d1]; [wp_prims; apply fr_refl|].
  destruct (kind =? 0); [wp_prims; apply fr_refl|]. destruct (kind =? 1); [apply IH|].
  destruct d1 as [|ol d2]; [wp_prims; apply fr_refl|]. destruct (len d2 <? ol); [wp_prims; apply fr_refl|].
  apply wp_bind_when; intros _; [wp_prims|]; (apply wp_bind_when; intros _; [wp_prims|]);
    (eapply wp_conseq; [apply IH|cbv beta; intros ? ? ? ?; fr_chain]).
Qed.

Lemma parse_options_frames d : frames (parse_options d).
Proof.
  intros s ev. unfold parse_options. fr_call apply_opts_frames.
  destruct (negb a); [wp_prims; fr_chain|].
  destruct (parse_opts _ _ _ _ _) as [[[hw hf] sc]|]; [|wp_prims; fr_chain].
  wp_prims.
  destruct (negb hw && (rwnd_scale s1 >? 0)).
  - apply wp_bind_assoc. fr_call resize_receive_buffer_frames. wp_prims.
    apply wp_when; intros _; [wp_prims|]; fr_chain.
  - wp_prims. apply wp_when; intros _; [wp_prims|]; fr_chain.
Qed.

Lemma recover_rlist_frames fuel : forall sf, frames (recover_rlist fuel sf).
Proof.
  induction fuel as [|f IH]; intros sf s ev; cbn [recover_rlist]; [wp_prims; apply fr_refl|].
  wp_prims. destruct (rlist s) as [|r rl]; [wp_prims; apply fr_refl|].
  destruct (SMALLER_OR_EQUAL _ _); [|wp_prims; apply fr_refl].
  destruct (LARGER _ _).
  - destruct (rb_commit _ _); [|apply wp_fault]. wp_prims.
    eapply wp_conseq; [apply IH|cbv beta; intros ? ? ? ?]. eapply fr_trans; [|eassumption]. fr_triv.
  - wp_prims. eapply wp_conseq; [apply IH|cbv beta; intros ? ? ? ?]. eapply fr_trans; [|eassumption]. fr_triv.
Qed.

(** ---- the invariant ---- *)
(* what a packet must look like: [C] = the control bytes (connect message) queued before the application's bytes [W] *)
Definition pkt_ok (C W : bytes) (p : bytes) : Prop :=
  pkt_payload p <> [] ->
  0 <= pkt_seq p /\ pkt_seq p + len (pkt_payload p) <= len (C ++ W) /\
  pkt_payload p = sub (C ++ W) (pkt_seq p) (len (pkt_payload p)) /\
  (if pkt_ctl p then pkt_seq p + len (pkt_payload p) <= len C else len C <= pkt_seq p).
Definition ev_ok (C W : bytes) (ev : list event) : Prop := forall p, In (EvPacket p) ev -> pkt_ok C W p.

Definition normal (C W : bytes) (una : Z) (sb : bytes) (l : list sseg) : Prop :=
  exists base, 0 <= base <= len (C ++ W) /\ sb = skipn (Z.to_nat base) (C ++ W) /\ w32 una = base /\
               tiles (len C) base l (len (C ++ W)).
(* after the peer acknowledged our FIN: nothing is buffered any more and nothing can be queued again *)
Definition drained (st : tstate) (sb : bytes) (l : list sseg) : Prop :=
  has_sent_fin st = true /\ sb = [] /\ Forall (fun g => ss_len g = 0) l.
Definition mode (C W : bytes) (s : sock) : Prop :=
  normal C W (snd_una s) (sbuf s) (slist s) \/ drained (state s) (sbuf s) (slist s).

Record sinv (C W : bytes) (s : sock) (ev : list event) : Prop := {
  si_nowrap : len C + len W < NW;
  si_cl : len C <= 7;
  si_n : sbuf_n s = len (sbuf s);
  si_mss : 0 <= mss s;
  si_mode : mode C W s;
  si_listen : state s = LISTEN -> C = [] /\ W = [];
  si_ev : ev_ok C W ev }.

Lemma ev_ok_nopkt C W ev ev' : ev_ok C W ev -> nopkt ev ev' -> ev_ok C W ev'.
Proof. unfold ev_ok, nopkt. auto. Qed.

Lemma sinv_frame C W s ev s' ev' : sinv C W s ev -> fr s ev s' ev' -> sinv C W s' ev'.
Proof.
  intros [H1 H2 H3 H4 H5 H6 H7] ((E1 & E2 & E3 & E4 & E5 & E6 & E7) & N).
  constructor; try assumption; try congruence; auto.
  - unfold mode in *. rewrite E1, E2, E3. destruct H5 as [H5|(D1 & D2 & D3)]; [left; exact H5|right]. split; [auto|split; assumption].
  - eapply ev_ok_nopkt; eauto.
Qed.

(** ---- tiling lemmas by position in the list ---- *)
Lemma tiles_nth cl l : forall pos e i g, tiles cl pos l e -> nth_error l i = Some g ->
  exists p, seg_ok cl p g /\ pos <= p /\ p + ss_len g <= e.
Proof.
  induction l as [|x l IH]; intros pos e i g H N; [destruct i; discriminate|].
  cbn [tiles] in H. destruct H as (Hx & H). destruct i as [|i]; cbn [nth_error] in N.
  - injection N as <-. exists pos. split; [exact Hx|]. apply tiles_le in H. destruct Hx as (_ & Hl & _). lia.
  - destruct (IH _ _ _ _ H N) as (p & Hp & Hle & Hfit). exists p. destruct Hx as (_ & Hl & _). split; [exact Hp|lia].
Qed.

Lemma tiles_set_nth cl l : forall pos e i g g', tiles cl pos l e -> nth_error l i = Some g ->
  ss_len g' = ss_len g -> (forall p, seg_ok cl p g -> seg_ok cl p g') -> tiles cl pos (set_nth_seg l i g') e.
Proof.
  induction l as [|x l IH]; intros pos e i g g' H N L S; [destruct i; discriminate|].
  cbn [tiles] in H. destruct H as (Hx & H). destruct i as [|i]; cbn [nth_error] in N; cbn [set_nth_seg tiles].
  - injection N as <-. split; [apply S; exact Hx|]. rewrite L. exact H.
  - split; [exact Hx|]. eapply IH; eauto.
Qed.

Lemma tiles_split cl l : forall pos e i g k x, tiles cl pos l e -> nth_error l i = Some g ->
  0 <= k <= ss_len g -> 0 <= pos -> e < M32 ->
  tiles cl pos (insert_after (set_nth_seg l i (g <| ss_len := k |>)) i
                  {| ss_seq := w32 (ss_seq g + k); ss_len := w32 (ss_len g - k); ss_xmit := x; ss_flags := ss_flags g |}) e.
Proof.
  induction l as [|y l IH]; intros pos e i g k x H N K P E; [destruct i; discriminate|].
  cbn [tiles] in H. destruct H as (Hy & H). destruct i as [|i]; cbn [nth_error] in N; cbn [set_nth_seg insert_after tiles].
  - injection N as <-. pose proof (tiles_le _ _ _ _ H) as Hle.
    assert (Hl : 0 <= ss_len y) by (destruct Hy as (_ & Hl & _); exact Hl).
    destruct (seg_ok_split cl pos y k x Hy K) as (S1 & S2); try lia.
    split; [exact S1|]. split; [exact S2|]. cbn [ss_len set].
    assert (W2 : w32 (ss_len y - k) = ss_len y - k) by (unfold w32, M32 in *; apply Z.mod_small; lia).
    rewrite W2. replace (pos + k + (ss_len y - k)) with (pos + ss_len y) by lia. exact H.
  - split; [exact Hy|]. apply IH; auto. destruct Hy as (_ & Hl & _). lia.
Qed.

Lemma nth_error_set_nth l : forall i (x g : sseg), nth_error l i = Some g -> nth_error (set_nth_seg l i x) i = Some x.
Proof. induction l as [|y l IH]; intros [|i] x g N; try discriminate; cbn; [reflexivity|]. eapply IH; eauto. Qed.
Lemma nth_error_insert_after l : forall i (x y : sseg), nth_error l i = Some x -> nth_error (insert_after l i y) i = Some x.
Proof. induction l as [|z l IH]; intros [|i] x y N; try discriminate; cbn in *; [exact N|]. apply IH; exact N. Qed.

Lemma Forall_set_nth (P : sseg -> Prop) l : forall i x, Forall P l -> P x -> Forall P (set_nth_seg l i x).
Proof. induction l as [|y l IH]; intros i x H Hx; [destruct i; constructor|]. inversion H; subst. destruct i; cbn; constructor; auto. Qed.
Lemma Forall_insert_after (P : sseg -> Prop) l : forall i x, Forall P l -> P x -> Forall P (insert_after l i x).
Proof.
  induction l as [|y l IH]; intros i x H Hx; [destruct i; repeat constructor; exact Hx|].
  inversion H; subst. destruct i; cbn; repeat constructor; auto.
Qed.
Lemma Forall_nth_error (P : sseg -> Prop) l i g : Forall P l -> nth_error l i = Some g -> P g.
Proof. intros H N. rewrite Forall_forall in H. apply H. eapply nth_error_In; eauto. Qed.

(** ---- big-endian words ---- *)
Lemma be32_roundtrip v : 0 <= v < M32 ->
  be32_of ((v / 16777216) mod 256) ((v / 65536) mod 256) ((v / 256) mod 256) (v mod 256) = v.
Proof. unfold be32_of, M32. intros H. lia. Qed.

(** ---- packet ---- *)
Definition emitted (s : sock) (seq flags offset ln : Z) (ev ev' : list event) : Prop :=
  ev' = ev \/ exists p, ev' = ev ++ [EvPacket p] /\ pkt_payload p = sub (sbuf s) offset ln /\ pkt_seq p = w32 seq /\
                        pkt_flags p = flags mod 256.

Lemma packet_spec seq flags offset ln now s ev :
  wp (packet seq flags offset ln now) s ev (fun _ s' ev' =>
    same_snd s s' /\ state s' = state s /\ mss s' = mss s /\ emitted s seq flags offset ln ev ev').
Proof.
  unfold packet. wp_prims. cbn [sbuf_n sbuf wr_limit set].
  destruct (24 + ln >? wr_limit s) eqn:E.
  - cbn [when]. wp_prims. destruct (ln =? 0); wp_prims; (split; [same_triv|]); cbn; repeat split; left; reflexivity.
  - cbn [when]. wp_prims. split; [destruct (ln >? 0); same_triv|].
    split; [destruct (ln >? 0); reflexivity|]. split; [destruct (ln >? 0); reflexivity|].
    right. eexists. split; [reflexivity|].
    unfold pkt_payload, pkt_seq, pkt_flags, be32b, be32_bytes, setw. cbn [app skipn nth].
    split; [reflexivity|]. split; [|reflexivity].
    apply be32_roundtrip. unfold w32, M32. apply Z.mod_pos_bound. lia.
Qed.

Lemma len_sub_exact (l : bytes) off n : 0 <= off -> 0 <= n -> off + n <= len l -> len (sub l off n) = n.
Proof. intros H1 H2 H3. unfold sub, len in *. rewrite firstn_length, skipn_length. lia. Qed.

Lemma skipn_skipn' {A} (l : list A) : forall a b, skipn a (skipn b l) = skipn (b + a) l.
Proof.
  induction l as [|x l IH]; intros a b; [rewrite !skipn_nil; reflexivity|].
  destruct b as [|b]; [reflexivity|]. cbn [skipn plus]. apply IH.
Qed.

Lemma sub_skipn (l : bytes) b off n : 0 <= b -> 0 <= off -> sub (skipn (Z.to_nat b) l) off n = sub l (b + off) n.
Proof. intros H1 H2. unfold sub. rewrite skipn_skipn'. f_equal. f_equal. lia. Qed.

Lemma sub_nil off n : sub [] off n = [].
Proof. unfold sub. rewrite skipn_nil. apply firstn_nil. Qed.

Lemma has_flag_ctl f : flag_ok f -> has_flag (f mod 256) FLAG_CTL = if f =? FLAG_CTL then true else false.
Proof. intros [ -> | [ -> | [ -> | -> ] ] ]; reflexivity. Qed.

(* a (re)transmission of [n] bytes of segment [g] in normal mode, or of anything once drained, is an acceptable packet *)
Lemma emitted_ok C W s ev ev' g p0 n :
  len C + len W < NW -> ev_ok C W ev ->
  (drained (state s) (sbuf s) (slist s) \/
   (exists base, 0 <= base <= len (C ++ W) /\ sbuf s = skipn (Z.to_nat base) (C ++ W) /\ w32 (snd_una s) = base /\
                 seg_ok (len C) p0 g /\ base <= p0 /\ p0 + ss_len g <= len (C ++ W) /\ 0 <= n <= ss_len g)) ->
  emitted s (ss_seq g) (ss_flags g) (w32 (ss_seq g - snd_una s)) n ev ev' -> ev_ok C W ev'.
Proof.
  intros NWr Hev Hm [->|(p & -> & Hpay & Hseq & Hfl)]; [exact Hev|].
  intros q Hin. apply in_app_or in Hin. destruct Hin as [Hin|[Hin|[]]]; [apply Hev; exact Hin|]. injection Hin as <-.
  intros Hne. destruct Hm as [(_ & Hsb & _)|(base & Hb & Hsb & Hu & Hg & Hbp & Hfit & Hn)].
  - rewrite Hsb, sub_nil in Hpay. contradiction.
  - destruct Hg as (Hs & Hl & Hf & Hc & Hd). rewrite len_app in *.
    assert (Hoff : w32 (ss_seq g - snd_una s) = p0 - base).
    { rewrite Hs. unfold w32, M32, NW in *. lia. }
    rewrite Hoff, Hsb, sub_skipn in Hpay by lia. replace (base + (p0 - base)) with p0 in Hpay by lia.
    assert (Hq : pkt_seq p = p0) by (rewrite Hseq, Hs; unfold w32, M32, NW in *; apply Z.mod_small; lia).
    assert (Hlen : len (pkt_payload p) = n) by (rewrite Hpay; apply len_sub_exact; rewrite ?len_app; lia).
    rewrite Hq, Hlen. split; [lia|]. split; [lia|]. split; [exact Hpay|].
    unfold pkt_ctl. rewrite Hfl, has_flag_ctl by exact Hf.
    assert (0 < n). { destruct (Z.eq_dec n 0) as [->|]; [|lia]. rewrite Hpay in Hne. unfold sub in Hne. cbn in Hne. contradiction. }
    destruct (ss_flags g =? FLAG_CTL) eqn:Ec.
    + assert (ss_flags g = FLAG_CTL) by lia. specialize (Hc H0). lia.
    + assert (ss_flags g <> FLAG_CTL) by lia. specialize (Hd H0). lia.
Qed.

Lemma sinv_same C W s ev s' ev' : sinv C W s ev -> same_snd s s' -> ev_ok C W ev' -> sinv C W s' ev'.
Proof.
  intros [H1 H2 H3 H4 H5 H6 H7] (E1 & E2 & E3 & E4 & E5 & E6 & E7) N.
  constructor; try assumption; try congruence; auto.
  - unfold mode in *. rewrite E1, E2, E3. destruct H5 as [H5|(D1 & D2 & D3)]; [left; exact H5|right]. split; [auto|split; assumption].
Qed.

(* the i-th segment may be (re)transmitted up to its length *)
Lemma sinv_emit C W s ev ev' i g n :
  sinv C W s ev -> nth_error (slist s) i = Some g -> 0 <= n <= ss_len g ->
  emitted s (ss_seq g) (ss_flags g) (w32 (ss_seq g - snd_una s)) n ev ev' -> ev_ok C W ev'.
Proof.
  intros HI N Hn He.
  destruct (si_mode _ _ _ _ HI) as [(base & Hb & Hsb & Hu & Ht)|D].
  - destruct (tiles_nth _ _ _ _ _ _ Ht N) as (p0 & Hg & Hle & Hfit).
    eapply (emitted_ok C W s ev ev' g p0 n); [apply HI|apply HI| |exact He]. right.
    exists base. split; [exact Hb|]. split; [exact Hsb|]. split; [exact Hu|]. split; [exact Hg|]. lia.
  - eapply (emitted_ok C W s ev ev' g 0 n); [apply HI|apply HI| |exact He]. left; exact D.
Qed.

Lemma shrink_mss_spec fuel : forall s nT, 0 <= mss s ->
  let '(s', o) := shrink_mss fuel s nT in
  same_snd s s' /\ state s' = state s /\ 0 <= mss s' /\ match o with Some m => 0 <= m < nT | None => True end.
Proof.
  induction fuel as [|f IH]; intros s nT Hm; cbn [shrink_mss].
  - split; [apply same_snd_refl|auto].
  - destruct (nthz PACKET_MAXIMUMS (msslevel s + 1) =? 0); [split; [apply same_snd_refl|auto]|].
    set (m := w32 (nthz PACKET_MAXIMUMS (msslevel s + 1) - PACKET_OVERHEAD)).
    assert (Hm0 : 0 <= m) by (unfold m, w32, M32; apply Z.mod_pos_bound; lia).
    set (s1 := s <| msslevel := msslevel s + 1 |> <| mss := m |> <| cwnd := w32 (2 * m) |>).
    assert (S1 : same_snd s s1) by (unfold s1; same_triv).
    destruct (m <? nT) eqn:E.
    + split; [exact S1|]. split; [reflexivity|]. split; [exact Hm0|lia].
    + specialize (IH s1 nT Hm0). destruct (shrink_mss f s1 nT) as [s' o]. destruct IH as (A & B & D & F).
      split; [eapply same_snd_trans; eauto|]. split; [rewrite B; reflexivity|]. split; assumption.
Qed.

Lemma transmit_loop_spec C W fuel : forall i nT now s ev g,
  sinv C W s ev -> nth_error (slist s) i = Some g -> 0 <= nT <= ss_len g ->
  wp (transmit_loop fuel i nT now) s ev (fun r s' ev' =>
    sinv C W s' ev' /\ same_snd s s' /\ state s' = state s /\ 0 <= snd r <= nT).
Proof.
  induction fuel as [|f IH]; intros i nT now s ev g HI N Hn; cbn [transmit_loop]; [apply wp_fault|].
  wp_prims. rewrite N. wp_prims.
  eapply wp_bind_spec; [apply packet_spec|]. cbv beta. intros w s1 ev1 (S1 & St1 & M1 & Em).
  assert (HI1 : sinv C W s1 ev1) by (eapply sinv_same; [exact HI|exact S1|eapply sinv_emit; eauto]).
  destruct w.
  - wp_prims. cbn [snd]. split; [exact HI1|]. split; [exact S1|]. split; [exact St1|lia].
  - wp_prims.
    pose proof (shrink_mss_spec 12 s1 nT (si_mss _ _ _ _ HI1)) as Hsh.
    destruct (shrink_mss 12 s1 nT) as [s2 o]. destruct Hsh as (S2 & St2 & M2 & Ho).
    assert (HI2 : sinv C W s2 ev1).
    { eapply sinv_same; [exact HI1|exact S2|apply HI1]. }
    assert (S12 : same_snd s s2) by (eapply same_snd_trans; eauto).
    destruct o as [m|].
    + wp_prims. eapply wp_conseq.
      * apply (IH i m now s2 ev1 g HI2). { destruct S12 as (E & _). rewrite E. exact N. } lia.
      * cbv beta. intros r s' ev' (A & B & D & F).
        split; [exact A|]. split; [eapply same_snd_trans; eauto|]. split; [congruence|lia].
    + wp_prims. cbn [snd]. split; [exact HI2|]. split; [exact S12|]. split; [congruence|lia].
  - wp_prims. cbn [snd]. split; [exact HI1|]. split; [exact S1|]. split; [exact St1|lia].
Qed.

(** ---- list surgery keeps the mode ---- *)
Definition mode_l (C W : bytes) (st : tstate) (una : Z) (sb : bytes) (l : list sseg) : Prop :=
  normal C W una sb l \/ drained st sb l.

Lemma mode_l_split C W st una sb l i g k x :
  len C + len W < NW -> mode_l C W st una sb l -> nth_error l i = Some g -> 0 <= k <= ss_len g ->
  mode_l C W st una sb (insert_after (set_nth_seg l i (g <| ss_len := k |>)) i
                          {| ss_seq := w32 (ss_seq g + k); ss_len := w32 (ss_len g - k); ss_xmit := x; ss_flags := ss_flags g |}).
Proof.
  intros NWr [(base & Hb & Hsb & Hu & Ht)|(D1 & D2 & D3)] N K.
  - left. exists base. repeat split; try assumption; try lia.
    apply tiles_split; auto; try lia. rewrite len_app. unfold NW, M32 in *. lia.
  - right. split; [exact D1|]. split; [exact D2|].
    pose proof (Forall_nth_error _ _ _ _ D3 N) as Hz. cbv beta in Hz.
    apply Forall_insert_after; [apply Forall_set_nth; [exact D3|cbn; lia]|].
    cbn [ss_len]. replace k with 0 by lia. rewrite Hz. reflexivity.
Qed.

Lemma mode_l_xmit C W st una sb l i g x :
  mode_l C W st una sb l -> nth_error l i = Some g ->
  mode_l C W st una sb (set_nth_seg l i (g <| ss_xmit := x |>)).
Proof.
  intros [(base & Hb & Hsb & Hu & Ht)|(D1 & D2 & D3)] N.
  - left. exists base. repeat split; try assumption; try lia.
    eapply tiles_set_nth; eauto.
  - right. split; [exact D1|]. split; [exact D2|].
    apply Forall_set_nth; [exact D3|]. cbn [ss_len set]. exact (Forall_nth_error _ _ _ _ D3 N).
Qed.

Lemma set_nth_nonnil l i (x : sseg) : l <> [] -> set_nth_seg l i x <> [].
Proof. destruct l; [congruence|]. destruct i; cbn; discriminate. Qed.
Lemma insert_after_nonnil l i (x : sseg) : insert_after l i x <> [].
Proof. destruct l; destruct i; cbn; discriminate. Qed.

(** ---- transmit ---- *)
Lemma transmit_spec C W i now s ev :
  sinv C W s ev -> wp (transmit i now) s ev (fun _ s' ev' => sinv C W s' ev' /\ state s' = state s).
Proof.
  intros HI. unfold transmit. wp_prims. destruct (nth_error (slist s) i) as [g|] eqn:N; [|apply wp_fault].
  destruct (ss_xmit g >=? _); [wp_prims; auto|].
  assert (Hg : 0 <= ss_len g).
  { destruct (si_mode _ _ _ _ HI) as [(base & _ & _ & _ & Ht)|(_ & _ & D)].
    - destruct (tiles_nth _ _ _ _ _ _ Ht N) as (p0 & (_ & Hl & _) & _). exact Hl.
    - pose proof (Forall_nth_error _ _ _ _ D N) as Hz. cbv beta in Hz. lia. }
  pose proof (si_mss _ _ _ _ HI) as Hmss.
  eapply wp_bind_spec; [apply (transmit_loop_spec C W 14 i _ now s ev g HI N); lia|].
  cbv beta. intros [status nT] s1 ev1 (HI1 & S1 & St1 & HnT). cbn [snd] in HnT.
  destruct (negb (status =? 0)); [wp_prims; auto|]. wp_prims.
  assert (N1 : nth_error (slist s1) i = Some g) by (destruct S1 as (E & _); rewrite E; exact N).
  set (sl := if nT <? ss_len g then insert_after (set_nth_seg (slist s1) i (g <| ss_len := nT |>)) i
         {| ss_seq := w32 (ss_seq g + nT); ss_len := w32 (ss_len g - nT); ss_xmit := ss_xmit g; ss_flags := ss_flags g |}
       else slist s1).
  set (g1 := if nT <? ss_len g then g <| ss_len := nT |> else g).
  match goal with |- wp (bind ?m _) _ _ _ => set (chk := m) end.
  assert (Hchk : forall Q : unit -> sock -> list event -> Prop, Q tt s1 ev1 -> wp chk s1 ev1 Q).
  { intros Q HQ. unfold chk. destruct (ss_xmit g1 =? 0); wp_prims; exact HQ. }
  eapply wp_bind_spec; [apply (Hchk (fun _ s' ev' => s' = s1 /\ ev' = ev1)); split; reflexivity|]. cbv beta. intros _ s2 ev2 (-> & ->).
  wp_prims. split; [|cbn; exact St1].
  assert (Hsl : mode_l C W (state s1) (snd_una s1) (sbuf s1) sl /\ nth_error sl i = Some g1).
  { unfold sl, g1. destruct (nT <? ss_len g) eqn:E.
    - split; [apply mode_l_split; auto; [apply HI1|apply HI1|lia]|].
      apply nth_error_insert_after. eapply nth_error_set_nth; eauto.
    - split; [apply HI1|exact N1]. }
  destruct Hsl as (Hm & Hn1).
  destruct HI1 as [H1 H2 H3 H4 H5 H6 H7]. constructor; cbn; try assumption.
  apply mode_l_xmit; assumption.
Qed.

(** ---- attempt_send ---- *)
Lemma sinv_ack C W s ev ev' seq fl off : sinv C W s ev -> emitted s seq fl off 0 ev ev' -> ev_ok C W ev'.
Proof.
  intros HI [->|(p & -> & Hpay & _)]; [apply HI|].
  intros q Hin. apply in_app_or in Hin. destruct Hin as [Hin|[Hin|[]]]; [apply HI; exact Hin|]. injection Hin as <-.
  intros Hne. exfalso. apply Hne. rewrite Hpay. unfold sub. reflexivity.
Qed.

Lemma ack_packet_spec C W seq now s ev :
  sinv C W s ev -> wp (packet seq 0 0 0 now) s ev (fun _ s' ev' => sinv C W s' ev' /\ state s' = state s).
Proof.
  intros HI. eapply wp_conseq; [apply packet_spec|]. cbv beta. intros w s1 ev1 (S1 & St1 & M1 & Em).
  split; [|exact St1]. eapply sinv_same; [exact HI|exact S1|eapply sinv_ack; eauto].
Qed.

Lemma attempt_send_loop_spec C W fuel : forall sflags now s ev,
  sinv C W s ev -> wp (attempt_send_loop fuel sflags now) s ev (fun _ s' ev' => sinv C W s' ev').
Proof.
  induction fuel as [|f IH]; intros sflags now s ev HI; cbn [attempt_send_loop]; [apply wp_fault|].
  wp_prims.
  destruct (sf_eqb sflags sfDuplicateAck).
  { eapply wp_bind_spec; [apply ack_packet_spec; exact HI|]. cbv beta. intros _ s1 ev1 (HI1 & _). apply IH; exact HI1. }
  match goal with |- context [if ?a >? ?u then (if ?c then 0 else ?u) else ?a] =>
    set (nAvailable := if a >? u then (if c then 0 else u) else a) in *;
    assert (HnA : 0 <= nAvailable) by
      (pose proof (si_mss _ _ _ _ HI); subst nAvailable;
       repeat match goal with |- context [if ?b then _ else _] => destruct b eqn:? end; lia)
  end.
  clearbody nAvailable.
  destruct ((nAvailable =? 0) && negb (sf_eqb sflags sfFin || sf_eqb sflags sfRst)).
  { destruct (sf_eqb sflags sfNone); [wp_prims; exact HI|].
    destruct (sf_eqb sflags sfImmediateAck || negb (t_ack s =? 0)).
    - eapply wp_bind_spec; [apply ack_packet_spec; exact HI|]. cbv beta. intros _ s1 ev1 (HI1 & _). wp_prims. exact HI1.
    - wp_prims. eapply sinv_frame; [exact HI|]. fr_triv. }
  destruct (use_nagling s && _ && _ && _); [wp_prims; exact HI|].
  destruct (first_unsent (slist s) 0) as [i|]; [|wp_prims; exact HI].
  destruct (nth_error (slist s) i) as [g|] eqn:N; [|apply wp_fault].
  match goal with |- wp (bind ?m _) _ _ _ => set (spl := m) end.
  assert (Hspl : wp spl s ev (fun _ s' ev' => sinv C W s' ev')).
  { unfold spl. destruct ((ss_len g >? nAvailable) && _) eqn:E; [|wp_prims; exact HI]. wp_prims.
    destruct HI as [H1 H2 H3 H4 H5 H6 H7]. constructor; cbn; try assumption.
    apply mode_l_split; auto. lia. }
  eapply wp_bind_spec; [exact Hspl|]. cbv beta. intros _ s1 ev1 HI1.
  eapply wp_bind_spec; [apply transmit_spec; exact HI1|]. cbv beta. intros st s2 ev2 (HI2 & _).
  destruct (negb (st =? 0)).
  - eapply wp_conseq; [apply closedown_remote_frames|]. cbv beta. intros _ s3 ev3 F. eapply sinv_frame; eauto.
  - apply IH. exact HI2.
Qed.

Lemma attempt_send_spec C W sflags now s ev :
  sinv C W s ev -> wp (attempt_send sflags now) s ev (fun _ s' ev' => sinv C W s' ev').
Proof.
  intros HI. unfold attempt_send. wp_prims.
  apply wp_bind_when; intros _; wp_prims.
  - apply attempt_send_loop_spec. eapply sinv_frame; [exact HI|].
    fr_triv.
  - apply attempt_send_loop_spec. exact HI.
Qed.

(** ---- queue ---- *)
Definition qsl (l : list sseg) (seq ln flags : Z) : list sseg :=
  match last_seg l with
  | Some t => if (ss_flags t =? flags) && (ss_xmit t =? 0)
              then removelast l ++ [t <| ss_len := w32 (ss_len t + ln) |>]
              else l ++ [{| ss_seq := seq; ss_len := ln; ss_xmit := 0; ss_flags := flags |}]
  | None => [{| ss_seq := seq; ss_len := ln; ss_xmit := 0; ss_flags := flags |}]
  end.

Lemma tiles_qsl cl base l e ln flags :
  tiles cl base l e -> 0 <= ln -> 0 <= base -> e + ln < M32 -> flag_ok flags ->
  (flags = FLAG_CTL -> e + ln <= cl) -> (flags <> FLAG_CTL -> 0 < ln -> cl <= e) ->
  tiles cl base (qsl l e ln flags) (e + ln).
Proof.
  intros Ht Hln Hb Hw Hf Hc Hd. unfold qsl.
  assert (Hnew : tiles cl e [{| ss_seq := e; ss_len := ln; ss_xmit := 0; ss_flags := flags |}] (e + ln)).
  { cbn [tiles]. split; [|reflexivity]. unfold seg_ok; cbn. repeat split; auto. }
  destruct (last_seg l) as [t|] eqn:L.
  - apply last_seg_split in L. rewrite L in Ht. apply tiles_app in Ht. destruct Ht as (m & H1 & H2).
    cbn [tiles] in H2. destruct H2 as (Hg & He).
    destruct ((ss_flags t =? flags) && (ss_xmit t =? 0)) eqn:E.
    + apply tiles_app. exists m. split; [exact H1|]. cbn [tiles]. cbn [ss_len set].
      pose proof (tiles_le _ _ _ _ H1) as Hle.
      destruct Hg as (G1 & G2 & G3 & G4 & G5).
      assert (W1 : w32 (ss_len t + ln) = ss_len t + ln) by (unfold w32, M32 in *; apply Z.mod_small; lia).
      rewrite W1. split; [|lia]. unfold seg_ok; cbn [ss_seq ss_len ss_flags set].
      assert (Ef : ss_flags t = flags) by lia. rewrite Ef in *.
      repeat split; auto; try lia.
    + rewrite L. rewrite <- app_assoc. apply tiles_app. exists m. split; [exact H1|].
      change ([t] ++ ?x) with (t :: x). cbn [tiles]. split; [exact Hg|]. rewrite He. exact Hnew.
  - apply last_seg_none in L. subst l. cbn [tiles] in Ht. subst e. exact Hnew.
Qed.

Lemma zero_qsl l seq flags : Forall (fun g => ss_len g = 0) l -> Forall (fun g => ss_len g = 0) (qsl l seq 0 flags).
Proof.
  intros H. unfold qsl. destruct (last_seg l) as [t|] eqn:L; [|repeat constructor].
  apply last_seg_split in L. destruct (_ && _).
  - rewrite L in H. apply Forall_app in H. destruct H as (H1 & H2). apply Forall_app. split; [exact H1|].
    inversion H2; subst. repeat constructor. cbn. rewrite H3. reflexivity.
  - apply Forall_app. split; [exact H|repeat constructor].
Qed.

Lemma tiles_rebase cl cl' l : 0 <= cl' -> tiles cl 0 l 0 -> tiles cl' 0 l 0.
Proof.
  intros Hc. induction l as [|g l IH]; cbn [tiles]; [auto|]. intros (Hg & H).
  pose proof (tiles_le _ _ _ _ H) as Hle. destruct Hg as (G1 & G2 & G3 & G4 & G5).
  assert (Z0 : ss_len g = 0) by lia. rewrite Z0 in *. split; [|apply IH; exact H].
  unfold seg_ok. rewrite Z0. repeat split; auto; lia.
Qed.

Lemma skipn_app_le {A} (l1 l2 : list A) n : (n <= length l1)%nat -> skipn n (l1 ++ l2) = skipn n l1 ++ l2.
Proof. intros H. rewrite skipn_app. replace (n - length l1)%nat with 0%nat by lia. reflexivity. Qed.

Lemma firstn_len_firstn {A} (l : list A) n : firstn (length (firstn n l)) l = firstn n l.
Proof. rewrite firstn_length. destruct (Nat.le_ge_cases n (length l)); [rewrite Nat.min_l by lia; reflexivity|].
  rewrite Nat.min_r by lia. rewrite firstn_all. symmetry. apply firstn_all2. lia. Qed.

Lemma sub_app_l (l d : bytes) q n : 0 <= q -> 0 <= n -> q + n <= len l -> sub (l ++ d) q n = sub l q n.
Proof.
  intros H1 H2 H3. unfold sub, len in *. rewrite skipn_app_le by lia. rewrite firstn_app.
  rewrite skipn_length. replace (Z.to_nat n - (length l - Z.to_nat q))%nat with 0%nat by lia. cbn [firstn]. apply app_nil_r.
Qed.

Lemma pkt_ok_ext C W d p : pkt_ok C W p -> pkt_ok C (W ++ d) p.
Proof.
  intros H Hne. destruct (H Hne) as (H1 & H2 & H3 & H4). rewrite app_assoc.
  assert (0 <= len (pkt_payload p)) by (unfold len; lia).
  split; [exact H1|]. split; [rewrite len_app; unfold len at 3; lia|]. split; [|exact H4].
  rewrite sub_app_l by lia. exact H3.
Qed.

Lemma queue_result data flags s ev :
  wp (queue data flags) s ev (fun ln s' ev' => exists d, ev' = ev /\ ln = len d /\ d = firstn (Z.to_nat ln) data /\
     s' = s <| slist := qsl (slist s) (w32 (snd_una s + sb_buffered s)) ln flags |> <| sbuf := sbuf s ++ d |>
            <| sbuf_n := sbuf_n s + ln |>).
Proof.
  unfold queue. wp_prims.
  destruct (len data >? sb_remaining s) eqn:E; wp_prims.
  - exists (firstn (Z.to_nat (sb_remaining s)) data). split; [reflexivity|]. split; [reflexivity|].
    split; [|reflexivity]. unfold len. rewrite Nat2Z.id. symmetry. apply firstn_len_firstn.
  - exists data. split; [reflexivity|]. split; [reflexivity|]. split; [|reflexivity].
    unfold len. rewrite Nat2Z.id. symmetry. apply firstn_all.
Qed.

Lemma w32_una_plus una base n : w32 una = base -> 0 <= base + n < M32 -> w32 (una + n) = base + n.
Proof. unfold w32, M32. intros H1 H2. lia. Qed.

(* the application's bytes, a FIN or a RST *)
Lemma queue_data_spec C W data flags s ev :
  sinv C W s ev -> flag_ok flags -> flags <> FLAG_CTL ->
  (data = [] \/ (has_sent_fin (state s) = false /\ state s <> LISTEN)) ->
  wp (queue data flags) s ev (fun ln s' ev' =>
    0 <= ln <= len data /\ state s' = state s /\
    (len C + len W + ln < NW -> sinv C (W ++ firstn (Z.to_nat ln) data) s' ev')).
Proof.
  intros HI Hf Hnc Hst. eapply wp_conseq; [apply queue_result|]. cbv beta.
  intros ln s' ev' (d & -> & Hln & Hd & ->).
  assert (Hlen : 0 <= ln <= len data).
  { rewrite Hln, Hd. unfold len. rewrite firstn_length. lia. }
  split; [exact Hlen|]. split; [reflexivity|]. intros NWr. rewrite <- Hd.
  destruct HI as [H1 H2 H3 H4 H5 H6 H7]. unfold sb_buffered. constructor; cbn; try assumption.
  - rewrite len_app. lia.
  - rewrite len_app. lia.
  - unfold mode; cbn. destruct H5 as [(base & Hb & Hsb & Hu & Ht)|(D1 & D2 & D3)].
    + left. exists base. rewrite app_assoc, !len_app in *. split; [lia|]. split.
      { rewrite skipn_app_le by (unfold len in *; rewrite app_length; lia). rewrite <- Hsb. reflexivity. }
      split; [exact Hu|].
      assert (Hq : w32 (snd_una s + sbuf_n s) = len C + len W).
      { assert (Hn : sbuf_n s = len C + len W - base).
        { rewrite H3, Hsb. unfold len in *. rewrite skipn_length, app_length. lia. }
        rewrite Hn. rewrite (w32_una_plus _ base _ Hu); unfold NW, M32 in *; lia. }
      rewrite Hq. rewrite <- Hln.
      apply tiles_qsl; auto; try lia; try (unfold NW, M32 in *; lia); try (intros; contradiction); try (unfold len; lia).
    + right. destruct Hst as [->|(Hs & _)]; [|congruence].
      assert (Ed : d = []) by (rewrite Hd; apply firstn_nil).
      assert (El : ln = 0) by (rewrite Hln, Ed; reflexivity). rewrite Ed, El.
      split; [exact D1|]. split; [rewrite D2; reflexivity|]. apply zero_qsl. exact D3.
  - intros L. destruct (H6 L) as (-> & ->). split; [reflexivity|].
    destruct Hst as [->|(_ & Hs)]; [|contradiction]. rewrite Hd. apply firstn_nil.
  - intros p Hin. apply pkt_ok_ext. apply H7. exact Hin.
Qed.

Lemma pkt_ok_empty_stream C' W' p : pkt_ok [] [] p -> pkt_ok C' W' p.
Proof.
  intros H Hne. exfalso. destruct (H Hne) as (H1 & H2 & _). change (len ([] ++ [])) with 0 in H2.
  destruct (pkt_payload p) as [|x l]; [congruence|]. unfold len in H2. cbn [length] in H2. lia.
Qed.

(* the connect message is queued on an empty stream *)
Lemma queue_connect_spec s ev :
  sinv [] [] s ev -> has_sent_fin (state s) = false -> state s <> LISTEN ->
  wp queue_connect_message s ev (fun _ s' ev' => exists C', sinv C' [] s' ev' /\ state s' = state s).
Proof.
  intros HI Hnf Hnl. unfold queue_connect_message. wp_prims.
  set (b := [0] ++ (if support_wnd_scale s then [3; 1; rwnd_scale s] else []) ++ (if support_fin_ack s then [254; 1; 0] else [])).
  assert (Hb : len b <= 7) by (unfold b; destruct (support_wnd_scale s), (support_fin_ack s); cbn; lia).
  eapply wp_bind_spec; [apply queue_result|]. cbv beta. intros ln s' ev' (d & -> & Hln & Hd & ->). wp_prims.
  assert (Hlen : 0 <= ln <= len b).
  { rewrite Hln, Hd. unfold len. rewrite firstn_length. lia. }
  exists d. split; [|reflexivity].
  destruct HI as [H1 H2 H3 H4 H5 H6 H7]. unfold sb_buffered. constructor; cbn; try assumption.
  - unfold NW. lia.
  - lia.
  - rewrite len_app. lia.
  - unfold mode; cbn. destruct H5 as [(base & Hbs & Hsb & Hu & Ht)|(D1 & _)]; [|congruence].
    assert (E0 : base = 0) by (change (len ([] ++ [])) with 0 in Hbs; lia). rewrite E0 in Hsb, Ht, Hu.
    change (skipn (Z.to_nat 0) ([] ++ [])) with (@nil Z) in Hsb. change (len ([] ++ [])) with 0 in Ht. change (len []) with 0 in Ht.
    left. exists 0. rewrite app_nil_r. split; [lia|]. split; [rewrite Hsb; reflexivity|]. split; [exact Hu|].
    assert (Hq : w32 (snd_una s + sbuf_n s) = 0).
    { rewrite H3, Hsb. cbn. replace (snd_una s + 0) with (snd_una s) by lia. exact Hu. }
    rewrite Hq. rewrite <- Hln. replace ln with (0 + ln) at 2 by lia.
    apply tiles_qsl; try lia; try (unfold M32; lia); try (right; right; left; reflexivity); try (intros E; discriminate E).
    eapply tiles_rebase; [|exact Ht]. lia.
  - intros L; contradiction.
  - intros p Hin. apply pkt_ok_empty_stream. apply H7. exact Hin.
Qed.

Lemma queue_fin_spec C W s ev :
  sinv C W s ev -> wp queue_fin_message s ev (fun _ s' ev' => sinv C W s' ev' /\ state s' = state s).
Proof.
  intros HI. unfold queue_fin_message. wp_prims.
  eapply wp_bind_spec; [apply (queue_data_spec C W [] FLAG_FIN s ev HI)|].
  - right; left; reflexivity.
  - discriminate.
  - left; reflexivity.
  - cbv beta. intros ln s' ev' (Hl & Hs & Hq). wp_prims. split; [|exact Hs].
    cbn in Hl. assert (ln = 0) by lia. subst ln. cbn in Hq. rewrite app_nil_r in Hq. apply Hq. destruct HI; lia.
Qed.

Lemma queue_rst_spec C W s ev :
  sinv C W s ev -> wp queue_rst_message s ev (fun _ s' ev' => sinv C W s' ev' /\ state s' = state s).
Proof.
  intros HI. unfold queue_rst_message. wp_prims.
  eapply wp_bind_spec; [apply (queue_data_spec C W [] FLAG_RST s ev HI)|].
  - right; right; right; reflexivity.
  - discriminate.
  - left; reflexivity.
  - cbv beta. intros ln s' ev' (Hl & Hs & Hq). wp_prims. split; [|exact Hs].
    cbn in Hl. assert (ln = 0) by lia. subst ln. cbn in Hq. rewrite app_nil_r in Hq. apply Hq. destruct HI; lia.
Qed.

(** ---- closedown ---- *)
Lemma closedown_spec C W err local now s ev :
  sinv C W s ev -> wp (closedown err local now) s ev (fun _ s' ev' => sinv C W s' ev').
Proof.
  intros HI. unfold closedown. wp_prims.
  match goal with |- wp (bind ?m _) _ _ _ => set (pre := m) end.
  assert (Hpre : wp pre s ev (fun _ s' ev' => sinv C W s' ev')).
  { unfold pre. destruct (local && support_fin_ack s).
    - eapply wp_bind_spec; [apply queue_rst_spec; exact HI|]. cbv beta. intros _ s1 ev1 (HI1 & _).
      apply attempt_send_spec. exact HI1.
    - destruct local; wp_prims; [|exact HI]. eapply sinv_frame; [exact HI|]. fr_triv. }
  eapply wp_bind_spec; [exact Hpre|]. cbv beta. intros _ s1 ev1 HI1.
  eapply wp_bind_fr; [apply closedown_states_frames|]. intros _ s2 ev2 F2.
  eapply wp_conseq; [apply set_state_closed_frames|]. cbv beta. intros _ s3 ev3 F3.
  eapply sinv_frame; [exact HI1|]. eapply fr_trans; eauto.
Qed.

(** ---- acknowledgements ---- *)
Lemma ack_slist_tiles cl fuel : forall l base e nFree lg l' lg',
  tiles cl base l e -> 0 <= nFree <= e - base -> 0 <= base -> e < M32 ->
  ack_slist fuel l nFree lg = Some (l', lg') -> tiles cl (base + nFree) l' e.
Proof.
  induction fuel as [|f IH]; intros l base e nFree lg l' lg' Ht Hn Hb He H; cbn [ack_slist] in H; [discriminate|].
  destruct (nFree <=? 0) eqn:E0.
  - injection H as <- <-. replace (base + nFree) with base by lia. exact Ht.
  - destruct l as [|d l]; [discriminate|]. cbn [tiles] in Ht. destruct Ht as (Hd & Ht).
    pose proof (tiles_le _ _ _ _ Ht) as Hle. destruct Hd as (G1 & G2 & G3 & G4 & G5).
    destruct (nFree <? ss_len d) eqn:E1.
    + injection H as <- <-. cbn [tiles]. cbn [ss_len ss_seq ss_flags set]. split.
      * unfold seg_ok; cbn [ss_len ss_seq ss_flags set].
        assert (W1 : w32 (ss_seq d + nFree) = base + nFree) by (rewrite G1; unfold w32, M32 in *; apply Z.mod_small; lia).
        rewrite W1. repeat split; auto; lia.
      * replace (base + nFree + (ss_len d - nFree)) with (base + ss_len d) by lia. exact Ht.
    + replace (base + nFree) with (base + ss_len d + (nFree - ss_len d)) by lia.
      eapply IH; [exact Ht| | | |exact H]; lia.
Qed.

Lemma ack_slist_zero fuel l lg : ack_slist (S fuel) l 0 lg = Some (l, lg).
Proof. reflexivity. Qed.

Lemma skipn_all_len {A} (l : list A) : skipn (length l) l = [].
Proof. apply skipn_all. Qed.

Lemma sinv_ack_update C W s ev ack nAcked0 nAcked finack sl lg x y :
  sinv C W s ev ->
  nAcked0 = w32 (ack - snd_una s) ->
  finack = ((nAcked0 =? sbuf_n s + 1) && has_sent_fin (state s)) ->
  nAcked = (if finack then nAcked0 - 1 else nAcked0) ->
  (nAcked <=? sbuf_n s) = true ->
  ack_slist (S (length (slist s))) (slist s) nAcked (largest s) = Some (sl, lg) ->
  sinv C W (s <| snd_wnd := x |> <| snd_una := ack |> <| rto_base := y |>
              <| sbuf := skipn (Z.to_nat nAcked) (sbuf s) |> <| sbuf_n := sbuf_n s - nAcked |> <| slist := sl |> <| largest := lg |>) ev.
Proof.
  intros [H1 H2 H3 H4 H5 H6 H7] E0 Ef En Hle Hack.
  assert (Hn0 : 0 <= nAcked0) by (rewrite E0; unfold w32, M32; apply Z.mod_pos_bound; lia).
  assert (Hsn : 0 <= sbuf_n s) by (rewrite H3; unfold len; lia).
  assert (Hn : 0 <= nAcked <= sbuf_n s).
  { split; [|lia]. rewrite En. destruct finack; [|exact Hn0]. symmetry in Ef. apply andb_prop in Ef. lia. }
  constructor; cbn; try assumption.
  - rewrite H3. unfold len in *. rewrite skipn_length. lia.
  - unfold mode; cbn. destruct H5 as [(base & Hb & Hsb & Hu & Ht)|(D1 & D2 & D3)].
    + assert (Hbn : sbuf_n s = len (C ++ W) - base).
      { rewrite H3, Hsb. unfold len in *. rewrite skipn_length. lia. }
      assert (Ht' : tiles (len C) (base + nAcked) sl (len (C ++ W))).
      { eapply ack_slist_tiles; [exact Ht| | | |exact Hack]; try lia. rewrite len_app; unfold NW, M32 in *; lia. }
      destruct finack eqn:Efa.
      * right. symmetry in Ef. apply andb_prop in Ef. destruct Ef as (Ef1 & Ef2).
        assert (nAcked = sbuf_n s) by lia.
        split; [exact Ef2|]. split.
        { rewrite H, H3. unfold len. rewrite Nat2Z.id. apply skipn_all. }
        replace (base + nAcked) with (len (C ++ W)) in Ht' by lia. eapply tiles_all_zero; exact Ht'.
      * left. exists (base + nAcked). split; [lia|]. split.
        { rewrite Hsb, skipn_skipn'. f_equal. lia. }
        split; [|exact Ht'].
        rewrite len_app in *. subst nAcked. rewrite E0 in *. unfold w32, M32, NW in *. lia.
    + right. rewrite D2 in *. cbn [len length Z.of_nat] in H3.
      assert (nAcked = 0) by lia. subst nAcked. rewrite H in *.
      split; [exact D1|]. split; [reflexivity|].
      rewrite ack_slist_zero in Hack. injection Hack as <- <-. exact D3.
Qed.

(** ---- process ---- *)
Definition SInv (W : bytes) (s : sock) (ev : list event) : Prop := exists C, sinv C W s ev.

Ltac use_spec L := eapply wp_bind_spec; [apply L|cbv beta].
Ltac sinv_fr HI := eapply sinv_frame; [exact HI|]; fr_chain.

Lemma process_spec W seg now s ev :
  SInv W s ev -> wp (process seg now) s ev (fun _ s' ev' => SInv W s' ev').
Proof.
  intros (C & HI). unfold process. wp_prims.
  destruct (negb (g_conv seg =? conv s)); [wp_prims; exists C; exact HI|]. wp_prims.
  match goal with |- wp _ ?s1 _ _ => assert (HI1 : sinv C W s1 ev) by (sinv_fr HI); set (s1' := s1) in *; clearbody s1' end.
  clear HI s. rename s1' into s, HI1 into HI.
  destruct (st_eqb (state s) CLOSED || _).
  { apply wp_bind_when; intros _; wp_prims; [|exists C; exact HI].
    use_spec (closedown_spec C W 0 true now s ev HI). intros _ s1 ev1 HI1. wp_prims. exists C; exact HI1. }
  destruct (has_flag (g_flags seg) FLAG_RST).
  { use_spec (closedown_spec C W ECONNRESET false now s ev HI). intros _ s1 ev1 HI1. wp_prims. exists C; exact HI1. }
  (* control segment *)
  apply (wp_bind_spec _ _ _ _ (fun _ s' ev' => SInv W s' ev')).
  { destruct (has_flag (g_flags seg) FLAG_CTL); [|wp_prims; exists C; exact HI].
    destruct (g_data seg) as [|c0 opts]; [wp_prims; exists C; exact HI|].
    destruct (c0 =? 0); [|wp_prims; exists C; exact HI].
    eapply wp_bind_fr; [apply parse_options_frames|]. intros _ s1 ev1 F1. wp_prims.
    assert (HI1 : sinv C W s1 ev1) by (sinv_fr HI).
    apply (wp_bind_spec _ _ _ _ (fun _ s' ev' => SInv W s' ev')); [|cbv beta; intros _ s2 ev2 H2; wp_prims; exact H2].
    destruct (state s1) eqn:Est; try (wp_prims; exists C; exact HI1).
    - (* LISTEN: answer with our own connect message *)
      destruct (si_listen _ _ _ _ HI1 Est) as (-> & ->).
      eapply wp_bind_spec.
      { unfold set_state. wp_prims. rewrite Est. cbn [st_eqb st_num Z.eqb transition_ok]. wp_prims.
        instantiate (1 := fun _ s' ev' => sinv [] [] s' ev' /\ state s' = SYN_RECEIVED).
        cbv beta. split; [|reflexivity].
        destruct HI1 as [H1 H2 H3 H4 H5 H6 H7]. constructor; cbn; try assumption.
        - destruct H5 as [N|(D & _)]; [left; exact N|rewrite Est in D; discriminate D].
        - intros E; discriminate E. }
      cbv beta. intros _ s2 ev2 (HI2 & St2).
      eapply wp_conseq; [apply queue_connect_spec; [exact HI2|rewrite St2; reflexivity|rewrite St2; discriminate]|].
      cbv beta. intros _ s3 ev3 (C' & HI3 & _). exists C'. exact HI3.
    - eapply wp_conseq; [apply set_state_established_frames|]. cbv beta. intros _ s2 ev2 F2. exists C. sinv_fr HI1. }
  cbv beta. clear C HI. intros ctl s1 ev1 (C & HI). clear s ev. rename s1 into s, ev1 into ev.
  destruct ctl as [b|]; [wp_prims; exists C; exact HI|]. wp_prims.
  eapply wp_bind_fr; [intros s' ev'; apply wp_when; intros _; wp_prims; fr_triv|]. intros _ s1 ev1 F1.
  assert (HI1 : sinv C W s1 ev1) by (sinv_fr HI). clear HI F1 s ev. rename s1 into s, ev1 into ev, HI1 into HI.
  wp_prims.
  (* acknowledgement processing *)
  apply (wp_bind_spec _ _ _ _ (fun _ s' ev' => sinv C W s' ev')).
  { destruct (LARGER (g_ack seg) (snd_una s) && SMALLER_OR_EQUAL (g_ack seg) (snd_nxt s)).
    - eapply wp_bind_fr.
      { intros s' ev'. destruct (negb (g_tsecr seg =? 0)); [|wp_prims; fr_triv].
        destruct (time_diff now (g_tsecr seg) >=? 0); wp_prims; [|fr_triv]. destruct (rx_srtt s' =? 0); fr_triv. }
      intros rttok s1 ev1 F1. assert (HI1 : sinv C W s1 ev1) by (sinv_fr HI).
      destruct (negb rttok); [wp_prims; exact HI1|]. wp_prims.
      destruct (ack_slist _ _ _ _) as [[sl lg]|] eqn:Hack; [|apply wp_fault]. wp_prims.
      match goal with |- wp _ ?s2 _ _ => assert (HI2 : sinv C W s2 ev1) end.
      { eapply sinv_ack_update; [exact HI1|reflexivity|reflexivity|reflexivity|eassumption|exact Hack]. }
      match goal with |- wp _ ?s2 _ _ => set (s2' := s2) in *; clearbody s2' end.
      destruct (dup_acks s2' >=? 3).
      + destruct (LARGER_OR_EQUAL _ _); [wp_prims; sinv_fr HI2|].
        destruct (_ && _); [wp_prims; exact HI2|].
        apply (wp_bind_spec _ _ _ _ (fun _ s' ev' => sinv C W s' ev')).
        { destruct (slist s2'); [apply wp_fault|]. eapply wp_conseq; [apply transmit_spec; exact HI2|]. cbv beta. tauto. }
        cbv beta. intros st s3 ev3 HI3. destruct (negb (st =? 0)).
        * use_spec (closedown_spec C W st true now s3 ev3 HI3). intros _ s4 ev4 HI4. wp_prims. exact HI4.
        * wp_prims. sinv_fr HI3.
      + wp_prims. sinv_fr HI2.
    - destruct (g_ack seg =? snd_una s); [|wp_prims; exact HI]. wp_prims.
      match goal with |- wp _ ?s2 _ _ => assert (HI2 : sinv C W s2 ev) by (sinv_fr HI); set (s2' := s2) in *; clearbody s2' end.
      destruct (len (g_data seg) >? 0); [wp_prims; exact HI2|].
      destruct (negb (snd_una s2' =? snd_nxt s2')); [|wp_prims; sinv_fr HI2]. wp_prims.
      match goal with |- wp _ ?s3 _ _ => assert (HI3 : sinv C W s3 ev) by (sinv_fr HI2); set (s3' := s3) in *; clearbody s3' end.
      destruct (dup_acks s3' =? 3).
      + destruct (_ || _); [|wp_prims; exact HI3].
        apply (wp_bind_spec _ _ _ _ (fun _ s' ev' => sinv C W s' ev')).
        { destruct (slist s3'); [apply wp_fault|]. eapply wp_conseq; [apply transmit_spec; exact HI3|]. cbv beta. tauto. }
        cbv beta. intros st s4 ev4 HI4. destruct (negb (st =? 0)).
        * use_spec (closedown_spec C W st true now s4 ev4 HI4). intros _ s5 ev5 HI5. wp_prims. exact HI5.
        * wp_prims. sinv_fr HI4.
      + destruct (dup_acks s3' >? 3); [|wp_prims; exact HI3].
        apply wp_bind_when; intros _; wp_prims; [sinv_fr HI3|exact HI3]. }
  cbv beta. intros [cont is_fin_ack] s1 ev1 HI1. clear HI s ev. rename s1 into s, ev1 into ev, HI1 into HI.
  destruct (negb cont); [wp_prims; exists C; exact HI|]. wp_prims.
  eapply wp_bind_fr; [intros s' ev'; apply wp_when; intros _; [apply set_state_established_frames|apply fr_refl]|].
  intros _ s1 ev1 F1. wp_prims.
  (* FIN handling: state changes only *)
  eapply wp_bind_fr.
  { intros s' ev'. destruct (support_fin_ack _); [|wp_prims; apply fr_refl].
    eapply wp_bind_fr; [intros s'' ev''; apply wp_when; intros _; wp_prims; fr_triv|]. intros _ s2 ev2 F2.
    destruct (_ && _); [wp_prims; fr_chain|]. wp_prims.
    eapply wp_bind_fr; [|intros _ s3 ev3 F3; wp_prims; fr_chain].
    intros s'' ev''.
    destruct (state s2); try (wp_prims; apply fr_refl);
      repeat match goal with |- wp (if ?b then _ else _) _ _ _ => destruct b end;
      try (apply wp_when; intros _; [|apply fr_refl]);
      first [apply set_state_frames; discriminate | apply set_state_closed_frames]. }
  intros finr s2 ev2 F2. assert (HI2 : sinv C W s2 ev2) by (sinv_fr HI). clear HI F1 F2 s ev s1 ev1.
  rename s2 into s, ev2 into ev, HI2 into HI.
  destruct finr as [received_fin|]; [|wp_prims; exists C; exact HI]. wp_prims.
  eapply wp_bind_fr; [intros s' ev'; apply wp_when; intros _; wp_prims; fr_triv|]. intros _ s1 ev1 F1. wp_prims.
  match goal with |- context [let '(seq1, data1) := ?e in _] => destruct e as [seq1 data1] end.
  (* storing the payload: receive side only *)
  apply (wp_bind_spec _ _ _ _ (fun _ s' ev' => fr s1 ev1 s' ev')).
  { destruct (len _ >? 0); [|wp_prims; apply fr_refl].
    destruct (_ || _); [apply wp_bind_when; intros _; wp_prims; fr_triv|].
    destruct (rb_write_offset _ _ _) as [rb1 res]. wp_prims.
    destruct (seq1 =? rcv_nxt s1).
    - destruct (rb_commit rb1 _); [|apply wp_fault]. wp_prims.
      eapply wp_bind_fr; [apply recover_rlist_frames|]. intros sf s3 ev3 F3. wp_prims.
      eapply fr_trans; [|exact F3]. fr_triv.
    - wp_prims. fr_triv. }
  cbv beta. intros [sflags bNewData] s2 ev2 F2.
  eapply wp_bind_fr; [intros s' ev'; apply wp_when; intros _; wp_prims; fr_triv|]. intros _ s3 ev3 F3.
  assert (HI3 : sinv C W s3 ev3) by (sinv_fr HI).
  use_spec (attempt_send_spec C W sflags now s3 ev3 HI3). intros _ s4 ev4 HI4. wp_prims.
  apply wp_bind_when; intros _; wp_prims; exists C; [sinv_fr HI4|exact HI4].
Qed.

(** ---- the public entry points ---- *)
Lemma SInv_frame W s ev s' ev' : SInv W s ev -> fr s ev s' ev' -> SInv W s' ev'.
Proof. intros (C & HI) F. exists C. eapply sinv_frame; eauto. Qed.

Lemma notify_packet_spec W p now s ev :
  SInv W s ev -> wp (notify_packet p now) s ev (fun _ s' ev' => SInv W s' ev').
Proof.
  intros HI. unfold notify_packet. destruct (len p >? MAX_PACKET); [wp_prims; eapply SInv_frame; [exact HI|fr_triv]|].
  destruct (parse_packet p); [apply process_spec; exact HI|wp_prims; eapply SInv_frame; [exact HI|fr_triv]].
Qed.

Lemma connect_spec W now s ev :
  SInv W s ev -> wp (connect now) s ev (fun _ s' ev' => SInv W s' ev').
Proof.
  intros (C & HI). unfold connect. wp_prims.
  destruct (negb (st_eqb (state s) LISTEN)) eqn:E; [wp_prims; exists C; sinv_fr HI|].
  assert (Est : state s = LISTEN) by (apply st_eqb_eq; destruct (st_eqb (state s) LISTEN); [reflexivity|discriminate]).
  destruct (si_listen _ _ _ _ HI Est) as (-> & ->).
  eapply wp_bind_spec.
  { unfold set_state. wp_prims. rewrite Est. cbn [st_eqb st_num Z.eqb transition_ok]. wp_prims.
    instantiate (1 := fun _ s' ev' => sinv [] [] s' ev' /\ state s' = SYN_SENT).
    cbv beta. split; [|reflexivity].
    destruct HI as [H1 H2 H3 H4 H5 H6 H7]. constructor; cbn; try assumption.
    - destruct H5 as [N|(D & _)]; [left; exact N|rewrite Est in D; discriminate D].
    - intros E1; discriminate E1. }
  cbv beta. intros _ s2 ev2 (HI2 & St2).
  eapply wp_bind_spec; [apply queue_connect_spec; [exact HI2|rewrite St2; reflexivity|rewrite St2; discriminate]|].
  cbv beta. intros _ s3 ev3 (C' & HI3 & _).
  use_spec (attempt_send_spec C' [] sfNone now s3 ev3 HI3). intros _ s4 ev4 HI4. wp_prims. exists C'. exact HI4.
Qed.

Lemma notify_mtu_frames mtu : frames (notify_mtu mtu).
Proof.
  intros s ev. unfold notify_mtu. wp_prims. apply wp_when; intros _; [|fr_triv].
  eapply wp_conseq; [apply adjustMTU_frames|]. cbv beta. intros _ s1 ev1 F. eapply fr_trans; [|exact F]. fr_triv.
Qed.

Lemma set_rcv_buf_frames n : frames (set_rcv_buf n).
Proof. intros s ev. unfold set_rcv_buf. wp_prims. destruct (st_eqb _ _); [apply resize_receive_buffer_frames|wp_prims; apply fr_refl]. Qed.
Lemma set_snd_buf_frames n : frames (set_snd_buf n).
Proof. intros s ev. unfold set_snd_buf. wp_prims. destruct (st_eqb _ _); wp_prims; [fr_triv|apply fr_refl]. Qed.

Lemma get_next_clock_spec W timeout now s ev :
  SInv W s ev -> wp (get_next_clock timeout now) s ev (fun _ s' ev' => SInv W s' ev').
Proof.
  intros (C & HI). unfold get_next_clock. wp_prims.
  assert (Hcd : forall err, wp (closedown err false now;;; ret (@None Z)) s ev (fun _ s' ev' => SInv W s' ev')).
  { intros err. use_spec (closedown_spec C W err false now s ev HI). intros _ s1 ev1 HI1. wp_prims. exists C; exact HI1. }
  destruct (shutdown s); try apply Hcd; cbn [andb].
  - repeat match goal with |- wp (if ?b then _ else _) _ _ _ => destruct b end; wp_prims; exists C; exact HI.
  - repeat match goal with |- wp (if ?b then _ else _) _ _ _ => destruct b end; try apply Hcd; wp_prims; exists C; exact HI.
Qed.

Lemma notify_clock_spec W now s ev :
  SInv W s ev -> wp (notify_clock now) s ev (fun _ s' ev' => SInv W s' ev').
Proof.
  intros (C & HI). unfold notify_clock. wp_prims.
  destruct (st_eqb (state s) CLOSED); [wp_prims; exists C; exact HI|].
  eapply wp_bind_fr; [intros s' ev'; apply wp_when; intros _; [apply set_state_closed_frames|apply fr_refl]|].
  intros _ s1 ev1 F1. assert (HI1 : sinv C W s1 ev1) by (sinv_fr HI). clear HI F1 s ev. wp_prims.
  apply (wp_bind_spec _ _ _ _ (fun _ s' ev' => sinv C W s' ev')).
  { assert (Hq : wp (queue_fin_message;;; attempt_send sfFin now;;; ret true) s1 ev1 (fun _ s' ev' => sinv C W s' ev')).
    { use_spec (queue_fin_spec C W s1 ev1 HI1). intros _ s2 ev2 (HI2 & _).
      use_spec (attempt_send_spec C W sfFin now s2 ev2 HI2). intros _ s3 ev3 HI3. wp_prims. exact HI3. }
    destruct (_ && _); [|wp_prims; exact HI1]. destruct (last_seg _) as [g|]; [|exact Hq]. destruct (_ && _); [|exact Hq].
    use_spec (transmit_spec C W (length (slist s1) - 1)%nat now s1 ev1 HI1). intros st s2 ev2 (HI2 & _). destruct (negb (st =? 0)).
    - use_spec (closedown_spec C W st true now s2 ev2 HI2). intros _ s3 ev3 HI3. wp_prims. exact HI3.
    - wp_prims. exact HI2. }
  cbv beta. intros r0 s ev HI. clear HI1 s1 ev1. destruct (negb r0); [wp_prims; exists C; exact HI|]. wp_prims.
  apply (wp_bind_spec _ _ _ _ (fun _ s' ev' => sinv C W s' ev')).
  { destruct (_ && _); [|wp_prims; exact HI]. destruct (slist s); [apply wp_fault|].
    use_spec (transmit_spec C W 0%nat now s ev HI). intros st s1 ev1 (HI1 & _).
    destruct (negb (st =? 0)).
    - use_spec (closedown_spec C W st true now s1 ev1 HI1). intros _ s2 ev2 HI2. wp_prims. exact HI2.
    - wp_prims. eapply sinv_frame; [exact HI1|]. destruct (dup_acks s1 >=? 3); fr_triv. }
  cbv beta. intros r1 s1 ev1 HI1. clear HI s ev. destruct (negb r1); [wp_prims; exists C; exact HI1|]. wp_prims.
  apply (wp_bind_spec _ _ _ _ (fun _ s' ev' => sinv C W s' ev')).
  { destruct (_ && _); [|wp_prims; exact HI1]. destruct (time_diff now (lastrecv s1) >=? 15000).
    - use_spec (closedown_spec C W ECONNABORTED true now s1 ev1 HI1). intros _ s2 ev2 HI2. wp_prims. exact HI2.
    - use_spec (ack_packet_spec C W (w32 (snd_nxt s1 - 1)) now s1 ev1 HI1). intros _ s2 ev2 (HI2 & _). wp_prims. sinv_fr HI2. }
  cbv beta. intros r2 s2 ev2 HI2. clear HI1 s1 ev1. destruct (negb r2); [wp_prims; exists C; exact HI2|]. wp_prims.
  apply wp_when; intros _; [|exists C; exact HI2].
  use_spec (ack_packet_spec C W (snd_nxt s2) now s2 ev2 HI2). intros _ s3 ev3 (HI3 & _). wp_prims. exists C; exact HI3.
Qed.

Lemma recv_spec W n now s ev :
  SInv W s ev -> wp (recv n now) s ev (fun _ s' ev' => SInv W s' ev').
Proof.
  intros (C & HI). unfold recv. wp_prims.
  repeat match goal with |- wp (if ?b then _ else _) _ _ _ => destruct b; [wp_prims; exists C; first [exact HI|sinv_fr HI]|] end.
  wp_prims.
  match goal with |- wp _ ?s2 _ _ => assert (HI2 : sinv C W s2 ev) by (sinv_fr HI); set (s2' := s2) in *; clearbody s2' end.
  destruct (_ && _); [wp_prims; exists C; sinv_fr HI2|].
  apply (wp_bind_spec _ _ _ _ (fun _ s' ev' => sinv C W s' ev')); [|cbv beta; intros _ s3 ev3 HI3; wp_prims; exists C; exact HI3].
  destruct (_ >=? _); [|wp_prims; exact HI2]. wp_prims.
  apply wp_when; intros _; [|sinv_fr HI2].
  apply attempt_send_spec. sinv_fr HI2.
Qed.

Lemma wp_true {A} (m : M A) s ev : wp m s ev (fun _ _ _ => True).
Proof. unfold wp. destruct (m s ev) as [[[a s'] ev']|]; exact I. Qed.

Lemma send_spec W data now s ev :
  SInv W s ev -> wp (send data now) s ev (fun w s' ev' => len W + len (accepted w data) < NW - 8 -> SInv (W ++ accepted w data) s' ev').
Proof.
  intros (C & HI). unfold send. wp_prims.
  destruct (negb (st_eqb (state s) ESTABLISHED)) eqn:E.
  { wp_prims. intros _. cbn. rewrite app_nil_r. exists C. sinv_fr HI. }
  assert (Est : state s = ESTABLISHED) by (apply st_eqb_eq; destruct (st_eqb (state s) ESTABLISHED); [reflexivity|discriminate]).
  destruct (sb_remaining s =? 0). { wp_prims. intros _. cbn. rewrite app_nil_r. exists C. sinv_fr HI. }
  eapply wp_bind_spec.
  { apply (queue_data_spec C W data 0 s ev HI); [left; reflexivity|discriminate|right; rewrite Est; split; [reflexivity|discriminate]]. }
  cbv beta. intros ln s1 ev1 (Hln & _ & Hq).
  assert (Hacc : accepted ln data = firstn (Z.to_nat ln) data).
  { unfold accepted. destruct (ln >? 0) eqn:E0; [reflexivity|]. replace ln with 0 by lia. reflexivity. }
  assert (Hal : len (accepted ln data) = ln).
  { rewrite Hacc. unfold len in *. rewrite firstn_length. lia. }
  destruct (Z_lt_dec (len W + ln) (NW - 8)) as [Hs|Hb].
  - assert (HI1 : sinv C (W ++ firstn (Z.to_nat ln) data) s1 ev1) by (apply Hq; pose proof (si_cl _ _ _ _ HI); lia).
    use_spec (attempt_send_spec _ _ sfNone now s1 ev1 HI1). intros _ s2 ev2 HI2.
    apply wp_bind_when; intros _; wp_prims; intros _; rewrite Hacc; eexists; [sinv_fr HI2|exact HI2].
  - eapply wp_bind_spec; [apply wp_true|]. cbv beta. intros _ s2 ev2 _.
    apply wp_bind_when; intros _; wp_prims; intros Hc; rewrite Hal in Hc; lia.
Qed.

Lemma shutdown_sock_spec W how now s ev :
  SInv W s ev -> wp (shutdown_sock how now) s ev (fun _ s' ev' => SInv W s' ev').
Proof.
  intros (C & HI). unfold shutdown_sock. wp_prims.
  destruct (negb (support_fin_ack s)). { apply wp_when; intros _; wp_prims; exists C; [sinv_fr HI|exact HI]. }
  eapply wp_bind_fr; [intros s' ev'; apply wp_when; intros _; wp_prims; fr_triv|]. intros _ s1 ev1 F1.
  assert (HI1 : sinv C W s1 ev1) by (sinv_fr HI). clear HI F1 s ev.
  destruct (how =? 0); [wp_prims; exists C; exact HI1|]. wp_prims.
  assert (Hfin : forall n, n <> LISTEN -> n <> SYN_SENT ->
    wp (queue_fin_message;;; attempt_send sfFin now;;; s <- get;; when (negb (st_eqb (state s) CLOSED)) (set_state n)) s1 ev1
       (fun _ s' ev' => SInv W s' ev')).
  { intros n N1 N2. use_spec (queue_fin_spec C W s1 ev1 HI1). intros _ s2 ev2 (HI2 & _).
    use_spec (attempt_send_spec C W sfFin now s2 ev2 HI2). intros _ s3 ev3 HI3. wp_prims.
    apply wp_when; intros _; [|exists C; exact HI3].
    eapply wp_conseq; [apply set_state_frames; assumption|]. cbv beta. intros _ s4 ev4 F4. exists C. sinv_fr HI3. }
  destruct (state s1); try (wp_prims; exists C; exact HI1); try (apply Hfin; discriminate).
  - eapply wp_conseq; [apply set_state_closed_frames|]. cbv beta. intros _ s4 ev4 F4. exists C. sinv_fr HI1.
  - eapply wp_conseq; [apply set_state_closed_frames|]. cbv beta. intros _ s4 ev4 F4. exists C. sinv_fr HI1.
  - destruct (rb_buffered s1 >? 0); [|apply Hfin; discriminate].
    eapply wp_conseq; [apply (closedown_spec C W _ _ _ _ _ HI1)|]. cbv beta. intros _ s2 ev2 HI2. exists C; exact HI2.
  - destruct (rb_buffered s1 >? 0); [|apply Hfin; discriminate].
    eapply wp_conseq; [apply (closedown_spec C W _ _ _ _ _ HI1)|]. cbv beta. intros _ s2 ev2 HI2. exists C; exact HI2.
Qed.

Lemma close_sock_spec W force now s ev :
  SInv W s ev -> wp (close_sock force now) s ev (fun _ s' ev' => SInv W s' ev').
Proof.
  intros HI. unfold close_sock. wp_prims. destruct (_ && _); [|apply shutdown_sock_spec; exact HI].
  destruct HI as (C & HI). eapply wp_conseq; [apply (closedown_spec C W _ _ _ _ _ HI)|]. cbv beta. intros _ s2 ev2 HI2. exists C; exact HI2.
Qed.

(** ---- all sequences of operations ---- *)
Definition init_ok (s : sock) : Prop :=
  state s = LISTEN /\ slist s = [] /\ sbuf s = [] /\ sbuf_n s = 0 /\ snd_una s = 0 /\ 0 <= mss s.

Lemma init_SInv s : init_ok s -> SInv [] s [].
Proof.
  intros (H1 & H2 & H3 & H4 & H5 & H6). exists []. constructor; try (cbn; unfold NW; lia); try assumption.
  - rewrite H3, H4. reflexivity.
  - left. exists 0. rewrite H2, H3, H5. cbn. repeat split; try lia; reflexivity.
  - auto.
  - intros p [].
Qed.

Lemma sock_init_ok cv : init_ok (sock_init cv).
Proof. unfold init_ok, sock_init; cbn. repeat split; lia. Qed.

Lemma step_SInv t o t' :
  SInv (t_written t) (t_sock t) (t_ev t) -> step t o = Ok t' -> len (t_written t') < NW - 8 ->
  SInv (t_written t') (t_sock t') (t_ev t').
Proof.
  intros HI Hs Hb. unfold step, upd_trace in Hs.
  destruct o;
  match type of Hs with match ?m ?s ?ev with _ => _ end = _ =>
    destruct (m s ev) as [[[a s'] ev']|] eqn:E; [|discriminate Hs] end;
  injection Hs as <-; cbn [t_written t_sock t_ev] in *; rewrite ?app_nil_r in *.
  - exact (wp_ok _ _ _ _ _ _ _ (connect_spec _ _ _ _ HI) E).
  - apply (wp_ok _ _ _ _ _ _ _ (send_spec _ _ _ _ _ HI) E). rewrite len_app in Hb. exact Hb.
  - exact (wp_ok _ _ _ _ _ _ _ (recv_spec _ _ _ _ _ HI) E).
  - exact (wp_ok _ _ _ _ _ _ _ (notify_packet_spec _ _ _ _ _ HI) E).
  - exact (wp_ok _ _ _ _ _ _ _ (notify_clock_spec _ _ _ _ HI) E).
  - exact (wp_ok _ _ _ _ _ _ _ (get_next_clock_spec _ _ _ _ _ HI) E).
  - eapply SInv_frame; [exact HI|]. exact (wp_ok _ _ _ _ _ _ _ (notify_mtu_frames _ _ _) E).
  - exact (wp_ok _ _ _ _ _ _ _ (shutdown_sock_spec _ _ _ _ _ HI) E).
  - exact (wp_ok _ _ _ _ _ _ _ (close_sock_spec _ _ _ _ _ HI) E).
  - eapply SInv_frame; [exact HI|]. exact (wp_ok _ _ _ _ _ _ _ (set_rcv_buf_frames _ _ _) E).
  - eapply SInv_frame; [exact HI|]. exact (wp_ok _ _ _ _ _ _ _ (set_snd_buf_frames _ _ _) E).
Qed.

Lemma run_SInv ops : forall t t',
  SInv (t_written t) (t_sock t) (t_ev t) -> run t ops = Ok t' -> len (t_written t') < NW - 8 ->
  SInv (t_written t') (t_sock t') (t_ev t').
Proof.
  induction ops as [|o r IH]; intros t t' HI H Hb; cbn [run] in H.
  - injection H as <-. exact HI.
  - destruct (step t o) as [t1|] eqn:E; [|discriminate]. apply (IH t1 t'); [|exact H|exact Hb].
    eapply step_SInv; [exact HI|exact E|]. destruct (run_written _ _ _ H) as (x & Hx).
    rewrite Hx, len_app in Hb. unfold len in *. lia.
Qed.

Lemma sub_app_r (C W : bytes) q n : len C <= q -> sub (C ++ W) q n = sub W (q - len C) n.
Proof.
  intros H. unfold sub, len in *. f_equal. rewrite skipn_app. rewrite skipn_all2 by lia. cbn [app]. f_equal. lia.
Qed.

Definition data_packet (p : bytes) : Prop := pkt_payload p <> [] /\ pkt_ctl p = false.

(** SENDER HONESTY.  From any initial (LISTEN, empty) socket, after ANY sequence of operations that the model runs without Fault,
    and as long as fewer than 2^31 - 8 bytes were accepted by [send] (no sequence-number wrap): there is an offset [c] (the length of
    the connect message, at most 7) such that every data packet ever emitted carries exactly the bytes of the accepted stream
    [t_written] at position [seq - c]. *)
Theorem sender_honesty s0 ops t :
  init_ok s0 -> run (start s0) ops = Ok t -> len (t_written t) < NW - 8 ->
  exists c, 0 <= c <= 7 /\
    forall p, In (EvPacket p) (t_ev t) -> data_packet p ->
      c <= pkt_seq p /\ pkt_seq p - c + len (pkt_payload p) <= len (t_written t) /\
      pkt_payload p = sub (t_written t) (pkt_seq p - c) (len (pkt_payload p)).
Proof.
  intros Hi Hr Hb.
  assert (HI : SInv (t_written t) (t_sock t) (t_ev t)) by (apply (run_SInv ops (start s0) t); [apply init_SInv; exact Hi|exact Hr|exact Hb]).
  destruct HI as (C & HI). exists (len C). split; [split; [unfold len; lia|apply HI]|].
  intros p Hin (Hne & Hctl). destruct (si_ev _ _ _ _ HI p Hin Hne) as (H1 & H2 & H3 & H4).
  rewrite Hctl in H4. rewrite len_app in H2. split; [exact H4|]. split; [lia|].
  rewrite H3 at 1. apply sub_app_r. exact H4.
Qed.
