(** Arbitrary sequences of socket operations over the pseudo-TCP model, with the two ghost byte strings the C08 statements
    speak about: everything [send] accepted and everything [recv] returned.  Definitions only (no change to the model). *)
From Coq Require Import ZArith List Bool Lia.
From Nice Require Import Base.Bytes Ptcp.PtcpModel.
Import ListNotations.
Local Open Scope Z_scope.

Inductive op :=
| OConnect (now : Z)
| OSend (data : bytes) (now : Z)
| ORecv (n now : Z)
| OPacket (p : bytes) (now : Z)          (* notify_packet with ANY bytes *)
| OClock (now : Z)                       (* notify_clock at any time *)
| ONextClock (timeout now : Z)           (* get_next_clock (it closes the socket down after a shutdown) *)
| OMtu (mtu : Z)
| OShutdown (how now : Z)
| OClose (force : bool) (now : Z)
| OSetRcvBuf (n : Z)
| OSetSndBuf (n : Z).

(** the prefix of [data] that [send] accepted / the bytes [recv] handed over, from the return value *)
Definition accepted (w : Z) (data : bytes) : bytes := if w >? 0 then firstn (Z.to_nat w) data else [].
Definition delivered (r : Z) (d : bytes) : bytes := if r >? 0 then d else [].

Record trace := mkTrace { t_sock : sock; t_ev : list event; t_written : bytes; t_read : bytes }.
Definition start (s : sock) : trace := {| t_sock := s; t_ev := []; t_written := []; t_read := [] |}.

Definition upd_trace {A} (t : trace) (r : res (A * sock * list event)) (fw fr : A -> bytes) : res trace :=
  match r with
  | Ok (a, s', ev') => Ok {| t_sock := s'; t_ev := ev'; t_written := t_written t ++ fw a; t_read := t_read t ++ fr a |}
  | Fault => Fault
  end.

Definition step (t : trace) (o : op) : res trace :=
  let s := t_sock t in let ev := t_ev t in
  let none {A} (_ : A) : bytes := [] in
  match o with
  | OConnect now => upd_trace t (connect now s ev) none none
  | OSend d now => upd_trace t (send d now s ev) (fun w => accepted w d) none
  | ORecv n now => upd_trace t (recv n now s ev) none (fun r => delivered (fst r) (snd r))
  | OPacket p now => upd_trace t (notify_packet p now s ev) none none
  | OClock now => upd_trace t (notify_clock now s ev) none none
  | ONextClock timeout now => upd_trace t (get_next_clock timeout now s ev) none none
  | OMtu mtu => upd_trace t (notify_mtu mtu s ev) none none
  | OShutdown how now => upd_trace t (shutdown_sock how now s ev) none none
  | OClose force now => upd_trace t (close_sock force now s ev) none none
  | OSetRcvBuf n => upd_trace t (set_rcv_buf n s ev) none none
  | OSetSndBuf n => upd_trace t (set_snd_buf n s ev) none none
  end.

Fixpoint run (t : trace) (ops : list op) : res trace :=
  match ops with
  | [] => Ok t
  | o :: r => match step t o with Ok t' => run t' r | Fault => Fault end
  end.

Lemma step_written t o t' : step t o = Ok t' -> exists x, t_written t' = t_written t ++ x.
Proof.
  unfold step, upd_trace. destruct o;
  match goal with |- match ?r with _ => _ end = _ -> _ => destruct r as [[[a s'] ev']|]; [|discriminate] end;
  intros H; injection H as <-; cbn; eexists; reflexivity.
Qed.

Lemma step_read t o t' : step t o = Ok t' -> exists x, t_read t' = t_read t ++ x.
Proof.
  unfold step, upd_trace. destruct o;
  match goal with |- match ?r with _ => _ end = _ -> _ => destruct r as [[[a s'] ev']|]; [|discriminate] end;
  intros H; injection H as <-; cbn; eexists; reflexivity.
Qed.

Lemma run_written ops : forall t t', run t ops = Ok t' -> exists x, t_written t' = t_written t ++ x.
Proof.
  induction ops as [|o r IH]; intros t t' H; cbn [run] in H.
  - injection H as <-. exists []. symmetry. apply app_nil_r.
  - destruct (step t o) as [t1|] eqn:E; [|discriminate]. destruct (step_written _ _ _ E) as (x & Hx).
    destruct (IH _ _ H) as (y & Hy). exists (x ++ y). rewrite Hy, Hx. symmetry. apply app_assoc.
Qed.

Lemma run_read ops : forall t t', run t ops = Ok t' -> exists x, t_read t' = t_read t ++ x.
Proof.
  induction ops as [|o r IH]; intros t t' H; cbn [run] in H.
  - injection H as <-. exists []. symmetry. apply app_nil_r.
  - destruct (step t o) as [t1|] eqn:E; [|discriminate]. destruct (step_read _ _ _ E) as (x & Hx).
    destruct (IH _ _ H) as (y & Hy). exists (x ++ y). rewrite Hy, Hx. symmetry. apply app_assoc.
Qed.

Lemma run_app ops1 : forall ops2 t, run t (ops1 ++ ops2) = match run t ops1 with Ok t' => run t' ops2 | Fault => Fault end.
Proof. induction ops1 as [|o r IH]; intros ops2 t; cbn [run app]; [reflexivity|]. destruct (step t o); [apply IH|reflexivity]. Qed.
