(** C08, FINDING (two honest sockets, causal network): the hypothesis "connect segments are emitted whole" of [two_way_prefix] cannot be
    dropped.  B's connect message is lost; A's retransmitted connect message makes B acknowledge it with a plain ACK, A (still SYN-SENT)
    answers with a plain ACK, which moves B to ESTABLISHED although A has not seen B's connect message.  B's application writes
    "ABCDEFGHIJ" and lowers the MTU to 119 (mss = 3).  B now retransmits its 7-byte connect message in pieces [0..3) [3..6) [6..7); each
    piece starts with byte 0 (= CTL_CONNECT: the window-scale value is 0 and the FIN-ACK option ends in 0), so A accepts them one by one
    -- advancing rcv_nxt by 3, 3, 1 without moving its receive FIFO -- while the data segment (seq 7), delivered in between, was stored at
    an offset computed with rcv_nxt = 3.  The re-segmented retransmission of the data (3 bytes) then recovers the stored segment from the
    wrong place: A's application reads "ABC\000ABCDEF".  Same family as defect 9a719cf; on the C side it needs
    pseudo_tcp_socket_notify_mtu() with an MTU of 119..122 while the connect message is unacknowledged. *)
From Coq Require Import ZArith List Bool Lia.
From Nice Require Import Base.Bytes Ptcp.PtcpModel Ptcp.PtcpProofs Ptcp.SockOps Ptcp.SenderInvProofs Ptcp.ReceiverInvProofs
                         Ptcp.ReceiverSoundProofs Ptcp.E2EComposeProofs Ptcp.E2ECausalProofs Ptcp.E2EExample.
Import ListNotations.
Local Open Scope Z_scope.

Definition abc : bytes := [65; 66; 67; 68; 69; 70; 71; 72; 73; 74].
Definition sched_split : list iop :=
  [ IA (OConnect 1000); DAB 0 1001;                       (* B answers; the answer is lost *)
    IA (OClock 2100); DAB 1 2101;                         (* A retransmits its connect message; B acknowledges with a plain ACK *)
    DBA 1 2102; DAB 2 2103;                               (* A (SYN-SENT) answers with a plain ACK: B becomes ESTABLISHED *)
    IB (OSend abc 2104);                                  (* B writes 10 bytes: data segment seq 7 *)
    IB (OMtu 119); IB (OClock 2105);                      (* mss = 3: the connect message is retransmitted as [0..3) *)
    DBA 3 2106; DBA 2 2107;                               (* A: ESTABLISHED, rcv_nxt = 3; the data is buffered at offset 4 *)
    DAB 3 2108; IB (OClock 9000); DBA 4 9001;             (* piece [3..6): rcv_nxt = 6 *)
    IA (OClock 9200); DAB 4 9201; IB (OClock 30000); DBA 5 30001;   (* piece [6..7): rcv_nxt = 7 *)
    IA (OClock 30200); DAB 5 30201; IB (OClock 90000); DBA 6 90001; (* data retransmitted as [7..10): commit + recovery *)
    IA (ORecv 100 90002) ].

Definition split_l : list sop := match build st0 sched_split [] with Some (l, _) => l | None => [] end.
Definition split_A : trace := match build st0 sched_split [] with Some (_, (a, _)) => a | None => start (sock_init 7) end.
Definition split_B : trace := match build st0 sched_split [] with Some (_, (_, b)) => b | None => start (sock_init 7) end.

Lemma split_connect_message_corrupts_the_stream :
  sys_run st0 split_l = Ok (split_A, split_B) /\ sys_valid st0 split_l /\
  t_written split_B = abc /\ t_read split_A = [65; 66; 67; 0; 65; 66; 67; 68; 69; 70] /\
  (* B's packets: (seq, flags, payload length) -- the connect message (flags 2) goes out whole once, then in three pieces *)
  map (fun p => (pkt_seq p, pkt_flags p, len (pkt_payload p))) (pkts (t_ev split_B)) =
    [(0, 2, 7); (7, 0, 0); (7, 0, 10); (0, 2, 3); (3, 2, 3); (6, 2, 1); (7, 0, 3)].
Proof.
  split; [vm_compute; reflexivity|]. split; [apply sys_validb_ok; vm_compute; reflexivity|]. vm_compute. repeat split; reflexivity.
Qed.

Lemma split_not_a_prefix : forall k, [65; 66; 67; 0; 65; 66; 67; 68; 69; 70] <> firstn k abc.
Proof. intros k H. do 4 (destruct k as [|k]; [discriminate H|]). cbn in H. discriminate H. Qed.
