(** C08 kernel: receive-side reassembly.  Whatever extents (segments' payloads written beyond the committed data) have been stored, in
    whatever order, with whatever duplication and overlap: if each carries the stream's own bytes at its position and together they cover
    the range being committed, the bytes handed to the reader are exactly the stream's bytes of that range. *)
From Coq Require Import ZArith List Bool Lia.
From Nice Require Import Base.Bytes Ptcp.PtcpModel Ptcp.PtcpProofs.
Import ListNotations.
Local Open Scope Z_scope.

Lemma nth_firstn_lt {A} (l : list A) n i d : (i < n)%nat -> nth i (firstn n l) d = nth i l d.
Proof.
  revert l i; induction n as [|n IH]; intros l i H; [lia|]. destruct l as [|x l]; [destruct i; reflexivity|].
  destruct i as [|i]; [reflexivity|]. cbn [firstn nth]. apply IH. lia.
Qed.

Lemma nth_skipn_plus {A} (l : list A) n i d : nth i (skipn n l) d = nth (n + i) l d.
Proof. revert l; induction n as [|n IH]; intros l; [reflexivity|]. destruct l as [|x l]; [destruct i; reflexivity|]. cbn [skipn plus nth]. apply IH. Qed.

(** pointwise characterisation of [overlay] *)
Lemma overlay_nth base start q d i : (i < length base)%nat ->
  nth i (overlay base start q d) 0 =
  if (q - start <=? Z.of_nat i) && (Z.of_nat i <? q - start + len d) then nth (Z.to_nat (Z.of_nat i - (q - start))) d 0 else nth i base 0.
Proof.
  intros Hi. unfold overlay, len. set (off := q - start).
  destruct (off <? 0) eqn:Eneg.
  - (* the extent starts before the window: its head is cut *)
    replace (Z.max off 0) with 0 by lia. replace (0 >=? Z.of_nat (length base)) with false by lia.
    cbn [Z.to_nat firstn app]. replace (Z.to_nat (Z.of_nat (length base) - 0)) with (length base) by lia. cbn [plus].
    set (d1 := skipn (Z.to_nat (- off)) d). set (d2 := firstn (length base) d1).
    assert (Hl2 : length d2 = Nat.min (length base) (length d1)) by apply firstn_length.
    assert (Hl1 : length d1 = (length d - Z.to_nat (- off))%nat) by apply skipn_length.
    replace (off <=? Z.of_nat i) with true by lia. cbn [andb].
    destruct (Z.of_nat i <? off + Z.of_nat (length d)) eqn:Ein.
    + assert (i < length d2)%nat by lia. rewrite app_nth1 by assumption. unfold d2. rewrite nth_firstn_lt by lia. unfold d1. rewrite nth_skipn_plus.
      f_equal. lia.
    + assert (length d2 <= i)%nat by lia. rewrite app_nth2 by assumption. rewrite nth_skipn_plus. f_equal. lia.
  - replace (Z.max off 0) with off by lia.
    destruct (off >=? Z.of_nat (length base)) eqn:Ebig.
    + replace ((off <=? Z.of_nat i) && (Z.of_nat i <? off + Z.of_nat (length d))) with false by lia. reflexivity.
    + set (d2 := firstn (Z.to_nat (Z.of_nat (length base) - off)) d).
      assert (Hl2 : length d2 = Nat.min (Z.to_nat (Z.of_nat (length base) - off)) (length d)) by apply firstn_length.
      assert (Hlf : length (firstn (Z.to_nat off) base) = Z.to_nat off) by (rewrite firstn_length; lia).
      destruct (off <=? Z.of_nat i) eqn:Ege; cbn [andb].
      * rewrite app_nth2 by lia. rewrite Hlf.
        destruct (Z.of_nat i <? off + Z.of_nat (length d)) eqn:Ein.
        -- rewrite app_nth1 by lia. unfold d2. rewrite nth_firstn_lt by lia. f_equal. lia.
        -- rewrite app_nth2 by lia. rewrite nth_skipn_plus. f_equal. lia.
      * rewrite app_nth1 by lia. apply nth_firstn_lt. lia.
Qed.

Definition coveredb (fut : list (Z * bytes)) (p : Z) : bool :=
  existsb (fun e => (fst e <=? p) && (p <? fst e + len (snd e))) fut.

(** an extent carries the stream's own bytes at its position *)
Definition consistent (S : bytes) (e : Z * bytes) : Prop :=
  0 <= fst e /\ fst e + len (snd e) <= len S /\ forall j, (j < length (snd e))%nat -> nth j (snd e) 0 = nth (Z.to_nat (fst e) + j) S 0.

Lemma fut_bytes_length fut total n : length (fut_bytes fut total n) = n.
Proof.
  unfold fut_bytes. induction fut as [|e fut IH]; cbn [fold_right].
  - pose proof (len_zeros n) as L. unfold len in L. lia.
  - pose proof (overlay_len (fold_right (fun e acc => overlay acc total (fst e) (snd e)) (zeros n) fut) total (fst e) (snd e)) as L. unfold len in L. lia.
Qed.

Lemma nth_zeros n i : nth i (zeros n) 0 = 0.
Proof. unfold zeros. revert i; induction n as [|n IH]; intros [|i]; cbn; auto. Qed.

Lemma fut_bytes_nth S fut total n i : 0 <= total -> Forall (consistent S) fut -> (i < n)%nat ->
  nth i (fut_bytes fut total n) 0 = if coveredb fut (total + Z.of_nat i) then nth (Z.to_nat total + i) S 0 else 0.
Proof.
  intros Ht Hc Hi. induction fut as [|e fut IH].
  - cbn [coveredb existsb]. unfold fut_bytes. cbn [fold_right]. apply nth_zeros.
  - inversion Hc as [|e' fut' He Hrest]; subst. specialize (IH Hrest).
    change (fut_bytes (e :: fut) total n) with (overlay (fut_bytes fut total n) total (fst e) (snd e)).
    rewrite overlay_nth by (rewrite fut_bytes_length; exact Hi).
    cbn [coveredb existsb]. fold (coveredb fut (total + Z.of_nat i)).
    replace ((fst e <=? total + Z.of_nat i) && (total + Z.of_nat i <? fst e + len (snd e)))
      with ((fst e - total <=? Z.of_nat i) && (Z.of_nat i <? fst e - total + len (snd e))) by lia.
    destruct ((fst e - total <=? Z.of_nat i) && (Z.of_nat i <? fst e - total + len (snd e))) eqn:Ein; cbn [orb]; [|exact IH].
    destruct He as (H0 & Hfit & Hbytes). unfold len in *. rewrite Hbytes by lia. f_equal. lia.
Qed.

(** Reassembly delivers the stream: if every stored extent is consistent with the stream [S] and the [n] positions from [total] on are
    all covered, committing them yields exactly [S]'s bytes at those positions — for any order, duplication and overlap of the extents. *)
Theorem reassembly_delivers_the_stream S fut total n :
  0 <= total -> total + Z.of_nat n <= len S -> Forall (consistent S) fut ->
  (forall i, (i < n)%nat -> coveredb fut (total + Z.of_nat i) = true) ->
  fut_bytes fut total n = firstn n (skipn (Z.to_nat total) S).
Proof.
  intros Ht Hfit Hc Hcov. unfold len in Hfit.
  apply (nth_ext _ _ 0 0).
  - rewrite fut_bytes_length, firstn_length, skipn_length. lia.
  - intros i Hi. rewrite fut_bytes_length in Hi. rewrite (fut_bytes_nth S) by assumption. rewrite Hcov by exact Hi.
    rewrite nth_firstn_lt by exact Hi. rewrite nth_skipn_plus. reflexivity.
Qed.

(** positions no extent covers read as zero (never-written ring memory is not exposed as stream data: commit is only ever asked for covered ranges, see the model's [rb_commit] callers) *)
Lemma uncovered_reads_zero S fut total n i : 0 <= total -> Forall (consistent S) fut -> (i < n)%nat ->
  coveredb fut (total + Z.of_nat i) = false -> nth i (fut_bytes fut total n) 0 = 0.
Proof. intros Ht Hc Hi Hn. rewrite (fut_bytes_nth S) by assumption. rewrite Hn. reflexivity. Qed.

Example reassembly_nonvacuous :
  let S := [10; 11; 12; 13; 14; 15; 16; 17] in
  fut_bytes [(4, [14; 15]); (2, [12; 13; 14]); (5, [15; 16; 17]); (2, [12])] 2 5 = [12; 13; 14; 15; 16].
Proof. reflexivity. Qed.

(** the same at the level of the receive FIFO: committing [n] covered bytes appends the stream's next [n] bytes to the readable data *)
Corollary rb_commit_appends_stream S f n f2 :
  0 <= rb_total f -> 0 <= n -> rb_total f + n <= len S -> Forall (consistent S) (rb_fut f) ->
  (forall i, (i < Z.to_nat n)%nat -> coveredb (rb_fut f) (rb_total f + Z.of_nat i) = true) ->
  rb_commit f n = Ok f2 ->
  rb_data f2 = rb_data f ++ firstn (Z.to_nat n) (skipn (Z.to_nat (rb_total f)) S) /\ rb_total f2 = rb_total f + n.
Proof.
  intros Ht Hn Hfit Hc Hcov H. unfold rb_commit in H. destruct (rb_cap f - rb_n f <? n); [discriminate|]. injection H as <-.
  cbn [rb_data rb_total RecordSet.set]. split; [|reflexivity]. f_equal.
  apply reassembly_delivers_the_stream; try assumption. lia.
Qed.
