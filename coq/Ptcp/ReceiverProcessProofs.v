(** C08, receiver soundness, continued: the walk through [process] on the receive side, phase by phase (ProcessPhases.v), the public
    entry points, and the theorem over all sequences of operations.  The model is untouched. *)
From Coq Require Import ZArith List Bool Lia ZifyBool.
From RecordUpdate Require Import RecordSet.
From Nice Require Import Base.Bytes Ptcp.PtcpModel Ptcp.PtcpProofs Ptcp.ReassemblyProofs Ptcp.PtcpHoare Ptcp.SockOps Ptcp.SenderInvProofs
                         Ptcp.ReceiverInvProofs Ptcp.ProcessPhases.
Import ListNotations.
Import RecordSetNotations.
Local Open Scope Z_scope.
Local Open Scope bool_scope.

Definition PDdef (S : bytes) (cl : Z) (R : bytes) (rf : bool) (s' : sock) : Prop :=
  rinv S cl R s' /\
  (rf = true -> rcv_nxt s' = len S /\ 0 < cl /\ data_ok S cl (len S) (rbuf s') (rlist s') R /\ ctl_ok S cl s').
Definition adv_rcv (n : Z) (s0 : sock) : sock := s0 <| rcv_nxt := w32 (rcv_nxt s0 + n) |>.

(** ---- control phase ---- *)
Lemma ctl_phase_rspec S cl R seg now s ev :
  rinv S cl R s -> honest S cl now seg -> state s <> CLOSED ->
  wp (ctl_phase seg) s ev (fun ctl s' _ => match ctl with Some _ => rinv S cl R s' | None => mid S cl R seg s' end).
Proof.
  intros HI Hh Hncl. unfold ctl_phase.
  destruct (has_flag (g_flags seg) FLAG_CTL) eqn:Ectl; [|wp_prims; apply rinv_mid; assumption].
    destruct (g_data seg) as [|c0 opts] eqn:Edata; [wp_prims; exact HI|].
    destruct (c0 =? 0); [|wp_prims; exact HI].
    assert (Hd : g_data seg <> []) by (rewrite Edata; discriminate).
    destruct Hh as (Hh1 & Hh2). destruct (Hh1 Hd) as (Q0 & Q1 & Q2 & Q3). rewrite Ectl in Q3. destruct Q3 as (Q3 & Q4 & Q5).
    assert (Eo : opts = Oof S cl).
    { unfold Oof. rewrite Q3, Q4 in Q2. unfold sub in Q2. cbn [Z.to_nat skipn] in Q2. rewrite <- Q2, Edata. reflexivity. }
    destruct HI as (HC & Hz). rewrite Eo.
    eapply wp_bind_spec; [apply (parse_options_modes S cl R s ev HC)|]. cbv beta. intros _ s1 ev1 (HC1 & St1 & Rn1 & Nr1 & G1).
    wp_prims.
    apply (wp_bind_spec _ _ _ _ (fun _ s' _ => mid S cl R seg s')); [|cbv beta; intros _ s2 ev2 H2; wp_prims; exact H2].
    destruct (state s1) eqn:Est;
      try (wp_prims; split; [exact HC1|]; intros Z0; exfalso; rewrite Rn1 in Z0; specialize (Hz Z0); rewrite <- St1 in Hz;
           first [discriminate Hz | apply Hncl; symmetry; exact St1]).
    - (* LISTEN *)
      assert (Nr : NR (Oof S cl) s1).
      { destruct Nr1 as [N|N]; [exact N|]. exfalso.
        destruct HC as [_ _ _ _ [P|[(pos & fin & _ & _ & _ & _ & _ & (C1 & _))|(_ & _ & _ & _ & C1 & _)]]];
          [destruct P as (_ & _ & P3 & _); lia|rewrite <- St1 in C1; discriminate C1|rewrite <- St1 in C1; discriminate C1]. }
      eapply wp_bind_spec.
      { unfold set_state. wp_prims. rewrite Est. cbn [st_eqb st_num Z.eqb transition_ok]. wp_prims.
        instantiate (1 := fun _ s' _ => s' = s1 <| state := SYN_RECEIVED |>). reflexivity. }
      cbv beta. intros _ s2 ev2 ->.
      eapply wp_conseq; [apply queue_connect_rframes|]. cbv beta. intros _ s3 _ F3.
      eapply mid_frame; [|exact F3|cbn; intros L; discriminate L]. split.
      + destruct HC1 as [A1 A2 A3 A4 A5]. constructor; try assumption.
        destruct A5 as [P|[(pos & fin & _ & _ & _ & _ & _ & (C1 & _))|(_ & _ & _ & _ & C1 & _)]];
          [left; exact P|rewrite Est in C1; discriminate C1|rewrite Est in C1; discriminate C1].
      + intros _. right. split; [exact Ectl|]. split; [exact Hd|]. split; [reflexivity|]. split; [exact Nr|exact G1].
    - (* SYN_SENT *)
      assert (Nr : NR (Oof S cl) s1).
      { destruct Nr1 as [N|N]; [exact N|]. exfalso.
        destruct HC as [_ _ _ _ [P|[(pos & fin & _ & _ & _ & _ & _ & (C1 & _))|(_ & _ & _ & _ & C1 & _)]]];
          [destruct P as (_ & _ & P3 & _); lia|rewrite <- St1 in C1; discriminate C1|rewrite <- St1 in C1; discriminate C1]. }
      unfold set_state_established. eapply wp_bind_spec.
      { unfold set_state. wp_prims. rewrite Est. cbn [st_eqb st_num Z.eqb transition_ok]. wp_prims.
        instantiate (1 := fun _ s' _ => s' = s1 <| state := ESTABLISHED |>). reflexivity. }
      cbv beta. intros _ s2 ev2 ->.
      eapply wp_bind_rfr; [apply adjustMTU_rframes|]. intros _ s3 ev3 F3. wp_prims.
      eapply mid_frame; [|exact F3|cbn; intros L; discriminate L]. split.
      + destruct HC1 as [A1 A2 A3 A4 A5]. constructor; try assumption.
        destruct A5 as [P|[(pos & fin & _ & _ & _ & _ & _ & (C1 & _))|(_ & _ & _ & _ & C1 & _)]];
          [left; exact P|rewrite Est in C1; discriminate C1|rewrite Est in C1; discriminate C1].
      + intros _. right. split; [exact Ectl|]. split; [exact Hd|]. split; [reflexivity|]. split; [exact Nr|exact G1]. 
Qed.

(** ---- acknowledgement phase: receive side untouched; a rejected segment means CLOSED or a bad timestamp echo ---- *)
Lemma ack_phase_rspec seg now s ev :
  wp (ack_phase seg now s) s ev (fun r s' _ => same_rcv s s' /\
      (fst r = false -> state s' = CLOSED \/ ((g_tsecr seg =? 0) || (time_diff now (g_tsecr seg) >=? 0)) = false)).
Proof.
  unfold ack_phase; cbv zeta.
    destruct (LARGER (g_ack seg) (snd_una s) && SMALLER_OR_EQUAL (g_ack seg) (snd_nxt s)).
    - apply (wp_bind_spec _ _ _ _ (fun ok s' _ => same_rcv s s' /\
               (ok = false -> ((g_tsecr seg =? 0) || (time_diff now (g_tsecr seg) >=? 0)) = false))).
      { destruct (g_tsecr seg =? 0); cbn [negb orb]; [wp_prims; split; [apply same_rcv_refl|discriminate]|].
        destruct (time_diff now (g_tsecr seg) >=? 0); wp_prims; [|split; [apply same_rcv_refl|reflexivity]].
        split; [|discriminate]. destruct (rx_srtt s =? 0); rsame_triv. }
      cbv beta. intros rttok s1 ev2 (F1 & Hrt).
      destruct rttok; cbn [negb]; [|wp_prims; split; [exact F1|intros _; right; apply Hrt; reflexivity]]. wp_prims.
      destruct (ack_slist _ _ _ _) as [[sl lg]|]; [|apply wp_fault]. wp_prims.
      match goal with |- wp _ ?s2 _ _ => assert (F2 : same_rcv s s2) by (eapply same_rcv_trans; [exact F1|rsame_triv]);
                                         set (s2' := s2) in *; clearbody s2' end.
      destruct (dup_acks s2' >=? 3).
      + destruct (LARGER_OR_EQUAL _ _); [wp_prims; split; [eapply same_rcv_trans; [exact F2|rsame_triv]|discriminate]|].
        destruct (_ && _); [wp_prims; split; [exact F2|discriminate]|].
        apply (wp_bind_spec _ _ _ _ (fun _ s' _ => same_rcv s s')).
        { destruct (slist s2'); [apply wp_fault|]. eapply wp_conseq; [apply transmit_rframes|]. cbv beta. intros; rfr_chain. }
        cbv beta. intros st s3 ev3 F3. destruct (negb (st =? 0)).
        * eapply wp_bind_spec; [apply closedown_rspec|]. cbv beta. intros _ s4 ev4 (F4 & E4). wp_prims.
          split; [rfr_chain|intros _; left; exact E4].
        * wp_prims. split; [eapply same_rcv_trans; [exact F3|rsame_triv]|discriminate].
      + wp_prims. split; [eapply same_rcv_trans; [exact F2|rsame_triv]|discriminate].
    - destruct (g_ack seg =? snd_una s); [|wp_prims; split; [apply same_rcv_refl|discriminate]]. wp_prims.
      match goal with |- wp _ ?s2 _ _ => assert (F2 : same_rcv s s2) by rsame_triv; set (s2' := s2) in *; clearbody s2' end.
      destruct (len (g_data seg) >? 0); [wp_prims; split; [exact F2|discriminate]|].
      destruct (negb (snd_una s2' =? snd_nxt s2')); [|wp_prims; split; [eapply same_rcv_trans; [exact F2|rsame_triv]|discriminate]].
      wp_prims.
      match goal with |- wp _ ?s3 _ _ => assert (F3 : same_rcv s s3) by (eapply same_rcv_trans; [exact F2|rsame_triv]);
                                         set (s3' := s3) in *; clearbody s3' end.
      destruct (dup_acks s3' =? 3).
      + destruct (_ || _); [|wp_prims; split; [exact F3|discriminate]].
        apply (wp_bind_spec _ _ _ _ (fun _ s' _ => same_rcv s s')).
        { destruct (slist s3'); [apply wp_fault|]. eapply wp_conseq; [apply transmit_rframes|]. cbv beta. intros; rfr_chain. }
        cbv beta. intros st s4 ev4 F4. destruct (negb (st =? 0)).
        * eapply wp_bind_spec; [apply closedown_rspec|]. cbv beta. intros _ s5 ev5 (F5 & E5). wp_prims.
          split; [rfr_chain|intros _; left; exact E5].
        * wp_prims. split; [eapply same_rcv_trans; [exact F4|rsame_triv]|discriminate].
      + destruct (dup_acks s3' >? 3); [|wp_prims; split; [exact F3|discriminate]].
        apply wp_bind_when; intros _; wp_prims; (split; [|discriminate]); [eapply same_rcv_trans; [exact F3|rsame_triv]|exact F3]. 
Qed.

(* a segment that is not rejected leaves the state alone in this phase *)
Lemma ack_phase_state seg now s ev :
  wp (ack_phase seg now s) s ev (fun r s' _ => fst r = true -> state s' = state s).
Proof.
  unfold ack_phase; cbv zeta.
      destruct (LARGER (g_ack seg) (snd_una s) && SMALLER_OR_EQUAL (g_ack seg) (snd_nxt s)).
      - apply (wp_bind_spec _ _ _ _ (fun _ s' _ => state s' = state s)).
        { destruct (negb (g_tsecr seg =? 0)); [|wp_prims; reflexivity].
          destruct (time_diff now (g_tsecr seg) >=? 0); wp_prims; [|reflexivity]. destruct (rx_srtt s =? 0); reflexivity. }
        cbv beta. intros rttok s1 ev2 E1. destruct (negb rttok); [wp_prims; discriminate|]. wp_prims.
        destruct (ack_slist _ _ _ _) as [[sl lg]|]; [|apply wp_fault]. wp_prims.
        match goal with |- wp _ ?s2 _ _ => assert (E2 : state s2 = state s) by exact E1; set (s2' := s2) in *; clearbody s2' end.
        destruct (dup_acks s2' >=? 3).
        + destruct (LARGER_OR_EQUAL _ _); [wp_prims; intros _; rewrite <- E2; reflexivity|].
          destruct (_ && _); [wp_prims; intros _; rewrite <- E2; reflexivity|].
          apply (wp_bind_spec _ _ _ _ (fun _ s' _ => state s' = state s)).
          { destruct (slist s2'); [apply wp_fault|]. eapply wp_conseq; [apply transmit_state|]. cbv beta. intros; congruence. }
          cbv beta. intros st s3 ev3 E3. destruct (negb (st =? 0)).
          * eapply wp_bind_spec; [apply wp_true|]. cbv beta. intros. wp_prims. discriminate.
          * wp_prims. intros _; rewrite <- E3; reflexivity.
        + wp_prims. intros _; rewrite <- E2; reflexivity.
      - destruct (g_ack seg =? snd_una s); [|wp_prims; reflexivity]. wp_prims.
        match goal with |- wp _ ?s2 _ _ => assert (E2 : state s2 = state s) by reflexivity; set (s2' := s2) in *; clearbody s2' end.
        destruct (len (g_data seg) >? 0); [wp_prims; intros _; rewrite <- E2; reflexivity|].
        destruct (negb (snd_una s2' =? snd_nxt s2')); [|wp_prims; intros _; rewrite <- E2; reflexivity].
        wp_prims.
        match goal with |- wp _ ?s3 _ _ => assert (E3 : state s3 = state s) by exact E2; set (s3' := s3) in *; clearbody s3' end.
        destruct (dup_acks s3' =? 3).
        + destruct (_ || _); [|wp_prims; intros _; rewrite <- E3; reflexivity].
          apply (wp_bind_spec _ _ _ _ (fun _ s' _ => state s' = state s)).
          { destruct (slist s3'); [apply wp_fault|]. eapply wp_conseq; [apply transmit_state|]. cbv beta. intros; congruence. }
          cbv beta. intros st s4 ev4 E4. destruct (negb (st =? 0)).
          * eapply wp_bind_spec; [apply wp_true|]. cbv beta. intros. wp_prims. discriminate.
          * wp_prims. intros _; rewrite <- E4; reflexivity.
        + destruct (dup_acks s3' >? 3); [|wp_prims; intros _; rewrite <- E3; reflexivity].
          apply wp_bind_when; intros _; wp_prims; intros _; rewrite <- E3; reflexivity. 
Qed.

(** ---- FIN phase ---- *)
Lemma fin_phase_rspec S cl R seg now is_fin_ack s ev3 :
  mid S cl R seg s -> honest S cl now seg ->
  wp (fin_phase seg is_fin_ack s) s ev3 (fun finr s' _ =>
    exists s2, mid S cl R seg s2 /\ (same_rcv s2 s' /\ (lsn_st (state s2) = true -> state s' = state s2)) /\
               finr = Some (if support_fin_ack s then rfx seg s2 else false) /\ support_fin_ack s2 = support_fin_ack s).
Proof.
  intros HM Hh. unfold fin_phase; cbv zeta.
  destruct (support_fin_ack s) eqn:Esfa; [|wp_prims; exists s; split; [exact HM|]; split; [split; [apply same_rcv_refl|reflexivity]|split; [reflexivity|exact Esfa]]].
    apply (wp_bind_spec _ _ _ _ (fun _ s' _ => mid S cl R seg s' /\ support_fin_ack s' = true)).
    { apply wp_when; intros Ef; [|split; assumption]. wp_prims. split; [|exact Esfa].
      destruct Hh as (_ & Hh2). specialize (Hh2 Ef).
      destruct HM as ([A1 A2 A3 A4 A5] & Hz). split; [|exact Hz].
      constructor; try assumption. right; cbn; exact Hh2. }
    cbv beta. intros _ s2 ev4 (HM2 & Esfa2).
    destruct (has_flag (g_flags seg) FLAG_FIN && negb (len (g_data seg) =? 0)) eqn:Efd.
    { exfalso. apply andb_prop in Efd. destruct Efd as (Ef & En). destruct Hh as (Hh1 & Hh2). specialize (Hh2 Ef).
      assert (Hd : g_data seg <> []) by (intros E0; rewrite E0 in En; discriminate En).
      destruct (Hh1 Hd) as (_ & Q1 & _). destruct (g_data seg); [congruence|]. unfold len in *. cbn [length] in *. lia. }
    wp_prims. fold (rfx seg s2).
    apply (wp_bind_spec _ _ _ _ (fun _ s' _ => same_rcv s2 s' /\ (lsn_st (state s2) = true -> state s' = state s2)));
      [|cbv beta; intros _ s3 ev5 F3; wp_prims; exists s2; split; [exact HM2|]; split; [exact F3|split; [reflexivity|exact Esfa2]]].
    assert (Hnl : forall (m : M unit), rframes m -> lsn_st (state s2) = false ->
              wp m s2 ev4 (fun _ s' _ => same_rcv s2 s' /\ (lsn_st (state s2) = true -> state s' = state s2))).
    { intros m Hm Hl. eapply wp_conseq; [apply Hm|]. cbv beta. intros _ s' _ F. split; [exact F|rewrite Hl; intros L; discriminate L]. }
    destruct (state s2) eqn:Est2; try (wp_prims; split; [apply same_rcv_refl|intros _; exact Est2]);
      (apply Hnl; [|reflexivity]); intros s' ev';
      repeat match goal with |- wp (if ?b then _ else _) _ _ _ => destruct b end;
      try (apply wp_when; intros _; [|apply same_rcv_refl]);
      first [apply set_state_rframes; discriminate | apply set_state_closed_rframes]. 
Qed.

(** ---- data phase ---- *)
Lemma data_phase_rspec S cl R seg now rf s ev5 :
  mid S cl R seg s -> honest S cl now seg -> rf = (if support_fin_ack s then rfx seg s else false) ->
  wp (let '(seq1, data1) := trim_left seg s in data_phase seg rf s seq1 data1) s ev5 (fun _ s' _ => PDdef S cl R rf s').
Proof.
  intros HM Hh Erf. change (trim_left seg s) with (trimL (g_seq seg) (g_data seg) (rcv_nxt s)).
  destruct HM as (HC & Hz). pose proof HC as [NWr Hcl Hcl2 Hfin Hmode].
  assert (Hrn : 0 <= rcv_nxt s < NW).
  { destruct Hmode as [P|[(pos & fin & L1 & L2 & L3 & _)|(_ & _ & _ & D & _)]]; [destruct P as (P & _); unfold NW; lia| |lia].
    destruct fin; lia. }
  assert (Hsl : g_data seg <> [] -> slice_at S (g_seq seg) (g_data seg)).
  { intros Hd. destruct Hh as (Hh1 & _). destruct (Hh1 Hd) as (Q0 & Q1 & Q2 & _). repeat split; assumption. }
  pose proof (trimL_ok S (g_seq seg) (g_data seg) (rcv_nxt s) NWr Hrn Hsl) as Ht.
  destruct (trimL (g_seq seg) (g_data seg) (rcv_nxt s)) as [seq1 data1]. cbn [fst snd] in Ht. destruct Ht as (Ht1 & Ht2 & Ht3).
  unfold data_phase; cbv zeta.
  set (data2' := if w32 (seq1 + len data1 - rcv_nxt s) >? rb_remaining s
                 then (if w32 (seq1 + len data1 - rcv_nxt s - rb_remaining s) <? len data1
                       then firstn (Z.to_nat (len data1 - w32 (seq1 + len data1 - rcv_nxt s - rb_remaining s))) data1 else [])
                 else data1) in *.
  assert (Ed2' : data2' = trimR seq1 data1 (rcv_nxt s) (rb_remaining s)) by reflexivity.
  clearbody data2'.
  remember (if negb (has_flag (g_flags seg) FLAG_CTL) && (st_eqb (state s) LISTEN || st_eqb (state s) SYN_SENT) then [] else data2') as data2 eqn:Edata2.
  (* what a received FIN means *)
  assert (Hrf : rf = true -> g_seq seg = rcv_nxt s /\ len (g_data seg) <= rb_remaining s /\ rcv_nxt s + len (g_data seg) = len S /\
                             0 < cl <= rcv_nxt s /\ data_ok S cl (rcv_nxt s) (rbuf s) (rlist s) R /\ ctl_ok S cl s).
  { intros E. rewrite E in Erf. destruct (support_fin_ack s) eqn:Esfa; [|discriminate Erf]. symmetry in Erf. unfold rfx in Erf.
    apply andb_prop in Erf. destruct Erf as (Erf & E4). apply andb_prop in Erf. destruct Erf as (Erf & E3).
    apply andb_prop in Erf. destruct Erf as (E1 & E2).
    assert (Hl0 : 0 <= len (g_data seg)) by (unfold len; lia).
    destruct Hmode as [P|[(pos & fin & L1 & L2 & L3 & L4 & L5 & L6)|(D1 & _)]]; [destruct P as (P & _); lia| |congruence].
    assert (Hq : g_seq seg = rcv_nxt s) by lia.
    assert (Hb : rcv_nxt s + len (g_data seg) <= len S + 1 + len (g_data seg)) by (destruct fin; lia).
    assert (Hle : len (g_data seg) <= len S).
    { destruct (g_data seg) eqn:Ed; [unfold len; cbn; lia|]. rewrite <- Ed in *.
      assert (Hne : g_data seg <> []) by (rewrite Ed; discriminate). destruct (Hsl Hne) as (S1 & S2 & _). lia. }
    rewrite w32_small in E4 by (unfold NW, M32 in *; destruct fin; lia).
    destruct fin.
    - exfalso. specialize (L4 eq_refl). destruct Hfin; lia.
    - replace (pos + 0) with pos in L1 by lia. rewrite L1 in *. destruct Hfin as [F0|F0]; [lia|].
      split; [lia|]. split; [lia|]. split; [lia|]. split; [lia|]. split; [exact L5|exact L6]. }
  (* a whole in-sequence segment that fits is stored whole (unless the state blanks it) *)
  assert (Hwhole : g_seq seg = rcv_nxt s -> len (g_data seg) <= rb_remaining s -> seq1 = rcv_nxt s /\ data2' = g_data seg).
  { intros Eq Hfit. specialize (Ht2 Eq). injection Ht2 as -> ->. split; [exact Eq|]. rewrite Ed2'.
    destruct (g_data seg) eqn:Ed.
    - unfold trimR. cbn [len length Z.of_nat]. assert (E : (w32 (g_seq seg + 0 - rcv_nxt s - rb_remaining s) <? 0) = false) by (unfold w32, M32; lia).
      rewrite E. destruct (_ >? _); reflexivity.
    - rewrite <- Ed in *. assert (Hne : g_data seg <> []) by (rewrite Ed; discriminate).
      apply (trimR_ok S); [apply Hsl; exact Hne| |]; destruct (Hsl Hne) as (S1 & S2 & _); unfold len, NW, M32 in *; lia. }
  assert (Hd2 : data2 <> [] -> data2 = data2' /\ slice_at S seq1 data2 /\ rcv_nxt s <= seq1 /\ g_seq seg <= seq1 /\
                              seq1 + len data1 = g_seq seg + len (g_data seg) /\ g_data seg <> [] /\ len data2 <= len data1 /\
                              (negb (has_flag (g_flags seg) FLAG_CTL) && (st_eqb (state s) LISTEN || st_eqb (state s) SYN_SENT)) = false).
  { intros Hne. rewrite Edata2 in Hne |- *. destruct (negb _ && _) eqn:Ebl; [congruence|]. split; [reflexivity|].
    destruct Ht1 as [E1|(T1 & T2 & T3 & T4 & T5)].
    - exfalso. apply Hne. rewrite Ed2', E1. unfold trimR. cbn [len length Z.of_nat].
      assert (E : (w32 (seq1 + 0 - rcv_nxt s - rb_remaining s) <? 0) = false) by (unfold w32, M32; lia). rewrite E. destruct (_ >? _); reflexivity.
    - destruct (trimR_ok S seq1 data1 (rcv_nxt s) (rb_remaining s) T1) as (R1 & _). rewrite <- Ed2' in R1.
      split; [exact R1|]. split; [exact T2|]. split; [exact T3|]. split; [exact T4|]. split.
      + intros E0. rewrite E0 in T4. apply T5. destruct data1; [reflexivity|]. unfold len in T4. cbn [length] in T4. lia.
      + split; [|reflexivity]. rewrite Ed2'. unfold trimR. destruct (_ >? _); [|lia]. destruct (_ <? _); [|unfold len; cbn; lia].
        unfold len. rewrite firstn_length. lia. }
  destruct (len data2 >? 0) eqn:El2.
  2:{ (* nothing to store *)
    wp_prims. unfold PDdef.
    assert (Hd2e : data2 = []) by (destruct data2; [reflexivity|unfold len in El2; cbn [length] in El2; lia]).
    assert (Hzz : rcv_nxt s = 0 -> pre_st (state s) = true).
    { intros Z0. destruct (Hz Z0) as [(P & _)|(T1 & T2 & T3)]; [destruct (state s); try discriminate P; reflexivity|].
      exfalso. destruct Hmode as [P|[(pos & fin & L1 & L2 & _)|(_ & _ & _ & D & _)]]; [|destruct fin; lia|lia].
      destruct P as (_ & _ & P3 & _ & _ & _ & _ & P8).
      destruct Hh as (Hh1 & _). destruct (Hh1 T2) as (_ & _ & _ & Q3). rewrite T1 in Q3. destruct Q3 as (Q3 & Q4 & _).
      destruct (Hwhole ltac:(lia) ltac:(unfold rb_remaining; lia)) as (_ & Hw).
      rewrite Edata2 in Hd2e. rewrite T1 in Hd2e. cbn [negb andb] in Hd2e. congruence. }
    split; [split; [exact HC|exact Hzz]|].
    intros E. destruct (Hrf E) as (G1 & G2 & G3 & G4 & G5 & G6 & G7 & G8).
    destruct (Hwhole G1 G2) as (_ & Hw).
    assert (Hl0 : len (g_data seg) = 0).
    { rewrite Edata2 in Hd2e.
      replace (st_eqb (state s) LISTEN || st_eqb (state s) SYN_SENT) with false in Hd2e by (destruct (state s); try discriminate G6; reflexivity).
      rewrite andb_false_r in Hd2e. rewrite <- Hw, Hd2e. reflexivity. }
    split; [lia|]. split; [lia|]. replace (len S) with (rcv_nxt s) by lia. split; [exact G5|]. split; [exact G6|]. split; assumption. }
  assert (Hne2 : data2 <> []) by (intros E0; rewrite E0 in El2; discriminate El2).
  destruct (Hd2 Hne2) as (Q1 & Q2 & Q3 & Q4 & Q5 & Q6 & Q7 & Q8). destruct Q2 as (Q2a & Q2b & Q2c).
  assert (Hl2 : 0 < len data2) by lia.
  assert (Hd1ne : data1 <> []) by (intros E0; rewrite E0 in Q7; change (len []) with 0 in Q7; lia).
  assert (Hpre_no : pre0 cl R s -> has_flag (g_flags seg) FLAG_CTL = true /\ trans_ok S cl seg s).
  { intros (P1 & _). destruct (Hz P1) as [(L1 & L2)|T]; [|split; [apply T|exact T]].
    exfalso. rewrite L2 in Q8. cbn [negb andb] in Q8. destruct (state s); try discriminate L1; discriminate Q8. }
  destruct (has_flag (g_flags seg) FLAG_CTL || negb (support_fin_ack s) && negb match shutdown s with SD_NONE => true | _ => false end) eqn:Eign.
  - (* the payload is not stored: a connect message, or reading was shut down without FIN-ACK *)
    assert (Hrff : rf = false).
    { destruct rf; [|reflexivity]. exfalso. destruct (Hrf eq_refl) as (G1 & G2 & G3 & G4 & G5 & G6).
      destruct (support_fin_ack s) eqn:Esfa; [|discriminate Erf].
      destruct (has_flag (g_flags seg) FLAG_CTL) eqn:Ectl; [|cbn in Eign; discriminate Eign].
      destruct Hh as (Hh1 & _). destruct (Hh1 Q6) as (_ & _ & _ & Q). rewrite Ectl in Q. lia. }
    assert (Hadv : seq1 = rcv_nxt s -> PDdef S cl R rf (adv_rcv (len data2) s)).
    { intros Eseq. unfold PDdef. rewrite Hrff. split; [|discriminate].
      assert (Hb : rcv_nxt s + len data2 <= len S) by lia.
      assert (Hw : w32 (rcv_nxt s + len data2) = rcv_nxt s + len data2) by (apply w32_small; unfold NW, M32 in *; lia).
      destruct Hmode as [P|[L|D]].
      - destruct (Hpre_no P) as (Ectl & (_ & T2 & T3)). destruct P as (P1 & P2 & P3 & P4 & P5 & P6 & P7 & P8).
        destruct Hh as (Hh1 & _). destruct (Hh1 T2) as (_ & _ & _ & Q). rewrite Ectl in Q. destruct Q as (Qa & Qb & _).
        destruct (Hwhole ltac:(lia) ltac:(unfold rb_remaining; lia)) as (_ & Hw2).
        assert (El : len data2 = cl) by (rewrite Q1, Hw2; exact Qb).
        split; [|unfold adv_rcv; cbn [rcv_nxt set]; rewrite Hw; lia].
        constructor; try assumption. right; left. exists cl, false. unfold adv_rcv; cbn [rcv_nxt rbuf rlist set state support_fin_ack].
        split; [rewrite Hw; lia|]. split; [lia|]. split; [lia|]. split; [discriminate|]. split; [|exact T3].
        unfold data_ok. rewrite P2, P3, P4, P5, P6, P7. replace (cl - cl) with 0 by lia. cbn. repeat split; try constructor; try lia.
      - (* live: only the shut-down-without-FIN-ACK rule can apply *)
        destruct L as (pos & fin & L1 & L2 & L3 & L4 & L5 & (C1 & C2 & C3)).
        destruct (has_flag (g_flags seg) FLAG_CTL) eqn:Ectl.
        { exfalso. apply Hd1ne. apply Ht3; [exact Q6|]. destruct Hh as (Hh1 & _). destruct (Hh1 Q6) as (_ & _ & _ & Q). rewrite Ectl in Q.
          destruct fin; lia. }
        cbn [orb] in Eign. apply andb_prop in Eign. destruct Eign as (Ei1 & Ei2).
        assert (Esfa : support_fin_ack s = false) by (destruct (support_fin_ack s); [discriminate Ei1|reflexivity]).
        split; [|unfold adv_rcv; cbn [rcv_nxt set]; rewrite Hw; destruct fin; lia].
        constructor; try assumption. right; right. unfold dead, adv_rcv; cbn [rcv_nxt rbuf rlist set state support_fin_ack shutdown].
        split; [exact Esfa|]. split; [destruct (shutdown s); [discriminate Ei2|discriminate|discriminate]|].
        split; [rewrite Esfa in C3; exact C3|]. split; [rewrite Hw; destruct fin; lia|]. split; [exact C1|].
        destruct L5 as (_ & D2 & _ & _ & D5 & D6). split; [exact D5|]. split; [exact D6|]. eexists; exact D2.
      - destruct D as (D1 & D2 & D3 & D4 & D5 & D6 & D7 & D8).
        split; [|unfold adv_rcv; cbn [rcv_nxt set]; rewrite Hw; lia].
        constructor; try assumption. right; right. unfold dead, adv_rcv; cbn [rcv_nxt rbuf rlist set state support_fin_ack shutdown].
        repeat split; try assumption; rewrite Hw; lia. }
    assert (Hstay : seq1 <> rcv_nxt s -> PDdef S cl R rf s).
    { intros Eseq. unfold PDdef. rewrite Hrff. split; [|discriminate]. split; [exact HC|]. intros Z0. exfalso.
      destruct Hmode as [P|[(pos & fin & L1 & L2 & _)|(_ & _ & _ & D & _)]]; [|destruct fin; lia|lia].
      destruct (Hpre_no P) as (Ectl & (_ & T2 & T3)). destruct P as (P1 & P2 & P3 & _ & _ & _ & _ & P8).
      destruct Hh as (Hh1 & _). destruct (Hh1 T2) as (_ & _ & _ & Q). rewrite Ectl in Q. destruct Q as (Qa & Qb & _).
      destruct (Hwhole ltac:(lia) ltac:(unfold rb_remaining; lia)) as (Hs1 & _). lia. }
    apply wp_bind_when; intros Eseq; wp_prims; [apply Hadv; lia|apply Hstay; lia].
  - (* the payload is stored *)
    apply orb_false_elim in Eign. destruct Eign as (Ectl & Eign).
    destruct Hmode as [P|[L|D]].
    { exfalso. destruct (Hpre_no P) as (E & _). congruence. }
    2:{ exfalso. destruct D as (D1 & D2 & _). rewrite D1 in Eign. destruct (shutdown s); [congruence|discriminate Eign|discriminate Eign]. }
    destruct L as (pos & fin & L1 & L2 & L3 & L4 & L5 & L6).
    destruct fin.
    { exfalso. apply Hd1ne. apply Ht3; [exact Q6|]. destruct (Hsl Q6) as (_ & S2 & _). specialize (L4 eq_refl). lia. }
    replace (pos + 0) with pos in L1 by lia. rewrite <- L1 in *. clear L4.
    assert (Hoff : w32 (seq1 - rcv_nxt s) = seq1 - rcv_nxt s) by (apply w32_small; unfold NW, M32 in *; lia).
    rewrite Hoff. rewrite Q2c at 1.
    destruct (rb_write_offset (rbuf s) (sub S seq1 (len data2)) (seq1 - rcv_nxt s)) as [rb1 res] eqn:Ew. wp_prims.
    destruct (data_ok_write S cl Hcl (rcv_nxt s) (rbuf s) (rlist s) R seq1 (len data2) rb1 res L5) as (Hd1 & Hfut & Hcap); try lia; try exact Ew.
    assert (Hcov : forall p, seq1 - cl <= p < seq1 - cl + len data2 -> coveredb (rb_fut rb1) p = true).
    { intros p0 Hp0. rewrite Hfut. apply covered_head; lia. }
    destruct (seq1 =? rcv_nxt s) eqn:Eseq.
    + assert (Es : seq1 = rcv_nxt s) by lia.
      destruct (rb_commit rb1 (len data2)) as [rb2|] eqn:Ec; [|apply wp_fault]. wp_prims.
      destruct (data_ok_commit S cl Hcl (rcv_nxt s) rb1 (rlist s) R (len data2) rb2 Hd1) as (Hd2c & _); try lia; try exact Ec.
      { intros i Hi. apply Hcov. lia. }
      match goal with |- wp _ ?sx _ _ => remember sx as sA eqn:EsA end.
      assert (EnA : rcv_nxt sA = rcv_nxt s + len data2) by (rewrite EsA; cbn [rcv_nxt set]; apply w32_small; unfold NW, M32 in *; lia).
      assert (EbA : rbuf sA = rb2 /\ rlist sA = rlist s /\ state sA = state s /\ support_fin_ack sA = support_fin_ack s /\
                    rwnd_scale sA = rwnd_scale s /\ rbuf_len sA = rbuf_len s /\ rcv_fin sA = rcv_fin s) by (rewrite EsA; cbn; repeat split; reflexivity).
      destruct EbA as (Eb1 & Eb2 & Eb3 & Eb4 & Eb5 & Eb6 & Eb7). clear EsA.
      eapply wp_bind_spec.
      { apply (recover_rlist_rspec S cl R _ _ sA ev5 NWr Hcl); [rewrite EnA; lia|rewrite EnA, Eb1, Eb2; exact Hd2c]. }
      cbv beta. intros sf s' ev6 (B1 & B2 & (C1 & C2 & C3 & C4 & C5 & C6)). wp_prims. rewrite EnA in B1.
      assert (Hctl' : ctl_ok S cl s').
      { destruct L6 as (K1 & K2 & K3). unfold ctl_ok, NR in *. rewrite C1, C2, C5, C6, Eb3, Eb4, Eb5, Eb6. repeat split; assumption. }
      unfold PDdef. split; [split|].
      * constructor; try assumption; [rewrite C4, Eb7; exact Hfin|]. right; left. exists (rcv_nxt s'), false.
        split; [lia|]. split; [lia|]. split; [lia|]. split; [discriminate|]. split; [exact B2|exact Hctl'].
      * intros; lia.
      * intros E. destruct (Hrf E) as (G1 & G2 & G3 & _). destruct (Hwhole G1 G2) as (_ & Hw).
        assert (El : len data2 = len (g_data seg)) by (rewrite Q1, Hw; reflexivity).
        assert (En : rcv_nxt s' = len S) by lia. split; [exact En|]. split; [lia|]. rewrite <- En. split; [exact B2|exact Hctl'].
    + assert (Es : seq1 <> rcv_nxt s) by lia. wp_prims. unfold PDdef. split; [split|].
      * constructor; try assumption. right; left. exists (rcv_nxt s), false. cbn [rcv_nxt rbuf rlist set].
        split; [lia|]. split; [lia|]. split; [lia|]. split; [discriminate|]. split; [|exact L6].
        destruct Hd1 as (D1 & D2 & D3 & D4 & D5 & D6). unfold data_ok. repeat split; try assumption.
        apply Forall_insert_rseg; [exact D4|]. unfold rl_ok; cbn [rs_seq rs_len]. repeat split; try lia.
        intros p0 P1 P2 P3. apply Hcov. lia.
      * cbn [rcv_nxt set]. intros; lia.
      * intros E. exfalso. destruct (Hrf E) as (G1 & G2 & _). destruct (Hwhole G1 G2) as (G & _). lia.

Qed.

(** ---- the whole of [process] ---- *)
Lemma process_tail_rspec S cl R seg now s ev :
  mid S cl R seg s -> honest S cl now seg -> wp (process_tail seg now) s ev (fun _ s' _ => rinv S cl R s').
Proof.
  intros HM Hh. unfold process_tail. wp_prims.
  apply (wp_bind_spec _ _ _ _ (fun _ s' _ => same_rcv s s' /\ state s' = state s)).
  { apply wp_when; intros _; wp_prims; split; [rsame_triv|reflexivity|apply same_rcv_refl|reflexivity]. }
  cbv beta. intros _ s1 ev1 (F1 & St1).
  assert (HM1 : mid S cl R seg s1) by (eapply mid_frame; [exact HM|exact F1|intros _; exact St1]). clear HM F1 St1 s. rename s1 into s, HM1 into HM.
  wp_prims.
  eapply wp_bind_spec; [apply wp_and; [apply ack_phase_rspec|apply ack_phase_state]|].
  cbv beta. intros [cont is_fin_ack] s1 ev2 ((F1 & Hcont) & Hst1). cbn [fst] in Hcont, Hst1.
  destruct cont; cbn [negb].
  2:{ wp_prims. destruct HM as (HC & Hz). split; [eapply rcore_frame; eauto|]. intros Z0.
      destruct (Hcont eq_refl) as [Ec|Ert]; [rewrite Ec; reflexivity|].
      assert (Z1 : rcv_nxt s = 0) by (destruct F1 as (_ & E2 & _); congruence).
      destruct (Hz Z1) as [(P & _)|(T1 & T2 & _)].
      - destruct F1 as (_ & _ & _ & _ & _ & _ & _ & _ & E9 & _). apply E9. destruct (state s); try discriminate P; reflexivity.
      - exfalso. destruct Hh as (Hh1 & _). destruct (Hh1 T2) as (_ & _ & _ & Q3). rewrite T1 in Q3. destruct Q3 as (_ & _ & Q5). congruence. }
  assert (HM1 : mid S cl R seg s1) by (eapply mid_frame; [exact HM|exact F1|intros _; apply Hst1; reflexivity]).
  clear HM F1 Hcont Hst1 s. rename s1 into s, HM1 into HM. wp_prims.
  apply (wp_bind_spec _ _ _ _ (fun _ s' _ => same_rcv s s' /\ (lsn_st (state s) = true -> state s' = state s))).
  { apply wp_when; intros E; [|split; [apply same_rcv_refl|reflexivity]].
    apply andb_prop in E. destruct E as (E & _). apply st_eqb_eq in E.
    eapply wp_conseq; [apply set_state_established_rspec; rewrite E; reflexivity|]. cbv beta. intros _ s' _ F.
    split; [exact F|rewrite E; intros L; discriminate L]. }
  cbv beta. intros _ s1 ev3 (F1 & Hst1). assert (HM1 : mid S cl R seg s1) by (eapply mid_frame; eauto).
  clear HM F1 Hst1 s. rename s1 into s, HM1 into HM. wp_prims.
  eapply wp_bind_spec; [apply (fin_phase_rspec S cl R seg now is_fin_ack s ev3 HM Hh)|].
  cbv beta. intros finr s1 ev4 (s2 & HM2 & (F2 & Hst2) & -> & Esfa2).
  assert (HM1 : mid S cl R seg s1) by (eapply mid_frame; eauto).
  remember (if support_fin_ack s then rfx seg s2 else false) as rf eqn:Erf0.
  assert (Erf : rf = (if support_fin_ack s1 then rfx seg s1 else false)).
  { rewrite Erf0. rewrite <- Esfa2. apply rfx_same. exact F2. }
  clear Erf0 HM HM2 F2 Hst2 Esfa2 s s2. rename s1 into s, HM1 into HM. wp_prims.
  apply (wp_bind_spec _ _ _ _ (fun _ s' _ => same_rcv s s' /\ state s' = state s)).
  { apply wp_when; intros _; wp_prims; split; [rsame_triv|reflexivity|apply same_rcv_refl|reflexivity]. }
  cbv beta. intros _ s1 ev5 (F1 & St1).
  assert (HM1 : mid S cl R seg s1) by (eapply mid_frame; [exact HM|exact F1|intros _; exact St1]).
  rewrite (rfx_same seg s s1 F1) in Erf. clear HM F1 St1 s. rename s1 into s, HM1 into HM. wp_prims.
  pose proof (data_phase_rspec S cl R seg now rf s ev5 HM Hh Erf) as Hdp.
  destruct (trim_left seg s) as [seq1 data1].
  eapply wp_bind_spec; [exact Hdp|]. cbv beta. intros [sflags bNewData] s1 ev6 (HI1 & Hf1).
  apply (wp_bind_spec _ _ _ _ (fun _ s' _ => rinv S cl R s')).
  { apply wp_when; intros Erf1; [|exact HI1]. wp_prims. destruct (Hf1 Erf1) as (G1 & G2 & G3 & G4).
    destruct HI1 as ([B1 B2 B3 B4 B5] & Bz). split.
    - constructor; try assumption. right; left. exists (len S), true. cbn [rcv_nxt rbuf rlist set]. rewrite G1.
      split; [apply w32_small; unfold NW, M32 in *; lia|]. split; [lia|]. split; [lia|]. split; [reflexivity|]. split; [exact G3|exact G4].
    - cbn [rcv_nxt set]. rewrite G1. rewrite w32_small by (unfold NW, M32 in *; lia). intros; lia. }
  cbv beta. intros _ s2 ev7 HI2.
  eapply wp_bind_rfr; [apply attempt_send_rframes|]. intros _ s3 ev8 F3. wp_prims.
  apply wp_bind_when; intros _; wp_prims; eapply rinv_frame; eauto.
Qed.

Lemma process_rspec S cl R seg now s ev :
  rinv S cl R s -> honest S cl now seg -> wp (process seg now) s ev (fun _ s' _ => rinv S cl R s').
Proof.
  intros HI Hh. rewrite process_phases. unfold process_phased. wp_prims.
  destruct (negb (g_conv seg =? conv s)); [wp_prims; exact HI|]. wp_prims.
  match goal with |- wp _ ?s1 _ _ => assert (HI1 : rinv S cl R s1) by (eapply rinv_frame; [exact HI|rsame_triv]); set (s1' := s1) in *; clearbody s1' end.
  clear HI s. rename s1' into s, HI1 into HI.
  destruct (st_eqb (state s) CLOSED || _) eqn:Ecl.
  { apply wp_bind_when; intros _; wp_prims; [|exact HI].
    eapply wp_bind_spec; [apply closedown_rspec|]. cbv beta. intros _ s1 ev1 (F1 & _). wp_prims. eapply rinv_frame; eauto. }
  destruct (has_flag (g_flags seg) FLAG_RST).
  { eapply wp_bind_spec; [apply closedown_rspec|]. cbv beta. intros _ s1 ev1 (F1 & _). wp_prims. eapply rinv_frame; eauto. }
  assert (Hncl : state s <> CLOSED).
  { intros E. rewrite E in Ecl. discriminate Ecl. }
  eapply wp_bind_spec; [apply (ctl_phase_rspec S cl R seg now s ev HI Hh Hncl)|].
  cbv beta. intros [b|] s1 ev1 HM; [wp_prims; exact HM|]. apply process_tail_rspec; assumption.
Qed.
