(** C09, part 4: WINDOW-UPDATE PROGRESS.  When the reader drains a closed receive window ([rcv_wnd = 0]) by at least
    min (rbuf_len / 2, mss), [recv] re-opens the window and -- when the socket has nothing of its own waiting to be
    sent -- emits at once a pure ACK that advertises the new window, so a peer blocked on the zero window is told.
    With data of its own waiting the update rides on the next data segment, EXCEPT when Nagle's rule holds that segment
    back: then nothing is sent by [recv] ([window_update_withheld_by_nagle], a concrete run). *)
From Coq Require Import ZArith List Lia Bool ZifyBool.
From RecordUpdate Require Import RecordSet.
From Nice Require Import Base.Bytes Ptcp.PtcpModel Ptcp.C09Hoare Ptcp.SendSpecs Ptcp.TimerReachProofs.
Import ListNotations.
Import RecordSetNotations.
Local Open Scope Z_scope.
Local Open Scope bool_scope.
Ltac Zify.zify_post_hook ::= Z.div_mod_to_equations.

(* the window and acknowledgement fields of a packet, as the peer parses them *)
Definition pkt_wnd (p : bytes) : Z := be16 (nth 14 p 0) (nth 15 p 0).
Definition pkt_ack (p : bytes) : Z := be32_of (nth 8 p 0) (nth 9 p 0) (nth 10 p 0) (nth 11 p 0).
Definition pkt_len (p : bytes) : Z := len p.

Lemma be32_roundtrip v : be32_of ((w32 v / 16777216) mod 256) ((w32 v / 65536) mod 256) ((w32 v / 256) mod 256) (w32 v mod 256) = w32 v.
Proof. unfold be32_of, w32, M32. lia. Qed.

(* a pure ACK: 24 bytes, carrying rcv_nxt and the (scaled) receive window *)
Lemma packet_pure_ack seq now s ev :
  24 <= wr_limit s ->
  wp (packet seq 0 0 0 now) s ev (fun _ s' ev' =>
    rcv_wnd s' = rcv_wnd s /\ state s' = state s /\
    exists p, ev' = ev ++ [EvPacket p] /\ pkt_len p = 24 /\
      pkt_wnd p = (Z.shiftr (rcv_wnd s) (rwnd_scale s)) mod 65536 /\ pkt_ack p = w32 (rcv_nxt s)).
Proof.
  intros Hw. unfold packet. repeat wp_split.
  all: repeat match goal with H : context [if ?b then _ else _] |- _ => destruct b eqn:? end; try discriminate; try lia.
  all: repeat match goal with |- context [if ?b then _ else _] => destruct b eqn:? end; try lia.
  all: sprojs; split; [reflexivity|]; split; [reflexivity|]; eexists; split; [reflexivity|].
  all: unfold pkt_len, pkt_wnd, pkt_ack, be32b, be32_bytes, setw, sub; cbn [app nth firstn skipn Z.to_nat len length Z.of_nat Pos.of_succ_nat Pos.succ].
  all: split; [reflexivity|]; split; [unfold be16; lia|apply be32_roundtrip].
Qed.

(* with nothing of its own to send, [attempt_send sfImmediateAck] emits exactly one pure ACK *)
Lemma attempt_send_immediate_ack now s ev :
  0 <= mss s -> sbuf_n s <= w32 (snd_nxt s - snd_una s) -> 24 <= wr_limit s ->
  wp (attempt_send sfImmediateAck now) s ev (fun _ s' ev' =>
    rcv_wnd s' = rcv_wnd s /\ state s' = state s /\
    exists p, ev' = ev ++ [EvPacket p] /\ pkt_len p = 24 /\
      pkt_wnd p = (Z.shiftr (rcv_wnd s) (rwnd_scale s)) mod 65536 /\ pkt_ack p = w32 (rcv_nxt s)).
Proof.
  intros Hm Hb Hw. unfold attempt_send. wp_split.
  eapply wp_bind_cut with (R := fun _ s1 ev1 => ev1 = ev /\ exists c, s1 = s <| cwnd := c |>).
  { apply wp_when; intros _.
    - wp_split. split; [reflexivity|]. eexists; reflexivity.
    - split; [reflexivity|]. exists (cwnd s). destruct s; reflexivity. }
  intros _ s1 ev1 (-> & c & ->). wp_split.
  match goal with |- wp (attempt_send_loop ?n _ _) _ _ _ => destruct n as [|fuel] eqn:En; [cbn in En; lia|] end.
  cbn [attempt_send_loop]. wp_split. cbn [sf_eqb orb negb andb].
  unfold sb_buffered. sprojs.
  set (nIF := w32 (snd_nxt s - snd_una s)) in *.
  assert (E0 : (if sbuf_n s <? nIF then 0 else Z.min (sbuf_n s - nIF) (mss s)) = 0) by (destruct (sbuf_n s <? nIF) eqn:E; lia).
  rewrite E0.
  match goal with |- context [if 0 >? ?u then _ else 0] => replace (0 >? u) with false by (unfold nIF; repeat match goal with |- context [if ?b then _ else _] => destruct b eqn:? end; lia) end.
  cbn [Z.eqb andb]. 
  eapply wp_bind_cut; [apply packet_pure_ack; sprojs; exact Hw|]. cbv beta.
  intros _ s2 ev2 H2. wp_split. sprojs_in H2. exact H2.
Qed.

(** the reader drains a closed window: the window re-opens and the update is sent at once *)
Theorem window_update_sent n now s :
  ((support_fin_ack s = true /\ shutdown_reads s = false) \/ (support_fin_ack s = false /\ state s = ESTABLISHED)) ->
  0 < n -> rcv_wnd s = 0 -> 0 < rb_n (rbuf s) ->
  let got := Z.min n (rb_n (rbuf s)) in
  let after := rb_cap (rbuf s) - (rb_n (rbuf s) - got) in
  0 <= after < 18446744073709551616 -> Z.min (rbuf_len s / 2) (mss s) <= after ->
  0 <= mss s -> sbuf_n s <= w32 (snd_nxt s - snd_una s) -> 24 <= wr_limit s ->
  wp (recv n now) s [] (fun r s' ev' =>
    fst r = got /\ rcv_wnd s' = after /\
    exists p, ev' = [EvPacket p] /\ pkt_len p = 24 /\
      pkt_wnd p = (Z.shiftr after (rwnd_scale s)) mod 65536 /\ pkt_ack p = w32 (rcv_nxt s)).
Proof.
  intros Hen Hn Hz Hd got after Ha Hmin Hm Hb Hw. unfold recv. wp_split.
  assert (E1 : support_fin_ack s && shutdown_reads s = false) by (destruct Hen as [(-> & ->)|(-> & _)]; reflexivity).
  assert (E2 : negb (support_fin_ack s) && st_eqb (state s) CLOSED = false) by (destruct Hen as [(-> & _)|(-> & ->)]; reflexivity).
  assert (E3 : negb (support_fin_ack s) && negb (st_eqb (state s) ESTABLISHED) = false) by (destruct Hen as [(-> & _)|(-> & ->)]; reflexivity).
  rewrite E1, E2, E3. replace (n =? 0) with false by lia.
  wp_split. wp_split. sprojs. cbn [rb_n rb_cap rb_data set].
  fold got. replace (got =? 0) with false by (unfold got; lia). cbn [andb].
  unfold rb_remaining. sprojs. cbn [rb_n rb_cap rb_data set].
  rewrite Hz. replace (rb_cap (rbuf s) - (rb_n (rbuf s) - got) - 0) with after by (unfold after; lia).
  replace (after mod 18446744073709551616) with after by lia.
  replace (after >=? Z.min (rbuf_len s / 2) (mss s)) with true by lia.
  cbn [Z.eqb]. wp_split. wp_split.
  eapply wp_bind_cut.
  { apply wp_when; [intros _|discriminate]. apply attempt_send_immediate_ack; sprojs; assumption. }
  cbv beta. intros _ s2 ev2 (H1 & _ & p & -> & H3 & H4 & H5). wp_split. sprojs_in H1. sprojs_in H4. sprojs_in H5.
  cbn [fst]. split; [reflexivity|]. split; [exact H1|]. exists p. repeat split; assumption.
Qed.

(** ---- a run in which the update is NOT sent: Nagle holds back the only segment that could carry it ----
    B (Nagle on, 1 KiB receive buffer) is connected to A; A's 1024 bytes fill B's buffer (rcv_wnd = 0); B sends 100 bytes
    (in flight) and 10 more (held back by Nagle); then B's reader drains the buffer: the window re-opens 0 -> 1024 but
    [recv] emits nothing at all.  Same run on pseudotcp.c (harness/ptcp_h.c):
      w1 0:0:1:100:1:1:7 1024:0:0:100:1:1:7 cA N N sA1024:1 N sB100:2 sB10:3 rB1024
    A learns the new window only from B's next transmission (when A's ACK of the 100 bytes releases the 10 bytes, or B's
    retransmission) or from the answer to its own zero-window probe. *)
Definition wu_cfg (nagle : bool) := {| c_conv := 7; c_nagle := nagle; c_ack_delay := 100; c_fin_ack := true; c_wnd_scale := true |}.
Definition wu_step o t s := match step o t s with Some r => r | None => (s, []) end.
Fixpoint wu_packets (ev : list event) : list bytes :=
  match ev with [] => [] | EvPacket p :: ev' => p :: wu_packets ev' | _ :: ev' => wu_packets ev' end.
Definition wu_first (ev : list event) : bytes := match wu_packets ev with p :: _ => p | [] => [] end.
(* returns: B's state number and receive window before the read, what is waiting in B's send buffer / in flight,
   the receive window after the read, and the number of events (packets, callbacks) of the read *)
Definition wu_scenario (nagle : bool) : Z * Z * Z * Z * Z * nat :=
  let a0 := sock_cfg (wu_cfg false) in
  let '(b0, _) := wu_step (OSetRcvBuf 1024) 1000 (sock_cfg (wu_cfg nagle)) in
  let '(a1, ea1) := wu_step OConnect 1000 a0 in
  let '(b1, eb1) := wu_step (OPacket (wu_first ea1)) 1000 b0 in
  let '(a2, _) := wu_step (OPacket (wu_first eb1)) 1000 a1 in
  let '(a3, ea3) := wu_step (OSend (repeat 65 1024)) 1000 a2 in
  let '(b2, _) := wu_step (OPacket (wu_first ea3)) 1000 b1 in
  let '(b3, _) := wu_step (OSend (repeat 66 100)) 1000 b2 in
  let '(b4, _) := wu_step (OSend (repeat 67 10)) 1000 b3 in
  let '(b5, eb5) := wu_step (ORecv 1024) 1000 b4 in
  (st_num (state b4), rcv_wnd b4, sbuf_n b4, w32 (snd_nxt b4 - snd_una b4), rcv_wnd b5, length eb5).

Theorem window_update_withheld_by_nagle : wu_scenario true = (3, 0, 110, 100, 1024, 0%nat).
Proof. vm_compute. reflexivity. Qed.
(* the same run without Nagle: the 10 bytes are not held back, nothing is waiting, the update goes out at once *)
Theorem window_update_without_nagle : wu_scenario false = (3, 0, 110, 110, 1024, 1%nat).
Proof. vm_compute. reflexivity. Qed.

Lemma window_update_sent_elim n now s :
  ((support_fin_ack s = true /\ shutdown_reads s = false) \/ (support_fin_ack s = false /\ state s = ESTABLISHED)) ->
  0 < n -> rcv_wnd s = 0 -> 0 < rb_n (rbuf s) ->
  let got := Z.min n (rb_n (rbuf s)) in
  let after := rb_cap (rbuf s) - (rb_n (rbuf s) - got) in
  0 <= after < 18446744073709551616 -> Z.min (rbuf_len s / 2) (mss s) <= after ->
  0 <= mss s -> sbuf_n s <= w32 (snd_nxt s - snd_una s) -> 24 <= wr_limit s ->
  forall r s' ev', recv n now s [] = Ok (r, s', ev') ->
    fst r = got /\ rcv_wnd s' = after /\
    exists p, ev' = [EvPacket p] /\ pkt_len p = 24 /\
      pkt_wnd p = (Z.shiftr after (rwnd_scale s)) mod 65536 /\ pkt_ack p = w32 (rcv_nxt s).
Proof.
  intros H1 H2 H3 H4 got after H5 H6 H7 H8 H9 r s' ev' E.
  exact (wp_elim _ _ _ _ _ _ _ (window_update_sent n now s H1 H2 H3 H4 H5 H6 H7 H8 H9) E).
Qed.
