(** Weakest-precondition style reasoning over the state monad of PtcpModel (shared by the C08 invariant proofs).
    Nothing here changes or re-defines the model; only lemmas about its combinators. *)
From Coq Require Import ZArith List Bool Lia.
From RecordUpdate Require Import RecordSet.
From Nice Require Import Base.Bytes Ptcp.PtcpModel.
Import ListNotations.
Import RecordSetNotations.
Local Open Scope Z_scope.

(** [wp m s ev Q]: if the call [m] from socket [s] with accumulated events [ev] does not Fault, its result satisfies [Q]. *)
Definition wp {A} (m : M A) (s : sock) (ev : list event) (Q : A -> sock -> list event -> Prop) : Prop :=
  match m s ev with Ok (a, s', ev') => Q a s' ev' | Fault => True end.

Lemma wp_ok {A} (m : M A) s ev Q a s' ev' : wp m s ev Q -> m s ev = Ok (a, s', ev') -> Q a s' ev'.
Proof. unfold wp. intros H E. rewrite E in H. exact H. Qed.

Lemma wp_intro {A} (m : M A) s ev (Q : A -> sock -> list event -> Prop) :
  (forall a s' ev', m s ev = Ok (a, s', ev') -> Q a s' ev') -> wp m s ev Q.
Proof. unfold wp. intros H. destruct (m s ev) as [[[a s'] ev']|]; [apply H; reflexivity|exact I]. Qed.

Lemma wp_conseq {A} (m : M A) s ev (Q Q' : A -> sock -> list event -> Prop) :
  wp m s ev Q -> (forall a s' ev', Q a s' ev' -> Q' a s' ev') -> wp m s ev Q'.
Proof. unfold wp. destruct (m s ev) as [[[a s'] ev']|]; auto. Qed.

Lemma wp_bind {A B} (m : M A) (f : A -> M B) s ev Q :
  wp m s ev (fun a s' ev' => wp (f a) s' ev' Q) -> wp (bind m f) s ev Q.
Proof. unfold wp, bind. destruct (m s ev) as [[[a s'] ev']|]; auto. Qed.

Lemma wp_ret {A} (a : A) s ev (Q : A -> sock -> list event -> Prop) : Q a s ev -> wp (ret a) s ev Q.
Proof. unfold wp, ret. auto. Qed.
Lemma wp_get s ev (Q : sock -> sock -> list event -> Prop) : Q s s ev -> wp get s ev Q.
Proof. unfold wp, get. auto. Qed.
Lemma wp_put x s ev (Q : unit -> sock -> list event -> Prop) : Q tt x ev -> wp (put x) s ev Q.
Proof. unfold wp, put. auto. Qed.
Lemma wp_emit e s ev (Q : unit -> sock -> list event -> Prop) : Q tt s (ev ++ [e]) -> wp (emit e) s ev Q.
Proof. unfold wp, emit. auto. Qed.
Lemma wp_fault {A} s ev (Q : A -> sock -> list event -> Prop) : wp fault s ev Q.
Proof. exact I. Qed.
Lemma wp_assert b s ev (Q : unit -> sock -> list event -> Prop) : (b = true -> Q tt s ev) -> wp (assert b) s ev Q.
Proof. unfold assert. destruct b; intros H; [apply wp_ret; auto|exact I]. Qed.
Lemma wp_upd f s ev (Q : unit -> sock -> list event -> Prop) : Q tt (f s) ev -> wp (upd f) s ev Q.
Proof. unfold wp, upd, bind, get, put. auto. Qed.
Lemma wp_when b m s ev (Q : unit -> sock -> list event -> Prop) :
  (b = true -> wp m s ev Q) -> (b = false -> Q tt s ev) -> wp (when b m) s ev Q.
Proof. unfold when. destruct b; intros H1 H2; [auto|apply wp_ret; auto]. Qed.

(** bind with the primitive combinators in head position, one lemma each (so that a tactic never has to guess) *)
Lemma wp_bind_get {B} (f : sock -> M B) s ev Q : wp (f s) s ev Q -> wp (bind get f) s ev Q.
Proof. intros H. apply wp_bind, wp_get. exact H. Qed.
Lemma wp_bind_put {B} x (f : unit -> M B) s ev Q : wp (f tt) x ev Q -> wp (bind (put x) f) s ev Q.
Proof. intros H. apply wp_bind, wp_put. exact H. Qed.
Lemma wp_bind_ret {A B} (a : A) (f : A -> M B) s ev Q : wp (f a) s ev Q -> wp (bind (ret a) f) s ev Q.
Proof. intros H. apply wp_bind, wp_ret. exact H. Qed.
Lemma wp_bind_emit {B} e (f : unit -> M B) s ev Q : wp (f tt) s (ev ++ [e]) Q -> wp (bind (emit e) f) s ev Q.
Proof. intros H. apply wp_bind, wp_emit. exact H. Qed.
Lemma wp_bind_upd {B} g (f : unit -> M B) s ev Q : wp (f tt) (g s) ev Q -> wp (bind (upd g) f) s ev Q.
Proof. intros H. apply wp_bind, wp_upd. exact H. Qed.
Lemma wp_bind_assert {B} b (f : unit -> M B) s ev Q : (b = true -> wp (f tt) s ev Q) -> wp (bind (assert b) f) s ev Q.
Proof. intros H. apply wp_bind, wp_assert. exact H. Qed.
Lemma wp_bind_fault {A B} (f : A -> M B) s ev Q : wp (bind fault f) s ev Q.
Proof. exact I. Qed.
Lemma wp_bind_assoc {A B C} (m : M A) (f : A -> M B) (g : B -> M C) s ev Q :
  wp (bind m (fun a => bind (f a) g)) s ev Q -> wp (bind (bind m f) g) s ev Q.
Proof. unfold wp, bind. destruct (m s ev) as [[[a s'] ev']|]; auto. Qed.
Lemma wp_bind_when {B} b m (f : unit -> M B) s ev Q :
  (b = true -> wp (bind m f) s ev Q) -> (b = false -> wp (f tt) s ev Q) -> wp (bind (when b m) f) s ev Q.
Proof. unfold when. destruct b; intros H1 H2; [auto|apply wp_bind_ret; auto]. Qed.

(** use a proved specification of a sub-call in head position *)
Lemma wp_bind_spec {A B} (m : M A) (f : A -> M B) s ev R Q :
  wp m s ev R -> (forall a s' ev', R a s' ev' -> wp (f a) s' ev' Q) -> wp (bind m f) s ev Q.
Proof. intros H1 H2. apply wp_bind. eapply wp_conseq; [exact H1|exact H2]. Qed.

(** one symbolic-execution step on the primitive combinators; stops at [if], [match] and calls of model functions *)
Ltac wp_prim :=
  lazymatch goal with
  | |- wp (bind (bind _ _) _) _ _ _ => apply wp_bind_assoc
  | |- wp (bind get _) _ _ _ => apply wp_bind_get
  | |- wp (bind (put _) _) _ _ _ => apply wp_bind_put
  | |- wp (bind (ret _) _) _ _ _ => apply wp_bind_ret
  | |- wp (bind (emit _) _) _ _ _ => apply wp_bind_emit
  | |- wp (bind (upd _) _) _ _ _ => apply wp_bind_upd
  | |- wp (bind (assert _) _) _ _ _ => apply wp_bind_assert; intros ?
  | |- wp (bind fault _) _ _ _ => apply wp_bind_fault
  | |- wp (ret _) _ _ _ => apply wp_ret
  | |- wp get _ _ _ => apply wp_get
  | |- wp (put _) _ _ _ => apply wp_put
  | |- wp (emit _) _ _ _ => apply wp_emit
  | |- wp (upd _) _ _ _ => apply wp_upd
  | |- wp (assert _) _ _ _ => apply wp_assert; intros ?
  | |- wp fault _ _ _ => apply wp_fault
  end; cbv beta.
Ltac wp_prims := repeat wp_prim.

(** generic facts *)
Lemma st_eqb_eq a b : st_eqb a b = true <-> a = b.
Proof. unfold st_eqb. split; [|intros ->; apply Z.eqb_refl]. destruct a, b; cbn; intros H; try reflexivity; discriminate. Qed.
Lemma st_eqb_neq a b : st_eqb a b = false <-> a <> b.
Proof. split; intros H; [intros E; apply st_eqb_eq in E; congruence|]. destruct (st_eqb a b) eqn:E; [apply st_eqb_eq in E; contradiction|reflexivity]. Qed.

(** naming a [let] of the model instead of expanding it *)
Lemma wp_let {A B} (e : A) (f : A -> M B) s ev Q : (forall x, x = e -> wp (f x) s ev Q) -> wp (let x := e in f x) s ev Q.
Proof. intros H. cbv zeta. apply H. reflexivity. Qed.
Ltac wp_let x H :=
  lazymatch goal with
  | |- wp (let y := _ in _) _ _ _ => apply wp_let; intros x H; cbv beta
  end.

Lemma wp_and {A} (m : M A) s ev (Q1 Q2 : A -> sock -> list event -> Prop) :
  wp m s ev Q1 -> wp m s ev Q2 -> wp m s ev (fun a s' ev' => Q1 a s' ev' /\ Q2 a s' ev').
Proof. unfold wp. destruct (m s ev) as [[[a s'] ev']|]; auto. Qed.
