(** C09, part 2: the decreasing measure of a silent run, as pure integer arithmetic.
    [muZ] counts, with weights, the retransmissions the head segment still has ([Xz]), the zero-window probes that
    still fit before the 15 s abort ([Pz]), the idle 4 s rounds before the next retransmission is due ([Nz]),
    a pending delayed ACK ([Az]) and one possible re-stamping of [lastsend] ([Cz]). *)
From Coq Require Import ZArith List Lia Bool ZifyBool.
Local Open Scope Z_scope.
Ltac Zify.zify_post_hook ::= Z.div_mod_to_equations.
Definition Xz xl h := if h <? 0 then xl + 1 else Z.max 0 (xl - h).
Definition Nz rb rx now := (Z.max 0 (rb + rx - now) + 3999) / 4000.
Definition Pz sw lr ls rx now := if sw =? 0 then Z.max 0 ((lr + 15000 - Z.max now (ls + rx) + 999) / 1000) else 0.
Definition Az ta := if ta =? 0 then 0 else 1.
Definition Cz sw ls rb := if (sw =? 0) && (ls <? rb) then 1 else 0.
Definition muZ xl h rb rx ls lr ta sw now := 288 * Xz xl h + 18 * Pz sw lr ls rx now + Nz rb rx now + Az ta + Cz sw ls rb.
Definition dlZ rb rx ls ta ad sw now :=
  let t1 := now + 4000 in
  let t2 := if ta =? 0 then t1 else Z.min t1 (ta + ad) in
  let t3 := Z.min t2 (rb + rx) in
  if sw =? 0 then Z.min t3 (ls + rx) else t3.

Lemma Xz_bounds xl h : 15 <= xl <= 30 -> 0 <= Xz xl h <= 31.
Proof. unfold Xz. intros. destruct (h <? 0) eqn:E; lia. Qed.
Lemma Xz_mono xl h h' : 15 <= xl <= 30 -> h <= h' -> Xz xl h' <= Xz xl h.
Proof. unfold Xz. intros. destruct (h <? 0) eqn:E, (h' <? 0) eqn:E'; lia. Qed.
Lemma Xz_step xl h : 15 <= xl <= 30 -> h < xl -> Xz xl ((h + 1) mod 256) <= Xz xl h - 1.
Proof. unfold Xz. intros. destruct (h <? 0) eqn:E, ((h + 1) mod 256 <? 0) eqn:E'; lia. Qed.
Lemma Nz_bounds rb rx now : rb <= now -> 0 <= rx <= 60000 -> 0 <= Nz rb rx now <= 15.
Proof. unfold Nz. intros. lia. Qed.
Lemma Pz_bounds sw lr ls rx now : lr <= now -> 0 <= Pz sw lr ls rx now <= 15.
Proof. unfold Pz. intros. destruct (sw =? 0); lia. Qed.

Lemma Nz_mono rb rx now now' : now <= now' -> Nz rb rx now' <= Nz rb rx now.
Proof. unfold Nz. intros. lia. Qed.
Lemma Nz_idle rb rx now now' : now + 4000 <= now' -> now' < rb + rx -> Nz rb rx now' <= Nz rb rx now - 1.
Proof. unfold Nz. intros. lia. Qed.
Lemma Pz_mono sw lr ls ls' rx now now' : ls <= ls' -> now <= now' -> Pz sw lr ls' rx now' <= Pz sw lr ls rx now.
Proof. unfold Pz. intros. destruct (sw =? 0); lia. Qed.
Lemma Pz_fire lr ls rx rx' now now' :
  ls + rx <= now' -> now <= now' -> now' - lr < 15000 -> 1000 <= rx' -> Pz 0 lr now' rx' now' <= Pz 0 lr ls rx now - 1.
Proof. unfold Pz. cbn [Z.eqb]. intros. lia. Qed.
Lemma Az_bounds ta : 0 <= Az ta <= 1. Proof. unfold Az. destruct (ta =? 0); lia. Qed.
Lemma Cz_bounds sw ls rb : 0 <= Cz sw ls rb <= 1. Proof. unfold Cz. destruct ((sw =? 0) && (ls <? rb)); lia. Qed.
Lemma muZ_bounds xl h rb rx ls lr ta sw now :
  15 <= xl <= 30 -> rb <= now -> 0 <= rx <= 60000 -> lr <= now -> 0 <= muZ xl h rb rx ls lr ta sw now <= 9215.
Proof.
  intros. unfold muZ. pose proof (Xz_bounds xl h ltac:(lia)). pose proof (Nz_bounds rb rx now ltac:(lia) ltac:(lia)).
  pose proof (Pz_bounds sw lr ls rx now ltac:(lia)). pose proof (Az_bounds ta). pose proof (Cz_bounds sw ls rb). lia.
Qed.
Ltac ifs := repeat match goal with |- context [if ?b then _ else _] => destruct b eqn:? end.

Lemma round_arith xl sw lr ad h rb rx ls ta now now' hB lsB taB h1 rb1 rx1 ls1 ta1 ls2 rx2 ta2 ls3 ta3 :
  15 <= xl <= 30 -> 1000 <= rx <= 60000 -> 0 <= ad <= 60000 ->
  0 < rb <= now -> 0 <= ls <= now -> 0 <= lr <= now -> 0 <= ta <= now ->
  now <= now' -> dlZ rb rx ls ta ad sw now <= now' ->
  h <= hB -> (lsB = ls \/ lsB = now') -> (taB = ta \/ taB = 0) ->
  (rb + rx <= now' -> hB < xl /\ h1 = (hB + 1) mod 256 /\ rb1 = now' /\ 1000 <= rx1 <= 60000 /\ (ls1 = lsB \/ ls1 = now') /\ (ta1 = taB \/ ta1 = 0)) ->
  (now' < rb + rx -> h1 = hB /\ rb1 = rb /\ rx1 = rx /\ ls1 = lsB /\ ta1 = taB) ->
  (sw = 0 /\ ls1 + rx1 <= now' -> now' - lr < 15000 /\ ls2 = now' /\ rx2 = Z.min 60000 (2 * rx1) /\ ta2 = 0) ->
  (~ (sw = 0 /\ ls1 + rx1 <= now') -> ls2 = ls1 /\ rx2 = rx1 /\ ta2 = ta1) ->
  (ta2 <> 0 /\ ta2 + ad <= now' -> ta3 = 0 /\ (ls3 = ls2 \/ ls3 = now')) ->
  (~ (ta2 <> 0 /\ ta2 + ad <= now') -> ta3 = ta2 /\ ls3 = ls2) ->
  muZ xl h1 rb1 rx2 ls3 lr ta3 sw now' < muZ xl h rb rx ls lr ta sw now.
Proof.
  intros Hxl Hrx Had Hrb Hls Hlr Hta Hn Hdl HB LB TB R1 R0 P1 P0 A1 A0.
  unfold muZ.
  pose proof (Xz_bounds xl h Hxl). pose proof (Xz_bounds xl h1 Hxl).
  pose proof (Xz_mono xl h hB Hxl HB).
  pose proof (Nz_bounds rb rx now ltac:(lia) ltac:(lia)).
  pose proof (Pz_bounds sw lr ls rx now ltac:(lia)).
  destruct (Z_le_gt_dec (rb + rx) now') as [Hdue|Hnd].
  - destruct (R1 Hdue) as (Hlt & -> & -> & Hrx1 & L1 & T1). clear R0 R1.
    pose proof (Xz_step xl hB Hxl Hlt).
    assert (1000 <= rx2 <= 60000).
    { destruct (Z.eq_dec sw 0) as [Hs|Hs]; [destruct (Z_le_gt_dec (ls1 + rx1) now')|].
      - destruct P1 as (_ & _ & -> & _); lia.
      - destruct P0 as (_ & -> & _); lia.
      - destruct P0 as (_ & -> & _); lia. }
    pose proof (Nz_bounds now' rx2 now' ltac:(lia) ltac:(lia)).
    pose proof (Pz_bounds sw lr ls3 rx2 now' ltac:(lia)).
    pose proof (Az_bounds ta3). pose proof (Az_bounds ta). pose proof (Cz_bounds sw ls3 now'). pose proof (Cz_bounds sw ls rb). lia.
  - destruct (R0 ltac:(lia)) as (-> & -> & -> & -> & ->). clear R0 R1.
    assert (Hls3 : ls <= lsB) by lia.
    destruct (Z.eq_dec sw 0) as [Hs|Hs].
    + subst sw.
      destruct (Z_le_gt_dec (lsB + rx) now') as [Hp|Hp].
      * destruct P1 as (Hage & -> & -> & ->); [lia|]. clear P0.
        destruct A0 as (-> & ->); [lia|]. clear A1.
        assert (lsB = ls) by lia. subst lsB.
        pose proof (Pz_fire lr ls rx (Z.min 60000 (2 * rx)) now now' Hp Hn Hage ltac:(lia)).
        pose proof (Nz_bounds rb (Z.min 60000 (2 * rx)) now' ltac:(lia) ltac:(lia)).
        unfold Az, Cz. cbn [Z.eqb andb]. ifs; lia.
      * destruct P0 as (-> & -> & ->); [lia|]. clear P1.
        assert (Hl3 : lsB <= ls3 /\ (ta3 = taB \/ ta3 = 0) /\ (ta3 = taB -> taB <> 0 -> taB + ad > now')).
        { destruct (Z.eq_dec taB 0) as [Ht|Ht]; [destruct A0 as (-> & ->); lia|].
          destruct (Z_le_gt_dec (taB + ad) now') as [Ha|Ha]; [destruct A1 as (-> & L3); lia|destruct A0 as (-> & ->); lia]. }
        destruct Hl3 as (Hl3 & Ht3 & Hn3).
        pose proof (Pz_mono 0 lr ls ls3 rx now now' ltac:(lia) Hn).
        pose proof (Nz_mono rb rx now now' Hn).
        destruct (Z_le_gt_dec (now + 4000) now') as [Hi|Hi]; [pose proof (Nz_idle rb rx now now' Hi ltac:(lia))|].
        -- unfold Az, Cz. cbn [Z.eqb andb]. ifs; lia.
        -- unfold dlZ in Hdl. cbn [Z.eqb] in Hdl. unfold Az, Cz. cbn [Z.eqb andb]. ifs; lia.
    + destruct P0 as (-> & -> & ->); [lia|]. clear P1.
      assert (Hl3 : lsB <= ls3 /\ (ta3 = taB \/ ta3 = 0) /\ (ta3 = taB -> taB <> 0 -> taB + ad > now')).
      { destruct (Z.eq_dec taB 0) as [Ht|Ht]; [destruct A0 as (-> & ->); lia|].
        destruct (Z_le_gt_dec (taB + ad) now') as [Ha|Ha]; [destruct A1 as (-> & L3); lia|destruct A0 as (-> & ->); lia]. }
      destruct Hl3 as (Hl3 & Ht3 & Hn3).
      pose proof (Pz_mono sw lr ls ls3 rx now now' ltac:(lia) Hn).
      pose proof (Nz_mono rb rx now now' Hn).
      destruct (Z_le_gt_dec (now + 4000) now') as [Hi|Hi]; [pose proof (Nz_idle rb rx now now' Hi ltac:(lia))|].
      * unfold Az, Cz. replace (sw =? 0) with false by lia. cbn [andb]. ifs; lia.
      * unfold dlZ in Hdl. replace (sw =? 0) with false in * by lia. unfold Az, Cz. cbn [andb]. ifs; lia.
Qed.
