(** Executable model of agent/pseudotcp.c: the whole socket (state machine, windows, send / receive
    FIFOs, segment queues, RTT / RTO, congestion control, NewReno, delayed ACKs, FIN-ACK handling).
    32-bit arithmetic is written out ([w32]); the clock is an input ([now]); every g_assert and every
    shift by a peer-controlled amount is an explicit [Fault].  The model is bit-exact: the correspondence
    compares every emitted packet.  No proofs in this file. *)
From Coq Require Import ZArith List Bool.
From RecordUpdate Require Import RecordSet.
From Nice Require Import Base.Bytes.
Import ListNotations.
Import RecordSetNotations.
Local Open Scope Z_scope.
Local Open Scope bool_scope.

Definition M32 : Z := 4294967296.
Definition w32 (x : Z) : Z := x mod M32.
Definition s32 (x : Z) : Z := let y := x mod M32 in if y <? 2147483648 then y else y - M32.

(** connection states (enum order of pseudotcp.h) *)
Inductive tstate := LISTEN | SYN_SENT | SYN_RECEIVED | ESTABLISHED | CLOSED | FIN_WAIT_1 | FIN_WAIT_2
                  | CLOSING | TIME_WAIT | CLOSE_WAIT | LAST_ACK.
Definition st_num (s : tstate) : Z :=
  match s with LISTEN => 0 | SYN_SENT => 1 | SYN_RECEIVED => 2 | ESTABLISHED => 3 | CLOSED => 4 | FIN_WAIT_1 => 5
             | FIN_WAIT_2 => 6 | CLOSING => 7 | TIME_WAIT => 8 | CLOSE_WAIT => 9 | LAST_ACK => 10 end.
Definition st_eqb (a b : tstate) : bool := st_num a =? st_num b.

Definition has_sent_fin (s : tstate) : bool :=
  match s with CLOSED | FIN_WAIT_1 | FIN_WAIT_2 | CLOSING | TIME_WAIT | LAST_ACK => true | _ => false end.
Definition has_received_fin (s : tstate) : bool :=
  match s with CLOSED | CLOSING | TIME_WAIT | CLOSE_WAIT | LAST_ACK => true | _ => false end.
Definition has_received_fin_ack (s : tstate) : bool :=
  match s with CLOSED | TIME_WAIT => true | _ => false end.

(* the whitelist of set_state() *)
Definition transition_ok (o n : tstate) : bool :=
  match o, n with
  | CLOSED, SYN_SENT | SYN_SENT, CLOSED | CLOSED, LISTEN | LISTEN, CLOSED | LISTEN, SYN_SENT | LISTEN, SYN_RECEIVED
  | SYN_SENT, SYN_RECEIVED | SYN_RECEIVED, ESTABLISHED | SYN_SENT, ESTABLISHED | SYN_RECEIVED, FIN_WAIT_1
  | ESTABLISHED, FIN_WAIT_1 | ESTABLISHED, CLOSE_WAIT | FIN_WAIT_1, FIN_WAIT_2 | FIN_WAIT_1, CLOSING
  | CLOSE_WAIT, LAST_ACK | FIN_WAIT_2, TIME_WAIT | CLOSING, TIME_WAIT | LAST_ACK, CLOSED | TIME_WAIT, CLOSED
  | SYN_RECEIVED, LISTEN | FIN_WAIT_1, TIME_WAIT => true
  | _, _ => false
  end.

Inductive shut := SD_NONE | SD_GRACEFUL | SD_FORCEFUL.
Inductive sflag := sfNone | sfDelayedAck | sfImmediateAck | sfFin | sfRst | sfDuplicateAck.
Definition sf_eqb (a b : sflag) : bool :=
  match a, b with
  | sfNone, sfNone | sfDelayedAck, sfDelayedAck | sfImmediateAck, sfImmediateAck | sfFin, sfFin | sfRst, sfRst
  | sfDuplicateAck, sfDuplicateAck => true
  | _, _ => false
  end.

Definition FLAG_FIN := 1. Definition FLAG_CTL := 2. Definition FLAG_RST := 4.
Definition has_flag (f b : Z) : bool := negb (Z.land f b =? 0).

Record sseg := mkSseg { ss_seq : Z; ss_len : Z; ss_xmit : Z; ss_flags : Z }.
Instance eta_sseg : Settable _ := settable! mkSseg <ss_seq; ss_len; ss_xmit; ss_flags>.
Record rseg := { rs_seq : Z; rs_len : Z }.

(** FIFOs.  The send buffer is its content; the receive buffer additionally remembers what was written
    beyond the committed data (out-of-order segments), keyed by absolute stream position. *)
Record rfifo := mkRfifo { rb_cap : Z; rb_data : bytes; rb_n : Z (* = len rb_data, cached *); rb_total : Z; rb_fut : list (Z * bytes) }.
Instance eta_rfifo : Settable _ := settable! mkRfifo <rb_cap; rb_data; rb_n; rb_total; rb_fut>.

Record sock := mkSock {
  shutdown : shut; shutdown_reads : bool; error : Z;
  state : tstate; conv : Z; bReadEnable : bool; bWriteEnable : bool; bOutgoing : bool; last_traffic : Z;
  rlist : list rseg; rbuf_len : Z; rcv_nxt : Z; rcv_wnd : Z; lastrecv : Z; rwnd_scale : Z; rbuf : rfifo; rcv_fin : Z;
  slist : list sseg; sbuf_len : Z; snd_nxt : Z; snd_wnd : Z; lastsend : Z; snd_una : Z; swnd_scale : Z;
  sbuf_cap : Z; sbuf : bytes; sbuf_n : Z (* = len sbuf, cached *);
  mss : Z; msslevel : Z; largest : Z; mtu_advise : Z;
  rto_base : Z; ts_recent : Z; ts_lastack : Z;
  rx_rttvar : Z; rx_srtt : Z; rx_rto : Z;
  ssthresh : Z; cwnd : Z; dup_acks : Z; recover : Z; fast_recovery : bool; t_ack : Z; last_acked_ts : Z;
  use_nagling : bool; ack_delay : Z; support_wnd_scale : bool; support_fin_ack : bool;
  (* environment: the largest packet the WritePacket callback accepts (larger => WR_TOO_LARGE) *)
  wr_limit : Z }.
Instance eta_sock : Settable _ := settable! mkSock <shutdown; shutdown_reads; error; state; conv; bReadEnable; bWriteEnable; bOutgoing; last_traffic; rlist; rbuf_len; rcv_nxt; rcv_wnd; lastrecv; rwnd_scale; rbuf; rcv_fin; slist; sbuf_len; snd_nxt; snd_wnd; lastsend; snd_una; swnd_scale; sbuf_cap; sbuf; sbuf_n; mss; msslevel; largest; mtu_advise; rto_base; ts_recent; ts_lastack; rx_rttvar; rx_srtt; rx_rto; ssthresh; cwnd; dup_acks; recover; fast_recovery; t_ack; last_acked_ts; use_nagling; ack_delay; support_wnd_scale; support_fin_ack; wr_limit>.

(** outputs of a call: packets handed to WritePacket and callbacks, in order *)
Inductive event := EvPacket (p : bytes) | EvOpened | EvReadable | EvWritable | EvClosed (err : Z).

Inductive res (A : Type) := Ok (a : A) | Fault.
Arguments Ok {A} a. Arguments Fault {A}.
(* the state monad of a call: socket + accumulated events *)
Definition M (A : Type) := sock -> list event -> res (A * sock * list event).
Definition ret {A} (a : A) : M A := fun s ev => Ok (a, s, ev).
Definition bind {A B} (m : M A) (f : A -> M B) : M B :=
  fun s ev => match m s ev with Ok (a, s', ev') => f a s' ev' | Fault => Fault end.
Notation "x <- e ;; f" := (bind e (fun x => f)) (at level 61, e at next level, right associativity).
Notation "e ;;; f" := (bind e (fun _ => f)) (at level 61, right associativity).
Definition get : M sock := fun s ev => Ok (s, s, ev).
Definition put (s : sock) : M unit := fun _ ev => Ok (tt, s, ev).
Definition emit (e : event) : M unit := fun s ev => Ok (tt, s, ev ++ [e]).
Definition fault {A} : M A := fun _ _ => Fault.
Definition assert (b : bool) : M unit := if b then ret tt else fault.
Definition when (b : bool) (m : M unit) : M unit := if b then m else ret tt.

(* field updates *)
Definition upd (f : sock -> sock) : M unit := s <- get ;; put (f s).

(** serial-number comparisons (macros of pseudotcp.c) and time helpers *)
Definition LARGER (a b : Z) : bool := w32 (a - b - 1) <? 2147483647.
Definition LARGER_OR_EQUAL (a b : Z) : bool := w32 (a - b) <? 2147483647.
Definition SMALLER (a b : Z) : bool := LARGER b a.
Definition SMALLER_OR_EQUAL (a b : Z) : bool := LARGER_OR_EQUAL b a.

Definition time_is_between (later middle earlier : Z) : bool :=
  if earlier <=? later then (earlier <=? middle) && (middle <=? later)
  else negb ((later <? middle) && (middle <? earlier)).
(* gint32 time_diff (guint32 later, guint32 earlier); the (long) casts are 64-bit, the result is truncated to 32 *)
Definition time_diff (later earlier : Z) : Z :=
  if time_is_between (w32 (earlier + 2147483648)) later earlier then
    if earlier <=? later then s32 (w32 (later - earlier)) else s32 (w32 (later + w32 (4294967295 - earlier) + 1))
  else
    if later <=? earlier then s32 (- (w32 (earlier - later))) else s32 (- (w32 (earlier + w32 (4294967295 - later) + 1))).

Definition PACKET_MAXIMUMS : list Z := [65535; 32000; 17914; 8166; 4352; 2002; 1492; 1006; 508; 296; 0].
Definition PACKET_OVERHEAD := 116.
Definition MAX_PACKET := 65532.
Definition nthz (l : list Z) (i : Z) : Z := nth (Z.to_nat i) l 0.

(** initial socket *)
Definition sock_init (cv : Z) : sock :=
  {| shutdown := SD_NONE; shutdown_reads := false; error := 0;
     state := LISTEN; conv := cv; bReadEnable := true; bWriteEnable := false; bOutgoing := false; last_traffic := 0;
     rlist := []; rbuf_len := 61440; rcv_nxt := 0; rcv_wnd := 61440; lastrecv := 0; rwnd_scale := 0;
     rbuf := {| rb_cap := 61440; rb_data := []; rb_n := 0; rb_total := 0; rb_fut := [] |}; rcv_fin := 0;
     slist := []; sbuf_len := 92160; snd_nxt := 0; snd_wnd := 1; lastsend := 0; snd_una := 0; swnd_scale := 0;
     sbuf_cap := 92160; sbuf := []; sbuf_n := 0;
     mss := 296 - PACKET_OVERHEAD; msslevel := 0; largest := 0; mtu_advise := 1400;
     rto_base := 0; ts_recent := 0; ts_lastack := 0; rx_rttvar := 0; rx_srtt := 0; rx_rto := 1000;
     ssthresh := 61440; cwnd := 2 * (296 - PACKET_OVERHEAD); dup_acks := 0; recover := 0; fast_recovery := false;
     t_ack := 0; last_acked_ts := 0; use_nagling := false; ack_delay := 100;
     support_wnd_scale := true; support_fin_ack := true; wr_limit := 65535 |}.

(** ---- FIFOs ---- *)
Definition sb_buffered (s : sock) : Z := sbuf_n s.
Definition sb_remaining (s : sock) : Z := sbuf_cap s - sbuf_n s.
Definition rb_buffered (s : sock) : Z := rb_n (rbuf s).
Definition rb_remaining (s : sock) : Z := rb_cap (rbuf s) - rb_n (rbuf s).

(* the [n] bytes at absolute stream positions [total, total + n) as left by the extents written beyond the
   committed data (latest write wins; never-written positions read as 0) *)
Definition overlay (base : bytes) (start q : Z) (d : bytes) : bytes :=
  let off := q - start in
  let d1 := if off <? 0 then skipn (Z.to_nat (- off)) d else d in
  let off1 := Z.max off 0 in
  let lb := len base in
  if off1 >=? lb then base else
  let d2 := firstn (Z.to_nat (lb - off1)) d1 in
  firstn (Z.to_nat off1) base ++ d2 ++ skipn (Z.to_nat off1 + length d2) base.
Definition fut_bytes (fut : list (Z * bytes)) (total : Z) (n : nat) : bytes :=
  fold_right (fun e acc => overlay acc total (fst e) (snd e)) (zeros n) fut.

(* pseudo_tcp_fifo_write_offset on rbuf: returns bytes copied *)
Definition rb_write_offset (f : rfifo) (d : bytes) (off : Z) : rfifo * Z :=
  if rb_cap f <=? rb_n f + off then (f, 0) else
  let copy := Z.min (len d) (rb_cap f - rb_n f - off) in
  (f <| rb_fut := (rb_total f + off, firstn (Z.to_nat copy) d) :: rb_fut f |>, copy).
(* pseudo_tcp_fifo_consume_write_buffer: commit [n] bytes that were written beyond the data *)
Definition rb_commit (f : rfifo) (n : Z) : res rfifo :=
  if rb_cap f - rb_n f <? n then Fault else
  let d := fut_bytes (rb_fut f) (rb_total f) (Z.to_nat n) in
  Ok (f <| rb_data := rb_data f ++ d |> <| rb_n := rb_n f + n |> <| rb_total := rb_total f + n |>
        <| rb_fut := filter (fun e => rb_total f + n <? fst e + len (snd e)) (rb_fut f) |>).
(* note: extents are keyed by the stream position of the byte that follows the committed data *)

(** ---- set_state and friends ---- *)
Definition set_state (n : tstate) : M unit :=
  s <- get ;;
  if st_eqb (state s) n then ret tt else
  assert (transition_ok (state s) n) ;;; put (s <| state := n |>).

(* adjustMTU *)
Fixpoint adjust_level (fuel : nat) (lvl mtu : Z) : Z :=
  match fuel with
  | O => lvl
  | S f => if nthz PACKET_MAXIMUMS (lvl + 1) >? 0 then
             if nthz PACKET_MAXIMUMS lvl <=? mtu then lvl else adjust_level f (lvl + 1) mtu
           else lvl
  end.
Definition adjustMTU : M unit :=
  upd (fun s =>
    let lvl := adjust_level 12 0 (mtu_advise s) in
    let m := w32 (mtu_advise s - PACKET_OVERHEAD) in
    s <| msslevel := lvl |> <| mss := m |> <| ssthresh := Z.max (ssthresh s) (w32 (2 * m)) |> <| cwnd := Z.max (cwnd s) m |>).

Definition set_state_established : M unit := set_state ESTABLISHED ;;; adjustMTU ;;; emit EvOpened.
Definition set_state_closed (err : Z) : M unit := set_state CLOSED ;;; when (negb (err =? 0)) (emit (EvClosed err)).

(** ---- queue ---- *)
Definition last_seg (l : list sseg) : option sseg := match rev l with x :: _ => Some x | [] => None end.
Definition queue (data : bytes) (flags : Z) : M Z :=
  s <- get ;;
  let avail := sb_remaining s in
  (if len data >? avail then assert (flags =? 0) else ret tt) ;;;
  let d := if len data >? avail then firstn (Z.to_nat avail) data else data in
  let ln := len d in
  let sl := match last_seg (slist s) with
            | Some t => if (ss_flags t =? flags) && (ss_xmit t =? 0)
                        then removelast (slist s) ++ [t <| ss_len := w32 (ss_len t + ln) |>]
                        else slist s ++ [{| ss_seq := w32 (snd_una s + sb_buffered s); ss_len := ln; ss_xmit := 0; ss_flags := flags |}]
            | None => [{| ss_seq := w32 (snd_una s + sb_buffered s); ss_len := ln; ss_xmit := 0; ss_flags := flags |}]
            end in
  put (s <| slist := sl |> <| sbuf := sbuf s ++ d |> <| sbuf_n := sbuf_n s + ln |>) ;;; ret ln.

Definition queue_connect_message : M unit :=
  s <- get ;;
  let b := [0] ++ (if support_wnd_scale s then [3; 1; rwnd_scale s] else []) ++ (if support_fin_ack s then [254; 1; 0] else []) in
  put (s <| snd_wnd := len b |>) ;;; queue b FLAG_CTL ;;; ret tt.
Definition queue_fin_message : M unit := s <- get ;; assert (support_fin_ack s) ;;; queue [] FLAG_FIN ;;; ret tt.
Definition queue_rst_message : M unit := s <- get ;; assert (support_fin_ack s) ;;; queue [] FLAG_RST ;;; ret tt.

(** ---- packet ---- *)
Inductive wres := WR_SUCCESS | WR_TOO_LARGE | WR_FAIL.
Definition be32b (v : Z) : bytes := be32_bytes (w32 v).
Definition packet (seq flags offset ln now : Z) : M wres :=
  s <- get ;;
  assert (24 + ln <=? MAX_PACKET) ;;;
  (* rcv_wnd >> rwnd_scale, truncated to 16 bits *)
  let wnd := (Z.shiftr (rcv_wnd s) (rwnd_scale s)) mod 65536 in
  let hdr := be32b (conv s) ++ be32b seq ++ be32b (rcv_nxt s) ++ [0; flags mod 256] ++ setw wnd ++ be32b now ++ be32b (ts_recent s) in
  put (s <| ts_lastack := rcv_nxt s |>) ;;;
  assert ((ln =? 0) || (offset + ln <=? sbuf_n s)) ;;;
  let payload := sub (sbuf s) offset ln in
  let w := if 24 + ln >? wr_limit s then WR_TOO_LARGE else WR_SUCCESS in
  when (match w with WR_SUCCESS => true | _ => false end) (emit (EvPacket (hdr ++ payload))) ;;;
  match w with
  | WR_SUCCESS => upd (fun s => let s1 := s <| t_ack := 0 |> <| last_traffic := now |> <| bOutgoing := true |> in
                               if ln >? 0 then s1 <| lastsend := now |> else s1) ;;; ret WR_SUCCESS
  | other => if ln =? 0 then
               upd (fun s => s <| t_ack := 0 |> <| last_traffic := now |> <| bOutgoing := true |>) ;;; ret WR_SUCCESS
             else ret other
  end.

(** ---- transmit ---- *)
(* replace the i-th segment of slist; insert after it *)
Fixpoint set_nth_seg (l : list sseg) (i : nat) (x : sseg) : list sseg :=
  match l, i with [], _ => [] | _ :: l', O => x :: l' | y :: l', S k => y :: set_nth_seg l' k x end.
Fixpoint insert_after (l : list sseg) (i : nat) (x : sseg) : list sseg :=
  match l, i with [], _ => [x] | y :: l', O => y :: x :: l' | y :: l', S k => y :: insert_after l' k x end.
Fixpoint first_unsent (l : list sseg) (i : nat) : option nat :=
  match l with [] => None | x :: l' => if ss_xmit x =? 0 then Some i else first_unsent l' (S i) end.

Definition ETIMEDOUT := 110. Definition ECONNABORTED := 103. Definition EMSGSIZE := 90. Definition ECONNRESET := 104.
Definition EINVAL := 22. Definition ENOTCONN := 107. Definition EPIPE := 32. Definition EWOULDBLOCK := 11.

(* inner loop of transmit on WR_TOO_LARGE: step down the MTU table; returns None = EMSGSIZE *)
Fixpoint shrink_mss (fuel : nat) (s : sock) (nTransmit : Z) : sock * option Z :=
  match fuel with
  | O => (s, None)
  | S f =>
    if nthz PACKET_MAXIMUMS (msslevel s + 1) =? 0 then (s, None) else
    let lvl := msslevel s + 1 in
    let m := w32 (nthz PACKET_MAXIMUMS lvl - PACKET_OVERHEAD) in
    let s' := s <| msslevel := lvl |> <| mss := m |> <| cwnd := w32 (2 * m) |> in
    if m <? nTransmit then (s', Some m) else shrink_mss f s' nTransmit
  end.

(* outer while (TRUE) of transmit: returns status (0 = sent) and the final nTransmit *)
Fixpoint transmit_loop (fuel : nat) (i : nat) (nTransmit now : Z) : M (Z * Z) :=
  match fuel with
  | O => fault
  | S f =>
    s <- get ;;
    match nth_error (slist s) i with
    | None => fault
    | Some sg =>
      assert (w32 (ss_seq sg - snd_una s) <=? 67108864) ;;;
      w <- packet (ss_seq sg) (ss_flags sg) (w32 (ss_seq sg - snd_una s)) nTransmit now ;;
      match w with
      | WR_SUCCESS => ret (0, nTransmit)
      | WR_FAIL => ret (ECONNABORTED, nTransmit)
      | WR_TOO_LARGE =>
        s <- get ;;
        match shrink_mss 12 s nTransmit with
        | (s', None) => put s' ;;; ret (EMSGSIZE, nTransmit)
        | (s', Some nt) => put s' ;;; transmit_loop f i nt now
        end
      end
    end
  end.

(* transmit (segment = i-th element of slist): returns 0 or an errno *)
Definition transmit (i : nat) (now : Z) : M Z :=
  s <- get ;;
  match nth_error (slist s) i with
  | None => fault
  | Some sg =>
    if ss_xmit sg >=? (if st_eqb (state s) ESTABLISHED then 15 else 30) then ret ETIMEDOUT else
    r <- transmit_loop 14 i (Z.min (ss_len sg) (mss s)) now ;;
    let '(status, nTransmit) := r in
    if negb (status =? 0) then ret status else
    s <- get ;;
    (* split when only part of the segment was sent *)
    let sl := if nTransmit <? ss_len sg then
                insert_after (set_nth_seg (slist s) i (sg <| ss_len := nTransmit |>)) i
                  {| ss_seq := w32 (ss_seq sg + nTransmit); ss_len := w32 (ss_len sg - nTransmit); ss_xmit := ss_xmit sg; ss_flags := ss_flags sg |}
              else slist s in
    let sg1 := if nTransmit <? ss_len sg then sg <| ss_len := nTransmit |> else sg in
    (* a segment with xmit = 0 must be the head of the unsent queue *)
    (if ss_xmit sg1 =? 0 then assert (match first_unsent sl O with Some j => Nat.eqb j i | None => false end) else ret tt) ;;;
    let nxt := if ss_xmit sg1 =? 0 then
                 w32 (snd_nxt s + ss_len sg1 + (if (ss_len sg1 =? 0) && has_flag (ss_flags sg1) FLAG_FIN then 1 else 0))
               else snd_nxt s in
    let sl2 := set_nth_seg sl i (sg1 <| ss_xmit := (ss_xmit sg1 + 1) mod 256 |>) in
    put (s <| slist := sl2 |> <| snd_nxt := nxt |> <| rto_base := if rto_base s =? 0 then now else rto_base s |>) ;;;
    ret 0
  end.

(** ---- closedown (needs attempt_send: tied through a parameter) ---- *)
Definition closedown_states : M unit :=
  s <- get ;;
  match state s with
  | SYN_RECEIVED | ESTABLISHED => set_state FIN_WAIT_1 ;;; set_state FIN_WAIT_2 ;;; set_state TIME_WAIT
  | FIN_WAIT_1 => set_state FIN_WAIT_2 ;;; set_state TIME_WAIT
  | FIN_WAIT_2 | CLOSING => set_state TIME_WAIT
  | CLOSE_WAIT => set_state LAST_ACK
  | _ => ret tt
  end.

(** ---- attempt_send ---- *)
(* closedown is reached from inside attempt_send only with source = REMOTE, which never re-enters *)
Definition closedown_remote (err : Z) : M unit := closedown_states ;;; set_state_closed err.

Fixpoint attempt_send_loop (fuel : nat) (sflags : sflag) (now : Z) : M unit :=
  match fuel with
  | O => fault
  | S f =>
    s <- get ;;
    let cw := if (dup_acks s =? 1) || (dup_acks s =? 2) then w32 (cwnd s + dup_acks s * mss s) else cwnd s in
    let nWindow := Z.min (snd_wnd s) cw in
    let nInFlight := w32 (snd_nxt s - snd_una s) in
    let nUseable := if nInFlight <? nWindow then nWindow - nInFlight else 0 in
    let buffered := sb_buffered s in
    let nAvail0 := if buffered <? nInFlight then 0 else Z.min (buffered - nInFlight) (mss s) in
    let nAvailable := if nAvail0 >? nUseable then (if w32 (nUseable * 4) <? nWindow then 0 else nUseable) else nAvail0 in
    if sf_eqb sflags sfDuplicateAck then packet (snd_nxt s) 0 0 0 now ;;; attempt_send_loop f sfNone now else
    let forced := sf_eqb sflags sfFin || sf_eqb sflags sfRst in
    if (nAvailable =? 0) && negb forced then
      if sf_eqb sflags sfNone then ret tt else
      if sf_eqb sflags sfImmediateAck || negb (t_ack s =? 0) then packet (snd_nxt s) 0 0 0 now ;;; ret tt
      else upd (fun s => s <| t_ack := now |>)
    else
    if use_nagling s && negb forced && (snd_nxt s >? snd_una s) && (nAvailable <? mss s) then ret tt else
    match first_unsent (slist s) O with
    | None => ret tt
    | Some i =>
      match nth_error (slist s) i with
      | None => fault
      | Some sg =>
        (if (ss_len sg >? nAvailable) && negb forced then
           upd (fun s => s <| slist := insert_after (set_nth_seg (slist s) i (sg <| ss_len := nAvailable |>)) i
                                         {| ss_seq := w32 (ss_seq sg + nAvailable); ss_len := w32 (ss_len sg - nAvailable);
                                            ss_xmit := 0; ss_flags := ss_flags sg |} |>)
         else ret tt) ;;;
        st <- transmit i now ;;
        if negb (st =? 0) then closedown_remote st else
        attempt_send_loop f (if sf_eqb sflags sfImmediateAck || sf_eqb sflags sfDelayedAck then sfNone else sflags) now
      end
    end
  end.

(* fuel: each iteration either returns or transmits one unsent segment / sends one ack *)
Definition attempt_send (sflags : sflag) (now : Z) : M unit :=
  s <- get ;;
  when (time_diff now (lastsend s) >? rx_rto s) (upd (fun s => s <| cwnd := mss s |>)) ;;;
  s <- get ;;
  (* fuel: every iteration sends at least min(mss) / 4 bytes or stops; mss may shrink down to 180 (296 - overhead) inside the loop *)
  attempt_send_loop (100 + length (slist s) + Z.to_nat (sb_buffered s / 40))%nat sflags now.

Definition closedown (err : Z) (local : bool) (now : Z) : M unit :=
  s <- get ;;
  (if local && support_fin_ack s then queue_rst_message ;;; attempt_send sfRst now
   else if local then upd (fun s => s <| shutdown := SD_FORCEFUL |>) else ret tt) ;;;
  closedown_states ;;; set_state_closed err.

(** ---- options ---- *)
Definition resize_receive_buffer (new_size : Z) : M unit :=
  s <- get ;;
  if rbuf_len s =? new_size then ret tt else
  let fix scale (fuel : nat) (sz sf : Z) : Z * Z :=
    match fuel with O => (sz, sf) | S f => if sz >? 65535 then scale f (sz / 2) (sf + 1) else (sz, sf) end in
  let '(sz, sf) := scale 33%nat new_size 0 in
  let nsz := w32 (sz * 2 ^ sf) in
  (* pseudo_tcp_fifo_set_capacity: FALSE when the data does not fit; the buffer is then kept as it is (fix 4e3dfae: was a g_assert) *)
  if negb (rb_buffered s <=? nsz) then ret tt else
  put (s <| rbuf := (rbuf s) <| rb_cap := nsz |> <| rb_fut := [] |> |> <| rbuf_len := nsz |> <| rwnd_scale := sf mod 256 |>
         <| ssthresh := nsz |> <| rcv_wnd := w32 (nsz - rb_buffered s) |>).

(* parse_options over data[0..len): (has_wnd_scale, has_fin_ack) and the scale to apply; None = early return *)
Fixpoint parse_opts (fuel : nat) (d : bytes) (hw hf : bool) (scale : option Z) : option (bool * bool * option Z) :=
  match fuel with
  | O => Some (hw, hf, scale)
  | S f =>
    match d with
    | [] => Some (hw, hf, scale)
    | kind :: d1 =>
      if kind =? 0 then Some (hw, hf, scale) else
      if kind =? 1 then parse_opts f d1 hw hf scale else
      match d1 with
      | [] => None
      | ol :: d2 =>
        if len d2 <? ol then None else
        let v := firstn (Z.to_nat ol) d2 in
        let scale' := if (kind =? 3) && (ol =? 1) then Some (Z.min (nth 0 v 0) 14) else scale in
        parse_opts f (skipn (Z.to_nat ol) d2) (hw || (kind =? 3)) (hf || (kind =? 254)) scale'
      end
    end
  end.
(* options are applied as they are met, also when the walk stops early *)
Fixpoint apply_opts (fuel : nat) (d : bytes) : M bool :=
  match fuel with
  | O => ret true
  | S f =>
    match d with
    | [] => ret true
    | kind :: d1 =>
      if kind =? 0 then ret true else
      if kind =? 1 then apply_opts f d1 else
      match d1 with
      | [] => ret false
      | ol :: d2 =>
        if len d2 <? ol then ret false else
        let v := firstn (Z.to_nat ol) d2 in
        when ((kind =? 3) && (ol =? 1)) (upd (fun s => s <| swnd_scale := Z.min (nth 0 v 0) 14 |>)) ;;;
        when (kind =? 254) (upd (fun s => s <| support_fin_ack := true |>)) ;;;
        apply_opts f (skipn (Z.to_nat ol) d2)
      end
    end
  end.
Definition parse_options (d : bytes) : M unit :=
  completed <- apply_opts (S (length d)) d ;;
  if negb completed then ret tt else
  match parse_opts (S (length d)) d false false None with
  | None => ret tt
  | Some (hw, hf, _) =>
    s <- get ;;
    (if negb hw && (rwnd_scale s >? 0) then resize_receive_buffer 61440 ;;; upd (fun s => s <| swnd_scale := 0 |>) else ret tt) ;;;
    when (negb hf) (upd (fun s => s <| support_fin_ack := false |>))
  end.

(** ---- process (an incoming segment) ---- *)
Record segment := { g_conv : Z; g_seq : Z; g_ack : Z; g_flags : Z; g_wnd : Z; g_tsval : Z; g_tsecr : Z; g_data : bytes }.

Definition bound (lo mid hi : Z) : Z := Z.min (Z.max lo mid) hi.

(* pop acknowledged bytes from the head of slist *)
Fixpoint ack_slist (fuel : nat) (l : list sseg) (nFree largest : Z) : option (list sseg * Z) :=
  match fuel with
  | O => None
  | S f =>
    if nFree <=? 0 then Some (l, largest) else
    match l with
    | [] => None                                   (* g_assert (g_queue_get_length (&priv->slist) != 0) *)
    | d :: l' =>
      if nFree <? ss_len d then Some ((d <| ss_len := ss_len d - nFree |> <| ss_seq := w32 (ss_seq d + nFree) |>) :: l', largest)
      else ack_slist f l' (nFree - ss_len d) (if ss_len d >? largest then ss_len d else largest)
    end
  end.

(* rlist recovery after in-order data: consume stored out-of-order extents that are now contiguous *)
Fixpoint recover_rlist (fuel : nat) (sf : sflag) : M sflag :=
  match fuel with
  | O => ret sf
  | S f =>
    s <- get ;;
    match rlist s with
    | r :: rl =>
      if SMALLER_OR_EQUAL (rs_seq r) (rcv_nxt s) then
        (if LARGER (w32 (rs_seq r + rs_len r)) (rcv_nxt s) then
           let nAdjust := w32 (rs_seq r + rs_len r - rcv_nxt s) in
           match rb_commit (rbuf s) nAdjust with
           | Fault => fault
           | Ok rb' => put (s <| rbuf := rb' |> <| rcv_nxt := w32 (rcv_nxt s + nAdjust) |> <| rcv_wnd := w32 (rcv_wnd s - nAdjust) |> <| rlist := rl |>) ;;;
                       recover_rlist f sfImmediateAck
           end
         else put (s <| rlist := rl |>) ;;; recover_rlist f sf)
      else ret sf
    | [] => ret sf
    end
  end.

Fixpoint insert_rseg (l : list rseg) (r : rseg) : list rseg :=
  match l with
  | [] => [r]
  | x :: l' => if SMALLER (rs_seq x) (rs_seq r) then x :: insert_rseg l' r else r :: l
  end.

Definition process (seg : segment) (now : Z) : M bool :=
  s <- get ;;
  if negb (g_conv seg =? conv s) then ret false else
  put (s <| last_traffic := now |> <| lastrecv := now |> <| bOutgoing := false |>) ;;;
  s <- get ;;
  let slen := len (g_data seg) in
  if st_eqb (state s) CLOSED || (has_received_fin_ack (state s) && (slen >? 0)) then
    when (negb (has_flag (g_flags seg) FLAG_RST)) (closedown 0 true now) ;;; ret false
  else if has_flag (g_flags seg) FLAG_RST then closedown ECONNRESET false now ;;; ret false
  else
  (* control segments *)
  ctl <- (if has_flag (g_flags seg) FLAG_CTL then
            match g_data seg with
            | [] => ret (Some false)                       (* return FALSE *)
            | c0 :: opts =>
              if c0 =? 0 then
                parse_options opts ;;;
                s <- get ;;
                (match state s with
                 | LISTEN => set_state SYN_RECEIVED ;;; queue_connect_message
                 | SYN_SENT => set_state_established
                 | _ => ret tt end) ;;; ret None
              else ret (Some false)
            end
          else ret None) ;;
  let bConnect := has_flag (g_flags seg) FLAG_CTL in
  match ctl with
  | Some b => ret b
  | None =>
    s <- get ;;
    when (SMALLER_OR_EQUAL (g_seq seg) (ts_lastack s) && SMALLER (ts_lastack s) (w32 (g_seq seg + slen)))
         (upd (fun s => s <| ts_recent := g_tsval seg |>)) ;;;
    s <- get ;;
    let valuable := LARGER (g_ack seg) (snd_una s) && SMALLER_OR_EQUAL (g_ack seg) (snd_nxt s) in
    let duplicate := g_ack seg =? snd_una s in
    (* returns (continue?, is_fin_ack) *)
    ackr <- (if valuable then
        rttok <- (if negb (g_tsecr seg =? 0) then
                    let rtt := time_diff now (g_tsecr seg) in
                    if rtt >=? 0 then
                      upd (fun s =>
                        let '(srtt, var) := if rx_srtt s =? 0 then (w32 rtt, w32 (rtt / 2))
                                            else (w32 ((7 * rx_srtt s + rtt) / 8), w32 ((3 * rx_rttvar s + Z.abs (rtt - rx_srtt s)) / 4)) in
                        s <| rx_srtt := srtt |> <| rx_rttvar := var |>
                          <| rx_rto := bound 1000 (w32 (srtt + Z.max 1 (4 * var))) 60000 |> <| last_acked_ts := g_tsecr seg |>) ;;; ret true
                    else ret false
                  else ret true) ;;
        if negb rttok then ret (false, false) else
        s <- get ;;
        let nAcked0 := w32 (g_ack seg - snd_una s) in
        let finack := (nAcked0 =? sbuf_n s + 1) && has_sent_fin (state s) in
        let nAcked := if finack then nAcked0 - 1 else nAcked0 in
        (* pseudo_tcp_fifo_consume_read_data asserts size <= data_length *)
        assert (nAcked <=? sbuf_n s) ;;;
        match ack_slist (S (length (slist s))) (slist s) nAcked (largest s) with
        | None => fault
        | Some (sl, lg) =>
          put (s <| snd_wnd := w32 (Z.shiftl (g_wnd seg) (swnd_scale s)) |> <| snd_una := g_ack seg |>
                 <| rto_base := if g_ack seg =? snd_nxt s then 0 else now |>
                 <| sbuf := skipn (Z.to_nat nAcked) (sbuf s) |> <| sbuf_n := sbuf_n s - nAcked |> <| slist := sl |> <| largest := lg |>) ;;;
          s <- get ;;
          if dup_acks s >=? 3 then
            if LARGER_OR_EQUAL (snd_una s) (recover s) then
              let nInFlight := w32 (snd_nxt s - snd_una s) in
              put (s <| cwnd := Z.min (ssthresh s) (w32 (Z.max nInFlight (mss s) + mss s)) |> <| fast_recovery := false |> <| dup_acks := 0 |>) ;;;
              ret (true, finack)
            else if finack then ret (true, finack)
            else
              st <- (match slist s with [] => fault | _ => transmit O now end) ;;
              if negb (st =? 0) then closedown st true now ;;; ret (false, finack) else
              upd (fun s => s <| cwnd := w32 (cwnd s + (if nAcked >? mss s then mss s else 0) - Z.min nAcked (cwnd s)) |>) ;;;
              ret (true, finack)
          else
            upd (fun s => s <| dup_acks := 0 |>
                            <| cwnd := if cwnd s <? ssthresh s then w32 (cwnd s + mss s)
                                       else w32 (cwnd s + Z.max 1 (w32 (mss s * mss s) / cwnd s)) |>) ;;;
            ret (true, finack)
        end
      else if duplicate then
        upd (fun s => s <| snd_wnd := w32 (Z.shiftl (g_wnd seg) (swnd_scale s)) |>) ;;;
        s <- get ;;
        if slen >? 0 then ret (true, false) else
        if negb (snd_una s =? snd_nxt s) then
          put (s <| dup_acks := (dup_acks s + 1) mod 256 |>) ;;;
          s <- get ;;
          if dup_acks s =? 3 then
            if LARGER_OR_EQUAL (snd_una s) (recover s) || (g_tsecr seg =? last_acked_ts s) then
              st <- (match slist s with [] => fault | _ => transmit O now end) ;;
              if negb (st =? 0) then closedown st true now ;;; ret (false, false) else
              upd (fun s => let nInFlight := w32 (snd_nxt s - snd_una s) in
                            let ss := Z.max (nInFlight / 2) (w32 (2 * mss s)) in
                            s <| recover := snd_nxt s |> <| ssthresh := ss |> <| cwnd := w32 (ss + 3 * mss s) |> <| fast_recovery := true |>) ;;;
              ret (true, false)
            else ret (true, false)
          else if dup_acks s >? 3 then
            when (fast_recovery s) (upd (fun s => s <| cwnd := w32 (cwnd s + mss s) |>)) ;;; ret (true, false)
          else ret (true, false)
        else upd (fun s => s <| dup_acks := 0 |>) ;;; ret (true, false)
      else ret (true, false)) ;;
    let '(cont, is_fin_ack) := ackr in
    if negb cont then ret false else
    s <- get ;;
    when (st_eqb (state s) SYN_RECEIVED && negb bConnect) set_state_established ;;;
    s <- get ;;
    (* FIN handling *)
    finr <- (if support_fin_ack s then
        when (has_flag (g_flags seg) FLAG_FIN) (upd (fun s => s <| rcv_fin := g_seq seg |>)) ;;;
        if has_flag (g_flags seg) FLAG_FIN && negb (slen =? 0) then ret None else
        s <- get ;;
        let received_fin := negb (rcv_nxt s =? 0) && (g_seq seg =? rcv_nxt s) && (slen <=? rb_remaining s)
                            && (w32 (rcv_nxt s + slen) =? rcv_fin s) in
        (match state s with
         | ESTABLISHED => when received_fin (set_state CLOSE_WAIT)
         | CLOSING => when is_fin_ack (set_state TIME_WAIT)
         | LAST_ACK => when is_fin_ack (set_state_closed 0)
         | FIN_WAIT_1 => if is_fin_ack && received_fin then set_state TIME_WAIT
                         else if is_fin_ack then set_state FIN_WAIT_2
                         else when received_fin (set_state CLOSING)
         | FIN_WAIT_2 => when received_fin (set_state TIME_WAIT)
         | _ => ret tt
         end) ;;; ret (Some received_fin)
      else ret (Some false)) ;;
    match finr with
    | None => ret false
    | Some received_fin =>
      s <- get ;;
      let kIdeal := w32 (sbuf_len s + rbuf_len s) / 2 in
      when (bWriteEnable s && (sb_buffered s <? kIdeal)) (upd (fun s => s <| bWriteEnable := false |>) ;;; emit EvWritable) ;;;
      s <- get ;;
      let sflags0 := if negb (g_seq seg =? rcv_nxt s) then sfDuplicateAck
                     else if negb (slen =? 0) then (if (ack_delay s =? 0) || received_fin then sfImmediateAck else sfDelayedAck)
                     else if received_fin then sfImmediateAck else sfNone in
      (* trimming *)
      let '(seq1, data1) :=
        if SMALLER (g_seq seg) (rcv_nxt s) then
          let nAdjust := w32 (rcv_nxt s - g_seq seg) in
          if nAdjust <? slen then (w32 (g_seq seg + nAdjust), skipn (Z.to_nat nAdjust) (g_data seg)) else (g_seq seg, [])
        else (g_seq seg, g_data seg) in
      let avail := rb_remaining s in
      let data2 :=
        if w32 (seq1 + len data1 - rcv_nxt s) >? avail then
          let nAdjust := w32 (seq1 + len data1 - rcv_nxt s - avail) in
          if nAdjust <? len data1 then firstn (Z.to_nat (len data1 - nAdjust)) data1 else []
        else data1 in
      (* data that overtakes the peer's connect segment is left to be retransmitted (seg->len = 0 in LISTEN / SYN-SENT) *)
      let data2 := if negb (has_flag (g_flags seg) FLAG_CTL) && (st_eqb (state s) LISTEN || st_eqb (state s) SYN_SENT) then [] else data2 in
      let ignore := has_flag (g_flags seg) FLAG_CTL || (negb (support_fin_ack s) && negb (match shutdown s with SD_NONE => true | _ => false end)) in
      dr <- (if len data2 >? 0 then
          if ignore then
            when (seq1 =? rcv_nxt s) (upd (fun s => s <| rcv_nxt := w32 (rcv_nxt s + len data2) |>)) ;;; ret (sflags0, false)
          else
            let nOffset := w32 (seq1 - rcv_nxt s) in
            let '(rb1, res) := rb_write_offset (rbuf s) data2 nOffset in
            assert (res =? len data2) ;;;
            if seq1 =? rcv_nxt s then
              match rb_commit rb1 (len data2) with
              | Fault => fault
              | Ok rb2 =>
                put (s <| rbuf := rb2 |> <| rcv_nxt := w32 (rcv_nxt s + len data2) |> <| rcv_wnd := w32 (rcv_wnd s - len data2) |>) ;;;
                s <- get ;;
                sf <- recover_rlist (S (length (rlist s))) sflags0 ;; ret (sf, true)
              end
            else
              put (s <| rbuf := rb1 |> <| rlist := insert_rseg (rlist s) {| rs_seq := seq1; rs_len := len data2 |} |>) ;;; ret (sflags0, false)
        else ret (sflags0, false)) ;;
      let '(sflags, bNewData) := dr in
      when received_fin (upd (fun s => s <| rcv_nxt := w32 (rcv_nxt s + 1) |>)) ;;;
      attempt_send sflags now ;;;
      s <- get ;;
      when (bNewData && bReadEnable s) (emit EvReadable) ;;;
      ret true
    end
  end.

(** ---- public API ---- *)
Definition parse_packet (p : bytes) : option segment :=
  if len p <? 24 then None else
  let w o := be32_of (nth o p 0) (nth (o + 1) p 0) (nth (o + 2) p 0) (nth (o + 3) p 0) in
  Some {| g_conv := w 0%nat; g_seq := w 4%nat; g_ack := w 8%nat; g_flags := nth 13 p 0;
          g_wnd := be16 (nth 14 p 0) (nth 15 p 0); g_tsval := w 16%nat; g_tsecr := w 20%nat; g_data := skipn 24 p |}.

Definition notify_packet (p : bytes) (now : Z) : M bool :=
  if len p >? MAX_PACKET then upd (fun s => s <| error := EMSGSIZE |>) ;;; ret false
  else match parse_packet p with
       | None => upd (fun s => s <| error := EINVAL |>) ;;; ret false
       | Some seg => process seg now
       end.

Definition connect (now : Z) : M bool :=
  s <- get ;;
  if negb (st_eqb (state s) LISTEN) then put (s <| error := EINVAL |>) ;;; ret false else
  set_state SYN_SENT ;;; queue_connect_message ;;; attempt_send sfNone now ;;; ret true.

Definition notify_mtu (mtu : Z) : M unit :=
  upd (fun s => s <| mtu_advise := mtu |>) ;;; s <- get ;; when (st_eqb (state s) ESTABLISHED) adjustMTU.

Definition notify_clock (now : Z) : M unit :=
  s <- get ;;
  if st_eqb (state s) CLOSED then ret tt else
  when (support_fin_ack s && st_eqb (state s) TIME_WAIT) (set_state_closed 0) ;;;
  s <- get ;;
  (* LAST-ACK: resend the FIN that is still waiting for its ACK (the last segment of the send list, already transmitted); queue a new one only
     if there is none (fix 228ddd4: a new FIN was queued on every call, each taking up one more sequence number) *)
  r0 <- (if support_fin_ack s && st_eqb (state s) LAST_ACK then
           match last_seg (slist s) with
           | Some g =>
             if has_flag (ss_flags g) FLAG_FIN && (ss_xmit g >? 0) then
               st <- transmit (length (slist s) - 1) now ;;
               if negb (st =? 0) then closedown st true now ;;; ret false else ret true
             else queue_fin_message ;;; attempt_send sfFin now ;;; ret true
           | None => queue_fin_message ;;; attempt_send sfFin now ;;; ret true
           end
         else ret true) ;;
  if negb r0 then ret tt else
  s <- get ;;
  r1 <- (if negb (rto_base s =? 0) && (time_diff (w32 (rto_base s + rx_rto s)) now <=? 0) then
           match slist s with
           | [] => fault                                    (* g_assert_not_reached *)
           | _ =>
             st <- transmit O now ;;
             if negb (st =? 0) then closedown st true now ;;; ret false else
             upd (fun s =>
               let nInFlight := w32 (snd_nxt s - snd_una s) in
               let lim := if st_num (state s) <? 3 then 1000 else 60000 in
               let s1 := s <| ssthresh := Z.max (nInFlight / 2) (w32 (2 * mss s)) |> <| cwnd := mss s |>
                           <| rx_rto := Z.min lim (w32 (rx_rto s * 2)) |> <| rto_base := now |> <| recover := snd_nxt s |> in
               if dup_acks s >=? 3 then s1 <| dup_acks := 0 |> <| fast_recovery := false |> else s1) ;;; ret true
           end
         else ret true) ;;
  if negb r1 then ret tt else
  s <- get ;;
  r2 <- (if (snd_wnd s =? 0) && (time_diff (w32 (lastsend s + rx_rto s)) now <=? 0) then
           if time_diff now (lastrecv s) >=? 15000 then closedown ECONNABORTED true now ;;; ret false else
           packet (w32 (snd_nxt s - 1)) 0 0 0 now ;;;
           upd (fun s => s <| lastsend := now |> <| rx_rto := Z.min 60000 (w32 (rx_rto s * 2)) |>) ;;; ret true
         else ret true) ;;
  if negb r2 then ret tt else
  s <- get ;;
  when (negb (t_ack s =? 0) && (time_diff (w32 (t_ack s + ack_delay s)) now <=? 0)) (packet (snd_nxt s) 0 0 0 now ;;; ret tt).

(* get_next_clock (timeout in/out as guint64): None = FALSE *)
Definition get_next_clock (timeout now : Z) : M (option Z) :=
  s <- get ;;
  match shutdown s with
  | SD_FORCEFUL => closedown 0 false now ;;; ret None
  | _ =>
    if (match shutdown s with SD_GRACEFUL => true | _ => false end) &&
       (negb (st_eqb (state s) ESTABLISHED) || ((sb_buffered s =? 0) && (t_ack s =? 0)))
    then closedown 0 false now ;;; ret None else
    let closed_timeout := if support_fin_ack s && st_eqb (state s) TIME_WAIT then 1 else 60000 in
    if support_fin_ack s && st_eqb (state s) CLOSED then ret None else
    let t0 := if (timeout =? 0) || (timeout <? now) then w32 (now + closed_timeout) else timeout in
    if support_fin_ack s && st_eqb (state s) TIME_WAIT then ret (Some (Z.min t0 (w32 (now + 1)))) else
    if st_eqb (state s) CLOSED && negb (support_fin_ack s) then ret (Some (Z.min t0 (w32 (now + 60000)))) else
    let t1 := Z.min t0 (w32 (now + 4000)) in
    let t2 := if negb (t_ack s =? 0) then Z.min t1 (w32 (t_ack s + ack_delay s)) else t1 in
    let t3 := if negb (rto_base s =? 0) then Z.min t2 (w32 (rto_base s + rx_rto s)) else t2 in
    let t4 := if snd_wnd s =? 0 then Z.min t3 (w32 (lastsend s + rx_rto s)) else t3 in
    ret (Some t4)
  end.

(* recv: (return value, bytes) ; -1 with error set *)
Definition recv (n : Z) (now : Z) : M (Z * bytes) :=
  s <- get ;;
  if support_fin_ack s && shutdown_reads s then ret (0, []) else
  if negb (support_fin_ack s) && st_eqb (state s) CLOSED then ret (0, []) else
  if negb (support_fin_ack s) && negb (st_eqb (state s) ESTABLISHED) then put (s <| error := ENOTCONN |>) ;;; ret (-1, []) else
  if n =? 0 then ret (0, []) else
  let d := firstn (Z.to_nat n) (rb_data (rbuf s)) in
  let rd := Z.min n (rb_n (rbuf s)) in
  put (s <| rbuf := (rbuf s) <| rb_data := skipn (Z.to_nat n) (rb_data (rbuf s)) |> <| rb_n := rb_n (rbuf s) - rd |> |>) ;;;
  s <- get ;;
  if (rd =? 0) && negb (has_received_fin (state s) || has_received_fin_ack (state s)) then
    put (s <| bReadEnable := true |> <| error := EWOULDBLOCK |>) ;;; ret (-1, [])
  else
    let avail := rb_remaining s in
    (* gsize available_space - guint32 rcv_wnd: 64-bit unsigned arithmetic *)
    (if (avail - rcv_wnd s) mod 18446744073709551616 >=? Z.min (rbuf_len s / 2) (mss s) then
       let wasClosed := rcv_wnd s =? 0 in
       put (s <| rcv_wnd := avail |>) ;;; when wasClosed (attempt_send sfImmediateAck now)
     else ret tt) ;;; ret (rd, d).

Definition send (data : bytes) (now : Z) : M Z :=
  s <- get ;;
  if negb (st_eqb (state s) ESTABLISHED) then put (s <| error := if has_sent_fin (state s) then EPIPE else ENOTCONN |>) ;;; ret (-1) else
  if sb_remaining s =? 0 then put (s <| bWriteEnable := true |> <| error := EWOULDBLOCK |>) ;;; ret (-1) else
  w <- queue data 0 ;;
  attempt_send sfNone now ;;;
  when ((w >? 0) && (w <? len data)) (upd (fun s => s <| bWriteEnable := true |>)) ;;; ret w.

(* how: 0 = RD, 1 = WR, 2 = RDWR *)
Definition shutdown_sock (how : Z) (now : Z) : M unit :=
  s <- get ;;
  if negb (support_fin_ack s) then
    when (match shutdown s with SD_NONE => true | _ => false end) (upd (fun s => s <| shutdown := SD_GRACEFUL |>))
  else
  when ((how =? 0) || (how =? 2)) (upd (fun s => s <| shutdown_reads := true |>)) ;;;
  if how =? 0 then ret tt else
  s <- get ;;
  match state s with
  | LISTEN | SYN_SENT => set_state_closed 0
  | SYN_RECEIVED | ESTABLISHED =>
    if rb_buffered s >? 0 then closedown ECONNABORTED true now
    else queue_fin_message ;;; attempt_send sfFin now ;;; s <- get ;; when (negb (st_eqb (state s) CLOSED)) (set_state FIN_WAIT_1)
  | CLOSE_WAIT => queue_fin_message ;;; attempt_send sfFin now ;;; s <- get ;; when (negb (st_eqb (state s) CLOSED)) (set_state LAST_ACK)
  | _ => ret tt
  end.

Definition close_sock (force : bool) (now : Z) : M unit :=
  s <- get ;;
  if force && negb (st_eqb (state s) CLOSED) then closedown ECONNABORTED true now else shutdown_sock 2 now.

(* property setters usable only in LISTEN (as the GObject properties are) *)
Definition set_rcv_buf (n : Z) : M unit := s <- get ;; if st_eqb (state s) LISTEN then resize_receive_buffer n else ret tt.
Definition set_snd_buf (n : Z) : M unit :=
  s <- get ;; if st_eqb (state s) LISTEN then put (s <| sbuf_len := n |> <| sbuf_cap := if sbuf_n s >? n then sbuf_cap s else n |>) else ret tt.

Definition run {A} (m : M A) (s : sock) : res (A * sock * list event) := m s [].
