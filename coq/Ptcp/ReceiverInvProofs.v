(** C08, receiver soundness: over ALL sequences of socket operations, if every segment fed to the socket is honest with respect to a
    stream [S] of the peer (its payload is the slice of [S] at its sequence number; in any order, duplicated, overlapping, re-segmented),
    the bytes handed to the application by [recv] are always a prefix of the peer's application bytes.  The model is untouched. *)
From Coq Require Import ZArith List Bool Lia ZifyBool.
From RecordUpdate Require Import RecordSet.
From Nice Require Import Base.Bytes Ptcp.PtcpModel Ptcp.PtcpProofs Ptcp.ReassemblyProofs Ptcp.PtcpHoare Ptcp.SockOps Ptcp.SenderInvProofs.
Import ListNotations.
Import RecordSetNotations.
Local Open Scope Z_scope.
Local Open Scope bool_scope.

(** ---- serial-number comparisons below 2^31 are the ordinary ones ---- *)
Lemma w32_neg x : - M32 <= x < 0 -> w32 x = x + M32.
Proof.
  intros H. unfold w32. replace x with ((x + M32) + (-1) * M32) at 1 by lia. rewrite Z_mod_plus_full. apply Z.mod_small. lia.
Qed.
Lemma LARGER_lt a b : 0 <= a < NW -> 0 <= b < NW -> LARGER a b = (b <? a).
Proof.
  unfold LARGER, NW. intros Ha Hb. destruct (b <? a) eqn:E.
  - unfold w32. rewrite Z.mod_small by (unfold M32; lia). lia.
  - rewrite w32_neg by (unfold M32; lia). unfold M32. lia.
Qed.
Lemma SMALLER_lt a b : 0 <= a < NW -> 0 <= b < NW -> SMALLER a b = (a <? b).
Proof. intros Ha Hb. unfold SMALLER. apply LARGER_lt; assumption. Qed.
Lemma LARGER_OR_EQUAL_le a b : 0 <= a < NW - 1 -> 0 <= b < NW -> LARGER_OR_EQUAL a b = (b <=? a).
Proof.
  unfold LARGER_OR_EQUAL, NW. intros Ha Hb. destruct (b <=? a) eqn:E.
  - unfold w32. rewrite Z.mod_small by (unfold M32; lia). lia.
  - rewrite w32_neg by (unfold M32; lia). unfold M32. lia.
Qed.
Lemma SMALLER_OR_EQUAL_le a b : 0 <= a < NW -> 0 <= b < NW - 1 -> SMALLER_OR_EQUAL a b = (a <=? b).
Proof. intros Ha Hb. unfold SMALLER_OR_EQUAL. apply LARGER_OR_EQUAL_le; assumption. Qed.
Lemma w32_small x : 0 <= x < M32 -> w32 x = x.
Proof. unfold w32. intros H. apply Z.mod_small. exact H. Qed.

(** ---- what the receive side looks at ---- *)
Definition pre_st (st : tstate) : bool := match st with LISTEN | SYN_SENT | CLOSED => true | _ => false end.
Definition nl_st (st : tstate) : bool := match st with LISTEN | SYN_SENT => false | _ => true end.

Definition same_rcv (s s' : sock) : Prop :=
  rbuf s' = rbuf s /\ rcv_nxt s' = rcv_nxt s /\ rlist s' = rlist s /\ rcv_fin s' = rcv_fin s /\
  support_fin_ack s' = support_fin_ack s /\ rwnd_scale s' = rwnd_scale s /\ rbuf_len s' = rbuf_len s /\
  (shutdown s <> SD_NONE -> shutdown s' <> SD_NONE) /\
  (pre_st (state s) = true -> pre_st (state s') = true) /\ (nl_st (state s) = true -> nl_st (state s') = true).

Lemma same_rcv_refl s : same_rcv s s. Proof. unfold same_rcv. repeat split; auto. Qed.
Lemma same_rcv_trans a b c : same_rcv a b -> same_rcv b c -> same_rcv a c.
Proof.
  unfold same_rcv. intros (A1 & A2 & A3 & A4 & A5 & A6 & A0 & A7 & A8 & A9) (B1 & B2 & B3 & B4 & B5 & B6 & B0 & B7 & B8 & B9).
  repeat split; try congruence; auto.
Qed.

Definition rframes {A} (m : M A) : Prop := forall s ev, wp m s ev (fun _ s' _ => same_rcv s s').

Lemma wp_bind_rfr {A B} (m : M A) (f : A -> M B) s ev Q :
  rframes m -> (forall a s1 ev1, same_rcv s s1 -> wp (f a) s1 ev1 Q) -> wp (bind m f) s ev Q.
Proof. intros Hm Hf. eapply wp_bind_spec; [apply Hm|exact Hf]. Qed.

Ltac rsame_triv :=
  solve [unfold same_rcv; cbn; repeat split; try reflexivity; try (intros; assumption); try discriminate; auto].
Ltac rfr_chain :=
  lazymatch goal with |- same_rcv _ _ => idtac end;
  repeat match goal with H : same_rcv ?a ?c |- same_rcv ?a _ => eapply same_rcv_trans; [exact H|]; clear H end;
  first [ apply same_rcv_refl | rsame_triv | eapply same_rcv_trans; [|eassumption]; rsame_triv | idtac ].
Ltac rfr_call L := eapply wp_bind_rfr; [apply L; try discriminate|intros ? ? ? ?].
Ltac rfr_last L := eapply wp_conseq; [apply L; try discriminate|cbv beta; intros ? ? ? ?; rfr_chain].

Lemma set_state_rframes n : n <> LISTEN -> n <> SYN_SENT -> n <> SYN_RECEIVED -> n <> ESTABLISHED -> rframes (set_state n).
Proof.
  intros H1 H2 H3 H4 s ev. unfold set_state. wp_prims. destruct (st_eqb (state s) n) eqn:E.
  - wp_prims. apply same_rcv_refl.
  - wp_prims. unfold same_rcv; cbn. repeat split; auto.
    + intros P. destruct (state s), n; try discriminate; try congruence; reflexivity.
    + intros _. destruct n; try congruence; reflexivity.
Qed.

Lemma adjustMTU_rframes : rframes adjustMTU.
Proof. intros s ev. unfold adjustMTU. wp_prims. rsame_triv. Qed.

Lemma set_state_closed_rframes err : rframes (set_state_closed err).
Proof.
  intros s ev. unfold set_state_closed. rfr_call set_state_rframes.
  apply wp_when; intros _; [wp_prims|]; rfr_chain.
Qed.

Lemma closedown_states_rframes : rframes closedown_states.
Proof.
  intros s ev. unfold closedown_states. wp_prims.
  destruct (state s); wp_prims; try apply same_rcv_refl;
  repeat (rfr_call set_state_rframes); rfr_last set_state_rframes.
Qed.

Lemma closedown_remote_rframes err : rframes (closedown_remote err).
Proof. intros s ev. unfold closedown_remote. rfr_call closedown_states_rframes. rfr_last set_state_closed_rframes. Qed.

(* established from SYN-RECEIVED (never from a pre-connection state here) *)
Lemma set_state_established_rspec s ev :
  pre_st (state s) = false -> wp set_state_established s ev (fun _ s' _ => same_rcv s s').
Proof.
  intros Hp. unfold set_state_established.
  apply (wp_bind_spec _ _ _ _ (fun _ s' _ => same_rcv s s')).
  { unfold set_state. wp_prims. destruct (st_eqb _ _); wp_prims; [apply same_rcv_refl|].
    unfold same_rcv; cbn. repeat split; auto. congruence. }
  cbv beta. intros _ s1 ev1 F1. rfr_call adjustMTU_rframes. wp_prims. rfr_chain.
Qed.

Lemma queue_rframes d f : rframes (queue d f).
Proof.
  intros s ev. unfold queue. wp_prims. destruct (len d >? sb_remaining s); wp_prims; rsame_triv.
Qed.
Lemma queue_connect_rframes : rframes queue_connect_message.
Proof.
  intros s ev. unfold queue_connect_message. wp_prims.
  eapply wp_bind_spec; [apply queue_rframes|]. cbv beta. intros _ s1 ev1 F. wp_prims. eapply same_rcv_trans; [|exact F]. rsame_triv.
Qed.
Lemma queue_fin_rframes : rframes queue_fin_message.
Proof. intros s ev. unfold queue_fin_message. wp_prims. rfr_call queue_rframes. wp_prims. rfr_chain. Qed.
Lemma queue_rst_rframes : rframes queue_rst_message.
Proof. intros s ev. unfold queue_rst_message. wp_prims. rfr_call queue_rframes. wp_prims. rfr_chain. Qed.

Lemma packet_rframes seq flags offset ln now : rframes (packet seq flags offset ln now).
Proof.
  intros s ev. unfold packet. wp_prims. destruct (24 + ln >? wr_limit _); cbn [when]; wp_prims.
  - destruct (ln =? 0); wp_prims; rsame_triv.
  - destruct (ln >? 0); rsame_triv.
Qed.

Lemma shrink_mss_rsame fuel : forall s nT, same_rcv s (fst (shrink_mss fuel s nT)).
Proof.
  induction fuel as [|f IH]; intros s nT; cbn [shrink_mss]; [apply same_rcv_refl|].
  destruct (_ =? 0); [apply same_rcv_refl|]. destruct (_ <? nT); cbn [fst]; [rsame_triv|].
  eapply same_rcv_trans; [|apply IH]. rsame_triv.
Qed.

Lemma transmit_loop_rframes fuel : forall i nT now, rframes (transmit_loop fuel i nT now).
Proof.
  induction fuel as [|f IH]; intros i nT now s ev; cbn [transmit_loop]; [apply wp_fault|].
  wp_prims. destruct (nth_error _ _); [|apply wp_fault]. wp_prims.
  rfr_call packet_rframes. destruct a; wp_prims; try rfr_chain.
  pose proof (shrink_mss_rsame 12 s1 nT) as Hs. destruct (shrink_mss 12 s1 nT) as [s2 [m|]]; cbn [fst] in Hs; wp_prims.
  - eapply wp_conseq; [apply IH|]. cbv beta. intros _ s3 _ F3. rfr_chain.
  - rfr_chain.
Qed.

Lemma transmit_rframes i now : rframes (transmit i now).
Proof.
  intros s ev. unfold transmit. wp_prims. destruct (nth_error _ _) as [g|]; [|apply wp_fault].
  destruct (_ >=? _); [wp_prims; apply same_rcv_refl|].
  rfr_call transmit_loop_rframes. destruct a as [status nT]. destruct (negb (status =? 0)); [wp_prims; rfr_chain|]. wp_prims.
  match goal with |- wp (bind ?m _) _ _ _ => set (chk := m) end.
  assert (Hchk : forall Q : unit -> sock -> list event -> Prop, Q tt s1 ev1 -> wp chk s1 ev1 Q).
  { intros Q HQ. unfold chk. destruct (_ =? 0); wp_prims; exact HQ. }
  eapply wp_bind_spec; [apply (Hchk (fun _ s' ev' => s' = s1 /\ ev' = ev1)); split; reflexivity|]. cbv beta. intros _ s2 ev2 (-> & ->).
  wp_prims. rfr_chain.
Qed.

Lemma attempt_send_loop_rframes fuel : forall sflags now, rframes (attempt_send_loop fuel sflags now).
Proof.
  induction fuel as [|f IH]; intros sflags now s ev; cbn [attempt_send_loop]; [apply wp_fault|].
  wp_prims.
  destruct (sf_eqb sflags sfDuplicateAck).
  { rfr_call packet_rframes. eapply wp_conseq; [apply IH|]. cbv beta. intros; rfr_chain. }
  match goal with |- context [if ?a >? ?u then (if ?c then 0 else ?u) else ?a] =>
    set (nAvailable := if a >? u then (if c then 0 else u) else a) in * end.
  clearbody nAvailable.
  destruct ((nAvailable =? 0) && _).
  { destruct (sf_eqb sflags sfNone); [wp_prims; apply same_rcv_refl|].
    destruct (_ || _).
    - rfr_call packet_rframes. wp_prims. rfr_chain.
    - wp_prims. rsame_triv. }
  destruct (use_nagling s && _ && _ && _); [wp_prims; apply same_rcv_refl|].
  destruct (first_unsent (slist s) 0) as [i|]; [|wp_prims; apply same_rcv_refl].
  destruct (nth_error (slist s) i) as [g|] eqn:N; [|apply wp_fault].
  match goal with |- wp (bind ?m _) _ _ _ => set (spl := m) end.
  assert (Hspl : wp spl s ev (fun _ s' _ => same_rcv s s')).
  { unfold spl. destruct (_ && _); wp_prims; [rsame_triv|apply same_rcv_refl]. }
  eapply wp_bind_spec; [exact Hspl|]. cbv beta. intros _ s1 ev1 F1.
  rfr_call transmit_rframes.
  destruct (negb (a =? 0)).
  - eapply wp_conseq; [apply closedown_remote_rframes|]. cbv beta. intros; rfr_chain.
  - eapply wp_conseq; [apply IH|]. cbv beta. intros; rfr_chain.
Qed.

Lemma attempt_send_rframes sflags now : rframes (attempt_send sflags now).
Proof.
  intros s ev. unfold attempt_send. wp_prims.
  apply wp_bind_when; intros _; wp_prims.
  - eapply wp_conseq; [apply attempt_send_loop_rframes|]. cbv beta. intros. eapply same_rcv_trans; [|eassumption]. rsame_triv.
  - apply attempt_send_loop_rframes.
Qed.

Lemma set_state_post n s ev : wp (set_state n) s ev (fun _ s' _ => state s' = n).
Proof.
  unfold set_state. wp_prims. destruct (st_eqb (state s) n) eqn:E; wp_prims; [apply st_eqb_eq; exact E|reflexivity].
Qed.

Lemma set_state_closed_post err s ev : wp (set_state_closed err) s ev (fun _ s' _ => state s' = CLOSED).
Proof.
  unfold set_state_closed. eapply wp_bind_spec; [apply set_state_post|]. cbv beta. intros _ s1 ev1 E.
  apply wp_when; intros _; [wp_prims|]; exact E.
Qed.

Lemma closedown_rspec err local now s ev :
  wp (closedown err local now) s ev (fun _ s' _ => same_rcv s s' /\ state s' = CLOSED).
Proof.
  unfold closedown. wp_prims.
  match goal with |- wp (bind ?m _) _ _ _ => set (pre := m) end.
  assert (Hpre : wp pre s ev (fun _ s' _ => same_rcv s s')).
  { unfold pre. destruct (local && support_fin_ack s).
    - rfr_call queue_rst_rframes. eapply wp_conseq; [apply attempt_send_rframes|]. cbv beta. intros; rfr_chain.
    - destruct local; wp_prims; [rsame_triv|apply same_rcv_refl]. }
  eapply wp_bind_spec; [exact Hpre|]. cbv beta. intros _ s1 ev1 F1.
  rfr_call closedown_states_rframes.
  eapply wp_conseq; [apply wp_and; [apply set_state_closed_rframes|apply set_state_closed_post]|].
  cbv beta. intros _ s3 ev3 (F3 & E). split; [rfr_chain|exact E].
Qed.

(** ---- options of the connect message ---- *)
Fixpoint ao_res (fuel : nat) (d : bytes) : bool * bool :=   (* (walk completed, a FIN-ACK option was applied) *)
  match fuel with
  | O => (true, false)
  | S f =>
    match d with
    | [] => (true, false)
    | kind :: d1 =>
      if kind =? 0 then (true, false) else
      if kind =? 1 then ao_res f d1 else
      match d1 with
      | [] => (false, false)
      | ol :: d2 => if len d2 <? ol then (false, false) else
                    let r := ao_res f (skipn (Z.to_nat ol) d2) in (fst r, (kind =? 254) || snd r)
      end
    end
  end.

Definition same_rcv0 (s s' : sock) : Prop :=
  rbuf s' = rbuf s /\ rcv_nxt s' = rcv_nxt s /\ rlist s' = rlist s /\ rcv_fin s' = rcv_fin s /\
  rwnd_scale s' = rwnd_scale s /\ rbuf_len s' = rbuf_len s /\ shutdown s' = shutdown s /\ state s' = state s.

Lemma same_rcv0_refl s : same_rcv0 s s. Proof. unfold same_rcv0. repeat split; auto. Qed.
Lemma same_rcv0_trans a b c : same_rcv0 a b -> same_rcv0 b c -> same_rcv0 a c.
Proof. unfold same_rcv0. intuition congruence. Qed.
Lemma same_rcv_of0 s s' : same_rcv0 s s' -> support_fin_ack s' = support_fin_ack s -> same_rcv s s'.
Proof. unfold same_rcv0, same_rcv. intros (A1 & A2 & A3 & A4 & A5 & A6 & A7 & A8) E. rewrite A7, A8. repeat split; auto. Qed.

Lemma apply_opts_rspec fuel : forall d s ev,
  wp (apply_opts fuel d) s ev (fun c s' _ => c = fst (ao_res fuel d) /\ same_rcv0 s s' /\
                                             support_fin_ack s' = support_fin_ack s || snd (ao_res fuel d)).
Proof.
  induction fuel as [|f IH]; intros d s ev; cbn [apply_opts ao_res].
  { wp_prims. cbn. rewrite orb_false_r. split; [reflexivity|]. split; [apply same_rcv0_refl|reflexivity]. }
  assert (Hstop : forall c : bool, wp (ret c) s ev (fun c' s' _ => c' = fst (c, false) /\ same_rcv0 s s' /\ support_fin_ack s' = support_fin_ack s || snd (c, false))).
  { intros c. wp_prims. cbn. rewrite orb_false_r. split; [reflexivity|]. split; [apply same_rcv0_refl|reflexivity]. }
  destruct d as [|kind d1]; [apply Hstop|].
  destruct (kind =? 0); [apply Hstop|]. destruct (kind =? 1); [apply IH|].
  destruct d1 as [|ol d2]; [apply Hstop|]. destruct (len d2 <? ol); [apply Hstop|].
  cbn [fst snd].
  apply wp_bind_when; intros E1; wp_prims; (apply wp_bind_when; intros E2; wp_prims);
    (eapply wp_conseq; [apply IH|]; cbv beta; intros c s' _ (Hc & F & Hv); split; [exact Hc|]; split;
     [eapply same_rcv0_trans; [|exact F]; unfold same_rcv0; cbn; repeat split; reflexivity|]);
    rewrite Hv; cbn [support_fin_ack set]; rewrite ?E2; cbn; try reflexivity.
  - rewrite orb_true_r. reflexivity.
  - rewrite orb_true_r. reflexivity.
Qed.

Fixpoint rscale (fuel : nat) (sz sf : Z) : Z * Z :=
  match fuel with O => (sz, sf) | S f => if sz >? 65535 then rscale f (sz / 2) (sf + 1) else (sz, sf) end.

Definition resized (nsz sf : Z) (s s' : sock) : Prop :=
  rbuf s' = (rbuf s) <| rb_cap := nsz |> <| rb_fut := [] |> /\ rb_n (rbuf s) <= nsz /\
  rcv_nxt s' = rcv_nxt s /\ rlist s' = rlist s /\ rcv_fin s' = rcv_fin s /\ shutdown s' = shutdown s /\ state s' = state s /\
  rwnd_scale s' = sf mod 256 /\ rbuf_len s' = nsz.

Lemma resize_rspec n s ev :
  wp (resize_receive_buffer n) s ev (fun _ s' _ =>
    (s' = s /\ (rbuf_len s = n \/ let '(sz, sf) := rscale 33 n 0 in w32 (sz * 2 ^ sf) < rb_n (rbuf s))) \/
    (rbuf_len s <> n /\ support_fin_ack s' = support_fin_ack s /\ let '(sz, sf) := rscale 33 n 0 in resized (w32 (sz * 2 ^ sf)) sf s s')).
Proof.
  unfold resize_receive_buffer. wp_prims. destruct (rbuf_len s =? n) eqn:E; [wp_prims; left; split; [reflexivity|left; lia]|].
  match goal with |- context [let '(sz, sf) := ?e in _] => change e with (rscale 33 n 0) end.
  destruct (rscale 33 n 0) as [sz sf].
  destruct (negb (rb_buffered s <=? w32 (sz * 2 ^ sf))) eqn:Efit; wp_prims; [left; split; [reflexivity|right; unfold rb_buffered in Efit; lia]|].
  right. split; [lia|]. split; [reflexivity|].
  unfold resized, rb_buffered in *; cbn. repeat split; try reflexivity. lia.
Qed.

Definition Gopt (d : bytes) (v : bool) : bool :=
  let r := ao_res (S (length d)) d in
  if fst r then match parse_opts (S (length d)) d false false None with
                | None => v || snd r
                | Some (_, hf, _) => if hf then v || snd r else false
                end
  else v || snd r.
Definition resizes (d : bytes) : bool :=
  fst (ao_res (S (length d)) d) &&
  match parse_opts (S (length d)) d false false None with Some (hw, _, _) => negb hw | None => false end.
(* the connect message does not (any longer) make the socket resize its receive buffer *)
Definition NR (d : bytes) (s : sock) : Prop := resizes d = false \/ rwnd_scale s <= 0 \/ rbuf_len s = 61440.

Lemma Gopt_idem d v : Gopt d (Gopt d v) = Gopt d v.
Proof.
  unfold Gopt. destruct (fst _); [destruct (parse_opts _ _ _ _ _) as [[[hw hf] sc]|]; [destruct hf|]|];
    try reflexivity; destruct v, (snd _); reflexivity.
Qed.

Lemma parse_options_rspec d s ev :
  wp (parse_options d) s ev (fun _ s' _ =>
    support_fin_ack s' = Gopt d (support_fin_ack s) /\ (NR d s' \/ 61440 < rb_n (rbuf s)) /\
    (same_rcv0 s s' \/ (~ NR d s /\ resized 61440 0 s s'))).
Proof.
  unfold parse_options. eapply wp_bind_spec; [apply apply_opts_rspec|]. cbv beta. intros c s1 ev1 (Hc & F1 & Hv).
  unfold Gopt, NR, resizes. rewrite <- Hc.
  destruct c; cbn [negb andb].
  2:{ wp_prims. split; [exact Hv|]. split; [left; left; reflexivity|left; exact F1]. }
  destruct (parse_opts _ _ _ _ _) as [[[hw hf] sc]|].
  2:{ wp_prims. split; [exact Hv|]. split; [left; left; reflexivity|left; exact F1]. }
  wp_prims.
  assert (Hrw : rwnd_scale s1 = rwnd_scale s) by apply F1. assert (Hrl : rbuf_len s1 = rbuf_len s) by apply F1.
  assert (Hrb : rbuf s1 = rbuf s) by apply F1.
  assert (Hsame : forall s2 : sock, same_rcv0 s1 s2 -> same_rcv0 s s2) by (intros s2; apply same_rcv0_trans; exact F1).
  destruct (negb hw && (rwnd_scale s1 >? 0)) eqn:E.
  - apply wp_bind_assoc. eapply wp_bind_spec; [apply resize_rspec|]. cbv beta. intros _ s2 ev2 H2. wp_prims.
    apply andb_prop in E. destruct E as (Ehw & Esc). rewrite Ehw.
    destruct H2 as [(-> & Hl)|(Hl & Hsfa & Hr)].
    + assert (Hnr : (true = false \/ rwnd_scale s1 <= 0 \/ rbuf_len s1 = 61440) \/ 61440 < rb_n (rbuf s)).
      { destruct Hl as [Hl|Hl]; [left; right; right; exact Hl|right].
        change (rscale 33 61440 0) with (61440, 0) in Hl. cbv iota beta in Hl.
        assert (Ew : w32 (61440 * 2 ^ 0) = 61440) by reflexivity. rewrite Ew, Hrb in Hl. exact Hl. }
      apply wp_when; intros Ehf; wp_prims; cbn [support_fin_ack rwnd_scale rbuf_len set].
      * destruct hf; [discriminate|]. split; [reflexivity|]. split; [exact Hnr|].
        left. apply Hsame. unfold same_rcv0; cbn; repeat split; reflexivity.
      * destruct hf; [|discriminate]. split; [exact Hv|]. split; [exact Hnr|].
        left. apply Hsame. unfold same_rcv0; cbn; repeat split; reflexivity.
    + change (rscale 33 61440 0) with (61440, 0) in Hr. cbv iota beta in Hr.
      assert (Ew : w32 (61440 * 2 ^ 0) = 61440) by reflexivity. rewrite Ew in Hr. clear Ew.
      assert (Hres : resized 61440 0 s (s2 <| swnd_scale := 0 |>)).
      { destruct Hr as (R1 & R2 & R3 & R4 & R5 & R6 & R7 & R9 & R10).
        destruct F1 as (A1 & A2 & A3 & A4 & A5 & A6 & A7 & A8).
        cbn in R9. rewrite A1 in R1, R2. unfold resized; cbn. repeat split; try congruence; try lia. }
      assert (Hnr : ~ (true = false \/ rwnd_scale s <= 0 \/ rbuf_len s = 61440)) by (intros [X|[X|X]]; [discriminate|lia|congruence]).
      assert (Hnr' : forall x : sock, rwnd_scale x = rwnd_scale s2 -> (true = false \/ rwnd_scale x <= 0 \/ rbuf_len x = 61440) \/ 61440 < rb_n (rbuf s)).
      { intros x Hx. left; right; left. rewrite Hx. destruct Hr as (_ & _ & _ & _ & _ & _ & _ & R9 & _). rewrite R9; cbn; lia. }
      apply wp_when; intros Ehf; wp_prims; cbn [support_fin_ack set].
      * destruct hf; [discriminate|]. split; [reflexivity|]. split; [apply Hnr'; reflexivity|].
        right. split; [exact Hnr|]. destruct Hres as (R1 & R2 & R3 & R4 & R5 & R6 & R7 & R9 & R10). unfold resized; cbn. repeat split; assumption.
      * destruct hf; [|discriminate]. split; [rewrite Hsfa; exact Hv|]. split; [apply Hnr'; reflexivity|].
        right. split; [exact Hnr|exact Hres].
  - wp_prims. assert (Hnr : (negb hw = false \/ rwnd_scale s1 <= 0 \/ rbuf_len s1 = 61440) \/ 61440 < rb_n (rbuf s)).
    { left. destruct (negb hw); [right; left; cbn in E; lia|left; reflexivity]. }
    apply wp_when; intros Ehf; wp_prims; cbn [support_fin_ack rwnd_scale rbuf_len set].
    + destruct hf; [discriminate|]. split; [reflexivity|]. split; [exact Hnr|].
      left. apply Hsame. unfold same_rcv0; cbn; repeat split; reflexivity.
    + destruct hf; [|discriminate]. split; [exact Hv|]. split; [exact Hnr|left; exact F1].
Qed.

(** ---- the receive FIFO against the peer's stream ---- *)
Section Stream.
Variable S : bytes.      (* everything the peer queued: its connect message, then its application's bytes *)
Variable cl : Z.         (* length of the connect message *)
Definition Wof : bytes := skipn (Z.to_nat cl) S.
Definition Oof : bytes := tl (firstn (Z.to_nat cl) S).
Hypothesis Hcl : 0 <= cl <= len S.

Lemma len_Wof : len Wof = len S - cl.
Proof. unfold Wof, len in *. rewrite skipn_length. lia. Qed.

Lemma consistent_slice q n : cl <= q -> 0 <= n -> q + n <= len S -> consistent Wof (q - cl, sub S q n).
Proof.
  intros H1 H2 H3. unfold consistent; cbn [fst snd].
  assert (Hl : len (sub S q n) = n) by (apply len_sub_exact; lia).
  split; [lia|]. split; [rewrite Hl, len_Wof; lia|].
  intros j Hj. unfold len in Hl. assert (Hjn : (j < Z.to_nat n)%nat) by lia.
  unfold sub, Wof. rewrite nth_firstn_lt by exact Hjn. rewrite !nth_skipn_plus. f_equal. lia.
Qed.

Definition rl_ok (total : Z) (fut : list (Z * bytes)) (r : rseg) : Prop :=
  cl <= rs_seq r /\ 0 <= rs_len r /\ rs_seq r + rs_len r <= len S /\
  forall p, total <= p -> rs_seq r - cl <= p -> p < rs_seq r + rs_len r - cl -> coveredb fut p = true.

Definition data_ok (pos : Z) (f : rfifo) (rl : list rseg) (R : bytes) : Prop :=
  rb_total f = pos - cl /\ R ++ rb_data f = firstn (Z.to_nat (pos - cl)) Wof /\ Forall (consistent Wof) (rb_fut f) /\
  Forall (rl_ok (pos - cl) (rb_fut f)) rl /\ rb_n f = len (rb_data f) /\ rb_n f <= rb_cap f.

Lemma firstn_plus_skipn {A} (l : list A) a b : firstn a l ++ firstn b (skipn a l) = firstn (a + b) l.
Proof.
  revert l; induction a as [|a IH]; intros l; [reflexivity|]. destruct l as [|x l]; [cbn; rewrite firstn_nil; reflexivity|].
  cbn [firstn skipn plus app]. f_equal. apply IH.
Qed.

Lemma coveredb_cons e fut p : coveredb fut p = true -> coveredb (e :: fut) p = true.
Proof. unfold coveredb. cbn [existsb]. intros ->. apply orb_true_r. Qed.

Lemma coveredb_filter fut t p : t <= p -> coveredb fut p = true ->
  coveredb (filter (fun e => t <? fst e + len (snd e)) fut) p = true.
Proof.
  intros Hp. unfold coveredb. rewrite !existsb_exists. intros (e & Hin & He). exists e. split; [|exact He].
  apply filter_In. split; [exact Hin|]. lia.
Qed.

Lemma Forall_filter {A} (P : A -> Prop) f l : Forall P l -> Forall P (filter f l).
Proof. rewrite !Forall_forall. intros H x Hx. apply filter_In in Hx. apply H, Hx. Qed.

(* committing [n] covered bytes at [pos] *)
Lemma data_ok_commit pos f rl R n f2 :
  data_ok pos f rl R -> cl <= pos -> 0 <= n -> pos + n <= len S ->
  (forall i, (i < Z.to_nat n)%nat -> coveredb (rb_fut f) (pos - cl + Z.of_nat i) = true) ->
  rb_commit f n = Ok f2 -> data_ok (pos + n) f2 rl R /\ rb_cap f2 = rb_cap f.
Proof.
  intros (H1 & H2 & H3 & H4 & H5 & H6) Hp Hn Hfit Hcov Hc.
  assert (Hd : rb_data f2 = rb_data f ++ firstn (Z.to_nat n) (skipn (Z.to_nat (rb_total f)) Wof) /\ rb_total f2 = rb_total f + n).
  { apply (rb_commit_appends_stream Wof f n f2); try assumption; try lia.
    - rewrite len_Wof. lia.
    - rewrite H1. exact Hcov. }
  destruct Hd as (Hd & Ht).
  unfold rb_commit in Hc. destruct (rb_cap f - rb_n f <? n) eqn:E; [discriminate|]. injection Hc as Hc.
  assert (Hfut : rb_fut f2 = filter (fun e => rb_total f + n <? fst e + len (snd e)) (rb_fut f)) by (rewrite <- Hc; reflexivity).
  assert (Hn2 : rb_n f2 = rb_n f + n) by (rewrite <- Hc; reflexivity).
  assert (Hcap : rb_cap f2 = rb_cap f) by (rewrite <- Hc; reflexivity).
  split; [|exact Hcap]. unfold data_ok. split; [lia|]. split.
  { rewrite Hd, app_assoc, H2, H1, firstn_plus_skipn. f_equal. lia. }
  split; [rewrite Hfut; apply Forall_filter; exact H3|]. split.
  { rewrite Hfut. rewrite Forall_forall in *. intros r Hr. destruct (H4 r Hr) as (A1 & A2 & A3 & A4).
    repeat split; try assumption. intros p P1 P2 P3. apply coveredb_filter; [lia|]. apply A4; lia. }
  split; [|lia]. rewrite Hn2, Hd, len_app, H5. f_equal.
  unfold len. rewrite firstn_length, skipn_length. pose proof len_Wof as LW. unfold len in *. lia.
Qed.

(* storing an honest slice that starts at or after [pos] *)
Lemma data_ok_write pos f rl R q n f1 res :
  data_ok pos f rl R -> cl <= pos <= q -> 0 < n -> q + n <= len S ->
  rb_write_offset f (sub S q n) (q - pos) = (f1, res) -> res = n ->
  data_ok pos f1 rl R /\ rb_fut f1 = (q - cl, sub S q n) :: rb_fut f /\ rb_cap f1 = rb_cap f.
Proof.
  intros (H1 & H2 & H3 & H4 & H5 & H6) Hp Hn Hfit Hw Hres.
  assert (Hl : len (sub S q n) = n) by (apply len_sub_exact; lia).
  unfold rb_write_offset in Hw. destruct (rb_cap f <=? rb_n f + (q - pos)); [injection Hw as <- <-; lia|].
  injection Hw as <- <-. rewrite Hl in Hres.
  assert (Hcopy : firstn (Z.to_nat (Z.min n (rb_cap f - rb_n f - (q - pos)))) (sub S q n) = sub S q n).
  { rewrite Hres. apply firstn_all2. unfold len in Hl. lia. }
  cbn [rb_fut rb_cap set]. rewrite Hl, Hcopy. replace (rb_total f + (q - pos)) with (q - cl) by lia.
  split; [|split; reflexivity]. unfold data_ok; cbn [rb_total rb_data rb_fut rb_n rb_cap set].
  split; [exact H1|]. split; [exact H2|]. split; [constructor; [apply consistent_slice; lia|exact H3]|].
  split; [|split; assumption].
  rewrite Forall_forall in *. intros r Hr. destruct (H4 r Hr) as (A1 & A2 & A3 & A4).
  repeat split; try assumption. intros p P1 P2 P3. apply coveredb_cons. apply A4; lia.
Qed.

Lemma covered_head q n fut p : q - cl <= p < q - cl + n -> 0 <= q -> q + n <= len S -> 0 <= n ->
  coveredb ((q - cl, sub S q n) :: fut) p = true.
Proof.
  intros Hp Hq Hfit Hn. unfold coveredb. cbn [existsb fst snd]. rewrite len_sub_exact by lia.
  replace ((q - cl <=? p) && (p <? q - cl + n)) with true by lia. reflexivity.
Qed.

Lemma Forall_insert_rseg (P : rseg -> Prop) l r : Forall P l -> P r -> Forall P (insert_rseg l r).
Proof.
  induction l as [|x l IH]; intros H Hr; cbn [insert_rseg]; [repeat constructor; exact Hr|].
  inversion H; subst. destruct (SMALLER _ _); constructor; auto.
Qed.

Lemma data_ok_read pos f rl R n :
  data_ok pos f rl R -> 0 <= n ->
  data_ok pos (f <| rb_data := skipn (Z.to_nat n) (rb_data f) |> <| rb_n := rb_n f - Z.min n (rb_n f) |>) rl
          (R ++ firstn (Z.to_nat n) (rb_data f)).
Proof.
  intros (H1 & H2 & H3 & H4 & H5 & H6) Hn. unfold data_ok; cbn [rb_total rb_data rb_fut rb_n rb_cap set].
  split; [exact H1|]. split; [rewrite <- app_assoc, firstn_skipn; exact H2|]. split; [exact H3|]. split; [exact H4|].
  unfold len in *. rewrite skipn_length. lia.
Qed.
End Stream.

(** ---- the invariant ---- *)
Definition ctl_ok (S : bytes) (cl : Z) (s : sock) : Prop :=
  nl_st (state s) = true /\ NR (Oof S cl) s /\ Gopt (Oof S cl) (support_fin_ack s) = support_fin_ack s.

Definition pre0 (cl : Z) (R : bytes) (s : sock) : Prop :=
  rcv_nxt s = 0 /\ rb_data (rbuf s) = [] /\ rb_n (rbuf s) = 0 /\ rb_fut (rbuf s) = [] /\ rb_total (rbuf s) = 0 /\
  rlist s = [] /\ R = [] /\ cl <= rb_cap (rbuf s).
Definition live (S : bytes) (cl : Z) (R : bytes) (s : sock) : Prop :=
  exists pos fin, rcv_nxt s = pos + (if fin : bool then 1 else 0) /\ 0 < cl <= pos /\ pos <= len S /\ (fin = true -> pos = len S) /\
                  data_ok S cl pos (rbuf s) (rlist s) R /\ ctl_ok S cl s.
Definition dead (S : bytes) (cl : Z) (R : bytes) (s : sock) : Prop :=
  support_fin_ack s = false /\ shutdown s <> SD_NONE /\ Gopt (Oof S cl) false = false /\ 0 < rcv_nxt s < NW /\ nl_st (state s) = true /\
  rb_n (rbuf s) = len (rb_data (rbuf s)) /\ rb_n (rbuf s) <= rb_cap (rbuf s) /\
  exists k, R ++ rb_data (rbuf s) = firstn k (Wof S cl).

Record rcore (S : bytes) (cl : Z) (R : bytes) (s : sock) : Prop := {
  rc_nowrap : len S + 2 < NW;
  rc_cl : 0 <= cl <= len S;
  rc_cl2 : cl <= 61440;
  rc_fin : rcv_fin s = 0 \/ rcv_fin s = len S;
  rc_mode : pre0 cl R s \/ live S cl R s \/ dead S cl R s }.

Definition rinv (S : bytes) (cl : Z) (R : bytes) (s : sock) : Prop :=
  rcore S cl R s /\ (rcv_nxt s = 0 -> pre_st (state s) = true).

Lemma rcore_frame S cl R s s' : rcore S cl R s -> same_rcv s s' -> rcore S cl R s'.
Proof.
  intros [H1 H2 H3 H4 H5] (E1 & E2 & E3 & E4 & E5 & E6 & E7 & E8 & E9 & E10).
  constructor; try assumption; try congruence.
  destruct H5 as [P|[L|D]].
  - left. unfold pre0 in *. rewrite E1, E2, E3. exact P.
  - right; left. destruct L as (pos & fin & L1 & L2 & L3 & L4 & L5 & (C1 & C2 & C3)).
    exists pos, fin. rewrite E1, E2, E3. split; [exact L1|]. split; [exact L2|]. split; [exact L3|]. split; [exact L4|].
    split; [exact L5|]. split; [auto|]. split; [unfold NR in *; rewrite E6, E7; exact C2|rewrite E5; exact C3].
  - right; right. unfold dead in *. rewrite E1, E2, E5. destruct D as (D1 & D2 & D3 & D4 & D5 & D6 & D7 & D8).
    repeat split; try assumption; try lia; auto.
Qed.

Lemma rinv_frame S cl R s s' : rinv S cl R s -> same_rcv s s' -> rinv S cl R s'.
Proof.
  intros (H & Hz) F. split; [eapply rcore_frame; eauto|].
  destruct F as (E1 & E2 & E3 & E4 & E5 & E6 & E7 & E8 & E9 & E10). rewrite E2. auto.
Qed.

(** ---- honest segments ---- *)
Definition honest (S : bytes) (cl now : Z) (seg : segment) : Prop :=
  (g_data seg <> [] ->
     0 <= g_seq seg /\ g_seq seg + len (g_data seg) <= len S /\ g_data seg = sub S (g_seq seg) (len (g_data seg)) /\
     (if has_flag (g_flags seg) FLAG_CTL
      then g_seq seg = 0 /\ len (g_data seg) = cl /\ ((g_tsecr seg =? 0) || (time_diff now (g_tsecr seg) >=? 0)) = true
      else cl <= g_seq seg)) /\
  (has_flag (g_flags seg) FLAG_FIN = true -> g_seq seg = len S).

Definition same_ctl (s s' : sock) : Prop :=
  state s' = state s /\ support_fin_ack s' = support_fin_ack s /\ shutdown s' = shutdown s /\ rcv_fin s' = rcv_fin s /\
  rwnd_scale s' = rwnd_scale s /\ rbuf_len s' = rbuf_len s.
Lemma same_ctl_refl s : same_ctl s s. Proof. unfold same_ctl; repeat split; reflexivity. Qed.
Lemma same_ctl_trans a b c : same_ctl a b -> same_ctl b c -> same_ctl a c.
Proof. unfold same_ctl. intuition congruence. Qed.

Lemma data_ok_tail S cl pos f r rl R : data_ok S cl pos f (r :: rl) R -> data_ok S cl pos f rl R.
Proof. intros (H1 & H2 & H3 & H4 & H5). inversion H4; subst. repeat split; try assumption; apply H5. Qed.

Lemma recover_rlist_rspec S cl R fuel : forall sf s ev,
  len S + 2 < NW -> 0 <= cl <= len S ->
  cl <= rcv_nxt s <= len S -> data_ok S cl (rcv_nxt s) (rbuf s) (rlist s) R ->
  wp (recover_rlist fuel sf) s ev (fun _ s' _ =>
    rcv_nxt s <= rcv_nxt s' <= len S /\ data_ok S cl (rcv_nxt s') (rbuf s') (rlist s') R /\ same_ctl s s').
Proof.
  induction fuel as [|f IH]; intros sf s ev NWr Hcl Hp Hd; cbn [recover_rlist].
  { wp_prims. split; [lia|]. split; [exact Hd|apply same_ctl_refl]. }
  wp_prims. destruct (rlist s) as [|r rl] eqn:Erl; [wp_prims; split; [lia|]; split; [rewrite Erl; exact Hd|apply same_ctl_refl]|].
  assert (Hr : rl_ok S cl (rcv_nxt s - cl) (rb_fut (rbuf s)) r).
  { destruct Hd as (_ & _ & _ & H4 & _). inversion H4; subst; assumption. }
  destruct Hr as (A1 & A2 & A3 & A4).
  rewrite SMALLER_OR_EQUAL_le by lia.
  destruct (rs_seq r <=? rcv_nxt s) eqn:E1; [|wp_prims; split; [lia|]; split; [rewrite Erl; exact Hd|apply same_ctl_refl]].
  rewrite (w32_small (rs_seq r + rs_len r)) by (unfold NW, M32 in *; lia).
  rewrite LARGER_lt by lia.
  destruct (rcv_nxt s <? rs_seq r + rs_len r) eqn:E2.
  - rewrite (w32_small (rs_seq r + rs_len r - rcv_nxt s)) by (unfold NW, M32 in *; lia).
    destruct (rb_commit (rbuf s) (rs_seq r + rs_len r - rcv_nxt s)) as [rb'|] eqn:Ec; [|apply wp_fault].
    wp_prims.
    destruct (data_ok_commit S cl Hcl (rcv_nxt s) (rbuf s) (r :: rl) R (rs_seq r + rs_len r - rcv_nxt s) rb' Hd) as (Hd' & _); try lia; try exact Ec.
    { intros i Hi. apply A4; lia. }
    replace (rcv_nxt s + (rs_seq r + rs_len r - rcv_nxt s)) with (rs_seq r + rs_len r) in * by lia.
    apply data_ok_tail in Hd'.
    match goal with |- wp _ ?s2 _ _ => set (s2' := s2) end.
    assert (En : rcv_nxt s2' = rs_seq r + rs_len r).
    { unfold s2'; cbn [rcv_nxt set]. rewrite w32_small by (unfold NW, M32 in *; lia). lia. }
    eapply wp_conseq; [apply (IH sfImmediateAck s2' ev NWr Hcl)|].
    + rewrite En. lia.
    + rewrite En. exact Hd'.
    + cbv beta. intros _ s' _ (B1 & B2 & B3). rewrite En in B1.
      split; [lia|]. split; [exact B2|]. eapply same_ctl_trans; [|exact B3]. unfold same_ctl, s2'; cbn; repeat split; reflexivity.
  - wp_prims. apply data_ok_tail in Hd.
    match goal with |- wp _ ?s2 _ _ => set (s2' := s2) end.
    eapply wp_conseq; [apply (IH sf s2' ev NWr Hcl)|].
    + exact Hp.
    + exact Hd.
    + cbv beta. intros _ s' _ (B1 & B2 & B3). change (rcv_nxt s2') with (rcv_nxt s) in B1. split; [lia|]. split; [exact B2|].
      eapply same_ctl_trans; [|exact B3]. unfold same_ctl, s2'; cbn; repeat split; reflexivity.
Qed.

(** ---- the connect message's options, in each mode ---- *)
Lemma parse_options_modes S cl R s ev :
  rcore S cl R s ->
  wp (parse_options (Oof S cl)) s ev (fun _ s1 _ =>
    rcore S cl R s1 /\ state s1 = state s /\ rcv_nxt s1 = rcv_nxt s /\ (NR (Oof S cl) s1 \/ 61440 < rb_n (rbuf s)) /\
    Gopt (Oof S cl) (support_fin_ack s1) = support_fin_ack s1).
Proof.
  intros [H1 H2 H3 H4 H5]. eapply wp_conseq; [apply parse_options_rspec|]. cbv beta.
  intros _ s1 _ (Hv & Hnr & Hout).
  assert (Hg : Gopt (Oof S cl) (support_fin_ack s1) = support_fin_ack s1) by (rewrite Hv; apply Gopt_idem).
  assert (Hst : state s1 = state s /\ rcv_nxt s1 = rcv_nxt s /\ rcv_fin s1 = rcv_fin s /\ rlist s1 = rlist s /\ shutdown s1 = shutdown s).
  { destruct Hout as [(A1 & A2 & A3 & A4 & A5 & A6 & A7 & A8)|(_ & (B1 & B2 & B3 & B4 & B5 & B6 & B7 & B8))]; repeat split; assumption. }
  destruct Hst as (St & Rn & Rf & Rl & Sh).
  split; [|repeat split; assumption].
  constructor; try assumption; [rewrite Rf; exact H4|].
  destruct H5 as [P|[L|D]].
  - left. unfold pre0 in *. rewrite Rn, Rl. destruct P as (P1 & P2 & P3 & P4 & P5 & P6 & P7 & P8).
    destruct Hout as [(A1 & _)|(_ & (B1 & _))]; [rewrite A1; repeat split; assumption|].
    rewrite B1; cbn. repeat split; assumption.
  - right; left. destruct L as (pos & fin & L1 & L2 & L3 & L4 & L5 & (C1 & C2 & C3)).
    destruct Hout as [(A1 & A2 & A3 & A4 & A5 & A6 & _)|(N & _)]; [|contradiction].
    exists pos, fin. unfold ctl_ok. rewrite Rn, Rl, A1, St. rewrite C3 in Hv.
    split; [exact L1|]. split; [exact L2|]. split; [exact L3|]. split; [exact L4|]. split; [exact L5|].
    split; [exact C1|]. split; [unfold NR in *; rewrite A5, A6; exact C2|exact Hg].
  - right; right. destruct D as (D1 & D2 & D3 & D4 & D5 & D6 & D7 & D8). unfold dead.
    rewrite Rn, Sh, St. rewrite D1, D3 in Hv.
    split; [exact Hv|]. split; [exact D2|]. split; [exact D3|]. split; [exact D4|]. split; [exact D5|].
    destruct Hout as [(A1 & _)|(_ & (B1 & B2 & _))]; [rewrite A1; repeat split; assumption|].
    rewrite B1; cbn. repeat split; try assumption.
Qed.

(** ---- states are left alone by (re)transmissions ---- *)
Lemma shrink_mss_state fuel : forall s nT, state (fst (shrink_mss fuel s nT)) = state s.
Proof.
  induction fuel as [|f IH]; intros s nT; cbn [shrink_mss]; [reflexivity|].
  destruct (_ =? 0); [reflexivity|]. destruct (_ <? nT); cbn [fst]; [reflexivity|]. rewrite IH. reflexivity.
Qed.

Lemma packet_state seq flags offset ln now s ev : wp (packet seq flags offset ln now) s ev (fun _ s' _ => state s' = state s).
Proof. eapply wp_conseq; [apply packet_spec|]. cbv beta. intros _ s' _ (_ & E & _). exact E. Qed.

Lemma transmit_loop_state fuel : forall i nT now s ev, wp (transmit_loop fuel i nT now) s ev (fun _ s' _ => state s' = state s).
Proof.
  induction fuel as [|f IH]; intros i nT now s ev; cbn [transmit_loop]; [apply wp_fault|].
  wp_prims. destruct (nth_error _ _); [|apply wp_fault]. wp_prims.
  eapply wp_bind_spec; [apply packet_state|]. cbv beta. intros w s1 ev1 E1. destruct w; wp_prims; try exact E1.
  pose proof (shrink_mss_state 12 s1 nT) as Hs. destruct (shrink_mss 12 s1 nT) as [s2 [m|]]; cbn [fst] in Hs; wp_prims.
  - eapply wp_conseq; [apply IH|]. cbv beta. intros _ s3 _ E3. congruence.
  - congruence.
Qed.

Lemma transmit_state i now s ev : wp (transmit i now) s ev (fun _ s' _ => state s' = state s).
Proof.
  unfold transmit. wp_prims. destruct (nth_error _ _) as [g|]; [|apply wp_fault].
  destruct (_ >=? _); [wp_prims; reflexivity|].
  eapply wp_bind_spec; [apply transmit_loop_state|]. cbv beta. intros [status nT] s1 ev1 E1.
  destruct (negb (status =? 0)); [wp_prims; exact E1|]. wp_prims.
  match goal with |- wp (bind ?m _) _ _ _ => set (chk := m) end.
  assert (Hchk : forall Q : unit -> sock -> list event -> Prop, Q tt s1 ev1 -> wp chk s1 ev1 Q).
  { intros Q HQ. unfold chk. destruct (_ =? 0); wp_prims; exact HQ. }
  eapply wp_bind_spec; [apply (Hchk (fun _ s' ev' => s' = s1 /\ ev' = ev1)); split; reflexivity|]. cbv beta. intros _ s2 ev2 (-> & ->).
  wp_prims. exact E1.
Qed.

(** ---- trimming an honest segment to the receive window keeps it honest ---- *)
Section Trim.
Variable S : bytes.
Definition slice_at (q : Z) (d : bytes) : Prop := 0 <= q /\ q + len d <= len S /\ d = sub S q (len d).

Lemma slice_skipn q d k : slice_at q d -> 0 <= k <= len d -> slice_at (q + k) (skipn (Z.to_nat k) d).
Proof.
  intros (H1 & H2 & H3) Hk. assert (Hl : len (skipn (Z.to_nat k) d) = len d - k) by (unfold len in *; rewrite skipn_length; lia).
  unfold slice_at. rewrite Hl. split; [lia|]. split; [lia|].
  rewrite H3 at 1. unfold sub. rewrite <- (firstn_skipn (Z.to_nat k) (firstn (Z.to_nat (len d)) (skipn (Z.to_nat q) S))) at 1.
  rewrite skipn_app. rewrite firstn_firstn, firstn_length, skipn_length.
  assert (Hm : Nat.min (Z.to_nat k) (Z.to_nat (len d)) = Z.to_nat k) by lia. rewrite Hm.
  rewrite skipn_all2 by (rewrite firstn_length, skipn_length; unfold len in *; lia). cbn [app].
  replace (Z.to_nat k - Nat.min (Z.to_nat k) (length S - Z.to_nat q))%nat with 0%nat by (unfold len in *; lia).
  cbn [skipn]. rewrite skipn_firstn_comm, skipn_skipn'. f_equal; [lia|f_equal; lia].
Qed.

Lemma slice_firstn q d k : slice_at q d -> 0 <= k <= len d -> slice_at q (firstn (Z.to_nat k) d).
Proof.
  intros (H1 & H2 & H3) Hk. assert (Hl : len (firstn (Z.to_nat k) d) = k) by (unfold len in *; rewrite firstn_length; lia).
  unfold slice_at. rewrite Hl. split; [lia|]. split; [lia|].
  rewrite H3 at 1. unfold sub. rewrite firstn_firstn. f_equal. lia.
Qed.

Lemma slice_nil q : 0 <= q <= len S -> slice_at q [].
Proof. intros H. unfold slice_at. cbn. split; [lia|]. split; [lia|]. unfold sub. reflexivity. Qed.
End Trim.

(** ---- trimming ---- *)
Definition trimL (q : Z) (d : bytes) (rn : Z) : Z * bytes :=
  if SMALLER q rn then (if w32 (rn - q) <? len d then (w32 (q + w32 (rn - q)), skipn (Z.to_nat (w32 (rn - q))) d) else (q, []))
  else (q, d).

Lemma trimL_ok S q d rn : len S + 2 < NW -> 0 <= rn < NW -> (d <> [] -> slice_at S q d) ->
  let r := trimL q d rn in
  (snd r = [] \/ (slice_at S (fst r) (snd r) /\ rn <= fst r /\ q <= fst r /\ fst r + len (snd r) = q + len d /\ snd r <> [])) /\
  (q = rn -> r = (q, d)) /\ (d <> [] -> q + len d <= rn -> snd r = []).
Proof.
  intros NWr Hrn Hs. unfold trimL. destruct d as [|x d'] eqn:Ed.
  { cbn [len length Z.of_nat skipn]. assert (E : (w32 (rn - q) <? 0) = false) by (unfold w32, M32; lia). rewrite E.
    split; [left; destruct (SMALLER q rn); reflexivity|]. split; [|congruence].
    intros ->. unfold SMALLER, LARGER. replace (rn - rn - 1) with (-1) by lia. reflexivity. }
  rewrite <- Ed in *. assert (Hne : d <> []) by (rewrite Ed; discriminate). destruct (Hs Hne) as (H1 & H2 & H3).
  assert (Hl : 0 < len d) by (rewrite Ed; unfold len; cbn [length]; lia).
  rewrite SMALLER_lt by lia. destruct (q <? rn) eqn:E.
  - rewrite (w32_small (rn - q)) by (unfold NW, M32 in *; lia). destruct (rn - q <? len d) eqn:E2; cbn [fst snd].
    + rewrite w32_small by (unfold NW, M32 in *; lia). replace (q + (rn - q)) with rn by lia.
      split; [right|split; [intros; lia|intros _ Hx; lia]].
      pose proof (slice_skipn S q d (rn - q) (Hs Hne)) as Hk. replace (q + (rn - q)) with rn in Hk by lia.
      split; [apply Hk; lia|]. split; [lia|]. split; [lia|]. split.
      * unfold len in *. rewrite skipn_length. lia.
      * intros E0. apply (f_equal (@length Z)) in E0. rewrite skipn_length in E0. unfold len in *. cbn [length] in E0. lia.
    + split; [left; reflexivity|]. split; [intros; lia|reflexivity].
  - cbn [fst snd]. split; [right; split; [exact (Hs Hne)|repeat split; try lia; exact Hne]|]. split; [reflexivity|intros _ Hx; lia].
Qed.

Definition trimR (seq1 : Z) (data1 : bytes) (rn avail : Z) : bytes :=
  if w32 (seq1 + len data1 - rn) >? avail
  then (if w32 (seq1 + len data1 - rn - avail) <? len data1
        then firstn (Z.to_nat (len data1 - w32 (seq1 + len data1 - rn - avail))) data1 else [])
  else data1.

Lemma trimR_ok S seq1 data1 rn avail : slice_at S seq1 data1 ->
  slice_at S seq1 (trimR seq1 data1 rn avail) /\
  (0 <= seq1 + len data1 - rn <= avail -> seq1 + len data1 - rn < M32 -> trimR seq1 data1 rn avail = data1).
Proof.
  intros Hs. unfold trimR. split.
  - destruct (_ >? avail); [|exact Hs]. destruct (_ <? len data1) eqn:E.
    + apply slice_firstn; [exact Hs|]. assert (0 <= w32 (seq1 + len data1 - rn - avail)) by (unfold w32, M32; lia). lia.
    + apply slice_nil. destruct Hs as (H1 & H2 & _). unfold len in *. lia.
  - intros H1 H2. rewrite w32_small by lia. replace (seq1 + len data1 - rn >? avail) with false by lia. reflexivity.
Qed.

Definition rfx (seg : segment) (s1 : sock) : bool :=
  negb (rcv_nxt s1 =? 0) && (g_seq seg =? rcv_nxt s1) && (len (g_data seg) <=? rb_remaining s1)
  && (w32 (rcv_nxt s1 + len (g_data seg)) =? rcv_fin s1).
Lemma rfx_same seg a b : same_rcv a b ->
  (if support_fin_ack a then rfx seg a else false) = (if support_fin_ack b then rfx seg b else false).
Proof.
  intros (E1 & E2 & E3 & E4 & E5 & _). unfold rfx, rb_remaining. rewrite E1, E2, E4, E5. reflexivity.
Qed.

(** ---- process ---- *)
Definition lsn_st (st : tstate) : bool := match st with LISTEN | SYN_SENT => true | _ => false end.
Definition trans_ok (S : bytes) (cl : Z) (seg : segment) (s : sock) : Prop :=
  has_flag (g_flags seg) FLAG_CTL = true /\ g_data seg <> [] /\ ctl_ok S cl s.
Definition mid (S : bytes) (cl : Z) (R : bytes) (seg : segment) (s : sock) : Prop :=
  rcore S cl R s /\
  (rcv_nxt s = 0 -> (lsn_st (state s) = true /\ has_flag (g_flags seg) FLAG_CTL = false) \/ trans_ok S cl seg s).

Lemma mid_frame S cl R seg s s' :
  mid S cl R seg s -> same_rcv s s' -> (lsn_st (state s) = true -> state s' = state s) -> mid S cl R seg s'.
Proof.
  intros (H & Hz) F Hst. split; [eapply rcore_frame; eauto|].
  destruct F as (E1 & E2 & E3 & E4 & E5 & E6 & E7 & E8 & E9 & E10). rewrite E2. intros Z0.
  destruct (Hz Z0) as [(P1 & P2)|(T1 & T2 & C1 & C2 & C3)]; [left; rewrite (Hst P1); auto|right].
  split; [exact T1|]. split; [exact T2|]. split; [auto|]. split; [unfold NR in *; rewrite E6, E7; exact C2|rewrite E5; exact C3].
Qed.

Lemma rinv_mid S cl R seg s :
  rinv S cl R s -> state s <> CLOSED -> has_flag (g_flags seg) FLAG_CTL = false -> mid S cl R seg s.
Proof.
  intros (H & Hz) Hc Hf. split; [exact H|]. intros Z0. left. split; [|exact Hf].
  specialize (Hz Z0). destruct (state s); try discriminate Hz; try reflexivity. congruence.
Qed.

