(** C08, receiver soundness: over ALL sequences of socket operations, if every segment fed to the socket is honest with respect to a
    stream [S] of the peer (its payload is the slice of [S] at its sequence number; in any order, duplicated, overlapping, re-segmented),
    the bytes handed to the application by [recv] are always a prefix of the peer's application bytes.  The model is untouched. *)
From Coq Require Import ZArith List Bool Lia ZifyBool.
From RecordUpdate Require Import RecordSet.
From Nice Require Import Base.Bytes Ptcp.PtcpModel Ptcp.PtcpProofs Ptcp.ReassemblyProofs Ptcp.PtcpHoare Ptcp.SockOps Ptcp.SenderInvProofs.
Import ListNotations.
Import RecordSetNotations.
Local Open Scope Z_scope.
Local Open Scope bool_scope.

(** ---- serial-number comparisons below 2^31 are the ordinary ones ---- *)
Lemma w32_neg x : - M32 <= x < 0 -> w32 x = x + M32.
Proof.
  intros H. unfold w32. replace x with ((x + M32) + (-1) * M32) at 1 by lia. rewrite Z_mod_plus_full. apply Z.mod_small. lia.
Qed.
Lemma LARGER_lt a b : 0 <= a < NW -> 0 <= b < NW -> LARGER a b = (b <? a).
Proof.
  unfold LARGER, NW. intros Ha Hb. destruct (b <? a) eqn:E.
  - unfold w32. rewrite Z.mod_small by (unfold M32; lia). lia.
  - rewrite w32_neg by (unfold M32; lia). unfold M32. lia.
Qed.
Lemma SMALLER_lt a b : 0 <= a < NW -> 0 <= b < NW -> SMALLER a b = (a <? b).
Proof. intros Ha Hb. unfold SMALLER. apply LARGER_lt; assumption. Qed.
Lemma LARGER_OR_EQUAL_le a b : 0 <= a < NW - 1 -> 0 <= b < NW -> LARGER_OR_EQUAL a b = (b <=? a).
Proof.
  unfold LARGER_OR_EQUAL, NW. intros Ha Hb. destruct (b <=? a) eqn:E.
  - unfold w32. rewrite Z.mod_small by (unfold M32; lia). lia.
  - rewrite w32_neg by (unfold M32; lia). unfold M32. lia.
Qed.
Lemma SMALLER_OR_EQUAL_le a b : 0 <= a < NW -> 0 <= b < NW - 1 -> SMALLER_OR_EQUAL a b = (a <=? b).
Proof. intros Ha Hb. unfold SMALLER_OR_EQUAL. apply LARGER_OR_EQUAL_le; assumption. Qed.
Lemma w32_small x : 0 <= x < M32 -> w32 x = x.
Proof. unfold w32. intros H. apply Z.mod_small. exact H. Qed.

(** ---- what the receive side looks at ---- *)
Definition pre_st (st : tstate) : bool := match st with LISTEN | SYN_SENT | CLOSED => true | _ => false end.
Definition nl_st (st : tstate) : bool := match st with LISTEN | SYN_SENT => false | _ => true end.

Definition same_rcv (s s' : sock) : Prop :=
  rbuf s' = rbuf s /\ rcv_nxt s' = rcv_nxt s /\ rlist s' = rlist s /\ rcv_fin s' = rcv_fin s /\
  support_fin_ack s' = support_fin_ack s /\ rwnd_scale s' = rwnd_scale s /\
  (shutdown s <> SD_NONE -> shutdown s' <> SD_NONE) /\
  (pre_st (state s) = true -> pre_st (state s') = true) /\ (nl_st (state s) = true -> nl_st (state s') = true).

Lemma same_rcv_refl s : same_rcv s s. Proof. unfold same_rcv. repeat split; auto. Qed.
Lemma same_rcv_trans a b c : same_rcv a b -> same_rcv b c -> same_rcv a c.
Proof.
  unfold same_rcv. intros (A1 & A2 & A3 & A4 & A5 & A6 & A7 & A8 & A9) (B1 & B2 & B3 & B4 & B5 & B6 & B7 & B8 & B9).
  repeat split; try congruence; auto.
Qed.

Definition rframes {A} (m : M A) : Prop := forall s ev, wp m s ev (fun _ s' _ => same_rcv s s').

Lemma wp_bind_rfr {A B} (m : M A) (f : A -> M B) s ev Q :
  rframes m -> (forall a s1 ev1, same_rcv s s1 -> wp (f a) s1 ev1 Q) -> wp (bind m f) s ev Q.
Proof. intros Hm Hf. eapply wp_bind_spec; [apply Hm|exact Hf]. Qed.

Ltac rsame_triv :=
  solve [unfold same_rcv; cbn; repeat split; try reflexivity; try (intros; assumption); try discriminate; auto].
Ltac rfr_chain :=
  repeat match goal with H : same_rcv ?a ?c |- same_rcv ?a _ => eapply same_rcv_trans; [exact H|]; clear H end;
  first [ apply same_rcv_refl | rsame_triv | eapply same_rcv_trans; [|eassumption]; rsame_triv | idtac ].
Ltac rfr_call L := eapply wp_bind_rfr; [apply L; try discriminate|intros ? ? ? ?].
Ltac rfr_last L := eapply wp_conseq; [apply L; try discriminate|cbv beta; intros ? ? ? ?; rfr_chain].

Lemma set_state_rframes n : n <> LISTEN -> n <> SYN_SENT -> n <> SYN_RECEIVED -> n <> ESTABLISHED -> rframes (set_state n).
Proof.
  intros H1 H2 H3 H4 s ev. unfold set_state. wp_prims. destruct (st_eqb (state s) n) eqn:E.
  - wp_prims. apply same_rcv_refl.
  - wp_prims. unfold same_rcv; cbn. repeat split; auto.
    + intros P. destruct (state s), n; try discriminate; try congruence; reflexivity.
    + intros _. destruct n; try congruence; reflexivity.
Qed.

Lemma adjustMTU_rframes : rframes adjustMTU.
Proof. intros s ev. unfold adjustMTU. wp_prims. rsame_triv. Qed.

Lemma set_state_closed_rframes err : rframes (set_state_closed err).
Proof.
  intros s ev. unfold set_state_closed. rfr_call set_state_rframes.
  apply wp_when; intros _; [wp_prims|]; rfr_chain.
Qed.

Lemma closedown_states_rframes : rframes closedown_states.
Proof.
  intros s ev. unfold closedown_states. wp_prims.
  destruct (state s); wp_prims; try apply same_rcv_refl;
  repeat (rfr_call set_state_rframes); rfr_last set_state_rframes.
Qed.

Lemma closedown_remote_rframes err : rframes (closedown_remote err).
Proof. intros s ev. unfold closedown_remote. rfr_call closedown_states_rframes. rfr_last set_state_closed_rframes. Qed.

(* established from SYN-RECEIVED (never from a pre-connection state here) *)
Lemma set_state_established_rspec s ev :
  pre_st (state s) = false -> wp set_state_established s ev (fun _ s' _ => same_rcv s s').
Proof.
  intros Hp. unfold set_state_established.
  apply (wp_bind_spec _ _ _ _ (fun _ s' _ => same_rcv s s')).
  { unfold set_state. wp_prims. destruct (st_eqb _ _); wp_prims; [apply same_rcv_refl|].
    unfold same_rcv; cbn. repeat split; auto. congruence. }
  cbv beta. intros _ s1 ev1 F1. rfr_call adjustMTU_rframes. wp_prims. rfr_chain.
Qed.

Lemma queue_rframes d f : rframes (queue d f).
Proof.
  intros s ev. unfold queue. wp_prims. destruct (len d >? sb_remaining s); wp_prims; rsame_triv.
Qed.
Lemma queue_connect_rframes : rframes queue_connect_message.
Proof.
  intros s ev. unfold queue_connect_message. wp_prims.
  eapply wp_bind_spec; [apply queue_rframes|]. cbv beta. intros _ s1 ev1 F. wp_prims. eapply same_rcv_trans; [|exact F]. rsame_triv.
Qed.
Lemma queue_fin_rframes : rframes queue_fin_message.
Proof. intros s ev. unfold queue_fin_message. wp_prims. rfr_call queue_rframes. wp_prims. rfr_chain. Qed.
Lemma queue_rst_rframes : rframes queue_rst_message.
Proof. intros s ev. unfold queue_rst_message. wp_prims. rfr_call queue_rframes. wp_prims. rfr_chain. Qed.

Lemma packet_rframes seq flags offset ln now : rframes (packet seq flags offset ln now).
Proof.
  intros s ev. unfold packet. wp_prims. destruct (24 + ln >? wr_limit _); cbn [when]; wp_prims.
  - destruct (ln =? 0); wp_prims; rsame_triv.
  - destruct (ln >? 0); rsame_triv.
Qed.

Lemma shrink_mss_rsame fuel : forall s nT, same_rcv s (fst (shrink_mss fuel s nT)).
Proof.
  induction fuel as [|f IH]; intros s nT; cbn [shrink_mss]; [apply same_rcv_refl|].
  destruct (_ =? 0); [apply same_rcv_refl|]. destruct (_ <? nT); cbn [fst]; [rsame_triv|].
  eapply same_rcv_trans; [|apply IH]. rsame_triv.
Qed.

Lemma transmit_loop_rframes fuel : forall i nT now, rframes (transmit_loop fuel i nT now).
Proof.
  induction fuel as [|f IH]; intros i nT now s ev; cbn [transmit_loop]; [apply wp_fault|].
  wp_prims. destruct (nth_error _ _); [|apply wp_fault]. wp_prims.
  rfr_call packet_rframes. destruct a; wp_prims; try rfr_chain.
  pose proof (shrink_mss_rsame 12 s1 nT) as Hs. destruct (shrink_mss 12 s1 nT) as [s2 [m|]]; cbn [fst] in Hs; wp_prims.
  - eapply wp_conseq; [apply IH|]. cbv beta. intros _ s3 _ F3. rfr_chain. eapply same_rcv_trans; eauto.
  - rfr_chain.
Qed.

Lemma transmit_rframes i now : rframes (transmit i now).
Proof.
  intros s ev. unfold transmit. wp_prims. destruct (nth_error _ _) as [g|]; [|apply wp_fault].
  destruct (_ >=? _); [wp_prims; apply same_rcv_refl|].
  rfr_call transmit_loop_rframes. destruct a as [status nT]. destruct (negb (status =? 0)); [wp_prims; rfr_chain|]. wp_prims.
  match goal with |- wp (bind ?m _) _ _ _ => set (chk := m) end.
  assert (Hchk : rframes chk) by (intros s' ev'; unfold chk; destruct (_ =? 0); wp_prims; apply same_rcv_refl).
  rfr_call Hchk. wp_prims. rfr_chain. eapply same_rcv_trans; [exact H|]. eapply same_rcv_trans; [|exact H0]. apply same_rcv_refl.
Qed.
