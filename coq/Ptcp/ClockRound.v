(** C09: what one call of [notify_clock] does, stage by stage (retransmission timer, zero-window probe, delayed ACK),
    in terms of the fields the clock logic reads and of the emitted packets. *)
From Coq Require Import ZArith List Lia Bool ZifyBool.
From RecordUpdate Require Import RecordSet.
From Nice Require Import Base.Bytes Ptcp.PtcpModel Ptcp.C09Hoare Ptcp.SendSpecs Ptcp.SilenceArith Ptcp.SilenceProofs.
Import ListNotations.
Import RecordSetNotations.
Local Open Scope Z_scope.
Local Open Scope bool_scope.
Ltac Zify.zify_post_hook ::= Z.div_mod_to_equations.

(* the three timer stages in sequence (what [notify_clock] does after its TIME-WAIT and LAST-ACK preludes) *)
Definition clock_tail (now : Z) : M unit :=
  s <- get ;;
  r1 <- rto_body now s ;;
  if negb r1 then ret tt else
  s <- get ;;
  r2 <- probe_body now s ;;
  if negb r2 then ret tt else
  s <- get ;;
  ack_body now s.

Lemma notify_clock_tail now :
  notify_clock now =
  (s <- get ;;
   if st_eqb (state s) CLOSED then ret tt else
   when (support_fin_ack s && st_eqb (state s) TIME_WAIT) (set_state_closed 0) ;;;
   s <- get ;;
   r0 <- last_ack_body now s ;;
   if negb r0 then ret tt else
   clock_tail now).
Proof. reflexivity. Qed.

Ltac solveCE := solve [ assumption
  | match goal with H : closed_err ?s ?e |- closed_err _ ?e =>
      destruct H as (? & ?); split; [repeat match goal with |- context [if ?b then _ else _] => destruct b end; sprojs; assumption|assumption] end ].

(* a reported closure stays reported through the rest of the call *)
Lemma clock_tail_CE now : presE closed_err (clock_tail now).
Proof.
  intros s ev Hc. unfold clock_tail, rto_body, probe_body, ack_body.
  pose proof (packet_CE). pose proof transmit_CE. pose proof closedown_CE.
  wp_invE closed_err solveCE.
Qed.

(* time-outs in range, time stamps in the past and below the wrap horizon *)
Definition GT (s : sock) (now H : Z) : Prop :=
  1000 <= rx_rto s <= 60000 /\ 0 <= ack_delay s <= 60000 /\ clock_ok s now H.

Lemma G_GT s now H : G s now H -> GT s now H.
Proof. unfold G, GT. tauto. Qed.

(** the effect of the three stages on [s] (intermediate values of [rx_rto], [lastsend], [t_ack] between the stages are
    named [rx1 ls1 ta1] and [ls2 ta2]); [l] = the events of the stages *)
Definition tail_facts (now : Z) (s s3 : sock) (l : list event) : Prop :=
  exists rx1 ls1 ta1 ls2 ta2,
  same_k s s3 /\ 1000 <= rx1 <= 60000 /\
  (* retransmission timer due: the head segment goes out again, count + 1, time-out doubled up to the cap, timer re-armed *)
  (rto_base s <> 0 /\ rto_base s + rx_rto s <= now ->
     hdx (slist s) < xlimit s /\ hdx (slist s3) = (hdx (slist s) + 1) mod 256 /\ hdseq (slist s3) = hdseq (slist s) /\
     rto_base s3 = now /\ rx1 = Z.min (rto_cap s) (2 * rx_rto s) /\
     (ls1 = lastsend s \/ ls1 = now) /\ (ta1 = t_ack s \/ ta1 = 0) /\
     (24 <= wr_limit s -> exists p, In (EvPacket p) l /\ pkt_has_seq (conv s) (hdseq (slist s)) p)) /\
  (rto_base s = 0 \/ now < rto_base s + rx_rto s ->
     slist s3 = slist s /\ rto_base s3 = rto_base s /\ rx1 = rx_rto s /\ ls1 = lastsend s /\ ta1 = t_ack s) /\
  (* zero-window probe due (and the last segment was received less than 15 s ago) *)
  (snd_wnd s = 0 /\ ls1 + rx1 <= now ->
     now - lastrecv s < 15000 /\ ls2 = now /\ rx_rto s3 = Z.min 60000 (2 * rx1) /\ ta2 = 0 /\
     (24 <= wr_limit s -> exists p, In (EvPacket p) l)) /\
  (~ (snd_wnd s = 0 /\ ls1 + rx1 <= now) -> ls2 = ls1 /\ rx_rto s3 = rx1 /\ ta2 = ta1) /\
  (* delayed ACK due *)
  (ta2 <> 0 /\ ta2 + ack_delay s <= now ->
     t_ack s3 = 0 /\ (lastsend s3 = ls2 \/ lastsend s3 = now) /\ (24 <= wr_limit s -> exists p, In (EvPacket p) l)) /\
  (~ (ta2 <> 0 /\ ta2 + ack_delay s <= now) -> t_ack s3 = ta2 /\ lastsend s3 = ls2).

Lemma clock_tail_spec now H s ev :
  GT s now H ->
  wp (clock_tail now) s ev (fun _ s3 ev3 =>
    exists l, ev3 = ev ++ l /\
      ((closed_err s3 ev3 /\
        ((rto_base s <> 0 /\ rto_base s + rx_rto s <= now) \/
         (snd_wnd s = 0 /\ 15000 <= now - lastrecv s /\ In (EvClosed ECONNABORTED) ev3))) \/
       tail_facts now s s3 l)).
Proof.
  intros (Hrx & Had & (Hn & HH & Hrb & Hb1 & Hls & Hlr & Hta & Hw & Ht)).
  unfold clock_tail. wp_split.
  eapply wp_bind_cut; [apply (rto_body_spec now H s ev); lia|]. cbv beta.
  intros r1 s1 ev1 [(-> & Hc1 & (l1 & ->) & Hwhy)|(-> & l1 & -> & Hd1)]; cbn [negb].
  { wp_split. exists l1. split; [reflexivity|]. left. split; [exact Hc1|]. left. exact Hwhy. }
  wp_split.
  (* summary of the retransmission stage *)
  assert (S1 : same_k s s1 /\ 1000 <= rx_rto s1 <= 60000 /\
               0 <= lastsend s1 <= now /\ (lastsend s1 = lastsend s \/ lastsend s1 = now) /\
               0 <= t_ack s1 <= now /\ (t_ack s1 <> 0 -> t_ack s1 = t_ack s) /\
               (rto_base s <> 0 /\ rto_base s + rx_rto s <= now ->
                  hdx (slist s) < xlimit s /\ hdx (slist s1) = (hdx (slist s) + 1) mod 256 /\ hdseq (slist s1) = hdseq (slist s) /\
                  rto_base s1 = now /\ rx_rto s1 = Z.min (rto_cap s) (2 * rx_rto s) /\
                  (lastsend s1 = lastsend s \/ lastsend s1 = now) /\ (t_ack s1 = t_ack s \/ t_ack s1 = 0) /\
                  (24 <= wr_limit s -> exists p, In (EvPacket p) l1 /\ pkt_has_seq (conv s) (hdseq (slist s)) p)) /\
               (rto_base s = 0 \/ now < rto_base s + rx_rto s ->
                  slist s1 = slist s /\ rto_base s1 = rto_base s /\ rx_rto s1 = rx_rto s /\
                  lastsend s1 = lastsend s /\ t_ack s1 = t_ack s)).
  { destruct Hd1 as [(D0 & -> & _)|(D1' & D1 & K1 & Rx1 & Rb1 & Hlt & Hx1 & Hq1 & L1 & T1 & Hp1)].
    - split; [apply same_k_refl|]. clear - D0 Hrx Hls Hta. repeat split; try tauto; try lia.
    - assert (1000 <= rx_rto s1 <= 60000) by (rewrite Rx1; unfold rto_cap; clear - Hrx; destruct (st_num (state s) <? 3); lia).
      split; [exact K1|]. split; [assumption|].
      split; [clear - L1 Hls Hn; destruct L1 as [->| ->]; lia|]. split; [exact L1|].
      split; [clear - T1 Hta Hn; destruct T1 as [->| ->]; lia|].
      split; [clear - T1; destruct T1 as [->| ->]; tauto|].
      split; [intros _; repeat (split; [assumption|]); assumption|]. intros D0. clear - D0 D1 D1'. lia. }
  clear Hd1. destruct S1 as (K1 & Rx1 & Ls1 & Ls1' & Ta1 & Ta1' & R1 & R0).
  assert (Hnb : snd_wnd s = 0 -> H - now < BND) by (intros Hz; destruct (Hw Hz); clear - H0 Hls; lia).
  assert (Lr1 : 0 <= lastrecv s1 <= now) by (destruct K1 as (_ & _ & _ & _ & _ & -> & _); exact Hlr).
  (* the zero-window stage *)
  eapply wp_bind_cut.
  { apply (probe_body_spec now H s1 _ Ls1 Lr1 (proj2 Hn) HH); [|exact Rx1].
    destruct K1 as (_ & _ & _ & _ & -> & -> & _). intros Hz. destruct (Hw Hz) as (W1 & W2). split; [|exact W2].
    specialize (Hnb Hz). clear - Ls1' W1 Hnb. destruct Ls1' as [->| ->]; lia. }
  cbv beta. intros r2 s2 ev2 [(-> & Hc2 & (l2 & ->) & Hz2 & Hage2 & Hin2)|(-> & l2 & -> & Hd2)]; cbn [negb].
  { wp_split. exists (l1 ++ l2). split; [rewrite app_assoc; reflexivity|]. left. split; [exact Hc2|]. right.
    destruct K1 as (_ & _ & _ & _ & Ksw & Klr & _). rewrite Ksw in Hz2. rewrite Klr in Hage2. tauto. }
  wp_split.
  assert (S2 : same_k s1 s2 /\ slist s2 = slist s1 /\ rto_base s2 = rto_base s1 /\
               (snd_wnd s = 0 /\ lastsend s1 + rx_rto s1 <= now ->
                  now - lastrecv s < 15000 /\ lastsend s2 = now /\ rx_rto s2 = Z.min 60000 (2 * rx_rto s1) /\ t_ack s2 = 0 /\
                  (24 <= wr_limit s -> exists p, In (EvPacket p) l2)) /\
               (~ (snd_wnd s = 0 /\ lastsend s1 + rx_rto s1 <= now) ->
                  lastsend s2 = lastsend s1 /\ rx_rto s2 = rx_rto s1 /\ t_ack s2 = t_ack s1)).
  { destruct K1 as (_ & _ & _ & _ & Ksw & Klr & _ & Kwl). rewrite Ksw, Klr, Kwl in Hd2.
    destruct Hd2 as [(D0 & -> & _)|(D1 & D2 & D3 & K2 & Sl2 & Rb2 & Ls2 & Rx2 & Ta2 & Hp2)].
    - split; [apply same_k_refl|]. clear - D0. repeat split; try tauto; try lia.
    - split; [exact K2|]. split; [exact Sl2|]. split; [exact Rb2|]. split.
      + intros _. repeat (split; [assumption|]). intros Hwl. destruct (Hp2 Hwl) as (p & -> & _). exists p. left. reflexivity.
      + intros D0. tauto. }
  clear Hd2. destruct S2 as (K2 & Sl2 & Rb2 & P1 & P0).
  pose proof (same_k_trans _ _ _ K1 K2) as K02.
  assert (F2 : 0 <= t_ack s2 <= now /\ (t_ack s2 <> 0 -> t_ack s2 = t_ack s)).
  { clear - P1 P0 Ta1 Ta1' Hn.
    destruct (Z.eq_dec (snd_wnd s) 0) as [Hz|Hz]; [destruct (Z_le_gt_dec (lastsend s1 + rx_rto s1) now) as [Hp|Hp]|].
    - destruct P1 as (_ & _ & _ & -> & _); [tauto|]. clear P0. split; [lia|tauto].
    - destruct P0 as (_ & _ & ->); [clear - Hp; lia|]. tauto.
    - destruct P0 as (_ & _ & ->); [tauto|]. tauto. }
  destruct F2 as (Ta2 & Ta2').
  (* the delayed-ACK stage *)
  eapply wp_conseq.
  { apply (ack_body_spec now H s2 _ Ta2 (proj2 Hn) HH).
    - intros Hz. rewrite (Ta2' Hz). rewrite (Ta2' Hz) in Hz. exact (Ht Hz).
    - destruct K02 as (_ & _ & _ & -> & _). exact Had. }
  cbv beta. intros _ s3 ev3 (l3 & -> & Hd3).
  exists (l1 ++ l2 ++ l3). split; [rewrite !app_assoc; reflexivity|]. right.
  assert (S3 : same_k s2 s3 /\ slist s3 = slist s2 /\ rto_base s3 = rto_base s2 /\ rx_rto s3 = rx_rto s2 /\
               (t_ack s2 <> 0 /\ t_ack s2 + ack_delay s <= now ->
                  t_ack s3 = 0 /\ (lastsend s3 = lastsend s2 \/ lastsend s3 = now) /\ (24 <= wr_limit s -> exists p, In (EvPacket p) l3)) /\
               (~ (t_ack s2 <> 0 /\ t_ack s2 + ack_delay s <= now) -> t_ack s3 = t_ack s2 /\ lastsend s3 = lastsend s2)).
  { destruct K02 as (_ & _ & _ & Kad & _ & _ & _ & Kwl). rewrite Kad, Kwl in Hd3.
    destruct Hd3 as [(D0 & -> & _)|(D1 & D2 & (C3 & Sl3 & _ & Rb3 & Ls3 & _) & Ta3 & Hp3)].
    - split; [apply same_k_refl|]. clear - D0. repeat split; try tauto; try lia.
    - split; [apply same_ctl_k; exact C3|]. destruct C3 as (_ & Crx3 & _).
      split; [exact Sl3|]. split; [exact Rb3|]. split; [exact Crx3|]. split.
      + intros _. split; [exact Ta3|]. split; [exact Ls3|]. intros Hwl. destruct (Hp3 Hwl) as (p & -> & _). exists p. left. reflexivity.
      + intros D0. tauto. }
  clear Hd3. destruct S3 as (K3 & Sl3 & Rb3 & Rx3 & A1 & A0).
  exists (rx_rto s1), (lastsend s1), (t_ack s1), (lastsend s2), (t_ack s2).
  split; [exact (same_k_trans _ _ _ K02 K3)|]. split; [exact Rx1|].
  rewrite Sl3, Sl2, Rb3, Rb2, Rx3.
  split.
  { intros D. destruct (R1 D) as (E1 & E2 & E3 & E4 & E5 & E6 & E7 & E8).
    repeat (split; [assumption|]). intros Hwl. destruct (E8 Hwl) as (p & Hin & Hs). exists p. split; [|exact Hs].
    apply in_or_app. left. exact Hin. }
  split; [exact R0|].
  split.
  { intros D. destruct (P1 D) as (E1 & E2 & E3 & E4 & E5). repeat (split; [assumption|]).
    intros Hwl. destruct (E5 Hwl) as (p & Hin). exists p. apply in_or_app. right. apply in_or_app. left. exact Hin. }
  split; [exact P0|].
  split.
  { intros D. destruct (A1 D) as (E1 & E2 & E3). repeat (split; [assumption|]).
    intros Hwl. destruct (E3 Hwl) as (p & Hin). exists p. apply in_or_app. right. apply in_or_app. right. exact Hin. }
  exact A0.
Qed.

(** ---- the same, at the level of the API call ---- *)
(* an open socket that is not in the TIME-WAIT / LAST-ACK preludes of [notify_clock] *)
Definition plain_open (s : sock) : Prop :=
  state s <> CLOSED /\ (support_fin_ack s = true -> state s <> TIME_WAIT /\ state s <> LAST_ACK).

Definition closed_why (now : Z) (s s' : sock) (ev' : list event) : Prop :=
  closed_err s' ev' /\
  ((rto_base s <> 0 /\ rto_base s + rx_rto s <= now) \/
   (snd_wnd s = 0 /\ 15000 <= now - lastrecv s /\ In (EvClosed ECONNABORTED) ev')).

Lemma notify_clock_open now H s :
  plain_open s -> GT s now H ->
  wp (notify_clock now) s [] (fun _ s' ev' => closed_why now s s' ev' \/ tail_facts now s s' ev').
Proof.
  intros (Hc & Hp) HGT. rewrite notify_clock_tail. wp_split.
  rewrite (st_eqb_false _ _ Hc).
  assert (E1 : support_fin_ack s && st_eqb (state s) TIME_WAIT = false).
  { destruct (support_fin_ack s); [|reflexivity]. destruct (Hp eq_refl) as (A & _). apply st_eqb_false. exact A. }
  assert (E2 : support_fin_ack s && st_eqb (state s) LAST_ACK = false).
  { destruct (support_fin_ack s); [|reflexivity]. destruct (Hp eq_refl) as (_ & A). apply st_eqb_false. exact A. }
  rewrite E1. apply wp_bind_when; [discriminate|intros _]. wp_split.
  unfold last_ack_body. rewrite E2. wp_split. cbn [negb].
  eapply wp_conseq; [apply (clock_tail_spec now H s [] HGT)|]. cbv beta.
  intros _ s3 ev3 (l & -> & Hd). exact Hd.
Qed.

(** RETRANSMISSION: timer armed and [rto_base + rx_rto] reached => the head segment is sent again (or the socket gives up) *)
Theorem rto_fires now H s s' ev' :
  plain_open s -> GT s now H -> rto_base s <> 0 -> rto_base s + rx_rto s <= now ->
  notify_clock now s [] = Ok (tt, s', ev') ->
  closed_err s' ev' \/
  (rto_base s' = now /\ hdx (slist s) < xlimit s /\ hdx (slist s') = (hdx (slist s) + 1) mod 256 /\
   hdseq (slist s') = hdseq (slist s) /\
   (24 <= wr_limit s -> exists p, In (EvPacket p) ev' /\ pkt_has_seq (conv s) (hdseq (slist s)) p)).
Proof.
  intros Hp HGT Hrb Hdue E.
  pose proof (wp_elim _ _ _ _ _ _ _ (notify_clock_open now H s Hp HGT) E) as Hd. cbv beta in Hd.
  destruct Hd as [(Hc & _)|(rx1 & ls1 & ta1 & ls2 & ta2 & _ & _ & R1 & _)]; [left; exact Hc|]. right.
  destruct (R1 (conj Hrb Hdue)) as (E1 & E2 & E3 & E4 & _ & _ & _ & E8). tauto.
Qed.

(** ZERO WINDOW: the peer's window is closed and [lastsend + rx_rto] is reached (no retransmission due in the same call)
    => a window probe goes out and the time-out doubles, unless nothing was received for 15 s: then the socket aborts *)
Theorem zero_window_probe now H s s' ev' :
  plain_open s -> GT s now H -> (rto_base s = 0 \/ now < rto_base s + rx_rto s) ->
  snd_wnd s = 0 -> lastsend s + rx_rto s <= now ->
  notify_clock now s [] = Ok (tt, s', ev') ->
  (15000 <= now - lastrecv s /\ closed_err s' ev' /\ In (EvClosed ECONNABORTED) ev') \/
  (now - lastrecv s < 15000 /\ state s' = state s /\ rx_rto s' = Z.min 60000 (2 * rx_rto s) /\
   (24 <= wr_limit s -> exists p, In (EvPacket p) ev')).
Proof.
  intros Hp HGT Hnd Hz Hdue E.
  pose proof (wp_elim _ _ _ _ _ _ _ (notify_clock_open now H s Hp HGT) E) as Hd. cbv beta in Hd.
  destruct Hd as [(Hc & [(A & B)|(A & B & C)])|(rx1 & ls1 & ta1 & ls2 & ta2 & K & _ & _ & R0 & P1 & _)].
  - exfalso. clear - A B Hnd. lia.
  - left. tauto.
  - right. destruct (R0 Hnd) as (_ & _ & -> & -> & _).
    destruct (P1 (conj Hz Hdue)) as (E1 & _ & E3 & _ & E5). destruct K as (Kst & _). tauto.
Qed.

(** DELAYED ACK: a pending delayed ACK is flushed by the first clock notification after [ack_delay] *)
Theorem delayed_ack_flushed now H s s' ev' :
  plain_open s -> GT s now H -> t_ack s <> 0 -> t_ack s + ack_delay s <= now ->
  notify_clock now s [] = Ok (tt, s', ev') ->
  closed_err s' ev' \/ (t_ack s' = 0 /\ (24 <= wr_limit s -> exists p, In (EvPacket p) ev')).
Proof.
  intros Hp HGT Hta Hdue E.
  pose proof (wp_elim _ _ _ _ _ _ _ (notify_clock_open now H s Hp HGT) E) as Hd. cbv beta in Hd.
  destruct Hd as [(Hc & _)|(rx1 & ls1 & ta1 & ls2 & ta2 & K & _ & R1 & R0 & P1 & P0 & A1 & A0)]; [left; exact Hc|]. right.
  destruct (Z.eq_dec ta2 0) as [Z2|Z2].
  - destruct A0 as (-> & _); [tauto|]. split; [exact Z2|]. intros Hwl.
    destruct (Z.eq_dec (snd_wnd s) 0) as [Hz|Hz]; [destruct (Z_le_gt_dec (ls1 + rx1) now) as [Hq|Hq]|].
    + destruct (P1 (conj Hz Hq)) as (_ & _ & _ & _ & E5). exact (E5 Hwl).
    + destruct P0 as (_ & _ & Ep); [clear - Hq; lia|]. rewrite Z2 in Ep.
      destruct (Z_le_gt_dec (rto_base s + rx_rto s) now) as [D|D]; [destruct (Z.eq_dec (rto_base s) 0) as [Zr|Zr]|].
      * destruct (R0 (or_introl Zr)) as (_ & _ & _ & _ & E'). congruence.
      * destruct (R1 (conj Zr D)) as (_ & _ & _ & _ & _ & _ & _ & E8). destruct (E8 Hwl) as (p & Hin & _). exists p. exact Hin.
      * destruct (R0 (or_intror (Z.gt_lt _ _ D))) as (_ & _ & _ & _ & E'). congruence.
    + destruct P0 as (_ & _ & Ep); [tauto|]. rewrite Z2 in Ep.
      destruct (Z_le_gt_dec (rto_base s + rx_rto s) now) as [D|D]; [destruct (Z.eq_dec (rto_base s) 0) as [Zr|Zr]|].
      * destruct (R0 (or_introl Zr)) as (_ & _ & _ & _ & E'). congruence.
      * destruct (R1 (conj Zr D)) as (_ & _ & _ & _ & _ & _ & _ & E8). destruct (E8 Hwl) as (p & Hin & _). exists p. exact Hin.
      * destruct (R0 (or_intror (Z.gt_lt _ _ D))) as (_ & _ & _ & _ & E'). congruence.
  - assert (ta2 = t_ack s).
    { assert (ta2 = ta1).
      { destruct (Z.eq_dec (snd_wnd s) 0) as [Hz|Hz]; [destruct (Z_le_gt_dec (ls1 + rx1) now) as [Hq|Hq]|].
        - destruct (P1 (conj Hz Hq)) as (_ & _ & _ & E4 & _). congruence.
        - destruct P0 as (_ & _ & Ep); [clear - Hq; lia|]. exact Ep.
        - destruct P0 as (_ & _ & Ep); [tauto|]. exact Ep. }
      subst ta2.
      destruct (Z_le_gt_dec (rto_base s + rx_rto s) now) as [D|D]; [destruct (Z.eq_dec (rto_base s) 0) as [Zr|Zr]|].
      - destruct (R0 (or_introl Zr)) as (_ & _ & _ & _ & E'). exact E'.
      - destruct (R1 (conj Zr D)) as (_ & _ & _ & _ & _ & _ & [E7|E7] & _); [exact E7|congruence].
      - destruct (R0 (or_intror (Z.gt_lt _ _ D))) as (_ & _ & _ & _ & E'). exact E'. }
    subst ta2. destruct (A1 (conj Hta Hdue)) as (E1 & _ & E3). tauto.
Qed.

(** the clock interface names a deadline no later than each armed timer *)
Lemma get_next_clock_open now H s ev :
  state s <> CLOSED -> (support_fin_ack s = true -> state s <> TIME_WAIT) -> shutdown s = SD_NONE -> GT s now H ->
  exists t, get_next_clock 0 now s ev = Ok (Some t, s, ev) /\ t <= now + 4000 /\
    (rto_base s <> 0 -> t <= rto_base s + rx_rto s) /\
    (snd_wnd s = 0 -> t <= lastsend s + rx_rto s) /\
    (t_ack s <> 0 -> t <= t_ack s + ack_delay s).
Proof.
  intros Hc Htw Hsh (Hrx & Had & (Hn & HH & Hrb & Hb1 & Hls & Hlr & Hta & Hw & Ht)).
  unfold get_next_clock, bind, get, ret. rewrite Hsh.
  rewrite (st_eqb_false _ _ Hc).
  assert (E1 : support_fin_ack s && st_eqb (state s) TIME_WAIT = false).
  { destruct (support_fin_ack s); [|reflexivity]. apply st_eqb_false. exact (Htw eq_refl). }
  rewrite E1, !andb_false_r. cbn [andb negb Z.eqb orb].
  rewrite !w32_id by (unfold M32 in *; lia).
  eexists. split; [reflexivity|].
  repeat match goal with |- context [if ?b then _ else _] => destruct b eqn:? end; repeat split; intros; try lia.
Qed.
