(** C09, part 2 (continued): one round of a silent run decreases the measure or closes the socket with an error;
    hence a silent run reports an error closure within [silence_rounds] rounds. *)
From Coq Require Import ZArith List Lia Bool ZifyBool.
From RecordUpdate Require Import RecordSet.
From Nice Require Import Base.Bytes Ptcp.PtcpModel Ptcp.C09Hoare Ptcp.SendSpecs Ptcp.SilenceArith Ptcp.SilenceProofs Ptcp.ClockRound.
Import ListNotations.
Import RecordSetNotations.
Local Open Scope Z_scope.
Local Open Scope bool_scope.
Ltac Zify.zify_post_hook ::= Z.div_mod_to_equations.

(** ONE ROUND: called no earlier than the deadline named by the clock interface, [notify_clock] either closes the
    socket and reports a non-zero error, or leaves an open state of the same kind with a strictly smaller measure *)
Lemma silent_round s now H now' :
  G s now H -> now <= now' <= H -> deadline s now <= now' ->
  wp (notify_clock now') s [] (fun _ s' ev' => closed_err s' ev' \/ (G s' now' H /\ mu s' now' < mu s now)).
Proof.
  intros HG Hn' Hdl.
  pose proof HG as (Hc & Htw & Hsh & Hrb0 & Hrx & Had & (Hn & HH & Hrb00 & Hb10 & Hls & Hlr & Hta & Hw & Ht)).
  assert (Hrb : 0 < rto_base s <= now) by (clear - Hrb0 Hrb00; lia). pose proof (Hb10 Hrb0) as Hb1.
  rewrite notify_clock_tail. wp_split.
  rewrite (st_eqb_false _ _ Hc), (st_eqb_false _ _ Htw), andb_false_r.
  apply wp_bind_when; [discriminate|intros _]. wp_split.
  (* the LAST-ACK stage *)
  eapply wp_bind_cut; [apply last_ack_body_spec|]. cbv beta.
  intros r0 sB evB ((_ & Hj) & Hr0). destruct r0; cbn [negb]; [|wp_split; left; exact (Hr0 eq_refl)].
  destruct Hj as [HcB|HsB].
  { eapply wp_conseq; [apply clock_tail_CE; exact HcB|]. cbv beta. intros; left; assumption. }
  (* open after the LAST-ACK stage *)
  destruct HsB as (CB & LB & TB & RB & XB).
  assert (RB' : rto_base sB = rto_base s) by (clear - RB Hrb; destruct RB as [?|(? & ?)]; lia). clear RB.
  pose proof (same_ctl_k _ _ CB) as KB. pose proof CB as (_ & CBrx & _).
  destruct KB as (Kst & Ksh & Kfa & Kad & Ksw & Klr & Kcv & Kwl).
  assert (Hnb : H - now' < BND) by (clear - Hb1 Hrb Hn'; lia).
  assert (LsB : 0 <= lastsend sB <= now') by (clear - LB Hls Hn' Hn; destruct LB as [->| ->]; lia).
  assert (TaB : 0 <= t_ack sB <= now') by (clear - TB Hta Hn' Hn; destruct TB as [->| ->]; lia).
  assert (HGT : GT sB now' H).
  { unfold GT, clock_ok. rewrite CBrx, Kad, RB', Ksw, Klr.
    split; [exact Hrx|]. split; [exact Had|].
    split; [clear - Hn Hn'; lia|]. split; [exact HH|]. split; [clear - Hrb Hn'; lia|]. split; [intros _; exact Hb1|].
    split; [exact LsB|]. split; [clear - Hlr Hn'; lia|]. split; [exact TaB|]. split.
    - intros Hz. destruct (Hw Hz) as (W1 & W2). split; [|exact W2]. clear - LB W1 Hnb. destruct LB as [->| ->]; lia.
    - intros Hz. assert (t_ack sB = t_ack s) as E by (clear - TB Hz; destruct TB; [assumption|contradiction]).
      rewrite E in *. exact (Ht Hz). }
  eapply wp_conseq; [apply (clock_tail_spec now' H sB evB HGT)|]. cbv beta.
  intros _ s3 ev3 (l & -> & [(Hc3 & _)|HT]); [left; exact Hc3|]. right.
  destruct HT as (rx1 & ls1 & ta1 & ls2 & ta2 & K3 & Rx1 & R1 & R0 & P1 & P0 & A1 & A0).
  assert (Hxl : xlimit sB = xlimit s) by (unfold xlimit; rewrite Kst; reflexivity).
  rewrite RB', CBrx, Hxl in R1. rewrite RB', CBrx in R0. rewrite Ksw, Klr in P1. rewrite Ksw in P0. rewrite Kad in A1, A0.
  destruct K3 as (Kst3 & Ksh3 & Kfa3 & Kad3 & Ksw3 & Klr3 & _).
  rewrite Kst in Kst3. rewrite Ksh in Ksh3. rewrite Kad in Kad3. rewrite Ksw in Ksw3. rewrite Klr in Klr3.
  (* ranges of the intermediate and final values *)
  assert (F1 : 0 <= ls1 <= now' /\ 0 <= ta1 <= now' /\ (ta1 <> 0 -> ta1 = t_ack s) /\ (ls1 = lastsend s \/ ls1 = now') /\
               (rto_base s3 = rto_base s \/ rto_base s3 = now')).
  { clear - R1 R0 LsB TaB LB TB Hn' Hrb0.
    destruct (Z_le_gt_dec (rto_base s + rx_rto s) now') as [D|D].
    - destruct (R1 (conj Hrb0 D)) as (_ & _ & _ & -> & _ & L1 & T1 & _).
      split; [destruct L1 as [->| ->]; lia|]. split; [destruct T1 as [->| ->]; lia|].
      split; [destruct T1 as [->| ->]; [destruct TB as [->| ->]; tauto|tauto]|].
      split; [destruct L1 as [->| ->]; tauto|tauto].
    - destruct (R0 ltac:(lia)) as (_ & -> & _ & -> & ->).
      split; [exact LsB|]. split; [exact TaB|]. split; [destruct TB as [->| ->]; tauto|]. tauto. }
  destruct F1 as (Ls1 & Ta1 & Ta1' & Ls1' & Rb3).
  assert (F2 : 1000 <= rx_rto s3 <= 60000 /\ 0 <= ls2 <= now' /\ 0 <= ta2 <= now' /\ (ta2 <> 0 -> ta2 = t_ack s) /\
               (ls2 = lastsend s \/ ls2 = now')).
  { clear - P1 P0 Rx1 Ls1 Ls1' Ta1 Ta1' Hn'.
    destruct (Z.eq_dec (snd_wnd s) 0) as [Hz|Hz]; [destruct (Z_le_gt_dec (ls1 + rx1) now') as [Hp|Hp]|].
    - destruct P1 as (_ & -> & -> & -> & _); [tauto|]. clear P0. repeat split; lia.
    - destruct P0 as (-> & -> & ->); [clear - Hp; lia|]. clear P1. repeat split; tauto.
    - destruct P0 as (-> & -> & ->); [tauto|]. clear P1. repeat split; tauto. }
  destruct F2 as (Rx3 & Ls2 & Ta2 & Ta2' & Ls2').
  assert (F3 : 0 <= lastsend s3 <= now' /\ 0 <= t_ack s3 <= now' /\ (t_ack s3 <> 0 -> t_ack s3 = t_ack s) /\
               (lastsend s3 = lastsend s \/ lastsend s3 = now')).
  { clear - A1 A0 Ls2 Ls2' Ta2 Ta2' Hn'.
    destruct (Z.eq_dec ta2 0) as [Hz|Hz]; [|destruct (Z_le_gt_dec (ta2 + ack_delay s) now') as [Hp|Hp]].
    - destruct A0 as (-> & ->); [tauto|]. clear A1. repeat split; tauto.
    - destruct A1 as (-> & L3 & _); [tauto|]. clear A0. destruct L3 as [->| ->]; repeat split; (tauto || lia).
    - destruct A0 as (-> & ->); [clear - Hp; lia|]. clear A1. repeat split; tauto. }
  destruct F3 as (Ls3 & Ta3 & Ta3' & Ls3').
  split.
  - (* the open state is again of the kind G *)
    assert (Rb3' : 0 < rto_base s3 <= now' /\ H - rto_base s3 < BND).
    { clear - Rb3 Hrb Hb1 Hn' Hnb Hn. destruct Rb3 as [->| ->]; lia. }
    assert (Lr' : 0 <= lastrecv s <= now') by (clear - Hlr Hn'; lia).
    assert (Hn'' : 0 < now' <= H) by (clear - Hn Hn'; lia).
    unfold G, clock_ok. rewrite Kst3, Ksh3, Kad3, Ksw3, Klr3.
    split; [exact Hc|]. split; [exact Htw|]. split; [exact Hsh|]. split; [clear - Rb3'; lia|]. split; [exact Rx3|]. split; [exact Had|].
    split; [exact Hn''|]. split; [exact HH|]. split; [clear - Rb3'; lia|]. split; [intros _; exact (proj2 Rb3')|].
    split; [exact Ls3|]. split; [exact Lr'|]. split; [exact Ta3|]. split.
    + intros Hz. destruct (Hw Hz) as (W1 & W2). split; [|exact W2]. clear - Ls3' W1 Hnb. destruct Ls3' as [->| ->]; lia.
    + intros Hz. rewrite (Ta3' Hz). rewrite (Ta3' Hz) in Hz. exact (Ht Hz).
  - unfold mu. assert (Hx3 : xlimit s3 = xlimit s) by (unfold xlimit; rewrite Kst3; reflexivity).
    rewrite Hx3, Klr3, Ksw3.
    eapply (round_arith (xlimit s) (snd_wnd s) (lastrecv s) (ack_delay s) (hdx (slist s)) (rto_base s) (rx_rto s) (lastsend s) (t_ack s)
              now now' (hdx (slist sB)) (lastsend sB) (t_ack sB) (hdx (slist s3)) (rto_base s3) rx1 ls1 ta1
              ls2 (rx_rto s3) ta2 (lastsend s3) (t_ack s3));
      try assumption; try apply xlimit_range; try (clear - Hn'; lia).
    + intros D. destruct (R1 (conj Hrb0 D)) as (E1 & E2 & _ & E4 & _ & E6 & E7 & _). repeat (split; [assumption|]). assumption.
    + intros D. destruct (R0 (or_intror D)) as (E1 & E2 & E3 & E4 & E5). rewrite E1. repeat (split; [first [reflexivity|assumption]|]). assumption.
    + intros D. destruct (P1 D) as (E1 & E2 & E3 & E4 & _). repeat (split; [assumption|]). assumption.
    + intros D. destruct (A1 D) as (E1 & E2 & _). split; assumption.
Qed.

(** ---- silent runs ---- *)
(* the owner's loop when nothing is ever received: ask the clock interface for the next deadline [t], wait at least
   until then (any lateness up to the horizon [H]), call [notify_clock]; [n] rounds, events concatenated *)
Inductive silent_run (H : Z) : sock -> Z -> nat -> sock -> Z -> list event -> Prop :=
| sr_done s now : silent_run H s now 0 s now []
| sr_round s now t s0 ev0 now' s1 ev1 n s2 now2 evs :
    get_next_clock 0 now s [] = Ok (Some t, s0, ev0) ->
    now <= now' -> t <= now' -> now' <= H ->
    notify_clock now' s0 [] = Ok (tt, s1, ev1) ->
    silent_run H s1 now' n s2 now2 evs ->
    silent_run H s now (S n) s2 now2 (ev0 ++ ev1 ++ evs).

Lemma notify_clock_closed now s ev : state s = CLOSED -> notify_clock now s ev = Ok (tt, s, ev).
Proof. intros E. unfold notify_clock, bind, get. rewrite E. reflexivity. Qed.

Lemma get_next_clock_closed t now s ev : state s = CLOSED ->
  wp (get_next_clock t now) s ev (fun _ s' _ => state s' = CLOSED).
Proof.
  intros E. unfold get_next_clock. wp_split.
  destruct (shutdown s).
  - cbv match. cbn [andb].
    repeat (first [ wp_split | match goal with |- wp (if ?b then _ else _) _ _ _ => destruct b end ]); exact E.
  - cbv match.
    match goal with |- wp (if ?b then _ else _) _ _ _ => destruct b end.
    + eapply wp_bind_cut; [apply closedown_spec|]. cbv beta. intros _ s1 ev1 (H1 & _). wp_split. exact H1.
    + repeat (first [ wp_split | match goal with |- wp (if ?b then _ else _) _ _ _ => destruct b end ]); exact E.
  - cbv match. eapply wp_bind_cut; [apply closedown_spec|]. cbv beta. intros _ s1 ev1 (H1 & _). wp_split. exact H1.
Qed.

Lemma closed_run H s now n s' now' evs : silent_run H s now n s' now' evs -> state s = CLOSED -> state s' = CLOSED.
Proof.
  induction 1 as [|s now t s0 ev0 now' s1 ev1 n s2 now2 evs Hg H1 H2 H3 Hn Hr IH]; intros E; [exact E|].
  apply IH. pose proof (wp_elim _ _ _ _ _ _ _ (get_next_clock_closed 0 now s [] E) Hg) as E0. cbv beta in E0.
  rewrite (notify_clock_closed _ _ _ E0) in Hn. inversion Hn; subst. exact E0.
Qed.

(** along a silent run the measure pays for every round, until the socket is closed with an error reported *)
Theorem silent_run_measure H s now n s' now' evs :
  silent_run H s now n s' now' evs -> G s now H ->
  closed_err s' evs \/ (G s' now' H /\ mu s' now' + Z.of_nat n <= mu s now).
Proof.
  induction 1 as [|s now t s0 ev0 now' s1 ev1 n s2 now2 evs Hg H1 H2 H3 Hn Hr IH]; intros HG.
  - right. split; [exact HG|]. lia.
  - rewrite (get_next_clock_G _ _ _ _ HG) in Hg. inversion Hg; subst t s0 ev0. clear Hg.
    pose proof (wp_elim _ _ _ _ _ _ _ (silent_round s now H now' HG (conj H1 H3) H2) Hn) as Hround. cbv beta in Hround.
    cbn [app]. destruct Hround as [Hc|(HG1 & Hmu)].
    + left. split; [eapply closed_run; [exact Hr|apply Hc]|].
      destruct Hc as (_ & e & He & Hin). exists e. split; [exact He|]. apply in_or_app. left. exact Hin.
    + destruct (IH HG1) as [Hc|(HG2 & Hm2)].
      * left. destruct Hc as (Hs & e & He & Hin). split; [exact Hs|]. exists e. split; [exact He|]. apply in_or_app. right. exact Hin.
      * right. split; [exact HG2|]. lia.
Qed.

Definition silence_rounds : Z := 9216.

(** SILENCE => ERROR: a silent run of [silence_rounds] rounds or more, from a state whose retransmission timer is armed,
    ends CLOSED with a non-zero error reported to the owner through the Closed callback *)
Theorem silence_gives_error H s now n s' now' evs :
  G s now H -> silent_run H s now n s' now' evs -> silence_rounds <= Z.of_nat n -> closed_err s' evs.
Proof.
  intros HG Hr Hn. destruct (silent_run_measure _ _ _ _ _ _ _ Hr HG) as [Hc|(HG2 & Hm)]; [exact Hc|].
  pose proof (mu_bounds _ _ _ HG). pose proof (mu_bounds _ _ _ HG2). unfold silence_rounds in Hn. lia.
Qed.

(* and no silent run of an open socket is longer than that: the owner cannot be kept busy for ever either *)
Corollary silent_run_open_bounded H s now n s' now' evs :
  G s now H -> silent_run H s now n s' now' evs -> state s' <> CLOSED -> Z.of_nat n < silence_rounds.
Proof.
  intros HG Hr Hopen. destruct (silent_run_measure _ _ _ _ _ _ _ Hr HG) as [(Hc & _)|(HG2 & Hm)]; [congruence|].
  pose proof (mu_bounds _ _ _ HG). pose proof (mu_bounds _ _ _ HG2). unfold silence_rounds. lia.
Qed.
