(** C09, part 2: SILENCE => ERROR.  If no segment ever arrives and the owner follows the clock interface
    (ask [get_next_clock], call [notify_clock] no earlier than the named deadline), a socket whose
    retransmission timer is armed reports an error closure after a bounded number of rounds. *)
From Coq Require Import ZArith List Lia Bool ZifyBool.
From RecordUpdate Require Import RecordSet.
From Nice Require Import Base.Bytes Ptcp.PtcpModel Ptcp.C09Hoare Ptcp.SendSpecs Ptcp.SilenceArith.
Import ListNotations.
Import RecordSetNotations.
Local Open Scope Z_scope.
Local Open Scope bool_scope.
Ltac Zify.zify_post_hook ::= Z.div_mod_to_equations.

(** ---- what a (forced) sending call may do to the fields the clock logic reads ---- *)
Definition sent (now : Z) (s0 s : sock) : Prop :=
  same_ctl s0 s /\
  (lastsend s = lastsend s0 \/ lastsend s = now) /\
  (t_ack s = t_ack s0 \/ t_ack s = 0) /\
  (rto_base s = rto_base s0 \/ (rto_base s0 = 0 /\ rto_base s = now)) /\
  hdx (slist s0) <= hdx (slist s).

(* either the call has closed the socket and told the owner why, or the clock fields are as [sent] says;
   the events of the call so far extend [ev0] *)
Definition J (now : Z) (s0 : sock) (ev0 : list event) (s : sock) (ev : list event) : Prop :=
  extends ev0 ev /\ (closed_err s ev \/ sent now s0 s).

Lemma sent_refl now s : sent now s s.
Proof. unfold sent. pose proof (same_ctl_refl s). intuition lia. Qed.
Lemma J_refl now s ev : J now s ev s ev.
Proof. split; [apply extends_refl|right; apply sent_refl]. Qed.

Lemma closed_err_extends s ev ev' s' : closed_err s ev -> state s' = CLOSED -> extends ev ev' -> closed_err s' ev'.
Proof. intros (H1 & e & H2 & H3) Hs Hx. split; [exact Hs|]. exists e. split; [exact H2|]. eapply extends_in; eauto. Qed.

(* a call that maintains [J] from every starting point keeps a reported closure reported *)
Lemma J_CE {A} now (m : M A) : (forall s0 ev0, presE (J now s0 ev0) m) -> presE closed_err m.
Proof.
  intros H s ev Hc. eapply wp_conseq; [apply (H s ev s ev (J_refl now s ev))|]. cbv beta.
  intros _ s' ev' (Hx & [Hc'|Hs]); [exact Hc'|].
  eapply closed_err_extends; eauto. destruct Hs as ((-> & _) & _). apply Hc.
Qed.

Section JPres.
Variables (now : Z) (s0 : sock) (ev0 : list event).
Local Notation JJ := (J now s0 ev0).

Lemma packet_J seq flags off ln : presE JJ (packet seq flags off ln now).
Proof.
  intros s ev (Hx0 & Hj). eapply wp_conseq; [apply packet_spec|]. cbv beta.
  intros w s' ev' (F & _ & _ & _ & P1 & P2).
  assert (Hx : extends ev ev').
  { destruct (Z_le_gt_dec (24 + ln) (wr_limit s)) as [Hle|Hgt].
    - destruct (P1 Hle) as (_ & p & -> & _). apply extends_snoc.
    - destruct (P2 ltac:(lia)) as (-> & _). apply extends_refl. }
  split; [eapply extends_trans; eauto|].
  destruct F as (C & Sl & Nx & Rb & Ls & Ta).
  destruct Hj as [Hc|Hs].
  - left. eapply closed_err_extends; eauto. destruct C as (-> & _). apply Hc.
  - right. unfold sent in *. destruct Hs as (C0 & L0 & T0 & R0 & X0).
    split; [eapply same_ctl_trans; eauto|]. rewrite Sl, Rb. intuition congruence.
Qed.

Lemma transmit_J i : presE JJ (transmit i now).
Proof.
  intros s ev (Hx0 & Hj). eapply wp_conseq; [apply transmit_spec|]. cbv beta.
  intros st s' ev' (sg & l & Hn & -> & C & Ls & Ta & _ & Hd).
  split; [eapply extends_trans; [exact Hx0|eexists; reflexivity]|].
  destruct Hj as [Hc|Hs].
  - left. eapply closed_err_extends; eauto; [|eexists; reflexivity]. destruct C as (-> & _). apply Hc.
  - right. unfold sent in *. destruct Hs as (C0 & L0 & T0 & R0 & X0).
    split; [eapply same_ctl_trans; eauto|].
    split; [intuition congruence|]. split; [intuition congruence|].
    destruct Hd as [(_ & Sl & _ & Rb)|(_ & Hlt & Rb & _ & H0 & HS & _)].
    + rewrite Sl, Rb. tauto.
    + split.
      * rewrite Rb. destruct (rto_base s =? 0) eqn:E; [|tauto]. right. split; [|reflexivity].
        destruct R0 as [R0|(R0 & _)]; lia.
      * destruct i as [|k].
        -- destruct (H0 eq_refl) as (-> & _).
           assert (hdx (slist s) = ss_xmit sg) by (destruct (slist s); [discriminate|cbn in Hn; inversion Hn; reflexivity]).
           unfold xlimit in Hlt. destruct (st_eqb (state s) ESTABLISHED); lia.
        -- destruct (HS ltac:(congruence)) as (-> & _). exact X0.
Qed.

Lemma closedown_remote_J e : negb (e =? 0) = true -> presE JJ (closedown_remote e).
Proof.
  intros He s ev (Hx0 & Hj). eapply wp_conseq; [apply closedown_remote_spec|]. cbv beta.
  intros _ s' ev' (H1 & Hx & H2). split; [eapply extends_trans; eauto|].
  left. split; [exact H1|]. exists e. split; [lia|]. apply H2. lia.
Qed.

(* queueing appends to (or extends the last element of) the segment list: the head keeps its transmission count *)
Lemma last_seg_split l t : last_seg l = Some t -> exists r, l = r ++ [t].
Proof.
  unfold last_seg. destruct (rev l) as [|x r] eqn:E; [discriminate|]. intros H; inversion H; subst x.
  exists (rev r). rewrite <- (rev_involutive l), E. reflexivity.
Qed.
Lemma hdx_app_last r t t' : ss_xmit t' = ss_xmit t -> hdx (r ++ [t']) = hdx (r ++ [t]).
Proof. destruct r; cbn; auto. Qed.
Lemma hdx_app_nonempty r x : r <> [] -> hdx (r ++ x) = hdx r.
Proof. destruct r; [congruence|reflexivity]. Qed.

Lemma queue_J d f : presE JJ (queue d f).
Proof.
  intros s ev (Hx0 & Hj). unfold queue. wp_split.
  eapply wp_bind_cut with (R := fun _ s1 ev1 => s1 = s /\ ev1 = ev).
  { destruct (len d >? sb_remaining s); repeat wp_split; tauto. }
  intros _ s1 ev1 (-> & ->). repeat wp_split. split; [exact Hx0|].
  destruct Hj as [Hc|Hs]; [left; destruct Hc as (? & ?); split; [sprojs; assumption|assumption]|].
  right. unfold sent, same_ctl in *. sprojs. destruct Hs as (C0 & L0 & T0 & R0 & X0).
  repeat (split; [tauto|]).
  destruct (last_seg (slist s)) as [t|] eqn:El.
  - destruct (last_seg_split _ _ El) as (r & Hr).
    destruct ((ss_flags t =? f) && (ss_xmit t =? 0)).
    + rewrite Hr, removelast_last. rewrite Hr in X0. erewrite hdx_app_last; [exact X0|reflexivity].
    + rewrite hdx_app_nonempty; [exact X0|]. rewrite Hr. destruct r; discriminate.
  - assert (slist s = []).
    { unfold last_seg in El. destruct (rev (slist s)) eqn:E; [|discriminate].
      rewrite <- (rev_involutive (slist s)), E. reflexivity. }
    rewrite H in X0. exact X0.
Qed.
Hint Resolve packet_J transmit_J closedown_remote_J queue_J : c09_presE.

Ltac solveJ := solve [ assumption
  | exfalso; match goal with H : _ && false = true |- _ => rewrite andb_false_r in H; discriminate H end
  | match goal with H : J _ _ _ ?s _ |- J _ _ _ (set _ _ ?s) _ =>
      destruct H as (? & [(? & ?)|H]); (split; [assumption|]);
      [left; split; [sprojs; assumption|assumption]|right; unfold sent, same_ctl in *; sprojs; exact H] end ].

Lemma queue_fin_message_J : presE JJ queue_fin_message.
Proof. intros s ev Hj. unfold queue_fin_message. wp_invE (J now s0 ev0) solveJ. Qed.
Lemma queue_rst_message_J : presE JJ queue_rst_message.
Proof. intros s ev Hj. unfold queue_rst_message. wp_invE (J now s0 ev0) solveJ. Qed.
Hint Resolve queue_fin_message_J queue_rst_message_J : c09_presE.

Definition forced_flag (sf : sflag) : bool := sf_eqb sf sfFin || sf_eqb sf sfRst.

Lemma attempt_send_loop_J fuel : forall sf, forced_flag sf = true -> presE JJ (attempt_send_loop fuel sf now).
Proof.
  induction fuel as [|fuel IH]; intros sf Hf s ev Hj; cbn [attempt_send_loop]; [apply wp_fault|].
  assert (IH' : forall sf, forced_flag sf = true -> presE JJ (attempt_send_loop fuel sf now)) by exact IH.
  destruct sf; try discriminate Hf; cbn [sf_eqb orb negb andb]; wp_invE (J now s0 ev0) solveJ.
Qed.

Lemma attempt_send_J sf : forced_flag sf = true -> presE JJ (attempt_send sf now).
Proof.
  intros Hf s ev Hj. unfold attempt_send. pose proof (fun n => attempt_send_loop_J n sf Hf).
  wp_invE (J now s0 ev0) solveJ.
Qed.
End JPres.

(** ---- once closed with an error reported, the rest of a call keeps it so ---- *)
Lemma packet_CE seq flags off ln now : presE closed_err (packet seq flags off ln now).
Proof. apply (J_CE now). intros. apply packet_J. Qed.
Lemma transmit_CE i now : presE closed_err (transmit i now).
Proof. apply (J_CE now). intros. apply transmit_J. Qed.

Lemma closedown_CE e l now : presE closed_err (closedown e l now).
Proof.
  intros s ev Hc. unfold closedown. wp_split.
  eapply wp_bind_cut with (R := fun _ s1 ev1 => closed_err s1 ev1).
  { destruct (l && support_fin_ack s).
    - eapply wp_bind_cut with (R := fun _ s1 ev1 => closed_err s1 ev1).
      + apply (J_CE now); [intros; apply queue_rst_message_J|exact Hc].
      + intros _ s1 ev1 Hc1. apply (J_CE now); [intros; apply attempt_send_J; reflexivity|exact Hc1].
    - destruct l; repeat wp_split; [|exact Hc]. destruct Hc as (? & ?). split; [sprojs; assumption|assumption]. }
  intros _ s1 ev1 Hc1.
  eapply wp_bind_cut with (R := fun _ s2 ev2 => closed_err s2 ev2).
  { unfold closedown_states. wp_split. destruct Hc1 as (Hs & He). rewrite Hs. cbv match. wp_split. split; assumption. }
  intros _ s2 ev2 Hc2. eapply wp_conseq; [apply set_state_closed_spec|]. cbv beta.
  intros _ s3 ev3 (H1 & _ & [(_ & ->)|(_ & ->)]).
  - eapply closed_err_extends; eauto. apply extends_refl.
  - eapply closed_err_extends; eauto. apply extends_snoc.
Qed.

Lemma closedown_full e l now s ev :
  wp (closedown e l now) s ev (fun _ s' ev' => state s' = CLOSED /\ extends ev ev' /\ (e <> 0 -> In (EvClosed e) ev')).
Proof.
  unfold closedown. wp_split.
  eapply wp_bind_cut with (R := fun _ _ ev1 => extends ev ev1).
  { destruct (l && support_fin_ack s).
    - eapply wp_bind_cut; [apply (queue_rst_message_J now s ev); apply J_refl|]. cbv beta.
      intros _ s1 ev1 Hj. eapply wp_conseq; [apply (attempt_send_J now s ev sfRst eq_refl); exact Hj|]. cbv beta.
      intros _ s2 ev2 (Hx & _). exact Hx.
    - destruct l; repeat wp_split; apply extends_refl. }
  intros _ s1 ev1 Hx1.
  eapply wp_bind_cut; [apply closedown_states_events|]. cbv beta. intros _ s2 ev2 ->.
  eapply wp_conseq; [apply set_state_closed_spec|]. cbv beta.
  intros _ s3 ev3 (H1 & _ & [(H2 & ->)|(H2 & ->)]); (split; [exact H1|]).
  - split; [exact Hx1|]. intros; lia.
  - split; [eapply extends_trans; [exact Hx1|apply extends_snoc]|]. intros _. apply in_or_app. right. left. reflexivity.
Qed.

(** ---- the LAST-ACK prelude and the three timer blocks of [notify_clock] ---- *)
Definition last_ack_body (now : Z) (s : sock) : M bool :=
  if support_fin_ack s && st_eqb (state s) LAST_ACK then
    match last_seg (slist s) with
    | Some g =>
      if has_flag (ss_flags g) FLAG_FIN && (ss_xmit g >? 0) then
        st <- transmit (length (slist s) - 1) now ;;
        if negb (st =? 0) then closedown st true now ;;; ret false else ret true
      else queue_fin_message ;;; attempt_send sfFin now ;;; ret true
    | None => queue_fin_message ;;; attempt_send sfFin now ;;; ret true
    end
  else ret true.
Definition rto_body (now : Z) (s : sock) : M bool :=
  if negb (rto_base s =? 0) && (time_diff (w32 (rto_base s + rx_rto s)) now <=? 0) then
    match slist s with
    | [] => fault
    | _ =>
      st <- transmit O now ;;
      if negb (st =? 0) then closedown st true now ;;; ret false else
      upd (fun s =>
        let nInFlight := w32 (snd_nxt s - snd_una s) in
        let lim := if st_num (state s) <? 3 then 1000 else 60000 in
        let s1 := s <| ssthresh := Z.max (nInFlight / 2) (w32 (2 * mss s)) |> <| cwnd := mss s |>
                    <| rx_rto := Z.min lim (w32 (rx_rto s * 2)) |> <| rto_base := now |> <| recover := snd_nxt s |> in
        if dup_acks s >=? 3 then s1 <| dup_acks := 0 |> <| fast_recovery := false |> else s1) ;;; ret true
    end
  else ret true.
Definition probe_body (now : Z) (s : sock) : M bool :=
  if (snd_wnd s =? 0) && (time_diff (w32 (lastsend s + rx_rto s)) now <=? 0) then
    if time_diff now (lastrecv s) >=? 15000 then closedown ECONNABORTED true now ;;; ret false else
    packet (w32 (snd_nxt s - 1)) 0 0 0 now ;;;
    upd (fun s => s <| lastsend := now |> <| rx_rto := Z.min 60000 (w32 (rx_rto s * 2)) |>) ;;; ret true
  else ret true.
Definition ack_body (now : Z) (s : sock) : M unit :=
  when (negb (t_ack s =? 0) && (time_diff (w32 (t_ack s + ack_delay s)) now <=? 0)) (packet (snd_nxt s) 0 0 0 now ;;; ret tt).

Lemma notify_clock_blocks now :
  notify_clock now =
  (s <- get ;;
   if st_eqb (state s) CLOSED then ret tt else
   when (support_fin_ack s && st_eqb (state s) TIME_WAIT) (set_state_closed 0) ;;;
   s <- get ;;
   r0 <- last_ack_body now s ;;
   if negb r0 then ret tt else
   s <- get ;;
   r1 <- rto_body now s ;;
   if negb r1 then ret tt else
   s <- get ;;
   r2 <- probe_body now s ;;
   if negb r2 then ret tt else
   s <- get ;;
   ack_body now s).
Proof. reflexivity. Qed.

(* the LAST-ACK prelude (re-send the pending FIN, or queue one): a forced send, or a reported closure *)
Lemma last_ack_body_spec now s ev :
  wp (last_ack_body now s) s ev (fun r0 s' ev' => J now s ev s' ev' /\ (r0 = false -> closed_err s' ev')).
Proof.
  unfold last_ack_body.
  assert (Q : wp (queue_fin_message ;;; attempt_send sfFin now ;;; ret true) s ev
                (fun r0 s' ev' => J now s ev s' ev' /\ (r0 = false -> closed_err s' ev'))).
  { eapply wp_bind_cut; [apply (queue_fin_message_J now s ev); apply J_refl|]. cbv beta.
    intros _ s1 ev1 Hj. eapply wp_bind_cut; [apply (attempt_send_J now s ev sfFin eq_refl); exact Hj|]. cbv beta.
    intros _ s2 ev2 Hj2. wp_split. split; [exact Hj2|discriminate]. }
  destruct (support_fin_ack s && st_eqb (state s) LAST_ACK).
  2:{ wp_split. split; [apply J_refl|discriminate]. }
  destruct (last_seg (slist s)) as [g|]; [|exact Q].
  destruct (has_flag (ss_flags g) FLAG_FIN && (ss_xmit g >? 0)); [|exact Q].
  eapply wp_bind_cut; [apply (transmit_J now s ev); apply J_refl|]. cbv beta.
  intros st s1 ev1 Hj. destruct (negb (st =? 0)) eqn:Est.
  - eapply wp_bind_cut; [apply closedown_full|]. cbv beta. intros _ s2 ev2 (H1 & Hx & H2). wp_split.
    assert (Hc : closed_err s2 ev2) by (split; [exact H1|]; exists st; split; [lia|apply H2; lia]).
    split; [|intros _; exact Hc]. split; [eapply extends_trans; [apply Hj|exact Hx]|left; exact Hc].
  - wp_split. split; [exact Hj|discriminate].
Qed.

(** ---- exact clock comparisons below the wrap ---- *)
Definition BND : Z := HALF - 120000.

Lemma due_exact b d now H :
  0 <= b <= now -> now <= H -> H + 120000 < M32 -> H - b < BND -> 0 <= d <= 120000 ->
  (time_diff (w32 (b + d)) now <=? 0) = (b + d <=? now).
Proof.
  intros. unfold BND, HALF, M32 in *. rewrite w32_id by (unfold M32; lia).
  rewrite time_diff_exact by (unfold M32, HALF; lia). lia.
Qed.
Lemma age_exact b now H :
  0 <= b <= now -> now <= H -> H + 120000 < M32 -> H - b < BND -> time_diff now b = now - b.
Proof. intros. unfold BND, HALF, M32 in *. apply time_diff_exact; unfold M32, HALF; lia. Qed.

(* the fields of the clock logic that no timer block changes *)
Definition same_k (s s' : sock) : Prop :=
  state s' = state s /\ shutdown s' = shutdown s /\ support_fin_ack s' = support_fin_ack s /\
  ack_delay s' = ack_delay s /\ snd_wnd s' = snd_wnd s /\ lastrecv s' = lastrecv s /\
  conv s' = conv s /\ wr_limit s' = wr_limit s.
Lemma same_ctl_k s s' : same_ctl s s' -> same_k s s'.
Proof. unfold same_ctl, same_k. tauto. Qed.
Lemma same_k_refl s : same_k s s. Proof. unfold same_k. tauto. Qed.
Lemma same_k_trans a b c : same_k a b -> same_k b c -> same_k a c.
Proof. unfold same_k. intuition congruence. Qed.

Definition rto_cap (s : sock) : Z := if st_num (state s) <? 3 then 1000 else 60000.

(** the retransmission block: not due => nothing; due => the head segment goes out again (transmission count + 1,
    time-out doubled up to the cap, timer re-armed at [now]) or the socket is closed with an error *)
Lemma rto_body_spec now H s ev :
  0 <= rto_base s <= now -> now <= H -> H + 120000 < M32 -> (rto_base s <> 0 -> H - rto_base s < BND) -> 1000 <= rx_rto s <= 60000 ->
  wp (rto_body now s) s ev (fun r1 s' ev' =>
    (r1 = false /\ closed_err s' ev' /\ extends ev ev' /\ rto_base s <> 0 /\ rto_base s + rx_rto s <= now) \/
    (r1 = true /\ exists l, ev' = ev ++ l /\
      (((rto_base s = 0 \/ now < rto_base s + rx_rto s) /\ s' = s /\ l = []) \/
       (rto_base s <> 0 /\ rto_base s + rx_rto s <= now /\ same_k s s' /\
        rx_rto s' = Z.min (rto_cap s) (2 * rx_rto s) /\ rto_base s' = now /\
        hdx (slist s) < xlimit s /\ hdx (slist s') = (hdx (slist s) + 1) mod 256 /\
        hdseq (slist s') = hdseq (slist s) /\
        (lastsend s' = lastsend s \/ lastsend s' = now) /\ (t_ack s' = t_ack s \/ t_ack s' = 0) /\
        (24 <= wr_limit s -> exists p, In (EvPacket p) l /\ pkt_has_seq (conv s) (hdseq (slist s)) p))))).
Proof.
  intros Hb Hn HH Hd Hr. unfold rto_body.
  destruct (rto_base s =? 0) eqn:Erb; cbn [negb andb].
  { wp_split. right. split; [reflexivity|]. exists []. rewrite app_nil_r. split; [reflexivity|]. left. repeat split; lia. }
  assert (Hrb0 : rto_base s <> 0) by lia. specialize (Hd Hrb0).
  rewrite (due_exact _ _ _ H) by lia.
  destruct (rto_base s + rx_rto s <=? now) eqn:Edue.
  2:{ wp_split. right. split; [reflexivity|]. exists []. rewrite app_nil_r. split; [reflexivity|]. left. repeat split; lia. }
  destruct (slist s) as [|g rest] eqn:Esl; [apply wp_fault|].
  eapply wp_bind_cut; [apply transmit_spec|]. cbv beta.
  intros st s1 ev1 (sg & l & Hnth & -> & C & Ls & Ta & _ & Hd1).
  rewrite Esl in Hnth. cbn in Hnth. inversion Hnth; subst sg; clear Hnth.
  destruct (negb (st =? 0)) eqn:Est.
  - eapply wp_bind_cut; [apply closedown_full|]. cbv beta. intros _ s2 ev2 (H1 & Hx2 & H2).
    wp_split. left. split; [reflexivity|]. split; [split; [exact H1|]; exists st; split; [lia|]; apply H2; lia|].
    split; [eapply extends_trans; [eexists; reflexivity|exact Hx2]|]. split; [exact Hrb0|lia].
  - assert (st = 0) by lia. subst st.
    destruct Hd1 as [(Hne & _)|(_ & Hlt & Rb & Hne & H0 & _ & _ & Hp)]; [congruence|].
    destruct (H0 eq_refl) as (Hx & Hq).
    repeat wp_split. right. split; [reflexivity|]. exists l. split; [reflexivity|]. right.
    split; [exact Hrb0|]. split; [lia|].
    assert (K1 : same_k s s1) by (apply same_ctl_k; exact C).
    destruct C as (Cst & Crx & _).
    match goal with |- context [if ?c then _ else _] => destruct c end; unfold same_k in *; sprojs.
    all: cbn [hdx hdseq].
    all: split; [exact K1|]; split; [unfold rto_cap; rewrite Cst, Crx, (w32_id (rx_rto s * 2)) by (unfold M32; lia); f_equal; lia|].
    all: split; [reflexivity|]; split; [exact Hlt|]; split; [exact Hx|]; split; [exact Hq|]; split; [exact Ls|]; split; [exact Ta|exact Hp].
Qed.

(** the zero-window block: with a closed peer window a probe goes out every [rx_rto] (doubling), until 15 s have
    passed since the last received segment: then the socket aborts (the recorded finding of DESIGN 9.2) *)
Lemma probe_body_spec now H s ev :
  0 <= lastsend s <= now -> 0 <= lastrecv s <= now -> now <= H -> H + 120000 < M32 ->
  (snd_wnd s = 0 -> H - lastsend s < BND /\ H - lastrecv s < BND) -> 1000 <= rx_rto s <= 60000 ->
  wp (probe_body now s) s ev (fun r2 s' ev' =>
    (r2 = false /\ closed_err s' ev' /\ extends ev ev' /\ snd_wnd s = 0 /\ 15000 <= now - lastrecv s /\ In (EvClosed ECONNABORTED) ev') \/
    (r2 = true /\ exists l, ev' = ev ++ l /\
      ((~ (snd_wnd s = 0 /\ lastsend s + rx_rto s <= now) /\ s' = s /\ l = []) \/
       (snd_wnd s = 0 /\ lastsend s + rx_rto s <= now /\ now - lastrecv s < 15000 /\ same_k s s' /\
        slist s' = slist s /\ rto_base s' = rto_base s /\ lastsend s' = now /\
        rx_rto s' = Z.min 60000 (2 * rx_rto s) /\ t_ack s' = 0 /\
        (24 <= wr_limit s -> exists p, l = [EvPacket p] /\ pkt_has_seq (conv s) (w32 (snd_nxt s - 1)) p))))).
Proof.
  intros Hl Hr Hn HH Hw Hx. unfold probe_body.
  destruct (snd_wnd s =? 0) eqn:Ew; cbn [andb].
  2:{ wp_split. right. split; [reflexivity|]. exists []. rewrite app_nil_r. split; [reflexivity|]. left. repeat split; lia. }
  assert (Hw0 : snd_wnd s = 0) by lia. destruct (Hw Hw0) as (B1 & B2).
  rewrite (due_exact _ _ _ H) by lia.
  destruct (lastsend s + rx_rto s <=? now) eqn:Edue.
  2:{ wp_split. right. split; [reflexivity|]. exists []. rewrite app_nil_r. split; [reflexivity|]. left. repeat split; lia. }
  rewrite (age_exact _ _ H) by lia.
  destruct (now - lastrecv s >=? 15000) eqn:Eage.
  - eapply wp_bind_cut; [apply closedown_full|]. cbv beta. intros _ s2 ev2 (H1 & Hx2 & H2).
    wp_split. left. split; [reflexivity|].
    assert (In (EvClosed ECONNABORTED) ev2) by (apply H2; unfold ECONNABORTED; lia).
    split; [split; [exact H1|]; exists ECONNABORTED; split; [unfold ECONNABORTED; lia|assumption]|].
    split; [exact Hx2|]. repeat split; (assumption || lia).
  - eapply wp_bind_cut; [apply packet_spec|]. cbv beta.
    intros w s1 ev1 (F & Z0 & _ & _ & P1 & P2). destruct (Z0 eq_refl) as (_ & T0).
    repeat wp_split. right. split; [reflexivity|].
    destruct F as (C & Sl & Nx & Rb & _ & _).
    assert (K1 : same_k s s1) by (apply same_ctl_k; exact C). destruct C as (_ & Crx & _).
    assert (El : exists l, ev1 = ev ++ l /\ (24 <= wr_limit s -> exists p, l = [EvPacket p] /\ pkt_has_seq (conv s) (w32 (snd_nxt s - 1)) p)).
    { destruct (Z_le_gt_dec (24 + 0) (wr_limit s)) as [Hle|Hgt].
      - destruct (P1 Hle) as (_ & p & -> & Hp). exists [EvPacket p]. split; [reflexivity|]. intros _. exists p. split; [reflexivity|exact Hp].
      - destruct (P2 ltac:(lia)) as (-> & _). exists []. rewrite app_nil_r. split; [reflexivity|]. intros; lia. }
    destruct El as (l & -> & Hp). exists l. split; [reflexivity|]. right.
    unfold same_k in *. sprojs.
    split; [lia|]. split; [lia|]. split; [lia|]. split; [exact K1|]. split; [exact Sl|]. split; [exact Rb|].
    split; [reflexivity|].
    split; [rewrite Crx, (w32_id (rx_rto s * 2)) by (unfold M32; lia); f_equal; lia|].
    split; [exact T0|exact Hp].
Qed.

(** the delayed-ACK block: a pending delayed ACK is flushed once [ack_delay] has passed *)
Lemma ack_body_spec now H s ev :
  0 <= t_ack s <= now -> now <= H -> H + 120000 < M32 -> (t_ack s <> 0 -> H - t_ack s < BND) -> 0 <= ack_delay s <= 60000 ->
  wp (ack_body now s) s ev (fun _ s' ev' =>
    exists l, ev' = ev ++ l /\
      ((~ (t_ack s <> 0 /\ t_ack s + ack_delay s <= now) /\ s' = s /\ l = []) \/
       (t_ack s <> 0 /\ t_ack s + ack_delay s <= now /\ pfr now s s' /\ t_ack s' = 0 /\
        (24 <= wr_limit s -> exists p, l = [EvPacket p] /\ pkt_has_seq (conv s) (snd_nxt s) p)))).
Proof.
  intros Ht Hn HH Hb Ha. unfold ack_body.
  destruct (t_ack s =? 0) eqn:E0; cbn [negb andb].
  { apply wp_when; [discriminate|]. intros _. exists []. rewrite app_nil_r. split; [reflexivity|]. left. repeat split; lia. }
  rewrite (due_exact _ _ _ H) by lia.
  apply wp_when; intros Ed.
  2:{ exists []. rewrite app_nil_r. split; [reflexivity|]. left. repeat split; lia. }
  eapply wp_bind_cut; [apply packet_spec|]. cbv beta.
  intros w s1 ev1 (F & Z0 & _ & _ & P1 & P2). destruct (Z0 eq_refl) as (_ & T0). wp_split.
  assert (El : exists l, ev1 = ev ++ l /\ (24 <= wr_limit s -> exists p, l = [EvPacket p] /\ pkt_has_seq (conv s) (snd_nxt s) p)).
  { destruct (Z_le_gt_dec (24 + 0) (wr_limit s)) as [Hle|Hgt].
    - destruct (P1 Hle) as (_ & p & -> & Hp). exists [EvPacket p]. split; [reflexivity|]. intros _. exists p. split; [reflexivity|exact Hp].
    - destruct (P2 ltac:(lia)) as (-> & _). exists []. rewrite app_nil_r. split; [reflexivity|]. intros; lia. }
  destruct El as (l & -> & Hp). exists l. split; [reflexivity|]. right.
  split; [lia|]. split; [lia|]. split; [exact F|]. split; [exact T0|exact Hp].
Qed.

(** ---- the open states of a silent run ---- *)
(* no 32-bit wrap up to the horizon [H]: every time stamp the clock logic compares lies less than 2^31 - 120 s before [H] *)
Definition clock_ok (s : sock) (now H : Z) : Prop :=
  0 < now <= H /\ H + 120000 < M32 /\
  0 <= rto_base s <= now /\ (rto_base s <> 0 -> H - rto_base s < BND) /\
  0 <= lastsend s <= now /\ 0 <= lastrecv s <= now /\ 0 <= t_ack s <= now /\
  (snd_wnd s = 0 -> H - lastsend s < BND /\ H - lastrecv s < BND) /\
  (t_ack s <> 0 -> H - t_ack s < BND).

(* [G s now H]: not closed, not in TIME-WAIT (that is completion), the owner has not asked to close (non-FIN-ACK mode),
   the retransmission timer is ARMED ([rto_base <> 0]), time-outs in range *)
Definition G (s : sock) (now H : Z) : Prop :=
  state s <> CLOSED /\ state s <> TIME_WAIT /\ shutdown s = SD_NONE /\ rto_base s <> 0 /\
  1000 <= rx_rto s <= 60000 /\ 0 <= ack_delay s <= 60000 /\ clock_ok s now H.

Definition deadline (s : sock) (now : Z) : Z :=
  dlZ (rto_base s) (rx_rto s) (lastsend s) (t_ack s) (ack_delay s) (snd_wnd s) now.
Definition mu (s : sock) (now : Z) : Z :=
  muZ (xlimit s) (hdx (slist s)) (rto_base s) (rx_rto s) (lastsend s) (lastrecv s) (t_ack s) (snd_wnd s) now.

Lemma xlimit_range s : 15 <= xlimit s <= 30.
Proof. unfold xlimit. destruct (st_eqb (state s) ESTABLISHED); lia. Qed.

Lemma mu_bounds s now H : G s now H -> 0 <= mu s now <= 9215.
Proof.
  intros (_ & _ & _ & _ & Hrx & _ & (_ & _ & Hrb & _ & _ & Hlr & _)). unfold mu.
  apply muZ_bounds; [apply xlimit_range|lia|lia|lia].
Qed.

Lemma st_eqb_false a b : a <> b -> st_eqb a b = false.
Proof. unfold st_eqb. destruct a, b; cbn; intros; try reflexivity; congruence. Qed.

(* the clock interface names exactly [deadline] *)
Lemma get_next_clock_G s now H ev : G s now H -> get_next_clock 0 now s ev = Ok (Some (deadline s now), s, ev).
Proof.
  intros (Hc & Htw & Hsh & Hrb0 & Hrx & Had & (Hn & HH & Hrb & Hb1 & Hls & Hlr & Hta & Hw & Ht)).
  unfold get_next_clock, bind, get, ret. rewrite Hsh.
  rewrite (st_eqb_false _ _ Hc), (st_eqb_false _ _ Htw), !andb_false_r. cbn [andb negb Z.eqb orb].
  unfold deadline, dlZ.
  rewrite !w32_id by (unfold M32 in *; lia).
  replace (negb (rto_base s =? 0)) with true by lia.
  replace (Z.min (now + 60000) (now + 4000)) with (now + 4000) by lia.
  destruct (t_ack s =? 0); cbn [negb]; reflexivity.
Qed.
