(** C09, part 1: the TIMER-ARMED invariant of the pseudo-TCP socket over all operation sequences.

    [TI ad now s]: whenever there are unacknowledged sequence numbers in flight ([snd_una <> snd_nxt])
    the retransmission timer is armed ([rto_base <> 0]); the retransmission time-out stays within
    [1000, 60000] ms; every time stamp kept in the socket lies in the past of the clock.
    Proved for every reachable state: any configuration, any sequence of API calls, any received bytes,
    any non-decreasing clock that avoids the value 0 (0 means "timer off" in the implementation). *)
From Coq Require Import ZArith List Lia Bool ZifyBool.
From RecordUpdate Require Import RecordSet.
From Nice Require Import Base.Bytes Ptcp.PtcpModel Ptcp.C09Hoare.
Import ListNotations.
Import RecordSetNotations.
Local Open Scope Z_scope.
Local Open Scope bool_scope.
Ltac Zify.zify_post_hook ::= Z.div_mod_to_equations.

Definition TI (ad now : Z) (s : sock) : Prop :=
  (snd_una s <> snd_nxt s -> rto_base s <> 0) /\
  1000 <= rx_rto s <= 60000 /\
  0 <= rto_base s <= now /\ 0 <= lastsend s <= now /\ 0 <= lastrecv s <= now /\ 0 <= t_ack s <= now /\
  ack_delay s = ad.

Ltac gprojs := cbn [set shutdown shutdown_reads error state conv bReadEnable bWriteEnable bOutgoing last_traffic rlist rbuf_len rcv_nxt rcv_wnd lastrecv rwnd_scale rbuf rcv_fin slist sbuf_len snd_nxt snd_wnd lastsend snd_una swnd_scale sbuf_cap sbuf sbuf_n mss msslevel largest mtu_advise rto_base ts_recent ts_lastack rx_rttvar rx_srtt rx_rto ssthresh cwnd dup_acks recover fast_recovery t_ack last_acked_ts use_nagling ack_delay support_wnd_scale support_fin_ack wr_limit].
Ltac clear_bools := repeat match goal with H : @eq bool _ _ |- _ => clear H end.
Ltac case_ifs := repeat (match goal with |- context [if ?b then _ else _] => destruct b eqn:? end; gprojs).

(* frame of the pure helper [shrink_mss]: only the MTU level, the mss and the congestion window move *)
Lemma shrink_mss_frame fuel : forall s nT s' o, shrink_mss fuel s nT = (s', o) ->
  exists l m c, s' = s <| msslevel := l |> <| mss := m |> <| cwnd := c |>.
Proof.
  induction fuel as [|fuel IH]; intros s nT s' o H; cbn [shrink_mss] in H.
  - inversion H; subst. exists (msslevel s'), (mss s'), (cwnd s'). destruct s'; reflexivity.
  - destruct (nthz PACKET_MAXIMUMS (msslevel s + 1) =? 0).
    + inversion H; subst. exists (msslevel s'), (mss s'), (cwnd s'). destruct s'; reflexivity.
    + match type of H with (if ?c then _ else _) = _ => destruct c end.
      * inversion H; subst. do 3 eexists. reflexivity.
      * apply IH in H. destruct H as (l & m & c & ->). exists l, m, c. destruct s; reflexivity.
Qed.

Ltac use_frames :=
  repeat match goal with
  | H : shrink_mss _ _ _ = (_, _) |- _ => apply shrink_mss_frame in H; destruct H as (? & ? & ? & ->)
  end.
Ltac destruct_TI := repeat match goal with H : TI _ _ _ |- _ => destruct H as (? & ? & ? & ? & ? & ? & ?) end.
Ltac abs_bound := repeat match goal with |- context [bound 1000 ?x 60000] =>
  tryif is_var x then fail else (let v := fresh "bv" in set (v := x); clearbody v) end.
Ltac solveTI := solve [ use_frames; clear_bools; destruct_TI; unfold TI; gprojs; case_ifs;
                        abs_bound; unfold w32, M32, bound; repeat split; lia ].

Section Pres.
Variables ad now : Z.
Hypothesis Hnow : 0 < now.
Local Notation I := (TI ad now).
Ltac go := wp_inv (TI ad now) solveTI.

Lemma set_state_TI n : pres I (set_state n).
Proof. intros s ev Hi. unfold set_state. go. Qed.
Hint Resolve set_state_TI : c09_pres.

Lemma adjustMTU_TI : pres I adjustMTU.
Proof. intros s ev Hi. unfold adjustMTU. go. Qed.
Hint Resolve adjustMTU_TI : c09_pres.

Lemma set_state_established_TI : pres I set_state_established.
Proof. intros s ev Hi. unfold set_state_established. go. Qed.
Lemma set_state_closed_TI e : pres I (set_state_closed e).
Proof. intros s ev Hi. unfold set_state_closed. go. Qed.
Hint Resolve set_state_established_TI set_state_closed_TI : c09_pres.

Lemma queue_TI d f : pres I (queue d f).
Proof. intros s ev Hi. unfold queue. go. Qed.
Hint Resolve queue_TI : c09_pres.

Lemma queue_connect_message_TI : pres I queue_connect_message.
Proof. intros s ev Hi. unfold queue_connect_message. go. Qed.
Lemma queue_fin_message_TI : pres I queue_fin_message.
Proof. intros s ev Hi. unfold queue_fin_message. go. Qed.
Lemma queue_rst_message_TI : pres I queue_rst_message.
Proof. intros s ev Hi. unfold queue_rst_message. go. Qed.
Hint Resolve queue_connect_message_TI queue_fin_message_TI queue_rst_message_TI : c09_pres.

Lemma packet_TI seq flags off ln : pres I (packet seq flags off ln now).
Proof. intros s ev Hi. unfold packet. go. Qed.
Hint Resolve packet_TI : c09_pres.

Lemma transmit_loop_TI fuel : forall i nT, pres I (transmit_loop fuel i nT now).
Proof.
  induction fuel as [|fuel IH]; intros i nT s ev Hi; cbn [transmit_loop].
  - apply wp_fault.
  - go.
Qed.
Hint Resolve transmit_loop_TI : c09_pres.

Lemma transmit_TI i : pres I (transmit i now).
Proof. intros s ev Hi. unfold transmit. go. Qed.
Hint Resolve transmit_TI : c09_pres.

Lemma closedown_states_TI : pres I closedown_states.
Proof. intros s ev Hi. unfold closedown_states. go. Qed.
Hint Resolve closedown_states_TI : c09_pres.
Lemma closedown_remote_TI e : pres I (closedown_remote e).
Proof. intros s ev Hi. unfold closedown_remote. go. Qed.
Hint Resolve closedown_remote_TI : c09_pres.

Lemma attempt_send_loop_TI fuel : forall sf, pres I (attempt_send_loop fuel sf now).
Proof.
  induction fuel as [|fuel IH]; intros sf s ev Hi; cbn [attempt_send_loop].
  - apply wp_fault.
  - go.
Qed.
Hint Resolve attempt_send_loop_TI : c09_pres.

Lemma attempt_send_TI sf : pres I (attempt_send sf now).
Proof. intros s ev Hi. unfold attempt_send. go. Qed.
Hint Resolve attempt_send_TI : c09_pres.

Lemma closedown_TI e l : pres I (closedown e l now).
Proof. intros s ev Hi. unfold closedown. go. Qed.
Hint Resolve closedown_TI : c09_pres.

Lemma resize_receive_buffer_TI n : pres I (resize_receive_buffer n).
Proof. intros s ev Hi. unfold resize_receive_buffer. go. Qed.
Hint Resolve resize_receive_buffer_TI : c09_pres.

Lemma apply_opts_TI fuel : forall d, pres I (apply_opts fuel d).
Proof.
  induction fuel as [|fuel IH]; intros d s ev Hi; cbn [apply_opts].
  - go.
  - go.
Qed.
Hint Resolve apply_opts_TI : c09_pres.

Lemma parse_options_TI d : pres I (parse_options d).
Proof. intros s ev Hi. unfold parse_options. go. Qed.
Hint Resolve parse_options_TI : c09_pres.

Lemma recover_rlist_TI fuel : forall sf, pres I (recover_rlist fuel sf).
Proof.
  induction fuel as [|fuel IH]; intros sf s ev Hi; cbn [recover_rlist].
  - go.
  - go.
Qed.
Hint Resolve recover_rlist_TI : c09_pres.

Lemma process_TI seg : pres I (process seg now).
Proof. intros s ev Hi. unfold process. go. Qed.
Hint Resolve process_TI : c09_pres.

Lemma notify_packet_TI p : pres I (notify_packet p now).
Proof. intros s ev Hi. unfold notify_packet. go. Qed.
Lemma connect_TI : pres I (connect now).
Proof. intros s ev Hi. unfold connect. go. Qed.
Lemma notify_mtu_TI m : pres I (notify_mtu m).
Proof. intros s ev Hi. unfold notify_mtu. go. Qed.
Lemma notify_clock_TI : pres I (notify_clock now).
Proof. intros s ev Hi. unfold notify_clock. go. Qed.
Lemma get_next_clock_TI t : pres I (get_next_clock t now).
Proof. intros s ev Hi. unfold get_next_clock. go. Qed.
Lemma recv_TI n : pres I (recv n now).
Proof. intros s ev Hi. unfold recv. go. Qed.
Lemma send_TI d : pres I (send d now).
Proof. intros s ev Hi. unfold send. go. Qed.
Lemma shutdown_sock_TI h : pres I (shutdown_sock h now).
Proof. intros s ev Hi. unfold shutdown_sock. go. Qed.
Hint Resolve shutdown_sock_TI : c09_pres.
Lemma close_sock_TI f : pres I (close_sock f now).
Proof. intros s ev Hi. unfold close_sock. go. Qed.
Lemma set_rcv_buf_TI n : pres I (set_rcv_buf n).
Proof. intros s ev Hi. unfold set_rcv_buf. go. Qed.
Lemma set_snd_buf_TI n : pres I (set_snd_buf n).
Proof. intros s ev Hi. unfold set_snd_buf. go. Qed.

End Pres.

Lemma TI_mono ad now now' s : TI ad now s -> now <= now' -> TI ad now' s.
Proof. unfold TI. intuition lia. Qed.

