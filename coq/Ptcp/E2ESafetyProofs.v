(** C08, end-to-end: concrete runs of the model (computed with vm_compute).
    (1) a non-trivial run for the sender-honesty theorem: first transmission, an MTU change, two re-segmented retransmissions;
    (2) a FINDING: receiver soundness does not hold for honest data segments alone.  process() changes the connection state on a
        connect segment BEFORE the acknowledgement / round-trip checks; when that same segment is then rejected ("Invalid RTT",
        pseudotcp.c) rcv_nxt stays 0 although the socket is ESTABLISHED.  Data is then buffered at offsets computed with rcv_nxt = 0,
        a retransmitted connect segment advances rcv_nxt by 7 without moving the FIFO, and a re-segmented retransmission followed by
        the recovery of the stored segment hands bytes to [recv] that the peer never wrote at that position.
    The model is untouched. *)
From Coq Require Import ZArith List Bool.
From Nice Require Import Base.Bytes Ptcp.PtcpModel Ptcp.PtcpProofs Ptcp.SockOps Ptcp.SenderInvProofs.
Import ListNotations.
Local Open Scope Z_scope.

Definition mkpkt (cv seq ack flags wnd tsval tsecr : Z) (data : bytes) : bytes :=
  be32b cv ++ be32b seq ++ be32b ack ++ [0; flags] ++ setw wnd ++ be32b tsval ++ be32b tsecr ++ data.

(* the peer's connect message and application bytes *)
Definition peer_ctl : bytes := [0; 3; 1; 0; 254; 1; 0].
Definition peer_app : bytes := [65; 66; 67; 68; 69; 70; 71; 72; 73; 74].

(** (1) *)
Definition msg25 : bytes :=
  [101; 102; 103; 104; 105; 106; 107; 108; 109; 110; 111; 112; 113; 114; 115; 116; 117; 118; 119; 120; 121; 122; 123; 124; 125].
Definition ops_sender : list op :=
  [ OConnect 1000; OPacket (mkpkt 7 0 7 2 61440 1000 1000 peer_ctl) 1001; OSend msg25 1002; OMtu 126; OClock 5000; OClock 12000;
    OSend [1; 2; 3] 12001 ].
Definition data_pkts (ev : list event) : list (Z * bytes) :=
  flat_map (fun e => match e with
                     | EvPacket p => if negb (pkt_ctl p) && (0 <? len (pkt_payload p)) then [(pkt_seq p, pkt_payload p)] else []
                     | _ => [] end) ev.

Lemma sender_run_nontrivial :
  match run (start (sock_init 7)) ops_sender with
  | Ok t => (t_written t, data_pkts (t_ev t))
  | Fault => ([], [])
  end = (msg25 ++ [1; 2; 3], [(7, msg25); (7, firstn 10 msg25); (7, firstn 10 msg25)]).
Proof. vm_compute. reflexivity. Qed.

(** (2) every data segment below is the slice of [peer_ctl ++ peer_app] at its sequence number; only the timestamp echo of the first
    connect segment lies in the future of the local clock *)
Definition ops_bad_timestamp : list op :=
  [ OConnect 1000;
    OPacket (mkpkt 7 0 7 2 61440 1000 2000 peer_ctl) 1001;             (* connect reply, acks ours, tsecr = 2000 > now *)
    OPacket (mkpkt 7 7 7 0 61440 1002 0 peer_app) 1002;                 (* data, seq 7 *)
    OPacket (mkpkt 7 0 7 2 61440 1003 0 peer_ctl) 1003;                 (* the connect segment again *)
    OPacket (mkpkt 7 7 7 0 61440 1004 0 (firstn 4 peer_app)) 1004;      (* retransmission of the first 4 data bytes *)
    ORecv 100 1005 ].

Lemma honest_data_bad_timestamp_corrupts_the_stream :
  match run (start (sock_init 7)) ops_bad_timestamp with
  | Ok t => (t_read t, state (t_sock t))
  | Fault => ([], CLOSED)
  end = ([65; 66; 67; 68; 0; 0; 0; 65; 66; 67], ESTABLISHED).
Proof. vm_compute. reflexivity. Qed.

(* ... which is not a prefix of what the peer wrote *)
Lemma corrupted_not_a_prefix : forall k, [65; 66; 67; 68; 0; 0; 0; 65; 66; 67] <> firstn k peer_app.
Proof.
  intros k H. do 5 (destruct k as [|k]; [discriminate H|]). cbn in H. discriminate H.
Qed.
