(** C09: exact effect of the sending primitives ([packet], [transmit_loop], [transmit], [closedown]) on the
    fields that the clock logic of [notify_clock] / [get_next_clock] reads, and on the emitted events. *)
From Coq Require Import ZArith List Lia Bool ZifyBool.
From RecordUpdate Require Import RecordSet.
From Nice Require Import Base.Bytes Ptcp.PtcpModel Ptcp.C09Hoare.
Import ListNotations.
Import RecordSetNotations.
Local Open Scope Z_scope.
Local Open Scope bool_scope.
Ltac Zify.zify_post_hook ::= Z.div_mod_to_equations.

Ltac sprojs := cbn [set shutdown shutdown_reads error state conv bReadEnable bWriteEnable bOutgoing last_traffic rlist rbuf_len rcv_nxt rcv_wnd lastrecv rwnd_scale rbuf rcv_fin slist sbuf_len snd_nxt snd_wnd lastsend snd_una swnd_scale sbuf_cap sbuf sbuf_n mss msslevel largest mtu_advise rto_base ts_recent ts_lastack rx_rttvar rx_srtt rx_rto ssthresh cwnd dup_acks recover fast_recovery t_ack last_acked_ts use_nagling ack_delay support_wnd_scale support_fin_ack wr_limit].
Ltac sprojs_in H := cbn [set shutdown shutdown_reads error state conv bReadEnable bWriteEnable bOutgoing last_traffic rlist rbuf_len rcv_nxt rcv_wnd lastrecv rwnd_scale rbuf rcv_fin slist sbuf_len snd_nxt snd_wnd lastsend snd_una swnd_scale sbuf_cap sbuf sbuf_n mss msslevel largest mtu_advise rto_base ts_recent ts_lastack rx_rttvar rx_srtt rx_rto ssthresh cwnd dup_acks recover fast_recovery t_ack last_acked_ts use_nagling ack_delay support_wnd_scale support_fin_ack wr_limit] in H.

(** ---- 32-bit time arithmetic without wrap ---- *)
Definition HALF : Z := 2147483648.
Lemma w32_id x : 0 <= x < M32 -> w32 x = x.
Proof. unfold w32, M32. intros. lia. Qed.
Lemma s32_small x : 0 <= x < HALF -> s32 x = x.
Proof. unfold s32, M32, HALF. intros. replace (x mod 4294967296) with x by lia. replace (x <? 2147483648) with true by lia. reflexivity. Qed.
Lemma s32_neg x : 0 < x <= HALF -> s32 (- x) = - x.
Proof.
  unfold s32, M32, HALF. intros. replace ((- x) mod 4294967296) with (4294967296 - x) by lia.
  replace (4294967296 - x <? 2147483648) with false by lia. lia.
Qed.
Lemma time_diff_exact a b : 0 <= a < M32 -> 0 <= b < M32 -> - HALF < a - b < HALF -> time_diff a b = a - b.
Proof.
  intros Ha Hb Hd. unfold time_diff, time_is_between.
  assert (W : w32 (b + 2147483648) = if b <? 2147483648 then b + 2147483648 else b - 2147483648).
  { unfold w32, M32 in *. destruct (b <? 2147483648) eqn:E; lia. }
  rewrite W. unfold M32, HALF in *.
  destruct (b <=? a) eqn:E1.
  - assert (C : (if b <=? (if b <? 2147483648 then b + 2147483648 else b - 2147483648)
                 then true && (a <=? (if b <? 2147483648 then b + 2147483648 else b - 2147483648))
                 else negb (((if b <? 2147483648 then b + 2147483648 else b - 2147483648) <? a) && (a <? b))) = true).
    { destruct (b <? 2147483648) eqn:E3.
      - replace (b <=? b + 2147483648) with true by lia. lia.
      - replace (b <=? b - 2147483648) with false by lia. lia. }
    rewrite C. rewrite (w32_id (a - b)) by (unfold M32; lia). apply s32_small. unfold HALF. lia.
  - assert (C : (if b <=? (if b <? 2147483648 then b + 2147483648 else b - 2147483648)
                 then false && (a <=? (if b <? 2147483648 then b + 2147483648 else b - 2147483648))
                 else negb (((if b <? 2147483648 then b + 2147483648 else b - 2147483648) <? a) && (a <? b))) = false).
    { destruct (b <? 2147483648) eqn:E3.
      - replace (b <=? b + 2147483648) with true by lia. reflexivity.
      - replace (b <=? b - 2147483648) with false by lia. lia. }
    rewrite C. replace (a <=? b) with true by lia. rewrite (w32_id (b - a)) by (unfold M32; lia).
    rewrite s32_neg by (unfold HALF; lia). lia.
Qed.


(** ---- the head of the segment queue ---- *)
Definition hdx (l : list sseg) : Z := match l with [] => 0 | g :: _ => ss_xmit g end.
Definition hdseq (l : list sseg) : Z := match l with [] => 0 | g :: _ => ss_seq g end.

Lemma hdx_set_nth_0 l x : l <> [] -> hdx (set_nth_seg l 0 x) = ss_xmit x.
Proof. destruct l; [congruence|reflexivity]. Qed.
Lemma hdx_set_nth_S l k x : hdx (set_nth_seg l (S k) x) = hdx l.
Proof. destruct l; reflexivity. Qed.
Lemma hdx_insert_after l i x : l <> [] -> hdx (insert_after l i x) = hdx l.
Proof. destruct l; [congruence|]. destruct i; reflexivity. Qed.
Lemma set_nth_nonempty l i x : l <> [] -> set_nth_seg l i x <> [].
Proof. destruct l; [congruence|]. destruct i; cbn; congruence. Qed.
Lemma insert_after_nonempty l i x : insert_after l i x <> [].
Proof. destruct l; [cbn; congruence|]. destruct i; cbn; congruence. Qed.
Lemma hdseq_set_nth_S l k x : hdseq (set_nth_seg l (S k) x) = hdseq l.
Proof. destruct l; reflexivity. Qed.
Lemma hdseq_insert_after l i x : l <> [] -> hdseq (insert_after l i x) = hdseq l.
Proof. destruct l; [congruence|]. destruct i; reflexivity. Qed.
Lemma nth_error_nonempty {A} (l : list A) i x : nth_error l i = Some x -> l <> [].
Proof. destruct l; [destruct i; discriminate|congruence]. Qed.

(** ---- fields no sending primitive touches ---- *)
Definition same_ctl (s s' : sock) : Prop :=
  state s' = state s /\ rx_rto s' = rx_rto s /\ snd_wnd s' = snd_wnd s /\ lastrecv s' = lastrecv s /\
  shutdown s' = shutdown s /\ support_fin_ack s' = support_fin_ack s /\ ack_delay s' = ack_delay s /\
  snd_una s' = snd_una s /\ conv s' = conv s /\ wr_limit s' = wr_limit s.
(* frame of [packet] and [transmit_loop] *)
Definition pfr (now : Z) (s s' : sock) : Prop :=
  same_ctl s s' /\ slist s' = slist s /\ snd_nxt s' = snd_nxt s /\ rto_base s' = rto_base s /\
  (lastsend s' = lastsend s \/ lastsend s' = now) /\ (t_ack s' = t_ack s \/ t_ack s' = 0).

Lemma same_ctl_refl s : same_ctl s s. Proof. unfold same_ctl. tauto. Qed.
Lemma same_ctl_trans a b c : same_ctl a b -> same_ctl b c -> same_ctl a c.
Proof. unfold same_ctl. intuition congruence. Qed.
Lemma pfr_refl now s : pfr now s s. Proof. unfold pfr. pose proof (same_ctl_refl s). tauto. Qed.
Lemma pfr_trans now a b c : pfr now a b -> pfr now b c -> pfr now a c.
Proof.
  unfold pfr. intros (H1 & H2 & H3 & H4 & H5 & H6) (G1 & G2 & G3 & G4 & G5 & G6).
  split; [eapply same_ctl_trans; eauto|]. repeat split; try congruence; intuition congruence.
Qed.

(* a packet carrying sequence number [seq] of conversation [cv] *)
Definition pkt_has_seq (cv seq : Z) (p : bytes) : Prop := exists tail, p = be32b cv ++ be32b seq ++ tail.

(** ---- packet ---- *)
Lemma packet_spec seq flags off ln now s ev :
  wp (packet seq flags off ln now) s ev (fun w s' ev' =>
    pfr now s s' /\
    (ln = 0 -> w = WR_SUCCESS /\ t_ack s' = 0) /\
    (w = WR_SUCCESS -> 0 < ln -> lastsend s' = now /\ t_ack s' = 0) /\
    (mss s' = mss s /\ msslevel s' = msslevel s /\ cwnd s' = cwnd s) /\
    (24 + ln <= wr_limit s -> w = WR_SUCCESS /\ exists p, ev' = ev ++ [EvPacket p] /\ pkt_has_seq (conv s) seq p) /\
    (wr_limit s < 24 + ln -> ev' = ev /\ (w = WR_SUCCESS -> ln = 0))).
Proof.
  unfold packet. repeat wp_split.
  all: repeat match goal with H : context [if ?b then _ else _] |- _ => destruct b eqn:? end; try discriminate.
  all: repeat match goal with |- context [if ?b then _ else _] => destruct b eqn:? end.
  all: unfold pfr, same_ctl; sprojs.
  all: (split; [tauto|]); (split; [intros; split; (reflexivity || lia)|]).
  all: (split; [intros; try (split; (reflexivity || lia)); try discriminate; try lia|]); (split; [tauto|]).
  all: split; intros; try lia.
  all: try (split; [reflexivity|intros; try discriminate; lia]).
  all: split; [reflexivity|]; eexists; split; [reflexivity|]; eexists; rewrite <- !app_assoc; reflexivity.
Qed.

Lemma shrink_mss_pfr now s n : forall s1 nT s2 o, shrink_mss n s1 nT = (s2, o) -> pfr now s s1 -> pfr now s s2.
Proof.
  induction n as [|n IHn]; intros s1 nT s2 o Es F1; cbn [shrink_mss] in Es.
  - inversion Es; subst. exact F1.
  - destruct (nthz PACKET_MAXIMUMS (msslevel s1 + 1) =? 0); [inversion Es; subst; exact F1|].
    match type of Es with (if ?c then _ else _) = _ => destruct c end.
    + inversion Es; subst. unfold pfr, same_ctl in *. sprojs. exact F1.
    + eapply IHn; [exact Es|]. unfold pfr, same_ctl in *. sprojs. exact F1.
Qed.

(** ---- transmit_loop: the frame of [packet]; on success the segment went out ---- *)
Lemma transmit_loop_spec now fuel : forall i nT s ev,
  wp (transmit_loop fuel i nT now) s ev (fun r s' ev' =>
    pfr now s s' /\ exists l, ev' = ev ++ l /\
    (fst r = 0 -> exists sg, nth_error (slist s) i = Some sg /\
       (24 <= wr_limit s -> exists p, In (EvPacket p) l /\ pkt_has_seq (conv s) (ss_seq sg) p))).
Proof.
  induction fuel as [|fuel IH]; intros i nT s ev; cbn [transmit_loop]; [apply wp_fault|].
  wp_split. destruct (nth_error (slist s) i) as [sg|] eqn:En; [|apply wp_fault].
  wp_split. eapply wp_bind_cut; [apply packet_spec|]. cbv beta.
  intros w s1 ev1 (F1 & _ & _ & _ & P1 & P2).
  destruct w; cbv match.
  - wp_split. split; [exact F1|].
    destruct (Z_le_gt_dec (24 + nT) (wr_limit s)) as [Hle|Hgt].
    + destruct (P1 Hle) as (_ & p & -> & Hp). exists [EvPacket p]. split; [reflexivity|].
      intros _. exists sg. split; [reflexivity|]. intros _. exists p. split; [left; reflexivity|exact Hp].
    + destruct (P2 ltac:(lia)) as (-> & Hz). exists []. split; [symmetry; apply app_nil_r|].
      intros _. exists sg. split; [reflexivity|]. intros Hw. specialize (Hz eq_refl). lia.
  - wp_split. destruct (shrink_mss 12 s1 nT) as [s2 [nt|]] eqn:Es.
    + wp_split. eapply wp_conseq; [apply IH|]. cbv beta.
      intros r s3 ev3 (F3 & l3 & -> & H3).
      assert (F2 : pfr now s s2) by (eapply shrink_mss_pfr; eauto).
      split; [eapply pfr_trans; eauto|].
      assert (El : exists l1, ev1 = ev ++ l1).
      { destruct (Z_le_gt_dec (24 + nT) (wr_limit s)) as [Hle|Hgt].
        - destruct (P1 Hle) as (_ & p & -> & _). eexists; reflexivity.
        - destruct (P2 ltac:(lia)) as (-> & _). exists []. symmetry; apply app_nil_r. }
      destruct El as (l1 & ->). exists (l1 ++ l3). split; [rewrite app_assoc; reflexivity|].
      intros Hr. destruct (H3 Hr) as (sg' & Hn & Hp).
      destruct F2 as (C2 & S2 & _). rewrite S2, En in Hn. inversion Hn; subst sg'. exists sg. split; [reflexivity|].
      intros Hw. destruct C2 as (_ & _ & _ & _ & _ & _ & _ & _ & Cv & Wl). rewrite Wl, Cv in Hp.
      destruct (Hp Hw) as (p & Hin & Hs). exists p. split; [apply in_or_app; right; exact Hin|exact Hs].
    + wp_split. wp_split. split.
      * eapply shrink_mss_pfr; eauto.
      * destruct (Z_le_gt_dec (24 + nT) (wr_limit s)) as [Hle|Hgt].
        -- destruct (P1 Hle) as (_ & p & -> & _). eexists; split; [reflexivity|]. cbn [fst]. unfold EMSGSIZE. intros; lia.
        -- destruct (P2 ltac:(lia)) as (-> & _). exists []. split; [symmetry; apply app_nil_r|]. cbn [fst]. unfold EMSGSIZE. intros; lia.
  - wp_split. split; [exact F1|].
    destruct (Z_le_gt_dec (24 + nT) (wr_limit s)) as [Hle|Hgt].
    + destruct (P1 Hle) as (_ & p & -> & _). eexists; split; [reflexivity|]. cbn [fst]. unfold ECONNABORTED. intros; lia.
    + destruct (P2 ltac:(lia)) as (-> & _). exists []. split; [symmetry; apply app_nil_r|]. cbn [fst]. unfold ECONNABORTED. intros; lia.
Qed.

(** ---- transmit ---- *)
Definition xlimit (s : sock) : Z := if st_eqb (state s) ESTABLISHED then 15 else 30.

Lemma transmit_spec i now s ev :
  wp (transmit i now) s ev (fun st s' ev' =>
    exists sg l, nth_error (slist s) i = Some sg /\ ev' = ev ++ l /\ same_ctl s s' /\
    (lastsend s' = lastsend s \/ lastsend s' = now) /\ (t_ack s' = t_ack s \/ t_ack s' = 0) /\
    (xlimit s <= ss_xmit sg -> st = ETIMEDOUT) /\
    ((st <> 0 /\ slist s' = slist s /\ snd_nxt s' = snd_nxt s /\ rto_base s' = rto_base s)
     \/
     (st = 0 /\ ss_xmit sg < xlimit s /\
      rto_base s' = (if rto_base s =? 0 then now else rto_base s) /\
      slist s' <> [] /\
      (i = O -> hdx (slist s') = (ss_xmit sg + 1) mod 256 /\ hdseq (slist s') = ss_seq sg) /\
      (i <> O -> hdx (slist s') = hdx (slist s) /\ hdseq (slist s') = hdseq (slist s)) /\
      (ss_xmit sg <> 0 -> snd_nxt s' = snd_nxt s) /\
      (24 <= wr_limit s -> exists p, In (EvPacket p) l /\ pkt_has_seq (conv s) (ss_seq sg) p)))).
Proof.
  unfold transmit. wp_split. destruct (nth_error (slist s) i) as [sg|] eqn:En; [|apply wp_fault].
  fold (xlimit s).
  destruct (ss_xmit sg >=? xlimit s) eqn:Ex.
  - wp_split. exists sg, []. rewrite app_nil_r.
    split; [reflexivity|]. split; [reflexivity|]. split; [apply same_ctl_refl|].
    split; [tauto|]. split; [tauto|]. split; [reflexivity|]. left. unfold ETIMEDOUT. repeat split; lia.
  - eapply wp_bind_cut; [apply transmit_loop_spec|]. cbv beta.
    intros [status nT'] s2 ev2 (F & l & -> & Hs). cbv match. cbn [fst] in Hs.
    destruct F as (C & Sl & Nx & Rb & Ls & Ta).
    destruct (negb (status =? 0)) eqn:Est.
    + wp_split. exists sg, l. repeat (split; [first [reflexivity|assumption|lia]|]).
      left. repeat split; (assumption || lia).
    + assert (status = 0) by lia. subst status. specialize (Hs eq_refl).
      destruct Hs as (sg' & Hn & Hp). rewrite En in Hn. inversion Hn; subst sg'; clear Hn.
      pose proof (nth_error_nonempty _ _ _ En) as Hne. rewrite <- Sl in Hne.
      wp_split.
      set (sl := if nT' <? ss_len sg then _ else slist s2).
      set (sg1 := if nT' <? ss_len sg then _ else sg).
      assert (Hx1 : ss_xmit sg1 = ss_xmit sg) by (unfold sg1; destruct (nT' <? ss_len sg); reflexivity).
      assert (Hq1 : ss_seq sg1 = ss_seq sg) by (unfold sg1; destruct (nT' <? ss_len sg); reflexivity).
      assert (Hsl : sl <> []).
      { unfold sl. destruct (nT' <? ss_len sg); [apply insert_after_nonempty|exact Hne]. }
      assert (Hh0 : i <> O -> hdx sl = hdx (slist s2) /\ hdseq sl = hdseq (slist s2)).
      { intros Hi. destruct i as [|k]; [congruence|]. unfold sl. destruct (nT' <? ss_len sg); [|tauto].
        rewrite hdx_insert_after, hdseq_insert_after by (apply set_nth_nonempty; exact Hne).
        rewrite hdx_set_nth_S, hdseq_set_nth_S. tauto. }
      eapply wp_bind_cut with (R := fun _ s3 ev3 => s3 = s2 /\ ev3 = ev ++ l).
      { destruct (ss_xmit sg1 =? 0); repeat wp_split; tauto. }
      intros _ s3 ev3 (-> & ->). repeat wp_split. sprojs.
      exists sg, l. split; [reflexivity|]. split; [reflexivity|].
      split; [unfold same_ctl in *; sprojs; exact C|]. split; [exact Ls|]. split; [exact Ta|].
      split; [lia|]. right. split; [reflexivity|]. split; [lia|].
      split; [rewrite Rb; reflexivity|].
      split; [apply set_nth_nonempty; exact Hsl|].
      split.
      { intros ->. rewrite hdx_set_nth_0 by exact Hsl. sprojs. rewrite Hx1. split; [reflexivity|].
        destruct sl; [congruence|]. cbn. exact Hq1. }
      split.
      { intros Hi. destruct (Hh0 Hi) as (A1 & A2). destruct i as [|k]; [congruence|].
        rewrite hdx_set_nth_S, hdseq_set_nth_S, A1, A2, Sl. tauto. }
      split.
      { intros Hnz. rewrite Hx1. replace (ss_xmit sg =? 0) with false by lia. exact Nx. }
      destruct C as (_ & _ & _ & _ & _ & _ & _ & _ & Cv & Wl). exact Hp.
Qed.

Lemma wp_true {A} (m : M A) s ev : wp m s ev (fun _ _ _ => True).
Proof. unfold wp. destruct (m s ev) as [[[? ?] ?]|]; exact I. Qed.

(** ---- closing: [closedown] always ends CLOSED, and reports a non-zero error to the owner ---- *)
Lemma set_state_spec n s ev : wp (set_state n) s ev (fun _ s' ev' => state s' = n /\ ev' = ev /\ s' = s <| state := n |>).
Proof.
  unfold set_state. wp_split. destruct (st_eqb (state s) n) eqn:E.
  - wp_split. assert (state s = n).
    { unfold st_eqb in E. destruct (state s), n; cbn in E; try reflexivity; discriminate. }
    subst n. split; [reflexivity|]. split; [reflexivity|]. destruct s; reflexivity.
  - repeat wp_split. tauto.
Qed.

Lemma set_state_closed_spec e s ev :
  wp (set_state_closed e) s ev (fun _ s' ev' => state s' = CLOSED /\ s' = s <| state := CLOSED |> /\
     ((e = 0 /\ ev' = ev) \/ (e <> 0 /\ ev' = ev ++ [EvClosed e]))).
Proof.
  unfold set_state_closed. eapply wp_bind_cut; [apply set_state_spec|]. cbv beta.
  intros _ s1 ev1 (H1 & -> & H3). apply wp_when; intros E.
  - wp_split. split; [exact H1|]. split; [exact H3|]. right. split; [lia|reflexivity].
  - split; [exact H1|]. split; [exact H3|]. left. split; [lia|reflexivity].
Qed.

Definition closed_err (s : sock) (ev : list event) : Prop :=
  state s = CLOSED /\ exists e, e <> 0 /\ In (EvClosed e) ev.

Lemma closedown_spec e l now s ev :
  wp (closedown e l now) s ev (fun _ s' ev' => state s' = CLOSED /\ (e <> 0 -> In (EvClosed e) ev')).
Proof.
  unfold closedown. wp_split.
  eapply wp_bind_cut with (R := fun _ _ _ => True).
  { apply wp_true. }
  intros _ s1 ev1 _.
  eapply wp_bind_cut with (R := fun _ _ _ => True).
  { apply wp_true. }
  intros _ s2 ev2 _. eapply wp_conseq; [apply set_state_closed_spec|]. cbv beta.
  intros _ s3 ev3 (H1 & _ & [(H2 & ->)|(H2 & ->)]); (split; [exact H1|]); intros; [lia|].
  apply in_or_app. right. left. reflexivity.
Qed.

Lemma closedown_states_events s ev : wp closedown_states s ev (fun _ _ ev' => ev' = ev).
Proof.
  unfold closedown_states. wp_split.
  destruct (state s); cbv match; try (wp_split; reflexivity);
    repeat (eapply wp_bind_cut; [apply set_state_spec|]; cbv beta; intros _ ? ? (_ & -> & _));
    try (eapply wp_conseq; [apply set_state_spec|]; cbv beta; intros _ ? ? (_ & -> & _); reflexivity).
Qed.

Lemma closedown_remote_spec e s ev :
  wp (closedown_remote e) s ev (fun _ s' ev' => state s' = CLOSED /\ extends ev ev' /\ (e <> 0 -> In (EvClosed e) ev')).
Proof.
  unfold closedown_remote.
  eapply wp_bind_cut; [apply closedown_states_events|]. cbv beta.
  intros _ s2 ev2 ->. eapply wp_conseq; [apply set_state_closed_spec|]. cbv beta.
  intros _ s3 ev3 (H1 & _ & [(H2 & ->)|(H2 & ->)]); (split; [exact H1|]).
  - split; [apply extends_refl|]. intros; lia.
  - split; [apply extends_snoc|]. intros _. apply in_or_app. right. left. reflexivity.
Qed.
