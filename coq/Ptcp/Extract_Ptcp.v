From Coq Require Import ZArith List.
From Coq Require Extraction ExtrOcamlBasic.
From Nice Require Import Base.Bytes Ptcp.PtcpModel.
Extraction Language OCaml.
Extraction "../ocaml/gen/ptcp_model.ml"
  sock_init run connect send recv shutdown_sock close_sock notify_clock get_next_clock notify_mtu notify_packet
  set_rcv_buf set_snd_buf st_num len.
