(** C09, part 3: the BACK-OFF SHAPE of a silent run (derived from the model, not from RFC 6298):
    with an open peer window, after the k-th time-out retransmission of a silent run the retransmission time-out is
    [backoff cap rto0 k] where [cap] is 1000 ms while connecting (state < ESTABLISHED) and 60000 ms afterwards:
    i.e. min (60000, rto0 * 2^k) once established, and constantly 1000 ms while connecting;
    every one of these retransmissions re-sends the segment at the head of the send queue. *)
From Coq Require Import ZArith List Lia Bool ZifyBool.
From RecordUpdate Require Import RecordSet.
From Nice Require Import Base.Bytes Ptcp.PtcpModel Ptcp.C09Hoare Ptcp.SendSpecs Ptcp.SilenceArith Ptcp.SilenceProofs Ptcp.ClockRound Ptcp.SilenceRun.
Import ListNotations.
Import RecordSetNotations.
Local Open Scope Z_scope.
Local Open Scope bool_scope.

Fixpoint backoff (cap r : Z) (k : nat) : Z :=
  match k with O => r | S k' => Z.min cap (2 * backoff cap r k') end.

Lemma backoff_established r k : 1000 <= r <= 60000 -> backoff 60000 r k = Z.min 60000 (r * 2 ^ Z.of_nat k).
Proof.
  intros Hr. induction k as [|k IH].
  - cbn [backoff]. change (2 ^ Z.of_nat 0) with 1. lia.
  - cbn [backoff]. rewrite IH. rewrite Nat2Z.inj_succ, Z.pow_succ_r by lia.
    assert (0 < 2 ^ Z.of_nat k) by (apply Z.pow_pos_nonneg; lia). nia.
Qed.

Lemma backoff_connecting r k : 1000 <= r -> backoff 1000 r (S k) = 1000.
Proof.
  intros Hr. induction k as [|k IH].
  - cbn [backoff]. lia.
  - change (backoff 1000 r (S (S k))) with (Z.min 1000 (2 * backoff 1000 r (S k))). rewrite IH. lia.
Qed.

(* number of packets of conversation [cv] with sequence number [seq] among the events *)
Inductive has_packets (cv seq : Z) : nat -> list event -> Prop :=
| hp_zero l : has_packets cv seq 0 l
| hp_more k l1 p l2 : pkt_has_seq cv seq p -> has_packets cv seq k l2 -> has_packets cv seq (S k) (l1 ++ EvPacket p :: l2).

Lemma has_packets_app cv seq k l0 l : has_packets cv seq k l -> has_packets cv seq k (l0 ++ l).
Proof.
  intros Hh. destruct Hh as [l|k l1 p l2 Hp Hh]; [constructor|].
  rewrite app_assoc. constructor; assumption.
Qed.

(* a silent run (as [silent_run]) that counts the rounds in which the retransmission timer was due *)
Inductive silent_run_k (H : Z) : sock -> Z -> nat -> sock -> Z -> list event -> Prop :=
| srk_done s now : silent_run_k H s now 0 s now []
| srk_round s now t s0 ev0 now' s1 ev1 k s2 now2 evs :
    get_next_clock 0 now s [] = Ok (Some t, s0, ev0) ->
    now <= now' -> t <= now' -> now' <= H ->
    notify_clock now' s0 [] = Ok (tt, s1, ev1) ->
    silent_run_k H s1 now' k s2 now2 evs ->
    silent_run_k H s now ((if rto_base s0 + rx_rto s0 <=? now' then 1 else 0) + k) s2 now2 (ev0 ++ ev1 ++ evs).

Lemma silent_run_k_forget H s now k s' now' evs :
  silent_run_k H s now k s' now' evs -> exists n, silent_run H s now n s' now' evs.
Proof.
  induction 1 as [|s now t s0 ev0 now' s1 ev1 k s2 now2 evs Hg H1 H2 H3 Hn Hr (n & IH)].
  - exists O. constructor.
  - exists (S n). econstructor; eauto.
Qed.

Theorem backoff_shape H s now k s' now' evs :
  silent_run_k H s now k s' now' evs ->
  G s now H -> plain_open s -> snd_wnd s <> 0 -> state s' <> CLOSED ->
  rx_rto s' = backoff (rto_cap s) (rx_rto s) k /\
  hdseq (slist s') = hdseq (slist s) /\
  (24 <= wr_limit s -> has_packets (conv s) (hdseq (slist s)) k evs).
Proof.
  induction 1 as [|s now t s0 ev0 now' s1 ev1 k s2 now2 evs Hg H1 H2 H3 Hn Hr IH]; intros HG Hp Hw Hopen.
  - cbn [backoff]. split; [reflexivity|]. split; [reflexivity|]. intros _. constructor.
  - rewrite (get_next_clock_G _ _ _ _ HG) in Hg. inversion Hg; subst t s0 ev0. clear Hg. cbn [app].
    pose proof (wp_elim _ _ _ _ _ _ _ (silent_round s now H now' HG (conj H1 H3) H2) Hn) as Hround. cbv beta in Hround.
    destruct (silent_run_k_forget _ _ _ _ _ _ _ Hr) as (n & Hr').
    destruct Hround as [(Hc & _)|(HG1 & _)]; [exfalso; apply Hopen; eapply closed_run; eauto|].
    assert (HGT : GT s now' H).
    { destruct HG as (_ & _ & _ & _ & Hrx & Had & (Hn0 & HH & Hrb & Hb1 & Hls & Hlr & Hta & Hw0 & Ht)).
      unfold GT, clock_ok. repeat split; try assumption; try lia. }
    pose proof (wp_elim _ _ _ _ _ _ _ (notify_clock_open now' H s Hp HGT) Hn) as Hd. cbv beta in Hd.
    destruct Hd as [((Hc & _) & _)|(rx1 & ls1 & ta1 & ls2 & ta2 & K & _ & R1 & R0 & _ & P0 & _)];
      [exfalso; apply Hopen; eapply closed_run; eauto|].
    destruct P0 as (_ & Erx & _); [tauto|].
    destruct K as (Kst & Ksh & Kfa & Kad & Ksw & Klr & Kcv & Kwl).
    assert (Hp1 : plain_open s1) by (unfold plain_open in *; rewrite Kst, Kfa; exact Hp).
    assert (Hw1 : snd_wnd s1 <> 0) by (rewrite Ksw; exact Hw).
    destruct (IH HG1 Hp1 Hw1 Hopen) as (I1 & I2 & I3).
    assert (Hcap : rto_cap s1 = rto_cap s) by (unfold rto_cap; rewrite Kst; reflexivity).
    rewrite Hcap, Kcv, Kwl in *.
    destruct HG as (_ & _ & _ & Hrb0 & _).
    destruct (rto_base s + rx_rto s <=? now') eqn:Edue.
    + assert (Hdue : rto_base s + rx_rto s <= now') by (apply Z.leb_le; exact Edue).
      destruct (R1 (conj Hrb0 Hdue)) as (_ & _ & Eq & _ & E5 & _ & _ & E8).
      rewrite I1, I2, Eq, Erx, E5. change (1 + k)%nat with (S k).
      split; [|split; [reflexivity|]].
      * clear. revert k. assert (G : forall k c r, backoff c (Z.min c (2 * r)) k = backoff c r (S k)).
        { induction k as [|k IHk]; intros c r; [reflexivity|]. cbn [backoff]. rewrite IHk. reflexivity. }
        intros k. apply G.
      * intros Hwl. destruct (E8 Hwl) as (p & Hin & Hs). rewrite Eq in I3.
        destruct (in_split _ _ Hin) as (la & lb & ->). rewrite <- app_assoc. cbn [app].
        constructor; [exact Hs|]. apply has_packets_app. exact (I3 Hwl).
    + assert (Hnd : now' < rto_base s + rx_rto s) by (apply Z.leb_gt; exact Edue).
      destruct (R0 (or_intror Hnd)) as (Esl & _ & E3 & _).
      rewrite I1, I2, Esl, Erx, E3. change (0 + k)%nat with k.
      split; [reflexivity|]. split; [reflexivity|].
      intros Hwl. rewrite Esl in I3. apply has_packets_app. exact (I3 Hwl).
Qed.
