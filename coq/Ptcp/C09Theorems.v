(** C09: the theorems about reachable sockets, assembled from the timer invariant ([TimerReachProofs]), the stage
    analysis of [notify_clock] ([ClockRound]), the silent-run measure ([SilenceRun]) and the back-off shape. *)
From Coq Require Import ZArith List Lia Bool ZifyBool.
From RecordUpdate Require Import RecordSet.
From Nice Require Import Base.Bytes Ptcp.PtcpModel Ptcp.C09Hoare Ptcp.TimerInvProofs Ptcp.TimerReachProofs
  Ptcp.SendSpecs Ptcp.SilenceArith Ptcp.SilenceProofs Ptcp.ClockRound Ptcp.SilenceRun Ptcp.BackoffProofs.
Import ListNotations.
Import RecordSetNotations.
Local Open Scope Z_scope.
Local Open Scope bool_scope.

(** NO WRAP up to the horizon [H] (the latest clock value of the run under consideration): [H + 120 s < 2^32], and every
    time stamp that the clock logic compares with the clock is less than 2^31 - 120 s older than [H] *)
Definition nowrap (s : sock) (H : Z) : Prop :=
  H + 120000 < M32 /\
  (rto_base s <> 0 -> H - rto_base s < BND) /\
  (snd_wnd s = 0 -> H - lastsend s < BND /\ H - lastrecv s < BND) /\
  (t_ack s <> 0 -> H - t_ack s < BND).

(* in particular: any horizon below 2^31 - 120 s *)
Lemma nowrap_below_half c t0 s H : reach c t0 s -> H + 120000 < HALF -> nowrap s H.
Proof.
  intros Hr HH. pose proof (reach_TI _ _ _ Hr) as (_ & _ & Hb & Hl & Hlr & Ht & _).
  unfold nowrap, BND, HALF, M32 in *. repeat split; intros; lia.
Qed.

Lemma reach_GT c t0 s now H :
  reach c t0 s -> 0 <= c_ack_delay c <= 60000 -> t0 <= now -> 0 < now <= H -> nowrap s H -> GT s now H.
Proof.
  intros Hr Had Ht0 Hn (HH & N1 & N2 & N3).
  pose proof (reach_TI _ _ _ Hr) as (_ & Hrx & Hb & Hl & Hlr & Ht & Hd).
  unfold GT, clock_ok. rewrite Hd. repeat split; try assumption; try lia; try (apply N2; assumption).
Qed.

Lemma reach_G c t0 s now H :
  reach c t0 s -> 0 <= c_ack_delay c <= 60000 -> t0 <= now -> 0 < now <= H -> nowrap s H ->
  snd_una s <> snd_nxt s -> state s <> CLOSED -> state s <> TIME_WAIT -> shutdown s = SD_NONE -> G s now H.
Proof.
  intros Hr Had Ht0 Hn Hw Hfl Hc Htw Hsh.
  pose proof (reach_GT _ _ _ _ _ Hr Had Ht0 Hn Hw) as (G1 & G2 & G3).
  unfold G. split; [exact Hc|]. split; [exact Htw|]. split; [exact Hsh|]. split; [exact (timer_armed _ _ _ Hr Hfl)|].
  split; [exact G1|]. split; [exact G2|exact G3].
Qed.

(** 1. TIMER ARMED, and the clock interface names its expiry *)
Theorem armed_and_named c t0 s now H ev :
  reach c t0 s -> 0 <= c_ack_delay c <= 60000 -> t0 <= now -> 0 < now <= H -> nowrap s H ->
  snd_una s <> snd_nxt s -> state s <> CLOSED -> (support_fin_ack s = true -> state s <> TIME_WAIT) -> shutdown s = SD_NONE ->
  rto_base s <> 0 /\
  exists t, get_next_clock 0 now s ev = Ok (Some t, s, ev) /\ t <= now + 4000 /\ t <= rto_base s + rx_rto s /\
            (snd_wnd s = 0 -> t <= lastsend s + rx_rto s) /\ (t_ack s <> 0 -> t <= t_ack s + ack_delay s).
Proof.
  intros Hr Had Ht0 Hn Hw Hfl Hc Htw Hsh.
  pose proof (timer_armed _ _ _ Hr Hfl) as Harm. split; [exact Harm|].
  destruct (get_next_clock_open now H s ev Hc Htw Hsh (reach_GT _ _ _ _ _ Hr Had Ht0 Hn Hw)) as (t & E & T1 & T2 & T3 & T4).
  exists t. repeat split; try assumption. exact (T2 Harm).
Qed.

(** 1'. ... and [notify_clock] acts on it: a call at or after [rto_base + rx_rto] re-sends the head segment, counts the
    transmission, re-arms the timer at the time of the call -- or gives up and reports an error *)
Theorem armed_timer_fires c t0 s now H s' ev' :
  reach c t0 s -> 0 <= c_ack_delay c <= 60000 -> t0 <= now -> 0 < now <= H -> nowrap s H ->
  snd_una s <> snd_nxt s -> plain_open s -> rto_base s + rx_rto s <= now ->
  notify_clock now s [] = Ok (tt, s', ev') ->
  closed_err s' ev' \/
  (rto_base s' = now /\ hdx (slist s) < xlimit s /\ hdx (slist s') = (hdx (slist s) + 1) mod 256 /\
   hdseq (slist s') = hdseq (slist s) /\
   (24 <= wr_limit s -> exists p, In (EvPacket p) ev' /\ pkt_has_seq (conv s) (hdseq (slist s)) p)).
Proof.
  intros Hr Had Ht0 Hn Hw Hfl Hp Hdue E.
  exact (rto_fires now H s s' ev' Hp (reach_GT _ _ _ _ _ Hr Had Ht0 Hn Hw) (timer_armed _ _ _ Hr Hfl) Hdue E).
Qed.

Theorem closed_window_probed c t0 s now H s' ev' :
  reach c t0 s -> 0 <= c_ack_delay c <= 60000 -> t0 <= now -> 0 < now <= H -> nowrap s H ->
  plain_open s -> (rto_base s = 0 \/ now < rto_base s + rx_rto s) ->
  snd_wnd s = 0 -> lastsend s + rx_rto s <= now ->
  notify_clock now s [] = Ok (tt, s', ev') ->
  (15000 <= now - lastrecv s /\ closed_err s' ev' /\ In (EvClosed ECONNABORTED) ev') \/
  (now - lastrecv s < 15000 /\ state s' = state s /\ rx_rto s' = Z.min 60000 (2 * rx_rto s) /\
   (24 <= wr_limit s -> exists p, In (EvPacket p) ev')).
Proof.
  intros Hr Had Ht0 Hn Hw Hp Hnd Hz Hdue E.
  exact (zero_window_probe now H s s' ev' Hp (reach_GT _ _ _ _ _ Hr Had Ht0 Hn Hw) Hnd Hz Hdue E).
Qed.

Theorem pending_ack_flushed c t0 s now H s' ev' :
  reach c t0 s -> 0 <= c_ack_delay c <= 60000 -> t0 <= now -> 0 < now <= H -> nowrap s H ->
  plain_open s -> t_ack s <> 0 -> t_ack s + ack_delay s <= now ->
  notify_clock now s [] = Ok (tt, s', ev') ->
  closed_err s' ev' \/ (t_ack s' = 0 /\ (24 <= wr_limit s -> exists p, In (EvPacket p) ev')).
Proof.
  intros Hr Had Ht0 Hn Hw Hp Hta Hdue E.
  exact (delayed_ack_flushed now H s s' ev' Hp (reach_GT _ _ _ _ _ Hr Had Ht0 Hn Hw) Hta Hdue E).
Qed.

(** 2. SILENCE => ERROR for reachable sockets *)
Theorem silence_error_reachable c t0 s now H n s' now' evs :
  reach c t0 s -> 0 <= c_ack_delay c <= 60000 -> t0 <= now -> 0 < now <= H -> nowrap s H ->
  snd_una s <> snd_nxt s -> state s <> CLOSED -> state s <> TIME_WAIT -> shutdown s = SD_NONE ->
  silent_run H s now n s' now' evs -> silence_rounds <= Z.of_nat n ->
  state s' = CLOSED /\ exists e, e <> 0 /\ In (EvClosed e) evs.
Proof.
  intros Hr Had Ht0 Hn Hw Hfl Hc Htw Hsh Hrun Hk.
  exact (silence_gives_error H s now n s' now' evs (reach_G _ _ _ _ _ Hr Had Ht0 Hn Hw Hfl Hc Htw Hsh) Hrun Hk).
Qed.

(** 3. BACK-OFF SHAPE for reachable sockets *)
Theorem backoff_reachable c t0 s now H k s' now' evs :
  reach c t0 s -> 0 <= c_ack_delay c <= 60000 -> t0 <= now -> 0 < now <= H -> nowrap s H ->
  snd_una s <> snd_nxt s -> plain_open s -> state s <> TIME_WAIT -> shutdown s = SD_NONE -> snd_wnd s <> 0 ->
  silent_run_k H s now k s' now' evs -> state s' <> CLOSED ->
  rx_rto s' = backoff (rto_cap s) (rx_rto s) k /\
  hdseq (slist s') = hdseq (slist s) /\
  (24 <= wr_limit s -> has_packets (conv s) (hdseq (slist s)) k evs).
Proof.
  intros Hr Had Ht0 Hn Hw Hfl Hp Htw Hsh Hz Hrun Hopen.
  exact (backoff_shape H s now k s' now' evs Hrun
           (reach_G _ _ _ _ _ Hr Had Ht0 Hn Hw Hfl (proj1 Hp) Htw Hsh) Hp Hz Hopen).
Qed.

(** ---- the ideal owner, as a program (used for the concrete examples) ---- *)
Fixpoint ideal_run (n : nat) (s : sock) (now : Z) : option (sock * Z * list event) :=
  match n with
  | O => Some (s, now, [])
  | S n' =>
    match get_next_clock 0 now s [] with
    | Ok (Some t, s0, ev0) =>
      let now' := Z.max now t in
      match notify_clock now' s0 [] with
      | Ok (_, s1, ev1) =>
        match ideal_run n' s1 now' with
        | Some (s2, now2, evs) => Some (s2, now2, ev0 ++ ev1 ++ evs)
        | None => None
        end
      | Fault => None
      end
    | _ => None
    end
  end.

Lemma ideal_run_mono n : forall s now s' now' evs, ideal_run n s now = Some (s', now', evs) -> now <= now'.
Proof.
  induction n as [|n IH]; intros s now s' now' evs E; cbn [ideal_run] in E.
  - inversion E; lia.
  - destruct (get_next_clock 0 now s []) as [[[[t|] s0] ev0]|]; try discriminate.
    destruct (notify_clock (Z.max now t) s0 []) as [[[u s1] ev1]|]; try discriminate.
    destruct (ideal_run n s1 (Z.max now t)) as [[[s2 now2] evs2]|] eqn:E2; try discriminate.
    inversion E; subst. apply IH in E2. lia.
Qed.

Lemma ideal_run_sound H n : forall s now s' now' evs,
  ideal_run n s now = Some (s', now', evs) -> now' <= H -> silent_run H s now n s' now' evs.
Proof.
  induction n as [|n IH]; intros s now s' now' evs E HH; cbn [ideal_run] in E.
  - inversion E; subst. constructor.
  - destruct (get_next_clock 0 now s []) as [[[[t|] s0] ev0]|] eqn:Eg; try discriminate.
    destruct (notify_clock (Z.max now t) s0 []) as [[[[] s1] ev1]|] eqn:En; try discriminate.
    destruct (ideal_run n s1 (Z.max now t)) as [[[s2 now2] evs2]|] eqn:E2; try discriminate.
    inversion E; subst. pose proof (ideal_run_mono _ _ _ _ _ _ E2).
    eapply sr_round; [exact Eg| | | |exact En|apply IH; [exact E2|exact HH]]; lia.
Qed.
