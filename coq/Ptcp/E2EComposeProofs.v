(** C08, composition: two sockets and a network that only delivers packets the other socket emitted (any subset, any order, any
    multiplicity, any delay), arbitrary application operations on both sides: the bytes read on one side are a prefix of the bytes written
    on the other.  Sender honesty (SenderInvProofs) provides the receiver's hypotheses (ReceiverSoundProofs); what is NOT derived here and
    stays an explicit hypothesis is listed at [sender_discipline] and [ts_ok] below.  The model is untouched. *)
From Coq Require Import ZArith List Bool Lia ZifyBool.
From Nice Require Import Base.Bytes Ptcp.PtcpModel Ptcp.PtcpProofs Ptcp.PtcpHoare Ptcp.SockOps Ptcp.SenderInvProofs
                         Ptcp.ReceiverInvProofs Ptcp.ReceiverSoundProofs.
Import ListNotations.
Local Open Scope Z_scope.
Local Open Scope bool_scope.

(** ---- packets as parsed by the peer ---- *)
Definition pkt_tsecr (p : bytes) : Z := be32_of (nth 20 p 0) (nth 21 p 0) (nth 22 p 0) (nth 23 p 0).
Definition pkt_fin (p : bytes) : bool := has_flag (pkt_flags p) FLAG_FIN.

Lemma parse_packet_fields p seg : parse_packet p = Some seg ->
  g_seq seg = pkt_seq p /\ g_flags seg = pkt_flags p /\ g_data seg = pkt_payload p /\ g_tsecr seg = pkt_tsecr p.
Proof.
  unfold parse_packet. destruct (len p <? 24); [discriminate|]. intros H; injection H as <-. cbn. repeat split; reflexivity.
Qed.

(** ---- what is assumed about the sending side beyond sender honesty ----
    For the connect message [C] of the sender (any [C] that explains its packets in the sense of [pkt_ok]):
    (a) every connect segment it emitted carries the connect message whole (sequence number 0, all of [C]) -- this is what a path MTU of
        at least 123 and a peer window of at least 7 bytes give; it is NOT derived here (a sender whose MTU is lowered to 119..122 while its
        connect message is unacknowledged re-segments it, see E2ESafetyProofs.v / the findings);
    (b) every FIN segment it emitted sits at the end of everything it queued (the application does not write after shutting down its
        sending side; in the model [send] refuses once the state has left ESTABLISHED) -- NOT derived here either. *)
Definition sender_discipline (t : trace) : Prop :=
  forall C, len C <= 7 -> (forall p, In (EvPacket p) (t_ev t) -> pkt_ok C (t_written t) p) ->
    forall p, In (EvPacket p) (t_ev t) ->
      (pkt_ctl p = true -> pkt_payload p <> [] -> pkt_seq p = 0 /\ len (pkt_payload p) = len C) /\
      (pkt_fin p = true -> pkt_seq p = len C + len (t_written t)).

(* a connect segment must not echo a timestamp that lies ahead of the receiver's clock at delivery (clock going backwards / forged echo):
   process() would change the state and then reject the segment, see the finding in E2ESafetyProofs.v *)
Definition ts_ok (p : bytes) (now : Z) : Prop :=
  pkt_ctl p = true -> pkt_payload p <> [] -> ((pkt_tsecr p =? 0) || (time_diff now (pkt_tsecr p) >=? 0)) = true.

(* operations of the receiving socket: application calls, and deliveries of packets that the sender emitted at some point of the run *)
Definition recv_op_ok (tS : trace) (o : op) : Prop :=
  match o with
  | OPacket p now => In (EvPacket p) (t_ev tS) /\ ts_ok p now
  | ORecv n _ => 0 <= n
  | OSetRcvBuf n => 7 <= n <= 65535
  | _ => True
  end.

Lemma sender_packets s0 ops t :
  init_ok s0 -> run (start s0) ops = Ok t -> len (t_written t) < NW - 8 ->
  exists C, len C <= 7 /\ forall p, In (EvPacket p) (t_ev t) -> pkt_ok C (t_written t) p.
Proof.
  intros Hi Hr Hb.
  assert (HI : SInv (t_written t) (t_sock t) (t_ev t)) by (apply (run_SInv ops (start s0) t); [apply init_SInv; exact Hi|exact Hr|exact Hb]).
  destruct HI as (C & HI). exists C. split; [apply HI|]. intros p Hin. exact (si_ev _ _ _ _ HI p Hin).
Qed.

Lemma skipn_app_exact {A} (a b : list A) : skipn (length a) (a ++ b) = b.
Proof. induction a as [|x a IH]; cbn; [reflexivity|exact IH]. Qed.

(** one direction: [tS] is the final trace of the sending socket, [tR] that of the receiving socket *)
Theorem one_way_prefix s0 opsS tS r0 opsR tR :
  init_ok s0 -> run (start s0) opsS = Ok tS -> len (t_written tS) < NW - 10 -> sender_discipline tS ->
  rinit 7 r0 -> run (start r0) opsR = Ok tR -> Forall (recv_op_ok tS) opsR ->
  exists k, t_read tR = firstn k (t_written tS).
Proof.
  intros Hi HrS Hb Hdisc Hri HrR Hops.
  assert (Hb8 : len (t_written tS) < NW - 8) by lia.
  destruct (sender_packets s0 opsS tS Hi HrS Hb8) as (C & HC7 & Hpk).
  set (S := C ++ t_written tS). set (cl := len C).
  assert (Hl : len S = cl + len (t_written tS)) by (unfold S, cl; apply len_app).
  assert (Hcl0 : 0 <= cl) by (unfold cl, len; lia).
  assert (Hcl7 : cl <= 7) by exact HC7.
  assert (Hw0 : 0 <= len (t_written tS)) by (unfold len; lia).
  assert (Hri' : rinit cl r0).
  { destruct Hri as (R1 & R2 & R3 & R4 & R5 & R6 & R7 & R8 & R9). repeat split; try assumption. lia. }
  assert (Hnw : len S + 2 < NW) by lia.
  assert (Hcs : 0 <= cl <= len S) by lia.
  assert (Hc6 : cl <= 61440) by lia.
  assert (Hrs : exists k, t_read tR = firstn k (skipn (Z.to_nat cl) S)).
  { apply (receiver_soundness S cl r0 opsR tR Hri' Hnw Hcs Hc6); [|exact HrR].
    rewrite Forall_forall in *. intros o Ho. specialize (Hops o Ho). destruct o; cbn [honest_op recv_op_ok] in *; try exact I; try lia.
      destruct Hops as (Hin & Hts). intros seg Hp. destruct (parse_packet_fields _ _ Hp) as (E1 & E2 & E3 & E4).
      pose proof (Hpk p Hin) as Hok. destruct (Hdisc C HC7 Hpk p Hin) as (Hw & Hf).
      unfold honest. rewrite E1, E2, E3, E4. split.
      + intros Hne. destruct (Hok Hne) as (K1 & K2 & K3 & K4). fold S in K2, K3. split; [exact K1|]. split; [exact K2|]. split; [exact K3|].
        unfold pkt_ctl in *. destruct (has_flag (pkt_flags p) FLAG_CTL) eqn:Ectl.
        * destruct (Hw eq_refl Hne) as (W1 & W2). split; [exact W1|]. split; [exact W2|]. apply Hts; [exact Ectl|exact Hne].
        * exact K4.
      + intros Ef. rewrite Hl. apply Hf. exact Ef. }
  destruct Hrs as (k & Hk). exists k. rewrite Hk. f_equal. unfold S, cl, len. rewrite Nat2Z.id. apply skipn_app_exact.
Qed.

(** ---- two sockets and a network ---- *)
Inductive sop :=
| SA (o : op)                      (* an application call on A *)
| SB (o : op)                      (* an application call on B *)
| SAB (p : bytes) (now : Z)        (* the network hands packet [p] to B at B's time [now] *)
| SBA (p : bytes) (now : Z).       (* the network hands packet [p] to A *)

Definition sys_step (st : trace * trace) (x : sop) : res (trace * trace) :=
  match x with
  | SA o => match step (fst st) o with Ok t => Ok (t, snd st) | Fault => Fault end
  | SB o => match step (snd st) o with Ok t => Ok (fst st, t) | Fault => Fault end
  | SAB p now => match step (snd st) (OPacket p now) with Ok t => Ok (fst st, t) | Fault => Fault end
  | SBA p now => match step (fst st) (OPacket p now) with Ok t => Ok (t, snd st) | Fault => Fault end
  end.

Fixpoint sys_run (st : trace * trace) (l : list sop) : res (trace * trace) :=
  match l with
  | [] => Ok st
  | x :: r => match sys_step st x with Ok st' => sys_run st' r | Fault => Fault end
  end.

Fixpoint projA (l : list sop) : list op :=
  match l with [] => [] | SA o :: r => o :: projA r | SBA p now :: r => OPacket p now :: projA r | _ :: r => projA r end.
Fixpoint projB (l : list sop) : list op :=
  match l with [] => [] | SB o :: r => o :: projB r | SAB p now :: r => OPacket p now :: projB r | _ :: r => projB r end.

Lemma sys_run_proj l : forall a b a' b', sys_run (a, b) l = Ok (a', b') -> run a (projA l) = Ok a' /\ run b (projB l) = Ok b'.
Proof.
  induction l as [|x r IH]; intros a b a' b' H; cbn [sys_run] in H.
  - injection H as <- <-. split; reflexivity.
  - destruct x as [o|o|p now|p now]; cbn [sys_step fst snd] in H; cbn [projA projB run].
    + destruct (step a o) as [t|]; [|discriminate]. apply IH; exact H.
    + destruct (step b o) as [t|]; [|discriminate]. apply IH; exact H.
    + destruct (step b (OPacket p now)) as [t|]; [|discriminate]. apply IH; exact H.
    + destruct (step a (OPacket p now)) as [t|]; [|discriminate]. apply IH; exact H.
Qed.

(* application calls: anything but injecting packets; sizes are sizes; receive buffers hold at least a connect message *)
Definition app_op (o : op) : Prop :=
  match o with OPacket _ _ => False | ORecv n _ => 0 <= n | OSetRcvBuf n => 7 <= n <= 65535 | _ => True end.

(* the network only delivers what the other side emitted (at some point of the run: any subset, order, multiplicity, delay) *)
Definition net_ok (tA tB : trace) (x : sop) : Prop :=
  match x with
  | SA o | SB o => app_op o
  | SAB p now => In (EvPacket p) (t_ev tA) /\ ts_ok p now
  | SBA p now => In (EvPacket p) (t_ev tB) /\ ts_ok p now
  end.

Lemma net_ok_projB tA tB l : Forall (net_ok tA tB) l -> Forall (recv_op_ok tA) (projB l).
Proof.
  induction l as [|x r IH]; intros H; cbn [projB]; [constructor|]. inversion H; subst.
  destruct x as [o|o|p now|p now]; try (apply IH; assumption); constructor; try (apply IH; assumption).
  - cbn [net_ok] in H2. destruct o; cbn in *; auto; contradiction.
  - exact H2.
Qed.
Lemma net_ok_projA tA tB l : Forall (net_ok tA tB) l -> Forall (recv_op_ok tB) (projA l).
Proof.
  induction l as [|x r IH]; intros H; cbn [projA]; [constructor|]. inversion H; subst.
  destruct x as [o|o|p now|p now]; try (apply IH; assumption); constructor; try (apply IH; assumption).
  - cbn [net_ok] in H2. destruct o; cbn in *; auto; contradiction.
  - exact H2.
Qed.

(** COMPOSITION.  Two sockets that start in LISTEN with nothing queued or received and receive buffers of at least 7 bytes; any
    interleaving of application calls on both sides and of deliveries, where the network only ever delivers packets the other socket
    emitted; fewer than 2^31 - 10 bytes written in each direction; the two disciplines above.  Then at the end of the run (hence at every
    moment) the bytes read on each side are a prefix of the bytes written on the other side. *)
Theorem two_way_prefix a0 b0 l tA tB :
  init_ok a0 -> init_ok b0 -> rinit 7 a0 -> rinit 7 b0 ->
  sys_run (start a0, start b0) l = Ok (tA, tB) -> Forall (net_ok tA tB) l ->
  len (t_written tA) < NW - 10 -> len (t_written tB) < NW - 10 ->
  sender_discipline tA -> sender_discipline tB ->
  (exists k, t_read tB = firstn k (t_written tA)) /\ (exists k, t_read tA = firstn k (t_written tB)).
Proof.
  intros Ha Hb Hra Hrb Hrun Hnet Hwa Hwb Hda Hdb.
  destruct (sys_run_proj l _ _ _ _ Hrun) as (RA & RB). split.
  - eapply (one_way_prefix a0 (projA l) tA b0 (projB l) tB); try eassumption. eapply net_ok_projB; eauto.
  - eapply (one_way_prefix b0 (projB l) tB a0 (projA l) tA); try eassumption. eapply net_ok_projA; eauto.
Qed.
