(** Events only accumulate: every entry point of the pseudo-TCP model appends to the list of events it is given.  (Used to pass from a
    causal network -- a packet can be delivered only after it was emitted -- to the statement over the final event lists.) *)
From Coq Require Import ZArith List Bool Lia.
From RecordUpdate Require Import RecordSet.
From Nice Require Import Base.Bytes Ptcp.PtcpModel Ptcp.PtcpHoare Ptcp.SockOps Ptcp.ProcessPhases.
Import ListNotations.
Import RecordSetNotations.
Local Open Scope Z_scope.

Definition mono {A} (m : M A) : Prop := forall s ev, wp m s ev (fun _ _ ev' => exists es, ev' = ev ++ es).

Lemma ext_refl (ev : list event) : exists es, ev = ev ++ es. Proof. exists []. symmetry; apply app_nil_r. Qed.
Lemma mono_ret {A} (a : A) : mono (ret a). Proof. intros s ev. apply wp_ret, ext_refl. Qed.
Lemma mono_get : mono get. Proof. intros s ev. apply wp_get, ext_refl. Qed.
Lemma mono_put x : mono (put x). Proof. intros s ev. apply wp_put, ext_refl. Qed.
Lemma mono_upd f : mono (upd f). Proof. intros s ev. apply wp_upd, ext_refl. Qed.
Lemma mono_emit e : mono (emit e). Proof. intros s ev. apply wp_emit. eexists; reflexivity. Qed.
Lemma mono_fault {A} : mono (@fault A). Proof. intros s ev. apply wp_fault. Qed.
Lemma mono_assert b : mono (assert b). Proof. intros s ev. apply wp_assert. intros _. apply ext_refl. Qed.
Lemma mono_bind {A B} (m : M A) (f : A -> M B) : mono m -> (forall a, mono (f a)) -> mono (bind m f).
Proof.
  intros Hm Hf s ev. eapply wp_bind_spec; [apply Hm|]. cbv beta. intros a s1 ev1 (es & ->).
  eapply wp_conseq; [apply Hf|]. cbv beta. intros b s2 ev2 (es2 & ->). exists (es ++ es2). symmetry. apply app_assoc.
Qed.
Lemma mono_when b m : mono m -> mono (when b m).
Proof. intros H. unfold when. destruct b; [exact H|apply mono_ret]. Qed.

Create HintDb mono.
#[export] Hint Resolve mono_ret mono_get mono_put mono_upd mono_emit mono_fault mono_assert mono_when : mono.

Ltac mono_step :=
  first
    [ solve [auto with mono]
    | apply mono_bind; [|intros ?]
    | apply mono_when
    | match goal with
      | |- mono (if ?b then _ else _) => destruct b
      | |- mono (match ?x with _ => _ end) => destruct x
      end ].
Ltac mono_tac := cbv zeta; repeat mono_step.

Lemma mono_set_state n : mono (set_state n). Proof. unfold set_state. mono_tac. Qed.
#[export] Hint Resolve mono_set_state : mono.
Lemma mono_adjustMTU : mono adjustMTU. Proof. unfold adjustMTU. mono_tac. Qed.
#[export] Hint Resolve mono_adjustMTU : mono.
Lemma mono_set_state_established : mono set_state_established. Proof. unfold set_state_established. mono_tac. Qed.
Lemma mono_set_state_closed e : mono (set_state_closed e). Proof. unfold set_state_closed. mono_tac. Qed.
#[export] Hint Resolve mono_set_state_established mono_set_state_closed : mono.
Lemma mono_queue d f : mono (queue d f). Proof. unfold queue. mono_tac. Qed.
#[export] Hint Resolve mono_queue : mono.
Lemma mono_queue_connect : mono queue_connect_message. Proof. unfold queue_connect_message. mono_tac. Qed.
Lemma mono_queue_fin : mono queue_fin_message. Proof. unfold queue_fin_message. mono_tac. Qed.
Lemma mono_queue_rst : mono queue_rst_message. Proof. unfold queue_rst_message. mono_tac. Qed.
#[export] Hint Resolve mono_queue_connect mono_queue_fin mono_queue_rst : mono.
Lemma mono_packet a b c d e : mono (packet a b c d e). Proof. unfold packet. mono_tac. Qed.
#[export] Hint Resolve mono_packet : mono.
Lemma mono_transmit_loop fuel : forall i nT now, mono (transmit_loop fuel i nT now).
Proof. induction fuel as [|f IH]; intros i nT now; cbn [transmit_loop]; mono_tac. Qed.
#[export] Hint Resolve mono_transmit_loop : mono.
Local Opaque transmit_loop.
Lemma mono_transmit i now : mono (transmit i now). Proof. unfold transmit. mono_tac. Qed.
#[export] Hint Resolve mono_transmit : mono.
Lemma mono_closedown_states : mono closedown_states. Proof. unfold closedown_states. mono_tac. Qed.
#[export] Hint Resolve mono_closedown_states : mono.
Lemma mono_closedown_remote e : mono (closedown_remote e). Proof. unfold closedown_remote. mono_tac. Qed.
#[export] Hint Resolve mono_closedown_remote : mono.
Lemma mono_attempt_send_loop fuel : forall sf now, mono (attempt_send_loop fuel sf now).
Proof. induction fuel as [|f IH]; intros sf now; cbn [attempt_send_loop]; mono_tac. Qed.
#[export] Hint Resolve mono_attempt_send_loop : mono.
Local Opaque attempt_send_loop.
Lemma mono_attempt_send sf now : mono (attempt_send sf now). Proof. unfold attempt_send. mono_tac. Qed.
#[export] Hint Resolve mono_attempt_send : mono.
Lemma mono_closedown e l now : mono (closedown e l now). Proof. unfold closedown. mono_tac. Qed.
#[export] Hint Resolve mono_closedown : mono.
Lemma mono_resize n : mono (resize_receive_buffer n). Proof. unfold resize_receive_buffer. mono_tac. Qed.
#[export] Hint Resolve mono_resize : mono.
Lemma mono_apply_opts fuel : forall d, mono (apply_opts fuel d).
Proof. induction fuel as [|f IH]; intros d; cbn [apply_opts]; mono_tac. Qed.
#[export] Hint Resolve mono_apply_opts : mono.
Local Opaque apply_opts.
Lemma mono_parse_options d : mono (parse_options d). Proof. unfold parse_options. mono_tac. Qed.
#[export] Hint Resolve mono_parse_options : mono.
Lemma mono_recover_rlist fuel : forall sf, mono (recover_rlist fuel sf).
Proof. induction fuel as [|f IH]; intros sf; cbn [recover_rlist]; mono_tac. Qed.
#[export] Hint Resolve mono_recover_rlist : mono.
Local Opaque recover_rlist.
Lemma mono_ctl_phase seg : mono (ctl_phase seg). Proof. unfold ctl_phase. mono_tac. Qed.
Lemma mono_ack_phase seg now s : mono (ack_phase seg now s). Proof. unfold ack_phase. mono_tac. Qed.
Lemma mono_fin_phase seg b s : mono (fin_phase seg b s). Proof. unfold fin_phase. mono_tac. Qed.
Lemma mono_data_phase seg b s q d : mono (data_phase seg b s q d). Proof. unfold data_phase. mono_tac. Qed.
#[export] Hint Resolve mono_ctl_phase mono_ack_phase mono_fin_phase mono_data_phase : mono.
Lemma mono_process_tail seg now : mono (process_tail seg now). Proof. unfold process_tail. mono_tac. Qed.
#[export] Hint Resolve mono_process_tail : mono.
Lemma mono_process seg now : mono (process seg now). Proof. rewrite process_phases. unfold process_phased. mono_tac. Qed.
#[export] Hint Resolve mono_process : mono.
Lemma mono_notify_packet p now : mono (notify_packet p now). Proof. unfold notify_packet. mono_tac. Qed.
Lemma mono_connect now : mono (connect now). Proof. unfold connect. mono_tac. Qed.
Lemma mono_notify_mtu m : mono (notify_mtu m). Proof. unfold notify_mtu. mono_tac. Qed.
Lemma mono_notify_clock now : mono (notify_clock now). Proof. unfold notify_clock. mono_tac. Qed.
Lemma mono_get_next_clock t now : mono (get_next_clock t now). Proof. unfold get_next_clock. mono_tac. Qed.
Lemma mono_recv n now : mono (recv n now). Proof. unfold recv. mono_tac. Qed.
Lemma mono_send d now : mono (send d now). Proof. unfold send. mono_tac. Qed.
Lemma mono_shutdown_sock h now : mono (shutdown_sock h now). Proof. unfold shutdown_sock. mono_tac. Qed.
#[export] Hint Resolve mono_shutdown_sock : mono.
Lemma mono_close_sock f now : mono (close_sock f now). Proof. unfold close_sock. mono_tac. Qed.
Lemma mono_set_rcv_buf n : mono (set_rcv_buf n). Proof. unfold set_rcv_buf. mono_tac. Qed.
Lemma mono_set_snd_buf n : mono (set_snd_buf n). Proof. unfold set_snd_buf. mono_tac. Qed.

Lemma step_ev_mono t o t' : step t o = Ok t' -> exists es, t_ev t' = t_ev t ++ es.
Proof.
  unfold step, upd_trace. destruct o;
  match goal with |- match ?m ?s ?ev with _ => _ end = _ -> _ =>
    destruct (m s ev) as [[[a s'] ev']|] eqn:E; [|discriminate] end;
  intros H; injection H as <-; cbn [t_ev].
  - exact (wp_ok _ _ _ _ _ _ _ (mono_connect _ _ _) E).
  - exact (wp_ok _ _ _ _ _ _ _ (mono_send _ _ _ _) E).
  - exact (wp_ok _ _ _ _ _ _ _ (mono_recv _ _ _ _) E).
  - exact (wp_ok _ _ _ _ _ _ _ (mono_notify_packet _ _ _ _) E).
  - exact (wp_ok _ _ _ _ _ _ _ (mono_notify_clock _ _ _) E).
  - exact (wp_ok _ _ _ _ _ _ _ (mono_get_next_clock _ _ _ _) E).
  - exact (wp_ok _ _ _ _ _ _ _ (mono_notify_mtu _ _ _) E).
  - exact (wp_ok _ _ _ _ _ _ _ (mono_shutdown_sock _ _ _ _) E).
  - exact (wp_ok _ _ _ _ _ _ _ (mono_close_sock _ _ _ _) E).
  - exact (wp_ok _ _ _ _ _ _ _ (mono_set_rcv_buf _ _ _) E).
  - exact (wp_ok _ _ _ _ _ _ _ (mono_set_snd_buf _ _ _) E).
Qed.

Lemma run_ev_mono ops : forall t t', run t ops = Ok t' -> exists es, t_ev t' = t_ev t ++ es.
Proof.
  induction ops as [|o r IH]; intros t t' H; cbn [run] in H.
  - injection H as <-. apply ext_refl.
  - destruct (step t o) as [t1|] eqn:E; [|discriminate]. destruct (step_ev_mono _ _ _ E) as (x & Hx).
    destruct (IH _ _ H) as (y & Hy). exists (x ++ y). rewrite Hy, Hx. symmetry. apply app_assoc.
Qed.
