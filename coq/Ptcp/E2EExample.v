(** C08, composition: a concrete two-socket run (computed with vm_compute) that satisfies every hypothesis of [two_way_prefix]:
    A connects, B answers, A writes "hello world", the data segment is delivered twice, B writes 3 bytes back, both sides read. *)
From Coq Require Import ZArith List Bool Lia.
From Nice Require Import Base.Bytes Ptcp.PtcpModel Ptcp.PtcpProofs Ptcp.SockOps Ptcp.SenderInvProofs Ptcp.ReceiverInvProofs
                         Ptcp.ReceiverSoundProofs Ptcp.E2EComposeProofs Ptcp.E2ECausalProofs.
Import ListNotations.
Local Open Scope Z_scope.

Fixpoint pkts (ev : list event) : list bytes := match ev with [] => [] | EvPacket p :: r => p :: pkts r | _ :: r => pkts r end.

(* a schedule: application calls and deliveries of the i-th packet the other side has emitted so far *)
Inductive iop := IA (o : op) | IB (o : op) | DAB (i : nat) (now : Z) | DBA (i : nat) (now : Z).
Fixpoint build (st : trace * trace) (l : list iop) (acc : list sop) : option (list sop * (trace * trace)) :=
  match l with
  | [] => Some (rev acc, st)
  | x :: r =>
    let sx := match x with IA o => SA o | IB o => SB o
                         | DAB i now => SAB (nth i (pkts (t_ev (fst st))) []) now
                         | DBA i now => SBA (nth i (pkts (t_ev (snd st))) []) now end in
    match sys_step st sx with Ok st' => build st' r (sx :: acc) | Fault => None end
  end.

Definition st0 : trace * trace := (start (sock_init 7), start (sock_init 7)).
Definition hello : bytes := [104; 101; 108; 108; 111; 32; 119; 111; 114; 108; 100].
Definition sched : list iop :=
  [ IA (OConnect 1000); DAB 0 1001; DBA 0 1002; IA (OSend hello 1003); DAB 1 1004; DAB 1 1005;
    IB (OSend [1; 2; 3] 1006); DBA 1 1007; DBA 2 1007; IB (ORecv 5 1008); IB (ORecv 100 1009); IA (ORecv 100 1010) ].

Definition ex_l : list sop := match build st0 sched [] with Some (l, _) => l | None => [] end.
Definition ex_A : trace := match build st0 sched [] with Some (_, (a, _)) => a | None => start (sock_init 7) end.
Definition ex_B : trace := match build st0 sched [] with Some (_, (_, b)) => b | None => start (sock_init 7) end.

Lemma ex_run : sys_run st0 ex_l = Ok (ex_A, ex_B).
Proof. vm_compute. reflexivity. Qed.

Lemma ex_results : t_written ex_A = hello /\ t_read ex_B = hello /\ t_written ex_B = [1; 2; 3] /\ t_read ex_A = [1; 2; 3] /\ length ex_l = 12%nat.
Proof. vm_compute. repeat split; reflexivity. Qed.

(* the packets of each side: (sequence number, flags, payload length) *)
Lemma ex_packets :
  map (fun p => (pkt_seq p, pkt_flags p, len (pkt_payload p))) (pkts (t_ev ex_A)) = [(0, 2, 7); (7, 0, 11)] /\
  map (fun p => (pkt_seq p, pkt_flags p, len (pkt_payload p))) (pkts (t_ev ex_B)) = [(0, 2, 7); (7, 0, 0); (7, 0, 3)].
Proof. vm_compute. split; reflexivity. Qed.

Lemma in_pkts p ev : In (EvPacket p) ev <-> In p (pkts ev).
Proof.
  induction ev as [|e ev IH]; cbn [pkts In]; [tauto|]. destruct e; cbn [In]; rewrite IH; split; intros H; try tauto.
  - destruct H as [H|H]; [left; congruence|right; exact H].
  - destruct H as [H|H]; [left; congruence|right; exact H].
  - destruct H as [H|H]; [discriminate H|exact H].
  - destruct H as [H|H]; [discriminate H|exact H].
  - destruct H as [H|H]; [discriminate H|exact H].
  - destruct H as [H|H]; [discriminate H|exact H].
Qed.

(* a trace whose first packet is a whole 7-byte connect segment, whose connect segments are all like that and which has no FIN segment
   satisfies the sender discipline *)
Lemma discipline_by_computation t p0 :
  In p0 (pkts (t_ev t)) -> pkt_ctl p0 = true -> pkt_seq p0 = 0 -> len (pkt_payload p0) = 7 ->
  forallb (fun p => (negb (pkt_ctl p) || (len (pkt_payload p) =? 0) || ((pkt_seq p =? 0) && (len (pkt_payload p) =? 7))) && negb (pkt_fin p))
          (pkts (t_ev t)) = true ->
  sender_discipline t.
Proof.
  intros Hin0 Hc0 Hs0 Hl0 Hall C HC Hpk p Hin.
  assert (HlenC : len C = 7).
  { apply in_pkts in Hin0. pose proof (Hpk p0 Hin0) as H0.
    assert (Hne : pkt_payload p0 <> []) by (intros E; rewrite E in Hl0; discriminate Hl0).
    destruct (H0 Hne) as (_ & _ & _ & K). rewrite Hc0 in K. lia. }
  rewrite forallb_forall in Hall. apply in_pkts in Hin. specialize (Hall p Hin).
  apply andb_prop in Hall. destruct Hall as (Ha & Hf). split.
  - intros Hc Hne. rewrite Hc in Ha. cbn [negb orb] in Ha. apply orb_prop in Ha. destruct Ha as [Ha|Ha].
    + exfalso. apply Hne. destruct (pkt_payload p); [reflexivity|]. unfold len in Ha. cbn [length] in Ha. lia.
    + apply andb_prop in Ha. lia.
  - intros Hfin. rewrite Hfin in Hf. discriminate Hf.
Qed.

Lemma ex_discipline_A : sender_discipline ex_A.
Proof.
  apply (discipline_by_computation ex_A (nth 0 (pkts (t_ev ex_A)) [])); vm_compute; try reflexivity. left; reflexivity.
Qed.
Lemma ex_discipline_B : sender_discipline ex_B.
Proof.
  apply (discipline_by_computation ex_B (nth 0 (pkts (t_ev ex_B)) [])); vm_compute; try reflexivity. left; reflexivity.
Qed.

(* every delivery of the schedule hands over a packet the other side emitted, and no connect segment echoes a future timestamp *)
Definition net_okb (tA tB : trace) (x : sop) : bool :=
  let mem p t := existsb (bytes_eqb p) (pkts (t_ev t)) in
  let ts p now := negb (pkt_ctl p) || (len (pkt_payload p) =? 0) || (pkt_tsecr p =? 0) || (time_diff now (pkt_tsecr p) >=? 0) in
  match x with
  | SA o | SB o => match o with OPacket _ _ => false | ORecv n _ => 0 <=? n | OSetRcvBuf n => (7 <=? n) && (n <=? 65535) | _ => true end
  | SAB p now => mem p tA && ts p now
  | SBA p now => mem p tB && ts p now
  end.

Lemma bytes_eqb_eq a : forall b, bytes_eqb a b = true -> a = b.
Proof.
  induction a as [|x a IH]; intros [|y b] H; cbn in H; try discriminate; [reflexivity|].
  apply andb_prop in H. destruct H as (H1 & H2). f_equal; [lia|apply IH; exact H2].
Qed.

Lemma net_okb_ok tA tB x : net_okb tA tB x = true -> net_ok tA tB x.
Proof.
  assert (Hmem : forall p t, existsb (bytes_eqb p) (pkts (t_ev t)) = true -> In (EvPacket p) (t_ev t)).
  { intros p t H. apply existsb_exists in H. destruct H as (q & Hq & He). apply bytes_eqb_eq in He. subst q. apply in_pkts. exact Hq. }
  assert (Hts : forall p now, negb (pkt_ctl p) || (len (pkt_payload p) =? 0) || (pkt_tsecr p =? 0) || (time_diff now (pkt_tsecr p) >=? 0) = true -> ts_ok p now).
  { intros p now H Hc Hne. rewrite Hc in H. cbn [negb orb] in H.
    destruct (len (pkt_payload p) =? 0) eqn:E; [|exact H]. exfalso. apply Hne. destruct (pkt_payload p); [reflexivity|]. unfold len in E. cbn [length] in E. lia. }
  destruct x as [o|o|p now|p now]; cbn [net_okb net_ok]; intros H.
  - destruct o; cbn [app_op]; try exact I; try discriminate H; lia.
  - destruct o; cbn [app_op]; try exact I; try discriminate H; lia.
  - apply andb_prop in H. destruct H as (H1 & H2). split; [apply Hmem; exact H1|apply Hts; exact H2].
  - apply andb_prop in H. destruct H as (H1 & H2). split; [apply Hmem; exact H1|apply Hts; exact H2].
Qed.

Lemma ex_net : Forall (net_ok ex_A ex_B) ex_l.
Proof.
  apply Forall_forall. intros x Hx. apply net_okb_ok.
  assert (H : forallb (net_okb ex_A ex_B) ex_l = true) by (vm_compute; reflexivity).
  rewrite forallb_forall in H. apply H. exact Hx.
Qed.

(** all hypotheses of [two_way_prefix] hold for this run, and its conclusion is the non-trivial one *)
Lemma two_way_prefix_nonvacuous :
  init_ok (sock_init 7) /\ rinit 7 (sock_init 7) /\
  sys_run (start (sock_init 7), start (sock_init 7)) ex_l = Ok (ex_A, ex_B) /\ Forall (net_ok ex_A ex_B) ex_l /\
  len (t_written ex_A) < NW - 10 /\ len (t_written ex_B) < NW - 10 /\ sender_discipline ex_A /\ sender_discipline ex_B /\
  t_written ex_A = hello /\ t_read ex_B = hello /\ t_written ex_B = [1; 2; 3] /\ t_read ex_A = [1; 2; 3].
Proof.
  split; [apply sock_init_ok|]. split; [apply sock_init_rinit; lia|]. split; [exact ex_run|]. split; [exact ex_net|].
  destruct ex_results as (E1 & E2 & E3 & E4 & _).
  split; [rewrite E1; vm_compute; reflexivity|]. split; [rewrite E3; vm_compute; reflexivity|].
  split; [exact ex_discipline_A|]. split; [exact ex_discipline_B|]. repeat split; assumption.
Qed.

(* the schedule is causal: each delivery hands over a packet that had been emitted before *)
Fixpoint sys_validb (st : trace * trace) (l : list sop) : bool :=
  match l with
  | [] => true
  | x :: r => net_okb (fst st) (snd st) x && match sys_step st x with Ok st' => sys_validb st' r | Fault => true end
  end.
Lemma sys_validb_ok l : forall st, sys_validb st l = true -> sys_valid st l.
Proof.
  induction l as [|x r IH]; intros st H; cbn [sys_validb sys_valid] in *; [exact I|].
  apply andb_prop in H. destruct H as (H1 & H2). split; [exact (net_okb_ok _ _ _ H1)|].
  destruct (sys_step st x); [apply IH; exact H2|exact I].
Qed.
Lemma ex_valid : sys_valid st0 ex_l.
Proof. apply sys_validb_ok. vm_compute. reflexivity. Qed.

(** ---- a second run, with a graceful shutdown: the FIN segment overtakes the data, is delivered again after it; B reads everything,
    ends in CLOSE_WAIT and its next [recv] returns 0 (end of stream) ---- *)
Lemma discipline_by_computation_fin t p0 :
  In p0 (pkts (t_ev t)) -> pkt_ctl p0 = true -> pkt_seq p0 = 0 -> len (pkt_payload p0) = 7 ->
  forallb (fun p => (negb (pkt_ctl p) || (len (pkt_payload p) =? 0) || ((pkt_seq p =? 0) && (len (pkt_payload p) =? 7))) &&
                    (negb (pkt_fin p) || (pkt_seq p =? 7 + len (t_written t))))
          (pkts (t_ev t)) = true ->
  sender_discipline t.
Proof.
  intros Hin0 Hc0 Hs0 Hl0 Hall C HC Hpk p Hin.
  assert (HlenC : len C = 7).
  { apply in_pkts in Hin0. pose proof (Hpk p0 Hin0) as H0.
    assert (Hne : pkt_payload p0 <> []) by (intros E; rewrite E in Hl0; discriminate Hl0).
    destruct (H0 Hne) as (_ & _ & _ & K). rewrite Hc0 in K. lia. }
  rewrite forallb_forall in Hall. apply in_pkts in Hin. specialize (Hall p Hin).
  apply andb_prop in Hall. destruct Hall as (Ha & Hf). split.
  - intros Hc Hne. rewrite Hc in Ha. cbn [negb orb] in Ha. apply orb_prop in Ha. destruct Ha as [Ha|Ha].
    + exfalso. apply Hne. destruct (pkt_payload p); [reflexivity|]. unfold len in Ha. cbn [length] in Ha. lia.
    + apply andb_prop in Ha. lia.
  - intros Hfin. rewrite Hfin in Hf. cbn [negb orb] in Hf. lia.
Qed.

Definition sched_fin : list iop :=
  [ IA (OConnect 1000); DAB 0 1001; DBA 0 1002; IA (OSend hello 1003); IA (OShutdown 1 1004); DAB 2 1005; DAB 1 1006; DAB 2 1007;
    IB (ORecv 100 1008); IB (ORecv 100 1009) ].
Definition fin_l : list sop := match build st0 sched_fin [] with Some (l, _) => l | None => [] end.
Definition fin_A : trace := match build st0 sched_fin [] with Some (_, (a, _)) => a | None => start (sock_init 7) end.
Definition fin_B : trace := match build st0 sched_fin [] with Some (_, (_, b)) => b | None => start (sock_init 7) end.

Lemma fin_run_nonvacuous :
  sys_run st0 fin_l = Ok (fin_A, fin_B) /\ sys_valid st0 fin_l /\ sender_discipline fin_A /\ sender_discipline fin_B /\
  map (fun p => (pkt_seq p, pkt_flags p, len (pkt_payload p))) (pkts (t_ev fin_A)) = [(0, 2, 7); (7, 0, 11); (18, 1, 0)] /\
  t_written fin_A = hello /\ t_read fin_B = hello /\ state (t_sock fin_B) = CLOSE_WAIT /\
  (match recv 100 1010 (t_sock fin_B) (t_ev fin_B) with Ok (r, _, _) => Some r | Fault => None end) = Some (0, []).
Proof.
  split; [vm_compute; reflexivity|]. split; [apply sys_validb_ok; vm_compute; reflexivity|].
  split; [apply (discipline_by_computation_fin fin_A (nth 0 (pkts (t_ev fin_A)) [])); vm_compute; try reflexivity; left; reflexivity|].
  split; [apply (discipline_by_computation_fin fin_B (nth 0 (pkts (t_ev fin_B)) [])); vm_compute; try reflexivity; left; reflexivity|].
  vm_compute. repeat split; reflexivity.
Qed.
