(** C10 kernel: the receive FIFO cannot be overrun.  For EVERY sequence of offset writes (any data, any non-negative offset: the offset is
    derived from a peer-chosen sequence number), commits and reads: the readable data never exceeds the capacity, a write never stores a byte
    at or beyond the free space, and every stored extent ends at or before rb_total + free space. *)
From Coq Require Import ZArith List Bool Lia.
From RecordUpdate Require Import RecordSet.
Import RecordSetNotations.
From Nice Require Import Base.Bytes Ptcp.PtcpModel Ptcp.PtcpProofs Ptcp.ReassemblyProofs.
Import ListNotations.
Local Open Scope Z_scope.

Inductive fop := FWrite (d : bytes) (off : Z) | FCommit (n : Z) | FRead (n : Z).

(* the read of [recv]: drop n bytes from the readable data *)
Definition rb_read (f : rfifo) (n : Z) : rfifo :=
  f <| rb_data := skipn (Z.to_nat n) (rb_data f) |> <| rb_n := rb_n f - Z.min n (rb_n f) |>.

(* one step; a commit beyond the free space is the model's Fault (an assertion of the C code): [None] *)
Definition fstep (f : rfifo) (o : fop) : option rfifo :=
  match o with
  | FWrite d off => Some (fst (rb_write_offset f d off))
  | FCommit n => match rb_commit f n with Ok f' => Some f' | Fault => None end
  | FRead n => Some (rb_read f n)
  end.

Fixpoint frun (f : rfifo) (ops : list fop) : option rfifo :=
  match ops with [] => Some f | o :: r => match fstep f o with Some f' => frun f' r | None => None end end.

Definition fifo_inv (f : rfifo) : Prop :=
  0 <= rb_n f <= rb_cap f /\ rb_n f = len (rb_data f) /\
  Forall (fun e => fst e + len (snd e) <= rb_total f + (rb_cap f - rb_n f)) (rb_fut f).

Definition op_ok (o : fop) : Prop := match o with FWrite _ off => 0 <= off | FCommit n => 0 <= n | FRead n => 0 <= n end.

Lemma len_firstn_le (d : bytes) n : 0 <= n -> len (firstn (Z.to_nat n) d) = Z.min n (len d).
Proof. intros H. unfold len. rewrite firstn_length. lia. Qed.

Lemma len_skipn (d : bytes) n : 0 <= n -> len (skipn (Z.to_nat n) d) = len d - Z.min n (len d).
Proof. intros H. unfold len. rewrite skipn_length. lia. Qed.

Lemma fstep_inv f o f' : fifo_inv f -> op_ok o -> fstep f o = Some f' -> fifo_inv f' /\ rb_cap f' = rb_cap f.
Proof.
  intros (Hn & Hl & Hf) Hok H. destruct o as [d off|n|n]; cbn [fstep op_ok] in *.
  - injection H as <-. unfold rb_write_offset. destruct (rb_cap f <=? rb_n f + off) eqn:E; cbn [fst].
    + split; [repeat split; assumption || lia|reflexivity].
    + unfold fifo_inv; cbn. split; [|reflexivity]. split; [lia|]. split; [exact Hl|].
      constructor; [|exact Hf]. cbn [fst snd]. assert (0 <= len d) by (unfold len; lia). rewrite len_firstn_le by lia. lia.
  - unfold rb_commit in H. destruct (rb_cap f - rb_n f <? n) eqn:E; [discriminate|]. injection H as <-.
    unfold fifo_inv; cbn. split; [|reflexivity]. split; [lia|]. split.
    + rewrite len_app. unfold len at 2. rewrite fut_bytes_length. lia.
    + rewrite Forall_forall in Hf |- *. intros e He. apply filter_In in He. destruct He as [He Hk]. specialize (Hf e He). lia.
  - injection H as <-. unfold rb_read, fifo_inv; cbn. split; [|reflexivity]. split; [lia|]. split.
    + rewrite len_skipn by lia. lia.
    + rewrite Forall_forall in Hf |- *. intros e He. specialize (Hf e He). lia.
Qed.

(** every reachable FIFO state satisfies the invariant; the capacity never changes *)
Theorem fifo_never_overrun : forall ops f f', fifo_inv f -> Forall op_ok ops -> frun f ops = Some f' -> fifo_inv f' /\ rb_cap f' = rb_cap f.
Proof.
  induction ops as [|o r IH]; intros f f' Hi Hok H; cbn [frun] in H.
  - injection H as <-. split; [exact Hi|reflexivity].
  - destruct (fstep f o) as [f1|] eqn:Es; [|discriminate]. inversion Hok; subst.
    destruct (fstep_inv _ _ _ Hi H2 Es) as [Hi1 Hc1]. destruct (IH _ _ Hi1 H3 H) as [Hi' Hc']. split; [exact Hi'|congruence].
Qed.

(** a single write, whatever its offset and length: the bytes stored fit in the free space beyond the offset, and never more than offered *)
Theorem write_offset_bounded f d off : fifo_inv f -> 0 <= off ->
  let '(f', copied) := rb_write_offset f d off in
  0 <= copied <= len d /\ off + copied <= Z.max off (rb_cap f - rb_n f) /\ rb_n f' = rb_n f /\ rb_data f' = rb_data f.
Proof.
  intros (Hn & _) Ho. unfold rb_write_offset. destruct (rb_cap f <=? rb_n f + off) eqn:E.
  - unfold len. repeat split; lia.
  - cbn. unfold len. repeat split; lia.
Qed.

Definition f0_example := {| rb_cap := 8; rb_data := []; rb_n := 0; rb_total := 100; rb_fut := [] |}.
Example fifo_nonvacuous :
  fifo_inv f0_example /\
  (match frun f0_example [FWrite [1; 2; 3; 4; 5; 6; 7; 8; 9; 10] 3; FWrite [7; 7; 7] 0; FCommit 8; FRead 2; FWrite [9; 9; 9] 1] with
   | Some f => (rb_data f, rb_n f, rb_fut f) | None => ([], -1, []) end) = ([7; 1; 2; 3; 4; 5], 6, [(109, [9])]).
Proof. split; [unfold fifo_inv, f0_example, len; cbn; repeat split; try lia; constructor|vm_compute; reflexivity]. Qed.
