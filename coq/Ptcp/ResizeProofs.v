(** resize_receive_buffer (pseudotcp.c): the size the socket works with (rbuf_len: window arithmetic, rcv-buf property) and the capacity of the receive
    FIFO change together or not at all - also when the FIFO refuses to shrink below its content (fix 4e3dfae turned that assertion into a return). *)
From Coq Require Import ZArith List Bool Lia.
From RecordUpdate Require Import RecordSet.
From Nice Require Import Base.Bytes Ptcp.PtcpModel Ptcp.PtcpHoare.
Import ListNotations.
Import RecordSetNotations.
Local Open Scope Z_scope.

Theorem resize_keeps_bookkeeping_and_fifo_together n s ev :
  rbuf_len s = rb_cap (rbuf s) ->
  wp (resize_receive_buffer n) s ev (fun _ s' _ => rbuf_len s' = rb_cap (rbuf s') /\ rb_buffered s' <= rb_cap (rbuf s') \/ s' = s).
Proof.
  intros H. unfold resize_receive_buffer. apply wp_bind_get.
  destruct (rbuf_len s =? n); [apply wp_ret; right; reflexivity|].
  match goal with |- context [let '(sz, sf) := ?e in _] => destruct e as [sz sf] end.
  destruct (negb (rb_buffered s <=? w32 (sz * 2 ^ sf))) eqn:E; [apply wp_ret; right; reflexivity|].
  apply wp_put. left. apply negb_false_iff, Z.leb_le in E. cbn. split; [reflexivity|exact E].
Qed.
