(** C09, part 1 (continued): operation sequences, reachable states, and the timer-armed theorem. *)
From Coq Require Import ZArith List Lia Bool ZifyBool.
From RecordUpdate Require Import RecordSet.
From Nice Require Import Base.Bytes Ptcp.PtcpModel Ptcp.C09Hoare Ptcp.TimerInvProofs.
Import ListNotations.
Import RecordSetNotations.
Local Open Scope Z_scope.
Local Open Scope bool_scope.
Ltac Zify.zify_post_hook ::= Z.div_mod_to_equations.

(** ---- operation sequences ---- *)
(* every entry point of the socket; each call is made at a clock value [now] *)
Inductive op :=
| OConnect | OSend (d : bytes) | ORecv (n : Z) | OPacket (p : bytes) | OClock | ONextClock (timeout : Z)
| OMtu (mtu : Z) | OShutdown (how : Z) | OClose (force : bool)
| OSetRcvBuf (n : Z) | OSetSndBuf (n : Z) | OWrLimit (l : Z).

Definition op_run (o : op) (now : Z) : M unit :=
  match o with
  | OConnect => connect now ;;; ret tt
  | OSend d => send d now ;;; ret tt
  | ORecv n => recv n now ;;; ret tt
  | OPacket p => notify_packet p now ;;; ret tt
  | OClock => notify_clock now
  | ONextClock t => get_next_clock t now ;;; ret tt
  | OMtu m => notify_mtu m
  | OShutdown h => shutdown_sock h now
  | OClose f => close_sock f now
  | OSetRcvBuf n => set_rcv_buf n
  | OSetSndBuf n => set_snd_buf n
  | OWrLimit l => upd (fun s => s <| wr_limit := l |>)
  end.

(* [None]: a g_assert of the implementation fails (the process aborts; C10's subject) *)
Definition step (o : op) (now : Z) (s : sock) : option (sock * list event) :=
  match run (op_run o now) s with Ok (_, s', ev) => Some (s', ev) | Fault => None end.

(* the construction-time properties of the GObject *)
Record config := { c_conv : Z; c_nagle : bool; c_ack_delay : Z; c_fin_ack : bool; c_wnd_scale : bool }.
Definition sock_cfg (c : config) : sock :=
  sock_init (c_conv c) <| use_nagling := c_nagle c |> <| ack_delay := c_ack_delay c |>
                       <| support_wnd_scale := c_wnd_scale c |> <| support_fin_ack := c_fin_ack c |>.

(* [reach c now s]: [s] is reached from the fresh socket of configuration [c] by some sequence of calls made at
   non-decreasing clock values in (0, 2^32), the last one at [now] (0 for the fresh socket) *)
Inductive reach (c : config) : Z -> sock -> Prop :=
| reach_init : reach c 0 (sock_cfg c)
| reach_step now s o now' s' ev :
    reach c now s -> now <= now' -> 0 < now' < M32 -> step o now' s = Some (s', ev) -> reach c now' s'.

(* the same, as a program: a list of timed operations *)
Fixpoint run_ops (l : list (Z * op)) (s : sock) : option (sock * list event) :=
  match l with
  | [] => Some (s, [])
  | (t, o) :: l' => match step o t s with
                    | Some (s1, e1) => match run_ops l' s1 with Some (s2, e2) => Some (s2, e1 ++ e2) | None => None end
                    | None => None
                    end
  end.
Fixpoint clock_mono (t0 : Z) (l : list (Z * op)) : Prop :=
  match l with [] => True | (t, _) :: l' => t0 <= t /\ 0 < t < M32 /\ clock_mono t l' end.
Definition last_time (t0 : Z) (l : list (Z * op)) : Z := fold_left (fun _ x => fst x) l t0.

Lemma run_ops_reach c : forall l t0 s s' evs,
  reach c t0 s -> clock_mono t0 l -> run_ops l s = Some (s', evs) -> reach c (last_time t0 l) s'.
Proof.
  induction l as [|[t o] l IH]; intros t0 s s' evs Hr Hm H; cbn in *.
  - inversion H; subst. exact Hr.
  - destruct (step o t s) as [[s1 e1]|] eqn:E; [|discriminate].
    destruct (run_ops l s1) as [[s2 e2]|] eqn:E2; [|discriminate]. inversion H; subst.
    destruct Hm as (H1 & H2 & H3). eapply IH; [|exact H3|exact E2].
    eapply reach_step; eauto.
Qed.

Lemma op_run_TI ad o now : 0 < now -> pres (TI ad now) (op_run o now).
Proof.
  intros Hnow s ev Hi.
  pose proof (connect_TI ad now Hnow). pose proof (send_TI ad now Hnow). pose proof (recv_TI ad now Hnow).
  pose proof (notify_packet_TI ad now Hnow). pose proof (notify_clock_TI ad now Hnow). pose proof (get_next_clock_TI ad now Hnow).
  pose proof (notify_mtu_TI ad now). pose proof (shutdown_sock_TI ad now Hnow). pose proof (close_sock_TI ad now Hnow).
  pose proof (set_rcv_buf_TI ad now). pose proof (set_snd_buf_TI ad now).
  destruct o; cbn [op_run]; wp_inv (TI ad now) solveTI.
Qed.

Lemma step_TI ad o now s s' ev : 0 < now -> TI ad now s -> step o now s = Some (s', ev) -> TI ad now s'.
Proof.
  intros Hnow Hi. unfold step, run. destruct (op_run o now s []) as [[[u s1] ev1]|] eqn:E; [|discriminate].
  intros H; inversion H; subst. exact (pres_elim _ _ _ _ _ _ _ (op_run_TI ad o now Hnow) Hi E).
Qed.

Lemma TI_init c : TI (c_ack_delay c) 0 (sock_cfg c).
Proof. unfold TI, sock_cfg. cbn. repeat split; lia. Qed.

(** the invariant holds in every reachable state *)
Theorem reach_TI c now s : reach c now s -> TI (c_ack_delay c) now s.
Proof.
  induction 1 as [|now s o now' s' ev Hr IH Hle Hn Hs].
  - apply TI_init.
  - eapply step_TI; [lia| |exact Hs]. eapply TI_mono; eauto.
Qed.

(** TIMER ARMED: in every reachable state, unacknowledged sequence numbers in flight imply an armed retransmission timer *)
Theorem timer_armed c now s : reach c now s -> snd_una s <> snd_nxt s -> rto_base s <> 0.
Proof. intros Hr. exact (proj1 (reach_TI c now s Hr)). Qed.
