(** Proofs about the pseudo-TCP model: foreign / malformed packets change nothing, the clock interface
    always names a finite deadline while the socket is open, the receive FIFO returns exactly what was
    written (in order and out of order), payloads are slices of the send buffer. *)
From Coq Require Import ZArith List Lia Bool ZifyBool.
From RecordUpdate Require Import RecordSet.
From Nice Require Import Base.Bytes Ptcp.PtcpModel.
Import ListNotations.
Import RecordSetNotations.
Local Open Scope Z_scope.
Local Open Scope bool_scope.
Ltac Zify.zify_post_hook ::= Z.div_mod_to_equations.

(** ---- C10: packets of another conversation, too short or too long: nothing happens ---- *)
Lemma process_foreign seg now s ev : g_conv seg <> conv s -> process seg now s ev = Ok (false, s, ev).
Proof.
  intros H. unfold process, bind, get. replace (g_conv seg =? conv s) with false by lia. reflexivity.
Qed.

Lemma notify_packet_foreign p now s ev seg :
  len p <= MAX_PACKET -> parse_packet p = Some seg -> g_conv seg <> conv s ->
  notify_packet p now s ev = Ok (false, s, ev).
Proof.
  intros Hl Hp Hc. unfold notify_packet. replace (len p >? MAX_PACKET) with false by lia. rewrite Hp.
  apply process_foreign; assumption.
Qed.

Definition same_but_error (s s' : sock) : Prop := exists e, s' = s <| error := e |>.

Lemma notify_packet_malformed p now s ev :
  (len p < 24 \/ len p > MAX_PACKET) ->
  exists s', notify_packet p now s ev = Ok (false, s', ev) /\ same_but_error s s'.
Proof.
  intros H. unfold notify_packet.
  destruct (len p >? MAX_PACKET) eqn:E.
  - eexists. split; [reflexivity|]. eexists; reflexivity.
  - assert (Hs : len p < 24) by lia. unfold parse_packet. replace (len p <? 24) with true by lia.
    eexists. split; [reflexivity|]. eexists; reflexivity.
Qed.

(** ---- C09: a finite next deadline while the socket is not closed ---- *)
Lemma zmin_le_l a b : Z.min a b <= a. Proof. lia. Qed.

Theorem get_next_clock_deadline timeout now s ev :
  shutdown s = SD_NONE -> state s <> CLOSED -> 0 <= now -> now + 4000 < M32 ->
  exists t, get_next_clock timeout now s ev = Ok (Some t, s, ev) /\ t <= now + 4000.
Proof.
  intros Hsh Hst Hn Hw. unfold get_next_clock, bind, get, ret. rewrite Hsh.
  assert (Hc : st_eqb (state s) CLOSED = false) by (destruct (state s); try reflexivity; congruence).
  rewrite Hc. rewrite !andb_false_r. cbn [andb negb].
  assert (W4 : w32 (now + 4000) = now + 4000) by (unfold w32, M32 in *; lia).
  assert (W1 : w32 (now + 1) = now + 1) by (unfold w32, M32 in *; lia).
  destruct (support_fin_ack s && st_eqb (state s) TIME_WAIT) eqn:ETW.
  - eexists. split; [reflexivity|]. rewrite W1. lia.
  - rewrite W4.
    set (t0 := if (timeout =? 0) || (timeout <? now) then w32 (now + (if false then 1 else 60000)) else timeout).
    eexists. split; [reflexivity|].
    repeat match goal with |- context [if ?b then _ else _] => destruct b end; lia.
Qed.

(** in TIME-WAIT (FIN-ACK mode) the deadline is one millisecond away *)
Theorem get_next_clock_time_wait timeout now s ev :
  shutdown s = SD_NONE -> state s = TIME_WAIT -> support_fin_ack s = true -> 0 <= now -> now + 1 < M32 ->
  exists t, get_next_clock timeout now s ev = Ok (Some t, s, ev) /\ t <= now + 1.
Proof.
  intros Hsh Hst Hf Hn Hw. unfold get_next_clock, bind, get, ret. rewrite Hsh, Hst, Hf. cbn.
  assert (W1 : w32 (now + 1) = now + 1) by (unfold w32, M32 in *; lia). rewrite W1.
  eexists. split; [reflexivity|]. lia.
Qed.

(** ---- the receive FIFO ---- *)
Lemma len_app (a b : bytes) : len (a ++ b) = len a + len b.
Proof. unfold len; rewrite app_length; lia. Qed.

Lemma len_zeros n : len (zeros n) = Z.of_nat n.
Proof. unfold len. induction n; cbn; lia. Qed.

Lemma overlay_len base start q d : len (overlay base start q d) = len base.
Proof.
  unfold overlay. destruct (Z.max (q - start) 0 >=? len base) eqn:E; [reflexivity|].
  unfold len in *. rewrite !app_length, firstn_length, skipn_length.
  set (d1 := if q - start <? 0 then skipn (Z.to_nat (- (q - start))) d else d).
  rewrite firstn_length. lia.
Qed.

(* writing [d] at the position that follows the committed data and committing it appends exactly [d] *)
Lemma overlay_exact d start : overlay (zeros (length d)) start start d = d.
Proof.
  unfold overlay. replace (start - start) with 0 by lia. cbn [Z.ltb Z.compare Z.max].
  rewrite len_zeros. destruct (0 >=? Z.of_nat (length d)) eqn:E.
  - destruct d; [reflexivity|cbn [length] in E; lia].
  - cbn [Z.to_nat firstn app]. replace (Z.to_nat (Z.of_nat (length d) - 0)) with (length d) by lia.
    rewrite firstn_all. replace (0 + length d)%nat with (length d) by lia.
    rewrite skipn_all2; [apply app_nil_r|]. clear. induction d; cbn; lia.
Qed.

Lemma overlay_covering base start d : length base = length d -> overlay base start start d = d.
Proof.
  intros H. unfold overlay. replace (start - start) with 0 by lia. cbn [Z.ltb Z.compare Z.max].
  unfold len. destruct (0 >=? Z.of_nat (length base)) eqn:E.
  - destruct base; [destruct d; [reflexivity|discriminate]|cbn [length] in E; lia].
  - cbn [Z.to_nat firstn app]. replace (Z.to_nat (Z.of_nat (length base) - 0)) with (length d) by lia.
    rewrite firstn_all. replace (0 + length d)%nat with (length base) by lia.
    rewrite skipn_all. apply app_nil_r.
Qed.

Theorem rbuf_in_order_append f d :
  rb_n f = len (rb_data f) -> rb_n f + len d <= rb_cap f -> 0 < len d ->
  let '(f1, copied) := rb_write_offset f d 0 in
  copied = len d /\
  exists f2, rb_commit f1 (len d) = Ok f2 /\ rb_data f2 = rb_data f ++ d /\ rb_n f2 = len (rb_data f2) /\
             rb_cap f2 = rb_cap f /\ rb_total f2 = rb_total f + len d.
Proof.
  intros Hn Hfit Hpos. unfold rb_write_offset.
  replace (rb_cap f <=? rb_n f + 0) with false by lia.
  replace (Z.min (len d) (rb_cap f - rb_n f - 0)) with (len d) by lia.
  split; [reflexivity|]. unfold rb_commit. cbn [rb_cap rb_n rb_fut rb_total rb_data set].
  replace (rb_cap f - rb_n f <? len d) with false by lia.
  eexists. split; [reflexivity|]. cbn [rb_data rb_n rb_cap rb_total set].
  replace (rb_total f + 0) with (rb_total f) by lia.
  unfold fut_bytes. cbn [fold_right fst snd].
  replace (Z.to_nat (len d)) with (length d) by (unfold len; lia).
  rewrite firstn_all.
  rewrite overlay_covering.
  - repeat split; auto. rewrite len_app. lia.
  - (* whatever the older extents left there, the length is that of d *)
    assert (G : forall fut n, length (fold_right (fun e acc => overlay acc (rb_total f) (fst e) (snd e)) (zeros n) fut) = n).
    { induction fut as [|e fut IH]; intros n; cbn [fold_right].
      - pose proof (len_zeros n) as L. unfold len in L. lia.
      - pose proof (overlay_len (fold_right (fun e acc => overlay acc (rb_total f) (fst e) (snd e)) (zeros n) fut) (rb_total f) (fst e) (snd e)) as L.
        unfold len in L. rewrite IH in L. lia. }
    apply G.
Qed.


(** ---- payloads are slices of the send buffer ---- *)
Definition pkt_payload (p : bytes) : bytes := skipn 24 p.
Lemma packet_payload_is_slice seq flags offset ln now s ev w s' ev' :
  packet seq flags offset ln now s ev = Ok (w, s', ev') ->
  ev' = ev \/ exists p, ev' = ev ++ [EvPacket p] /\ pkt_payload p = sub (sbuf s) offset ln.
Proof.
  unfold packet, bind, get, put, assert, ret, fault, when, emit, upd.
  destruct (24 + ln <=? MAX_PACKET); [|discriminate].
  cbn [sbuf_n sbuf wr_limit set].
  destruct ((ln =? 0) || (offset + ln <=? sbuf_n s)); [|discriminate].
  destruct (24 + ln >? wr_limit s) eqn:E.
  - destruct (ln =? 0); intros H; inversion H; left; reflexivity.
  - intros H. right. inversion H; subst. eexists. split; [reflexivity|reflexivity].
Qed.

(** ---- a reachable state in which the FIN flush sends data beyond the peer's window (C10, known finding) ---- *)
Definition exec {A} (m : M A) (s : sock) : option (A * sock * list event) :=
  match run m s with Ok r => Some r | Fault => None end.
Fixpoint packets_of (ev : list event) : list bytes :=
  match ev with [] => [] | EvPacket p :: ev' => p :: packets_of ev' | _ :: ev' => packets_of ev' end.

(* A (default buffers) connects to B (1 KiB receive buffer), writes 3000 bytes, then shuts its writing side down *)
Definition fin_flush_scenario : option (Z * Z * Z * Z) :=
  let a0 := sock_init 7 in
  match exec (set_rcv_buf 1024) (sock_init 7) with
  | Some (_, b0, _) =>
    match exec (connect 1000) a0 with
    | Some (_, a1, ea) =>
      match packets_of ea with
      | p0 :: _ =>
        match exec (notify_packet p0 1000) b0 with
        | Some (_, b1, eb) =>
          match packets_of eb with
          | p1 :: _ =>
            match exec (notify_packet p1 1000) a1 with
            | Some (_, a2, _) =>
              match exec (send (repeat 65 3000) 1000) a2 with
              | Some (_, a3, _) =>
                match exec (shutdown_sock 1 1000) a3 with
                | Some (_, a4, _) => Some (snd_wnd a3, w32 (snd_nxt a3 - snd_una a3), snd_wnd a4, w32 (snd_nxt a4 - snd_una a4))
                | None => None end
              | None => None end
            | None => None end
          | [] => None end
        | None => None end
      | [] => None end
    | None => None end
  | None => None end.
