(** C09: concrete reachable states and silent runs (evaluated inside Coq), showing that the hypotheses of the C09 theorems
    are met by non-trivial states and what the actual numbers of rounds are. *)
From Coq Require Import ZArith List Lia Bool.
From RecordUpdate Require Import RecordSet.
From Nice Require Import Base.Bytes Ptcp.PtcpModel Ptcp.TimerInvProofs Ptcp.TimerReachProofs Ptcp.SendSpecs
  Ptcp.SilenceArith Ptcp.SilenceProofs Ptcp.ClockRound Ptcp.SilenceRun Ptcp.BackoffProofs Ptcp.C09Theorems.
Import ListNotations.
Import RecordSetNotations.
Local Open Scope Z_scope.

Definition ex_cfg := {| c_conv := 7; c_nagle := false; c_ack_delay := 100; c_fin_ack := true; c_wnd_scale := true |}.
Fixpoint ex_packets (ev : list event) : list bytes :=
  match ev with [] => [] | EvPacket p :: ev' => p :: ex_packets ev' | _ :: ev' => ex_packets ev' end.
Definition ex_first (ev : list event) : bytes := match ex_packets ev with p :: _ => p | [] => [] end.
Definition ex_closed_events (ev : list event) : list Z :=
  flat_map (fun e => match e with EvClosed x => [x] | _ => [] end) ev.

(** ---- connecting: A calls connect at t = 1000 ms and the peer never answers ---- *)
Definition ex_ops1 : list (Z * op) := [(1000, OConnect)].
Definition ex_s1 : sock := match run_ops ex_ops1 (sock_cfg ex_cfg) with Some (s, _) => s | None => sock_cfg ex_cfg end.

Lemma ex_s1_reach : reach ex_cfg 1000 ex_s1.
Proof.
  apply (run_ops_reach ex_cfg ex_ops1 0 (sock_cfg ex_cfg) ex_s1 (snd (match run_ops ex_ops1 (sock_cfg ex_cfg) with Some r => r | None => (ex_s1, []) end))).
  - apply reach_init.
  - unfold ex_ops1, clock_mono, M32. lia.
  - vm_compute. reflexivity.
Qed.

(* SYN-SENT, the connect segment (7 bytes) in flight, timer armed at 1000 with rx_rto 1000 *)
Lemma ex_s1_facts :
  state ex_s1 = SYN_SENT /\ snd_una ex_s1 = 0 /\ snd_nxt ex_s1 = 7 /\ rto_base ex_s1 = 1000 /\ rx_rto ex_s1 = 1000 /\
  shutdown ex_s1 = SD_NONE /\ snd_wnd ex_s1 = 7 /\ t_ack ex_s1 = 0.
Proof. vm_compute. repeat split; reflexivity. Qed.

Lemma ex_s1_G : G ex_s1 1000 40000.
Proof.
  apply (reach_G ex_cfg 1000 ex_s1 1000 40000 ex_s1_reach).
  - unfold ex_cfg; cbn [c_ack_delay]; lia.
  - lia.
  - lia.
  - apply (nowrap_below_half ex_cfg 1000 ex_s1 40000 ex_s1_reach). unfold HALF. lia.
  - vm_compute. discriminate.
  - vm_compute. discriminate.
  - vm_compute. discriminate.
  - vm_compute. reflexivity.
Qed.

(* the ideal owner: 30 rounds (one per second: the connect-phase cap keeps rx_rto at 1000), then ETIMEDOUT at t = 31000 *)
Definition ex_run1 := ideal_run 30 ex_s1 1000.
Lemma ex_run1_result :
  match ex_run1 with
  | Some (s', now', evs) => st_num (state s') = 4 /\ now' = 31000 /\ ex_closed_events evs = [ETIMEDOUT] /\ length (ex_packets evs) = 30%nat
  | None => False
  end.
Proof. vm_compute. repeat split; reflexivity. Qed.

Lemma ex_run1_silent :
  exists s' evs, ideal_run 30 ex_s1 1000 = Some (s', 31000, evs) /\ state s' = CLOSED /\ In (EvClosed ETIMEDOUT) evs.
Proof.
  vm_compute. eexists. eexists. split; [reflexivity|]. split; [reflexivity|].
  repeat (first [left; reflexivity | right]).
Qed.

(** ---- established: A and B connect, A writes 500 bytes, then B and the network fall silent ---- *)
Definition ex_p0 : bytes := match step OConnect 1000 (sock_cfg ex_cfg) with Some (_, ev) => ex_first ev | None => [] end.
Definition ex_p1 : bytes := match step (OPacket ex_p0) 1010 (sock_cfg ex_cfg) with Some (_, ev) => ex_first ev | None => [] end.
Definition ex_ops2 : list (Z * op) := [(1000, OConnect); (1020, OPacket ex_p1); (1030, OSend (repeat 65 500))].
Definition ex_s2 : sock := match run_ops ex_ops2 (sock_cfg ex_cfg) with Some (s, _) => s | None => sock_cfg ex_cfg end.

Lemma ex_s2_reach : reach ex_cfg 1030 ex_s2.
Proof.
  apply (run_ops_reach ex_cfg ex_ops2 0 (sock_cfg ex_cfg) ex_s2 (snd (match run_ops ex_ops2 (sock_cfg ex_cfg) with Some r => r | None => (ex_s2, []) end))).
  - apply reach_init.
  - unfold ex_ops2, clock_mono, M32. lia.
  - vm_compute. reflexivity.
Qed.

Lemma ex_s2_facts :
  state ex_s2 = ESTABLISHED /\ snd_una ex_s2 = 7 /\ snd_nxt ex_s2 = 507 /\ rto_base ex_s2 = 1030 /\ rx_rto ex_s2 = 1000 /\
  shutdown ex_s2 = SD_NONE /\ snd_wnd ex_s2 = 61440 /\ hdx (slist ex_s2) = 1 /\ hdseq (slist ex_s2) = 7 /\ wr_limit ex_s2 = 65535.
Proof. vm_compute. repeat split; reflexivity. Qed.

Lemma ex_s2_G : G ex_s2 1030 1000000.
Proof.
  apply (reach_G ex_cfg 1030 ex_s2 1030 1000000 ex_s2_reach).
  - unfold ex_cfg; cbn [c_ack_delay]; lia.
  - lia.
  - lia.
  - apply (nowrap_below_half ex_cfg 1030 ex_s2 1000000 ex_s2_reach). unfold HALF. lia.
  - vm_compute. discriminate.
  - vm_compute. discriminate.
  - vm_compute. discriminate.
  - vm_compute. reflexivity.
Qed.

(* 152 rounds of the ideal owner (14 retransmissions at 1, 2, 4, ... 32, 60, 60, ... s; 4 s idle rounds in between),
   then ETIMEDOUT at t = 604030 ms *)
Definition ex_run2 := ideal_run 152 ex_s2 1030.
Lemma ex_run2_result :
  match ex_run2 with
  | Some (s', now', evs) => st_num (state s') = 4 /\ now' = 604030 /\ ex_closed_events evs = [ETIMEDOUT]
  | None => False
  end.
Proof. vm_compute. repeat split; reflexivity. Qed.

(* after 12 rounds: 5 time-out retransmissions (at 2030, 4030, 8030, 16030, 32030), rx_rto = 32000 = min (60000, 1000 * 2^5) *)
Definition ex_run2_12 := ideal_run 12 ex_s2 1030.
Lemma ex_run2_12_result :
  match ex_run2_12 with
  | Some (s', now', evs) => st_num (state s') = 3 /\ now' = 44030 /\ rx_rto s' = backoff 60000 1000 5 /\ rx_rto s' = 32000 /\
                            hdx (slist s') = 6 /\ length (ex_packets evs) = 5%nat
  | None => False
  end.
Proof. vm_compute. repeat split; reflexivity. Qed.

Lemma ex_run2_silent :
  exists s' evs, ideal_run 152 ex_s2 1030 = Some (s', 604030, evs) /\ state s' = CLOSED /\ In (EvClosed ETIMEDOUT) evs.
Proof.
  vm_compute. eexists. eexists. split; [reflexivity|]. split; [reflexivity|].
  repeat (first [left; reflexivity | right]).
Qed.
