(** C08, end of stream: CLOSE_WAIT (the peer closed its sending side gracefully, we have not closed yet) is only ever entered by the FIN
    handling of [process] on a received FIN; hence in CLOSE_WAIT the peer's FIN has been consumed and (ReceiverEosProofs) every byte the peer
    wrote has been delivered or is buffered.  The model is untouched. *)
From Coq Require Import ZArith List Bool Lia ZifyBool.
From RecordUpdate Require Import RecordSet.
From Nice Require Import Base.Bytes Ptcp.PtcpModel Ptcp.PtcpProofs Ptcp.ReassemblyProofs Ptcp.PtcpHoare Ptcp.SockOps Ptcp.SenderInvProofs
                         Ptcp.ReceiverInvProofs Ptcp.ProcessPhases Ptcp.ReceiverProcessProofs Ptcp.ReceiverSoundProofs Ptcp.ReceiverEosProofs.
Import ListNotations.
Import RecordSetNotations.
Local Open Scope Z_scope.
Local Open Scope bool_scope.

(** ---- no function but the FIN handling enters CLOSE_WAIT ---- *)
Definition cwr (s s' : sock) : Prop := state s' = CLOSE_WAIT -> state s = CLOSE_WAIT.
Lemma cwr_refl s : cwr s s. Proof. intros H; exact H. Qed.
Lemma cwr_trans a b c : cwr a b -> cwr b c -> cwr a c. Proof. unfold cwr. auto. Qed.
Definition cwf {A} (m : M A) : Prop := forall s ev, wp m s ev (fun _ s' _ => cwr s s').
Lemma wp_bind_cw {A B} (m : M A) (f : A -> M B) s ev Q :
  cwf m -> (forall a s1 ev1, cwr s s1 -> wp (f a) s1 ev1 Q) -> wp (bind m f) s ev Q.
Proof. intros Hm Hf. eapply wp_bind_spec; [apply Hm|exact Hf]. Qed.
Ltac cw_triv := solve [unfold cwr; cbn; auto].
Ltac cw_chain :=
  lazymatch goal with |- cwr _ _ => idtac end;
  repeat match goal with H : cwr ?a ?c |- cwr ?a _ => eapply cwr_trans; [exact H|]; clear H end;
  first [ apply cwr_refl | cw_triv | eapply cwr_trans; [|eassumption]; cw_triv | idtac ].
Ltac cw_call L := eapply wp_bind_cw; [apply L; try discriminate|intros ? ? ? ?].
Ltac cw_last L := eapply wp_conseq; [apply L; try discriminate|cbv beta; intros ? ? ? ?; cw_chain].

Lemma set_state_cwf n : n <> CLOSE_WAIT -> cwf (set_state n).
Proof.
  intros Hn s ev. unfold set_state. wp_prims. destruct (st_eqb (state s) n) eqn:E; wp_prims; [apply cwr_refl|].
  unfold cwr; cbn. intros Hc. congruence.
Qed.
Lemma state_eq_cwr s s' : state s' = state s -> cwr s s'. Proof. unfold cwr. congruence. Qed.
Lemma packet_cwf a b c d e : cwf (packet a b c d e).
Proof. intros s ev. eapply wp_conseq; [apply packet_state|]. cbv beta. intros; apply state_eq_cwr; assumption. Qed.
Lemma transmit_cwf i now : cwf (transmit i now).
Proof. intros s ev. eapply wp_conseq; [apply transmit_state|]. cbv beta. intros; apply state_eq_cwr; assumption. Qed.

Lemma adjustMTU_cwf : cwf adjustMTU.
Proof. intros s ev. unfold adjustMTU. wp_prims. cw_triv. Qed.

Lemma set_state_closed_cwf err : cwf (set_state_closed err).
Proof.
  intros s ev. unfold set_state_closed. cw_call set_state_cwf.
  apply wp_when; intros _; [wp_prims|]; cw_chain.
Qed.

Lemma closedown_states_cwf : cwf closedown_states.
Proof.
  intros s ev. unfold closedown_states. wp_prims.
  destruct (state s); wp_prims; try apply cwr_refl;
  repeat (cw_call set_state_cwf); cw_last set_state_cwf.
Qed.

Lemma closedown_remote_cwf err : cwf (closedown_remote err).
Proof. intros s ev. unfold closedown_remote. cw_call closedown_states_cwf. cw_last set_state_closed_cwf. Qed.

Lemma queue_cwf d f : cwf (queue d f).
Proof.
  intros s ev. unfold queue. wp_prims. destruct (len d >? sb_remaining s); wp_prims; cw_triv.
Qed.

Lemma queue_connect_cwf : cwf queue_connect_message.
Proof.
  intros s ev. unfold queue_connect_message. wp_prims.
  eapply wp_bind_spec; [apply queue_cwf|]. cbv beta. intros _ s1 ev1 F. wp_prims. eapply cwr_trans; [|exact F]. cw_triv.
Qed.

Lemma queue_fin_cwf : cwf queue_fin_message.
Proof. intros s ev. unfold queue_fin_message. wp_prims. cw_call queue_cwf. wp_prims. cw_chain. Qed.

Lemma queue_rst_cwf : cwf queue_rst_message.
Proof. intros s ev. unfold queue_rst_message. wp_prims. cw_call queue_cwf. wp_prims. cw_chain. Qed.

Lemma set_state_established_cwf : cwf set_state_established.
Proof. intros s ev. unfold set_state_established. cw_call set_state_cwf. cw_call adjustMTU_cwf. wp_prims. cw_chain. Qed.

Lemma attempt_send_loop_cwf fuel : forall sflags now, cwf (attempt_send_loop fuel sflags now).
Proof.
  induction fuel as [|f IH]; intros sflags now s ev; cbn [attempt_send_loop]; [apply wp_fault|].
  wp_prims.
  destruct (sf_eqb sflags sfDuplicateAck).
  { cw_call packet_cwf. eapply wp_conseq; [apply IH|]. cbv beta. intros; cw_chain. }
  match goal with |- context [if ?a >? ?u then (if ?c then 0 else ?u) else ?a] =>
    set (nAvailable := if a >? u then (if c then 0 else u) else a) in * end.
  clearbody nAvailable.
  destruct ((nAvailable =? 0) && _).
  { destruct (sf_eqb sflags sfNone); [wp_prims; apply cwr_refl|].
    destruct (_ || _).
    - cw_call packet_cwf. wp_prims. cw_chain.
    - wp_prims. cw_triv. }
  destruct (use_nagling s && _ && _ && _); [wp_prims; apply cwr_refl|].
  destruct (first_unsent (slist s) 0) as [i|]; [|wp_prims; apply cwr_refl].
  destruct (nth_error (slist s) i) as [g|] eqn:N; [|apply wp_fault].
  match goal with |- wp (bind ?m _) _ _ _ => set (spl := m) end.
  assert (Hspl : wp spl s ev (fun _ s' _ => cwr s s')).
  { unfold spl. destruct (_ && _); wp_prims; [cw_triv|apply cwr_refl]. }
  eapply wp_bind_spec; [exact Hspl|]. cbv beta. intros _ s1 ev1 F1.
  cw_call transmit_cwf.
  destruct (negb (a =? 0)).
  - eapply wp_conseq; [apply closedown_remote_cwf|]. cbv beta. intros; cw_chain.
  - eapply wp_conseq; [apply IH|]. cbv beta. intros; cw_chain.
Qed.

Lemma attempt_send_cwf sflags now : cwf (attempt_send sflags now).
Proof.
  intros s ev. unfold attempt_send. wp_prims.
  apply wp_bind_when; intros _; wp_prims.
  - eapply wp_conseq; [apply attempt_send_loop_cwf|]. cbv beta. intros. eapply cwr_trans; [|eassumption]. cw_triv.
  - apply attempt_send_loop_cwf.
Qed.

Lemma closedown_cwf err local now : cwf (closedown err local now).
Proof.
  intros s ev. unfold closedown. wp_prims.
  match goal with |- wp (bind ?m _) _ _ _ => set (pre := m) end.
  assert (Hpre : wp pre s ev (fun _ s' _ => cwr s s')).
  { unfold pre. destruct (local && support_fin_ack s).
    - cw_call queue_rst_cwf. eapply wp_conseq; [apply attempt_send_cwf|]. cbv beta. intros; cw_chain.
    - destruct local; wp_prims; [cw_triv|apply cwr_refl]. }
  eapply wp_bind_spec; [exact Hpre|]. cbv beta. intros _ s1 ev1 F1.
  cw_call closedown_states_cwf. eapply wp_conseq; [apply set_state_closed_cwf|]. cbv beta. intros; cw_chain.
Qed.

Lemma notify_mtu_cwf mtu : cwf (notify_mtu mtu).
Proof.
  intros s ev. unfold notify_mtu. wp_prims. apply wp_when; intros _; [|cw_triv].
  eapply wp_conseq; [apply adjustMTU_cwf|]. cbv beta. intros _ s1 ev1 F. eapply cwr_trans; [|exact F]. cw_triv.
Qed.

Lemma set_snd_buf_cwf n : cwf (set_snd_buf n).
Proof. intros s ev. unfold set_snd_buf. wp_prims. destruct (st_eqb _ _); wp_prims; [cw_triv|apply cwr_refl]. Qed.

Lemma get_next_clock_cwf timeout now : cwf (get_next_clock timeout now).
Proof.
  intros s ev. unfold get_next_clock. wp_prims.
  assert (Hcd : forall err, wp (closedown err false now;;; ret (@None Z)) s ev (fun _ s' _ => cwr s s')).
  { intros err. cw_call closedown_cwf. wp_prims. cw_chain. }
  destruct (shutdown s); try apply Hcd; cbn [andb].
  - repeat match goal with |- wp (if ?b then _ else _) _ _ _ => destruct b end; wp_prims; apply cwr_refl.
  - repeat match goal with |- wp (if ?b then _ else _) _ _ _ => destruct b end; try apply Hcd; wp_prims; apply cwr_refl.
Qed.

Lemma notify_clock_cwf now : cwf (notify_clock now).
Proof.
  intros s ev. unfold notify_clock. wp_prims.
  destruct (st_eqb (state s) CLOSED); [wp_prims; apply cwr_refl|].
  eapply wp_bind_cw; [intros s' ev'; apply wp_when; intros _; [apply set_state_closed_cwf|apply cwr_refl]|].
  intros _ s1 ev1 F1. wp_prims.
  apply (wp_bind_spec _ _ _ _ (fun _ s' _ => cwr s s')).
  { assert (Hq : wp (queue_fin_message;;; attempt_send sfFin now;;; ret true) s1 ev1 (fun _ s' _ => cwr s s')).
    { cw_call queue_fin_cwf. cw_call attempt_send_cwf. wp_prims. cw_chain. }
    destruct (_ && _); [|wp_prims; cw_chain]. destruct (last_seg _) as [g|]; [|exact Hq]. destruct (_ && _); [|exact Hq].
    eapply wp_bind_cw; [apply transmit_cwf|]. intros st s2 ev2 F2. destruct (negb (st =? 0)).
    - cw_call closedown_cwf. wp_prims. cw_chain.
    - wp_prims. cw_chain. }
  cbv beta. intros r0 s2 ev2 F2. clear F1. destruct (negb r0); [wp_prims; exact F2|]. wp_prims.
  apply (wp_bind_spec _ _ _ _ (fun _ s' _ => cwr s s')).
  { destruct (_ && _); [|wp_prims; cw_chain]. destruct (slist s2); [apply wp_fault|].
    eapply wp_bind_cw; [apply transmit_cwf|]. intros st s3 ev3 F3. destruct (negb (st =? 0)).
    - cw_call closedown_cwf. wp_prims. cw_chain.
    - wp_prims. destruct (dup_acks s3 >=? 3); cw_chain. }
  cbv beta. intros r1 s3 ev3 F3. clear F2. destruct (negb r1); [wp_prims; exact F3|]. wp_prims.
  apply (wp_bind_spec _ _ _ _ (fun _ s' _ => cwr s s')).
  { destruct (_ && _); [|wp_prims; exact F3]. destruct (time_diff now (lastrecv s3) >=? 15000).
    - cw_call closedown_cwf. wp_prims. cw_chain.
    - cw_call packet_cwf. wp_prims. cw_chain. }
  cbv beta. intros r2 s4 ev4 F4. destruct (negb r2); [wp_prims; exact F4|]. wp_prims.
  apply wp_when; intros _; [|exact F4].
  cw_call packet_cwf. wp_prims. cw_chain.
Qed.

Lemma send_cwf data now : cwf (send data now).
Proof.
  intros s ev. unfold send. wp_prims.
  destruct (negb (st_eqb (state s) ESTABLISHED)); [wp_prims; cw_triv|].
  destruct (sb_remaining s =? 0); [wp_prims; cw_triv|].
  cw_call queue_cwf. cw_call attempt_send_cwf.
  apply wp_bind_when; intros _; wp_prims; cw_chain.
Qed.

Lemma shutdown_sock_cwf how now : cwf (shutdown_sock how now).
Proof.
  intros s ev. unfold shutdown_sock. wp_prims.
  destruct (negb (support_fin_ack s)).
  { apply wp_when; intros E; wp_prims; [cw_triv|apply cwr_refl]. }
  eapply wp_bind_cw; [intros s' ev'; apply wp_when; intros _; wp_prims; cw_triv|]. intros _ s1 ev1 F1.
  destruct (how =? 0); [wp_prims; cw_chain|]. wp_prims.
  assert (Hfin : forall n, n <> CLOSE_WAIT ->
    wp (queue_fin_message;;; attempt_send sfFin now;;; s <- get;; when (negb (st_eqb (state s) CLOSED)) (set_state n)) s1 ev1
       (fun _ s' _ => cwr s s')).
  { intros n N1. cw_call queue_fin_cwf. cw_call attempt_send_cwf. wp_prims.
    apply wp_when; intros _; [|cw_chain].
    eapply wp_conseq; [apply set_state_cwf; assumption|]. cbv beta. intros; cw_chain. }
  destruct (state s1); try (wp_prims; cw_chain); try (apply Hfin; discriminate).
  - eapply wp_conseq; [apply set_state_closed_cwf|]. cbv beta. intros; cw_chain.
  - eapply wp_conseq; [apply set_state_closed_cwf|]. cbv beta. intros; cw_chain.
  - destruct (rb_buffered s1 >? 0); [|apply Hfin; discriminate].
    eapply wp_conseq; [apply closedown_cwf|]. cbv beta. intros; cw_chain.
  - destruct (rb_buffered s1 >? 0); [|apply Hfin; discriminate].
    eapply wp_conseq; [apply closedown_cwf|]. cbv beta. intros; cw_chain.
Qed.

Lemma close_sock_cwf force now : cwf (close_sock force now).
Proof.
  intros s ev. unfold close_sock. wp_prims. destruct (_ && _); [apply closedown_cwf|apply shutdown_sock_cwf].
Qed.

Lemma resize_cwf n : cwf (resize_receive_buffer n).
Proof.
  intros s ev. eapply wp_conseq; [apply resize_rspec|]. cbv beta. intros _ s' _ [(-> & _)|(_ & _ & Hr)]; [apply cwr_refl|].
  destruct (rscale 33 n 0) as [sz sf]. destruct Hr as (_ & _ & _ & _ & _ & _ & R7 & _). apply state_eq_cwr. exact R7.
Qed.

Lemma parse_options_cwf d : cwf (parse_options d).
Proof.
  intros s ev. eapply wp_conseq; [apply parse_options_rspec|]. cbv beta. intros _ s' _ (_ & _ & [F|(_ & R)]); apply state_eq_cwr.
  - apply F.
  - apply R.
Qed.

Lemma recover_rlist_cwf fuel : forall sf, cwf (recover_rlist fuel sf).
Proof.
  induction fuel as [|f IH]; intros sf s ev; cbn [recover_rlist]; [wp_prims; apply cwr_refl|].
  wp_prims. destruct (rlist s) as [|r rl]; [wp_prims; apply cwr_refl|].
  destruct (SMALLER_OR_EQUAL _ _); [|wp_prims; apply cwr_refl].
  destruct (LARGER _ _).
  - destruct (rb_commit _ _); [|apply wp_fault]. wp_prims.
    eapply wp_conseq; [apply IH|cbv beta; intros ? ? ? ?]. eapply cwr_trans; [|eassumption]. cw_triv.
  - wp_prims. eapply wp_conseq; [apply IH|cbv beta; intros ? ? ? ?]. eapply cwr_trans; [|eassumption]. cw_triv.
Qed.

Lemma connect_cwf now : cwf (connect now).
Proof.
  intros s ev. unfold connect. wp_prims. destruct (negb (st_eqb (state s) LISTEN)); [wp_prims; cw_triv|].
  cw_call set_state_cwf. cw_call queue_connect_cwf. cw_call attempt_send_cwf. wp_prims. cw_chain.
Qed.

Lemma recv_cwf n now : cwf (recv n now).
Proof.
  intros s ev. unfold recv. wp_prims.
  repeat match goal with |- wp (if ?b then _ else _) _ _ _ => destruct b; [wp_prims; first [apply cwr_refl|cw_triv]|] end.
  wp_prims. destruct (_ && _); [wp_prims; cw_triv|].
  apply (wp_bind_spec _ _ _ _ (fun _ s' _ => cwr s s')); [|cbv beta; intros _ s3 ev3 F3; wp_prims; exact F3].
  destruct (_ >=? _); [|wp_prims; cw_triv]. wp_prims.
  apply wp_when; intros _; [|cw_triv].
  eapply wp_conseq; [apply attempt_send_cwf|]. cbv beta. intros _ s3 _ F3. eapply cwr_trans; [|exact F3]. cw_triv.
Qed.

Lemma set_rcv_buf_cwf n : cwf (set_rcv_buf n).
Proof. intros s ev. unfold set_rcv_buf. wp_prims. destruct (st_eqb _ _); [apply resize_cwf|wp_prims; apply cwr_refl]. Qed.

(** ---- fields the end-of-stream criterion looks at ---- *)
Definition nf (s s' : sock) : Prop := rcv_nxt s' = rcv_nxt s /\ rcv_fin s' = rcv_fin s.
Definition kp (s s' : sock) : Prop := nf s s' /\ cwr s s'.
Lemma kp_refl s : kp s s. Proof. split; [split; reflexivity|apply cwr_refl]. Qed.
Lemma kp_trans a b c : kp a b -> kp b c -> kp a c.
Proof. intros ((A1 & A2) & A3) ((B1 & B2) & B3). split; [split; congruence|eapply cwr_trans; eauto]. Qed.
Lemma same_rcv_nf s s' : same_rcv s s' -> nf s s'. Proof. intros (_ & E2 & _ & E4 & _). split; assumption. Qed.
Definition kpf {A} (m : M A) : Prop := forall s ev, wp m s ev (fun _ s' _ => kp s s').
Lemma kpf_of {A} (m : M A) : rframes m -> cwf m -> kpf m.
Proof.
  intros H1 H2 s ev. eapply wp_conseq; [apply wp_and; [apply H1|apply H2]|]. cbv beta. intros _ s' _ (F & C). split; [apply same_rcv_nf; exact F|exact C].
Qed.

(* the peer's FIN has been consumed *)
Definition Jcw (s : sock) : Prop := state s = CLOSE_WAIT -> 0 < rcv_fin s /\ rcv_nxt s = rcv_fin s + 1.
Lemma Jcw_kp s s' : Jcw s -> kp s s' -> Jcw s'.
Proof. intros J ((N1 & N2) & C) H. rewrite N1, N2. apply J. apply C. exact H. Qed.

(* how the acknowledgement phase can end *)
Lemma ack_phase_exit seg now s ev :
  wp (ack_phase seg now s) s ev (fun _ s' _ => state s' = CLOSED \/ state s' = state s).
Proof.
  unfold ack_phase; cbv zeta.
      destruct (LARGER (g_ack seg) (snd_una s) && SMALLER_OR_EQUAL (g_ack seg) (snd_nxt s)).
      - apply (wp_bind_spec _ _ _ _ (fun _ s' _ => state s' = state s)).
        { destruct (negb (g_tsecr seg =? 0)); [|wp_prims; reflexivity].
          destruct (time_diff now (g_tsecr seg) >=? 0); wp_prims; [|reflexivity]. destruct (rx_srtt s =? 0); reflexivity. }
        cbv beta. intros rttok s1 ev2 E1. destruct (negb rttok); [wp_prims; right; exact E1|]. wp_prims.
        destruct (ack_slist _ _ _ _) as [[sl lg]|]; [|apply wp_fault]. wp_prims.
        match goal with |- wp _ ?s2 _ _ => assert (E2 : state s2 = state s) by exact E1; set (s2' := s2) in *; clearbody s2' end.
        destruct (dup_acks s2' >=? 3).
        + destruct (LARGER_OR_EQUAL _ _); [wp_prims; right; rewrite <- E2; reflexivity|].
          destruct (_ && _); [wp_prims; right; rewrite <- E2; reflexivity|].
          apply (wp_bind_spec _ _ _ _ (fun _ s' _ => state s' = state s)).
          { destruct (slist s2'); [apply wp_fault|]. eapply wp_conseq; [apply transmit_state|]. cbv beta. intros; congruence. }
          cbv beta. intros st s3 ev3 E3. destruct (negb (st =? 0)).
          * eapply wp_bind_spec; [apply closedown_rspec|]. cbv beta. intros _ sc evc (_ & Ec). wp_prims. left; exact Ec.
          * wp_prims. right; rewrite <- E3; reflexivity.
        + wp_prims. right; rewrite <- E2; reflexivity.
      - destruct (g_ack seg =? snd_una s); [|wp_prims; right; reflexivity]. wp_prims.
        match goal with |- wp _ ?s2 _ _ => assert (E2 : state s2 = state s) by reflexivity; set (s2' := s2) in *; clearbody s2' end.
        destruct (len (g_data seg) >? 0); [wp_prims; right; rewrite <- E2; reflexivity|].
        destruct (negb (snd_una s2' =? snd_nxt s2')); [|wp_prims; right; rewrite <- E2; reflexivity].
        wp_prims.
        match goal with |- wp _ ?s3 _ _ => assert (E3 : state s3 = state s) by exact E2; set (s3' := s3) in *; clearbody s3' end.
        destruct (dup_acks s3' =? 3).
        + destruct (_ || _); [|wp_prims; right; rewrite <- E3; reflexivity].
          apply (wp_bind_spec _ _ _ _ (fun _ s' _ => state s' = state s)).
          { destruct (slist s3'); [apply wp_fault|]. eapply wp_conseq; [apply transmit_state|]. cbv beta. intros; congruence. }
          cbv beta. intros st s4 ev4 E4. destruct (negb (st =? 0)).
          * eapply wp_bind_spec; [apply closedown_rspec|]. cbv beta. intros _ sc evc (_ & Ec). wp_prims. left; exact Ec.
          * wp_prims. right; rewrite <- E4; reflexivity.
        + destruct (dup_acks s3' >? 3); [|wp_prims; right; rewrite <- E3; reflexivity].
          apply wp_bind_when; intros _; wp_prims; right; rewrite <- E3; reflexivity. 
Qed.

(** ---- the FIN phase: the only place where CLOSE_WAIT is entered, and only on a received FIN ---- *)
Definition fk (s s' : sock) : Prop :=
  rcv_nxt s' = rcv_nxt s /\ rbuf s' = rbuf s /\ support_fin_ack s' = support_fin_ack s /\ rcv_fin s' = rcv_fin s.
Lemma fk_refl s : fk s s. Proof. repeat split. Qed.
Lemma set_state_fk n s ev : wp (set_state n) s ev (fun _ s' _ => fk s s').
Proof. unfold set_state. wp_prims. destruct (st_eqb _ _); wp_prims; [apply fk_refl|unfold fk; cbn; repeat split]. Qed.
Lemma set_state_closed_fk e s ev : wp (set_state_closed e) s ev (fun _ s' _ => fk s s').
Proof.
  unfold set_state_closed. eapply wp_bind_spec; [apply set_state_fk|]. cbv beta. intros _ s1 ev1 F.
  apply wp_when; intros _; [wp_prims|]; exact F.
Qed.

Lemma fin_phase_J seg fa s ev :
  wp (fin_phase seg fa s) s ev (fun finr s' _ =>
    rcv_nxt s' = rcv_nxt s /\ rbuf s' = rbuf s /\ (forall b, support_fin_ack s = b -> support_fin_ack s' = b) /\
    (rcv_fin s' = rcv_fin s \/ (has_flag (g_flags seg) FLAG_FIN = true /\ rcv_fin s' = g_seq seg)) /\
    (state s' = CLOSE_WAIT -> state s = CLOSE_WAIT \/ finr = Some true)).
Proof.
  unfold fin_phase; cbv zeta.
  destruct (support_fin_ack s) eqn:Esfa; [|wp_prims; repeat split; auto; intros b <-; exact Esfa].
  apply (wp_bind_spec _ _ _ _ (fun _ s2 _ => rcv_nxt s2 = rcv_nxt s /\ rbuf s2 = rbuf s /\ support_fin_ack s2 = true /\
            (rcv_fin s2 = rcv_fin s \/ (has_flag (g_flags seg) FLAG_FIN = true /\ rcv_fin s2 = g_seq seg)) /\ state s2 = state s)).
  { apply wp_when; intros Ef; [wp_prims; cbn; repeat split; auto|repeat split; auto]. }
  cbv beta. intros _ s2 ev2 (A1 & A2 & A3 & A4 & A5).
  destruct (_ && negb _); [wp_prims; split; [exact A1|]; split; [exact A2|]; split; [intros b <-; exact A3|]; split; [exact A4|]; intros H; left; congruence|]. wp_prims.
  set (rf := negb (rcv_nxt s2 =? 0) && (g_seq seg =? rcv_nxt s2) && (len (g_data seg) <=? rb_remaining s2) &&
             (w32 (rcv_nxt s2 + len (g_data seg)) =? rcv_fin s2)).
  assert (Hgen : forall m : M unit,
            wp m s2 ev2 (fun _ s' _ => fk s2 s') -> wp m s2 ev2 (fun _ s' _ => state s' = CLOSE_WAIT -> state s2 = CLOSE_WAIT \/ rf = true) ->
            wp (m ;;; ret (Some rf)) s2 ev2 (fun finr s' _ =>
              rcv_nxt s' = rcv_nxt s /\ rbuf s' = rbuf s /\ (forall b : bool, true = b -> support_fin_ack s' = b) /\
              (rcv_fin s' = rcv_fin s \/ (has_flag (g_flags seg) FLAG_FIN = true /\ rcv_fin s' = g_seq seg)) /\
              (state s' = CLOSE_WAIT -> state s = CLOSE_WAIT \/ finr = Some true))).
  { intros m H1 H2. eapply wp_bind_spec; [apply wp_and; [exact H1|exact H2]|]. cbv beta. intros _ s3 ev3 ((B1 & B2 & B3 & B4) & B5).
    wp_prims. split; [congruence|]. split; [congruence|]. split; [intros b <-; congruence|]. split; [rewrite B4; exact A4|].
    intros H. destruct (B5 H) as [K|K]; [left; congruence|right; rewrite K; reflexivity]. }
  assert (Hcw : forall m : M unit, cwf m -> wp m s2 ev2 (fun _ s' _ => state s' = CLOSE_WAIT -> state s2 = CLOSE_WAIT \/ rf = true)).
  { intros m Hm. eapply wp_conseq; [apply Hm|]. cbv beta. intros _ s' _ C H. left. apply C. exact H. }
  assert (Hret : wp (ret tt) s2 ev2 (fun _ s' _ => fk s2 s') /\
                 wp (ret tt) s2 ev2 (fun _ s' _ => state s' = CLOSE_WAIT -> state s2 = CLOSE_WAIT \/ rf = true)).
  { split; wp_prims; [apply fk_refl|auto]. }
  destruct Hret as (Hr1 & Hr2).
  destruct (state s2) eqn:Est; try (apply Hgen; [exact Hr1|exact Hr2]); apply Hgen.
  - (* ESTABLISHED *) apply wp_when; intros _; [apply set_state_fk|apply fk_refl].
  - apply wp_when; intros E; [|intros H; congruence]. eapply wp_conseq; [apply set_state_post|]. cbv beta. intros _ s' _ _ _. right. exact E.
  - (* FIN_WAIT_1 *) repeat match goal with |- wp (if ?b then _ else _) _ _ _ => destruct b end; try (apply wp_when; intros _; [|apply fk_refl]); apply set_state_fk.
  - repeat match goal with |- wp (if ?b then _ else _) _ _ _ => destruct b end; try (apply wp_when; intros _; [|intros H; congruence]);
      (eapply wp_conseq; [apply set_state_cwf; discriminate|]; cbv beta; intros _ s' _ C H; left; rewrite <- Est; apply C; exact H).
  - (* FIN_WAIT_2 *) apply wp_when; intros _; [apply set_state_fk|apply fk_refl].
  - apply wp_when; intros _; [|intros H; congruence]. eapply wp_conseq; [apply set_state_cwf; discriminate|]. cbv beta. intros _ s' _ C H. left. rewrite <- Est. apply C. exact H.
  - (* CLOSING *) apply wp_when; intros _; [apply set_state_fk|apply fk_refl].
  - apply wp_when; intros _; [|intros H; congruence]. eapply wp_conseq; [apply set_state_cwf; discriminate|]. cbv beta. intros _ s' _ C H. left. rewrite <- Est. apply C. exact H.
  - (* LAST_ACK *) apply wp_when; intros _; [apply set_state_closed_fk|apply fk_refl].
  - apply wp_when; intros _; [|intros H; congruence]. eapply wp_conseq; [apply set_state_closed_cwf|]. cbv beta. intros _ s' _ C H. left. rewrite <- Est. apply C. exact H.
Qed.

(** ---- the data phase keeps the state and the recorded FIN position; once the FIN is consumed it does nothing ---- *)
Definition ck (s s' : sock) : Prop := cwr s s' /\ rcv_fin s' = rcv_fin s.
Lemma ck_refl s : ck s s. Proof. split; [apply cwr_refl|reflexivity]. Qed.
Lemma ck_trans a b c : ck a b -> ck b c -> ck a c.
Proof. intros (A1 & A2) (B1 & B2). split; [eapply cwr_trans; eauto|congruence]. Qed.

Lemma recover_rlist_ck fuel : forall sf s ev, wp (recover_rlist fuel sf) s ev (fun _ s' _ => ck s s').
Proof.
  induction fuel as [|f IH]; intros sf s ev; cbn [recover_rlist]; [wp_prims; apply ck_refl|].
  wp_prims. destruct (rlist s) as [|r rl]; [wp_prims; apply ck_refl|].
  destruct (SMALLER_OR_EQUAL _ _); [|wp_prims; apply ck_refl].
  destruct (LARGER _ _).
  - destruct (rb_commit _ _); [|apply wp_fault]. wp_prims.
    eapply wp_conseq; [apply IH|cbv beta; intros ? ? ? ?]. eapply ck_trans; [|eassumption]. split; [cw_triv|reflexivity].
  - wp_prims. eapply wp_conseq; [apply IH|cbv beta; intros ? ? ? ?]. eapply ck_trans; [|eassumption]. split; [cw_triv|reflexivity].
Qed.

Lemma data_phase_ck seg rf s q d ev : wp (data_phase seg rf s q d) s ev (fun _ s' _ => ck s s').
Proof.
  unfold data_phase; cbv zeta.
  destruct (len _ >? 0); [|wp_prims; apply ck_refl].
  destruct (_ || _); [apply wp_bind_when; intros _; wp_prims; (split; [cw_triv|reflexivity])|].
  destruct (rb_write_offset _ _ _) as [rb1 res]. wp_prims.
  destruct (q =? rcv_nxt s).
  - destruct (rb_commit rb1 _); [|apply wp_fault]. wp_prims.
    eapply wp_bind_spec; [apply recover_rlist_ck|]. cbv beta. intros sf s3 ev3 F3. wp_prims.
    eapply ck_trans; [|exact F3]. split; [cw_triv|reflexivity].
  - wp_prims. split; [cw_triv|reflexivity].
Qed.

Lemma data_phase_noop S cl now seg rf s ev :
  honest S cl now seg -> len S + 2 < NW -> rcv_nxt s = len S + 1 ->
  wp (let '(q, d) := trim_left seg s in data_phase seg rf s q d) s ev (fun _ s' _ => s' = s).
Proof.
  intros Hh NWr Hn. change (trim_left seg s) with (trimL (g_seq seg) (g_data seg) (rcv_nxt s)).
  assert (Hrn : 0 <= rcv_nxt s < NW) by (unfold len in *; lia).
  assert (Hsl : g_data seg <> [] -> slice_at S (g_seq seg) (g_data seg)).
  { intros Hd. destruct Hh as (Hh1 & _). destruct (Hh1 Hd) as (Q0 & Q1 & Q2 & _). repeat split; assumption. }
  pose proof (trimL_ok S (g_seq seg) (g_data seg) (rcv_nxt s) NWr Hrn Hsl) as Ht.
  destruct (trimL (g_seq seg) (g_data seg) (rcv_nxt s)) as [seq1 data1]. cbn [fst snd] in Ht. destruct Ht as (Ht1 & _ & Ht3).
  assert (Hd1 : data1 = []).
  { destruct (g_data seg) as [|x d'] eqn:Ed.
    - destruct Ht1 as [E|(_ & _ & T3 & T4 & T5)]; [exact E|]. exfalso. apply T5. destruct data1; [reflexivity|].
      unfold len in T4. cbn [length] in T4. lia.
    - apply Ht3; [discriminate|]. assert (Hne : x :: d' <> []) by discriminate. destruct (Hsl Hne) as (_ & S2 & _). lia. }
  subst data1. unfold data_phase; cbv zeta. cbn [len length Z.of_nat].
  assert (E0 : forall c : bool, len (if c then [] else
              (if w32 (seq1 + 0 - rcv_nxt s) >? rb_remaining s
               then if w32 (seq1 + 0 - rcv_nxt s - rb_remaining s) <? 0 then firstn (Z.to_nat (0 - w32 (seq1 + 0 - rcv_nxt s - rb_remaining s))) [] else []
               else [])) >? 0 = false).
  { intros c. destruct c; [reflexivity|]. destruct (_ >? rb_remaining s); [|reflexivity]. destruct (_ <? 0); [rewrite firstn_nil|]; reflexivity. }
  rewrite E0. wp_prims. reflexivity.
Qed.

Lemma set_state_kp n : n <> CLOSE_WAIT -> kpf (set_state n).
Proof.
  intros Hn s ev. eapply wp_conseq; [apply wp_and; [apply set_state_fk|apply set_state_cwf; exact Hn]|]. cbv beta.
  intros _ s' _ ((F1 & _ & _ & F4) & C). split; [split; assumption|exact C].
Qed.

Lemma ctl_phase_kp seg : kpf (ctl_phase seg).
Proof.
  intros s ev. unfold ctl_phase. destruct (has_flag _ _); [|wp_prims; apply kp_refl].
  destruct (g_data seg) as [|c0 opts]; [wp_prims; apply kp_refl|]. destruct (c0 =? 0); [|wp_prims; apply kp_refl].
  eapply wp_bind_spec; [apply parse_options_rspec|]. cbv beta. intros _ s1 ev1 (_ & _ & Hout).
  assert (K1 : kp s s1).
  { destruct Hout as [(A1 & A2 & A3 & A4 & A5 & A6 & A7 & A8)|(_ & (B1 & B2 & B3 & B4 & B5 & B6 & B7 & _))];
      (split; [split; assumption|apply state_eq_cwr; assumption]). }
  wp_prims.
  apply (wp_bind_spec _ _ _ _ (fun _ s' _ => kp s s')); [|cbv beta; intros _ s2 ev2 K2; wp_prims; exact K2].
  destruct (state s1); try (wp_prims; exact K1).
  - eapply wp_bind_spec; [apply set_state_kp; discriminate|]. cbv beta. intros _ s2 ev2 K2.
    eapply wp_conseq; [apply (kpf_of _ queue_connect_rframes queue_connect_cwf)|]. cbv beta. intros _ s3 _ K3.
    eapply kp_trans; [exact K1|]. eapply kp_trans; eauto.
  - unfold set_state_established. eapply wp_bind_spec; [apply set_state_kp; discriminate|]. cbv beta. intros _ s2 ev2 K2.
    eapply wp_bind_spec; [apply (kpf_of _ adjustMTU_rframes adjustMTU_cwf)|]. cbv beta. intros _ s3 ev3 K3. wp_prims.
    eapply kp_trans; [exact K1|]. eapply kp_trans; eauto.
Qed.

(** ---- [process] keeps "CLOSE_WAIT means the FIN was consumed" ---- *)
Lemma rfx_nonzero S cl R seg now s :
  rcore S cl R s -> honest S cl now seg -> rfx seg s = true -> rcv_fin s = len S /\ 0 < len S.
Proof.
  intros [NWr Hcl _ Hfin Hmode] Hh H. unfold rfx in H.
  apply andb_prop in H. destruct H as (H & E4). apply andb_prop in H. destruct H as (H & _). apply andb_prop in H. destruct H as (E1 & E2).
  assert (Hrn : 0 < rcv_nxt s < NW).
  { destruct Hmode as [P|[(pos & fin & L1 & L2 & L3 & _)|(_ & _ & _ & D & _)]]; [destruct P as (P & _); lia| |lia]. destruct fin; lia. }
  assert (Hsl : 0 <= len (g_data seg) <= len S).
  { destruct (g_data seg) as [|x d'] eqn:Ed; [unfold len; cbn; lia|]. rewrite <- Ed in *.
    assert (Hne : g_data seg <> []) by (rewrite Ed; discriminate). destruct Hh as (Hh1 & _). destruct (Hh1 Hne) as (Q0 & Q1 & _). unfold len in *. lia. }
  rewrite w32_small in E4 by (unfold NW, M32 in *; lia). destruct Hfin as [F|F]; lia.
Qed.

Lemma process_tail_J S cl R seg now s ev :
  mid S cl R seg s -> honest S cl now seg -> Jcw s -> wp (process_tail seg now) s ev (fun _ s' _ => Jcw s').
Proof.
  intros HM Hh HJ. unfold process_tail. wp_prims.
  apply (wp_bind_spec _ _ _ _ (fun _ s' _ => same_rcv s s' /\ state s' = state s)).
  { apply wp_when; intros _; wp_prims; split; [rsame_triv|reflexivity|apply same_rcv_refl|reflexivity]. }
  cbv beta. intros _ s1 ev1 (F1 & St1).
  assert (HM1 : mid S cl R seg s1) by (eapply mid_frame; [exact HM|exact F1|intros _; exact St1]).
  assert (HJ1 : Jcw s1) by (eapply Jcw_kp; [exact HJ|split; [apply same_rcv_nf; exact F1|apply state_eq_cwr; exact St1]]).
  clear HM HJ F1 St1 s. rename s1 into s, HM1 into HM, HJ1 into HJ. wp_prims.
  eapply wp_bind_spec; [apply wp_and; [apply ack_phase_rspec|apply wp_and; [apply ack_phase_state|apply ack_phase_exit]]|].
  cbv beta. intros [cont is_fin_ack] s1 ev2 ((F1 & Hcont) & (Hst1 & Hex)). cbn [fst] in Hcont, Hst1.
  assert (HJ1 : Jcw s1).
  { eapply Jcw_kp; [exact HJ|]. split; [apply same_rcv_nf; exact F1|]. intros H. destruct Hex as [E|E]; congruence. }
  destruct cont; cbn [negb]; [|wp_prims; exact HJ1].
  assert (HM1 : mid S cl R seg s1) by (eapply mid_frame; [exact HM|exact F1|intros _; apply Hst1; reflexivity]).
  clear HM HJ F1 Hcont Hst1 Hex s. rename s1 into s, HM1 into HM, HJ1 into HJ. wp_prims.
  apply (wp_bind_spec _ _ _ _ (fun _ s' _ => (same_rcv s s' /\ (lsn_st (state s) = true -> state s' = state s)) /\ cwr s s')).
  { apply wp_when; intros E; [|split; [split; [apply same_rcv_refl|reflexivity]|apply cwr_refl]].
    apply andb_prop in E. destruct E as (E & _). apply st_eqb_eq in E.
    apply wp_and; [|apply set_state_established_cwf].
    eapply wp_conseq; [apply set_state_established_rspec; rewrite E; reflexivity|]. cbv beta. intros _ s' _ F.
    split; [exact F|rewrite E; intros L; discriminate L]. }
  cbv beta. intros _ s1 ev3 ((F1 & Hst1) & C1).
  assert (HM1 : mid S cl R seg s1) by (eapply mid_frame; eauto).
  assert (HJ1 : Jcw s1) by (eapply Jcw_kp; [exact HJ|split; [apply same_rcv_nf; exact F1|exact C1]]).
  clear HM HJ F1 Hst1 C1 s. rename s1 into s, HM1 into HM, HJ1 into HJ. wp_prims.
  eapply wp_bind_spec; [apply wp_and; [apply (fin_phase_rspec S cl R seg now is_fin_ack s ev3 HM Hh)|apply fin_phase_J]|].
  cbv beta. intros finr s1 ev4 ((s2 & HM2 & (F2 & Hst2) & -> & Esfa2) & (K1 & K2 & K3 & K4 & K5)).
  assert (HM1 : mid S cl R seg s1) by (eapply mid_frame; eauto).
  remember (if support_fin_ack s then rfx seg s2 else false) as rf eqn:Erf0.
  assert (Erf : rf = (if support_fin_ack s1 then rfx seg s1 else false)).
  { rewrite Erf0. rewrite <- Esfa2. apply rfx_same. exact F2. }
  (* the facts the end-of-stream criterion needs after the FIN phase *)
  assert (HS : len S + 2 < NW /\ (rcv_fin s = 0 \/ rcv_fin s = len S)) by (destruct HM as ([A1 _ _ A4 _] & _); split; assumption).
  destruct HS as (NWr & Hfs).
  assert (Hfin1 : has_flag (g_flags seg) FLAG_FIN = true -> g_seq seg = len S) by (destruct Hh as (_ & Hh2); exact Hh2).
  assert (Hcase : state s1 = CLOSE_WAIT -> (rcv_fin s1 = len S /\ rcv_nxt s1 = len S + 1 /\ rf = false /\ 0 < len S) \/ rf = true).
  { intros H. destruct (K5 H) as [E|E]; [left|right; injection E as E; exact E].
    destruct (HJ E) as (J1 & J2). assert (rcv_fin s = len S) by lia.
    assert (Ef1 : rcv_fin s1 = len S) by (destruct K4 as [K|(Kf & K)]; [congruence|rewrite K; apply Hfin1; exact Kf]).
    split; [exact Ef1|]. split; [lia|]. split; [|lia]. rewrite Erf. destruct (support_fin_ack s1); [|reflexivity].
    destruct (rfx seg s1) eqn:Er; [|reflexivity]. exfalso. unfold rfx in Er.
    apply andb_prop in Er. destruct Er as (_ & E4).
    assert (0 <= len (g_data seg) <= len S).
    { destruct (g_data seg) as [|x d'] eqn:Ed; [unfold len; cbn; lia|]. rewrite <- Ed in *.
      assert (Hne : g_data seg <> []) by (rewrite Ed; discriminate). destruct Hh as (Hh1 & _). destruct (Hh1 Hne) as (Q0 & Q1 & _). unfold len in *. lia. }
    rewrite w32_small in E4 by (unfold NW, M32 in *; lia). lia. }
  assert (Hrft : rf = true -> rcv_fin s1 = len S /\ 0 < len S).
  { intros E. rewrite E in Erf. destruct (support_fin_ack s1); [|discriminate Erf]. destruct HM1 as (HC1 & _).
    apply (rfx_nonzero S cl R seg now s1 HC1 Hh). symmetry; exact Erf. }
  clear Erf0 HM HM2 F2 Hst2 Esfa2 K1 K2 K3 K4 K5 HJ Hfs s s2. rename s1 into s, HM1 into HM. wp_prims.
  apply (wp_bind_spec _ _ _ _ (fun _ s' _ => same_rcv s s' /\ state s' = state s)).
  { apply wp_when; intros _; wp_prims; split; [rsame_triv|reflexivity|apply same_rcv_refl|reflexivity]. }
  cbv beta. intros _ s1 ev5 (F1 & St1).
  assert (HM1 : mid S cl R seg s1) by (eapply mid_frame; [exact HM|exact F1|intros _; exact St1]).
  rewrite (rfx_same seg s s1 F1) in Erf.
  assert (Hcase1 : state s1 = CLOSE_WAIT -> (rcv_fin s1 = len S /\ rcv_nxt s1 = len S + 1 /\ rf = false /\ 0 < len S) \/ rf = true).
  { intros H. rewrite St1 in H. destruct (Hcase H) as [(A & B & D & P)|A]; [left|right; exact A].
    destruct (same_rcv_nf _ _ F1) as (N1 & N2). repeat split; try congruence. }
  assert (Hrft1 : rf = true -> rcv_fin s1 = len S /\ 0 < len S).
  { intros E. destruct (Hrft E) as (A & B). destruct (same_rcv_nf _ _ F1) as (N1 & N2). split; congruence. }
  clear HM F1 St1 Hcase Hrft s. rename s1 into s, HM1 into HM. wp_prims.
  (* the data phase, then the FIN's own sequence number *)
  pose proof (data_phase_rspec S cl R seg now rf s ev5 HM Hh Erf) as Hdp.
  pose proof (fun q d => data_phase_ck seg rf s q d ev5) as Hck.
  pose proof (data_phase_noop S cl now seg rf s ev5 Hh NWr) as Hno.
  destruct (trim_left seg s) as [seq1 data1].
  apply (wp_bind_spec _ _ _ _ (fun _ s' _ => Jcw (if rf then s' <| rcv_nxt := w32 (rcv_nxt s' + 1) |> else s') /\ (rf = true -> rcv_nxt s' = len S))).
  { destruct rf eqn:Erfv.
    - destruct (Hrft1 eq_refl) as (Ef & Hpos).
      eapply wp_conseq; [apply wp_and; [exact Hdp|apply Hck]|]. cbv beta. intros _ s' _ ((_ & Hf) & (_ & Hfk)).
      destruct (Hf eq_refl) as (G1 & _). split; [|intros _; exact G1].
      intros _. cbn [rcv_nxt rcv_fin set]. rewrite G1, Hfk, Ef. rewrite w32_small by (unfold NW, M32 in *; lia). lia.
    - destruct (st_eqb (state s) CLOSE_WAIT) eqn:Ecw.
      + apply st_eqb_eq in Ecw. destruct (Hcase1 Ecw) as [(A & B & _ & P)|A]; [|discriminate A].
        eapply wp_conseq; [apply (Hno B)|]. cbv beta. intros _ s' _ ->.
        split; [|discriminate]. intros _. lia.
      + eapply wp_conseq; [apply Hck|]. cbv beta. intros _ s' _ (C & _). split; [|discriminate].
        intros H. exfalso. apply C in H. apply st_eqb_neq in Ecw. contradiction. }
  cbv beta. intros [sflags bNewData] s1 ev6 (HJ1 & _).
  apply (wp_bind_spec _ _ _ _ (fun _ s' _ => Jcw s')).
  { destruct rf; [cbn [when]; wp_prims; exact HJ1|cbn [when]; wp_prims; exact HJ1]. }
  cbv beta. intros _ s2 ev7 HJ2.
  eapply wp_bind_spec; [apply (kpf_of _ (attempt_send_rframes sflags now) (attempt_send_cwf sflags now))|]. cbv beta. intros _ s3 ev8 K3. wp_prims.
  apply wp_bind_when; intros _; wp_prims; eapply Jcw_kp; eauto.
Qed.

Lemma process_J S cl R seg now s ev :
  rinv S cl R s -> honest S cl now seg -> Jcw s -> wp (process seg now) s ev (fun _ s' _ => Jcw s').
Proof.
  intros HI Hh HJ. rewrite process_phases. unfold process_phased. wp_prims.
  destruct (negb (g_conv seg =? conv s)); [wp_prims; exact HJ|]. wp_prims.
  match goal with |- wp _ ?s1 _ _ =>
    assert (HI1 : rinv S cl R s1) by (eapply rinv_frame; [exact HI|rsame_triv]);
    assert (HJ1 : Jcw s1) by (eapply Jcw_kp; [exact HJ|split; [split; reflexivity|cw_triv]]);
    set (s1' := s1) in *; clearbody s1' end.
  clear HI HJ s. rename s1' into s, HI1 into HI, HJ1 into HJ.
  destruct (st_eqb (state s) CLOSED || _) eqn:Ecl.
  { apply wp_bind_when; intros _; wp_prims; [|exact HJ].
    eapply wp_bind_spec; [apply (kpf_of _ (closedown_rframes 0 true now) (closedown_cwf 0 true now))|]. cbv beta. intros _ s1 ev1 K1. wp_prims.
    eapply Jcw_kp; eauto. }
  destruct (has_flag (g_flags seg) FLAG_RST).
  { eapply wp_bind_spec; [apply (kpf_of _ (closedown_rframes ECONNRESET false now) (closedown_cwf ECONNRESET false now))|]. cbv beta.
    intros _ s1 ev1 K1. wp_prims. eapply Jcw_kp; eauto. }
  assert (Hncl : state s <> CLOSED).
  { intros E. rewrite E in Ecl. discriminate Ecl. }
  eapply wp_bind_spec; [apply wp_and; [apply (ctl_phase_rspec S cl R seg now s ev HI Hh Hncl)|apply ctl_phase_kp]|].
  cbv beta. intros [b|] s1 ev1 (HM & K1); [wp_prims; eapply Jcw_kp; eauto|].
  apply (process_tail_J S cl R); [exact HM|exact Hh|eapply Jcw_kp; eauto].
Qed.

(** ---- all sequences of operations ---- *)
Ltac kp_triv := solve [split; [split; reflexivity|cw_triv]].

Lemma connect_kp now : kpf (connect now).
Proof.
  intros s ev. unfold connect. wp_prims. destruct (negb (st_eqb (state s) LISTEN)); [wp_prims; kp_triv|].
  eapply wp_bind_spec; [apply set_state_kp; discriminate|]. cbv beta. intros _ s1 ev1 K1.
  eapply wp_bind_spec; [apply (kpf_of _ queue_connect_rframes queue_connect_cwf)|]. cbv beta. intros _ s2 ev2 K2.
  eapply wp_bind_spec; [apply (kpf_of _ (attempt_send_rframes sfNone now) (attempt_send_cwf sfNone now))|]. cbv beta. intros _ s3 ev3 K3.
  wp_prims. eapply kp_trans; [exact K1|]. eapply kp_trans; eauto.
Qed.

Lemma recv_kp n now : kpf (recv n now).
Proof.
  intros s ev. unfold recv. wp_prims.
  repeat match goal with |- wp (if ?b then _ else _) _ _ _ => destruct b; [wp_prims; first [apply kp_refl|kp_triv]|] end.
  wp_prims. destruct (_ && _); [wp_prims; kp_triv|].
  apply (wp_bind_spec _ _ _ _ (fun _ s' _ => kp s s')); [|cbv beta; intros _ s3 ev3 F3; wp_prims; exact F3].
  destruct (_ >=? _); [|wp_prims; kp_triv]. wp_prims.
  apply wp_when; intros _; [|kp_triv].
  eapply wp_conseq; [apply (kpf_of _ (attempt_send_rframes sfImmediateAck now) (attempt_send_cwf sfImmediateAck now))|]. cbv beta.
  intros _ s3 _ F3. eapply kp_trans; [|exact F3]. kp_triv.
Qed.

Lemma set_rcv_buf_kp n : kpf (set_rcv_buf n).
Proof.
  intros s ev. unfold set_rcv_buf. wp_prims. destruct (st_eqb _ _); [|wp_prims; apply kp_refl].
  eapply wp_conseq; [apply wp_and; [apply resize_rspec|apply resize_cwf]|]. cbv beta. intros _ s' _ (H & C). split; [|exact C].
  destruct H as [(-> & _)|(_ & _ & Hr)]; [split; reflexivity|].
  destruct (rscale 33 n 0) as [sz sf]. destruct Hr as (_ & _ & R3 & _ & R5 & _). split; assumption.
Qed.

Lemma step_J S cl t o t' :
  rinv S cl (t_read t) (t_sock t) -> Jcw (t_sock t) -> honest_op S cl o -> step t o = Ok t' -> Jcw (t_sock t').
Proof.
  intros HI HJ Ho Hs. unfold step, upd_trace in Hs.
  destruct o;
  match type of Hs with match ?m ?s ?ev with _ => _ end = _ =>
    destruct (m s ev) as [[[a s'] ev']|] eqn:E; [|discriminate Hs] end;
  injection Hs as <-; cbn [t_read t_sock t_ev] in *.
  - eapply Jcw_kp; [exact HJ|]. exact (wp_ok _ _ _ _ _ _ _ (connect_kp _ _ _) E).
  - eapply Jcw_kp; [exact HJ|]. exact (wp_ok _ _ _ _ _ _ _ (kpf_of _ (send_rframes _ _) (send_cwf _ _) _ _) E).
  - eapply Jcw_kp; [exact HJ|]. exact (wp_ok _ _ _ _ _ _ _ (recv_kp _ _ _ _) E).
  - unfold notify_packet in E. destruct (len p >? MAX_PACKET).
    + eapply Jcw_kp; [exact HJ|]. refine (wp_ok _ _ _ (fun _ s' _ => kp (t_sock t) s') _ _ _ _ E). wp_prims. kp_triv.
    + destruct (parse_packet p) as [seg|] eqn:Ep.
      * exact (wp_ok _ _ _ _ _ _ _ (process_J S cl _ seg _ _ _ HI (Ho seg Ep) HJ) E).
      * eapply Jcw_kp; [exact HJ|]. refine (wp_ok _ _ _ (fun _ s' _ => kp (t_sock t) s') _ _ _ _ E). wp_prims. kp_triv.
  - eapply Jcw_kp; [exact HJ|]. exact (wp_ok _ _ _ _ _ _ _ (kpf_of _ (notify_clock_rframes _) (notify_clock_cwf _) _ _) E).
  - eapply Jcw_kp; [exact HJ|]. exact (wp_ok _ _ _ _ _ _ _ (kpf_of _ (get_next_clock_rframes _ _) (get_next_clock_cwf _ _) _ _) E).
  - eapply Jcw_kp; [exact HJ|]. exact (wp_ok _ _ _ _ _ _ _ (kpf_of _ (notify_mtu_rframes _) (notify_mtu_cwf _) _ _) E).
  - eapply Jcw_kp; [exact HJ|]. exact (wp_ok _ _ _ _ _ _ _ (kpf_of _ (shutdown_sock_rframes _ _) (shutdown_sock_cwf _ _) _ _) E).
  - eapply Jcw_kp; [exact HJ|]. exact (wp_ok _ _ _ _ _ _ _ (kpf_of _ (close_sock_rframes _ _) (close_sock_cwf _ _) _ _) E).
  - eapply Jcw_kp; [exact HJ|]. exact (wp_ok _ _ _ _ _ _ _ (set_rcv_buf_kp _ _ _) E).
  - eapply Jcw_kp; [exact HJ|]. exact (wp_ok _ _ _ _ _ _ _ (kpf_of _ (set_snd_buf_rframes _) (set_snd_buf_cwf _) _ _) E).
Qed.

Lemma run_J S cl ops : forall t t',
  rinv S cl (t_read t) (t_sock t) -> Jcw (t_sock t) -> Forall (honest_op S cl) ops -> run t ops = Ok t' -> Jcw (t_sock t').
Proof.
  induction ops as [|o r IH]; intros t t' HI HJ Ho H; cbn [run] in H.
  - injection H as <-. exact HJ.
  - destruct (step t o) as [t1|] eqn:E; [|discriminate]. inversion Ho; subst.
    apply (IH t1 t'); [eapply step_rinv; eauto|eapply step_J; eauto|assumption|exact H].
Qed.

(** END OF STREAM in CLOSE_WAIT.  Under the hypotheses of receiver soundness: whenever the socket is in CLOSE_WAIT (the peer has closed its
    sending side and we have not closed ours; FIN-ACK mode), every byte the peer's application wrote has been handed to [recv] or sits, in
    order, in the receive buffer -- so a [recv] that finds the buffer empty there (and returns 0) comes after all of the peer's bytes. *)
Theorem receiver_eos_close_wait S cl s0 ops t :
  rinit cl s0 -> len S + 2 < NW -> 0 <= cl <= len S -> cl <= 61440 ->
  Forall (honest_op S cl) ops -> run (start s0) ops = Ok t ->
  support_fin_ack (t_sock t) = true -> state (t_sock t) = CLOSE_WAIT ->
  t_read t ++ rb_data (rbuf (t_sock t)) = skipn (Z.to_nat cl) S.
Proof.
  intros Hi NWr Hcl Hcl2 Ho Hr Hsfa Hst.
  assert (HJ : Jcw (t_sock t)).
  { apply (run_J S cl ops (start s0) t); [apply rinit_rinv; assumption| |exact Ho|exact Hr].
    intros H. destruct Hi as (E & _). cbn in H. congruence. }
  destruct (HJ Hst) as (J1 & J2).
  apply (receiver_eos_fields_partial S cl s0 ops t); assumption.
Qed.
