(** [process] of PtcpModel cut into named phases.  The definitions below are verbatim pieces of the model's [process]; the lemma
    [process_phases] (proved by reflexivity, i.e. by conversion) states that the model's function IS their composition, so lemmas about the
    phases are lemmas about the model.  Nothing of the model is changed. *)
From Coq Require Import ZArith List Bool.
From RecordUpdate Require Import RecordSet.
From Nice Require Import Base.Bytes Ptcp.PtcpModel.
Import ListNotations.
Import RecordSetNotations.
Local Open Scope Z_scope.
Local Open Scope bool_scope.

(* control segments: Some b = return b *)
Definition ctl_phase (seg : segment) : M (option bool) :=
  if has_flag (g_flags seg) FLAG_CTL then
    match g_data seg with
    | [] => ret (Some false)
    | c0 :: opts =>
      if c0 =? 0 then
        parse_options opts ;;;
        s <- get ;;
        (match state s with
         | LISTEN => set_state SYN_RECEIVED ;;; queue_connect_message
         | SYN_SENT => set_state_established
         | _ => ret tt end) ;;; ret None
      else ret (Some false)
    end
  else ret None.

(* acknowledgement processing, from the state [s] read just before: (continue?, is_fin_ack) *)
Definition ack_phase (seg : segment) (now : Z) (s : sock) : M (bool * bool) :=
  let slen := len (g_data seg) in
  let valuable := LARGER (g_ack seg) (snd_una s) && SMALLER_OR_EQUAL (g_ack seg) (snd_nxt s) in
  let duplicate := g_ack seg =? snd_una s in
  if valuable then
    rttok <- (if negb (g_tsecr seg =? 0) then
                let rtt := time_diff now (g_tsecr seg) in
                if rtt >=? 0 then
                  upd (fun s =>
                    let '(srtt, var) := if rx_srtt s =? 0 then (w32 rtt, w32 (rtt / 2))
                                        else (w32 ((7 * rx_srtt s + rtt) / 8), w32 ((3 * rx_rttvar s + Z.abs (rtt - rx_srtt s)) / 4)) in
                    s <| rx_srtt := srtt |> <| rx_rttvar := var |>
                      <| rx_rto := bound 1000 (w32 (srtt + Z.max 1 (4 * var))) 60000 |> <| last_acked_ts := g_tsecr seg |>) ;;; ret true
                else ret false
              else ret true) ;;
    if negb rttok then ret (false, false) else
    s <- get ;;
    let nAcked0 := w32 (g_ack seg - snd_una s) in
    let finack := (nAcked0 =? sbuf_n s + 1) && has_sent_fin (state s) in
    let nAcked := if finack then nAcked0 - 1 else nAcked0 in
    assert (nAcked <=? sbuf_n s) ;;;
    match ack_slist (S (length (slist s))) (slist s) nAcked (largest s) with
    | None => fault
    | Some (sl, lg) =>
      put (s <| snd_wnd := w32 (Z.shiftl (g_wnd seg) (swnd_scale s)) |> <| snd_una := g_ack seg |>
             <| rto_base := if g_ack seg =? snd_nxt s then 0 else now |>
             <| sbuf := skipn (Z.to_nat nAcked) (sbuf s) |> <| sbuf_n := sbuf_n s - nAcked |> <| slist := sl |> <| largest := lg |>) ;;;
      s <- get ;;
      if dup_acks s >=? 3 then
        if LARGER_OR_EQUAL (snd_una s) (recover s) then
          let nInFlight := w32 (snd_nxt s - snd_una s) in
          put (s <| cwnd := Z.min (ssthresh s) (w32 (Z.max nInFlight (mss s) + mss s)) |> <| fast_recovery := false |> <| dup_acks := 0 |>) ;;;
          ret (true, finack)
        else if finack then ret (true, finack)
        else
          st <- (match slist s with [] => fault | _ => transmit O now end) ;;
          if negb (st =? 0) then closedown st true now ;;; ret (false, finack) else
          upd (fun s => s <| cwnd := w32 (cwnd s + (if nAcked >? mss s then mss s else 0) - Z.min nAcked (cwnd s)) |>) ;;;
          ret (true, finack)
      else
        upd (fun s => s <| dup_acks := 0 |>
                        <| cwnd := if cwnd s <? ssthresh s then w32 (cwnd s + mss s)
                                   else w32 (cwnd s + Z.max 1 (w32 (mss s * mss s) / cwnd s)) |>) ;;;
        ret (true, finack)
    end
  else if duplicate then
    upd (fun s => s <| snd_wnd := w32 (Z.shiftl (g_wnd seg) (swnd_scale s)) |>) ;;;
    s <- get ;;
    if slen >? 0 then ret (true, false) else
    if negb (snd_una s =? snd_nxt s) then
      put (s <| dup_acks := (dup_acks s + 1) mod 256 |>) ;;;
      s <- get ;;
      if dup_acks s =? 3 then
        if LARGER_OR_EQUAL (snd_una s) (recover s) || (g_tsecr seg =? last_acked_ts s) then
          st <- (match slist s with [] => fault | _ => transmit O now end) ;;
          if negb (st =? 0) then closedown st true now ;;; ret (false, false) else
          upd (fun s => let nInFlight := w32 (snd_nxt s - snd_una s) in
                        let ss := Z.max (nInFlight / 2) (w32 (2 * mss s)) in
                        s <| recover := snd_nxt s |> <| ssthresh := ss |> <| cwnd := w32 (ss + 3 * mss s) |> <| fast_recovery := true |>) ;;;
          ret (true, false)
        else ret (true, false)
      else if dup_acks s >? 3 then
        when (fast_recovery s) (upd (fun s => s <| cwnd := w32 (cwnd s + mss s) |>)) ;;; ret (true, false)
      else ret (true, false)
    else upd (fun s => s <| dup_acks := 0 |>) ;;; ret (true, false)
  else ret (true, false).

(* FIN handling, from the state [s] read just before: None = return false, Some received_fin *)
Definition fin_phase (seg : segment) (is_fin_ack : bool) (s : sock) : M (option bool) :=
  let slen := len (g_data seg) in
  if support_fin_ack s then
    when (has_flag (g_flags seg) FLAG_FIN) (upd (fun s => s <| rcv_fin := g_seq seg |>)) ;;;
    if has_flag (g_flags seg) FLAG_FIN && negb (slen =? 0) then ret None else
    s <- get ;;
    let received_fin := negb (rcv_nxt s =? 0) && (g_seq seg =? rcv_nxt s) && (slen <=? rb_remaining s)
                        && (w32 (rcv_nxt s + slen) =? rcv_fin s) in
    (match state s with
     | ESTABLISHED => when received_fin (set_state CLOSE_WAIT)
     | CLOSING => when is_fin_ack (set_state TIME_WAIT)
     | LAST_ACK => when is_fin_ack (set_state_closed 0)
     | FIN_WAIT_1 => if is_fin_ack && received_fin then set_state TIME_WAIT
                     else if is_fin_ack then set_state FIN_WAIT_2
                     else when received_fin (set_state CLOSING)
     | FIN_WAIT_2 => when received_fin (set_state TIME_WAIT)
     | _ => ret tt
     end) ;;; ret (Some received_fin)
  else ret (Some false).

(* storing the payload, from the state [s] read just before: (flags for attempt_send, new data?) *)
Definition trim_left (seg : segment) (s : sock) : Z * bytes :=
  let slen := len (g_data seg) in
  if SMALLER (g_seq seg) (rcv_nxt s) then
    let nAdjust := w32 (rcv_nxt s - g_seq seg) in
    if nAdjust <? slen then (w32 (g_seq seg + nAdjust), skipn (Z.to_nat nAdjust) (g_data seg)) else (g_seq seg, [])
  else (g_seq seg, g_data seg).

Definition data_phase (seg : segment) (received_fin : bool) (s : sock) (seq1 : Z) (data1 : bytes) : M (sflag * bool) :=
  let slen := len (g_data seg) in
  let sflags0 := if negb (g_seq seg =? rcv_nxt s) then sfDuplicateAck
                 else if negb (slen =? 0) then (if (ack_delay s =? 0) || received_fin then sfImmediateAck else sfDelayedAck)
                 else if received_fin then sfImmediateAck else sfNone in
  let avail := rb_remaining s in
  let data2 :=
    if w32 (seq1 + len data1 - rcv_nxt s) >? avail then
      let nAdjust := w32 (seq1 + len data1 - rcv_nxt s - avail) in
      if nAdjust <? len data1 then firstn (Z.to_nat (len data1 - nAdjust)) data1 else []
    else data1 in
  let data2 := if negb (has_flag (g_flags seg) FLAG_CTL) && (st_eqb (state s) LISTEN || st_eqb (state s) SYN_SENT) then [] else data2 in
  let ignore := has_flag (g_flags seg) FLAG_CTL || (negb (support_fin_ack s) && negb (match shutdown s with SD_NONE => true | _ => false end)) in
  if len data2 >? 0 then
    if ignore then
      when (seq1 =? rcv_nxt s) (upd (fun s => s <| rcv_nxt := w32 (rcv_nxt s + len data2) |>)) ;;; ret (sflags0, false)
    else
      let nOffset := w32 (seq1 - rcv_nxt s) in
      let '(rb1, res) := rb_write_offset (rbuf s) data2 nOffset in
      assert (res =? len data2) ;;;
      if seq1 =? rcv_nxt s then
        match rb_commit rb1 (len data2) with
        | Fault => fault
        | Ok rb2 =>
          put (s <| rbuf := rb2 |> <| rcv_nxt := w32 (rcv_nxt s + len data2) |> <| rcv_wnd := w32 (rcv_wnd s - len data2) |>) ;;;
          s <- get ;;
          sf <- recover_rlist (S (length (rlist s))) sflags0 ;; ret (sf, true)
        end
      else
        put (s <| rbuf := rb1 |> <| rlist := insert_rseg (rlist s) {| rs_seq := seq1; rs_len := len data2 |} |>) ;;; ret (sflags0, false)
  else ret (sflags0, false).

(* after the control phase *)
Definition process_tail (seg : segment) (now : Z) : M bool :=
  s <- get ;;
  when (SMALLER_OR_EQUAL (g_seq seg) (ts_lastack s) && SMALLER (ts_lastack s) (w32 (g_seq seg + len (g_data seg))))
       (upd (fun s => s <| ts_recent := g_tsval seg |>)) ;;;
  s <- get ;;
  ackr <- ack_phase seg now s ;;
  let '(cont, is_fin_ack) := ackr in
  if negb cont then ret false else
  s <- get ;;
  when (st_eqb (state s) SYN_RECEIVED && negb (has_flag (g_flags seg) FLAG_CTL)) set_state_established ;;;
  s <- get ;;
  finr <- fin_phase seg is_fin_ack s ;;
  match finr with
  | None => ret false
  | Some received_fin =>
    s <- get ;;
    let kIdeal := w32 (sbuf_len s + rbuf_len s) / 2 in
    when (bWriteEnable s && (sb_buffered s <? kIdeal)) (upd (fun s => s <| bWriteEnable := false |>) ;;; emit EvWritable) ;;;
    s <- get ;;
    let '(seq1, data1) := trim_left seg s in
    dr <- data_phase seg received_fin s seq1 data1 ;;
    let '(sflags, bNewData) := dr in
    when received_fin (upd (fun s => s <| rcv_nxt := w32 (rcv_nxt s + 1) |>)) ;;;
    attempt_send sflags now ;;;
    s <- get ;;
    when (bNewData && bReadEnable s) (emit EvReadable) ;;;
    ret true
  end.

Definition process_phased (seg : segment) (now : Z) : M bool :=
  s <- get ;;
  if negb (g_conv seg =? conv s) then ret false else
  put (s <| last_traffic := now |> <| lastrecv := now |> <| bOutgoing := false |>) ;;;
  s <- get ;;
  let slen := len (g_data seg) in
  if st_eqb (state s) CLOSED || (has_received_fin_ack (state s) && (slen >? 0)) then
    when (negb (has_flag (g_flags seg) FLAG_RST)) (closedown 0 true now) ;;; ret false
  else if has_flag (g_flags seg) FLAG_RST then closedown ECONNRESET false now ;;; ret false
  else
  ctl <- ctl_phase seg ;;
  match ctl with
  | Some b => ret b
  | None => process_tail seg now
  end.

Lemma process_phases seg now : process seg now = process_phased seg now.
Proof. reflexivity. Qed.
