(** pseudotcp.c process(), fix 6cefc93: a segment that completes the stream up to the peer's FIN (received_fin) is acknowledged at once, whatever the
    delayed-ACK setting - the flag process() hands to attempt_send is sfImmediateAck.  (Before the fix a data-bearing segment got sfDelayedAck and a socket
    in FIN-WAIT-2 left TIME-WAIT before the ACK was due.) *)
From Coq Require Import ZArith List Bool Lia.
From RecordUpdate Require Import RecordSet.
From Nice Require Import Base.Bytes Ptcp.PtcpModel Ptcp.PtcpHoare Ptcp.ProcessPhases.
Import ListNotations.
Import RecordSetNotations.
Local Open Scope Z_scope.

Lemma recover_rlist_flag f : forall sf s ev,
  wp (recover_rlist f sf) s ev (fun r _ _ => r = sf \/ r = sfImmediateAck).
Proof.
  induction f as [|f IH]; intros sf s ev; cbn [recover_rlist].
  - apply wp_ret. left; reflexivity.
  - apply wp_bind_get.
    destruct (rlist s) as [|r rl]; [apply wp_ret; left; reflexivity|].
    destruct (SMALLER_OR_EQUAL (rs_seq r) (rcv_nxt s)); [|apply wp_ret; left; reflexivity].
    destruct (LARGER _ _).
    + destruct (rb_commit (rbuf s) _); [|apply wp_fault].
      apply wp_bind_put. eapply wp_conseq; [apply IH|]. cbv beta. intros a0 s0 ev0 [H|H]; right; exact H.
    + apply wp_bind_put. apply IH.
Qed.

Theorem data_phase_fin_acked_at_once seg s seq1 data1 ev :
  g_seq seg = rcv_nxt s ->
  wp (data_phase seg true s seq1 data1) s ev (fun r _ _ => fst r = sfImmediateAck).
Proof.
  intros Hseq. unfold data_phase; cbv zeta.
  rewrite Hseq, Z.eqb_refl. cbn [negb]. rewrite orb_true_r.
  assert (F : (if negb (len (g_data seg) =? 0) then sfImmediateAck else sfImmediateAck) = sfImmediateAck) by (destruct (negb _); reflexivity).
  rewrite F.
  destruct (len _ >? 0); [|apply wp_ret; reflexivity].
  destruct (_ || _); [apply wp_bind_when; intros _; wp_prims; reflexivity|].
  destruct (rb_write_offset _ _ _) as [rb1 res]. wp_prims.
  destruct (seq1 =? rcv_nxt s).
  - destruct (rb_commit rb1 _); [|apply wp_fault]. wp_prims.
    eapply wp_bind_spec; [apply recover_rlist_flag|]. cbv beta. intros sf s3 ev3 [Hs|Hs]; wp_prims; cbn; exact Hs.
  - wp_prims. reflexivity.
Qed.

(** the regression: with a delayed-ACK setting and no FIN completed, a data segment in sequence is still acknowledged late *)
Example data_without_fin_still_delayed :
  forall seg s, g_seq seg = rcv_nxt s -> len (g_data seg) <> 0 -> ack_delay s <> 0 ->
  (if negb (g_seq seg =? rcv_nxt s) then sfDuplicateAck
   else if negb (len (g_data seg) =? 0) then (if (ack_delay s =? 0) || false then sfImmediateAck else sfDelayedAck)
   else if false then sfImmediateAck else sfNone) = sfDelayedAck.
Proof.
  intros seg s H1 H2 H3. rewrite H1, Z.eqb_refl. cbn [negb].
  destruct (len (g_data seg) =? 0) eqn:E; [apply Z.eqb_eq in E; contradiction|]. cbn [negb].
  destruct (ack_delay s =? 0) eqn:E2; [apply Z.eqb_eq in E2; contradiction|]. reflexivity.
Qed.
