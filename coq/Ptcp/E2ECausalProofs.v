(** C08, composition with a CAUSAL network: at every step the network can only deliver a packet that the other socket has ALREADY
    emitted (any subset, order, multiplicity, delay).  Follows from [two_way_prefix] because events only accumulate. *)
From Coq Require Import ZArith List Bool Lia.
From Nice Require Import Base.Bytes Ptcp.PtcpModel Ptcp.PtcpHoare Ptcp.SockOps Ptcp.SenderInvProofs Ptcp.ReceiverInvProofs
                         Ptcp.ReceiverSoundProofs Ptcp.E2EComposeProofs Ptcp.EventMonoProofs.
Import ListNotations.
Local Open Scope Z_scope.

(* what the network / the applications may do in system state [st] *)
Definition causal_ok (st : trace * trace) (x : sop) : Prop :=
  match x with
  | SA o | SB o => app_op o
  | SAB p now => In (EvPacket p) (t_ev (fst st)) /\ ts_ok p now
  | SBA p now => In (EvPacket p) (t_ev (snd st)) /\ ts_ok p now
  end.

Fixpoint sys_valid (st : trace * trace) (l : list sop) : Prop :=
  match l with
  | [] => True
  | x :: r => causal_ok st x /\ match sys_step st x with Ok st' => sys_valid st' r | Fault => True end
  end.

Lemma sys_step_ev_mono st x st' : sys_step st x = Ok st' ->
  (exists es, t_ev (fst st') = t_ev (fst st) ++ es) /\ (exists es, t_ev (snd st') = t_ev (snd st) ++ es).
Proof.
  destruct x as [o|o|p now|p now]; cbn [sys_step]; intros H.
  - destruct (step (fst st) o) as [t|] eqn:E; [|discriminate]. injection H as <-. cbn [fst snd]. split; [eapply step_ev_mono; eauto|apply ext_refl].
  - destruct (step (snd st) o) as [t|] eqn:E; [|discriminate]. injection H as <-. cbn [fst snd]. split; [apply ext_refl|eapply step_ev_mono; eauto].
  - destruct (step (snd st) (OPacket p now)) as [t|] eqn:E; [|discriminate]. injection H as <-. cbn [fst snd]. split; [apply ext_refl|eapply step_ev_mono; eauto].
  - destruct (step (fst st) (OPacket p now)) as [t|] eqn:E; [|discriminate]. injection H as <-. cbn [fst snd]. split; [eapply step_ev_mono; eauto|apply ext_refl].
Qed.

Lemma sys_run_ev_mono l : forall st st', sys_run st l = Ok st' ->
  (exists es, t_ev (fst st') = t_ev (fst st) ++ es) /\ (exists es, t_ev (snd st') = t_ev (snd st) ++ es).
Proof.
  induction l as [|x r IH]; intros st st' H; cbn [sys_run] in H.
  - injection H as <-. split; apply ext_refl.
  - destruct (sys_step st x) as [st1|] eqn:E; [|discriminate].
    destruct (sys_step_ev_mono _ _ _ E) as ((e1 & H1) & (e2 & H2)). destruct (IH _ _ H) as ((f1 & G1) & (f2 & G2)).
    split; [exists (e1 ++ f1); rewrite G1, H1|exists (e2 ++ f2); rewrite G2, H2]; symmetry; apply app_assoc.
Qed.

Lemma sys_valid_net_ok l : forall st tA tB, sys_valid st l -> sys_run st l = Ok (tA, tB) -> Forall (net_ok tA tB) l.
Proof.
  induction l as [|x r IH]; intros st tA tB Hv Hr; [constructor|].
  cbn [sys_valid sys_run] in *. destruct Hv as (Hx & Hv). destruct (sys_step st x) as [st1|] eqn:E; [|discriminate].
  constructor; [|eapply IH; eauto].
  destruct (sys_step_ev_mono _ _ _ E) as ((e1 & H1) & (e2 & H2)). destruct (sys_run_ev_mono _ _ _ Hr) as ((f1 & G1) & (f2 & G2)).
  cbn [fst snd] in G1, G2.
  destruct x as [o|o|p now|p now]; cbn [causal_ok net_ok] in *; try exact Hx; destruct Hx as (Hin & Hts); (split; [|exact Hts]).
  - rewrite G1, H1. apply in_or_app; left. apply in_or_app; left. exact Hin.
  - rewrite G2, H2. apply in_or_app; left. apply in_or_app; left. exact Hin.
Qed.

(** COMPOSITION over a causal network. *)
Theorem two_way_prefix_causal a0 b0 l tA tB :
  init_ok a0 -> init_ok b0 -> rinit 7 a0 -> rinit 7 b0 ->
  sys_valid (start a0, start b0) l -> sys_run (start a0, start b0) l = Ok (tA, tB) ->
  len (t_written tA) < NW - 10 -> len (t_written tB) < NW - 10 ->
  sender_discipline tA -> sender_discipline tB ->
  (exists k, t_read tB = firstn k (t_written tA)) /\ (exists k, t_read tA = firstn k (t_written tB)).
Proof.
  intros Ha Hb Hra Hrb Hv Hr. apply (two_way_prefix a0 b0 l tA tB); try assumption. eapply sys_valid_net_ok; eauto.
Qed.

(* the statement holds at every moment of a run: every prefix of a valid run is a valid run *)
Lemma sys_valid_app l1 : forall l2 st, sys_valid st (l1 ++ l2) -> sys_valid st l1.
Proof.
  induction l1 as [|x r IH]; intros l2 st H; cbn [app sys_valid] in *; [exact I|].
  destruct H as (Hx & H). split; [exact Hx|]. destruct (sys_step st x); [eapply IH; exact H|exact I].
Qed.
