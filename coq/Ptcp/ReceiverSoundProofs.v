(** C08, receiver soundness: the public entry points on the receive side and the theorem over ALL sequences of socket operations.
    The model is untouched. *)
From Coq Require Import ZArith List Bool Lia ZifyBool.
From RecordUpdate Require Import RecordSet.
From Nice Require Import Base.Bytes Ptcp.PtcpModel Ptcp.PtcpProofs Ptcp.ReassemblyProofs Ptcp.PtcpHoare Ptcp.SockOps Ptcp.SenderInvProofs
                         Ptcp.ReceiverInvProofs Ptcp.ProcessPhases Ptcp.ReceiverProcessProofs.
Import ListNotations.
Import RecordSetNotations.
Local Open Scope Z_scope.
Local Open Scope bool_scope.

(** ---- the public entry points (receive side) ---- *)
Lemma set_state_syn_sent_rspec s ev : state s = LISTEN -> wp (set_state SYN_SENT) s ev (fun _ s' _ => same_rcv s s').
Proof.
  intros E. unfold set_state. wp_prims. rewrite E. cbn [st_eqb st_num Z.eqb transition_ok]. wp_prims.
  unfold same_rcv; cbn. rewrite E. repeat split; auto.
Qed.

Lemma connect_rspec S cl R now s ev : rinv S cl R s -> wp (connect now) s ev (fun _ s' _ => rinv S cl R s').
Proof.
  intros HI. unfold connect. wp_prims. destruct (negb (st_eqb (state s) LISTEN)) eqn:E; [wp_prims; eapply rinv_frame; [exact HI|rsame_triv]|].
  assert (Est : state s = LISTEN) by (apply st_eqb_eq; destruct (st_eqb (state s) LISTEN); [reflexivity|discriminate]).
  eapply wp_bind_spec; [apply set_state_syn_sent_rspec; exact Est|]. cbv beta. intros _ s1 ev1 F1.
  rfr_call queue_connect_rframes. rfr_call attempt_send_rframes. wp_prims. eapply rinv_frame; [exact HI|]. rfr_chain.
Qed.

Lemma notify_mtu_rframes mtu : rframes (notify_mtu mtu).
Proof.
  intros s ev. unfold notify_mtu. wp_prims. apply wp_when; intros _; [|rsame_triv].
  eapply wp_conseq; [apply adjustMTU_rframes|]. cbv beta. intros _ s1 ev1 F. eapply same_rcv_trans; [|exact F]. rsame_triv.
Qed.

Lemma set_snd_buf_rframes n : rframes (set_snd_buf n).
Proof. intros s ev. unfold set_snd_buf. wp_prims. destruct (st_eqb _ _); wp_prims; [rsame_triv|apply same_rcv_refl]. Qed.

Lemma closedown_rframes err local now : rframes (closedown err local now).
Proof. intros s ev. eapply wp_conseq; [apply closedown_rspec|]. cbv beta. intros _ s' _ (F & _). exact F. Qed.

Lemma get_next_clock_rframes timeout now : rframes (get_next_clock timeout now).
Proof.
  intros s ev. unfold get_next_clock. wp_prims.
  assert (Hcd : forall err, wp (closedown err false now;;; ret (@None Z)) s ev (fun _ s' _ => same_rcv s s')).
  { intros err. rfr_call closedown_rframes. wp_prims. rfr_chain. }
  destruct (shutdown s); try apply Hcd; cbn [andb].
  - repeat match goal with |- wp (if ?b then _ else _) _ _ _ => destruct b end; wp_prims; apply same_rcv_refl.
  - repeat match goal with |- wp (if ?b then _ else _) _ _ _ => destruct b end; try apply Hcd; wp_prims; apply same_rcv_refl.
Qed.

Lemma notify_clock_rframes now : rframes (notify_clock now).
Proof.
  intros s ev. unfold notify_clock. wp_prims.
  destruct (st_eqb (state s) CLOSED); [wp_prims; apply same_rcv_refl|].
  eapply wp_bind_rfr; [intros s' ev'; apply wp_when; intros _; [apply set_state_closed_rframes|apply same_rcv_refl]|].
  intros _ s1 ev1 F1. wp_prims.
  apply (wp_bind_spec _ _ _ _ (fun _ s' _ => same_rcv s s')).
  { assert (Hq : wp (queue_fin_message;;; attempt_send sfFin now;;; ret true) s1 ev1 (fun _ s' _ => same_rcv s s')).
    { rfr_call queue_fin_rframes. rfr_call attempt_send_rframes. wp_prims. rfr_chain. }
    destruct (_ && _); [|wp_prims; rfr_chain]. destruct (last_seg _) as [g|]; [|exact Hq]. destruct (_ && _); [|exact Hq].
    eapply wp_bind_rfr; [apply transmit_rframes|]. intros st s2 ev2 F2. destruct (negb (st =? 0)).
    - rfr_call closedown_rframes. wp_prims. rfr_chain.
    - wp_prims. rfr_chain. }
  cbv beta. intros r0 s2 ev2 F2. clear F1. destruct (negb r0); [wp_prims; exact F2|]. wp_prims.
  apply (wp_bind_spec _ _ _ _ (fun _ s' _ => same_rcv s s')).
  { destruct (_ && _); [|wp_prims; rfr_chain]. destruct (slist s2); [apply wp_fault|].
    eapply wp_bind_rfr; [apply transmit_rframes|]. intros st s3 ev3 F3. destruct (negb (st =? 0)).
    - rfr_call closedown_rframes. wp_prims. rfr_chain.
    - wp_prims. destruct (dup_acks s3 >=? 3); rfr_chain. }
  cbv beta. intros r1 s3 ev3 F3. clear F2. destruct (negb r1); [wp_prims; exact F3|]. wp_prims.
  apply (wp_bind_spec _ _ _ _ (fun _ s' _ => same_rcv s s')).
  { destruct (_ && _); [|wp_prims; exact F3]. destruct (time_diff now (lastrecv s3) >=? 15000).
    - rfr_call closedown_rframes. wp_prims. rfr_chain.
    - rfr_call packet_rframes. wp_prims. rfr_chain. }
  cbv beta. intros r2 s4 ev4 F4. destruct (negb r2); [wp_prims; exact F4|]. wp_prims.
  apply wp_when; intros _; [|exact F4].
  rfr_call packet_rframes. wp_prims. rfr_chain.
Qed.

Lemma send_rframes data now : rframes (send data now).
Proof.
  intros s ev. unfold send. wp_prims.
  destruct (negb (st_eqb (state s) ESTABLISHED)); [wp_prims; rsame_triv|].
  destruct (sb_remaining s =? 0); [wp_prims; rsame_triv|].
  rfr_call queue_rframes. rfr_call attempt_send_rframes.
  apply wp_bind_when; intros _; wp_prims; rfr_chain.
Qed.

Lemma shutdown_sock_rframes how now : rframes (shutdown_sock how now).
Proof.
  intros s ev. unfold shutdown_sock. wp_prims.
  destruct (negb (support_fin_ack s)).
  { apply wp_when; intros E; wp_prims; [|apply same_rcv_refl]. unfold same_rcv; cbn. repeat split; auto. discriminate. }
  eapply wp_bind_rfr; [intros s' ev'; apply wp_when; intros _; wp_prims; rsame_triv|]. intros _ s1 ev1 F1.
  destruct (how =? 0); [wp_prims; rfr_chain|]. wp_prims.
  assert (Hfin : forall n, n <> LISTEN -> n <> SYN_SENT -> n <> SYN_RECEIVED -> n <> ESTABLISHED ->
    wp (queue_fin_message;;; attempt_send sfFin now;;; s <- get;; when (negb (st_eqb (state s) CLOSED)) (set_state n)) s1 ev1
       (fun _ s' _ => same_rcv s s')).
  { intros n N1 N2 N3 N4. rfr_call queue_fin_rframes. rfr_call attempt_send_rframes. wp_prims.
    apply wp_when; intros _; [|rfr_chain].
    eapply wp_conseq; [apply set_state_rframes; assumption|]. cbv beta. intros; rfr_chain. }
  destruct (state s1); try (wp_prims; rfr_chain); try (apply Hfin; discriminate).
  - eapply wp_conseq; [apply set_state_closed_rframes|]. cbv beta. intros; rfr_chain.
  - eapply wp_conseq; [apply set_state_closed_rframes|]. cbv beta. intros; rfr_chain.
  - destruct (rb_buffered s1 >? 0); [|apply Hfin; discriminate].
    eapply wp_conseq; [apply closedown_rframes|]. cbv beta. intros; rfr_chain.
  - destruct (rb_buffered s1 >? 0); [|apply Hfin; discriminate].
    eapply wp_conseq; [apply closedown_rframes|]. cbv beta. intros; rfr_chain.
Qed.

Lemma close_sock_rframes force now : rframes (close_sock force now).
Proof.
  intros s ev. unfold close_sock. wp_prims. destruct (_ && _); [apply closedown_rframes|apply shutdown_sock_rframes].
Qed.

Lemma notify_packet_rspec S cl R p now s ev :
  rinv S cl R s -> (forall seg, parse_packet p = Some seg -> honest S cl now seg) ->
  wp (notify_packet p now) s ev (fun _ s' _ => rinv S cl R s').
Proof.
  intros HI Hh. unfold notify_packet. destruct (len p >? MAX_PACKET); [wp_prims; eapply rinv_frame; [exact HI|rsame_triv]|].
  destruct (parse_packet p) as [seg|]; [apply process_rspec; [exact HI|apply Hh; reflexivity]|wp_prims; eapply rinv_frame; [exact HI|rsame_triv]].
Qed.

Lemma set_rcv_buf_rspec S cl R n s ev :
  rinv S cl R s -> cl <= n <= 65535 -> wp (set_rcv_buf n) s ev (fun _ s' _ => rinv S cl R s').
Proof.
  intros HI Hn. unfold set_rcv_buf. wp_prims. destruct (st_eqb (state s) LISTEN) eqn:E; [|wp_prims; exact HI].
  apply st_eqb_eq in E. eapply wp_conseq; [apply resize_rspec|]. cbv beta. intros _ s' _ [(-> & _)|(_ & Hsfa & Hr)]; [exact HI|].
  assert (Hsc : rscale 33 n 0 = (n, 0)).
  { cbn [rscale]. replace (n >? 65535) with false by lia. reflexivity. }
  rewrite Hsc in Hr. destruct HI as ([A1 A2 A3 A4 A5] & Hz).
  assert (Ew : w32 (n * 2 ^ 0) = n) by (rewrite Z.pow_0_r, Z.mul_1_r; apply w32_small; unfold M32; lia). rewrite Ew in Hr.
  destruct Hr as (R1 & R2 & R3 & R4 & R5 & R6 & R7 & R9 & R10).
  split; [|rewrite R3, R7; exact Hz]. constructor; try assumption; [rewrite R5; exact A4|].
  destruct A5 as [P|[(pos & fin & _ & _ & _ & _ & _ & (C1 & _))|(_ & _ & _ & _ & C1 & _)]];
    [|rewrite E in C1; discriminate C1|rewrite E in C1; discriminate C1].
  left. destruct P as (P1 & P2 & P3 & P4 & P5 & P6 & P7 & P8). unfold pre0. rewrite R3, R4, R1; cbn. repeat split; try assumption. lia.
Qed.

Lemma recv_rspec S cl R n now s ev :
  rinv S cl R s -> 0 <= n ->
  wp (recv n now) s ev (fun r s' _ => rinv S cl (R ++ delivered (fst r) (snd r)) s').
Proof.
  intros HI Hn. unfold recv. wp_prims.
  assert (Hnil : forall r : Z, R ++ delivered r [] = R) by (intros r; unfold delivered; destruct (r >? 0); apply app_nil_r).
  repeat match goal with |- wp (if ?b then _ else _) _ _ _ =>
    destruct b eqn:?; [wp_prims; cbn [fst snd]; rewrite Hnil; first [exact HI|eapply rinv_frame; [exact HI|rsame_triv]]|] end.
  wp_prims.
  set (d := firstn (Z.to_nat n) (rb_data (rbuf s))). set (rd := Z.min n (rb_n (rbuf s))).
  match goal with |- wp _ ?s2 _ _ => set (s2' := s2) end.
  assert (Hn0 : 0 < n) by lia.
  (* the read itself *)
  assert (HI2 : rinv S cl (R ++ d) s2' /\ (rd = 0 -> d = [])).
  { destruct HI as ([A1 A2 A3 A4 A5] & Hz). split.
    - split; [|exact Hz]. constructor; try assumption. unfold s2'.
      destruct A5 as [P|[(pos & fin & L1 & L2 & L3 & L4 & L5 & L6)|(D1 & D2 & D3 & D4 & D5 & D6 & D7 & (k & D8))]].
      + left. destruct P as (P1 & P2 & P3 & P4 & P5 & P6 & P7 & P8). unfold pre0, d; cbn [rcv_nxt rbuf rlist set rb_data rb_n rb_fut rb_total rb_cap].
        rewrite P2, P3, P7. rewrite skipn_nil, firstn_nil. cbn. repeat split; try assumption. lia.
      + right; left. exists pos, fin. cbn [rcv_nxt rbuf rlist set]. split; [exact L1|]. split; [exact L2|]. split; [exact L3|]. split; [exact L4|].
        split; [apply data_ok_read; [exact L5|lia]|exact L6].
      + right; right. unfold dead; cbn [rcv_nxt rbuf set rb_data rb_n rb_cap support_fin_ack shutdown state].
        split; [exact D1|]. split; [exact D2|]. split; [exact D3|]. split; [exact D4|]. split; [exact D5|].
        split; [unfold rd, len in *; rewrite skipn_length; lia|]. split; [unfold rd, len in *; lia|]. exists k. unfold d. rewrite <- app_assoc, firstn_skipn. exact D8.
    - intros E0. unfold rd in E0. assert (Hz0 : rb_n (rbuf s) = 0) by lia.
      assert (Hfo : rb_n (rbuf s) = len (rb_data (rbuf s))).
      { destruct A5 as [P|[(pos & fin & _ & _ & _ & _ & L5 & _)|(_ & _ & _ & _ & _ & D6 & _)]]; [|apply L5|exact D6].
        destruct P as (_ & P2 & P3 & _). rewrite P2, P3. reflexivity. }
      unfold d. destruct (rb_data (rbuf s)); [apply firstn_nil|]. unfold len in Hfo. cbn [length] in Hfo. lia. }
  destruct HI2 as (HI2 & Hd0). clearbody s2'.
  destruct ((rd =? 0) && _) eqn:Eblk.
  { wp_prims. cbn [fst snd]. rewrite Hnil. apply andb_prop in Eblk. destruct Eblk as (E0 & _).
    rewrite (Hd0 ltac:(lia)), app_nil_r in HI2. eapply rinv_frame; [exact HI2|rsame_triv]. }
  assert (Hdel : delivered rd d = d).
  { unfold delivered. destruct (rd >? 0) eqn:E; [reflexivity|]. symmetry. apply Hd0. unfold rd in *. 
    assert (0 <= rb_n (rbuf s)).
    { destruct HI as ([_ _ _ _ A5] & _). destruct A5 as [P|[(pos & fin & _ & _ & _ & _ & L5 & _)|(_ & _ & _ & _ & _ & D6 & _)]].
      - destruct P as (_ & _ & P3 & _). lia.
      - destruct L5 as (_ & _ & _ & _ & L & _). rewrite L. unfold len; lia.
      - rewrite D6. unfold len; lia. }
    lia. }
  apply (wp_bind_spec _ _ _ _ (fun _ s' _ => same_rcv s2' s')).
  { destruct (_ >=? _); [|wp_prims; apply same_rcv_refl]. wp_prims.
    apply wp_when; intros _; [|rsame_triv].
    eapply wp_conseq; [apply attempt_send_rframes|]. cbv beta. intros _ s3 _ F3. eapply same_rcv_trans; [|exact F3]. rsame_triv. }
  cbv beta. intros _ s3 ev3 F3. wp_prims. cbn [fst snd]. rewrite Hdel. eapply rinv_frame; eauto.
Qed.

(** ---- all sequences of operations ---- *)
Definition honest_op (S : bytes) (cl : Z) (o : op) : Prop :=
  match o with
  | OPacket p now => forall seg, parse_packet p = Some seg -> honest S cl now seg
  | OSetRcvBuf n => cl <= n <= 65535
  | ORecv n _ => 0 <= n
  | _ => True
  end.

Definition rinit (cl : Z) (s : sock) : Prop :=
  state s = LISTEN /\ rcv_nxt s = 0 /\ rb_data (rbuf s) = [] /\ rb_n (rbuf s) = 0 /\ rb_fut (rbuf s) = [] /\ rb_total (rbuf s) = 0 /\
  rlist s = [] /\ rcv_fin s = 0 /\ cl <= rb_cap (rbuf s).

Lemma rinit_rinv S cl s : rinit cl s -> len S + 2 < NW -> 0 <= cl <= len S -> cl <= 61440 -> rinv S cl [] s.
Proof.
  intros (H1 & H2 & H3 & H4 & H5 & H6 & H7 & H8 & H9) NWr Hcl Hcl2. split; [|intros _; rewrite H1; reflexivity].
  constructor; try assumption; [left; exact H8|]. left. unfold pre0. repeat split; assumption.
Qed.

Lemma sock_init_rinit cv cl : cl <= 61440 -> rinit cl (sock_init cv).
Proof. intros H. unfold rinit, sock_init; cbn. repeat split; try reflexivity. exact H. Qed.

Lemma step_rinv S cl t o t' :
  rinv S cl (t_read t) (t_sock t) -> honest_op S cl o -> step t o = Ok t' -> rinv S cl (t_read t') (t_sock t').
Proof.
  intros HI Ho Hs. unfold step, upd_trace in Hs.
  destruct o;
  match type of Hs with match ?m ?s ?ev with _ => _ end = _ =>
    destruct (m s ev) as [[[a s'] ev']|] eqn:E; [|discriminate Hs] end;
  injection Hs as <-; cbn [t_read t_sock t_ev] in *; rewrite ?app_nil_r in *.
  - exact (wp_ok _ _ _ _ _ _ _ (connect_rspec _ _ _ _ _ _ HI) E).
  - eapply rinv_frame; [exact HI|]. exact (wp_ok _ _ _ _ _ _ _ (send_rframes _ _ _ _) E).
  - exact (wp_ok _ _ _ _ _ _ _ (recv_rspec _ _ _ _ _ _ _ HI Ho) E).
  - exact (wp_ok _ _ _ _ _ _ _ (notify_packet_rspec _ _ _ _ _ _ _ HI Ho) E).
  - eapply rinv_frame; [exact HI|]. exact (wp_ok _ _ _ _ _ _ _ (notify_clock_rframes _ _ _) E).
  - eapply rinv_frame; [exact HI|]. exact (wp_ok _ _ _ _ _ _ _ (get_next_clock_rframes _ _ _ _) E).
  - eapply rinv_frame; [exact HI|]. exact (wp_ok _ _ _ _ _ _ _ (notify_mtu_rframes _ _ _) E).
  - eapply rinv_frame; [exact HI|]. exact (wp_ok _ _ _ _ _ _ _ (shutdown_sock_rframes _ _ _ _) E).
  - eapply rinv_frame; [exact HI|]. exact (wp_ok _ _ _ _ _ _ _ (close_sock_rframes _ _ _ _) E).
  - exact (wp_ok _ _ _ _ _ _ _ (set_rcv_buf_rspec _ _ _ _ _ _ HI Ho) E).
  - eapply rinv_frame; [exact HI|]. exact (wp_ok _ _ _ _ _ _ _ (set_snd_buf_rframes _ _ _) E).
Qed.

Lemma run_rinv S cl ops : forall t t',
  rinv S cl (t_read t) (t_sock t) -> Forall (honest_op S cl) ops -> run t ops = Ok t' -> rinv S cl (t_read t') (t_sock t').
Proof.
  induction ops as [|o r IH]; intros t t' HI Ho H; cbn [run] in H.
  - injection H as <-. exact HI.
  - destruct (step t o) as [t1|] eqn:E; [|discriminate]. inversion Ho; subst.
    apply (IH t1 t'); [eapply step_rinv; eauto|assumption|exact H].
Qed.

Lemma app_prefix_firstn {A} (a b l : list A) m : a ++ b = firstn m l -> a = firstn (length a) l.
Proof.
  intros H. assert (H1 : firstn (length a) (a ++ b) = a) by (rewrite firstn_app, Nat.sub_diag, firstn_all; cbn; apply app_nil_r).
  rewrite H in H1. rewrite firstn_firstn in H1. rewrite <- H1 at 1.
  assert (length a <= m)%nat. { apply (f_equal (@length A)) in H. rewrite app_length, firstn_length in H. lia. }
  rewrite Nat.min_l by lia. reflexivity.
Qed.

(** RECEIVER SOUNDNESS.  From any initial (LISTEN, nothing received) socket, after ANY sequence of operations in which every segment
    fed to the socket is honest w.r.t. the peer's stream [S] (connect message of [cl] bytes, then application bytes), and as long as
    [S] is shorter than 2^31 - 2: the bytes handed to the application so far are a prefix of the peer's application bytes. *)
Theorem receiver_soundness S cl s0 ops t :
  rinit cl s0 -> len S + 2 < NW -> 0 <= cl <= len S -> cl <= 61440 ->
  Forall (honest_op S cl) ops -> run (start s0) ops = Ok t ->
  exists k, t_read t = firstn k (skipn (Z.to_nat cl) S).
Proof.
  intros Hi NWr Hcl Hcl2 Ho Hr.
  assert (HI : rinv S cl (t_read t) (t_sock t)).
  { apply (run_rinv S cl ops (start s0) t); [apply rinit_rinv; assumption|exact Ho|exact Hr]. }
  destruct HI as ([_ _ _ _ [P|[(pos & fin & _ & _ & _ & _ & L5 & _)|(_ & _ & _ & _ & _ & _ & _ & (k & D8))]]] & _).
  - destruct P as (_ & _ & _ & _ & _ & _ & P7 & _). exists 0%nat. rewrite P7. reflexivity.
  - destruct L5 as (_ & L & _). eexists. eapply app_prefix_firstn. exact L.
  - eexists. eapply app_prefix_firstn. exact D8.
Qed.
