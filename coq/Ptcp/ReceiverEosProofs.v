(** C08, end of stream (partial): once the receiving socket has consumed the peer's FIN (its rcv_nxt stands one past the end of the peer's
    stream), every byte the peer's application wrote has been handed to [recv] or sits, in order, in the receive buffer: the FIN is never
    consumed before the data that precedes it, for any arrival order / duplication / overlap of honest segments.
    NOT proved here (hence "_partial"): the link between what the application observes ([recv] returning 0, or the states CLOSE_WAIT /
    CLOSING / LAST_ACK / TIME_WAIT reached through a received FIN) and "the FIN has been consumed"; that needs the state machine to be
    tracked through the receive-side invariant. *)
From Coq Require Import ZArith List Bool Lia.
From Nice Require Import Base.Bytes Ptcp.PtcpModel Ptcp.PtcpProofs Ptcp.PtcpHoare Ptcp.SockOps Ptcp.SenderInvProofs
                         Ptcp.ReceiverInvProofs Ptcp.ReceiverSoundProofs Ptcp.E2EComposeProofs.
Import ListNotations.
Local Open Scope Z_scope.

Theorem receiver_eos_partial S cl s0 ops t :
  rinit cl s0 -> len S + 2 < NW -> 0 <= cl <= len S -> cl <= 61440 ->
  Forall (honest_op S cl) ops -> run (start s0) ops = Ok t ->
  support_fin_ack (t_sock t) = true -> rcv_nxt (t_sock t) = len S + 1 ->
  t_read t ++ rb_data (rbuf (t_sock t)) = skipn (Z.to_nat cl) S.
Proof.
  intros Hi NWr Hcl Hcl2 Ho Hr Hsfa Hn.
  assert (HI : rinv S cl (t_read t) (t_sock t)).
  { apply (run_rinv S cl ops (start s0) t); [apply rinit_rinv; assumption|exact Ho|exact Hr]. }
  destruct HI as ([_ _ _ _ [P|[(pos & fin & L1 & L2 & L3 & L4 & L5 & _)|(D1 & _)]]] & _).
  - destruct P as (P1 & _). unfold len in *. lia.
  - destruct fin; [|lia]. specialize (L4 eq_refl). destruct L5 as (_ & L & _). rewrite L. fold (Wof S cl).
    apply firstn_all2. pose proof (len_Wof S cl Hcl) as LW. unfold len in *. lia.
  - congruence.
Qed.

(* the same between two sockets: [c] is the length of the sender's connect message *)
Theorem one_way_eos_partial s0 opsS tS r0 opsR tR :
  init_ok s0 -> run (start s0) opsS = Ok tS -> len (t_written tS) < NW - 10 -> sender_discipline tS ->
  rinit 7 r0 -> run (start r0) opsR = Ok tR -> Forall (recv_op_ok tS) opsR ->
  exists c, 0 <= c <= 7 /\
    (support_fin_ack (t_sock tR) = true -> rcv_nxt (t_sock tR) = c + len (t_written tS) + 1 ->
     t_read tR ++ rb_data (rbuf (t_sock tR)) = t_written tS).
Proof.
  intros Hi HrS Hb Hdisc Hri HrR Hops.
  assert (Hb8 : len (t_written tS) < NW - 8) by lia.
  destruct (sender_packets s0 opsS tS Hi HrS Hb8) as (C & HC7 & Hpk).
  exists (len C). split; [unfold len in *; lia|]. intros Hsfa Hn.
  set (S := C ++ t_written tS). set (cl := len C).
  assert (Hl : len S = cl + len (t_written tS)) by (unfold S, cl; apply len_app).
  assert (Hcl0 : 0 <= cl) by (unfold cl, len; lia).
  assert (Hcl7 : cl <= 7) by exact HC7.
  assert (Hw0 : 0 <= len (t_written tS)) by (unfold len; lia).
  assert (Hri' : rinit cl r0).
  { destruct Hri as (R1 & R2 & R3 & R4 & R5 & R6 & R7 & R8 & R9). repeat split; try assumption. lia. }
  assert (Hnw : len S + 2 < NW) by lia.
  assert (Hcs : 0 <= cl <= len S) by lia.
  assert (Hc6 : cl <= 61440) by lia.
  assert (Hhon : Forall (honest_op S cl) opsR).
  { rewrite Forall_forall in *. intros o Ho. specialize (Hops o Ho). destruct o; cbn [honest_op recv_op_ok] in *; try exact I; try lia.
    destruct Hops as (Hin & Hts). intros seg Hp. destruct (parse_packet_fields _ _ Hp) as (E1 & E2 & E3 & E4).
    pose proof (Hpk p Hin) as Hok. destruct (Hdisc C HC7 Hpk p Hin) as (Hw & Hf).
    unfold honest. rewrite E1, E2, E3, E4. split.
    + intros Hne. destruct (Hok Hne) as (K1 & K2 & K3 & K4). fold S in K2, K3. split; [exact K1|]. split; [exact K2|]. split; [exact K3|].
      unfold pkt_ctl in *. destruct (has_flag (pkt_flags p) FLAG_CTL) eqn:Ectl.
      * destruct (Hw eq_refl Hne) as (W1 & W2). split; [exact W1|]. split; [exact W2|]. apply Hts; [exact Ectl|exact Hne].
      * exact K4.
    + intros Ef. rewrite Hl. apply Hf. exact Ef. }
  assert (Hn' : rcv_nxt (t_sock tR) = len S + 1) by lia.
  rewrite (receiver_eos_partial S cl r0 opsR tR Hri' Hnw Hcs Hc6 Hhon HrR Hsfa Hn').
  unfold S, cl, len. rewrite Nat2Z.id. apply skipn_app_exact.
Qed.

(* the same criterion in terms of the socket's own fields: a FIN position was recorded and rcv_nxt stands one past it *)
Theorem receiver_eos_fields_partial S cl s0 ops t :
  rinit cl s0 -> len S + 2 < NW -> 0 <= cl <= len S -> cl <= 61440 ->
  Forall (honest_op S cl) ops -> run (start s0) ops = Ok t ->
  support_fin_ack (t_sock t) = true -> 0 < rcv_fin (t_sock t) -> rcv_nxt (t_sock t) = rcv_fin (t_sock t) + 1 ->
  t_read t ++ rb_data (rbuf (t_sock t)) = skipn (Z.to_nat cl) S.
Proof.
  intros Hi NWr Hcl Hcl2 Ho Hr Hsfa Hf Hn.
  assert (HI : rinv S cl (t_read t) (t_sock t)).
  { apply (run_rinv S cl ops (start s0) t); [apply rinit_rinv; assumption|exact Ho|exact Hr]. }
  apply (receiver_eos_partial S cl s0 ops t); try assumption.
  destruct HI as ([_ _ _ Hfin _] & _). destruct Hfin as [F|F]; lia.
Qed.
