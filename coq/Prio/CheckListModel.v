(** Hand-written model of the per-stream check list ordering (agent/conncheck.c):
    pairs are inserted with g_slist_insert_sorted(conn_check_compare), removed at any
    position, and on a role change every priority is recomputed and the list is sorted
    with g_slist_sort (stable).  Priorities and the comparison come from the *generated*
    definitions (Gen/Candidate.v).  No proofs here. *)
From Coq Require Import ZArith List Bool.
From Nice Require Import Base.CSem Gen.Candidate.
Import ListNotations.
Local Open Scope Z_scope.

Record pair := { id : Z; lprio : Z; rprio : Z; prio : Z }.

Definition pair_prio (controlling : bool) (l r : Z) : Z :=
  oget (agent_candidate_pair_priority (if controlling then 1 else 0) l r).

Definition cmp (a b : pair) : Z := oget (conn_check_compare (prio a) (prio b)).

(* g_slist_insert_sorted: insert before the first element e with cmp(new, e) <= 0 *)
Fixpoint insert_sorted (p : pair) (l : list pair) : list pair :=
  match l with
  | [] => [p]
  | e :: l' => if cmp p e <=? 0 then p :: l else e :: insert_sorted p l'
  end.

(* stable sort: insertion sort that keeps equal elements in their original order
   (an element is put before later elements that compare equal) *)
Fixpoint insert_stable (p : pair) (l : list pair) : list pair :=
  match l with
  | [] => [p]
  | e :: l' => if cmp p e <=? 0 then p :: l else e :: insert_stable p l'
  end.
Definition sort_stable (l : list pair) : list pair := fold_right insert_stable [] l.

Record st := { controlling : bool; clist : list pair }.

Inductive op :=
| Add (id l r : Z)
| Remove (idx : nat)
| SetRole (c : bool).

Fixpoint remove_nth (n : nat) (l : list pair) {struct l} : list pair :=
  match l with
  | [] => []
  | e :: l' => match n with O => l' | S n' => e :: remove_nth n' l' end
  end.

Definition step (s : st) (o : op) : st :=
  match o with
  | Add i l r =>
      {| controlling := controlling s;
         clist := insert_sorted {| id := i; lprio := l; rprio := r; prio := pair_prio (controlling s) l r |} (clist s) |}
  | Remove n => {| controlling := controlling s; clist := remove_nth n (clist s) |}
  | SetRole c =>
      if Bool.eqb c (controlling s) then s else
      {| controlling := c;
         clist := sort_stable (map (fun p => {| id := id p; lprio := lprio p; rprio := rprio p;
                                                prio := pair_prio c (lprio p) (rprio p) |}) (clist s)) |}
  end.

Definition run (ops : list op) (s : st) : st := fold_left step ops s.
