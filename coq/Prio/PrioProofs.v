From Coq Require Import ZArith List Lia Bool ZifyBool Sorting.Permutation.
From Nice Require Import Base.CSem Gen.Candidate Prio.CheckListModel.
Import ListNotations.
Local Open Scope Z_scope.
Ltac Zify.zify_post_hook ::= Z.div_mod_to_equations.

Definition u32 (x : Z) : Prop := 0 <= x < 4294967296.

Ltac unwrap := unfold uwrap;
  change (2 ^ 64) with 18446744073709551616; change (2 ^ 32) with 4294967296;
  change (2 ^ 16) with 65536; change (2 ^ 8) with 256.

(** ---- candidate priority ---- *)
Lemma candidate_formula tp lp c :
  0 <= tp <= 126 -> 0 <= lp <= 65535 -> 1 <= c <= 256 ->
  nice_candidate_ice_priority_full tp lp c = Some (2 ^ 24 * tp + 2 ^ 8 * lp + (256 - c)).
Proof.
  intros Ht Hl Hc. unfold nice_candidate_ice_priority_full. unwrap.
  change (2 ^ 24) with 16777216. f_equal. lia.
Qed.

Lemma candidate_formula_range tp lp c v :
  0 <= tp <= 126 -> 0 <= lp <= 65535 -> 1 <= c <= 256 ->
  nice_candidate_ice_priority_full tp lp c = Some v -> 0 <= v < 2147483648.
Proof.
  intros Ht Hl Hc. rewrite candidate_formula by assumption.
  change (2 ^ 24) with 16777216. change (2 ^ 8) with 256. intros H.
  assert (E : v = 16777216 * tp + 256 * lp + (256 - c)) by congruence. lia.
Qed.

Lemma candidate_formula_monotone tp lp c tp' lp' c' :
  0 <= tp <= 126 -> 0 <= lp <= 65535 -> 1 <= c <= 256 ->
  0 <= tp' <= 126 -> 0 <= lp' <= 65535 -> 1 <= c' <= 256 ->
  tp < tp' -> oget (nice_candidate_ice_priority_full tp lp c) < oget (nice_candidate_ice_priority_full tp' lp' c').
Proof.
  intros. rewrite !candidate_formula by assumption. cbn [oget].
  change (2 ^ 24) with 16777216. change (2 ^ 8) with 256. lia.
Qed.

Lemma local_pref_formula d t o :
  0 <= d -> 0 <= t -> 0 <= o ->
  nice_candidate_ice_local_preference_full d t o =
  if (o <? c_NICE_CANDIDATE_MAX_LOCAL_ADDRESSES) && (t <? c_NICE_CANDIDATE_MAX_TURN_SERVERS) && (d <? 8)
  then Some (d * 8192 + t * 64 + o) else None.
Proof.
  intros Hd Ht Ho. unfold nice_candidate_ice_local_preference_full, c_NICE_CANDIDATE_MAX_LOCAL_ADDRESSES, c_NICE_CANDIDATE_MAX_TURN_SERVERS.
  destruct (o <? 64) eqn:E1; [|reflexivity].
  destruct (t <? 8) eqn:E2; [|reflexivity].
  destruct (d <? 8) eqn:E3; [|reflexivity].
  cbn [andb]. rewrite !Z.shiftl_mul_pow2 by lia. unwrap.
  change (2 ^ 13) with 8192. change (2 ^ 6) with 64. f_equal. lia.
Qed.

Lemma local_pref_injective d t o d' t' o' v :
  0 <= d -> 0 <= t -> 0 <= o -> 0 <= d' -> 0 <= t' -> 0 <= o' ->
  nice_candidate_ice_local_preference_full d t o = Some v ->
  nice_candidate_ice_local_preference_full d' t' o' = Some v ->
  d = d' /\ t = t' /\ o = o' /\ 0 <= v <= 65535.
Proof.
  intros. rewrite local_pref_formula in * by assumption.
  unfold c_NICE_CANDIDATE_MAX_LOCAL_ADDRESSES, c_NICE_CANDIDATE_MAX_TURN_SERVERS in *.
  destruct ((o <? 64) && (t <? 8) && (d <? 8)) eqn:E1; [|discriminate].
  destruct ((o' <? 64) && (t' <? 8) && (d' <? 8)) eqn:E2; [|discriminate].
  match goal with H1 : Some _ = Some v, H2 : Some _ = Some v |- _ => injection H1 as H1; injection H2 as H2 end. lia.
Qed.

Lemma ms_local_pref_formula tr d t o :
  0 <= tr -> 0 <= d -> 0 <= t -> 0 <= o ->
  nice_candidate_ms_ice_local_preference_full tr d t o =
  if (o <? 64) && (t <? 8) && (d <? 8) && (tr <? 16)
  then Some (tr * 4096 + d * 512 + t * 64 + o) else None.
Proof.
  intros Htr Hd Ht Ho. unfold nice_candidate_ms_ice_local_preference_full.
  destruct (o <? 64) eqn:E1; [|reflexivity].
  destruct (t <? 8) eqn:E2; [|reflexivity].
  destruct (d <? 8) eqn:E3; [|reflexivity].
  destruct (tr <? 16) eqn:E4; [|reflexivity].
  cbn [andb]. rewrite !Z.shiftl_mul_pow2 by lia. unwrap.
  change (2 ^ 12) with 4096. change (2 ^ 9) with 512. change (2 ^ 6) with 64. f_equal. lia.
Qed.

(** type preference: host > prflx > srflx > relayed for every reliability / transport / nat / relay type *)
Definition tpref reliable nat turn_type transport ty :=
  nice_candidate_ice_type_preference reliable nat ty turn_type transport.

Lemma type_rank reliable nat turn_type transport :
  exists h p s r,
    tpref reliable nat turn_type transport c_NICE_CANDIDATE_TYPE_HOST = Some h /\
    tpref reliable nat turn_type transport c_NICE_CANDIDATE_TYPE_PEER_REFLEXIVE = Some p /\
    tpref reliable nat turn_type transport c_NICE_CANDIDATE_TYPE_SERVER_REFLEXIVE = Some s /\
    tpref reliable nat turn_type transport c_NICE_CANDIDATE_TYPE_RELAYED = Some r /\
    126 >= h /\ h > p /\ p > s /\ s > r /\ r >= 0.
Proof.
  unfold tpref, nice_candidate_ice_type_preference,
    c_NICE_CANDIDATE_TYPE_HOST, c_NICE_CANDIDATE_TYPE_PEER_REFLEXIVE, c_NICE_CANDIDATE_TYPE_SERVER_REFLEXIVE, c_NICE_CANDIDATE_TYPE_RELAYED.
  cbn [Z.eqb Pos.eqb].
  destruct (reliable =? 0) eqn:E1; destruct (transport =? 0) eqn:E2; destruct (nat =? 0) eqn:E3;
    destruct (turn_type =? 0) eqn:E4; cbn [negb andb orb];
    do 4 eexists; repeat split; try reflexivity; vm_compute; congruence.
Qed.

(** every type preference the function can return is within the RFC's 0..126 *)
Lemma type_pref_range reliable nat turn_type transport ty v :
  tpref reliable nat turn_type transport ty = Some v -> 0 <= v <= 126.
Proof.
  unfold tpref, nice_candidate_ice_type_preference.
  destruct (ty =? 0); [|destruct (ty =? 2); [|destruct (ty =? 1); [|destruct (ty =? 3)]]];
  destruct (reliable =? 0) eqn:E1; destruct (transport =? 0) eqn:E2; destruct (nat =? 0) eqn:E3;
    destruct (turn_type =? 0) eqn:E4; cbn [negb andb orb]; intros H; injection H as <-; vm_compute; split; congruence.
Qed.

(** ---- pair priority ---- *)
Definition pair_formula (G D : Z) : Z := 2 ^ 32 * Z.min G D + 2 * Z.max G D + (if G >? D then 1 else 0).

Lemma pair_priority_mod G D : u32 G -> u32 D ->
  nice_candidate_pair_priority G D = Some (pair_formula G D mod 2 ^ 64).
Proof.
  unfold u32, nice_candidate_pair_priority, pair_formula. intros HG HD.
  change ((0 <=? 32) && (32 <? 64)) with true. cbn match.
  change (Z.shiftl 1 32) with 4294967296. unwrap.
  destruct (G >? D) eqn:E1; destruct (G <? D) eqn:E2; f_equal;
    rewrite ?Z.min_l, ?Z.min_r, ?Z.max_l, ?Z.max_r by lia; lia.
Qed.

Lemma pair_priority_exact G D : u32 G -> u32 D -> pair_formula G D < 2 ^ 64 ->
  nice_candidate_pair_priority G D = Some (pair_formula G D).
Proof.
  intros HG HD Hlt. rewrite pair_priority_mod by assumption. f_equal. apply Z.mod_small.
  split; [|exact Hlt]. unfold pair_formula, u32 in *. destruct (G >? D); lia.
Qed.

(* the formula fits 64 bits whenever one of the two priorities is below 2^32 - 2; in particular for all
   RFC 8445 priorities (1 .. 2^31 - 1) *)
Lemma pair_formula_fits G D : u32 G -> u32 D -> Z.min G D <= 4294967293 -> pair_formula G D < 2 ^ 64.
Proof.
  unfold u32, pair_formula. intros. change (2 ^ 64) with 18446744073709551616. change (2 ^ 32) with 4294967296.
  destruct (G >? D); lia.
Qed.

Lemma role_symmetry x y :
  agent_candidate_pair_priority 1 x y = agent_candidate_pair_priority 0 y x.
Proof. reflexivity. Qed.

Lemma agent_pair_priority_spec c l r : u32 l -> u32 r ->
  agent_candidate_pair_priority c l r =
  Some ((if negb (c =? 0) then pair_formula l r else pair_formula r l) mod 2 ^ 64).
Proof.
  intros Hl Hr. unfold agent_candidate_pair_priority.
  destruct (negb (c =? 0)); rewrite pair_priority_mod by assumption; reflexivity.
Qed.

(* pair order = lexicographic order on (min, max, G>D), for priorities in the RFC's 31-bit range
   (for max >= 2^31 the RFC formula itself is not lexicographic: 2*max+1 can exceed 2^32) *)
Definition u31 (x : Z) : Prop := 0 <= x < 2147483648.
Lemma pair_formula_order G D G' D' :
  u31 G -> u31 D -> u31 G' -> u31 D' ->
  (Z.min G D < Z.min G' D' \/ (Z.min G D = Z.min G' D' /\ Z.max G D < Z.max G' D')) ->
  pair_formula G D < pair_formula G' D'.
Proof.
  unfold u31, pair_formula. change (2 ^ 32) with 4294967296. intros.
  destruct (G >? D); destruct (G' >? D'); lia.
Qed.

(* distinct candidate-priority couples get distinct pair priorities (31-bit range): the check-list order is
   total on pairs with distinct (G, D), and each side can recover (G, D) from the pair priority alone *)
Lemma pair_formula_injective G D G' D' :
  u31 G -> u31 D -> u31 G' -> u31 D' ->
  pair_formula G D = pair_formula G' D' -> G = G' /\ D = D'.
Proof.
  unfold u31, pair_formula. change (2 ^ 32) with 4294967296. intros HG HD HG' HD' E.
  destruct (G >? D) eqn:E1; destruct (G' >? D') eqn:E2; lia.
Qed.

(* outside the 31-bit range the RFC formula itself collides (2*max + 1 reaches 2^32) *)
Lemma pair_formula_not_injective_u32 :
  exists G D G' D', u32 G /\ u32 D /\ u32 G' /\ u32 D' /\ (G, D) <> (G', D') /\
    pair_formula G D = pair_formula G' D'.
Proof.
  exists 1, 1, 0, 2147483649. unfold u32. repeat split; try lia; try discriminate.
Qed.

(* the tie-break bit: swapping the two sides of an unequal couple changes the value by exactly one *)
Lemma pair_formula_swap G D : G <> D ->
  pair_formula G D = pair_formula D G + (if G >? D then 1 else -1).
Proof.
  unfold pair_formula. change (2 ^ 32) with 4294967296. intros NE.
  destruct (G >? D) eqn:E1; destruct (D >? G) eqn:E2; lia.
Qed.

(** ---- check list ordering ---- *)
Lemma cmp_le0 a b : (cmp a b <=? 0) = (prio a >=? prio b).
Proof.
  unfold cmp, conn_check_compare.
  destruct (prio a >? prio b) eqn:E1.
  - change (in_srange 32 (- (1))) with true. cbn [oget]. lia.
  - destruct (prio a <? prio b) eqn:E2; cbn [oget]; lia.
Qed.

Fixpoint desc (l : list pair) : Prop :=
  match l with
  | [] => True
  | a :: l' => (forall b, In b l' -> prio a >= prio b) /\ desc l'
  end.

Lemma insert_sorted_in p l x : In x (insert_sorted p l) <-> x = p \/ In x l.
Proof.
  induction l as [|e l IH]; cbn [insert_sorted In]; [intuition congruence|].
  destruct (cmp p e <=? 0); cbn [In]; [intuition congruence|]. rewrite IH. intuition congruence.
Qed.

Lemma insert_sorted_desc p l : desc l -> desc (insert_sorted p l).
Proof.
  induction l as [|e l IH]; intros H; cbn [insert_sorted desc]; [split; [intros b []|exact I]|].
  destruct H as [H1 H2].
  rewrite cmp_le0. destruct (prio p >=? prio e) eqn:E.
  - cbn [desc]. split; [|split; assumption].
    intros b [<-|Hb]; [lia|]. specialize (H1 b Hb). lia.
  - cbn [desc]. split; [|apply IH; exact H2].
    intros b Hb. apply insert_sorted_in in Hb. destruct Hb as [->|Hb]; [lia|apply H1; exact Hb].
Qed.

Lemma insert_stable_eq p l : insert_stable p l = insert_sorted p l.
Proof. induction l as [|e l IH]; cbn; [reflexivity|]. destruct (cmp p e <=? 0); congruence. Qed.

Lemma sort_stable_desc l : desc (sort_stable l).
Proof.
  unfold sort_stable. induction l as [|a l IH]; cbn [fold_right]; [exact I|].
  rewrite insert_stable_eq. apply insert_sorted_desc. exact IH.
Qed.

Lemma insert_sorted_perm p l : Permutation (p :: l) (insert_sorted p l).
Proof.
  induction l as [|e l IH]; cbn [insert_sorted]; [apply Permutation_refl|].
  destruct (cmp p e <=? 0); [apply Permutation_refl|].
  eapply Permutation_trans; [apply perm_swap|]. apply perm_skip. exact IH.
Qed.

Lemma sort_stable_perm l : Permutation l (sort_stable l).
Proof.
  unfold sort_stable. induction l as [|a l IH]; cbn [fold_right]; [apply perm_nil|].
  rewrite insert_stable_eq. eapply Permutation_trans; [|apply insert_sorted_perm]. apply perm_skip. exact IH.
Qed.

Lemma remove_nth_in n l x : In x (remove_nth n l) -> In x l.
Proof.
  revert n; induction l as [|e l IH]; intros n; cbn [remove_nth]; [exact (fun H => H)|].
  destruct n; cbn [In]; [intros H; right; exact H|]. intros [->|H]; [left; reflexivity|right; eapply IH; exact H].
Qed.

Lemma remove_nth_desc n l : desc l -> desc (remove_nth n l).
Proof.
  revert n; induction l as [|e l IH]; intros n H; cbn [remove_nth]; [exact I|].
  destruct H as [H1 H2]. destruct n; [exact H2|]. cbn [desc]. split; [|apply IH; exact H2].
  intros b Hb. apply H1. eapply remove_nth_in; exact Hb.
Qed.

(** invariant: sorted descending, and every stored priority is the one of the current role *)
Definition prio_ok (s : st) : Prop :=
  forall p, In p (clist s) -> prio p = pair_prio (controlling s) (lprio p) (rprio p).
Definition Inv (s : st) : Prop := desc (clist s) /\ prio_ok s.

Lemma step_inv s o : Inv s -> Inv (step s o).
Proof.
  intros [Hd Hp]. destruct o as [i l r|n|c]; cbn [step].
  - split; cbn [clist controlling].
    + apply insert_sorted_desc; exact Hd.
    + intros p Hin. cbn [clist controlling] in *. apply insert_sorted_in in Hin. destruct Hin as [->|Hin]; [reflexivity|apply Hp; exact Hin].
  - split; cbn [clist controlling].
    + apply remove_nth_desc; exact Hd.
    + intros p Hin. cbn [clist controlling] in *. apply Hp. eapply remove_nth_in; exact Hin.
  - destruct (Bool.eqb c (controlling s)); [split; assumption|].
    split; cbn [clist controlling].
    + apply sort_stable_desc.
    + intros p Hin. cbn [clist controlling] in *.
      apply (Permutation_in _ (Permutation_sym (sort_stable_perm _))) in Hin.
      apply in_map_iff in Hin. destruct Hin as (q & <- & _). reflexivity.
Qed.

Lemma run_inv ops : forall s, Inv s -> Inv (run ops s).
Proof.
  unfold run. induction ops as [|o ops IH]; intros s H; cbn [fold_left]; [exact H|].
  apply IH. apply step_inv. exact H.
Qed.

Lemma init_inv c : Inv {| controlling := c; clist := [] |}.
Proof. split; [exact I|intros p []]. Qed.

(* no pair is lost or invented by a role switch *)
Lemma setrole_perm s c : Permutation (map id (clist s)) (map id (clist (step s (SetRole c)))).
Proof.
  cbn [step]. destruct (Bool.eqb c (controlling s)); [apply Permutation_refl|]. cbn [clist].
  eapply Permutation_trans; [|apply Permutation_map; apply sort_stable_perm].
  rewrite map_map. cbn [id]. apply Permutation_refl.
Qed.
