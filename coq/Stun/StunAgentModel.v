(** Executable model of stun/stunagent.c (validate / finish / init functions), stun/stunhmac.c (stun_sha1,
    stun_hash_creds) and stun/stun5389.c (fingerprint).  HMAC-SHA1, MD5 and CRC-32 are the Gallina
    specifications of Crypto/.  No proofs in this file. *)
From Coq Require Import ZArith List Bool.
From Nice Require Import Base.Bytes Crypto.Sha1 Crypto.Md5 Crypto.Crc32 Stun.StunModel Gen.Utf8Skip.
Import ListNotations.
Local Open Scope Z_scope.
Local Open Scope bool_scope.

Inductive vstatus :=
| V_SUCCESS | V_NOT_STUN | V_INCOMPLETE | V_BAD_REQUEST | V_UNAUTHORIZED_BAD_REQUEST | V_UNAUTHORIZED
| V_UNMATCHED_RESPONSE | V_UNKNOWN_REQUEST_ATTRIBUTE | V_UNKNOWN_ATTRIBUTE | V_FORBIDDEN.

Record saved := { s_id : bytes; s_method : Z; s_key : option bytes; s_ltk : bytes; s_ltvalid : bool }.
Record agent := { a_cfg : cfg; a_known : list Z; a_sent : list (option saved); a_software : option bytes;
                  a_legacy_connchecks : bool }.
(* the StunMessage bookkeeping next to the buffer *)
Record mstate := { m_key : option bytes; m_ltk : bytes; m_ltvalid : bool }.
Definition m0 : mstate := {| m_key := None; m_ltk := zeros 16; m_ltvalid := false |}.

Definition MAX_SAVED : nat := 200.
Definition agent_init (c : cfg) (known : list Z) : agent :=
  {| a_cfg := c; a_known := known; a_sent := repeat None MAX_SAVED; a_software := None;
     a_legacy_connchecks := match cf_compat c with MSICE2 => true | _ => false end |}.

(** stun_sha1 (msg, len, msg_len, key, padding) *)
Definition sha1_input (buf : bytes) (ln msg_len : Z) (padding : bool) : bytes :=
  sub buf 0 2 ++ setw (msg_len mod 65536) ++ sub buf 4 (ln - 28) ++
  (if padding && ((ln - 24) mod 64 >? 0) then zeros (Z.to_nat (64 - (ln - 24) mod 64)) else []).
Definition stun_sha1 (buf : bytes) (ln msg_len : Z) (key : bytes) (padding : bool) : res bytes :=
  if ln <? 44 then Fault (* assert (len >= 44u) *) else Ok (hmac_sha1 key (sha1_input buf ln msg_len padding)).

(** stun_hash_creds with priv_trim_var *)
Fixpoint trim_front (l : bytes) : bytes := match l with 34 :: l' => trim_front l' | _ => l end.
Fixpoint trim_back_rev (l : bytes) : bytes := match l with x :: l' => if (x =? 34) || (x =? 0) then trim_back_rev l' else l | [] => [] end.
Definition trim_var (l : bytes) : bytes := rev (trim_back_rev (rev (trim_front l))).
Definition hash_creds (realm user pass : bytes) : bytes :=
  md5 (trim_var user ++ [58] ++ trim_var realm ++ [58] ++ trim_var pass).

(** stun_fingerprint (msg, len, typo) as the 32-bit value that is stored big-endian *)
Definition fingerprint (buf : bytes) (ln : Z) (typo : bool) : Z :=
  Z.lxor (crc32 typo (sub buf 0 2 ++ setw ((ln - 20) mod 65536) ++ sub buf 4 (ln - 12))) 1398035790.

Definition check_fingerprint (a : agent) (buf : bytes) : res bool :=
  let c := a_cfg a in
  r <- find32 c buf A_FPR ;;
  match r with
  | FOk fpr =>
    ml <- msg_length buf ;;
    if fpr =? fingerprint buf ml false then Ok true else
    match cf_compat c with
    | MSICE2 => hv <- find c buf A_MS_IMPL_VERSION ;;
                Ok (match hv with None => fpr =? fingerprint buf ml true | Some _ => false end)
    | _ => Ok false
    end
  | _ => Ok false
  end.

(** stun_agent_find_unknowns (first [max] mandatory attributes the agent does not know) *)
Fixpoint unknowns_loop (fuel : nat) (a : agent) (buf : bytes) (ln off : Z) (max : nat) : res (list Z) :=
  match fuel, max with
  | O, _ => Ok []
  | _, O => Ok []
  | S f, S max' =>
    if off <? ln then
      alen <- lift (getw buf (off + 2)) ;;
      atype <- lift (getw buf off) ;;
      let alen' := if f_no_aligned (a_cfg a) then alen else stun_align alen in
      if (atype <? 32768) && negb (existsb (Z.eqb atype) (a_known a)) then
        r <- unknowns_loop f a buf ln (off + 4 + alen') max' ;; Ok (atype :: r)
      else unknowns_loop f a buf ln (off + 4 + alen') max
    else Ok []
  end.
Definition find_unknowns (a : agent) (buf : bytes) (max : nat) : res (list Z) :=
  ln <- msg_length buf ;; unknowns_loop (S (length buf / 4)%nat) a buf ln 20 max.

(** default validater: first table entry whose username equals the message's USERNAME bytes *)
Definition validater := list (bytes * bytes).
Fixpoint lookup_user (t : validater) (u : bytes) : option bytes :=
  match t with
  | [] => None
  | (n, p) :: t' => if bytes_eqb n u then Some p else lookup_user t' u
  end.

Fixpoint find_sent (l : list (option saved)) (id : bytes) (m : Z) (i : nat) : option (nat * saved) :=
  match l with
  | [] => None
  | Some s :: l' => if (s_method s =? m) && bytes_eqb (s_id s) id then Some (i, s) else find_sent l' id m (S i)
  | None :: l' => find_sent l' id m (S i)
  end.
Fixpoint invalidate (l : list (option saved)) (i : nat) : list (option saved) :=
  match l, i with
  | [], _ => []
  | _ :: l', O => None :: l'
  | x :: l', S i' => x :: invalidate l' i'
  end.

Definition is_err_in (e : fret Z) (codes : list Z) : bool :=
  match e with FOk c => existsb (Z.eqb c) codes | _ => false end.

(** the MESSAGE-INTEGRITY step of stun_agent_validate: [inl status] = return that status, [inr ms] = go on *)
Definition integrity (c : cfg) (buf : bytes) (cls : Z) (err : fret Z) (ignore : bool) (key : option bytes)
           (ltk0 : bytes) (ltv0 : bool) : res (vstatus + mstate) :=
  match key with
  | Some k =>
    if negb ignore && (0 <? len k) then
      hf <- find c buf A_MI ;;
      match hf with
      | Some (ho, hl) =>
        if negb (hl =? 20) then Ok (inl V_UNAUTHORIZED) else
        md <- (if f_long_term c then
                 if ltv0 then Ok (Some ltk0) else
                 rf <- find c buf A_REALM ;; uf <- find c buf A_USERNAME ;;
                 match rf, uf with
                 | Some (ro, rl), Some (uo, ul) =>
                   rb <- rd_n buf ro (Z.to_nat rl) ;; ub <- rd_n buf uo (Z.to_nat ul) ;;
                   Ok (Some (hash_creds rb ub k))
                 | _, _ => Ok None
                 end
               else Ok (Some k)) ;;
        match md with
        | None => Ok (inl V_UNAUTHORIZED)
        | Some hk =>
          ml <- msg_length buf ;;
          sha <- (match cf_compat c with
                  | RFC3489 | OC2007 => stun_sha1 buf (ho + 20) ho hk true
                  | MSICE2 => stun_sha1 buf (ho + 20) (ml - 20) hk true
                  | RFC5389 => stun_sha1 buf (ho + 20) ho hk false
                  end) ;;
          got <- rd_n buf ho 20 ;;
          if bytes_eqb sha got
          then Ok (inr {| m_key := Some k; m_ltk := if f_long_term c then hk else zeros 16; m_ltvalid := f_long_term c |})
          else Ok (inl V_UNAUTHORIZED)
        end
      | None =>
        if (cls =? 3) && is_err_in err [400; 401] then Ok (inr m0) else Ok (inl V_UNAUTHORIZED)
      end
    else Ok (inr m0)
  | None => Ok (inr m0)
  end.

(** what follows a passed integrity step: 403 under consent freshness, one-shot invalidation of the matched
    transaction, MS implementation version, unknown attributes *)
Definition post_auth (a : agent) (buf : bytes) (cls : Z) (err : fret Z) (sent : option (nat * saved)) (ms : mstate)
  : res (vstatus * agent * mstate) :=
  let c := a_cfg a in
  if f_consent c && (cls =? 3) && is_err_in err [403] then Ok (V_FORBIDDEN, a, ms) else
  let a1 := match sent with
            | Some (i, _) => {| a_cfg := c; a_known := a_known a; a_sent := invalidate (a_sent a) i;
                                a_software := a_software a; a_legacy_connchecks := a_legacy_connchecks a |}
            | None => a end in
  iv <- find32 c buf A_MS_IMPL_VERSION ;;
  let a2 := match iv with
            | FOk _ => {| a_cfg := c; a_known := a_known a1; a_sent := a_sent a1; a_software := a_software a1;
                          a_legacy_connchecks := false |}
            | _ => a1 end in
  unk <- find_unknowns a buf 1 ;;
  match unk with
  | [] => Ok (V_SUCCESS, a2, ms)
  | _ => Ok (if cls =? 0 then V_UNKNOWN_REQUEST_ATTRIBUTE else V_UNKNOWN_ATTRIBUTE, a2, ms)
  end.

(* the credential-presence table of stunagent.c *)
Definition creds_missing (c : cfg) (cls : Z) (keynull ignore h_user h_mi h_nonce h_realm : bool) : bool :=
  keynull && negb ignore && ((cls =? 0) || (cls =? 1)) &&
  ((f_short_term c && (negb h_user || negb h_mi)) ||
   (f_long_term c && (cls =? 0) && (negb h_user || negb h_mi || negb h_nonce || negb h_realm)) ||
   (negb (f_ignore_creds c) && h_user && negb h_mi)).

(** authentication part of stun_agent_validate, after the length / cookie / fingerprint / transaction checks *)
Definition authenticate (a : agent) (buf : bytes) (vd : option validater) (cls : Z) (sent : option (nat * saved))
  : res (vstatus * agent * mstate) :=
  let c := a_cfg a in
  let key0 := match sent with Some (_, s) => s_key s | None => None end in
  let ltk0 := match sent with Some (_, s) => s_ltk s | None => zeros 16 end in
  let ltv0 := match sent with Some (_, s) => s_ltvalid s | None => false end in
  err <- (if cls =? 3 then find_error c buf else Ok FNotFound) ;;
  let ignore := f_ignore_creds c || ((cls =? 3) && is_err_in err [400; 401; 438; 300])
                || ((cls =? 1) && (f_long_term c || f_no_ind_auth c)) in
  h_user <- has_attr c buf A_USERNAME ;; h_mi <- has_attr c buf A_MI ;;
  h_nonce <- has_attr c buf A_NONCE ;; h_realm <- has_attr c buf A_REALM ;;
  let keynull := match key0 with None => true | Some _ => false end in
  if creds_missing c cls keynull ignore h_user h_mi h_nonce h_realm then Ok (V_UNAUTHORIZED_BAD_REQUEST, a, m0) else
  ufind <- find c buf A_USERNAME ;;
  uname <- (match ufind with Some (o, l) => rd_n buf o (Z.to_nat l) | None => Ok [] end) ;;
  let call_v := h_mi && ((keynull && negb ignore) || f_force_validater c) in
  let vres := if call_v then match vd with None => None | Some t => lookup_user t uname end else None in
  if call_v && (match vres with None => true | Some _ => false end) then Ok (V_UNAUTHORIZED, a, m0) else
  let key := if call_v then vres else key0 in
  r <- integrity c buf cls err ignore key ltk0 ltv0 ;;
  match r with
  | inl st => Ok (st, a, m0)
  | inr ms => post_auth a buf cls err sent ms
  end.

(** stun_agent_validate (agent, msg, buffer, buffer_len, validater, data): status, new agent, msg state *)
Definition validate (a : agent) (buf : bytes) (vd : option validater) : res (vstatus * agent * mstate) :=
  let c := a_cfg a in
  vl <- validate_len buf (negb (f_no_aligned c)) ;;
  match vl with
  | Invalid => Ok (V_NOT_STUN, a, m0)
  | Incomplete => Ok (V_INCOMPLETE, a, m0)
  | Len n =>
    if negb (n =? len buf) then Ok (V_NOT_STUN, a, m0) else
    if is5389 c && negb (has_cookie buf) then Ok (V_BAD_REQUEST, a, m0) else
    fp_ok <- (if is5389 c && f_use_fpr c then check_fingerprint a buf else Ok true) ;;
    if negb fp_ok then Ok (V_BAD_REQUEST, a, m0) else
    cls <- msg_class buf ;; meth <- msg_method buf ;;
    let is_resp := (cls =? 2) || (cls =? 3) in
    let sent := if is_resp then find_sent (a_sent a) (msg_id buf) meth O else None in
    if is_resp && (match sent with None => true | Some _ => false end) then Ok (V_UNMATCHED_RESPONSE, a, m0) else
    authenticate a buf vd cls sent
  end.

(** stun_agent_finish_message (agent, msg, key, key_len): Some (length, buffer) or None (returns 0) *)
Fixpoint first_free (l : list (option saved)) (i : nat) : option nat :=
  match l with [] => None | None :: _ => Some i | Some _ :: l' => first_free l' (S i) end.
Fixpoint set_nth {A} (l : list A) (i : nat) (x : A) : list A :=
  match l, i with [], _ => [] | _ :: l', O => x :: l' | y :: l', S i' => y :: set_nth l' i' x end.

Definition finish (a : agent) (buf : bytes) (ms : mstate) (key_arg : option bytes)
  : res (option (Z * bytes) * agent * mstate) :=
  let c := a_cfg a in
  cls <- msg_class buf ;; meth <- msg_method buf ;;
  let remember := (cls =? 0) && negb (is_oc2007 c && (meth =? 4)) in
  let slot := if remember then first_free (a_sent a) O else Some O in
  match slot with
  | None => Ok (None, a, ms)
  | Some idx =>
    let key := match m_key ms with Some k => Some k | None => key_arg end in
    r <- (match key with
          | None => Ok (Some (buf, ms))
          | Some k =>
            pre <- (if m_ltvalid ms then Ok (Some (m_ltk ms, ms)) else
                    if f_long_term c then
                      rf <- find c buf A_REALM ;; uf <- find c buf A_USERNAME ;;
                      match rf, uf with
                      | Some (ro, rl), Some (uo, ul) =>
                        rb <- rd_n buf ro (Z.to_nat rl) ;; ub <- rd_n buf uo (Z.to_nat ul) ;;
                        let md := hash_creds rb ub k in
                        Ok (Some (md, {| m_key := m_key ms; m_ltk := md; m_ltvalid := true |}))
                      | _, _ => Ok None     (* skip: no MESSAGE-INTEGRITY *)
                      end
                    else Ok (Some (zeros 16, ms))) ;;
            match pre with
            | None => Ok (Some (buf, ms))
            | Some (md, ms1) =>
              ap <- append c buf A_MI 20 ;;
              match ap with
              | None => Ok None
              | Some (b, o) =>
                ml <- msg_length b ;;
                let hk := if f_long_term c then md else k in
                sha <- (match cf_compat c with
                        | RFC3489 | OC2007 => stun_sha1 b ml (ml - 20) hk true
                        | MSICE2 => stun_sha1 b ml (ml - (if f_use_fpr c then 12 else 20)) hk true
                        | RFC5389 => stun_sha1 b ml (ml - 20) hk false
                        end) ;;
                b <- wr_chk b o sha ;; Ok (Some (b, ms1))
              end
            end
          end) ;;
    match r with
    | None => Ok (None, a, ms)
    | Some (b, ms1) =>
      r2 <- (if is5389 c && f_use_fpr c then
               ap <- append c b A_FPR 4 ;;
               match ap with
               | None => Ok None
               | Some (b2, o) => ml <- msg_length b2 ;; b3 <- wr_chk b2 o (be32_bytes (fingerprint b2 ml false)) ;; Ok (Some b3)
               end
             else Ok (Some b)) ;;
      match r2 with
      | None => Ok (None, a, ms1)
      | Some bf =>
        ml <- msg_length bf ;;
        let a' := if remember then
                    {| a_cfg := c; a_known := a_known a;
                       a_sent := set_nth (a_sent a) idx
                                   (Some {| s_id := msg_id bf; s_method := meth; s_key := key;
                                            s_ltk := m_ltk ms1; s_ltvalid := m_ltvalid ms1 |});
                       a_software := a_software a; a_legacy_connchecks := a_legacy_connchecks a |}
                  else a in
        Ok (Some (ml, bf), a', {| m_key := key; m_ltk := m_ltk ms1; m_ltvalid := m_ltvalid ms1 |})
      end
    end
  end.

(** init_request / indication / response / error.  [id] is the transaction id the implementation drew. *)
Definition PACKAGE_STRING : bytes := [108; 105; 98; 110; 105; 99; 101].
(** stun_message_append_software: at most 128 characters, whole UTF-8 sequences as counted by utf8_skip_data (regenerated from stun/stun5389.c);
    the BYTE count [ptr - software] is appended.  [s] is the string without its terminator; a final sequence announced longer than what is left
    of the string (the C then steps over the terminator) is outside the model: [firstn] stops at the end of [s]. *)
Fixpoint software_len (fuel : nat) (s : bytes) : nat :=
  match fuel, s with
  | O, _ => O
  | _, [] => O
  | S f, x :: _ => let k := Nat.max 1 (nth (Z.to_nat x) utf8_skip_data 1%nat) in (k + software_len f (skipn k s))%nat
  end.
Definition software_cut (s : bytes) : bytes := firstn (software_len SOFTWARE_MAX_CHARS s) s.
Definition add_software (a : agent) (buf : bytes) : res bytes :=
  let c := a_cfg a in
  if is5389 c && (f_add_software c || match a_software a with Some _ => true | None => false end) then
    r <- append_bytes c buf A_SOFTWARE (software_cut (match a_software a with Some s => s | None => PACKAGE_STRING end)) ;;
    Ok (match r with FOk b => b | _ => buf end)
  else Ok buf.

Definition init_request (a : agent) (buf : bytes) (m : Z) (id : bytes) : res (option bytes) :=
  r <- init_msg buf 0 m id ;;
  match r with
  | None => Ok None
  | Some b => b <- (if is5389 (a_cfg a) then wr_chk b 4 COOKIE else Ok b) ;; b <- add_software a b ;; Ok (Some b)
  end.
Definition init_indication (a : agent) (buf : bytes) (m : Z) (id : bytes) : res (option bytes) :=
  r <- init_msg buf 1 m id ;;
  match r with
  | None => Ok None
  | Some b => b <- (if is5389 (a_cfg a) then wr_chk b 4 COOKIE else Ok b) ;; Ok (Some b)
  end.
(* response to the request held in [req] (a validated buffer) with message state [rms] *)
Definition init_response (a : agent) (buf : bytes) (req : bytes) : res (option bytes) :=
  cls <- msg_class req ;;
  if negb (cls =? 0) then Ok None else
  meth <- msg_method req ;;
  r <- init_msg buf 2 meth (msg_id req) ;;
  match r with None => Ok None | Some b => b <- add_software a b ;; Ok (Some b) end.
Definition init_error (a : agent) (buf : bytes) (req : bytes) (code : Z) (phrase : bytes) : res (option bytes) :=
  cls <- msg_class req ;;
  if negb (cls =? 0) then Ok None else
  meth <- msg_method req ;;
  r <- init_msg buf 3 meth (msg_id req) ;;
  match r with
  | None => Ok None
  | Some b => b <- add_software a b ;; e <- append_error (a_cfg a) b code phrase ;;
              Ok (match e with FOk b' => Some b' | _ => None end)
  end.

Definition forget_transaction (a : agent) (id : bytes) : agent * bool :=
  let fix go (l : list (option saved)) : list (option saved) * bool :=
    match l with
    | [] => ([], false)
    | Some s :: l' => if bytes_eqb (s_id s) id then (None :: l', true) else let '(r, b) := go l' in (Some s :: r, b)
    | None :: l' => let '(r, b) := go l' in (None :: r, b)
    end in
  let '(l, b) := go (a_sent a) in
  ({| a_cfg := a_cfg a; a_known := a_known a; a_sent := l; a_software := a_software a;
      a_legacy_connchecks := a_legacy_connchecks a |}, b).
