(** C03: what an accepted RESPONSE proves about its sender (short-term credentials). *)
From Coq Require Import ZArith List Bool Lia.
From Nice Require Import Base.Bytes Crypto.Sha1 Stun.StunModel Stun.StunAgentModel Stun.StunProofs4.
Import ListNotations.
Local Open Scope Z_scope.

Lemma integrity_pass c buf cls err k ltk ltv ms :
  f_long_term c = false -> 0 < len k ->
  integrity c buf cls err false (Some k) ltk ltv = Ok (inr ms) ->
  (exists ho ml, find c buf A_MI = Ok (Some (ho, 20)) /\ msg_length buf = Ok ml /\
                 rd_n buf ho 20 = Ok (hmac_sha1 k (rfc_mi_input (cf_compat c) buf ho ml))) \/
  (find c buf A_MI = Ok None /\ cls = 3 /\ is_err_in err [400; 401] = true).
Proof.
  intros Hlt Hk H. unfold integrity in H. rewrite Hlt in H. cbn [negb andb] in H. replace (0 <? len k) with true in H by lia.
  destruct (find c buf A_MI) as [[[ho hl]|]|] eqn:Ef; cbn [bind] in H; [| |discriminate H].
  - left. destruct (negb (hl =? 20)) eqn:Ehl; [discriminate H|]. cbn [bind] in H.
    destruct (msg_length buf) as [ml|] eqn:Eml; cbn [bind] in H; [|discriminate H].
    match type of H with bind ?e _ = _ => destruct e as [sha|] eqn:Esha; cbn [bind] in H; [|discriminate H] end.
    destruct (rd_n buf ho 20) as [got|] eqn:Egot; cbn [bind] in H; [|discriminate H].
    destruct (bytes_eqb sha got) eqn:Eeq; [|discriminate H].
    assert (hl = 20) by lia; subst hl. exists ho, ml. split; [reflexivity|]. split; [reflexivity|].
    apply bytes_eqb_eq in Eeq; subst got.
    destruct (cf_compat c) eqn:Ecp; apply stun_sha1_inv in Esha; subst sha;
      rewrite Egot, <- sha1_input_rfc; reflexivity.
  - right. destruct ((cls =? 3) && is_err_in err [400; 401]) eqn:E0; [|discriminate H]. apply andb_prop in E0. split; [reflexivity|]. split; [lia|tauto].
Qed.

Lemma err_in_sub (e : fret Z) : is_err_in e [400; 401] = true -> is_err_in e [400; 401; 438; 300] = true.
Proof.
  destruct e as [c| | | |]; cbn [is_err_in existsb]; try discriminate. intros H.
  destruct (c =? 400), (c =? 401); cbn in *; try reflexivity; discriminate.
Qed.

(** A response (success or error) that [validate] accepts under short-term credentials
    - answers a request that is still outstanding in this agent (same transaction id and method), and
    - if that request was sent with a non-empty key (the ICE password), either carries a 20-byte MESSAGE-INTEGRITY equal to
      HMAC-SHA1 under THAT key, or is an error response with one of the codes RFC 5389 lets go unauthenticated (400/401/438/300). *)
Theorem validate_success_response_integrity a buf vd a' ms cls meth :
  f_short_term (a_cfg a) = true -> f_long_term (a_cfg a) = false -> f_ignore_creds (a_cfg a) = false ->
  f_force_validater (a_cfg a) = false ->
  msg_class buf = Ok cls -> (cls = 2 \/ cls = 3) -> msg_method buf = Ok meth ->
  validate a buf vd = Ok (V_SUCCESS, a', ms) ->
  exists i s, find_sent (a_sent a) (msg_id buf) meth 0 = Some (i, s) /\
    forall k, s_key s = Some k -> 0 < len k ->
      (exists ho ml, find (a_cfg a) buf A_MI = Ok (Some (ho, 20)) /\ msg_length buf = Ok ml /\
                     rd_n buf ho 20 = Ok (hmac_sha1 k (rfc_mi_input (cf_compat (a_cfg a)) buf ho ml))) \/
      (cls = 3 /\ exists e, find_error (a_cfg a) buf = Ok e /\ is_err_in e [400; 401; 438; 300] = true).
Proof.
  intros Hst Hlt Hig Hfv Hc Hcls Hm H. unfold validate in H. rewrite Hc, Hm in H.
  assert (Hr : (cls =? 2) || (cls =? 3) = true) by lia.
  inv_step H. inv_step H; try discriminate. inv_step H; [discriminate|]. inv_step H; [discriminate|]. inv_step H. inv_step H; [discriminate|].
  cbn [bind] in H. rewrite Hr in H.
  destruct (find_sent (a_sent a) (msg_id buf) meth 0) as [[i s]|] eqn:Efs; [|discriminate H].
  cbn [andb] in H. exists i, s. split; [reflexivity|]. intros k Hkey Hk.
  unfold authenticate in H. rewrite Hig, Hlt, Hfv, Hkey in H. cbn [orb] in H.
  destruct (if cls =? 3 then find_error (a_cfg a) buf else Ok FNotFound) as [err|] eqn:Eerr; cbn [bind] in H; [|discriminate H].
  replace (cls =? 1) with false in H by lia. cbn [andb orb] in H. rewrite ?orb_false_r in H.
  destruct (has_attr (a_cfg a) buf A_USERNAME) as [hu|]; cbn [bind] in H; [|discriminate H].
  destruct (has_attr (a_cfg a) buf A_MI) as [hm|]; cbn [bind] in H; [|discriminate H].
  destruct (has_attr (a_cfg a) buf A_NONCE) as [hn|]; cbn [bind] in H; [|discriminate H].
  destruct (has_attr (a_cfg a) buf A_REALM) as [hr|]; cbn [bind] in H; [|discriminate H].
  unfold creds_missing in H. cbn [andb] in H.
  destruct (find (a_cfg a) buf A_USERNAME) as [uf|]; cbn [bind] in H; [|discriminate H].
  match type of H with bind ?e _ = _ => destruct e as [uname|]; cbn [bind] in H; [|discriminate H] end.
  rewrite andb_false_r in H. cbn [andb orb] in H.
  destruct ((cls =? 3) && is_err_in err [400; 401; 438; 300]) eqn:Eign.
  - right. apply andb_prop in Eign. split; [lia|]. exists err. split; [|tauto].
    replace (cls =? 3) with true in Eerr by lia. exact Eerr.
  - left. match type of H with bind ?e _ = _ => destruct e as [[st|ms']|] eqn:Eint; cbn [bind] in H; [| |discriminate H] end.
    + exfalso. assert (st = V_SUCCESS) by congruence. subst st. unfold integrity in Eint. rewrite Hlt in Eint. inv_all Eint.
    + destruct (integrity_pass _ _ _ _ _ _ _ _ Hlt Hk Eint) as [Hok|(_ & Hc3 & He)]; [exact Hok|].
      exfalso. subst cls. rewrite (err_in_sub _ He) in Eign. discriminate Eign.
Qed.

(** a message that is rejected leaves the STUN agent (its table of outstanding transactions in particular) untouched *)
Theorem validate_rejected_unchanged a buf vd a' ms st :
  validate a buf vd = Ok (st, a', ms) ->
  st = V_NOT_STUN \/ st = V_INCOMPLETE \/ st = V_BAD_REQUEST \/ st = V_UNAUTHORIZED \/
  st = V_UNAUTHORIZED_BAD_REQUEST \/ st = V_UNMATCHED_RESPONSE ->
  a' = a.
Proof.
  intros H Hst. unfold validate in H.
  inv_step H. inv_step H; try (injection H as _ <- _; reflexivity).
  inv_step H; [injection H as _ <- _; reflexivity|]. inv_step H; [injection H as _ <- _; reflexivity|].
  inv_step H. inv_step H; [injection H as _ <- _; reflexivity|]. inv_step H. inv_step H.
  inv_step H; [injection H as _ <- _; reflexivity|].
  unfold authenticate in H.
  inv_step H. inv_step H. inv_step H. inv_step H. inv_step H. inv_step H; [injection H as _ <- _; reflexivity|].
  inv_step H. inv_step H. inv_step H; [injection H as _ <- _; reflexivity|].
  inv_step H. inv_step H; [injection H as _ <- _; reflexivity|].
  (* post_auth: every result is SUCCESS, FORBIDDEN or UNKNOWN_*: none of the listed statuses *)
  exfalso. unfold post_auth in H. inv_all H.
  all: injection H as Hs _ _; subst st; try (destruct Hst as [Hx|[Hx|[Hx|[Hx|[Hx|Hx]]]]]; discriminate Hx).
  all: destruct (_ =? 0); destruct Hst as [Hx|[Hx|[Hx|[Hx|[Hx|Hx]]]]]; discriminate Hx.
Qed.
