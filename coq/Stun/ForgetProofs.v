(** stun_agent_forget_transaction: the first saved transaction with the given id is dropped, whatever lies in front of it (answered slots included), and
    nothing else changes; once no transaction with that id is left, every later response carrying it is unmatched. *)
From Coq Require Import ZArith List Bool Lia.
From Nice Require Import Base.Bytes Stun.StunModel Stun.StunAgentModel Stun.StunProofs4.
Import ListNotations.
Local Open Scope Z_scope.

Definition has_id (id : bytes) (o : option saved) : bool := match o with Some s => bytes_eqb (s_id s) id | None => false end.
Fixpoint count_id (l : list (option saved)) (id : bytes) : nat :=
  match l with [] => O | o :: l' => ((if has_id id o then 1 else 0) + count_id l' id)%nat end.

Fixpoint forget_go (id : bytes) (l : list (option saved)) : list (option saved) * bool :=
  match l with
  | [] => ([], false)
  | Some s :: l' => if bytes_eqb (s_id s) id then (None :: l', true) else let '(r, b) := forget_go id l' in (Some s :: r, b)
  | None :: l' => let '(r, b) := forget_go id l' in (None :: r, b)
  end.

Lemma forget_is_go a id : forget_transaction a id =
  ({| a_cfg := a_cfg a; a_known := a_known a; a_sent := fst (forget_go id (a_sent a)); a_software := a_software a;
      a_legacy_connchecks := a_legacy_connchecks a |}, snd (forget_go id (a_sent a))).
Proof.
  unfold forget_transaction.
  match goal with |- (let '(l, b) := ?g (a_sent a) in _) = _ => assert (E : forall l, g l = forget_go id l) end.
  { induction l as [|[s|] l IH]; cbn [forget_go]; [reflexivity| |]; rewrite IH; reflexivity. }
  rewrite E. destruct (forget_go id (a_sent a)); reflexivity.
Qed.

Lemma go_count id l :
  snd (forget_go id l) = negb (Nat.eqb (count_id l id) 0) /\
  count_id (fst (forget_go id l)) id = pred (count_id l id) /\
  length (fst (forget_go id l)) = length l.
Proof.
  induction l as [|[s|] l (IH1 & IH2 & IH3)]; cbn [forget_go count_id has_id]; [auto| |].
  - destruct (bytes_eqb (s_id s) id) eqn:E; cbn [fst snd count_id has_id length].
    + auto.
    + destruct (forget_go id l) as [r b]. cbn [fst snd count_id has_id length] in *. rewrite E. cbn. auto.
  - destruct (forget_go id l) as [r b]. cbn [fst snd count_id has_id length] in *. auto.
Qed.

Lemma matches_has_id id m o : matches id m o = true -> has_id id o = true.
Proof. destruct o as [s|]; cbn; [|discriminate]. intros H. apply andb_prop in H. tauto. Qed.

Lemma count_matching_le_id l id m : (count_matching l id m <= count_id l id)%nat.
Proof.
  induction l as [|o l IH]; cbn [count_matching count_id]; [lia|].
  destruct (matches id m o) eqn:E; [rewrite (matches_has_id _ _ _ E); lia | destruct (has_id id o); lia].
Qed.

(** other transactions are untouched *)
Lemma go_other id id' m l : bytes_eqb id' id = false -> (forall s, bytes_eqb (s_id s) id = true -> bytes_eqb (s_id s) id' = false) ->
  count_matching (fst (forget_go id l)) id' m = count_matching l id' m.
Proof.
  intros Hne Hx. induction l as [|[s|] l IH]; cbn [forget_go]; [reflexivity| |].
  - destruct (bytes_eqb (s_id s) id) eqn:E; cbn [fst count_matching matches].
    + rewrite (Hx s E), andb_false_r. reflexivity.
    + destruct (forget_go id l) as [r b]. cbn [fst count_matching matches] in *. rewrite IH. reflexivity.
  - destruct (forget_go id l) as [r b]. cbn [fst count_matching matches] in *. exact IH.
Qed.

Theorem forget_reports_and_removes_one a id :
  snd (forget_transaction a id) = negb (Nat.eqb (count_id (a_sent a) id) 0) /\
  count_id (a_sent (fst (forget_transaction a id))) id = pred (count_id (a_sent a) id) /\
  length (a_sent (fst (forget_transaction a id))) = length (a_sent a).
Proof. rewrite forget_is_go. cbn [fst snd a_sent]. apply go_count. Qed.

(** the only transaction with that id forgotten: whatever its method, a response carrying the id is from now on unmatched (or rejected earlier) *)
Theorem forgotten_transaction_is_unmatched a id buf vd a' ms st cls meth :
  count_id (a_sent a) id = 1%nat -> msg_id buf = id ->
  msg_class buf = Ok cls -> (cls = 2 \/ cls = 3) -> msg_method buf = Ok meth ->
  validate (fst (forget_transaction a id)) buf vd = Ok (st, a', ms) ->
  st = V_NOT_STUN \/ st = V_INCOMPLETE \/ st = V_BAD_REQUEST \/ st = V_UNMATCHED_RESPONSE.
Proof.
  intros H1 Hid Hc Hcls Hm Hv.
  eapply validate_response_unmatched; eauto.
  destruct (forget_reports_and_removes_one a id) as (_ & Hcnt & _).
  pose proof (count_matching_le_id (a_sent (fst (forget_transaction a id))) id meth) as Hle.
  rewrite Hid. rewrite Hcnt, H1 in Hle. cbn in Hle. lia.
Qed.

(** a transaction stored BEHIND an already answered (free) slot is found all the same *)
Example forget_behind_a_free_slot :
  let sv := fun k => Some {| s_id := [k; 2; 3; 4; 5; 6; 7; 8; 9; 10; 11; 12; 13; 14; 15; 16]; s_method := 1; s_key := None; s_ltk := []; s_ltvalid := false |} in
  forget_go [7; 2; 3; 4; 5; 6; 7; 8; 9; 10; 11; 12; 13; 14; 15; 16] [None; sv 7; sv 9] = ([None; None; sv 9], true).
Proof. vm_compute. reflexivity. Qed.
