(** Proofs about the STUN length checks: no Fault, equivalence with an inductive RFC grammar,
    independence of the vectored pre-check from how the bytes are split. *)
From Coq Require Import ZArith List Lia Bool ZifyBool.
From Nice Require Import Base.Bytes Stun.StunModel.
Import ListNotations.
Local Open Scope Z_scope.
Local Open Scope bool_scope.
Ltac Zify.zify_post_hook ::= Z.div_mod_to_equations.

(** ---- checked reads ---- *)
Lemma len_nonneg l : 0 <= len l.
Proof. unfold len; lia. Qed.

Lemma len_app (a b : bytes) : len (a ++ b) = len a + len b.
Proof. unfold len; rewrite app_length; lia. Qed.

Lemma rd_some l i : 0 <= i < len l -> exists v, rd l i = Some v.
Proof.
  unfold rd, len; intros H. destruct (i <? 0) eqn:E; [lia|].
  destruct (nth_error l (Z.to_nat i)) eqn:E2; [eauto|].
  apply nth_error_None in E2. lia.
Qed.

Lemma rd_none l i : ~ (0 <= i < len l) -> rd l i = None.
Proof.
  unfold rd, len; intros H. destruct (i <? 0) eqn:E; [reflexivity|].
  apply nth_error_None. lia.
Qed.

Lemma rd_app_l a b i : i < len a -> rd (a ++ b) i = rd a i.
Proof.
  unfold rd, len; intros H. destruct (i <? 0) eqn:E; [reflexivity|].
  apply nth_error_app1. lia.
Qed.

Lemma rd_app_r a b i : len a <= i -> rd (a ++ b) i = rd b (i - len a).
Proof.
  unfold rd, len; intros H. destruct (i <? 0) eqn:E; [lia|]. destruct (i - Z.of_nat (length a) <? 0) eqn:E2; [lia|].
  rewrite nth_error_app2 by lia. f_equal. lia.
Qed.

Lemma getw_some l off : 0 <= off -> off + 2 <= len l -> exists v, getw l off = Some v /\ 0 <= v < 65536.
Proof.
  intros H1 H2. unfold getw.
  destruct (rd_some l off ltac:(lia)) as [a Ha]. destruct (rd_some l (off + 1) ltac:(lia)) as [b Hb].
  rewrite Ha, Hb. eexists; split; [reflexivity|].
  (* bytes are not assumed < 256 here; bound only needed under wf_bytes *)
Abort.

Definition wfb (l : bytes) : Prop := forall i v, rd l i = Some v -> 0 <= v < 256.

Lemma wfb_app a b : wfb a -> wfb b -> wfb (a ++ b).
Proof.
  intros Ha Hb i v H. destruct (Z_lt_ge_dec i (len a)).
  - rewrite rd_app_l in H by lia. eapply Ha; eauto.
  - rewrite rd_app_r in H by lia. eapply Hb; eauto.
Qed.

Lemma getw_some l off : wfb l -> 0 <= off -> off + 2 <= len l -> exists v, getw l off = Some v /\ 0 <= v < 65536.
Proof.
  intros W H1 H2. unfold getw.
  destruct (rd_some l off ltac:(lia)) as [a Ha]. destruct (rd_some l (off + 1) ltac:(lia)) as [b Hb].
  rewrite Ha, Hb. eexists; split; [reflexivity|].
  pose proof (W _ _ Ha). pose proof (W _ _ Hb). unfold be16. lia.
Qed.

(** ---- peek over a vector = read of the concatenation ---- *)
Lemma peek_concat bufs : forall off, 0 <= off -> peek bufs off = rd (concat bufs) off.
Proof.
  induction bufs as [|b bs IH]; intros off H; cbn [peek concat].
  - symmetry. apply rd_none. unfold len; cbn; lia.
  - destruct (off <? len b) eqn:E.
    + rewrite rd_app_l by lia. reflexivity.
    + rewrite rd_app_r by lia. apply IH. lia.
Qed.

Lemma peek_single b off : 0 <= off -> peek [b] off = rd b off.
Proof. intros H. rewrite peek_concat by lia. cbn [concat]. rewrite app_nil_r. reflexivity. Qed.

(** the pre-check only depends on the concatenated bytes (and the claimed total) *)
Definition fast_spec (b : bytes) (total : Z) (padded : bool) : vlen :=
  if total <? 1 then Invalid else
  match rd b 0 with
  | None => Invalid
  | Some first =>
    if first / 64 >? 0 then Invalid else
    if total <? 4 then Incomplete else
    match rd b 2, rd b 3 with
    | Some hi, Some lo =>
      let mlen := be16 hi lo + 20 in
      if padded && (stun_padding mlen >? 0) then Invalid else
      if total <? mlen then Incomplete else Len mlen
    | _, _ => Invalid
    end
  end.

Lemma be16_nonneg_wf b hi lo : wfb b -> rd b 2 = Some hi -> rd b 3 = Some lo -> 0 <= be16 hi lo.
Proof. intros W H1 H2. pose proof (W _ _ H1). pose proof (W _ _ H2). unfold be16. lia. Qed.

Lemma validate_fast_spec bufs total padded :
  bufs <> [] -> wfb (concat bufs) ->
  validate_fast bufs total padded = Ok (fast_spec (concat bufs) total padded).
Proof.
  intros Hne W. destruct bufs as [|b0 bs]; [congruence|].
  unfold validate_fast, fast_spec.
  destruct (total <? 1) eqn:E1; [reflexivity|].
  rewrite (peek_concat (b0 :: bs) 0) by lia.
  destruct (rd (concat (b0 :: bs)) 0) as [first|] eqn:E0; [|reflexivity].
  destruct (first / 64 >? 0) eqn:E2; [reflexivity|].
  destruct (total <? 4) eqn:E3; [reflexivity|].
  destruct (len b0 >=? 4) eqn:E4.
  - (* fast path: both length bytes inside the first buffer *)
    cbn [concat]. unfold getw, lift.
    rewrite (rd_app_l b0 (concat bs) 2) by lia. rewrite (rd_app_l b0 (concat bs) 3) by lia.
    destruct (rd_some b0 2 ltac:(lia)) as [hi Hhi]. destruct (rd_some b0 (2 + 1) ltac:(lia)) as [lo Hlo].
    rewrite Hhi, Hlo. change (2 + 1) with 3 in Hlo. rewrite Hlo. cbn [bind].
    assert (0 <= be16 hi lo).
    { apply (be16_nonneg_wf (concat (b0 :: bs))); auto; cbn [concat].
      - rewrite rd_app_l by lia; exact Hhi.
      - rewrite rd_app_l by lia; exact Hlo. }
    destruct (be16 hi lo <? 0) eqn:E5; [lia|].
    destruct (padded && (stun_padding (be16 hi lo + 20) >? 0)); [reflexivity|].
    destruct (total <? be16 hi lo + 20); reflexivity.
  - rewrite (peek_concat (b0 :: bs) 2) by lia. rewrite (peek_concat (b0 :: bs) 3) by lia.
    destruct (rd (concat (b0 :: bs)) 2) as [hi|] eqn:Ehi; [|reflexivity].
    destruct (rd (concat (b0 :: bs)) 3) as [lo|] eqn:Elo; [|reflexivity].
    cbn [bind]. pose proof (be16_nonneg_wf _ _ _ W Ehi Elo).
    destruct (be16 hi lo <? 0) eqn:E5; [lia|].
    destruct (padded && (stun_padding (be16 hi lo + 20) >? 0)); [reflexivity|].
    destruct (total <? be16 hi lo + 20); reflexivity.
Qed.

Theorem validate_fast_split_independent bufs total padded :
  wfb (concat bufs) ->
  validate_fast bufs total padded = validate_fast [concat bufs] total padded.
Proof.
  intros W. destruct bufs as [|b0 bs].
  - cbn [concat validate_fast]. destruct (total <? 1); [reflexivity|]. cbn. reflexivity.
  - rewrite validate_fast_spec by (auto; congruence).
    rewrite validate_fast_spec; [|congruence|cbn [concat]; rewrite app_nil_r; exact W].
    cbn [concat]. rewrite app_nil_r. reflexivity.
Qed.

Theorem validate_fast_no_fault bufs total padded :
  wfb (concat bufs) -> exists r, validate_fast bufs total padded = Ok r.
Proof.
  intros W. destruct bufs as [|b0 bs]; [eexists; reflexivity|].
  rewrite validate_fast_spec by (auto; congruence). eauto.
Qed.

(** ---- the RFC grammar ---- *)
(* attributes tile exactly [rem] bytes of [m] starting at [off]: 4-byte header, then the value
   (padded to a multiple of four where padding applies), recursively *)
Inductive Tiles (padded : bool) (m : bytes) : Z -> Z -> Prop :=
| T_end : forall off, Tiles padded m off 0
| T_attr : forall off rem a,
    4 <= rem -> getw m (off + 2) = Some a ->
    (if padded then stun_align a else a) <= rem - 4 ->
    Tiles padded m (off + 4 + (if padded then stun_align a else a)) (rem - 4 - (if padded then stun_align a else a)) ->
    Tiles padded m off rem.

(* a well-formed STUN message: first two bits zero, length = 20 + header length field,
   a multiple of four where padding applies, attributes tiling the body exactly *)
Definition WfMsg (padded : bool) (m : bytes) : Prop :=
  exists first hi lo,
    rd m 0 = Some first /\ first / 64 = 0 /\
    rd m 2 = Some hi /\ rd m 3 = Some lo /\
    len m = 20 + be16 hi lo /\
    (padded = true -> stun_padding (len m) = 0) /\
    Tiles padded m 20 (len m - 20).

Lemma stun_padding_range l : 0 <= stun_padding l < 4.
Proof. unfold stun_padding. lia. Qed.
Lemma stun_align_ge l : l <= stun_align l.
Proof. unfold stun_align. pose proof (stun_padding_range l). lia. Qed.

Lemma getw_nonneg m off a : wfb m -> getw m off = Some a -> 0 <= a < 65536.
Proof.
  unfold getw; intros W H. destruct (rd m off) as [x|] eqn:E1; [|discriminate].
  destruct (rd m (off + 1)) as [y|] eqn:E2; [|discriminate]. inversion H; subst.
  pose proof (W _ _ E1). pose proof (W _ _ E2). unfold be16. lia.
Qed.

Lemma walk_spec padded m : wfb m -> forall fuel off rem,
  0 <= off -> 0 <= rem -> off + rem <= len m -> rem <= 4 * Z.of_nat fuel ->
  exists b, walk fuel m padded off rem = Ok b /\ (b = true <-> Tiles padded m off rem).
Proof.
  intros W. induction fuel as [|f IH]; intros off rem Ho Hr Hle Hf.
  - assert (rem = 0) by lia. subst. cbn [walk]. exists true. split; [reflexivity|]. split; [intros; constructor|reflexivity].
  - cbn [walk]. destruct (rem <=? 0) eqn:E0.
    { assert (rem = 0) by lia. subst. exists true. split; [reflexivity|]. split; [intros; constructor|reflexivity]. }
    destruct (rem <? 4) eqn:E1.
    { exists false. split; [reflexivity|]. split; [discriminate|]. intros T. inversion T; subst; lia. }
    destruct (getw_some m (off + 2) W ltac:(lia) ltac:(lia)) as (a & Ha & Hab).
    rewrite Ha. cbn [lift bind].
    remember (if padded then stun_align a else a) as alen eqn:Ealen.
    assert (Hal : 0 <= alen) by (subst alen; destruct padded; [pose proof (stun_align_ge a)|]; lia).
    destruct (rem - 4 <? alen) eqn:E2.
    { exists false. split; [reflexivity|]. split; [discriminate|]. intros T. inversion T; subst; [lia|].
      match goal with H : getw m (off + 2) = Some ?x |- _ => rewrite Ha in H; inversion H; subst x end. lia. }
    destruct (IH (off + 4 + alen) (rem - 4 - alen) ltac:(lia) ltac:(lia) ltac:(lia) ltac:(lia)) as (b & Hb & Hiff).
    exists b. split; [exact Hb|]. rewrite Hiff. split.
    + intros T. subst alen. eapply T_attr with (a := a); eauto; lia.
    + intros T. subst alen. inversion T; subst; [lia|].
      match goal with H : getw m (off + 2) = Some ?x |- _ => rewrite Ha in H; inversion H; subst x end. assumption.
Qed.

(* Tiles only looks at bytes below off + rem *)
Lemma Tiles_ext padded m m' : wfb m -> forall off rem,
  Tiles padded m off rem -> 0 <= off ->
  (forall i, off <= i < off + rem -> rd m' i = rd m i) -> Tiles padded m' off rem.
Proof.
  intros W off rem T. induction T as [off|off rem a H4 Hg Hle T IH]; intros Ho Hag; [constructor|].
  assert (Hg' : getw m' (off + 2) = Some a).
  { unfold getw in *. rewrite !Hag by lia. exact Hg. }
  pose proof (getw_nonneg m _ _ W Hg) as Ha.
  assert (Hal : 0 <= (if padded then stun_align a else a)).
  { destruct padded; [pose proof (stun_align_ge a)|]; lia. }
  eapply T_attr with (a := a); eauto. apply IH; [lia|]. intros i Hi. apply Hag. lia.
Qed.

Lemma rd_firstn m n i : 0 <= i < Z.of_nat n -> rd (firstn n m) i = rd m i.
Proof.
  unfold rd; intros H. destruct (i <? 0) eqn:E; [lia|].
  revert m i H E. induction n as [|n IH]; intros m i H E; [lia|].
  destruct m as [|x m]; [destruct (Z.to_nat i); reflexivity|].
  cbn [firstn]. destruct (Z.to_nat i) as [|k] eqn:Ek; [reflexivity|].
  cbn [nth_error]. specialize (IH m (i - 1) ltac:(lia) ltac:(lia)).
  replace (Z.to_nat (i - 1)) with k in IH by lia. exact IH.
Qed.

Lemma len_firstn m n : Z.of_nat n <= len m -> len (firstn n m) = Z.of_nat n.
Proof. unfold len; intros H. rewrite firstn_length. lia. Qed.

Lemma wfb_firstn m n : wfb m -> wfb (firstn n m).
Proof.
  intros W i v H. destruct (Z_lt_ge_dec i (Z.of_nat n)) as [Hlt|Hge].
  - destruct (Z_lt_ge_dec i 0); [unfold rd in H; destruct (i <? 0) eqn:E; [discriminate|lia]|].
    rewrite rd_firstn in H by lia. eapply W; eauto.
  - rewrite rd_none in H; [discriminate|]. unfold len. rewrite firstn_length. lia.
Qed.

(** the pre-check, case by case *)
Definition hdr (b : bytes) (first hi lo : Z) : Prop := rd b 0 = Some first /\ rd b 2 = Some hi /\ rd b 3 = Some lo.

Lemma fast_spec_cases b total padded : wfb b -> 0 <= total <= len b ->
  match fast_spec b total padded with
  | Len L => exists first hi lo, hdr b first hi lo /\ first / 64 = 0 /\ L = be16 hi lo + 20 /\
                (padded = true -> stun_padding L = 0) /\ L <= total /\ 4 <= total
  | Incomplete => exists first, rd b 0 = Some first /\ first / 64 = 0 /\ 1 <= total /\
                (total < 4 \/ exists hi lo, rd b 2 = Some hi /\ rd b 3 = Some lo /\
                   (padded = true -> stun_padding (be16 hi lo + 20) = 0) /\ total < be16 hi lo + 20)
  | Invalid => total < 1 \/ (exists first, rd b 0 = Some first /\ first / 64 > 0) \/
               (4 <= total /\ exists hi lo, rd b 2 = Some hi /\ rd b 3 = Some lo /\ padded = true /\ stun_padding (be16 hi lo + 20) > 0)
  end.
Proof.
  intros W Ht. remember (fast_spec b total padded) as r eqn:EF. symmetry in EF. unfold fast_spec in EF.
  destruct (total <? 1) eqn:E1; [subst r; left; lia|].
  destruct (rd_some b 0 ltac:(lia)) as [first Hfirst]. rewrite Hfirst in EF. pose proof (W _ _ Hfirst) as Bf.
  destruct (first / 64 >? 0) eqn:E2; [subst r; right; left; exists first; split; [assumption|lia]|].
  destruct (total <? 4) eqn:E3.
  { subst r. exists first. repeat split; try lia; auto. }
  destruct (rd_some b 2 ltac:(lia)) as [hi Hhi]. destruct (rd_some b 3 ltac:(lia)) as [lo Hlo].
  rewrite Hhi, Hlo in EF.
  destruct (padded && (stun_padding (be16 hi lo + 20) >? 0)) eqn:E4.
  { subst r. right; right. split; [lia|]. exists hi, lo. destruct padded; [|discriminate]. cbn [andb] in E4. repeat split; auto. lia. }
  assert (Hp : padded = true -> stun_padding (be16 hi lo + 20) = 0).
  { intros ->. cbn [andb] in E4. pose proof (stun_padding_range (be16 hi lo + 20)). lia. }
  destruct (total <? be16 hi lo + 20) eqn:E5; subst r.
  - exists first. repeat split; try lia; auto. right. exists hi, lo. repeat split; auto. lia.
  - exists first, hi, lo. unfold hdr. repeat split; auto; lia.
Qed.

(** Main characterisation of the slow length check. *)
Theorem validate_len_spec buf padded : wfb buf ->
  exists r, validate_len buf padded = Ok r /\
  (forall L, r = Len L <-> (0 <= L <= len buf /\ WfMsg padded (firstn (Z.to_nat L) buf))) /\
  (r = Incomplete <->
     exists first, rd buf 0 = Some first /\ first / 64 = 0 /\
       (len buf < 4 \/ exists hi lo, rd buf 2 = Some hi /\ rd buf 3 = Some lo /\
          (padded = true -> stun_padding (be16 hi lo + 20) = 0) /\ len buf < be16 hi lo + 20)).
Proof.
  intros W. unfold validate_len.
  rewrite validate_fast_spec; [|congruence|cbn [concat]; rewrite app_nil_r; exact W].
  cbn [concat bind]. rewrite app_nil_r.
  pose proof (len_nonneg buf) as Hl0.
  pose proof (fast_spec_cases buf (len buf) padded W ltac:(lia)) as HC.
  (* facts about any well-formed prefix *)
  assert (HL_is : forall L, 0 <= L <= len buf -> WfMsg padded (firstn (Z.to_nat L) buf) ->
            exists first hi lo, hdr buf first hi lo /\ first / 64 = 0 /\ L = be16 hi lo + 20 /\ 4 <= L /\
              (padded = true -> stun_padding L = 0) /\ Tiles padded buf 20 (L - 20)).
  { intros L HL (f' & hi' & lo' & H0 & Hz & H2 & H3 & Hlen & Hpad & HT).
    rewrite len_firstn in Hlen, Hpad, HT by lia. replace (Z.of_nat (Z.to_nat L)) with L in * by lia.
    assert (0 <= hi' < 256) by (apply (wfb_firstn buf (Z.to_nat L) W 2); exact H2).
    assert (0 <= lo' < 256) by (apply (wfb_firstn buf (Z.to_nat L) W 3); exact H3).
    assert (HL4 : 20 <= L) by (unfold be16 in Hlen; lia).
    rewrite rd_firstn in H0, H2, H3 by lia.
    exists f', hi', lo'. unfold hdr. repeat split; auto; try lia.
    apply (Tiles_ext padded (firstn (Z.to_nat L) buf) buf (wfb_firstn _ _ W)); [exact HT|lia|].
    intros i Hi. symmetry. apply rd_firstn. lia. }
  destruct (fast_spec buf (len buf) padded) as [mlen| |] eqn:EF.
  - destruct HC as (first & hi & lo & (Hf & Hhi & Hlo) & Hz & Hm & Hp & Hle & H4).
    pose proof (W _ _ Hhi) as Bhi. pose proof (W _ _ Hlo) as Blo.
    assert (Hm20 : 20 <= mlen) by (unfold be16 in Hm; lia).
    destruct (walk_spec padded buf W (length buf) 20 (mlen - 20) ltac:(lia) ltac:(lia) ltac:(lia) ltac:(unfold len in *; lia)) as (b & Hb & Hiff).
    rewrite Hb. cbn [bind].
    assert (Hfn : forall i, 0 <= i < mlen -> rd (firstn (Z.to_nat mlen) buf) i = rd buf i) by (intros; apply rd_firstn; lia).
    destruct b.
    + exists (Len mlen). split; [reflexivity|]. split.
      * intros L. split.
        -- intros H; inversion H; subst L. split; [lia|].
           exists first, hi, lo. rewrite !Hfn by lia. rewrite len_firstn by lia.
           replace (Z.of_nat (Z.to_nat mlen)) with mlen by lia.
           repeat split; auto; [lia|].
           apply (Tiles_ext padded buf _ W); [apply Hiff; reflexivity|lia|]. intros i Hi. apply Hfn. lia.
        -- intros (HL & HW). destruct (HL_is L HL HW) as (f' & hi' & lo' & (_ & H2 & H3) & _ & HLe & _).
           rewrite Hhi in H2. rewrite Hlo in H3. inversion H2; inversion H3; subst. reflexivity.
      * split; [discriminate|]. intros (f' & H0 & Hz' & [Hlt|(hi' & lo' & H2 & H3 & _ & Hlt)]); [lia|].
        rewrite Hhi in H2. rewrite Hlo in H3. inversion H2; inversion H3; subst. lia.
    + exists Invalid. split; [reflexivity|]. split.
      * intros L. split; [discriminate|]. intros (HL & HW).
        destruct (HL_is L HL HW) as (f' & hi' & lo' & (_ & H2 & H3) & _ & HLe & _ & _ & HT).
        rewrite Hhi in H2. rewrite Hlo in H3. inversion H2; inversion H3; subst hi' lo'.
        assert (false = true) by (apply Hiff; rewrite Hm; rewrite <- HLe; exact HT). discriminate.
      * split; [discriminate|]. intros (f' & H0 & Hz' & [Hlt|(hi' & lo' & H2 & H3 & _ & Hlt)]); [lia|].
        rewrite Hhi in H2. rewrite Hlo in H3. inversion H2; inversion H3; subst. lia.
  - exists Incomplete. split; [reflexivity|]. split.
    + intros L. split; [discriminate|]. intros (HL & HW).
      destruct (HL_is L HL HW) as (f' & hi' & lo' & (_ & H2 & H3) & _ & HLe & HL4 & _).
      destruct HC as (first & Hf & Hz & H1 & [Hlt|(hi & lo & Hhi & Hlo & _ & Hlt)]); [lia|].
      rewrite Hhi in H2. rewrite Hlo in H3. inversion H2; inversion H3; subst. lia.
    + split; [intros _|reflexivity].
      destruct HC as (first & Hf & Hz & H1 & Hor). exists first. repeat split; auto.
  - exists Invalid. split; [reflexivity|]. split.
    + intros L. split; [discriminate|]. intros (HL & HW).
      destruct (HL_is L HL HW) as (f' & hi' & lo' & (H0 & H2 & H3) & Hz' & HLe & HL4 & Hp' & _).
      destruct HC as [Hlt|[(first & Hf & Hz)|(H4 & hi & lo & Hhi & Hlo & Hp & Hpad)]]; [lia| |].
      * rewrite Hf in H0. inversion H0; subst. lia.
      * rewrite Hhi in H2. rewrite Hlo in H3. inversion H2; inversion H3; subst hi' lo'. specialize (Hp' Hp). rewrite HLe in Hp'. lia.
    + split; [discriminate|]. intros (f' & H0 & Hz' & Hor).
      destruct HC as [Hlt|[(first & Hf & Hz)|(H4 & hi & lo & Hhi & Hlo & Hp & Hpad)]].
      * rewrite rd_none in H0 by lia. discriminate.
      * rewrite Hf in H0. inversion H0; subst. lia.
      * destruct Hor as [Hlt|(hi' & lo' & H2 & H3 & Hp' & Hlt)]; [lia|].
        rewrite Hhi in H2. rewrite Hlo in H3. inversion H2; inversion H3; subst hi' lo'. specialize (Hp' Hp). lia.
Qed.

(** the slow check never faults and agrees with the pre-check (what agent.c relies on) *)
Corollary validate_len_no_fault buf padded : wfb buf -> exists r, validate_len buf padded = Ok r.
Proof. intros W. destruct (validate_len_spec buf padded W) as (r & H & _). eauto. Qed.

Lemma demux_agree buf padded n : wfb buf ->
  validate_fast [buf] (len buf) padded = Ok (Len n) ->
  validate_len buf padded = Ok (Len n) \/ validate_len buf padded = Ok Invalid.
Proof.
  intros W H. unfold validate_len. rewrite H. cbn [bind].
  assert (Hn : 20 <= n <= len buf).
  { rewrite validate_fast_spec in H; [|congruence|cbn [concat]; rewrite app_nil_r; exact W].
    cbn [concat] in H. rewrite app_nil_r in H. inversion H as [EF].
    pose proof (fast_spec_cases buf (len buf) padded W ltac:(pose proof (len_nonneg buf); lia)) as HC. rewrite EF in HC.
    destruct HC as (first & hi & lo & (Hf & Hhi & Hlo) & Hz & Hm & Hp & Hle & H4).
    pose proof (W _ _ Hhi). pose proof (W _ _ Hlo). unfold be16 in Hm. lia. }
  destruct (walk_spec padded buf W (length buf) 20 (n - 20) ltac:(lia) ltac:(lia) ltac:(lia) ltac:(unfold len in *; lia)) as (b & Hb & _).
  rewrite Hb. cbn [bind]. destruct b; auto.
Qed.
