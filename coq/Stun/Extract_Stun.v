From Coq Require Import ZArith List.
From Coq Require Extraction ExtrOcamlBasic.
From Nice Require Import Base.Bytes Stun.StunModel Stun.StunAgentModel Stun.StunRun.
Extraction Language OCaml.
Extraction "../ocaml/gen/stun_model.ml"
  validate_fast validate_len msg_length msg_class msg_method has_cookie find find_flag find32 find64 find_string
  find_addr find_xor_addr find_error append_bytes append_flag append32 append64 append_addr append_xor_addr append_error
  agent_init validate finish init_request init_indication init_response init_error forget_transaction strerror m0 len.
