(** stun_message_find_error decodes ERROR-CODE as RFC 5389 section 15.6 says: the class is the low three bits of the third octet (the five high bits are
    reserved and ignored), the number is the fourth octet; class 3..6 and number 0..99 are accepted, everything else is INVALID. *)
From Coq Require Import ZArith List Bool Lia.
From Nice Require Import Base.Bytes Stun.StunModel.
Import ListNotations.
Local Open Scope Z_scope.

Theorem find_error_decodes c buf code :
  find_error c buf = Ok (FOk code) ->
  exists o l b2 b3, find c buf A_ERROR_CODE = Ok (Some (o, l)) /\ 4 <= l /\ rd buf (o + 2) = Some b2 /\ rd buf (o + 3) = Some b3 /\
    3 <= Z.land b2 7 <= 6 /\ b3 <= 99 /\ code = Z.land b2 7 * 100 + b3.
Proof.
  unfold find_error. intros H.
  destruct (find c buf A_ERROR_CODE) as [[[o l]|]|] eqn:F; cbn [bind] in H; try discriminate.
  destruct (l <? 4) eqn:L; [discriminate|].
  destruct (rd buf (o + 2)) as [b2|] eqn:R2; cbn [lift bind] in H; [|discriminate].
  destruct (rd buf (o + 3)) as [b3|] eqn:R3; cbn [lift bind] in H; [|discriminate].
  destruct ((Z.land b2 7 <? 3) || (Z.land b2 7 >? 6) || (b3 >? 99)) eqn:E; [discriminate|].
  inversion H; subst code.
  apply orb_false_elim in E. destruct E as [E E3]. apply orb_false_elim in E. destruct E as [E1 E2].
  exists o, l, b2, b3. repeat split; auto; lia.
Qed.

(** the reserved bits do not matter: two third octets with the same low three bits decode alike *)
Theorem error_class_ignores_reserved_bits b2 r : 0 <= b2 < 8 -> 0 <= r < 32 -> Z.land (b2 + 8 * r) 7 = b2.
Proof.
  intros H1 H2.
  assert (forallb (fun b => forallb (fun r => Z.land (b + 8 * r) 7 =? b) (map Z.of_nat (seq 0 32))) (map Z.of_nat (seq 0 8)) = true) as A by (vm_compute; reflexivity).
  rewrite forallb_forall in A.
  assert (In b2 (map Z.of_nat (seq 0 8))) as I1 by (apply in_map_iff; exists (Z.to_nat b2); split; [lia | apply in_seq; lia]).
  specialize (A b2 I1). rewrite forallb_forall in A.
  assert (In r (map Z.of_nat (seq 0 32))) as I2 by (apply in_map_iff; exists (Z.to_nat r); split; [lia | apply in_seq; lia]).
  apply Z.eqb_eq, A, I2.
Qed.

(** completeness: every well-formed ERROR-CODE attribute is accepted with the RFC value, and the three outcomes are told apart exactly *)
Theorem find_error_accepts c buf o l b2 b3 :
  find c buf A_ERROR_CODE = Ok (Some (o, l)) -> 4 <= l -> rd buf (o + 2) = Some b2 -> rd buf (o + 3) = Some b3 ->
  3 <= Z.land b2 7 <= 6 -> b3 <= 99 ->
  find_error c buf = Ok (FOk (Z.land b2 7 * 100 + b3)).
Proof.
  intros F L R2 R3 C N. unfold find_error. rewrite F. cbn [bind].
  assert (E : (l <? 4) = false) by lia. rewrite E. rewrite R2, R3. cbn [lift bind].
  assert (E2 : (Z.land b2 7 <? 3) || (Z.land b2 7 >? 6) || (b3 >? 99) = false) by lia. rewrite E2. reflexivity.
Qed.

Theorem find_error_not_found_iff c buf :
  find_error c buf = Ok FNotFound <-> find c buf A_ERROR_CODE = Ok None.
Proof.
  unfold find_error. split.
  - intros H. destruct (find c buf A_ERROR_CODE) as [[[o l]|]|] eqn:F; cbn [bind] in H; try discriminate; [|reflexivity].
    destruct (l <? 4); [discriminate|].
    destruct (rd buf (o + 2)) as [b2|]; cbn [lift bind] in H; [|discriminate].
    destruct (rd buf (o + 3)) as [b3|]; cbn [lift bind] in H; [|discriminate].
    destruct ((Z.land b2 7 <? 3) || (Z.land b2 7 >? 6) || (b3 >? 99)); discriminate.
  - intros F. rewrite F. reflexivity.
Qed.

Theorem find_error_rejects c buf o l b2 b3 :
  find c buf A_ERROR_CODE = Ok (Some (o, l)) -> rd buf (o + 2) = Some b2 -> rd buf (o + 3) = Some b3 ->
  (l < 4 \/ Z.land b2 7 < 3 \/ 6 < Z.land b2 7 \/ 99 < b3) ->
  find_error c buf = Ok FInvalid.
Proof.
  intros F R2 R3 C. unfold find_error. rewrite F. cbn [bind].
  destruct (l <? 4) eqn:E; [reflexivity|]. rewrite R2, R3. cbn [lift bind].
  assert (E2 : (Z.land b2 7 <? 3) || (Z.land b2 7 >? 6) || (b3 >? 99) = true) by lia. rewrite E2. reflexivity.
Qed.
