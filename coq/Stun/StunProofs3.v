(** The builder: appends stay inside the caller's buffer, never fault on an initialised message,
    leave the message as it was when there is no space, and keep it well-formed. *)
From Coq Require Import ZArith List Lia Bool ZifyBool.
From Nice Require Import Base.Bytes Stun.StunModel Stun.StunProofs1 Stun.StunProofs2.
Import ListNotations.
Local Open Scope Z_scope.
Local Open Scope bool_scope.
Ltac Zify.zify_post_hook ::= Z.div_mod_to_equations.

(** ---- checked writes ---- *)
Lemma len_wr l off v : 0 <= off -> off + len v <= len l -> len (wr l off v) = len l.
Proof.
  unfold wr, len; intros H1 H2. rewrite !app_length, firstn_length, skipn_length. lia.
Qed.

Lemma wr_chk_ok l off v : 0 <= off -> off + len v <= len l -> wr_chk l off v = Ok (wr l off v).
Proof. unfold wr_chk; intros H1 H2. replace ((off <? 0) || (len l <? off + len v)) with false by lia. reflexivity. Qed.

Lemma wr_chk_inv l off v b : wr_chk l off v = Ok b -> 0 <= off /\ off + len v <= len l /\ b = wr l off v.
Proof. unfold wr_chk. destruct ((off <? 0) || (len l <? off + len v)) eqn:E; [discriminate|]. intros H; inversion H. split; [lia|split; [lia|reflexivity]]. Qed.

Lemma rd_wr_other l off v i : 0 <= off -> off + len v <= len l -> (i < off \/ off + len v <= i) -> rd (wr l off v) i = rd l i.
Proof.
  intros H1 H2 Hi. unfold wr. pose proof (len_nonneg v) as Hv0.
  destruct (Z_lt_ge_dec i 0) as [Hn|Hn]; [rewrite !rd_none by lia; reflexivity|].
  assert (Hlf : len (firstn (Z.to_nat off) l) = off) by (unfold len in *; rewrite firstn_length; lia).
  destruct Hi as [Hi|Hi].
  - rewrite rd_app_l by lia. rewrite <- (firstn_skipn (Z.to_nat off) l) at 2. rewrite rd_app_l by lia. reflexivity.
  - rewrite rd_app_r by lia. rewrite Hlf. rewrite rd_app_r by lia.
    rewrite <- (firstn_skipn (Z.to_nat off + length v) l) at 2.
    assert (Hl2 : len (firstn (Z.to_nat off + length v) l) = off + len v) by (unfold len in *; rewrite firstn_length; lia).
    rewrite rd_app_r by lia. rewrite Hl2. f_equal. lia.
Qed.

Lemma rd_wr_in l off v i : 0 <= off -> off + len v <= len l -> off <= i < off + len v -> rd (wr l off v) i = rd v (i - off).
Proof.
  intros H1 H2 Hi. unfold wr.
  assert (Hlf : len (firstn (Z.to_nat off) l) = off) by (unfold len in *; rewrite firstn_length; lia).
  rewrite rd_app_r by lia. rewrite Hlf. rewrite rd_app_l by lia. reflexivity.
Qed.

Lemma wfb_wr l off v : wfb l -> wfb v -> 0 <= off -> off + len v <= len l -> wfb (wr l off v).
Proof.
  intros Wl Wv H1 H2 i x Hx.
  destruct (Z_lt_ge_dec i off); [rewrite rd_wr_other in Hx by lia; eapply Wl; eauto|].
  destruct (Z_lt_ge_dec i (off + len v)); [rewrite rd_wr_in in Hx by lia; eapply Wv; eauto|].
  rewrite rd_wr_other in Hx by lia; eapply Wl; eauto.
Qed.

Lemma wfb_setw v : wfb (setw v).
Proof.
  intros i x H. unfold setw, rd in H. destruct (i <? 0); [discriminate|].
  destruct (Z.to_nat i) as [|[|k]]; cbn in H; try (inversion H; lia). destruct k; discriminate.
Qed.
Lemma len_setw v : len (setw v) = 2. Proof. reflexivity. Qed.
Lemma wfb_zeros n : wfb (zeros n).
Proof.
  induction n as [|n IH]; intros i x H; unfold rd in H; destruct (i <? 0) eqn:E; try discriminate.
  - destruct (Z.to_nat i); discriminate.
  - cbn [zeros] in H. destruct (Z.to_nat i) as [|k] eqn:Ek; cbn in H; [inversion H; lia|].
    apply (IH (Z.of_nat k) x). unfold rd. replace (Z.of_nat k <? 0) with false by lia. rewrite Nat2Z.id. exact H.
Qed.
Lemma len_zeros n : len (zeros n) = Z.of_nat n.
Proof. unfold len. induction n; cbn; lia. Qed.

Lemma getw_setw l off v : 0 <= off -> off + 2 <= len l -> 0 <= v < 65536 -> getw (wr l off (setw v)) off = Some v.
Proof.
  intros H1 H2 Hv. unfold getw. rewrite !rd_wr_in by (rewrite ?len_setw; lia).
  replace (off - off) with 0 by lia. replace (off + 1 - off) with 1 by lia.
  change (rd (setw v) 0) with (Some ((v / 256) mod 256)). change (rd (setw v) 1) with (Some (v mod 256)).
  unfold be16. f_equal. lia.
Qed.

(** ---- a message under construction ---- *)
(* [InProgress padded buf L]: the buffer holds a message of current length L (its length field says so)
   whose attributes tile the body; bytes beyond L are arbitrary *)
Definition InProgress (padded : bool) (buf : bytes) (L : Z) : Prop :=
  wfb buf /\ 20 <= L <= len buf /\ L < 65536 /\ getw buf 2 = Some (L - 20) /\ Tiles padded buf 20 (L - 20).

Lemma Tiles_snoc padded m m' : wfb m -> forall off rem, Tiles padded m off rem -> forall a,
  0 <= off -> (forall i, off <= i < off + rem -> rd m' i = rd m i) ->
  getw m' (off + rem + 2) = Some a -> 0 <= a ->
  Tiles padded m' off (rem + 4 + (if padded then stun_align a else a)).
Proof.
  intros W off rem T. induction T as [off|off rem a0 H4 Hg Hle T IH]; intros a Ho Hag Hga Ha.
  - assert (Hal : 0 <= (if padded then stun_align a else a)) by (destruct padded; [pose proof (stun_align_ge a)|]; lia).
    eapply T_attr with (a := a); [lia|replace (off + 2) with (off + 0 + 2) by lia; exact Hga|lia|].
    replace (0 + 4 + (if padded then stun_align a else a) - 4 - (if padded then stun_align a else a)) with 0 by lia. constructor.
  - pose proof (getw_nonneg m _ _ W Hg) as Ha0.
    assert (Hal0 : 0 <= (if padded then stun_align a0 else a0)) by (destruct padded; [pose proof (stun_align_ge a0)|]; lia).
    assert (Hal : 0 <= (if padded then stun_align a else a)) by (destruct padded; [pose proof (stun_align_ge a)|]; lia).
    assert (Hg' : getw m' (off + 2) = Some a0).
    { unfold getw in *. rewrite !Hag by lia. exact Hg. }
    eapply T_attr with (a := a0); [lia|exact Hg'|lia|].
    set (al0 := if padded then stun_align a0 else a0) in *. set (al := if padded then stun_align a else a) in *.
    replace (rem + 4 + al - 4 - al0) with ((rem - 4 - al0) + 4 + al) by lia.
    apply IH; try lia.
    + intros i Hi. apply Hag. lia.
    + replace (off + 4 + al0 + (rem - 4 - al0) + 2) with (off + rem + 2) by lia. exact Hga.
Qed.

Lemma stun_align_idem a : stun_align (stun_align a) = stun_align a.
Proof. unfold stun_align, stun_padding. lia. Qed.
Lemma stun_align_mult a : stun_padding (stun_align a) = 0.
Proof. unfold stun_align, stun_padding. lia. Qed.

(** The central lemma about stun_message_append. *)
Theorem append_spec c buf ty alen L :
  InProgress (negb (f_no_aligned c)) buf L -> 0 <= alen -> 0 <= ty < 65536 ->
  let padding := if f_no_aligned c then 0 else stun_padding alen in
  (len buf < L + 4 + alen + padding -> append c buf ty alen = Ok None) /\
  (L + 4 + alen + padding <= len buf -> L + 4 + alen + padding < 65536 ->
   exists b, append c buf ty alen = Ok (Some (b, L + 4)) /\
     len b = len buf /\
     (forall i, 0 <= i < L -> i <> 2 -> i <> 3 -> rd b i = rd buf i) /\
     (forall i, L + 4 + alen + padding <= i -> rd b i = rd buf i) /\
     (forall v, wfb v -> len v = alen ->
        InProgress (negb (f_no_aligned c)) (wr b (L + 4) v) (L + 4 + alen + padding))).
Proof.
  intros (W & HL & HL16 & Hlen & HT) Ha Hty padding.
  assert (Hpad : 0 <= padding < 4) by (unfold padding; destruct (f_no_aligned c); [lia|apply stun_padding_range]).
  assert (Hml : msg_length buf = Ok L).
  { unfold msg_length. rewrite Hlen. cbn [lift bind]. f_equal. lia. }
  unfold append. rewrite Hml. cbn [bind]. fold padding.
  split.
  - intros Hno. replace (len buf <? L + 4 + alen + padding) with true by lia. reflexivity.
  - intros Hfit H16. replace (len buf <? L + 4 + alen + padding) with false by lia.
    set (ty' := swap_oc2007 c ty).
    assert (Hty' : 0 <= ty' < 65536).
    { unfold ty', swap_oc2007, A_REALM, A_NONCE. destruct (is_oc2007 c); [|lia]. destruct (ty =? 20); [lia|]. destruct (ty =? 21); lia. }
    rewrite (wr_chk_ok buf L (setw ty')) by (rewrite ?len_setw; lia). cbn [bind].
    set (b1 := wr buf L (setw ty')).
    assert (L1 : len b1 = len buf) by (apply len_wr; rewrite ?len_setw; lia).
    assert (W1 : wfb b1) by (apply wfb_wr; auto using wfb_setw; rewrite ?len_setw; lia).
    set (fld := if f_no_aligned c then alen else if has_cookie buf then alen else stun_align alen).
    assert (Hfld : 0 <= fld < 65536 /\ (if negb (f_no_aligned c) then stun_align fld else fld) = alen + padding).
    { unfold fld, padding. destruct (f_no_aligned c); cbn [negb]; [lia|].
      destruct (has_cookie buf); [unfold stun_align; lia|]. rewrite stun_align_idem. unfold stun_align in *. lia. }
    destruct Hfld as [Hfld1 Hfld2].
    rewrite (wr_chk_ok b1 (L + 2) (setw fld)) by (rewrite ?len_setw; lia). cbn [bind].
    set (b2 := wr b1 (L + 2) (setw fld)).
    assert (L2 : len b2 = len buf) by (unfold b2; rewrite len_wr; rewrite ?len_setw; lia).
    assert (W2 : wfb b2) by (apply wfb_wr; auto using wfb_setw; rewrite ?len_setw; lia).
    (* padding bytes *)
    set (b3r := if f_no_aligned c then Ok b2 else if stun_padding alen >? 0 then wr_chk b2 (L + 4 + alen) (zeros (Z.to_nat (stun_padding alen))) else Ok b2).
    assert (H3 : exists b3, b3r = Ok b3 /\ len b3 = len buf /\ wfb b3 /\
                   (forall i, i < L + 4 + alen \/ L + 4 + alen + padding <= i -> rd b3 i = rd b2 i)).
    { unfold b3r, padding. destruct (f_no_aligned c); [exists b2; auto|].
      destruct (stun_padding alen >? 0) eqn:E; [|exists b2; auto].
      pose proof (stun_padding_range alen).
      rewrite wr_chk_ok by (rewrite ?len_zeros; lia).
      eexists; split; [reflexivity|]. split; [rewrite len_wr; rewrite ?len_zeros; lia|].
      split; [apply wfb_wr; auto using wfb_zeros; rewrite ?len_zeros; lia|].
      intros i Hi. apply rd_wr_other; rewrite ?len_zeros; lia. }
    destruct H3 as (b3 & Hb3 & L3 & W3 & R3). fold b3r. rewrite Hb3. cbn [bind].
    set (mlen' := (L + padding + 4 + alen) mod 65536).
    assert (Hm' : mlen' = L + 4 + alen + padding) by (unfold mlen'; lia).
    rewrite (wr_chk_ok b3 2 (setw ((mlen' - 20) mod 65536))) by (rewrite ?len_setw; lia). cbn [bind].
    set (b4 := wr b3 2 (setw ((mlen' - 20) mod 65536))).
    assert (L4 : len b4 = len buf) by (unfold b4; rewrite len_wr; rewrite ?len_setw; lia).
    exists b4. split; [reflexivity|]. split; [exact L4|].
    assert (Rlow : forall i, 0 <= i < L -> i <> 2 -> i <> 3 -> rd b4 i = rd buf i).
    { intros i Hi H2 H3'. unfold b4. rewrite rd_wr_other by (rewrite ?len_setw; lia).
      rewrite R3 by lia. unfold b2. rewrite rd_wr_other by (rewrite ?len_setw; lia).
      unfold b1. rewrite rd_wr_other by (rewrite ?len_setw; lia). reflexivity. }
    split; [exact Rlow|]. split.
    { intros i Hi. unfold b4. rewrite rd_wr_other by (rewrite ?len_setw; lia).
      rewrite R3 by lia. unfold b2. rewrite rd_wr_other by (rewrite ?len_setw; lia).
      unfold b1. rewrite rd_wr_other by (rewrite ?len_setw; lia). reflexivity. }
    intros v Wv Hv.
    set (b5 := wr b4 (L + 4) v).
    assert (W4 : wfb b4) by (apply wfb_wr; auto using wfb_setw; rewrite ?len_setw; lia).
    assert (L5 : len b5 = len buf) by (unfold b5; rewrite len_wr; lia).
    assert (R5 : forall i, i < L + 4 \/ L + 4 + alen <= i -> rd b5 i = rd b4 i) by (intros; apply rd_wr_other; lia).
    split; [apply wfb_wr; auto; lia|]. split; [lia|]. split; [lia|]. split.
    { unfold getw. rewrite !R5 by lia. unfold b4. rewrite !rd_wr_in by (rewrite ?len_setw; lia).
      replace (2 - 2) with 0 by lia. replace (2 + 1 - 2) with 1 by lia.
      match goal with |- context [setw ?x] => change (rd (setw x) 0) with (Some ((x / 256) mod 256)); change (rd (setw x) 1) with (Some (x mod 256)) end.
      unfold be16. f_equal. lia. }
    (* tiling: old attributes + the new one *)
    replace (L + 4 + alen + padding - 20) with ((L - 20) + 4 + (if negb (f_no_aligned c) then stun_align fld else fld)) by lia.
    apply (Tiles_snoc _ buf b5 W 20 (L - 20) HT fld); try lia.
    + intros i Hi. rewrite R5 by lia. apply Rlow; lia.
    + replace (20 + (L - 20) + 2) with (L + 2) by lia.
      unfold getw. rewrite !R5 by lia. unfold b4. rewrite !rd_wr_other by (rewrite ?len_setw; lia).
      rewrite !R3 by lia. change (getw b2 (L + 2) = Some fld). unfold b2. apply getw_setw; lia.
Qed.

(** ---- sequences of appends ---- *)
Lemma init_in_progress padded buf cls m id b :
  wfb buf -> wfb id -> len id = 16 -> 0 <= cls < 4 -> 0 <= m < 4096 ->
  init_msg buf cls m id = Ok (Some b) -> InProgress padded b 20 /\ len b = len buf.
Proof.
  intros W Wi Hi Hc Hm. unfold init_msg. destruct (len buf <? 20) eqn:E; [discriminate|].
  assert (Wt : wfb (set_type cls m ++ [0; 0])).
  { intros i x H. unfold set_type, rd in H. destruct (i <? 0); [discriminate|].
    destruct (Z.to_nat i) as [|[|[|[|k]]]]; cbn [app nth_error] in H; try (inversion H; subst; lia). destruct k; discriminate. }
  rewrite wr_chk_ok by (unfold len; cbn; unfold len in *; lia). cbn [bind].
  set (b1 := wr buf 0 (set_type cls m ++ [0; 0])).
  assert (L1 : len b1 = len buf) by (apply len_wr; unfold len; cbn; unfold len in *; lia).
  rewrite wr_chk_ok by lia. cbn [bind]. intros H; inversion H; subst b. clear H.
  assert (W1 : wfb b1) by (apply wfb_wr; auto; unfold len; cbn; unfold len in *; lia).
  split; [|rewrite len_wr; lia].
  split; [apply wfb_wr; auto; lia|]. split; [rewrite len_wr; lia|]. split; [lia|]. split.
  - unfold getw. rewrite !rd_wr_other by lia. unfold b1.
    rewrite !rd_wr_in by (unfold len; cbn; unfold len in *; lia).
    replace (2 - 0) with 2 by lia. replace (2 + 1 - 0) with 3 by lia. reflexivity.
  - replace (20 - 20) with 0 by lia. constructor.
Qed.

Definition app_op := (Z * bytes)%type.     (* (attribute type, value) *)
Definition do_append (c : cfg) (buf : bytes) (o : app_op) : res bytes :=
  r <- append_bytes c buf (fst o) (snd o) ;; Ok (match r with FOk b => b | _ => buf end).
Fixpoint do_appends (c : cfg) (buf : bytes) (ops : list app_op) : res bytes :=
  match ops with [] => Ok buf | o :: ops' => b <- do_append c buf o ;; do_appends c b ops' end.

Definition op_ok (o : app_op) : Prop := 0 <= fst o < 65536 /\ wfb (snd o).

Lemma do_append_spec c buf o L :
  len buf < 65536 -> InProgress (negb (f_no_aligned c)) buf L -> op_ok o ->
  exists b L', do_append c buf o = Ok b /\ len b = len buf /\ InProgress (negb (f_no_aligned c)) b L' /\
    (L' = L \/ L < L') /\ (L' = L -> b = buf).
Proof.
  intros Hcap HI [Hty Wv]. unfold do_append, append_bytes. pose proof HI as (_ & HLb & _).
  pose proof (len_nonneg (snd o)) as Hv0.
  destruct (append_spec c buf (fst o) (len (snd o)) L HI Hv0 Hty) as [Hno Hyes]. cbn zeta in *.
  set (padding := if f_no_aligned c then 0 else stun_padding (len (snd o))) in *.
  assert (Hpad : 0 <= padding < 4) by (unfold padding; destruct (f_no_aligned c); [lia|apply stun_padding_range]).
  destruct (Z_lt_ge_dec (len buf) (L + 4 + len (snd o) + padding)) as [Hlt|Hge].
  - rewrite (Hno Hlt). cbn [bind]. exists buf, L. split; [reflexivity|]. split; [reflexivity|]. split; [exact HI|]. split; [left; reflexivity|reflexivity].
  - assert (A1 : L + 4 + len (snd o) + padding <= len buf) by lia.
    assert (A2 : L + 4 + len (snd o) + padding < 65536) by lia.
    destruct (Hyes A1 A2) as (b & Hb & Lb & _ & _ & Hin). rewrite Hb. cbn [bind].
    rewrite wr_chk_ok by lia. cbn [bind].
    exists (wr b (L + 4) (snd o)), (L + 4 + len (snd o) + padding).
    split; [reflexivity|]. split; [rewrite len_wr; lia|]. split; [apply Hin; auto|]. split; [right; lia|lia].
Qed.

Theorem do_appends_spec c : forall ops buf L,
  len buf < 65536 -> InProgress (negb (f_no_aligned c)) buf L -> Forall op_ok ops ->
  exists b L', do_appends c buf ops = Ok b /\ len b = len buf /\ InProgress (negb (f_no_aligned c)) b L' /\ L <= L'.
Proof.
  induction ops as [|o ops IH]; intros buf L Hcap HI Hops; cbn [do_appends].
  - exists buf, L. split; [reflexivity|]. split; [reflexivity|]. split; [exact HI|lia].
  - inversion Hops as [|? ? Ho Hops']; subst.
    destruct (do_append_spec c buf o L Hcap HI Ho) as (b & L' & Hb & Lb & HI' & HL & _). rewrite Hb. cbn [bind].
    destruct (IH b L' ltac:(lia) HI' Hops') as (b2 & L2 & H2 & Lb2 & HI2 & HL2).
    exists b2, L2. split; [exact H2|]. split; [lia|]. split; [exact HI2|lia].
Qed.

(* a message in progress whose length is the whole buffer prefix is a well-formed message *)
Lemma in_progress_wf padded buf L : InProgress padded buf L -> (padded = true -> stun_padding L = 0) ->
  (exists first, rd buf 0 = Some first /\ first / 64 = 0) ->
  WfMsg padded (firstn (Z.to_nat L) buf).
Proof.
  intros (W & HL & HL16 & Hlen & HT) Hp (first & Hf & Hz).
  unfold getw in Hlen. destruct (rd buf 2) as [hi|] eqn:Hhi; [|discriminate]. destruct (rd buf (2 + 1)) as [lo|] eqn:Hlo; [|discriminate].
  change (2 + 1) with 3 in Hlo. inversion Hlen as [Hbe].
  exists first, hi, lo. rewrite !rd_firstn by lia. rewrite len_firstn by lia.
  replace (Z.of_nat (Z.to_nat L)) with L by lia.
  repeat split; auto; [lia|].
  apply (Tiles_ext padded buf _ W); [exact HT|lia|]. intros i Hi. apply rd_firstn. lia.
Qed.
