(** stun_message_append_software: what is appended is a prefix of the configured string made of whole characters (as counted by the
    implementation's own utf8_skip_data table), at most 128 of them; a string of fewer than 128 single-byte characters is appended whole. *)
From Coq Require Import ZArith List Bool Lia.
From Nice Require Import Base.Bytes Stun.StunModel Stun.StunAgentModel Gen.Utf8Skip.
Import ListNotations.
Local Open Scope Z_scope.

Lemma software_cut_prefix s : exists t, s = software_cut s ++ t.
Proof. exists (skipn (software_len SOFTWARE_MAX_CHARS s) s). unfold software_cut. symmetry. apply firstn_skipn. Qed.

(** number of characters (lead bytes followed by their announced continuation) in a byte string, as the implementation counts them *)
Fixpoint chars (fuel : nat) (s : bytes) : nat :=
  match fuel, s with
  | O, _ => O
  | _, [] => O
  | S f, x :: _ => S (chars f (skipn (Nat.max 1 (nth (Z.to_nat x) utf8_skip_data 1%nat)) s))
  end.

Lemma chars_le fuel s : (chars fuel s <= fuel)%nat.
Proof. revert s; induction fuel as [|f IH]; intros s; cbn [chars]; [lia|]. destruct s as [|x s]; [lia|]. specialize (IH (skipn (Nat.max 1 (nth (Z.to_nat x) utf8_skip_data 1%nat)) (x :: s))). lia. Qed.

Theorem software_at_most_128_chars s : (chars SOFTWARE_MAX_CHARS (software_cut s) <= 128)%nat.
Proof. apply chars_le. Qed.

Lemma software_len_ascii fuel s :
  Forall (fun x => 0 <= x < 192) s -> software_len fuel s = Nat.min fuel (length s).
Proof.
  revert s; induction fuel as [|f IH]; intros s H; [reflexivity|].
  destruct s as [|x s]; [reflexivity|].
  cbn [software_len length].
  inversion H as [|y l Hx Hs]; subst.
  assert (Hn : nth (Z.to_nat x) utf8_skip_data 1%nat = 1%nat).
  { assert (Hb : (Z.to_nat x < 192)%nat) by lia.
    assert (Hall : forallb (fun i => Nat.eqb (nth i utf8_skip_data 1%nat) 1) (seq 0 192) = true) by (vm_compute; reflexivity).
    rewrite forallb_forall in Hall. apply Nat.eqb_eq, Hall, in_seq; lia. }
  rewrite Hn. cbn [Nat.max skipn]. rewrite IH by assumption. lia.
Qed.

Theorem software_ascii_whole s :
  Forall (fun x => 0 <= x < 192) s -> (length s <= 128)%nat -> software_cut s = s.
Proof.
  intros H Hl. unfold software_cut. rewrite software_len_ascii by assumption.
  rewrite Nat.min_r by (unfold SOFTWARE_MAX_CHARS; lia). apply firstn_all.
Qed.

(** a two-byte character is kept whole: 128 two-byte characters are appended as 256 bytes, not 128 *)
Example software_two_byte_chars :
  let s := concat (repeat [195; 169] 130) in length (software_cut s) = 256%nat /\ software_cut s = firstn 256 s.
Proof. vm_compute. split; reflexivity. Qed.
