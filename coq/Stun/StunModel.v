(** Executable model of stun/stunmessage.c + stun/utils.c + stun/stun5389.c (message grammar, lookup,
    builder).  Buffers are exactly-sized byte lists; every read goes through a checked accessor and an
    out-of-range access, like a failed assert, is the explicit outcome [Fault].  No proofs in this file. *)
From Coq Require Import ZArith List Bool.
From Nice Require Import Base.Bytes.
Import ListNotations.
Local Open Scope Z_scope.
Local Open Scope bool_scope.

Inductive res (A : Type) : Type := Ok (a : A) | Fault.
Arguments Ok {A} a.
Arguments Fault {A}.
Definition bind {A B} (r : res A) (f : A -> res B) : res B := match r with Ok a => f a | Fault => Fault end.
Notation "x <- e ;; f" := (bind e (fun x => f)) (at level 61, e at next level, right associativity).
Definition lift {A} (o : option A) : res A := match o with Some a => Ok a | None => Fault end.

(** agent configuration *)
Inductive compat := RFC3489 | RFC5389 | MSICE2 | OC2007.
Record cfg := {
  cf_compat : compat;
  f_short_term : bool; f_long_term : bool; f_use_fpr : bool; f_add_software : bool;
  f_ignore_creds : bool; f_no_ind_auth : bool; f_force_validater : bool; f_no_aligned : bool;
  f_consent : bool }.

Definition is5389 (c : cfg) : bool := match cf_compat c with RFC5389 | MSICE2 => true | _ => false end.
Definition is_oc2007 (c : cfg) : bool := match cf_compat c with OC2007 => true | _ => false end.

(** constants *)
Definition A_USERNAME := 6. Definition A_MI := 8. Definition A_ERROR_CODE := 9. Definition A_UNKNOWN_ATTRIBUTES := 10.
Definition A_REALM := 20. Definition A_NONCE := 21. Definition A_SOFTWARE := 32802. Definition A_FPR := 32808.
Definition A_MS_IMPL_VERSION := 32880.
Definition COOKIE : bytes := [33; 18; 164; 66].

(** stun/utils.c *)
Definition stun_padding (l : Z) : Z := (4 - l mod 4) mod 4.
Definition stun_align (l : Z) : Z := l + stun_padding l.

(** length checks: result of stun_message_validate_buffer_length{,_fast} *)
Inductive vlen := Len (n : Z) | Incomplete | Invalid.

(* priv_input_vector_peek: byte at [off] of the data spread over the buffers (empty ones skipped) *)
Fixpoint peek (bufs : list bytes) (off : Z) : option Z :=
  match bufs with
  | [] => None
  | b :: bs => if off <? len b then rd b off else peek bs (off - len b)
  end.

(* [bufs] = the vector (n_buffers = length, or NULL-terminated: same list), [total] = total_length.
   A NULL buffers[0].buffer is the empty vector here. *)
Definition validate_fast (bufs : list bytes) (total : Z) (padded : bool) : res vlen :=
  match bufs with
  | [] => Ok Invalid
  | b0 :: _ =>
    if total <? 1 then Ok Invalid else
    match peek bufs 0 with
    | None => Ok Invalid
    | Some first =>
      if first / 64 >? 0 then Ok Invalid else
      if total <? 4 then Ok Incomplete else
      w <- (if len b0 >=? 4 then lift (getw b0 2)
            else match peek bufs 2, peek bufs 3 with
                 | Some hi, Some lo => Ok (be16 hi lo)
                 | _, _ => Ok (-1)
                 end) ;;
      if w <? 0 then Ok Invalid else
      let mlen := w + 20 in
      if padded && (stun_padding mlen >? 0) then Ok Invalid else
      if total <? mlen then Ok Incomplete else Ok (Len mlen)
    end
  end.

(* attribute walk of stun_message_validate_buffer_length: [remaining] bytes of body from [off] *)
Fixpoint walk (fuel : nat) (buf : bytes) (padded : bool) (off remaining : Z) : res bool :=
  match fuel with
  | O => Ok (remaining =? 0)        (* unreachable: each step consumes >= 4 bytes, fuel = length buf *)
  | S f =>
    if remaining <=? 0 then Ok true else
    if remaining <? 4 then Ok false else
    a <- lift (getw buf (off + 2)) ;;
    let alen := if padded then stun_align a else a in
    let remaining := remaining - 4 in
    if remaining <? alen then Ok false else walk f buf padded (off + 4 + alen) (remaining - alen)
  end.

Definition validate_len (buf : bytes) (padded : bool) : res vlen :=
  r <- validate_fast [buf] (len buf) padded ;;
  match r with
  | Len mlen => ok <- walk (length buf) buf padded 20 (mlen - 20) ;; Ok (if ok then Len mlen else Invalid)
  | other => Ok other
  end.

(** header accessors (on a buffer of at least 20 bytes; Fault otherwise) *)
Definition msg_length (buf : bytes) : res Z := w <- lift (getw buf 2) ;; Ok ((w + 20) mod 65536).
Definition msg_type (buf : bytes) : res Z := lift (getw buf 0).
Definition fix_type (t : Z) : Z := if t =? 277 (* 0x0115 *) then 23 (* 0x0017 *) else t.
Definition type_class (t : Z) : Z := let t := fix_type t in (Z.land t 256) / 128 + (Z.land t 16) / 16.
Definition type_method (t : Z) : Z :=
  let t := fix_type t in (Z.land t 15872) / 4 + (Z.land t 224) / 2 + Z.land t 15.
Definition msg_class (buf : bytes) : res Z := t <- msg_type buf ;; Ok (type_class t).
Definition msg_method (buf : bytes) : res Z := t <- msg_type buf ;; Ok (type_method t).
Definition msg_id (buf : bytes) : bytes := sub buf 4 16.
Definition has_cookie (buf : bytes) : bool := bytes_eqb (sub buf 4 4) COOKIE.
(* stun_set_type *)
Definition set_type (c m : Z) : bytes :=
  [ Z.lor (c / 2) (Z.land (m / 64) 62) mod 256;
    Z.lor (Z.lor (Z.land (c * 16) 16) (Z.land (m * 2) 224)) (Z.land m 15) mod 256 ].

(** stun_message_find: Some (offset of value, attribute length) *)
Definition swap_oc2007 (c : cfg) (ty : Z) : Z :=
  if is_oc2007 c then (if ty =? A_REALM then A_NONCE else if ty =? A_NONCE then A_REALM else ty) else ty.

Fixpoint find_loop (fuel : nat) (c : cfg) (buf : bytes) (ty ln off : Z) : res (option (Z * Z)) :=
  match fuel with
  | O => Ok None
  | S f =>
    if off <? ln then
      atype <- lift (getw buf off) ;;
      alen <- lift (getw buf (off + 2)) ;;
      let voff := off + 4 in
      if atype =? ty then Ok (Some (voff, alen)) else
      if (atype =? A_MI) && negb (ty =? A_FPR) then Ok None else
      if atype =? A_FPR then Ok None else
      let alen' := if f_no_aligned c then alen else stun_align alen in
      find_loop f c buf ty ln (voff + alen')
    else Ok None
  end.

Definition find (c : cfg) (buf : bytes) (ty : Z) : res (option (Z * Z)) :=
  ln <- msg_length buf ;;
  find_loop (S (length buf / 4)%nat) c buf (swap_oc2007 c ty) ln 20.

Definition has_attr (c : cfg) (buf : bytes) (ty : Z) : res bool :=
  r <- find c buf ty ;; Ok (match r with Some _ => true | None => false end).

(* value bytes of a found attribute; every byte read through the checked accessor *)
Fixpoint rd_n (buf : bytes) (off : Z) (n : nat) : res bytes :=
  match n with
  | O => Ok []
  | S k => b <- lift (rd buf off) ;; r <- rd_n buf (off + 1) k ;; Ok (b :: r)
  end.

(** typed finders; [fr] mirrors StunMessageReturn *)
Inductive fret (A : Type) := FOk (a : A) | FNotFound | FInvalid | FNoSpace | FUnsupported.
Arguments FOk {A} a. Arguments FNotFound {A}. Arguments FInvalid {A}. Arguments FNoSpace {A}. Arguments FUnsupported {A}.

Definition find_flag (c : cfg) (buf : bytes) (ty : Z) : res (fret unit) :=
  r <- find c buf ty ;;
  Ok (match r with None => FNotFound | Some (_, l) => if l =? 0 then FOk tt else FInvalid end).

Definition find32 (c : cfg) (buf : bytes) (ty : Z) : res (fret Z) :=
  r <- find c buf ty ;;
  match r with
  | None => Ok FNotFound
  | Some (o, l) => if l =? 4 then v <- rd_n buf o 4 ;;
                     Ok (match v with [a; b; c0; d] => FOk (be32_of a b c0 d) | _ => FInvalid end)
                   else Ok FInvalid
  end.

Definition find64 (c : cfg) (buf : bytes) (ty : Z) : res (fret Z) :=
  r <- find c buf ty ;;
  match r with
  | None => Ok FNotFound
  | Some (o, l) => if l =? 8 then v <- rd_n buf o 8 ;;
                     Ok (match v with [a; b; c0; d; e; f; g; h] => FOk (be32_of a b c0 d * 4294967296 + be32_of e f g h)
                                    | _ => FInvalid end)
                   else Ok FInvalid
  end.

(* stun_message_find_string into a caller buffer of [buflen] bytes *)
Definition find_string (c : cfg) (buf : bytes) (ty buflen : Z) : res (fret bytes) :=
  r <- find c buf ty ;;
  match r with
  | None => Ok FNotFound
  | Some (o, l) => if l >=? buflen then Ok FNoSpace else v <- rd_n buf o (Z.to_nat l) ;; Ok (FOk v)
  end.

(* address attribute: (family 1|2, port, address bytes); [addrlen] = caller's sockaddr size *)
Definition SZ_IN := 16. Definition SZ_IN6 := 28.
Definition find_addr (c : cfg) (buf : bytes) (ty addrlen : Z) : res (fret (Z * Z * bytes)) :=
  r <- find c buf ty ;;
  match r with
  | None => Ok FNotFound
  | Some (o, l) =>
    if l <? 4 then Ok FInvalid else
    fam <- lift (rd buf (o + 1)) ;;
    if fam =? 1 then
      if (addrlen <? SZ_IN) || negb (l =? 8) then Ok FInvalid else
      p <- lift (getw buf (o + 2)) ;; a <- rd_n buf (o + 4) 4 ;; Ok (FOk (1, p, a))
    else if fam =? 2 then
      if (addrlen <? SZ_IN6) || negb (l =? 20) then Ok FInvalid else
      p <- lift (getw buf (o + 2)) ;; a <- rd_n buf (o + 4) 16 ;; Ok (FOk (2, p, a))
    else Ok FUnsupported
  end.

Fixpoint xor_bytes (a b : bytes) : bytes :=
  match a, b with
  | x :: a', y :: b' => Z.lxor x y :: xor_bytes a' b'
  | _, _ => a
  end.

(* stun_xor_address: port ^= cookie>>16 ; v4 ^= cookie ; v6 ^= message bytes 4..19 *)
Definition xor_address (buf : bytes) (cookie : bytes) (fam port : Z) (a : bytes) : res (Z * bytes) :=
  let port' := Z.lxor port (be16 (nth 0 cookie 0) (nth 1 cookie 0)) in
  if fam =? 1 then Ok (port', xor_bytes a cookie)
  else k <- rd_n buf 4 16 ;; Ok (port', xor_bytes a k).

Definition find_xor_addr_full (c : cfg) (buf : bytes) (ty addrlen : Z) (cookie : bytes) : res (fret (Z * Z * bytes)) :=
  r <- find_addr c buf ty addrlen ;;
  match r with
  | FOk (fam, p, a) => x <- xor_address buf cookie fam p a ;; Ok (FOk (fam, fst x, snd x))
  | other => Ok other
  end.
Definition find_xor_addr c buf ty addrlen := find_xor_addr_full c buf ty addrlen COOKIE.

Definition find_error (c : cfg) (buf : bytes) : res (fret Z) :=
  r <- find c buf A_ERROR_CODE ;;
  match r with
  | None => Ok FNotFound
  | Some (o, l) =>
    if l <? 4 then Ok FInvalid else
    b2 <- lift (rd buf (o + 2)) ;; b3 <- lift (rd buf (o + 3)) ;;
    let cls := Z.land b2 7 in
    if (cls <? 3) || (cls >? 6) || (b3 >? 99) then Ok FInvalid else Ok (FOk (cls * 100 + b3))
  end.

(** builder.  A message under construction is the whole caller buffer [buf] (length = capacity). *)
(* checked write of [v] at [off]: Fault when it does not fit the buffer *)
Definition wr_chk (buf : bytes) (off : Z) (v : bytes) : res bytes :=
  if (off <? 0) || (len buf <? off + len v) then Fault else Ok (wr buf off v).

Definition init_msg (buf : bytes) (cls m : Z) (id : bytes) : res (option bytes) :=
  if len buf <? 20 then Ok None else
  b <- wr_chk buf 0 (set_type cls m ++ [0; 0]) ;; b <- wr_chk b 4 id ;; Ok (Some b).

(* stun_message_append: None = NULL (no space), Some (buf', value offset) *)
Definition append (c : cfg) (buf : bytes) (ty alen : Z) : res (option (bytes * Z)) :=
  mlen <- msg_length buf ;;
  let ty := swap_oc2007 c ty in
  let padding := if f_no_aligned c then 0 else stun_padding alen in
  if len buf <? mlen + 4 + alen + padding then Ok None else
  b <- wr_chk buf mlen (setw ty) ;;
  b <- wr_chk b (mlen + 2) (setw (if f_no_aligned c then alen else if has_cookie buf then alen else stun_align alen)) ;;
  b <- (if f_no_aligned c then Ok b else
        if stun_padding alen >? 0 then wr_chk b (mlen + 4 + alen) (zeros (Z.to_nat (stun_padding alen))) else Ok b) ;;
  let mlen' := (mlen + padding + 4 + alen) mod 65536 in
  b <- wr_chk b 2 (setw ((mlen' - 20) mod 65536)) ;;
  Ok (Some (b, mlen + 4)).

Definition append_bytes (c : cfg) (buf : bytes) (ty : Z) (data : bytes) : res (fret bytes) :=
  r <- append c buf ty (len data) ;;
  match r with
  | None => Ok FNoSpace
  | Some (b, o) => b <- wr_chk b o data ;; Ok (FOk b)
  end.
Definition append_flag c buf ty := append_bytes c buf ty [].
Definition append32 c buf ty (v : Z) := append_bytes c buf ty (be32_bytes (v mod 4294967296)).
Definition append64 c buf ty (v : Z) :=
  append_bytes c buf ty (be32_bytes ((v / 4294967296) mod 4294967296) ++ be32_bytes (v mod 4294967296)).

(* stun_message_append_addr for a well-formed sockaddr of family 1|2 (other families: unsupported) *)
Definition append_addr (c : cfg) (buf : bytes) (ty fam port : Z) (a : bytes) : res (fret bytes) :=
  if (fam =? 1) || (fam =? 2) then
    append_bytes c buf ty ([0; fam] ++ setw port ++ a)
  else Ok FUnsupported.
Definition append_xor_addr_full (c : cfg) (buf : bytes) (ty fam port : Z) (a : bytes) (cookie : bytes) : res (fret bytes) :=
  if (fam =? 1) || (fam =? 2) then
    x <- xor_address buf cookie fam port a ;; append_addr c buf ty fam (fst x) (snd x)
  else Ok FUnsupported.
Definition append_xor_addr c buf ty fam port a := append_xor_addr_full c buf ty fam port a COOKIE.

(* stun_message_append_error; [phrase] = stun_strerror (code) supplied by the caller of the model *)
Definition append_error (c : cfg) (buf : bytes) (code : Z) (phrase : bytes) : res (fret bytes) :=
  append_bytes c buf A_ERROR_CODE ([0; 0; (code / 100) mod 256; code mod 100] ++ phrase).
