(** Glue used only by the extracted driver: strerror lookup from the generated table. *)
From Coq Require Import ZArith List Bool.
From Nice Require Import Base.Bytes Gen.StunErrTab Stun.StunModel Stun.StunAgentModel.
Import ListNotations.
Local Open Scope Z_scope.

Fixpoint strerror_in (t : list (Z * list Z)) (code : Z) : bytes :=
  match t with [] => strerror_default | (c, p) :: t' => if c =? code then p else strerror_in t' code end.
Definition strerror (code : Z) : bytes := strerror_in strerror_tab code.
