(** stun_agent_validate: what SUCCESS implies (integrity, fingerprint, transaction matching),
    at-most-once acceptance of responses. *)
From Coq Require Import ZArith List Lia Bool ZifyBool.
From Nice Require Import Base.Bytes Crypto.Sha1 Crypto.Md5 Crypto.Crc32 Stun.StunModel Stun.StunAgentModel Stun.StunProofs1.
Import ListNotations.
Local Open Scope Z_scope.
Local Open Scope bool_scope.

(** RFC-defined input of MESSAGE-INTEGRITY for the attribute whose value starts at [ho] in a message whose
    header announces total length [ml]: the message up to the attribute header, with the header length
    field rewritten (RFC 5389 15.4: length up to and including MESSAGE-INTEGRITY; [MS-ICE2]: the length
    as sent), zero-padded to a multiple of 64 bytes for the RFC 3489 family. *)
Definition rfc_mi_input (cp : compat) (buf : bytes) (ho ml : Z) : bytes :=
  let fake := match cp with MSICE2 => ml - 20 | _ => ho + 20 - 20 end in
  let body := sub buf 0 2 ++ setw (fake mod 65536) ++ sub buf 4 (ho - 4 - 4) in
  match cp with
  | RFC5389 => body
  | _ => body ++ (if (ho + 20 - 24) mod 64 >? 0 then zeros (Z.to_nat (64 - (ho + 20 - 24) mod 64)) else [])
  end.

(** RFC-defined FINGERPRINT of a message of length [ln]: CRC-32 of the bytes before the attribute,
    with the length field covering the attribute, xor 0x5354554e *)
Definition rfc_fingerprint (buf : bytes) (ln : Z) : Z :=
  Z.lxor (crc32 false (sub buf 0 2 ++ setw ((ln - 20) mod 65536) ++ sub buf 4 (ln - 8 - 4))) 1398035790.

Lemma rfc_fingerprint_eq buf ln : fingerprint buf ln false = rfc_fingerprint buf ln.
Proof. unfold fingerprint, rfc_fingerprint. replace (ln - 8 - 4) with (ln - 12) by lia. reflexivity. Qed.

(* step-wise inversion of a monadic hypothesis  H : <expr> = Ok result *)
Ltac inv_step H :=
  match type of H with
  | bind ?e _ = Ok _ => let E := fresh "E" in destruct e eqn:E; cbn [bind] in H; [|discriminate H]
  | (if ?b then _ else _) = Ok _ => let E := fresh "E" in destruct b eqn:E
  | (match ?x with _ => _ end) = Ok _ => let E := fresh "E" in destruct x eqn:E
  | (let '(_, _) := ?x in _) = Ok _ => let E := fresh "E" in destruct x eqn:E
  end.
Ltac inv_all H := repeat (inv_step H; try discriminate H; try (exfalso; congruence)).

Lemma bytes_eqb_eq : forall a b, bytes_eqb a b = true -> a = b.
Proof.
  induction a as [|x a IH]; destruct b as [|y b]; cbn [bytes_eqb]; try discriminate; [reflexivity|].
  intros H. apply andb_prop in H. destruct H as [H1 H2]. f_equal; [lia|apply IH; exact H2].
Qed.

Lemma sha1_input_rfc cp buf ho ml :
  sha1_input buf (ho + 20) (match cp with MSICE2 => ml - 20 | _ => ho end)
             (match cp with RFC5389 => false | _ => true end) = rfc_mi_input cp buf ho ml.
Proof.
  unfold sha1_input, rfc_mi_input.
  replace (ho + 20 - 28) with (ho - 4 - 4) by lia. replace (ho + 20 - 20) with ho by lia.
  destruct cp; cbn [andb]; rewrite ?app_nil_r, <- ?app_assoc; reflexivity.
Qed.

Lemma stun_sha1_inv buf ln ml k p sha : stun_sha1 buf ln ml k p = Ok sha -> sha = hmac_sha1 k (sha1_input buf ln ml p).
Proof. unfold stun_sha1. destruct (ln <? 44); [discriminate|]. intros H; inversion H; reflexivity. Qed.

(** SUCCESS for a request under short-term credentials implies USERNAME + MESSAGE-INTEGRITY present,
    a key bound to that USERNAME by the validater, and (non-empty key) a 20-byte MESSAGE-INTEGRITY equal
    to HMAC-SHA1 (key, RFC input). *)
Theorem validate_success_request_integrity a buf vd a' ms :
  f_short_term (a_cfg a) = true -> f_long_term (a_cfg a) = false -> f_ignore_creds (a_cfg a) = false ->
  msg_class buf = Ok 0 ->
  validate a buf vd = Ok (V_SUCCESS, a', ms) ->
  exists uo ul uname t k,
    find (a_cfg a) buf A_USERNAME = Ok (Some (uo, ul)) /\ rd_n buf uo (Z.to_nat ul) = Ok uname /\
    has_attr (a_cfg a) buf A_MI = Ok true /\
    vd = Some t /\ lookup_user t uname = Some k /\
    (0 < len k -> exists ho ml,
        find (a_cfg a) buf A_MI = Ok (Some (ho, 20)) /\ msg_length buf = Ok ml /\
        rd_n buf ho 20 = Ok (hmac_sha1 k (rfc_mi_input (cf_compat (a_cfg a)) buf ho ml))).
Proof.
  intros Hst Hlt Hig Hcls H. unfold validate, authenticate, integrity, post_auth, creds_missing in H. rewrite Hst, Hlt, Hig, Hcls in H. cbn [bind orb andb negb] in H.
  change (0 =? 2) with false in H; change (0 =? 3) with false in H; change (0 =? 1) with false in H; change (0 =? 0) with true in H.
  cbn [orb andb negb] in H.
  inv_all H.
  - (* integrity step returned a status: never SUCCESS *)
    exfalso. inversion H; subst v. clear H.
    match goal with E : _ = Ok (inl V_SUCCESS) |- _ => inv_all E end.
  - match goal with E : has_attr _ _ A_USERNAME = Ok ?u, E' : has_attr _ _ A_MI = Ok ?m, E10 : _ || _ || false || _ = false |- _ =>
      assert (Hu : u = true) by (destruct u, m; cbn in E10; congruence);
      assert (Hm : m = true) by (destruct u, m; cbn in E10; congruence); subst u m end.
    cbn [andb] in *.
    match goal with E : find _ _ A_USERNAME = Ok ?f |- _ =>
      destruct f as [[uo ul]|];
      [|exfalso; match goal with E6 : has_attr _ _ A_USERNAME = Ok true |- _ => unfold has_attr in E6; rewrite E in E6; cbn in E6; discriminate end] end.
    match goal with E12 : rd_n buf uo (Z.to_nat ul) = Ok ?un |- _ =>
      remember (match vd with Some t => lookup_user t un | None => None end) as lk eqn:Hlk end.
    destruct lk as [k|]; [|exfalso; congruence].
    destruct vd as [t|]; [|discriminate Hlk]. symmetry in Hlk.
    exists uo, ul. eexists. exists t, k. split; [reflexivity|]. split; [eassumption|]. split; [reflexivity|]. split; [reflexivity|]. split; [exact Hlk|].
    intros Hk.
    match goal with E14 : _ = Ok (inr _) |- _ => replace (0 <? len k) with true in E14 by lia; inv_all E14 end.
    all: match goal with E : match cf_compat ?cc with _ => _ end = Ok _ |- _ => destruct (cf_compat cc) eqn:Ecp end.
    all: match goal with E : bytes_eqb ?sha ?got = true |- _ => apply bytes_eqb_eq in E; subst got end.
    all: match goal with E : stun_sha1 _ _ _ _ _ = Ok ?sha |- _ => apply stun_sha1_inv in E; subst sha end.
    all: match goal with E : negb (?hl =? 20) = false |- _ => assert (hl = 20) by lia; subst hl end.
    all: do 2 eexists; split; [reflexivity|]; split; [reflexivity|].
    all: match goal with |- rd_n _ _ _ = Ok (hmac_sha1 _ (rfc_mi_input ?cp _ ?ho ?ml)) =>
           rewrite <- (sha1_input_rfc cp); cbn beta iota; assumption end.
Qed.

(** ---- fingerprint ---- *)
Theorem validate_success_fingerprint a buf vd a' ms st :
  is5389 (a_cfg a) = true -> f_use_fpr (a_cfg a) = true ->
  validate a buf vd = Ok (st, a', ms) ->
  st <> V_NOT_STUN -> st <> V_INCOMPLETE -> st <> V_BAD_REQUEST ->
  exists fpr ml, find32 (a_cfg a) buf A_FPR = Ok (FOk fpr) /\ msg_length buf = Ok ml /\
    (fpr = rfc_fingerprint buf ml \/
     (cf_compat (a_cfg a) = MSICE2 /\ find (a_cfg a) buf A_MS_IMPL_VERSION = Ok None /\ fpr = fingerprint buf ml true)).
Proof.
  intros H5 Hf H N1 N2 N3. unfold validate, authenticate, integrity, post_auth, creds_missing in H. rewrite H5, Hf in H. cbn [andb] in H.
  inv_step H. inv_step H; try (inversion H; congruence).
  inv_step H; [inversion H; congruence|].
  inv_step H; [inversion H; congruence|].
  inv_step H. inv_step H; [inversion H; congruence|].
  clear H. destruct a1; [|discriminate].
  match goal with E : check_fingerprint _ _ = Ok true |- _ => unfold check_fingerprint in E; inv_all E end.
  - do 2 eexists; split; [reflexivity|]; split; [reflexivity|]. left. rewrite <- rfc_fingerprint_eq. lia.
  - match goal with E : Ok (match ?hv with Some _ => _ | None => _ end) = Ok true |- _ => injection E as E'; destruct hv; [discriminate|] end.
    do 2 eexists; split; [reflexivity|]; split; [reflexivity|]. right. split; [reflexivity|]. split; [reflexivity|]. lia.
Qed.

(** ---- responses: matched against an outstanding request, accepted at most once ---- *)
Definition matches (id : bytes) (m : Z) (o : option saved) : bool :=
  match o with Some s => (s_method s =? m) && bytes_eqb (s_id s) id | None => false end.
Fixpoint count_matching (l : list (option saved)) (id : bytes) (m : Z) : nat :=
  match l with [] => O | o :: l' => (if matches id m o then 1 else 0) + count_matching l' id m end.

Lemma find_sent_none l id m : forall i, find_sent l id m i = None <-> count_matching l id m = O.
Proof.
  induction l as [|[s|] l IH]; intros i; cbn [find_sent count_matching matches]; [tauto| |apply IH].
  destruct ((s_method s =? m) && bytes_eqb (s_id s) id); [split; [discriminate|lia]|apply IH].
Qed.

Lemma find_sent_some l id m : forall i j s, find_sent l id m i = Some (j, s) ->
  (i <= j)%nat /\ nth_error l (j - i) = Some (Some s) /\ matches id m (Some s) = true.
Proof.
  induction l as [|[s0|] l IH]; intros i j s; cbn [find_sent]; [discriminate| |].
  - destruct ((s_method s0 =? m) && bytes_eqb (s_id s0) id) eqn:E.
    + intros H; inversion H; subst. split; [lia|]. replace (j - j)%nat with O by lia. split; [reflexivity|exact E].
    + intros H. destruct (IH _ _ _ H) as (A & B & C). split; [lia|]. split; [|exact C].
      replace (j - i)%nat with (S (j - S i)) by lia. exact B.
  - intros H. destruct (IH _ _ _ H) as (A & B & C). split; [lia|]. split; [|exact C].
    replace (j - i)%nat with (S (j - S i)) by lia. exact B.
Qed.

Lemma count_invalidate l id m : forall k s, nth_error l k = Some (Some s) -> matches id m (Some s) = true ->
  S (count_matching (invalidate l k) id m) = count_matching l id m.
Proof.
  induction l as [|o l IH]; intros k s Hn Hm; [destruct k; discriminate|].
  destruct k as [|k]; cbn [nth_error] in Hn.
  - inversion Hn; subst o. cbn [invalidate count_matching]. rewrite Hm. cbn [matches]. lia.
  - cbn [invalidate count_matching]. rewrite <- (IH k s Hn Hm). lia.
Qed.

(* a response (class 2 or 3) that is not reported UNMATCHED / NOT_STUN / INCOMPLETE / BAD_REQUEST had an outstanding request *)
Theorem validate_response_needs_outstanding a buf vd a' ms st cls meth :
  msg_class buf = Ok cls -> (cls = 2 \/ cls = 3) -> msg_method buf = Ok meth ->
  validate a buf vd = Ok (st, a', ms) ->
  st = V_SUCCESS ->
  (count_matching (a_sent a) (msg_id buf) meth > 0)%nat /\
  S (count_matching (a_sent a') (msg_id buf) meth) = count_matching (a_sent a) (msg_id buf) meth.
Proof.
  intros Hc Hcls Hm H ->. unfold validate, authenticate, integrity, post_auth, creds_missing in H. rewrite Hc, Hm in H. cbn [bind] in H.
  assert (Hr : (cls =? 2) || (cls =? 3) = true) by lia. rewrite Hr in H.
  destruct (find_sent (a_sent a) (msg_id buf) meth 0) as [[i s]|] eqn:Efs.
  2: { exfalso. inv_all H. }
  destruct (find_sent_some _ _ _ _ _ _ Efs) as (_ & Hn & Hmt). replace (i - 0)%nat with i in Hn by lia.
  pose proof (count_invalidate _ _ _ _ _ Hn Hmt) as Hci.
  inv_all H.
  all: try (match goal with H : Ok (?v, _, m0) = Ok (V_SUCCESS, _, _), E : _ = Ok (inl ?v) |- _ =>
              exfalso; assert (v = V_SUCCESS) by congruence; subst v; inv_all E end; fail).
  all: try (match goal with H : Ok (if ?b then _ else _, _, _) = _ |- _ => destruct b; discriminate H end; fail).
  all: match goal with H : Ok (V_SUCCESS, _, _) = Ok (V_SUCCESS, _, _) |- _ => injection H as Ha' Hms; subst a' end.
  all: split; [lia|].
  all: match goal with |- context [match ?x with FOk _ => _ | _ => _ end] => destruct x; cbn [a_sent]; exact Hci end.
Qed.

(* with no outstanding request of that id and method, a response is UNMATCHED (or rejected earlier) *)
Theorem validate_response_unmatched a buf vd a' ms st cls meth :
  msg_class buf = Ok cls -> (cls = 2 \/ cls = 3) -> msg_method buf = Ok meth ->
  count_matching (a_sent a) (msg_id buf) meth = O ->
  validate a buf vd = Ok (st, a', ms) ->
  st = V_NOT_STUN \/ st = V_INCOMPLETE \/ st = V_BAD_REQUEST \/ st = V_UNMATCHED_RESPONSE.
Proof.
  intros Hc Hcls Hm Hcnt H. unfold validate, authenticate, integrity, post_auth, creds_missing in H. rewrite Hc, Hm in H. cbn [bind] in H.
  assert (Hr : (cls =? 2) || (cls =? 3) = true) by lia. rewrite Hr in H.
  rewrite (proj2 (find_sent_none _ _ _ 0%nat) Hcnt) in H. cbn [andb] in H.
  inv_all H; inversion H; subst; auto.
Qed.

(* validation never adds an outstanding transaction; only a SUCCESS-path response removes one *)
Theorem validate_count_le a buf vd a' ms st id m :
  validate a buf vd = Ok (st, a', ms) -> (count_matching (a_sent a') id m <= count_matching (a_sent a) id m)%nat.
Proof.
  intros H. unfold validate, authenticate, integrity, post_auth, creds_missing in H.
  assert (Hinv : forall l k, (count_matching (invalidate l k) id m <= count_matching l id m)%nat).
  { induction l as [|o l IH]; intros k; [destruct k; cbn; lia|]. destruct k; cbn [invalidate count_matching matches]; [lia|].
    specialize (IH k). lia. }
  inv_all H.
  all: match goal with H : Ok (_, ?x, _) = Ok (_, ?y, _) |- _ => injection H as _ Hy _; subst y end.
  all: try lia.
  all: repeat match goal with |- context [match ?x with FOk _ => _ | _ => _ end] => destruct x end; cbn [a_sent]; try lia; try apply Hinv.
  all: match goal with |- context [match ?x with Some _ => _ | None => _ end] => destruct x as [[? ?]|] end; cbn [a_sent]; try lia; apply Hinv.
Qed.
