(** Attribute lookup on a well-formed message: agrees with an independent parser (first match, nothing
    but FINGERPRINT after MESSAGE-INTEGRITY, nothing after FINGERPRINT), never faults, and every extent
    it returns lies inside the message. *)
From Coq Require Import ZArith List Lia Bool ZifyBool.
From Nice Require Import Base.Bytes Stun.StunModel Stun.StunProofs1.
Import ListNotations.
Local Open Scope Z_scope.
Local Open Scope bool_scope.
Ltac Zify.zify_post_hook ::= Z.div_mod_to_equations.

(** independent parser: the attributes (type, value offset, value length) tiling [rem] bytes from [off] *)
Fixpoint attrs_of (fuel : nat) (padded : bool) (m : bytes) (off rem : Z) : list (Z * Z * Z) :=
  match fuel with
  | O => []
  | S f =>
    if rem <? 4 then [] else
    match getw m off, getw m (off + 2) with
    | Some t, Some a =>
      let alen := if padded then stun_align a else a in
      (t, off + 4, a) :: attrs_of f padded m (off + 4 + alen) (rem - 4 - alen)
    | _, _ => []
    end
  end.

Fixpoint first_match (ty : Z) (l : list (Z * Z * Z)) : option (Z * Z) :=
  match l with
  | [] => None
  | (t, o, a) :: l' =>
    if t =? ty then Some (o, a)
    else if (t =? A_MI) && negb (ty =? A_FPR) then None
    else if t =? A_FPR then None
    else first_match ty l'
  end.

Definition msg_attrs (padded : bool) (m : bytes) : list (Z * Z * Z) :=
  attrs_of (length m) padded m 20 (len m - 20).

(** every attribute the parser returns lies inside the message *)
Lemma attrs_of_extent padded m : wfb m -> forall fuel off rem,
  Tiles padded m off rem -> 0 <= off -> off + rem <= len m ->
  forall t o a, In (t, o, a) (attrs_of fuel padded m off rem) -> off + 4 <= o /\ 0 <= a /\ o + a <= off + rem.
Proof.
  intros W fuel. induction fuel as [|f IH]; intros off rem T Ho Hle t o a Hin; [destruct Hin|].
  cbn [attrs_of] in Hin. destruct (rem <? 4) eqn:E; [destruct Hin|].
  inversion T as [|off' rem' a' H4 Hg Hal T']; subst; [lia|].
  destruct (getw m off) as [t0|]; [|destruct Hin]. rewrite Hg in Hin.
  pose proof (getw_nonneg m _ _ W Hg) as Ha.
  assert (Hge : a' <= (if padded then stun_align a' else a')) by (destruct padded; [apply stun_align_ge|lia]).
  destruct Hin as [Heq|Hin].
  - inversion Heq; subst. lia.
  - specialize (IH _ _ T' ltac:(lia) ltac:(lia) _ _ _ Hin). lia.
Qed.

(** the implementation's loop = first_match over the parsed attributes *)
Lemma find_loop_spec c m ty : wfb m -> forall fuel fuel2 off rem,
  Tiles (negb (f_no_aligned c)) m off rem -> 0 <= off -> off + rem <= len m ->
  rem <= 4 * Z.of_nat fuel -> rem <= 4 * Z.of_nat fuel2 -> (rem > 0 -> (0 < fuel)%nat) ->
  find_loop (S fuel) c m ty (off + rem) off =
  Ok (first_match ty (attrs_of fuel2 (negb (f_no_aligned c)) m off rem)).
Proof.
  intros W fuel. induction fuel as [|f IH]; intros fuel2 off rem T Ho Hle Hf Hf2 Hpos.
  - assert (rem = 0) by (inversion T; subst; lia). subst. cbn [find_loop].
    replace (off <? off + 0) with false by lia.
    destruct fuel2; cbn [attrs_of first_match]; reflexivity.
  - inversion T as [|off' rem' a H4 Hg Hal T']; subst.
    + cbn [find_loop]. replace (off <? off + 0) with false by lia.
      destruct fuel2; cbn [attrs_of first_match]; reflexivity.
    + destruct fuel2 as [|f2]; [lia|].
      remember (S f) as sf. cbn [find_loop]. subst sf.
      replace (off <? off + rem) with true by lia.
      destruct (getw_some m off W ltac:(lia) ltac:(lia)) as (t & Ht & _).
      rewrite Ht, Hg. cbn [lift bind].
      cbn [attrs_of]. replace (rem <? 4) with false by lia. rewrite Ht, Hg. cbn [first_match].
      destruct (t =? ty) eqn:E1; [reflexivity|].
      destruct ((t =? A_MI) && negb (ty =? A_FPR)) eqn:E2; [reflexivity|].
      destruct (t =? A_FPR) eqn:E3; [reflexivity|].
      pose proof (getw_nonneg m _ _ W Hg) as Ha.
      assert (Hge : a <= (if negb (f_no_aligned c) then stun_align a else a)) by (destruct (f_no_aligned c); cbn [negb]; [lia|apply stun_align_ge]).
      replace (if f_no_aligned c then a else stun_align a) with (if negb (f_no_aligned c) then stun_align a else a) by (destruct (f_no_aligned c); reflexivity).
      set (alen := if negb (f_no_aligned c) then stun_align a else a) in *.
      replace (off + rem) with ((off + 4 + alen) + (rem - 4 - alen)) by lia.
      apply IH; try lia; auto.
Qed.

Theorem find_spec c m ty : wfb m -> len m < 65536 ->
  WfMsg (negb (f_no_aligned c)) m ->
  find c m ty = Ok (first_match (swap_oc2007 c ty) (msg_attrs (negb (f_no_aligned c)) m)).
Proof.
  intros W Hlt (first & hi & lo & H0 & Hz & H2 & H3 & Hlen & Hpad & HT).
  unfold find, msg_length, getw. change (2 + 1) with 3. rewrite H2, H3. cbn [lift bind].
  pose proof (W _ _ H2). pose proof (W _ _ H3).
  assert (Hml : (be16 hi lo + 20) mod 65536 = len m) by (unfold be16 in *; lia).
  rewrite Hml. unfold msg_attrs.
  replace (len m) with (20 + (len m - 20)) at 1 by lia.
  assert (Hl20 : 20 <= len m) by (unfold be16 in Hlen; lia).
  pose proof (Nat.div_mod (length m) 4 ltac:(lia)) as Hd.
  pose proof (Nat.mod_upper_bound (length m) 4 ltac:(lia)) as Hu.
  apply find_loop_spec; auto; try lia; unfold len in *; lia.
Qed.

(** extents returned by find lie inside the message, after the header *)
Lemma first_match_in ty l o a : first_match ty l = Some (o, a) -> exists t, In (t, o, a) l.
Proof.
  induction l as [|[[t o'] a'] l IH]; cbn [first_match]; [discriminate|].
  destruct (t =? ty); [intros H; inversion H; subst; exists t; left; reflexivity|].
  destruct ((t =? A_MI) && negb (ty =? A_FPR)); [discriminate|].
  destruct (t =? A_FPR); [discriminate|]. intros H. destruct (IH H) as (t' & Hin). exists t'. right. exact Hin.
Qed.

Theorem find_extent c m ty o a : wfb m -> len m < 65536 ->
  WfMsg (negb (f_no_aligned c)) m ->
  find c m ty = Ok (Some (o, a)) -> 24 <= o /\ 0 <= a /\ o + a <= len m.
Proof.
  intros W Hlt HW Hf. rewrite (find_spec c m ty W Hlt HW) in Hf. inversion Hf as [Hfm].
  destruct (first_match_in _ _ _ _ Hfm) as (t & Hin).
  destruct HW as (first & hi & lo & H0 & Hz & H2 & H3 & Hlen & Hpad & HT).
  pose proof (W _ _ H2). pose proof (W _ _ H3).
  assert (Hl20 : 20 <= len m) by (unfold be16 in Hlen; lia).
  unfold msg_attrs in Hin.
  pose proof (attrs_of_extent _ m W _ _ _ HT ltac:(lia) ltac:(lia) _ _ _ Hin). lia.
Qed.

(** reading the bytes of an extent inside the buffer never faults *)
Lemma rd_n_ok m : forall n off, 0 <= off -> off + Z.of_nat n <= len m -> exists v, rd_n m off n = Ok v /\ length v = n.
Proof.
  induction n as [|n IH]; intros off Ho Hle; [exists []; split; reflexivity|].
  cbn [rd_n]. destruct (rd_some m off ltac:(lia)) as [b Hb]. rewrite Hb. cbn [lift bind].
  destruct (IH (off + 1) ltac:(lia) ltac:(lia)) as (v & Hv & Hl). rewrite Hv. cbn [bind].
  exists (b :: v). split; [reflexivity|cbn; lia].
Qed.

(** typed accessors never fault on a well-formed message *)
Section Accessors.
  Variables (c : cfg) (m : bytes).
  Hypothesis W : wfb m.
  Hypothesis Hlt : len m < 65536.
  Hypothesis HW : WfMsg (negb (f_no_aligned c)) m.

  Lemma find_ok ty : exists r, find c m ty = Ok r.
  Proof. rewrite (find_spec c m ty W Hlt HW). eauto. Qed.

  Lemma find_flag_ok ty : exists r, find_flag c m ty = Ok r.
  Proof. unfold find_flag. destruct (find_ok ty) as [r ->]. cbn [bind]. eauto. Qed.

  Lemma find32_ok ty : exists r, find32 c m ty = Ok r.
  Proof.
    unfold find32. destruct (find_ok ty) as [r Hr]. rewrite Hr. cbn [bind].
    destruct r as [[o l]|]; [|eauto]. destruct (l =? 4) eqn:E; [|eauto].
    destruct (find_extent c m ty o l W Hlt HW Hr) as (A & B & C).
    destruct (rd_n_ok m 4 o ltac:(lia) ltac:(lia)) as (v & Hv & _). rewrite Hv. cbn [bind]. eauto.
  Qed.

  Lemma find64_ok ty : exists r, find64 c m ty = Ok r.
  Proof.
    unfold find64. destruct (find_ok ty) as [r Hr]. rewrite Hr. cbn [bind].
    destruct r as [[o l]|]; [|eauto]. destruct (l =? 8) eqn:E; [|eauto].
    destruct (find_extent c m ty o l W Hlt HW Hr) as (A & B & C).
    destruct (rd_n_ok m 8 o ltac:(lia) ltac:(lia)) as (v & Hv & _). rewrite Hv. cbn [bind]. eauto.
  Qed.

  Lemma find_string_ok ty buflen : exists r, find_string c m ty buflen = Ok r.
  Proof.
    unfold find_string. destruct (find_ok ty) as [r Hr]. rewrite Hr. cbn [bind].
    destruct r as [[o l]|]; [|eauto]. destruct (l >=? buflen) eqn:E; [eauto|].
    destruct (find_extent c m ty o l W Hlt HW Hr) as (A & B & C).
    destruct (rd_n_ok m (Z.to_nat l) o ltac:(lia) ltac:(lia)) as (v & Hv & _). rewrite Hv. cbn [bind]. eauto.
  Qed.

  Lemma find_addr_ok ty addrlen : exists r, find_addr c m ty addrlen = Ok r.
  Proof.
    unfold find_addr. destruct (find_ok ty) as [r Hr]. rewrite Hr. cbn [bind].
    destruct r as [[o l]|]; [|eauto]. destruct (l <? 4) eqn:E; [eauto|].
    destruct (find_extent c m ty o l W Hlt HW Hr) as (A & B & C).
    destruct (rd_some m (o + 1) ltac:(lia)) as [fam Hfam]. rewrite Hfam. cbn [lift bind].
    destruct (fam =? 1) eqn:E1.
    - destruct ((addrlen <? SZ_IN) || negb (l =? 8)) eqn:E2; [eauto|].
      destruct (getw_some m (o + 2) W ltac:(lia) ltac:(lia)) as (p & Hp & _). rewrite Hp. cbn [lift bind].
      destruct (rd_n_ok m 4 (o + 4) ltac:(lia) ltac:(lia)) as (v & Hv & _). rewrite Hv. cbn [bind]. eauto.
    - destruct (fam =? 2) eqn:E3; [|eauto].
      destruct ((addrlen <? SZ_IN6) || negb (l =? 20)) eqn:E2; [eauto|].
      destruct (getw_some m (o + 2) W ltac:(lia) ltac:(lia)) as (p & Hp & _). rewrite Hp. cbn [lift bind].
      destruct (rd_n_ok m 16 (o + 4) ltac:(lia) ltac:(lia)) as (v & Hv & _). rewrite Hv. cbn [bind]. eauto.
  Qed.

  Lemma find_xor_addr_ok ty addrlen cookie : exists r, find_xor_addr_full c m ty addrlen cookie = Ok r.
  Proof.
    unfold find_xor_addr_full. destruct (find_addr_ok ty addrlen) as [r Hr]. rewrite Hr. cbn [bind].
    destruct r as [[[fam p] a]| | | |]; eauto.
    unfold xor_address. destruct (fam =? 1); cbn [bind]; [eauto|].
    destruct HW as (first & hi & lo & _ & _ & H2 & H3 & Hlen & _).
    pose proof (W _ _ H2). pose proof (W _ _ H3).
    destruct (rd_n_ok m 16 4 ltac:(lia) ltac:(unfold be16 in Hlen; lia)) as (v & Hv & _). rewrite Hv. cbn [bind]. eauto.
  Qed.

  Lemma find_error_ok : exists r, find_error c m = Ok r.
  Proof.
    unfold find_error. destruct (find_ok A_ERROR_CODE) as [r Hr]. rewrite Hr. cbn [bind].
    destruct r as [[o l]|]; [|eauto]. destruct (l <? 4) eqn:E; [eauto|].
    destruct (find_extent c m _ o l W Hlt HW Hr) as (A & B & C).
    destruct (rd_some m (o + 2) ltac:(lia)) as [b2 H2]. destruct (rd_some m (o + 3) ltac:(lia)) as [b3 H3].
    rewrite H2, H3. cbn [lift bind]. destruct ((Z.land b2 7 <? 3) || (Z.land b2 7 >? 6) || (b3 >? 99)); eauto.
  Qed.
End Accessors.
