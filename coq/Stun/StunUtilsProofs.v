(** The generated stun_padding / stun_align (regenerated from stun/utils.c) agree with the model's. *)
From Coq Require Import ZArith Lia Bool.
From Nice Require Import Base.CSem Gen.StunUtils Stun.StunModel.
Local Open Scope Z_scope.
Ltac Zify.zify_post_hook ::= Z.div_mod_to_equations.

Lemma land3 l : 0 <= l -> Z.land l 3 = l mod 4.
Proof. intros H. change 3 with (Z.ones 2). rewrite Z.land_ones by lia. reflexivity. Qed.

Lemma gen_padding l : 0 <= l < 2 ^ 62 ->
  Gen.StunUtils.stun_padding l = Some (Stun.StunModel.stun_padding l).
Proof.
  intros H. unfold Gen.StunUtils.stun_padding, Stun.StunModel.stun_padding.
  rewrite (land3 l) by lia. unfold uwrap. change (2 ^ 64) with 18446744073709551616.
  assert (E : (4 - l mod 4) mod 18446744073709551616 = 4 - l mod 4) by lia. rewrite E.
  rewrite (land3 (4 - l mod 4)) by lia. reflexivity.
Qed.
