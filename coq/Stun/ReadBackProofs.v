(** C07, read-back: what stun_message_append adds is exactly one attribute at the end of the attribute list the independent parser
    [attrs_of] sees — earlier attributes keep their type, offset and length —, its value bytes are the bytes written, and the
    implementation's own lookup [find_loop] returns it unless an earlier attribute of the same type (or a MESSAGE-INTEGRITY /
    FINGERPRINT terminator) shadows it. *)
From Coq Require Import ZArith List Lia Bool ZifyBool.
From Nice Require Import Base.Bytes Stun.StunModel Stun.StunProofs1 Stun.StunProofs2 Stun.StunProofs3.
Import ListNotations.
Local Open Scope Z_scope.
Local Open Scope bool_scope.
Ltac Zify.zify_post_hook ::= Z.div_mod_to_equations.

Lemma attrs_of_zero fuel padded m off : attrs_of fuel padded m off 0 = [].
Proof. destruct fuel; reflexivity. Qed.

Definition alen_of (padded : bool) (a : Z) : Z := if padded then stun_align a else a.
Lemma alen_of_ge padded a : 0 <= a -> a <= alen_of padded a.
Proof. unfold alen_of. destruct padded; [pose proof (stun_align_ge a)|]; lia. Qed.

(** the parser's view of an extended message: the old attributes, then the new one *)
Lemma attrs_of_snoc padded m m' : wfb m -> forall off rem, Tiles padded m off rem -> forall fuel t a,
  0 <= off -> off + rem <= len m -> (forall i, off <= i < off + rem -> rd m' i = rd m i) ->
  getw m' (off + rem) = Some t -> getw m' (off + rem + 2) = Some a -> 0 <= a ->
  rem + 4 + alen_of padded a <= 4 * Z.of_nat fuel ->
  attrs_of fuel padded m' off (rem + 4 + alen_of padded a) =
  attrs_of fuel padded m off rem ++ [(t, off + rem + 4, a)].
Proof.
  intros W off rem T. induction T as [off|off rem a0 H4 Hg Hle T IH]; intros fuel t a Ho Hlen Hag Ht Ha Ha0 Hf.
  - pose proof (alen_of_ge padded a Ha0) as Hal.
    destruct fuel as [|f]; [lia|]. cbn [attrs_of].
    replace (0 + 4 + alen_of padded a <? 4) with false by lia.
    replace (off + 0) with off in Ht by lia. replace (off + 0 + 2) with (off + 2) in Ha by lia.
    rewrite Ht, Ha. fold (alen_of padded a).
    replace (0 + 4 + alen_of padded a - 4 - alen_of padded a) with 0 by lia. rewrite attrs_of_zero.
    cbn [app]. replace (off + 0 + 4) with (off + 4) by lia. reflexivity.
  - pose proof (getw_nonneg m _ _ W Hg) as Ha00.
    fold (alen_of padded a0) in *.
    pose proof (alen_of_ge padded a0 ltac:(lia)) as Hal0. pose proof (alen_of_ge padded a Ha0) as Hal.
    destruct fuel as [|f]; [lia|]. cbn [attrs_of].
    replace (rem + 4 + alen_of padded a <? 4) with false by lia. replace (rem <? 4) with false by lia.
    destruct (getw_some m off W Ho ltac:(lia)) as (t0 & Ht0 & _).
    assert (Ht0' : getw m' off = Some t0) by (unfold getw in *; rewrite !Hag by lia; exact Ht0).
    assert (Hg' : getw m' (off + 2) = Some a0) by (unfold getw in *; rewrite !Hag by lia; exact Hg).
    rewrite Ht0, Ht0', Hg, Hg'. fold (alen_of padded a0).
    cbn [app]. f_equal.
    replace (rem + 4 + alen_of padded a - 4 - alen_of padded a0) with ((rem - 4 - alen_of padded a0) + 4 + alen_of padded a) by lia.
    rewrite (IH f t a); try lia.
    + replace (off + 4 + alen_of padded a0 + (rem - 4 - alen_of padded a0) + 4) with (off + rem + 4) by lia. reflexivity.
    + intros i Hi. apply Hag. lia.
    + replace (off + 4 + alen_of padded a0 + (rem - 4 - alen_of padded a0)) with (off + rem) by lia. exact Ht.
    + replace (off + 4 + alen_of padded a0 + (rem - 4 - alen_of padded a0) + 2) with (off + rem + 2) by lia. exact Ha.
Qed.

(** the length field stun_message_append writes for a value of [alen] bytes *)
Definition len_field (c : cfg) (buf : bytes) (alen : Z) : Z :=
  if f_no_aligned c then alen else if has_cookie buf then alen else stun_align alen.

(** the header stun_message_append writes: type (after the OC2007 swap) and length field, at the old end of the message *)
Lemma append_header c buf ty alen L :
  InProgress (negb (f_no_aligned c)) buf L -> 0 <= alen -> 0 <= ty < 65536 ->
  let padding := if f_no_aligned c then 0 else stun_padding alen in
  L + 4 + alen + padding <= len buf -> L + 4 + alen + padding < 65536 ->
  exists b, append c buf ty alen = Ok (Some (b, L + 4)) /\
    getw b L = Some (swap_oc2007 c ty) /\ getw b (L + 2) = Some (len_field c buf alen).
Proof.
  intros (W & HL & HL16 & Hlen & HT) Ha Hty padding Hfit H16.
  assert (Hpad : 0 <= padding < 4) by (unfold padding; destruct (f_no_aligned c); [lia|apply stun_padding_range]).
  assert (Hml : msg_length buf = Ok L).
  { unfold msg_length. rewrite Hlen. cbn [lift bind]. f_equal. lia. }
  unfold append. rewrite Hml. cbn [bind]. fold padding.
  replace (len buf <? L + 4 + alen + padding) with false by lia.
  set (ty' := swap_oc2007 c ty).
  assert (Hty' : 0 <= ty' < 65536).
  { unfold ty', swap_oc2007, A_REALM, A_NONCE. destruct (is_oc2007 c); [|lia]. destruct (ty =? 20); [lia|]. destruct (ty =? 21); lia. }
  rewrite (wr_chk_ok buf L (setw ty')) by (rewrite ?len_setw; lia). cbn [bind].
  set (b1 := wr buf L (setw ty')).
  assert (L1 : len b1 = len buf) by (apply len_wr; rewrite ?len_setw; lia).
  fold (len_field c buf alen). set (fld := len_field c buf alen).
  assert (Hfld1 : 0 <= fld < 65536).
  { unfold fld, len_field, padding in *. destruct (f_no_aligned c); [lia|].
    destruct (has_cookie buf); [lia|]. unfold stun_align, stun_padding in *. lia. }
  rewrite (wr_chk_ok b1 (L + 2) (setw fld)) by (rewrite ?len_setw; lia). cbn [bind].
  set (b2 := wr b1 (L + 2) (setw fld)).
  assert (L2 : len b2 = len buf) by (unfold b2; rewrite len_wr; rewrite ?len_setw; lia).
  set (b3r := if f_no_aligned c then Ok b2 else if stun_padding alen >? 0 then wr_chk b2 (L + 4 + alen) (zeros (Z.to_nat (stun_padding alen))) else Ok b2).
  assert (H3 : exists b3, b3r = Ok b3 /\ len b3 = len buf /\
                 (forall i, i < L + 4 + alen \/ L + 4 + alen + padding <= i -> rd b3 i = rd b2 i)).
  { unfold b3r, padding in *. destruct (f_no_aligned c); [exists b2; auto|].
    destruct (stun_padding alen >? 0) eqn:E; [|exists b2; auto].
    pose proof (stun_padding_range alen).
    rewrite wr_chk_ok by (rewrite ?len_zeros; lia).
    eexists; split; [reflexivity|]. split; [rewrite len_wr; rewrite ?len_zeros; lia|].
    intros i Hi. apply rd_wr_other; rewrite ?len_zeros; lia. }
  destruct H3 as (b3 & Hb3 & L3 & R3). fold b3r. rewrite Hb3. cbn [bind].
  set (mlen' := (L + padding + 4 + alen) mod 65536).
  rewrite (wr_chk_ok b3 2 (setw ((mlen' - 20) mod 65536))) by (rewrite ?len_setw; lia). cbn [bind].
  set (b4 := wr b3 2 (setw ((mlen' - 20) mod 65536))).
  exists b4. split; [reflexivity|]. split.
  - unfold getw, b4. rewrite !rd_wr_other by (rewrite ?len_setw; lia). rewrite !R3 by lia.
    unfold b2. rewrite !rd_wr_other by (rewrite ?len_setw; lia).
    change (getw b1 L = Some ty'). unfold b1. apply getw_setw; lia.
  - unfold getw, b4. rewrite !rd_wr_other by (rewrite ?len_setw; lia). rewrite !R3 by lia.
    change (getw b2 (L + 2) = Some fld). unfold b2. apply getw_setw; lia.
Qed.

Lemma sub_wr_same l off v : 0 <= off -> off + len v <= len l -> sub (wr l off v) off (len v) = v.
Proof.
  unfold sub, wr, len. intros H1 H2.
  assert (E : length (firstn (Z.to_nat off) l) = Z.to_nat off) by (rewrite firstn_length; lia).
  rewrite skipn_app, E, Nat.sub_diag. rewrite (skipn_all2 (firstn (Z.to_nat off) l)) by lia.
  cbn [app skipn]. rewrite Nat2Z.id. rewrite firstn_app, Nat.sub_diag, firstn_all. cbn [firstn]. apply app_nil_r.
Qed.

(** Read-back of one append (stun_message_append_bytes and every typed appender built on it): the result is a message under
    construction of the new length whose parsed attribute list is the old one followed by exactly the new attribute (type after the
    OC2007 swap, value offset, length field), and whose value bytes are the bytes given. *)
Theorem append_bytes_readback c buf ty v L :
  InProgress (negb (f_no_aligned c)) buf L -> wfb v -> 0 <= ty < 65536 ->
  let padding := if f_no_aligned c then 0 else stun_padding (len v) in
  let L' := L + 4 + len v + padding in
  L' <= len buf -> L' < 65536 ->
  exists b, append_bytes c buf ty v = Ok (FOk b) /\ len b = len buf /\
    InProgress (negb (f_no_aligned c)) b L' /\
    sub b (L + 4) (len v) = v /\
    (forall i, 0 <= i < L -> i <> 2 -> i <> 3 -> rd b i = rd buf i) /\
    (forall fuel, L' - 20 <= 4 * Z.of_nat fuel ->
       attrs_of fuel (negb (f_no_aligned c)) b 20 (L' - 20) =
       attrs_of fuel (negb (f_no_aligned c)) buf 20 (L - 20) ++ [(swap_oc2007 c ty, L + 4, len_field c buf (len v))]).
Proof.
  intros HI Wv Hty padding L' Hfit H16.
  pose proof (len_nonneg v) as Hv0.
  destruct (append_spec c buf ty (len v) L HI Hv0 Hty) as [_ Hyes]. cbn zeta in Hyes. fold padding in Hyes.
  destruct (Hyes Hfit H16) as (b4 & Hb4 & L4 & Rlow & _ & Hin). clear Hyes.
  destruct (append_header c buf ty (len v) L HI Hv0 Hty Hfit H16) as (b4' & Hb4' & Gt & Gl).
  rewrite Hb4 in Hb4'. inversion Hb4'; subst b4'. clear Hb4'.
  pose proof HI as (W & HL & HL16 & Hlen & HT).
  assert (Hpad : 0 <= padding < 4) by (unfold padding; destruct (f_no_aligned c); [lia|apply stun_padding_range]).
  unfold append_bytes. rewrite Hb4. cbn [bind]. rewrite wr_chk_ok by lia. cbn [bind].
  set (b5 := wr b4 (L + 4) v).
  assert (R5 : forall i, i < L + 4 \/ L + 4 + len v <= i -> rd b5 i = rd b4 i) by (intros; apply rd_wr_other; lia).
  exists b5. split; [reflexivity|]. split; [unfold b5; rewrite len_wr; lia|].
  split; [apply Hin; auto|]. split; [apply sub_wr_same; lia|].
  split; [intros i Hi H2 H3; rewrite R5 by lia; apply Rlow; auto|].
  intros fuel Hf.
  set (fld := len_field c buf (len v)) in *.
  assert (Hfld : 0 <= fld /\ alen_of (negb (f_no_aligned c)) fld = len v + padding).
  { unfold fld, len_field, alen_of, padding. destruct (f_no_aligned c); cbn [negb]; [lia|].
    destruct (has_cookie buf); [unfold stun_align; lia|]. rewrite stun_align_idem. unfold stun_align in *. lia. }
  destruct Hfld as [Hfld0 Hfld2].
  replace (L' - 20) with ((L - 20) + 4 + alen_of (negb (f_no_aligned c)) fld) by (unfold L'; lia).
  replace (swap_oc2007 c ty, L + 4, fld) with (swap_oc2007 c ty, 20 + (L - 20) + 4, fld) by (f_equal; f_equal; lia).
  apply (attrs_of_snoc _ buf b5 W 20 (L - 20) HT); try (unfold L' in Hf; lia).
  - intros i Hi. rewrite R5 by lia. apply Rlow; lia.
  - replace (20 + (L - 20)) with L by lia. unfold getw. rewrite !R5 by lia. exact Gt.
  - replace (20 + (L - 20) + 2) with (L + 2) by lia. unfold getw. rewrite !R5 by lia. exact Gl.
Qed.

(** stun_message_find on a message under construction = first_match over the parsed attributes *)
Lemma find_in_progress c b L ty :
  InProgress (negb (f_no_aligned c)) b L ->
  find c b ty = Ok (first_match (swap_oc2007 c ty) (attrs_of (length b) (negb (f_no_aligned c)) b 20 (L - 20))).
Proof.
  intros (W & HL & HL16 & Hlen & HT).
  unfold find, msg_length. rewrite Hlen. cbn [lift bind].
  replace ((L - 20 + 20) mod 65536) with (20 + (L - 20)) by lia.
  pose proof (Nat.div_mod (length b) 4 ltac:(lia)) as Hd.
  pose proof (Nat.mod_upper_bound (length b) 4 ltac:(lia)) as Hu.
  apply find_loop_spec; auto; try lia; unfold len in *; lia.
Qed.

(** lookup over an extended list: what was found before is still found, and the new attribute is found when nothing before it has
    its type or terminates the search *)
Lemma first_match_app_found ty l l2 x : first_match ty l = Some x -> first_match ty (l ++ l2) = Some x.
Proof.
  induction l as [|[[t o] a] l IH]; cbn [first_match app]; [discriminate|].
  destruct (t =? ty); [auto|]. destruct ((t =? A_MI) && negb (ty =? A_FPR)); [discriminate|].
  destruct (t =? A_FPR); [discriminate|]. exact IH.
Qed.

Definition passes (ty : Z) (e : Z * Z * Z) : bool :=
  let t := fst (fst e) in negb (t =? ty) && negb ((t =? A_MI) && negb (ty =? A_FPR)) && negb (t =? A_FPR).

Lemma first_match_app_new ty l o a : forallb (passes ty) l = true -> first_match ty (l ++ [(ty, o, a)]) = Some (o, a).
Proof.
  induction l as [|[[t o'] a'] l IH]; cbn [first_match app forallb]; intros H.
  - rewrite Z.eqb_refl. reflexivity.
  - apply andb_prop in H. destruct H as [H1 H2]. unfold passes in H1. cbn [fst] in H1.
    destruct (t =? ty); [discriminate|]. destruct ((t =? A_MI) && negb (ty =? A_FPR)); [discriminate|].
    destruct (t =? A_FPR); [discriminate|]. exact (IH H2).
Qed.

Lemma first_match_app_shadowed ty l l2 : forallb (passes ty) l = false -> first_match ty (l ++ l2) = first_match ty l.
Proof.
  induction l as [|[[t o] a] l IH]; cbn [first_match app forallb]; intros H; [discriminate|].
  unfold passes in H. cbn [fst] in H.
  destruct (t =? ty); [reflexivity|]. destruct ((t =? A_MI) && negb (ty =? A_FPR)); [reflexivity|].
  destruct (t =? A_FPR); [reflexivity|]. cbn [negb andb] in H. exact (IH H).
Qed.

(** Read-back through the implementation's own lookup: after [append_bytes c buf ty v] succeeded,
    - looking [ty] up returns the new attribute (value offset, length field) when no earlier attribute has its type or ends the search
      (MESSAGE-INTEGRITY for anything but FINGERPRINT, FINGERPRINT for everything), and otherwise exactly what it returned before;
    - every other lookup that found something before finds the same thing. *)
Theorem append_then_find c buf ty v L :
  InProgress (negb (f_no_aligned c)) buf L -> wfb v -> 0 <= ty < 65536 ->
  let padding := if f_no_aligned c then 0 else stun_padding (len v) in
  L + 4 + len v + padding <= len buf -> L + 4 + len v + padding < 65536 ->
  exists b, append_bytes c buf ty v = Ok (FOk b) /\ sub b (L + 4) (len v) = v /\
    let old := attrs_of (length buf) (negb (f_no_aligned c)) buf 20 (L - 20) in
    find c buf ty = Ok (first_match (swap_oc2007 c ty) old) /\
    (forallb (passes (swap_oc2007 c ty)) old = true -> find c b ty = Ok (Some (L + 4, len_field c buf (len v)))) /\
    (forallb (passes (swap_oc2007 c ty)) old = false -> find c b ty = find c buf ty) /\
    (forall ty0 x, find c buf ty0 = Ok (Some x) -> find c b ty0 = Ok (Some x)).
Proof.
  intros HI Wv Hty padding Hfit H16.
  destruct (append_bytes_readback c buf ty v L HI Wv Hty Hfit H16) as (b & Hb & Lb & HI' & Hsub & _ & Hattrs).
  fold padding in HI', Hattrs.
  exists b. split; [exact Hb|]. split; [exact Hsub|]. cbn zeta.
  assert (Hlen : length b = length buf) by (unfold len in Lb; lia).
  pose proof HI as (_ & HL & _).
  assert (Hfuel : L + 4 + len v + padding - 20 <= 4 * Z.of_nat (length buf)) by (unfold len in *; lia).
  pose proof (Hattrs (length buf) Hfuel) as HA.
  assert (Fb : forall ty0, find c b ty0 = Ok (first_match (swap_oc2007 c ty0)
             (attrs_of (length buf) (negb (f_no_aligned c)) buf 20 (L - 20) ++ [(swap_oc2007 c ty, L + 4, len_field c buf (len v))]))).
  { intros ty0. rewrite (find_in_progress c b _ ty0 HI'). rewrite Hlen, HA. reflexivity. }
  split; [apply find_in_progress; exact HI|]. split; [|split].
  - intros Hp. rewrite Fb. rewrite first_match_app_new by exact Hp. reflexivity.
  - intros Hp. rewrite Fb, (find_in_progress c buf L ty HI). rewrite first_match_app_shadowed by exact Hp. reflexivity.
  - intros ty0 x Hx. rewrite Fb. rewrite (find_in_progress c buf L ty0 HI) in Hx. inversion Hx as [Hx'].
    rewrite Hx'. rewrite (first_match_app_found _ _ _ x Hx'). reflexivity.
Qed.
