(** stun_agent_validate never faults: for every byte string (shorter than 2^16) every read it performs
    is inside the packet and the assertion of stun_sha1 holds. *)
From Coq Require Import ZArith List Lia Bool ZifyBool.
From Nice Require Import Base.Bytes Crypto.Sha1 Crypto.Md5 Crypto.Crc32 Stun.StunModel Stun.StunAgentModel
  Stun.StunProofs1 Stun.StunProofs2.
Import ListNotations.
Local Open Scope Z_scope.
Local Open Scope bool_scope.

Lemma firstn_len_all (buf : bytes) : firstn (Z.to_nat (len buf)) buf = buf.
Proof. unfold len. rewrite Nat2Z.id. apply firstn_all. Qed.

Section NoFault.
  Variables (a : agent) (buf : bytes).
  Let c := a_cfg a.
  Hypothesis W : wfb buf.
  Hypothesis Hlt : len buf < 65536.
  Hypothesis HW : WfMsg (negb (f_no_aligned c)) buf.

  Lemma hdr_len : 20 <= len buf.
  Proof.
    destruct HW as (first & hi & lo & _ & _ & H2 & H3 & Hlen & _).
    pose proof (W _ _ H2). pose proof (W _ _ H3). unfold be16 in Hlen. lia.
  Qed.

  Lemma msg_type_ok : exists t, msg_type buf = Ok t.
  Proof. pose proof hdr_len. unfold msg_type. destruct (getw_some buf 0 W ltac:(lia) ltac:(lia)) as (v & Hv & _). rewrite Hv. cbn. eauto. Qed.
  Lemma msg_class_ok : exists t, msg_class buf = Ok t.
  Proof. unfold msg_class. destruct msg_type_ok as [t ->]. cbn. eauto. Qed.
  Lemma msg_method_ok : exists t, msg_method buf = Ok t.
  Proof. unfold msg_method. destruct msg_type_ok as [t ->]. cbn. eauto. Qed.
  Lemma msg_length_ok : exists t, msg_length buf = Ok t.
  Proof. pose proof hdr_len. unfold msg_length. destruct (getw_some buf 2 W ltac:(lia) ltac:(lia)) as (v & Hv & _). rewrite Hv. cbn. eauto. Qed.

  Lemma has_attr_ok ty : exists r, has_attr c buf ty = Ok r.
  Proof. unfold has_attr. destruct (find_ok c buf W Hlt HW ty) as [r ->]. cbn. eauto. Qed.

  Lemma rd_n_found ty o l : find c buf ty = Ok (Some (o, l)) -> exists v, rd_n buf o (Z.to_nat l) = Ok v.
  Proof.
    intros H. destruct (find_extent c buf ty o l W Hlt HW H) as (A & B & C).
    destruct (rd_n_ok buf (Z.to_nat l) o ltac:(lia) ltac:(lia)) as (v & Hv & _). eauto.
  Qed.
  Lemma rd_n_found20 ty o : find c buf ty = Ok (Some (o, 20)) -> exists v, rd_n buf o 20 = Ok v.
  Proof. intros H. apply (rd_n_found ty o 20 H). Qed.

  Lemma check_fingerprint_ok : exists r, check_fingerprint a buf = Ok r.
  Proof.
    unfold check_fingerprint. fold c. destruct (find32_ok c buf W Hlt HW A_FPR) as [r ->]. cbn [bind].
    destruct r; eauto. destruct msg_length_ok as [ml ->]. cbn [bind].
    destruct (a0 =? fingerprint buf ml false); eauto.
    destruct (cf_compat c); eauto. destruct (find_ok c buf W Hlt HW A_MS_IMPL_VERSION) as [hv ->]. cbn [bind]. eauto.
  Qed.

  (* the unknown-attribute walk reads only attribute headers of the tiling *)
  Lemma unknowns_loop_ok : forall fuel off rem max,
    Tiles (negb (f_no_aligned c)) buf off rem -> 0 <= off -> off + rem <= len buf ->
    exists r, unknowns_loop fuel a buf (off + rem) off max = Ok r.
  Proof.
    induction fuel as [|f IH]; intros off rem max T Ho Hle; [destruct max; cbn; eauto|].
    destruct max as [|mx]; [cbn; eauto|].
    inversion T as [|off' rem' al H4 Hg Hal T']; subst.
    - cbn [unknowns_loop]. replace (off <? off + 0) with false by lia. eauto.
    - cbn [unknowns_loop]. replace (off <? off + rem) with true by lia. rewrite Hg. cbn [lift bind].
      destruct (getw_some buf off W ltac:(lia) ltac:(lia)) as (t & Ht & _). rewrite Ht. cbn [lift bind]. fold c.
      pose proof (getw_nonneg buf _ _ W Hg) as Ha.
      replace (if f_no_aligned c then al else stun_align al) with (if negb (f_no_aligned c) then stun_align al else al) by (destruct (f_no_aligned c); reflexivity).
      set (alen := if negb (f_no_aligned c) then stun_align al else al) in *.
      assert (0 <= alen) by (unfold alen; destruct (negb (f_no_aligned c)); [pose proof (stun_align_ge al)|]; lia).
      replace (off + rem) with ((off + 4 + alen) + (rem - 4 - alen)) by lia.
      destruct ((t <? 32768) && negb (existsb (Z.eqb t) (a_known a))).
      + destruct (IH (off + 4 + alen) (rem - 4 - alen) mx T' ltac:(lia) ltac:(lia)) as [r ->]. cbn [bind]. eauto.
      + apply IH; auto; lia.
  Qed.

  Lemma find_unknowns_ok max : exists r, find_unknowns a buf max = Ok r.
  Proof.
    unfold find_unknowns.
    destruct HW as (first & hi & lo & H0 & Hz & H2 & H3 & Hlen & Hpad & HT).
    pose proof (W _ _ H2). pose proof (W _ _ H3).
    unfold msg_length, getw. change (2 + 1) with 3. rewrite H2, H3. cbn [lift bind].
    replace ((be16 hi lo + 20) mod 65536) with (20 + (len buf - 20)) by (unfold be16 in *; lia).
    apply unknowns_loop_ok; auto; lia.
  Qed.

  Lemma stun_sha1_ok ty ho ml k p : find c buf ty = Ok (Some (ho, 20)) -> exists r, stun_sha1 buf (ho + 20) ml k p = Ok r.
  Proof.
    intros H. destruct (find_extent c buf ty ho 20 W Hlt HW H) as (A & _). unfold stun_sha1.
    replace (ho + 20 <? 44) with false by lia. eauto.
  Qed.
End NoFault.

Ltac norm20 := repeat match goal with H : negb (?x =? 20) = false |- _ => assert (x = 20) by lia; subst x; clear H end.
Ltac nf_ok a buf W Hlt HW :=
  norm20;
  first [ (apply find_ok; assumption) | (apply has_attr_ok; assumption) | (apply find32_ok; assumption)
        | (apply find_error_ok; assumption) | (apply (msg_class_ok a); assumption) | (apply (msg_method_ok a); assumption)
        | (apply (msg_length_ok a); assumption) | (apply check_fingerprint_ok; assumption) | (apply find_unknowns_ok; assumption)
        | (eapply (rd_n_found20 a); eassumption) | (eapply (rd_n_found a); eassumption)
        | (eapply (stun_sha1_ok a); eassumption)
        | (eexists; reflexivity) ].

Ltac nf_step a buf W Hlt HW :=
  match goal with
  | |- exists r, bind ?e ?f = Ok r =>
      let O := fresh "O" in let x := fresh "x" in
      assert (O : exists x, e = Ok x) by (first [ nf_ok a buf W Hlt HW | nf_go a buf W Hlt HW ]);
      destruct O as [x O]; rewrite O; cbn [bind]
  | |- exists r, (if ?b then _ else _) = Ok r => destruct b eqn:?
  | |- exists r, (match ?x with _ => _ end) = Ok r => destruct x eqn:?
  | |- exists r, Ok _ = Ok r => eexists; reflexivity
  | |- exists r, _ = Ok r => nf_ok a buf W Hlt HW
  end
with nf_go a buf W Hlt HW := repeat (nf_step a buf W Hlt HW).

Section NoFault2.
  Variables (a : agent) (buf : bytes).
  Hypothesis W : wfb buf.
  Hypothesis Hlt : len buf < 65536.
  Hypothesis HW : WfMsg (negb (f_no_aligned (a_cfg a))) buf.

  Lemma integrity_ok cls err ignore key ltk0 ltv0 :
    exists r, integrity (a_cfg a) buf cls err ignore key ltk0 ltv0 = Ok r.
  Proof. unfold integrity. nf_go a buf W Hlt HW. Qed.

  Lemma post_auth_ok cls err sent ms : exists r, post_auth a buf cls err sent ms = Ok r.
  Proof. unfold post_auth. cbn zeta. nf_go a buf W Hlt HW. Qed.

  Lemma authenticate_ok vd cls sent : exists r, authenticate a buf vd cls sent = Ok r.
  Proof.
    unfold authenticate. cbn zeta.
    nf_step a buf W Hlt HW. do 4 (nf_step a buf W Hlt HW).
    match goal with |- exists r, (if ?b then _ else _) = Ok r => destruct b; [eexists; reflexivity|] end.
    nf_step a buf W Hlt HW. nf_step a buf W Hlt HW.
    match goal with |- exists r, (if ?b then _ else _) = Ok r => destruct b; [eexists; reflexivity|] end.
    match goal with |- exists r, bind (integrity ?c ?b ?cl ?e ?i ?k ?l ?v) _ = Ok r =>
      destruct (integrity_ok cl e i k l v) as [ri Hri]; rewrite Hri; cbn [bind] end.
    destruct ri; [eexists; reflexivity|apply post_auth_ok].
  Qed.
End NoFault2.

Theorem validate_no_fault a buf vd : wfb buf -> len buf < 65536 -> exists r, validate a buf vd = Ok r.
Proof.
  intros W Hlt. unfold validate. cbn zeta.
  destruct (validate_len_spec buf (negb (f_no_aligned (a_cfg a))) W) as (r & Hr & HL & _).
  rewrite Hr. cbn [bind]. destruct r as [n| |]; [|eauto|eauto].
  destruct (negb (n =? len buf)) eqn:En; [eauto|].
  assert (n = len buf) by lia. subst n.
  destruct (proj1 (HL (len buf)) eq_refl) as (_ & HW). rewrite firstn_len_all in HW.
  destruct (is5389 (a_cfg a) && negb (has_cookie buf)); [eauto|].
  nf_step a buf W Hlt HW.
  destruct (negb x); [eauto|].
  nf_step a buf W Hlt HW. nf_step a buf W Hlt HW.
  match goal with |- exists r, (if ?b then _ else _) = Ok r => destruct b; [eexists; reflexivity|] end.
  apply authenticate_ok; assumption.
Qed.
