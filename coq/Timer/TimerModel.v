(** Executable model of stun/usages/timer.c (stun_timer_start / _remainder / _refresh).
    The clock is an input: [now] = what clock_gettime returned, as (tv_sec, tv_usec) with
    0 <= usec < 1000000.  C arithmetic is written out: [unsigned] wraps mod 2^32, the
    [(signed)] cast truncates a long to int, integer division truncates toward zero.
    No proofs in this file. *)
From Coq Require Import ZArith List Bool.
Local Open Scope Z_scope.
Local Open Scope bool_scope.

Record tv := { sec : Z; usec : Z }.
Record timer := { deadline : tv; delay : Z; retrans : Z; maxr : Z }.

Definition w32 (x : Z) : Z := x mod 4294967296.
(* (signed)(long) : keep the low 32 bits, reinterpret as two's complement *)
Definition s32 (x : Z) : Z := let y := x mod 4294967296 in if y <? 2147483648 then y else y - 4294967296.

(* one iteration of  while (ts->tv_usec > 1000000) { usec -= 1000000; sec++; } *)
Definition norm1 (t : tv) : tv :=
  if usec t >? 1000000 then {| sec := sec t + 1; usec := usec t - 1000000 |} else t.
(* usec <= 999999 + 999000 < 3000000, so two iterations always suffice (proved in TimerProofs) *)
Definition set_delay (now : tv) (d : Z) : tv :=
  norm1 (norm1 {| sec := sec now + d / 1000; usec := usec now + (d mod 1000) * 1000 |}).

Definition timer_start (now : tv) (t0 maxretr : Z) : timer :=
  {| deadline := set_delay now (w32 t0); delay := w32 t0; retrans := 1; maxr := w32 maxretr |}.

(** stun_timer_start_reliable: a reliable transport never retransmits — [stun_timer_start (timer, initial_timeout, 0)] *)
Definition timer_start_reliable (now : tv) (t0 : Z) : timer := timer_start now t0 0.

Definition remainder (t : timer) (now : tv) : Z :=
  if sec now >? sec (deadline t) then 0 else
  let d := w32 (sec (deadline t) - sec now) in
  if (d =? 0) && (usec now >=? usec (deadline t)) then 0 else
  w32 (w32 (d * 1000) + Z.quot (s32 (usec (deadline t) - usec now)) 1000).

Inductive tret := SUCCESS | RETRANSMIT | TIMEOUT.

Definition refresh (t : timer) (now : tv) : timer * tret :=
  if remainder t now =? 0 then
    if retrans t >=? maxr t then (t, TIMEOUT)
    else
      let d := if retrans t =? w32 (maxr t - 1) then delay t / 2 else w32 (delay t * 2) in
      ({| deadline := set_delay now d; delay := d; retrans := w32 (retrans t + 1); maxr := maxr t |}, RETRANSMIT)
  else (t, SUCCESS).

(** Driving a timer through a list of poll instants. *)
Fixpoint polls (t : timer) (ps : list tv) : list tret * timer :=
  match ps with
  | nil => (nil, t)
  | p :: ps' => let '(t', r) := refresh t p in let '(rs, tf) := polls t' ps' in (r :: rs, tf)
  end.
