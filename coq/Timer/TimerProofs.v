From Coq Require Import ZArith List Lia Bool ZifyBool.
From Nice Require Import Timer.TimerModel.
Import ListNotations.
Local Open Scope Z_scope.
Ltac Zify.zify_post_hook ::= Z.div_mod_to_equations.

Definition us (t : tv) : Z := sec t * 1000000 + usec t.
Definition wf_now (t : tv) : Prop := 0 <= usec t < 1000000.
Definition wf_dl (t : tv) : Prop := 0 <= usec t <= 1000000.

Lemma w32_small x : 0 <= x < 4294967296 -> w32 x = x.
Proof. intros; unfold w32; apply Z.mod_small; lia. Qed.

Lemma s32_small x : -2147483648 <= x < 2147483648 -> s32 x = x.
Proof.
  intros H; unfold s32. cbn zeta.
  destruct (x mod 4294967296 <? 2147483648) eqn:E; lia.
Qed.

Lemma set_delay_spec now d :
  wf_now now -> 0 <= d ->
  us (set_delay now d) = us now + d * 1000 /\ wf_dl (set_delay now d).
Proof.
  unfold wf_now, wf_dl, set_delay, norm1, us; intros Hn Hd; cbn [sec usec].
  assert (0 <= d mod 1000 < 1000) by (apply Z.mod_pos_bound; lia).
  assert (d = 1000 * (d / 1000) + d mod 1000) by (apply Z.div_mod; lia).
  destruct (usec now + d mod 1000 * 1000 >? 1000000) eqn:E1; cbn [sec usec].
  - destruct (usec now + d mod 1000 * 1000 - 1000000 >? 1000000) eqn:E2; cbn [sec usec]; lia.
  - rewrite E1; cbn [sec usec]; lia.
Qed.

(** The remaining time as reported, against the true remaining time r (in microseconds). *)
Lemma remainder_spec t now :
  wf_now now -> wf_dl (deadline t) ->
  sec (deadline t) - sec now < 4294967 ->
  let r := us (deadline t) - us now in
  (r <= 0 -> remainder t now = 0) /\
  (0 < r -> r - 1000 < remainder t now * 1000 < r + 1000 /\ 0 <= remainder t now) /\
  (1000 <= r -> remainder t now <> 0).
Proof.
  unfold wf_now, wf_dl, remainder, us; intros Hn Hd Hs; cbn zeta.
  destruct (sec now >? sec (deadline t)) eqn:E0.
  { repeat split; intros; lia. }
  assert (Hds : 0 <= sec (deadline t) - sec now) by lia.
  rewrite (w32_small (sec (deadline t) - sec now)) by lia.
  destruct ((sec (deadline t) - sec now =? 0) && (usec now >=? usec (deadline t))) eqn:E1.
  { repeat split; intros; lia. }
  set (d := sec (deadline t) - sec now) in *.
  set (df := usec (deadline t) - usec now) in *.
  rewrite (s32_small df) by lia.
  rewrite (w32_small (d * 1000)) by lia.
  assert (Hq : df = 1000 * Z.quot df 1000 + Z.rem df 1000) by (apply Z.quot_rem'; lia).
  assert (Hr : Z.abs (Z.rem df 1000) < 1000) by (apply Z.rem_bound_abs; lia).
  assert (Hsg : 0 <= df -> 0 <= Z.rem df 1000) by (intros; apply Z.rem_nonneg; lia).
  assert (Hsg2 : df <= 0 -> Z.rem df 1000 <= 0) by (intros; apply Z.rem_nonpos; lia).
  assert (Hv : 0 <= d * 1000 + Z.quot df 1000 < 4294967296) by lia.
  rewrite (w32_small _ Hv).
  repeat split; intros; try lia.
Qed.

Lemma remainder_zero_iff t now :
  wf_now now -> wf_dl (deadline t) ->
  sec (deadline t) - sec now < 4294967 ->
  remainder t now = 0 <->
  (sec now > sec (deadline t) \/ (sec now = sec (deadline t) /\ usec (deadline t) - usec now < 1000)).
Proof.
  unfold wf_now, wf_dl, remainder; intros Hn Hd Hs.
  destruct (sec now >? sec (deadline t)) eqn:E0.
  { split; intros; lia. }
  assert (Hds : 0 <= sec (deadline t) - sec now) by lia.
  rewrite (w32_small (sec (deadline t) - sec now)) by lia.
  destruct ((sec (deadline t) - sec now =? 0) && (usec now >=? usec (deadline t))) eqn:E1.
  { split; intros; lia. }
  set (d := sec (deadline t) - sec now) in *.
  set (df := usec (deadline t) - usec now) in *.
  rewrite (s32_small df) by lia.
  rewrite (w32_small (d * 1000)) by lia.
  assert (Hq : df = 1000 * Z.quot df 1000 + Z.rem df 1000) by (apply Z.quot_rem'; lia).
  assert (Hr : Z.abs (Z.rem df 1000) < 1000) by (apply Z.rem_bound_abs; lia).
  assert (Hsg : 0 <= df -> 0 <= Z.rem df 1000) by (intros; apply Z.rem_nonneg; lia).
  assert (Hsg2 : df <= 0 -> Z.rem df 1000 <= 0) by (intros; apply Z.rem_nonpos; lia).
  assert (Hv : 0 <= d * 1000 + Z.quot df 1000 < 4294967296) by lia.
  rewrite (w32_small _ Hv).
  split; intros; lia.
Qed.

Lemma remainder_mono t p p' :
  wf_now p -> wf_now p' -> wf_dl (deadline t) -> us p <= us p' ->
  sec (deadline t) - sec p < 4294967 -> sec (deadline t) - sec p' < 4294967 ->
  remainder t p = 0 -> remainder t p' = 0.
Proof.
  intros Hp Hp' Hd Hle Hs Hs' H0.
  apply (remainder_zero_iff t p Hp Hd Hs) in H0.
  apply (remainder_zero_iff t p' Hp' Hd Hs').
  unfold us, wf_now, wf_dl in *. lia.
Qed.

(** The wait (in ms) that is running while [retrans = k], for initial timeout T and limit N. *)
Definition wait (T N k : Z) : Z :=
  if (k <? N) || (N <=? 1) then T * 2 ^ (k - 1) else (T * 2 ^ (k - 2)) / 2.

Definition nmax (N : Z) := Z.max N 1.

(** Invariant tying a running timer to the schedule: [last] is the instant (us) of the last (re)arm. *)
Record Inv (T N : Z) (t : timer) (last : Z) : Prop := {
  inv_maxr : maxr t = N;
  inv_retr : 1 <= retrans t <= nmax N;
  inv_delay : delay t = wait T N (retrans t);
  inv_dl : us (deadline t) = last + delay t * 1000;
  inv_wf : wf_dl (deadline t) }.

Definition params_ok (T N : Z) := 1 <= T <= 10000 /\ 0 <= N <= 16.

Lemma pow2_bound k : 0 <= k <= 15 -> 1 <= 2 ^ k <= 32768.
Proof.
  intros H. split.
  - assert (0 < 2 ^ k) by (apply Z.pow_pos_nonneg; lia). lia.
  - change 32768 with (2 ^ 15). apply Z.pow_le_mono_r; lia.
Qed.

Lemma wait_bound T N k : params_ok T N -> 1 <= k <= nmax N -> 0 <= wait T N k <= 327680000.
Proof.
  unfold params_ok, nmax, wait; intros [HT HN] Hk.
  destruct ((k <? N) || (N <=? 1)) eqn:E.
  - assert (1 <= 2 ^ (k - 1) <= 32768) by (apply pow2_bound; lia). nia.
  - assert (1 <= 2 ^ (k - 2) <= 32768) by (apply pow2_bound; lia).
    assert (0 <= T * 2 ^ (k - 2) <= 327680000) by nia. lia.
Qed.

Lemma start_inv T N now : params_ok T N -> wf_now now -> Inv T N (timer_start now T N) (us now).
Proof.
  intros HP Hn. pose proof HP as [HT HN].
  unfold timer_start. rewrite !w32_small by lia.
  destruct (set_delay_spec now T Hn ltac:(lia)) as [A B].
  constructor; cbn [maxr retrans delay deadline]; auto.
  - unfold nmax; lia.
  - unfold wait. replace (1 - 1) with 0 by lia. destruct ((1 <? N) || (N <=? 1)) eqn:E; lia.
Qed.

(** One refresh step, fully characterised. *)
Lemma refresh_step T N t last p :
  params_ok T N -> Inv T N t last -> wf_now p -> last <= us p ->
  let r := us (deadline t) - us p in
  match snd (refresh t p) with
  | SUCCESS => fst (refresh t p) = t /\ 0 < r
  | TIMEOUT => fst (refresh t p) = t /\ r < 1000 /\ retrans t = nmax N
  | RETRANSMIT => r < 1000 /\ retrans t < nmax N /\ Inv T N (fst (refresh t p)) (us p) /\
                  retrans (fst (refresh t p)) = retrans t + 1
  end /\ (r <= 0 -> snd (refresh t p) <> SUCCESS).
Proof.
  intros HP HI Hp Hlast. destruct HI as [Hm Hr Hd Hdl Hwf].
  pose proof (wait_bound T N (retrans t) HP Hr) as Hwb. rewrite <- Hd in Hwb.
  assert (Hs : sec (deadline t) - sec p < 4294967).
  { unfold us, wf_now, wf_dl in *. lia. }
  pose proof (remainder_spec t p Hp Hwf Hs) as (R0 & R1 & R2). cbn zeta in *.
  unfold refresh.
  destruct (remainder t p =? 0) eqn:E0.
  - assert (Hr0 : us (deadline t) - us p < 1000).
    { destruct (Z_lt_ge_dec (us (deadline t) - us p) 1000); [lia|]. exfalso; apply R2; lia. }
    destruct (retrans t >=? maxr t) eqn:E1; cbn [fst snd].
    + split; [|intros _; discriminate]. repeat split; auto. unfold nmax in *; lia.
    + split; [|intros _; discriminate].
      pose proof HP as [HT HN].
      assert (HN2 : retrans t < N) by lia.
      assert (Hnm : nmax N = N) by (unfold nmax; lia).
      set (d' := if retrans t =? w32 (maxr t - 1) then delay t / 2 else w32 (delay t * 2)).
      assert (Hd' : d' = wait T N (retrans t + 1) /\ 0 <= d').
      { unfold d'. rewrite Hm. rewrite (w32_small (N - 1)) by lia.
        rewrite Hd. unfold wait.
        assert (Hk : (retrans t <? N) || (N <=? 1) = true) by lia. rewrite Hk.
        destruct (retrans t =? N - 1) eqn:E2.
        - assert (Hk2 : (retrans t + 1 <? N) || (N <=? 1) = false) by lia. rewrite Hk2.
          replace (retrans t + 1 - 2) with (retrans t - 1) by lia.
          split; [reflexivity|]. apply Z.div_pos; [|lia].
          assert (1 <= 2 ^ (retrans t - 1) <= 32768) by (apply pow2_bound; lia). nia.
        - assert (Hk2 : (retrans t + 1 <? N) || (N <=? 1) = true) by lia. rewrite Hk2.
          replace (retrans t + 1 - 1) with (Z.succ (retrans t - 1)) by lia.
          rewrite Z.pow_succ_r by lia.
          assert (1 <= 2 ^ (retrans t - 1) <= 32768) by (apply pow2_bound; lia).
          rewrite w32_small by nia. split; nia. }
      destruct Hd' as [Hd'1 Hd'2].
      destruct (set_delay_spec p d' Hp Hd'2) as [SA SB].
      repeat split; auto; cbn [maxr retrans delay deadline]; try lia;
        rewrite ?(w32_small (retrans t + 1)) by lia; unfold wf_dl in *; try lia; auto.
  - cbn [fst snd]. split.
    + split; auto. destruct (Z_le_gt_dec (us (deadline t) - us p) 0); [|lia]. specialize (R0 l). lia.
    + intros Hle. specialize (R0 Hle). lia.
Qed.

(** remaining time never exceeds the running wait, and is zero from the deadline on *)
Lemma remainder_le_delay T N t last p :
  params_ok T N -> Inv T N t last -> wf_now p -> last <= us p ->
  0 <= remainder t p <= delay t /\ (us (deadline t) <= us p -> remainder t p = 0).
Proof.
  intros HP HI Hp Hlast. destruct HI as [Hm Hr Hd Hdl Hwf].
  pose proof (wait_bound T N (retrans t) HP Hr) as Hwb. rewrite <- Hd in Hwb.
  assert (Hs : sec (deadline t) - sec p < 4294967).
  { unfold us, wf_now, wf_dl in *. lia. }
  pose proof (remainder_spec t p Hp Hwf Hs) as (R0 & R1 & R2). cbn zeta in *.
  split; [|intros; apply R0; lia].
  destruct (Z_le_gt_dec (us (deadline t) - us p) 0) as [H|H].
  - rewrite (R0 H); lia.
  - specialize (R1 ltac:(lia)). lia.
Qed.

(** ---- whole runs ---- *)
Fixpoint sorted_from (last : Z) (ps : list tv) : Prop :=
  match ps with
  | [] => True
  | p :: ps' => wf_now p /\ last <= us p /\ sorted_from (us p) ps'
  end.

Fixpoint count (x : tret) (l : list tret) : Z :=
  match l with [] => 0 | y :: l' => (match x, y with SUCCESS, SUCCESS | RETRANSMIT, RETRANSMIT | TIMEOUT, TIMEOUT => 1 | _, _ => 0 end) + count x l' end.

Lemma count_nonneg x l : 0 <= count x l.
Proof. induction l as [|y l IH]; cbn [count]; [lia|]. destruct x, y; lia. Qed.

Lemma refresh_timeout_inv t p : snd (refresh t p) = TIMEOUT ->
  remainder t p = 0 /\ (retrans t >=? maxr t) = true.
Proof.
  unfold refresh. destruct (remainder t p =? 0) eqn:E; [|discriminate].
  destruct (retrans t >=? maxr t); [|discriminate]. intros _. split; [lia|reflexivity].
Qed.

Lemma refresh_timeout_intro t p : remainder t p = 0 -> (retrans t >=? maxr t) = true ->
  refresh t p = (t, TIMEOUT).
Proof. intros H1 H2. unfold refresh. rewrite H1, H2. reflexivity. Qed.

(* after the limit is reached and the last wait has expired, every later poll says TIMEOUT *)
Lemma polls_after_timeout T N t last p ps :
  params_ok T N -> Inv T N t last -> wf_now p -> last <= us p ->
  snd (refresh t p) = TIMEOUT -> sorted_from (us p) ps ->
  polls t ps = (repeat TIMEOUT (length ps), t).
Proof.
  intros HP HI Hp Hl HT. revert p Hp Hl HT.
  induction ps as [|q ps IH]; intros p Hp Hl HT Hs; [reflexivity|].
  destruct Hs as (Hq & Hle & Hs).
  cbn [polls length repeat].
  assert (Hq2 : last <= us q) by lia.
  destruct (refresh_timeout_inv t p HT) as [Hrp Hge].
  assert (Hrem : remainder t q = 0).
  { destruct HI as [Hm Hr' Hd Hdl Hwf].
    pose proof (wait_bound T N (retrans t) HP Hr') as Hwb. rewrite <- Hd in Hwb.
    apply (remainder_mono t p q); auto; try (unfold us, wf_now, wf_dl in *; lia). }
  pose proof (refresh_timeout_intro t q Hrem Hge) as Hq3.
  rewrite Hq3.
  rewrite (IH q Hq Hq2); [reflexivity| rewrite Hq3; reflexivity | exact Hs].
Qed.

(** Main run theorem: number of RETRANSMITs plus current [retrans] is conserved; results are
    non-TIMEOUT until the limit is reached, then TIMEOUT forever. *)
Lemma polls_run T N : params_ok T N -> forall ps t last,
  Inv T N t last -> sorted_from last ps ->
  let rs := fst (polls t ps) in
  count RETRANSMIT rs = retrans (snd (polls t ps)) - retrans t /\
  count RETRANSMIT rs <= nmax N - retrans t /\
  (exists pre n, rs = pre ++ repeat TIMEOUT n /\ count TIMEOUT pre = 0 /\
                 ((n > 0)%nat -> count RETRANSMIT pre = nmax N - retrans t)) /\
  (exists last', Inv T N (snd (polls t ps)) last').
Proof.
  intros HP. induction ps as [|p ps IH]; intros t last HI Hs; cbn zeta.
  - cbn [polls fst snd count]. destruct HI as [? Hr ? ? ?]. repeat split; try lia.
    + exists [], 0%nat. cbn. repeat split; auto. lia.
    + exists last. constructor; auto.
  - destruct Hs as (Hp & Hle & Hs).
    pose proof (refresh_step T N t last p HP HI Hp Hle) as [S1 _]. cbn zeta in S1.
    cbn [polls].
    destruct (refresh t p) as [t' r] eqn:ER. cbn [fst snd] in S1.
    destruct r.
    + destruct S1 as [-> _].
      specialize (IH t last HI). 
      assert (Hs' : sorted_from last ps).
      { clear - Hs Hle. destruct ps as [|q ps]; [exact I|]. cbn [sorted_from] in *. destruct Hs as (A & B & C). split; [exact A|split; [lia|exact C]]. }
      specialize (IH Hs'). cbn zeta in IH.
      destruct (polls t ps) as [rs tf]. cbn [fst snd] in *.
      destruct IH as (I1 & I2 & (pre & n & I3 & I4 & I6) & I7).
      cbn [count]. repeat split; try lia; auto.
      exists (SUCCESS :: pre), n. rewrite I3. cbn [app count]. repeat split; auto.
    + destruct S1 as (Hr & Hlt & HI' & Hk).
      specialize (IH t' (us p) HI' Hs). cbn zeta in IH.
      destruct (polls t' ps) as [rs tf]. cbn [fst snd] in *.
      destruct IH as (I1 & I2 & (pre & n & I3 & I4 & I6) & I7).
      cbn [count]. repeat split; try lia; auto.
      exists (RETRANSMIT :: pre), n. rewrite I3. cbn [app count]. repeat split; auto; try lia;
        try (intros Hn; specialize (I6 Hn); lia).
    + destruct S1 as (-> & Hr & Hk).
      assert (HT : snd (refresh t p) = TIMEOUT) by (rewrite ER; reflexivity).
      pose proof (polls_after_timeout T N t last p ps HP HI Hp Hle HT Hs) as HA.
      rewrite HA. cbn [fst snd].
      assert (Hc : forall n, count RETRANSMIT (repeat TIMEOUT n) = 0) by (induction n; cbn; auto).
      cbn [count]. rewrite Hc. repeat split; try lia.
      * exists [], (S (length ps)). cbn [app repeat count]. repeat split; auto. intros _. lia.
      * exists last; auto.
Qed.

(** ---- statements used by Properties_C19 ---- *)
Lemma run_from_start T N now0 ps :
  params_ok T N -> wf_now now0 -> sorted_from (us now0) ps ->
  let rs := fst (polls (timer_start now0 T N) ps) in
  count RETRANSMIT rs <= nmax N - 1 /\
  exists pre n, rs = pre ++ repeat TIMEOUT n /\ count TIMEOUT pre = 0 /\
                ((n > 0)%nat -> count RETRANSMIT pre = nmax N - 1).
Proof.
  intros HP Hn Hs.
  pose proof (polls_run T N HP ps (timer_start now0 T N) (us now0) (start_inv T N now0 HP Hn) Hs) as H.
  cbn zeta in *. destruct H as (_ & H2 & H3 & _).
  change (retrans (timer_start now0 T N)) with 1 in *. split; [exact H2|exact H3].
Qed.

Lemma run_inv T N now0 ps :
  params_ok T N -> wf_now now0 -> sorted_from (us now0) ps ->
  let t := snd (polls (timer_start now0 T N) ps) in
  maxr t = N /\ 1 <= retrans t <= nmax N /\ delay t = wait T N (retrans t) /\
  retrans t = 1 + count RETRANSMIT (fst (polls (timer_start now0 T N) ps)).
Proof.
  intros HP Hn Hs.
  pose proof (polls_run T N HP ps (timer_start now0 T N) (us now0) (start_inv T N now0 HP Hn) Hs) as H.
  cbn zeta in *. destruct H as (H1 & _ & _ & (l & [A B C D E])).
  change (retrans (timer_start now0 T N)) with 1 in *. repeat split; auto; lia.
Qed.

Lemma wait_examples T : 1 <= T ->
  wait T 3 1 = T /\ wait T 3 2 = 2 * T /\ wait T 3 3 = T /\
  wait T 1 1 = T /\ wait T 0 1 = T /\ wait T 2 1 = T /\ wait T 2 2 = T / 2.
Proof.
  intros H. unfold wait.
  change (3 <=? 1) with false; change (1 <=? 1) with true; change (0 <=? 1) with true; change (2 <=? 1) with false.
  change (1 <? 3) with true; change (2 <? 3) with true; change (3 <? 3) with false.
  change (1 <? 1) with false; change (1 <? 0) with false; change (1 <? 2) with true; change (2 <? 2) with false.
  cbn [orb]. change (1 - 1) with 0; change (2 - 1) with 1; change (3 - 2) with 1; change (2 - 2) with 0.
  rewrite Z.pow_0_r, Z.pow_1_r, Z.mul_1_r, Z.div_mul by lia. repeat split; lia.
Qed.

Lemma wait_doubles T N k : 1 <= k -> k + 1 < N -> wait T N (k + 1) = 2 * wait T N k.
Proof.
  intros Hk HN. unfold wait.
  assert (E1 : (k + 1 <? N) || (N <=? 1) = true) by lia.
  assert (E2 : (k <? N) || (N <=? 1) = true) by lia.
  rewrite E1, E2. replace (k + 1 - 1) with (Z.succ (k - 1)) by lia. rewrite Z.pow_succ_r by lia. lia.
Qed.

Lemma wait_last_halves T N : 2 <= N -> wait T N N = wait T N (N - 1) / 2.
Proof.
  intros HN. unfold wait.
  assert (E1 : (N <? N) || (N <=? 1) = false) by lia.
  assert (E2 : (N - 1 <? N) || (N <=? 1) = true) by lia.
  rewrite E1, E2. replace (N - 1 - 1) with (N - 2) by lia. reflexivity.
Qed.

Lemma firstn_app_repeat_more {A} (x : A) : forall n a m, (n <= m)%nat ->
  firstn n (a ++ repeat x m) = firstn n (a ++ repeat x (S m)).
Proof.
  induction n as [|n IH]; intros a m Hm; [reflexivity|].
  destruct a as [|y a]; cbn [app].
  - destruct m as [|m]; [lia|]. cbn [repeat firstn]. f_equal.
    apply (IH [] m). lia.
  - cbn [firstn]. f_equal. apply IH. lia.
Qed.

Lemma firstn_repeat_self {A} (x : A) n : firstn n (repeat x n) = repeat x n.
Proof. induction n; cbn; congruence. Qed.

Fixpoint all_late (t : timer) (ps : list tv) : Prop :=
  match ps with
  | [] => True
  | p :: ps' => us (deadline t) <= us p /\ all_late (fst (refresh t p)) ps'
  end.

Lemma late_run T N : params_ok T N -> forall ps t last,
  Inv T N t last -> sorted_from last ps -> all_late t ps ->
  fst (polls t ps) =
  firstn (length ps) (repeat RETRANSMIT (Z.to_nat (nmax N - retrans t)) ++ repeat TIMEOUT (length ps)).
Proof.
  intros HP. induction ps as [|p ps IH]; intros t last HI Hs HL; [reflexivity|].
  destruct Hs as (Hp & Hle & Hs). destruct HL as (HL1 & HL2).
  pose proof (refresh_step T N t last p HP HI Hp Hle) as [S1 S2]. cbn zeta in *.
  specialize (S2 ltac:(lia)).
  cbn [polls]. destruct (refresh t p) as [t' r] eqn:ER. cbn [fst snd] in *.
  destruct r; [congruence| |].
  - destruct S1 as (_ & Hlt & HI' & Hk).
    specialize (IH t' (us p) HI' Hs HL2).
    destruct (polls t' ps) as [rs tf]. cbn [fst] in *. rewrite IH, Hk.
    replace (Z.to_nat (nmax N - retrans t)) with (S (Z.to_nat (nmax N - (retrans t + 1)))) by lia.
    cbn [repeat app length firstn].
    f_equal. apply firstn_app_repeat_more. lia.
  - destruct S1 as (-> & _ & Hk).
    assert (HT : snd (refresh t p) = TIMEOUT) by (rewrite ER; reflexivity).
    rewrite (polls_after_timeout T N t last p ps HP HI Hp Hle HT Hs). cbn [fst].
    rewrite Hk. replace (nmax N - nmax N) with 0 by lia. cbn [Z.to_nat repeat app length firstn].
    f_equal. symmetry. apply firstn_repeat_self.
Qed.

Lemma late_run_from_start T N now0 ps :
  params_ok T N -> wf_now now0 -> sorted_from (us now0) ps ->
  all_late (timer_start now0 T N) ps ->
  fst (polls (timer_start now0 T N) ps) =
  firstn (length ps) (repeat RETRANSMIT (Z.to_nat (nmax N - 1)) ++ repeat TIMEOUT (length ps)).
Proof.
  intros HP Hn Hs HL.
  exact (late_run T N HP ps _ _ (start_inv T N now0 HP Hn) Hs HL).
Qed.

Lemma step_window T N now0 ps p :
  params_ok T N -> wf_now now0 -> sorted_from (us now0) (ps ++ [p]) ->
  let t := snd (polls (timer_start now0 T N) ps) in
  let r := us (deadline t) - us p in
  (snd (refresh t p) = SUCCESS -> 0 < r) /\
  (r <= 0 -> snd (refresh t p) <> SUCCESS) /\
  (snd (refresh t p) <> SUCCESS -> r < 1000) /\
  (snd (refresh t p) = RETRANSMIT ->
     us (deadline (fst (refresh t p))) = us p + delay (fst (refresh t p)) * 1000) /\
  0 <= remainder t p <= delay t /\ (r <= 0 -> remainder t p = 0).
Proof.
  intros HP Hn Hs. cbn zeta.
  (* the invariant holds after ps with some [last] <= us p *)
  assert (H : exists last, Inv T N (snd (polls (timer_start now0 T N) ps)) last /\ last <= us p /\ wf_now p).
  { pose proof (start_inv T N now0 HP Hn) as HI. revert HI Hs.
    generalize (timer_start now0 T N) as t, (us now0) as last.
    induction ps as [|q ps IH]; intros t last HI Hs.
    - cbn [app sorted_from polls snd] in *. exists last. destruct Hs as (A & B & _). auto.
    - cbn [app sorted_from] in Hs. destruct Hs as (Hq & Hle & Hs).
      pose proof (refresh_step T N t last q HP HI Hq Hle) as [S1 _]. cbn zeta in S1.
      cbn [polls]. destruct (refresh t q) as [t' r] eqn:ER. cbn [fst snd] in S1.
      assert (Hx : exists l', Inv T N t' l' /\ l' <= us q).
      { destruct r.
        - destruct S1 as [-> _]. exists last; auto.
        - destruct S1 as (_ & _ & HI' & _). exists (us q); split; [auto|lia].
        - destruct S1 as [-> _]. exists last; auto. }
      destruct Hx as (l' & HI' & Hl').
      assert (Hs' : sorted_from l' (ps ++ [p])).
      { clear - Hs Hl'. destruct ps as [|x ps]; cbn [app sorted_from] in *.
        - destruct Hs as (A & B & C). split; [exact A|split; [lia|exact C]].
        - destruct Hs as (A & B & C). split; [exact A|split; [lia|exact C]]. }
      specialize (IH t' l' HI' Hs').
      destruct (polls t' ps) as [rs tf]. cbn [snd] in *. exact IH. }
  destruct H as (last & HI & Hle & Hp).
  pose proof (refresh_step T N _ last p HP HI Hp Hle) as [S1 S2]. cbn zeta in *.
  pose proof (remainder_le_delay T N _ last p HP HI Hp Hle) as [R1 R2].
  set (t := snd (polls (timer_start now0 T N) ps)) in *.
  split; [|split; [|split; [|split; [|split]]]].
  - intros E. rewrite E in S1. tauto.
  - exact S2.
  - intros E. destruct (snd (refresh t p)); [congruence| |]; tauto.
  - intros E. rewrite E in S1. destruct S1 as (_ & _ & [A B C D F] & _). exact D.
  - exact R1.
  - intros; apply R2; lia.
Qed.

Lemma count_app_local x l1 l2 : count x (l1 ++ l2) = count x l1 + count x l2.
Proof. induction l1 as [|y l1 IH]; cbn [app count]; [lia|]. rewrite IH. lia. Qed.

(** stun_timer_start_reliable: the N = 0 schedule — however it is polled, never a RETRANSMIT; the first expiry is TIMEOUT and stays *)
Lemma reliable_never_retransmits T now0 ps :
  1 <= T <= 10000 -> wf_now now0 -> sorted_from (us now0) ps ->
  let rs := fst (polls (timer_start_reliable now0 T) ps) in
  count RETRANSMIT rs = 0 /\ exists pre n, rs = pre ++ repeat TIMEOUT n /\ count TIMEOUT pre = 0 /\ count RETRANSMIT pre = 0.
Proof.
  intros HT Hw Hs rs.
  assert (Hp : params_ok T 0) by (unfold params_ok; lia).
  pose proof (run_from_start T 0 now0 ps Hp Hw Hs) as H. cbv zeta in H.
  destruct H as (Hc & pre & n & Hrs & Hto & Hre).
  assert (Hn : nmax 0 = 1) by reflexivity. rewrite Hn in Hc.
  assert (Hge : 0 <= count RETRANSMIT (fst (polls (timer_start now0 T 0) ps))) by apply count_nonneg.
  assert (Hz : count RETRANSMIT (fst (polls (timer_start now0 T 0) ps)) = 0) by lia.
  unfold rs, timer_start_reliable. split; [exact Hz|].
  exists pre, n. repeat split; try assumption.
  rewrite Hrs in Hz. rewrite count_app_local in Hz.
  pose proof (count_nonneg RETRANSMIT pre). pose proof (count_nonneg RETRANSMIT (repeat TIMEOUT n)). lia.
Qed.

(** ---- total length of the schedule (time from the first transmission to TIMEOUT, in ms) ---- *)

Fixpoint sum_wait (T N : Z) (n : nat) : Z :=
  match n with O => 0 | S m => sum_wait T N m + wait T N (Z.of_nat (S m)) end.

Lemma sum_wait_prefix T N n : Z.of_nat n < N -> sum_wait T N n = T * (2 ^ Z.of_nat n - 1).
Proof.
  induction n as [|m IH]; intros H.
  - cbn. lia.
  - cbn [sum_wait]. rewrite IH by lia.
    unfold wait. assert (E : (Z.of_nat (S m) <? N) || (N <=? 1) = true) by lia. rewrite E.
    replace (Z.of_nat (S m) - 1) with (Z.of_nat m) by lia.
    replace (Z.of_nat (S m)) with (Z.succ (Z.of_nat m)) by lia.
    rewrite Z.pow_succ_r by lia. lia.
Qed.

Lemma sum_wait_total T N : 3 <= N ->
  sum_wait T N (Z.to_nat N) = T * (2 ^ (N - 1) + 2 ^ (N - 3) - 1).
Proof.
  intros HN. destruct (Z.to_nat N) as [|m] eqn:E; [lia|].
  cbn [sum_wait]. rewrite sum_wait_prefix by lia.
  replace (Z.of_nat (S m)) with N by lia. replace (Z.of_nat m) with (N - 1) by lia.
  unfold wait. assert (E1 : (N <? N) || (N <=? 1) = false) by lia. rewrite E1.
  replace (N - 2) with (Z.succ (N - 3)) by lia. rewrite Z.pow_succ_r by lia.
  replace (T * (2 * 2 ^ (N - 3))) with (T * 2 ^ (N - 3) * 2) by lia.
  rewrite Z.div_mul by lia. lia.
Qed.

Example sum_wait_default : sum_wait 200 7 7 = 15800 /\ sum_wait 500 3 3 = 2000.
Proof. vm_compute. split; reflexivity. Qed.

(** ---- no early give-up: TIMEOUT is never reported before the whole schedule (minus 1 ms per wait) has elapsed ---- *)
Lemma sum_wait_step T N k : 1 <= k ->
  sum_wait T N (Z.to_nat k) = sum_wait T N (Z.to_nat (k - 1)) + wait T N k.
Proof.
  intros Hk. replace (Z.to_nat k) with (S (Z.to_nat (k - 1))) by lia.
  cbn [sum_wait]. replace (Z.of_nat (S (Z.to_nat (k - 1)))) with k by lia. reflexivity.
Qed.

Lemma sorted_from_nth last ps : sorted_from last ps ->
  forall i q, nth_error ps i = Some q -> last <= us q.
Proof.
  revert last. induction ps as [|p ps IH]; intros last Hs i q Hq.
  - destruct i; discriminate.
  - destruct Hs as (Hp & Hle & Hs). destruct i as [|i]; cbn in Hq.
    + inversion Hq; subst; exact Hle.
    + specialize (IH (us p) Hs i q Hq). lia.
Qed.

Lemma sorted_from_weaken last last' ps : last' <= last -> sorted_from last ps -> sorted_from last' ps.
Proof. intros Hl Hs. destruct ps as [|q ps]; [exact I|]. cbn [sorted_from] in *. destruct Hs as (A & B & C). split; [exact A|split; [lia|exact C]]. Qed.

Lemma polls_timeout_time T N base : params_ok T N -> forall ps t last,
  Inv T N t last -> sorted_from last ps ->
  base + (sum_wait T N (Z.to_nat (retrans t - 1)) - (retrans t - 1)) * 1000 <= last ->
  forall i p, nth_error ps i = Some p -> nth_error (fst (polls t ps)) i = Some TIMEOUT ->
  base + (sum_wait T N (Z.to_nat (nmax N)) - nmax N) * 1000 < us p.
Proof.
  intros HP. induction ps as [|p ps IH]; intros t last HI Hs Hb i q Hq Hr.
  - destruct i; discriminate.
  - destruct Hs as (Hp & Hle & Hs).
    pose proof (refresh_step T N t last p HP HI Hp Hle) as [S1 _]. cbn zeta in S1.
    pose proof HI as [Hm Hrt Hd Hdl Hwf].
    pose proof (sum_wait_step T N (retrans t) ltac:(lia)) as Hstep.
    cbn [polls] in Hr.
    destruct (refresh t p) as [t' r] eqn:ER. cbn [fst snd] in S1.
    destruct (polls t' ps) as [rs tf] eqn:EP. cbn [fst] in Hr.
    destruct r.
    + destruct S1 as [-> _]. destruct i as [|i]; cbn in Hr, Hq; [discriminate|].
      apply (IH t last HI (sorted_from_weaken _ _ _ Hle Hs) Hb i q Hq). rewrite EP. exact Hr.
    + destruct S1 as (Hr1 & Hlt & HI' & Hk). destruct i as [|i]; cbn in Hr, Hq; [discriminate|].
      apply (IH t' (us p) HI' Hs) with (i := i); [|exact Hq|rewrite EP; exact Hr].
      rewrite Hk. replace (retrans t + 1 - 1) with (retrans t) by lia. rewrite Hstep. rewrite <- Hd. lia.
    + destruct S1 as (-> & Hr1 & Hk).
      assert (Hpb : base + (sum_wait T N (Z.to_nat (nmax N)) - nmax N) * 1000 < us p).
      { rewrite <- Hk. rewrite Hstep. rewrite <- Hd. lia. }
      destruct i as [|i]; cbn in Hq.
      * inversion Hq; subst; exact Hpb.
      * pose proof (sorted_from_nth _ _ Hs i q Hq). lia.
Qed.

Lemma no_early_timeout T N now0 ps i p :
  params_ok T N -> wf_now now0 -> sorted_from (us now0) ps ->
  nth_error ps i = Some p -> nth_error (fst (polls (timer_start now0 T N) ps)) i = Some TIMEOUT ->
  us now0 + (sum_wait T N (Z.to_nat (nmax N)) - nmax N) * 1000 < us p.
Proof.
  intros HP Hn Hs Hq Hr.
  apply (polls_timeout_time T N (us now0) HP ps (timer_start now0 T N) (us now0) (start_inv T N now0 HP Hn) Hs) with (i := i); auto.
  change (retrans (timer_start now0 T N)) with 1. cbn. lia.
Qed.

Example no_early_timeout_nonvacuous :
  fst (polls (timer_start {| sec := 0; usec := 0 |} 500 3)
        [{| sec := 0; usec := 500000 |}; {| sec := 1; usec := 500000 |}; {| sec := 2; usec := 0 |}])
  = [RETRANSMIT; RETRANSMIT; TIMEOUT] /\ (sum_wait 500 3 (Z.to_nat (nmax 3)) - nmax 3) * 1000 = 1997000.
Proof. vm_compute. split; reflexivity. Qed.
