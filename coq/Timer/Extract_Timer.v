From Coq Require Import ZArith List.
From Coq Require Extraction ExtrOcamlBasic.
From Nice Require Import Timer.TimerModel.
Extraction Language OCaml.
Extraction "../ocaml/gen/timer_model.ml" timer_start timer_start_reliable remainder refresh.
