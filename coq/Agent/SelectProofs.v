From Coq Require Import ZArith List Bool Lia Permutation.
From Nice Require Import Agent.SelectModel.
Import ListNotations.
Local Open Scope Z_scope.

Lemma fold_mono : forall l s, p_prio s <= p_prio (fold_left update l s).
Proof. induction l as [|p l IH]; intros s; cbn [fold_left]; [lia|]. specialize (IH (update s p)). unfold update in *. destruct (Z.ltb_spec (p_prio s) (p_prio p)); lia. Qed.

Lemma fold_in : forall l s, fold_left update l s = s \/ In (fold_left update l s) l.
Proof.
  induction l as [|p l IH]; intros s; cbn [fold_left]; [left; reflexivity|].
  destruct (IH (update s p)) as [H|H]; [|right; right; exact H]. rewrite H. unfold update. destruct (p_prio s <? p_prio p); [right; left; reflexivity|left; reflexivity].
Qed.

Lemma fold_max : forall l s q, In q l -> p_prio q <= p_prio (fold_left update l s).
Proof.
  induction l as [|p l IH]; intros s q Hq; [destruct Hq|]. destruct Hq as [->|H]; cbn [fold_left].
  - pose proof (fold_mono l (update s q)). unfold update in *. destruct (Z.ltb_spec (p_prio s) (p_prio q)); lia.
  - apply IH; exact H.
Qed.

(** the selected pair only ever moves to a strictly higher priority *)
Theorem selected_only_improves : forall l s p, p_prio s <= p_prio (update (fold_left update l s) p) /\
  (update (fold_left update l s) p <> fold_left update l s -> p_prio (fold_left update l s) < p_prio p).
Proof.
  intros l s p. pose proof (fold_mono l s) as Hm. remember (fold_left update l s) as f eqn:Hf. clear Hf. unfold update. destruct (Z.ltb_spec (p_prio f) (p_prio p)) as [E|E].
  - split; [lia|intros _; exact E].
  - split; [exact Hm|intros Hn; exfalso; apply Hn; reflexivity].
Qed.

(** once the network is quiet, the selected pair is a nominated pair of maximal priority *)
Theorem select_is_max : forall l, l <> [] -> (forall q, In q l -> 0 < p_prio q) ->
  In (select l) l /\ forall q, In q l -> p_prio q <= p_prio (select l).
Proof.
  intros l Hne Hpos. unfold select. split; [|intros q; apply fold_max].
  destruct (fold_in l none) as [H|H]; [|exact H]. exfalso. destruct l as [|q l]; [congruence|].
  pose proof (fold_max (q :: l) none q (or_introl eq_refl)) as Hm. rewrite H in Hm. specialize (Hpos q (or_introl eq_refl)). cbn in Hm. lia.
Qed.

(** with pairwise distinct priorities the selection does not depend on the order in which nominations arrive:
    two agents holding the same set of nominated pairs (whose priorities agree, C15) select the same pair — the mirror property *)
Theorem select_order_independent : forall l l', Permutation l l' -> l <> [] -> (forall q, In q l -> 0 < p_prio q) ->
  (forall a b, In a l -> In b l -> p_prio a = p_prio b -> a = b) -> select l = select l'.
Proof.
  intros l l' HP Hne Hpos Hinj.
  assert (Hne' : l' <> []) by (intros ->; apply Permutation_sym, Permutation_nil in HP; congruence).
  assert (Hpos' : forall q, In q l' -> 0 < p_prio q) by (intros q Hq; apply Hpos; eapply Permutation_in; [apply Permutation_sym; exact HP|exact Hq]).
  destruct (select_is_max l Hne Hpos) as [Hin Hmax]. destruct (select_is_max l' Hne' Hpos') as [Hin' Hmax'].
  apply Hinj; [exact Hin|eapply Permutation_in; [apply Permutation_sym; exact HP|exact Hin']|].
  assert (p_prio (select l') <= p_prio (select l)) by (apply Hmax; eapply Permutation_in; [apply Permutation_sym; exact HP|exact Hin']).
  assert (p_prio (select l) <= p_prio (select l')) by (apply Hmax'; eapply Permutation_in; [exact HP|exact Hin]). lia.
Qed.

Example select_nonvacuous : select [{| p_id := 1; p_prio := 5 |}; {| p_id := 2; p_prio := 9 |}; {| p_id := 3; p_prio := 7 |}] = {| p_id := 2; p_prio := 9 |}.
Proof. reflexivity. Qed.
