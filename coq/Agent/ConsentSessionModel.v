(** C13, session level: one component, its selected pair, consent freshness (RFC 7675) and keepalives, as coded in
    agent/conncheck.c (priv_conn_keepalive_tick_unlocked, priv_conn_remote_consent_tick_agent_locked,
    conn_check_handle_inbound_stun, priv_map_reply_to_keepalive_conncheck, conn_check_update_selected_pair),
    agent/component.c (nice_component_update_selected_pair, nice_component_clear_selected_pair, nice_component_restart),
    agent/agent.c (nice_agent_send_messages_nonblocking_internal, nice_agent_consent_lost, nice_agent_set_selected_pair)
    and stun/stunagent.c (stun_agent_validate / stun_agent_finish_message / stun_agent_forget_transaction: the remembered transaction ids).

    Executable; no proofs here.  Times are g_get_monotonic_time() microseconds; a GLib timeout created with a delay of d ms
    at instant now is due at now + d * 1000 and fires there or later.  The statements modelled are checked to be present
    verbatim in the sources on every run (props/c13_session.py consent_session_shape; lib/tabgen.py consent_tables), the
    constants are regenerated from the headers (Gen/Consent.v, Gen/ConsentSession.v).

    Abstractions: one stream, one component, a UDP selected pair; the instants read by nested g_get_monotonic_time() calls
    inside one callback are the instant of the event; transaction ids are drawn from a counter; an answer is described by
    what stun_agent_validate finds (known id or not, MESSAGE-INTEGRITY good or not, class / error code) and by whether it
    comes from the remote address of the selected pair; the rest of the agent (check list, nomination, discovery) appears
    as the environment events NewPair / ClearPair / Restart / SetCreds / EnvState. *)
From Coq Require Import ZArith List Bool.
From Nice Require Import Gen.Consent Gen.ConsentSession Gen.CompState Agent.ConsentModel Agent.KeepaliveModel.
Import ListNotations.
Local Open Scope Z_scope.

(** agent configuration: consent_freshness; keepalive_conncheck property or GOOGLE compatibility; see below *)
(** forget_prev: the keepalive tick forgets the transaction of the previous keepalive check of the pair before it builds the next
    one (the code since fix e9d3c51; [false] describes the code before it and is kept for the regression statement only) *)
Record cfg := { fresh : bool; kcc : bool; forget_prev : bool }.
(** NICE_AGENT_DO_KEEPALIVE_CONNCHECKS *)
Definition do_cc (c : cfg) : bool := fresh c || kcc c.

Record state := {
  selected : bool;                 (* component->selected_pair.local != NULL *)
  have : bool;                     (* selected_pair.remote_consent.have *)
  last_received : Z;               (* selected_pair.remote_consent.last_received (0 = never) *)
  next_tick : Z;                   (* selected_pair.keepalive.next_tick (0 = nothing sent yet) *)
  ct_timer : option Z;             (* selected_pair.remote_consent.tick_source: instant it is due *)
  ka_timer : option Z;             (* agent->keepalive_timer_source: instant it is due; None = stopped *)
  ka_tx : option Z;                (* selected_pair.keepalive.has_transaction / transaction_id: the keepalive check last sent on the pair *)
  local_consent : bool;            (* component->have_local_consent *)
  cst : cstate;                    (* component->state *)
  creds : bool;                    (* remote credentials known: priv_create_username () > 0 *)
  outstanding : list (Z * Z);      (* valid sent_ids of component->stun_agent: (transaction id, instant sent) *)
  next_tid : Z
}.

Inductive how := ByNomination | ByApi.
Inductive akind := KSuccess | KError (code : Z).

Inductive action :=
| KeepaliveTick (m : Z)                                   (* the agent-wide keepalive timer fires; m / 10^6 = g_random_double () * 0.4 + 0.8 *)
| ConsentTick                                             (* the pair's consent timer fires *)
| Answer (tid : Z) (auth : bool) (k : akind) (from_sel : bool)   (* a STUN response / error response reaches the component *)
| IncomingCheck (auth : bool)                             (* a Binding request from the peer *)
| RevokeLocal                                             (* nice_agent_consent_lost *)
| Send                                                    (* nice_agent_send* *)
| NewPair (h : how) (m : Z)                               (* conn_check_update_selected_pair with a higher priority / nice_agent_set_selected_pair *)
| ClearPair                                               (* nice_component_clear_selected_pair alone (socket of the pair removed) *)
| Restart                                                 (* nice_stream_restart / nice_component_restart *)
| SetCreds                                                (* nice_agent_set_remote_credentials *)
| EnvState (st : cstate).                                 (* any other agent_signal_component_state_change of the component *)

Record event := { time : Z; what : action }.

Inductive output :=
| OCheck (tid : Z)                 (* consent check / keepalive connectivity check sent on the pair *)
| OIndication                      (* Binding indication sent on the pair *)
| OAnswer (code : Z)               (* answer given to an incoming check: 200, 401, 403 *)
| OState (st : cstate)             (* component-state-changed *)
| OSend (ok : bool)                (* send passed the gate / G_IO_ERROR_PERMISSION_DENIED *)
| ORevoke (ok : bool).             (* return value of nice_agent_consent_lost *)

(* ---------------------------------------------------------------- field updates *)
Definition set_pair (s : state) (sel hv : bool) (lr nt : Z) (ct : option Z) : state :=
  {| selected := sel; have := hv; last_received := lr; next_tick := nt; ct_timer := ct; ka_timer := ka_timer s; ka_tx := ka_tx s;
     local_consent := local_consent s; cst := cst s; creds := creds s; outstanding := outstanding s; next_tid := next_tid s |}.
Definition set_ka (s : state) (ka : option Z) : state :=
  {| selected := selected s; have := have s; last_received := last_received s; next_tick := next_tick s; ct_timer := ct_timer s;
     ka_timer := ka; ka_tx := ka_tx s; local_consent := local_consent s; cst := cst s; creds := creds s; outstanding := outstanding s; next_tid := next_tid s |}.
Definition set_cst (s : state) (st : cstate) : state :=
  {| selected := selected s; have := have s; last_received := last_received s; next_tick := next_tick s; ct_timer := ct_timer s;
     ka_timer := ka_timer s; ka_tx := ka_tx s; local_consent := local_consent s; cst := st; creds := creds s; outstanding := outstanding s; next_tid := next_tid s |}.
Definition set_env (s : state) (lc cr : bool) (o : list (Z * Z)) (nt : Z) : state :=
  {| selected := selected s; have := have s; last_received := last_received s; next_tick := next_tick s; ct_timer := ct_timer s;
     ka_timer := ka_timer s; ka_tx := ka_tx s; local_consent := lc; cst := cst s; creds := cr; outstanding := o; next_tid := nt |}.
Definition set_tx (s : state) (tx : option Z) (o : list (Z * Z)) : state :=
  {| selected := selected s; have := have s; last_received := last_received s; next_tick := next_tick s; ct_timer := ct_timer s;
     ka_timer := ka_timer s; ka_tx := tx; local_consent := local_consent s; cst := cst s; creds := creds s; outstanding := o; next_tid := next_tid s |}.

Definition cstate_eqb (a b : cstate) : bool :=
  match a, b with
  | DISCONNECTED, DISCONNECTED | GATHERING, GATHERING | CONNECTING, CONNECTING | CONNECTED, CONNECTED | READY, READY | FAILED, FAILED => true
  | _, _ => false
  end.
Definition rank (a : cstate) : Z :=
  match a with DISCONNECTED => 0 | GATHERING => 1 | CONNECTING => 2 | CONNECTED => 3 | READY => 4 | FAILED => 5 end.

(** agent_signal_component_state_change: nothing when the state is unchanged, otherwise recorded and announced *)
Definition signal (s : state) (st : cstate) : state * list output :=
  if cstate_eqb (cst s) st then (s, []) else (set_cst s st, [OState st]).

(** agent_timeout_add_with_context (delay in ms) at instant now *)
Definition due (now delay_ms : Z) : Z := now + delay_ms * 1000.

(** priv_conn_remote_consent_tick_agent_locked at instant now: the source is destroyed, then consent is either declared lost
    (have := FALSE, FAILED signalled) or the timer is re-created for the remaining time *)
Definition consent_tick_fn (c : cfg) (now : Z) (s : state) : state * list output :=
  match consent_tick (fresh c) now (last_received s) with
  | None => signal (set_pair s (selected s) false (last_received s) (next_tick s) None) FAILED
  | Some d => (set_pair s (selected s) (have s) (last_received s) (next_tick s) (Some (due now d)), [])
  end.

Definition known (tid : Z) (s : state) : bool := existsb (fun p => fst p =? tid) (outstanding s).
Definition forget (tid : Z) (s : state) : list (Z * Z) := filter (fun p => negb (fst p =? tid)) (outstanding s).

(** before the next keepalive check is built: if (p->keepalive.has_transaction) { stun_agent_forget_transaction (...);
    p->keepalive.has_transaction = FALSE; } *)
Definition prep (c : cfg) (s : state) : state :=
  set_tx s (if forget_prev c then None else ka_tx s)
           (if forget_prev c then match ka_tx s with Some t => forget t s | None => outstanding s end else outstanding s).

(** stun_agent_finish_message remembers the id of a request only when one of the STUN_AGENT_MAX_SAVED_IDS slots is free *)
Definition table_full (s : state) : bool := MAX_SAVED_IDS <=? Z.of_nat (length (outstanding s)).

(** priv_conn_keepalive_tick_unlocked at instant now (sync = called directly from conn_check_update_selected_pair, whose
    caller ignores the result; otherwise from the timer, priv_conn_keepalive_tick_agent_locked) *)
Definition keepalive_tick_fn (c : cfg) (now m : Z) (sync : bool) (s : state) : state * list output :=
  match rearm (fresh c) now (if selected s then [next_tick s] else []) with
  | (None, d) => (set_ka s (Some (due now d)), [])                               (* nothing due: sleep until min_next_tick *)
  | (Some _, d) =>
      if do_cc c && creds s then                                                   (* uname_len > 0 *)
        let p := prep c s in
        if table_full p then                                                       (* buf_len == 0: ++errors; return FALSE *)
          (if sync then p else set_ka p None, [])
        else
          (* stun_message_id (&stun_message, p->keepalive.transaction_id); p->keepalive.has_transaction = TRUE; *)
          let p1 := set_tx p (if forget_prev c then Some (next_tid p) else ka_tx p) (outstanding p) in
          let s1 := set_pair p1 (selected p1) (have p1) (last_received p1) (now + keepalive_delay_consent m) (ct_timer p1) in
          let '(s2, o2) :=
            if have s1 then
              consent_tick_fn c now (set_pair s1 (selected s1) (have s1) (if last_received s1 =? 0 then now else last_received s1) (next_tick s1) (ct_timer s1))
            else (s1, []) in
          let s3 := set_env s2 (local_consent s2) (creds s2) ((next_tid s2, now) :: outstanding s2) (next_tid s2 + 1) in
          (set_ka s3 (Some (due now d)), o2 ++ [OCheck (next_tid s2)])
      else                                                                         (* stun_usage_bind_keepalive: an indication, nothing remembered *)
        (set_ka (set_pair s (selected s) (have s) (last_received s) (now + keepalive_delay_plain) (ct_timer s)) (Some (due now d)), [OIndication])
  end.


(** error codes for which stun_agent_validate ignores the credentials of an error response *)
Definition ignores_credentials (k : akind) : bool :=
  match k with KError code => (code =? 400) || (code =? 401) || (code =? 438) || (code =? 300) | KSuccess => false end.
Definition is_403 (k : akind) : bool := match k with KError code => code =? 403 | KSuccess => false end.

(** conn_check_handle_inbound_stun for a response / error response:
    unknown id -> STUN_VALIDATION_UNMATCHED_RESPONSE, ignored; bad MESSAGE-INTEGRITY -> STUN_VALIDATION_UNAUTHORIZED, ignored;
    403 with STUN_AGENT_USAGE_CONSENT_FRESHNESS -> STUN_VALIDATION_FORBIDDEN (the id stays remembered): consent lost when it
    comes from the remote address of the selected pair; anything else -> the id is forgotten and, no other transaction
    claiming it, priv_map_reply_to_keepalive_conncheck sets last_received := now *)
Definition answer_fn (c : cfg) (now tid : Z) (auth : bool) (k : akind) (from_sel : bool) (s : state) : state * list output :=
  if negb (known tid s) then (s, [])
  else if negb auth && negb (ignores_credentials k) then (s, [])
  else if is_403 k && fresh c then
    if selected s && from_sel then signal (set_pair s (selected s) false (last_received s) (next_tick s) None) FAILED
    else (s, [])
  else
    (set_env (set_pair s (selected s) (have s) now (next_tick s) (ct_timer s)) (local_consent s) (creds s) (forget tid s) (next_tid s), []).

(** does this answer refresh last_received / close the gate in this state? *)
Definition accepted (tid : Z) (auth : bool) (k : akind) (s : state) : bool := known tid s && (auth || ignores_credentials k).
Definition refreshes (c : cfg) (s : state) (a : action) : bool :=
  match a with Answer tid auth k _ => accepted tid auth k s && negb (is_403 k && fresh c) | _ => false end.
Definition forbids (c : cfg) (s : state) (a : action) : bool :=
  match a with Answer tid auth k from_sel => accepted tid auth k s && is_403 k && fresh c && selected s && from_sel | _ => false end.

(** nice_component_clear_selected_pair: the consent timer is destroyed, the pair memset to 0 - also its keepalive.has_transaction: the
    transaction of the last keepalive check of the old pair is NOT forgotten; nice_component_update_selected_pair then copies
    local, remote, priority, stun_priority and remote_consent.have only *)
Definition clear_pair (s : state) : state := set_tx (set_pair s false false 0 0 None) None (outstanding s).

(** nice_agent_set_selected_pair: CONNECTING / CONNECTED / READY are signalled in turn, then the pair is replaced *)
Definition api_states (s : state) : state * list output :=
  let '(s1, o1) := if (rank (cst s) <? rank CONNECTING) || cstate_eqb (cst s) FAILED then signal s CONNECTING else (s, []) in
  let '(s2, o2) := if rank (cst s1) <? rank CONNECTED then signal s1 CONNECTED else (s1, []) in
  let '(s3, o3) := signal s2 READY in
  (s3, o1 ++ o2 ++ o3).

Definition step (c : cfg) (s : state) (e : event) : state * list output :=
  let now := time e in
  match what e with
  | KeepaliveTick m => keepalive_tick_fn c now m false s
  | ConsentTick => consent_tick_fn c now s
  | Answer tid auth k from_sel => answer_fn c now tid auth k from_sel s
  | IncomingCheck auth =>
      if negb auth then (s, [OAnswer 401])                                          (* STUN_VALIDATION_UNAUTHORIZED *)
      else if negb (local_consent s) then (s, [OAnswer 403]) else (s, [OAnswer 200])
  | RevokeLocal =>
      if negb (fresh c) then (s, [ORevoke false])
      else (set_env s false (creds s) (outstanding s) (next_tid s), [ORevoke true])
  | Send => if selected s && negb (have s) then (s, [OSend false]) else (s, [OSend true])
  | NewPair ByNomination m =>
      (* cpair.remote_consent.have = TRUE; nice_component_update_selected_pair; priv_conn_keepalive_tick_unlocked *)
      keepalive_tick_fn c now m true (set_pair (clear_pair s) true true 0 0 None)
  | NewPair ByApi _ =>
      let '(s1, o1) := api_states s in (set_pair (clear_pair s1) true true 0 0 None, o1)
  | ClearPair => (clear_pair s, [])
  | Restart =>
      (* nice_component_restart: have_local_consent = TRUE, the StunAgent is re-initialised; nice_stream_restart forgets the
         remote credentials and signals GATHERING *)
      signal (set_env s true false [] (next_tid s)) GATHERING
  | SetCreds => (set_env s (local_consent s) true (outstanding s) (next_tid s), [])
  | EnvState st => signal s st
  end.

(** a run: final state, and the outputs of every event with its instant *)
Fixpoint exec (c : cfg) (s : state) (evs : list event) : state :=
  match evs with [] => s | e :: r => exec c (fst (step c s e)) r end.
Fixpoint outputs (c : cfg) (s : state) (evs : list event) : list (Z * list output) :=
  match evs with [] => [] | e :: r => (time e, snd (step c s e)) :: outputs c (fst (step c s e)) r end.

(* ---------------------------------------------------------------- which event sequences are runs of the agent *)
(** jitter drawn by g_random_double () * 0.4 + 0.8 *)
Definition jitter_ok (m : Z) : bool := (800000 <=? m) && (m <? 1200000).
Definition not_overdue (L : Z) (tm : option Z) (t : Z) : bool := match tm with Some d => t <=? d + L | None => true end.
Definition fires (tm : option Z) (t : Z) : bool := match tm with Some d => d + 1 <=? t | None => false end.

(** event e can happen in state s when every timer fires at its due instant plus a dispatch latency in 1 .. L:
    no armed timer is overdue by more than L, a tick event is the firing of an armed timer *)
Definition ev_ok (L : Z) (s : state) (e : event) : bool :=
  (0 <? time e) && (time e <? 2 ^ 61) &&
  not_overdue L (ka_timer s) (time e) && not_overdue L (ct_timer s) (time e) &&
  match what e with
  | KeepaliveTick m => fires (ka_timer s) (time e) && jitter_ok m
  | ConsentTick => fires (ct_timer s) (time e)
  | NewPair _ m => jitter_ok m
  | _ => true
  end.

(** evs is a run from s, whose clock stands at t0 *)
Fixpoint valid (L : Z) (c : cfg) (s : state) (t0 : Z) (evs : list event) : bool :=
  match evs with
  | [] => true
  | e :: r => (t0 <=? time e) && ev_ok L s e && valid L c (fst (step c s e)) (time e) r
  end.

(** the component before any pair is selected *)
Definition init (st : cstate) (ka : option Z) : state :=
  {| selected := false; have := false; last_received := 0; next_tick := 0; ct_timer := None; ka_timer := ka; ka_tx := None;
     local_consent := true; cst := st; creds := true; outstanding := []; next_tid := 1 |}.

Definition transmits (o : list output) : bool := existsb (fun x => match x with OCheck _ | OIndication => true | _ => false end) o.
