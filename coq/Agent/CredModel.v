(** ICE credentials and restart (agent/stream.c nice_stream_initialize_credentials, nice_stream_restart; random/random.c
    nice_rng_generate_bytes_print).  The character table and lengths are regenerated from the source on every run. *)
From Coq Require Import ZArith List Bool.
From Nice Require Import Gen.IceChars.
Import ListNotations.
Local Open Scope Z_scope.

(** buf[i] = chars[nice_rng_generate_int (rng, 0, strlen (chars))]; a draw is in [0, strlen chars) *)
Definition gen_print (draws : list nat) : list Z := map (fun d => nth d ice_chars 0) draws.

(** RFC 5245 15.1 / RFC 8839: ice-char = ALPHA / DIGIT / "+" / "/" ; ice-ufrag = 4*256ice-char ; ice-pwd = 22*256ice-char *)
Definition is_ice_char (c : Z) : bool :=
  ((65 <=? c) && (c <=? 90)) || ((97 <=? c) && (c <=? 122)) || ((48 <=? c) && (c <=? 57)) || (c =? 43) || (c =? 47).
Definition wf_ufrag (u : list Z) : bool := forallb is_ice_char u && (4 <=? length u)%nat && (length u <=? 256)%nat.
Definition wf_pwd (p : list Z) : bool := forallb is_ice_char p && (22 <=? length p)%nat && (length p <=? 256)%nat.

Record stream := {
  l_ufrag : list Z; l_pwd : list Z; r_ufrag : list Z; r_pwd : list Z;
  r_cands : list Z;            (* remote candidates of all components (abstract ids) *)
  checks : list Z;             (* check list + triggered queue entries *)
  ibr : bool;                  (* initial_binding_request_received *)
  cstates : list nat           (* component states, 1 = GATHERING *)
}.

Fixpoint take {A} (n : nat) (l : list A) : list A := match n, l with S n', x :: r => x :: take n' r | _, _ => [] end.
Fixpoint drop {A} (n : nat) (l : list A) : list A := match n, l with S n', _ :: r => drop n' r | _, _ => l end.

(** nice_stream_restart: prune checks, new local credentials from the RNG, remote credentials and candidates forgotten,
    every component announced GATHERING *)
Definition restart (s : stream) (draws : list nat) : stream :=
  {| l_ufrag := gen_print (take DEF_UFRAG_LEN draws); l_pwd := gen_print (take DEF_PWD_LEN (drop DEF_UFRAG_LEN draws));
     r_ufrag := []; r_pwd := []; r_cands := []; checks := []; ibr := false; cstates := map (fun _ => 1%nat) (cstates s) |}.

(** conncheck_stun_validater (local candidates without a username/password of their own, i.e. every candidate of a standard-ICE agent):
    the password returned for an inbound check is the CURRENT local password, and only when the local ufrag is non-empty and the
    USERNAME starts with it ([ufrag_len > 0 && username_len >= ufrag_len && memcmp (username, ufrag, ufrag_len) == 0]; the ':' that
    follows is not looked at).  The three statements are checked to be present in agent/conncheck.c on every run (lib/tabgen.py). *)
Fixpoint prefix (p l : list Z) : bool := match p, l with [], _ => true | a :: p', b :: l' => (a =? b) && prefix p' l' | _, _ => false end.
Definition validater (s : stream) (uname : list Z) : option (list Z) :=
  if (0 <? length (l_ufrag s))%nat && prefix (l_ufrag s) uname then Some (l_pwd s) else None.
