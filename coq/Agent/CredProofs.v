From Coq Require Import ZArith List Bool Lia.
From Nice Require Import Gen.IceChars Agent.CredModel.
Import ListNotations.
Local Open Scope Z_scope.

Lemma table_ok : forallb is_ice_char ice_chars = true /\ NoDup ice_chars /\ length ice_chars = 64%nat.
Proof.
  split; [vm_compute; reflexivity|]. split; [|vm_compute; reflexivity].
  assert (H : forall l : list Z, (fix nd (l : list Z) := match l with [] => true | x :: r => negb (existsb (Z.eqb x) r) && nd r end) l = true -> NoDup l).
  { induction l as [|x r IH]; intros H; [constructor|]. apply andb_prop in H. destruct H as [H1 H2]. constructor; [|apply IH; exact H2].
    intros Hin. apply negb_true_iff in H1. assert (existsb (Z.eqb x) r = true) by (apply existsb_exists; exists x; split; [exact Hin|apply Z.eqb_refl]). congruence. }
  apply H. vm_compute. reflexivity.
Qed.

Definition in_range (draws : list nat) : Prop := Forall (fun d => (d < length ice_chars)%nat) draws.

Lemma gen_print_chars draws : in_range draws -> forallb is_ice_char (gen_print draws) = true.
Proof.
  intros H. unfold gen_print. rewrite forallb_forall. intros c Hc. apply in_map_iff in Hc. destruct Hc as (d & <- & Hd).
  unfold in_range in H. rewrite Forall_forall in H. specialize (H d Hd). destruct table_ok as (Ht & _ & _). rewrite forallb_forall in Ht. apply Ht. apply nth_In. exact H.
Qed.

Lemma gen_print_length draws : length (gen_print draws) = length draws.
Proof. apply map_length. Qed.

(** different in-range draws give different strings: credentials repeat only if the RNG repeats *)
Lemma gen_print_inj a b : in_range a -> in_range b -> gen_print a = gen_print b -> a = b.
Proof.
  revert b; induction a as [|x a IH]; intros [|y b] Ha Hb H; try discriminate; [reflexivity|].
  change (gen_print (x :: a)) with (nth x ice_chars 0 :: gen_print a) in H. change (gen_print (y :: b)) with (nth y ice_chars 0 :: gen_print b) in H.
  injection H as Hx Hr. inversion Ha; subst. inversion Hb; subst.
  match goal with Hx1 : (x < _)%nat, Ha' : Forall _ a, Hy1 : (y < _)%nat, Hb' : Forall _ b |- _ =>
    f_equal; [|apply IH; [exact Ha'|exact Hb'|exact Hr]]; destruct table_ok as (_ & Hnd & _); rewrite (NoDup_nth ice_chars 0) in Hnd; apply (Hnd x y Hx1 Hy1 Hx) end.
Qed.

Lemma take_length {A} n (l : list A) : (n <= length l)%nat -> length (take n l) = n.
Proof. revert l; induction n as [|n IH]; intros [|x l] H; cbn in *; try lia. rewrite IH; lia. Qed.
Lemma drop_length {A} n (l : list A) : length (drop n l) = (length l - n)%nat.
Proof. revert l; induction n as [|n IH]; intros [|x l]; cbn; try lia. apply IH. Qed.
Lemma take_range n l : in_range l -> in_range (take n l).
Proof. revert l; induction n as [|n IH]; intros [|x l] H; cbn; try constructor. - inversion H; assumption. - apply IH. inversion H; assumption. Qed.
Lemma drop_range n l : in_range l -> in_range (drop n l).
Proof. revert l; induction n as [|n IH]; intros [|x l] H; cbn; try assumption. apply IH. inversion H; assumption. Qed.

Definition enough (draws : list nat) : Prop := (DEF_UFRAG_LEN + DEF_PWD_LEN <= length draws)%nat.

(** a restart always yields credentials that are well-formed per the ICE grammar *)
Theorem restart_creds_wellformed s draws : in_range draws -> enough draws ->
  wf_ufrag (l_ufrag (restart s draws)) = true /\ wf_pwd (l_pwd (restart s draws)) = true.
Proof.
  intros Hr He. unfold enough, DEF_UFRAG_LEN, DEF_PWD_LEN in He. unfold restart, wf_ufrag, wf_pwd; cbn [l_ufrag l_pwd].
  rewrite !gen_print_chars by (try apply take_range; try apply drop_range; try apply take_range; try apply drop_range; assumption).
  rewrite !gen_print_length, !take_length by (rewrite ?drop_length; unfold DEF_UFRAG_LEN, DEF_PWD_LEN; lia).
  split; reflexivity.
Qed.

(** the new credentials differ from earlier ones unless the RNG repeated its 26 draws *)
Theorem restart_creds_fresh s s0 d0 draws : in_range draws -> in_range d0 -> enough draws -> enough d0 ->
  l_ufrag (restart s draws) = l_ufrag (restart s0 d0) -> l_pwd (restart s draws) = l_pwd (restart s0 d0) ->
  take (DEF_UFRAG_LEN + DEF_PWD_LEN) draws = take (DEF_UFRAG_LEN + DEF_PWD_LEN) d0.
Proof.
  intros Hr H0 He He0 Hu Hp. cbn [restart l_ufrag l_pwd] in Hu, Hp.
  apply gen_print_inj in Hu; [|apply take_range; assumption|apply take_range; assumption].
  apply gen_print_inj in Hp; [|apply take_range, drop_range; assumption|apply take_range, drop_range; assumption].
  assert (Hsplit : forall (l : list nat) a b, take (a + b) l = take a l ++ take b (drop a l)).
  { intros l a; revert l; induction a as [|a IH]; intros [|x l] b; cbn; try reflexivity; [destruct b; reflexivity|]. f_equal. apply IH. }
  rewrite !Hsplit, Hu, Hp. reflexivity.
Qed.

(** what a restart forgets and announces *)
Theorem restart_forgets s draws :
  let s' := restart s draws in
  r_ufrag s' = [] /\ r_pwd s' = [] /\ r_cands s' = [] /\ checks s' = [] /\ ibr s' = false /\
  length (cstates s') = length (cstates s) /\ Forall (fun st => st = 1%nat) (cstates s').
Proof.
  cbn. repeat split; try reflexivity; [apply map_length|]. rewrite Forall_forall. intros st H. apply in_map_iff in H. destruct H as (_ & <- & _). reflexivity.
Qed.

(** after a restart the validater hands out the new password only *)
Theorem restart_validater_current s draws uname k : validater (restart s draws) uname = Some k -> k = l_pwd (restart s draws).
Proof. unfold validater. destruct (_ && prefix _ uname); [intros H; injection H as <-; reflexivity|discriminate]. Qed.

(** a USERNAME that starts with a ufrag of the same length other than the current one is not validated: checks addressed to the
    pre-restart credentials get no password (unless the RNG reproduced the ufrag, see restart_creds_fresh) *)
Lemma prefix_same_length u u0 rest : length u = length u0 -> prefix u (u0 ++ rest) = true -> u = u0.
Proof.
  revert u0. induction u as [|a u IH]; intros [|b u0] HL HP; cbn in *; try discriminate; [reflexivity|].
  apply andb_prop in HP. destruct HP as [Hab HP]. apply Z.eqb_eq in Hab. subst b. f_equal. apply IH; [lia|exact HP].
Qed.

Theorem restart_rejects_other_ufrag s draws u0 rest : enough draws ->
  length u0 = DEF_UFRAG_LEN -> u0 <> l_ufrag (restart s draws) ->
  validater (restart s draws) (u0 ++ rest) = None.
Proof.
  intros He HL HN. unfold validater.
  destruct (prefix (l_ufrag (restart s draws)) (u0 ++ rest)) eqn:HP; [|rewrite andb_false_r; reflexivity].
  exfalso. apply HN. symmetry. apply (prefix_same_length _ _ rest); [|exact HP].
  cbn [restart l_ufrag]. rewrite gen_print_length, take_length; [symmetry; exact HL|]. unfold enough in He. lia.
Qed.

(** ... and the current ufrag is always accepted (the credentials of a restart are never empty) *)
Theorem restart_accepts_current_ufrag s draws rest : enough draws ->
  validater (restart s draws) (l_ufrag (restart s draws) ++ rest) = Some (l_pwd (restart s draws)).
Proof.
  intros He. unfold validater.
  assert (HP : forall u r, prefix u (u ++ r) = true) by (induction u as [|a u IH]; intros r; cbn; [reflexivity|rewrite Z.eqb_refl; apply IH]).
  rewrite HP, andb_true_r.
  assert (HL : length (l_ufrag (restart s draws)) = DEF_UFRAG_LEN).
  { cbn [restart l_ufrag]. rewrite gen_print_length, take_length; [reflexivity|]. unfold enough in He. lia. }
  rewrite HL. reflexivity.
Qed.

Example restart_nonvacuous :
  let d := [0; 1; 2; 63; 26; 27; 52; 53; 62; 5; 5; 5; 5; 5; 5; 5; 5; 5; 5; 5; 5; 5; 5; 5; 5; 5]%nat in
  in_range d /\ enough d /\ l_ufrag (restart {| l_ufrag := []; l_pwd := []; r_ufrag := [1]; r_pwd := [2]; r_cands := [3]; checks := [4]; ibr := true; cstates := [4; 4]%nat |} d) = [65; 66; 67; 47].
Proof. intros d. split; [unfold in_range; rewrite Forall_forall; intros x Hx; vm_compute in Hx |- *; repeat (destruct Hx as [<-|Hx]; [lia|]); destruct Hx|]. split; [vm_compute; lia|vm_compute; reflexivity]. Qed.
