From Coq Require Import ZArith List Bool Lia.
From Nice Require Import Agent.GatherModel.
Import ListNotations.
Local Open Scope Z_scope.

(** no candidate on the list is redundant with an EARLIER one *)
Fixpoint clean (l : list lcand) : Prop :=
  match l with [] => True | x :: r => clean_tail x r /\ clean r end
with clean_tail (x : lcand) (r : list lcand) : Prop :=
  match r with [] => True | y :: r' => redundant x y = false /\ clean_tail x r' end.

Lemma clean_tail_app x r y : clean_tail x r -> redundant x y = false -> clean_tail x (r ++ [y]).
Proof. induction r as [|z r IH]; cbn; intros H Hy; [auto|]. destruct H as [H1 H2]. split; [exact H1|apply IH; assumption]. Qed.

Lemma clean_app l y : clean l -> existsb (fun c => redundant c y) l = false -> clean (l ++ [y]).
Proof.
  induction l as [|x r IH]; cbn [app clean existsb]; intros H He; [cbn; auto|].
  apply orb_false_elim in He. destruct He as [He1 He2]. destruct H as [H1 H2]. split; [apply clean_tail_app; assumption|apply IH; assumption].
Qed.

Lemma add_pruned_clean l x : clean l -> clean (snd (add_pruned l x)).
Proof. unfold add_pruned. intros H. destruct (existsb _ l) eqn:E; cbn [snd]; [exact H|apply clean_app; assumption]. Qed.

Theorem add_all_clean : forall xs l, clean l -> clean (snd (add_all l xs)).
Proof.
  induction xs as [|x r IH]; intros l H; [exact H|]. cbn [add_all]. destruct (add_pruned l x) as [b l1] eqn:E.
  specialize (IH l1). destruct (add_all l1 r) as [bs l2]. cbn [snd] in *. apply IH. replace l1 with (snd (add_pruned l x)) by (rewrite E; reflexivity).
  apply add_pruned_clean; exact H.
Qed.

(** nothing is invented: every candidate on the list was supplied (or was there before), in the order supplied *)
Theorem add_all_supplied : forall xs l c, In c (snd (add_all l xs)) -> In c l \/ In c xs.
Proof.
  induction xs as [|x r IH]; intros l c H; [left; exact H|]. cbn [add_all] in H. destruct (add_pruned l x) as [b l1] eqn:E.
  specialize (IH l1 c). destruct (add_all l1 r) as [bs l2]. cbn [snd] in *. destruct (IH H) as [H1|H1]; [|right; right; exact H1].
  unfold add_pruned in E. destruct (existsb _ l); injection E as _ <-; [left; exact H1|].
  apply in_app_or in H1. destruct H1 as [H1|[<-|[]]]; [left; exact H1|right; left; reflexivity].
Qed.

(** a candidate is refused only when an earlier one is redundant with it; an accepted one is on the final list *)
Theorem add_pruned_refused l x : fst (add_pruned l x) = false -> exists c, In c l /\ redundant c x = true.
Proof. unfold add_pruned. destruct (existsb _ l) eqn:E; [|discriminate]. intros _. apply existsb_exists in E. exact E. Qed.

Theorem add_pruned_accepted l x : fst (add_pruned l x) = true -> snd (add_pruned l x) = l ++ [x].
Proof. unfold add_pruned. destruct (existsb _ l); [discriminate|reflexivity]. Qed.

(** accepted candidates are announced once: the final list never holds the same candidate twice *)
Lemma clean_tail_notin x r : clean_tail x r -> ~ In x r.
Proof.
  induction r as [|y r IH]; cbn; [tauto|]. intros [H1 H2] [->|H]; [|exact (IH H2 H)].
  unfold redundant, same_cand in H1. rewrite !Z.eqb_refl in H1. discriminate H1.
Qed.
Theorem clean_nodup l : clean l -> NoDup l.
Proof. induction l as [|x r IH]; intros H; [constructor|]. destruct H as [H1 H2]. constructor; [apply clean_tail_notin; exact H1|apply IH; exact H2]. Qed.

(** host candidates for different local addresses are never eliminated by one another *)
Theorem host_kept l x : k_type x = 0 -> (forall c, In c l -> same_cand c x = false) -> fst (add_pruned l x) = true.
Proof.
  intros Ht H. unfold add_pruned. destruct (existsb _ l) eqn:E; [|reflexivity]. exfalso.
  apply existsb_exists in E. destruct E as (c & Hc & Hr). unfold redundant in Hr. rewrite (H c Hc) in Hr.
  unfold same_kind_ip in Hr. rewrite Ht in Hr. cbn in Hr. rewrite !andb_false_r in Hr. discriminate Hr.
Qed.

Example gather_nonvacuous :
  let h := {| k_type := 0; k_tr := 0; k_ip := 1; k_port := 5; k_bip := 1; k_bport := 5 |} in
  let s1 := {| k_type := 1; k_tr := 0; k_ip := 9; k_port := 5; k_bip := 1; k_bport := 5 |} in
  let s2 := {| k_type := 1; k_tr := 0; k_ip := 9; k_port := 6; k_bip := 1; k_bport := 5 |} in
  let r := {| k_type := 1; k_tr := 0; k_ip := 1; k_port := 5; k_bip := 1; k_bport := 5 |} in
  fst (add_all [] [h; s1; s2; r; h]) = [true; true; false; false; false].
Proof. reflexivity. Qed.
