From Coq Require Import ZArith List Bool Lia.
From Nice Require Import Gen.Consent Agent.ConsentModel.
Import ListNotations.
Local Open Scope Z_scope.
Ltac Zify.zify_post_hook ::= Z.div_mod_to_equations.

Lemma timeout_pos fresh : 0 < consent_timeout fresh.
Proof. unfold consent_timeout, T_CONSENT_TIMEOUT, T_KEEPALIVE_TIMEOUT. destruct fresh; lia. Qed.

(** consent is never declared lost early *)
Lemma tick_expired fresh now last : consent_tick fresh now last = None -> consent_timeout fresh < now - last.
Proof. unfold consent_tick. destruct (now - last >? consent_timeout fresh) eqn:E; [lia|discriminate]. Qed.

(** a re-armed tick is due no later than the deadline and less than a millisecond before it *)
Lemma tick_rearm fresh now last d : consent_tick fresh now last = Some d ->
  0 <= d /\ now + d * 1000 <= last + consent_timeout fresh < now + d * 1000 + 1000.
Proof.
  unfold consent_tick. destruct (now - last >? consent_timeout fresh) eqn:E; [discriminate|]. intros H; injection H as <-.
  remember (consent_timeout fresh - (now - last)) as r eqn:Hr. assert (0 <= r) by lia. lia.
Qed.

(** Expiry is detected: whatever the dispatch latencies (each between 1 us and L), the self re-arming tick announces FAILED
    strictly after last + timeout and no later than last + timeout + L. *)
Theorem consent_expiry_detected fresh L lat : (forall k, 1 <= lat k <= L) ->
  forall now last k, now - last <= consent_timeout fresh ->
  exists fuel t, consent_run fuel fresh now last lat k = Some t /\ last + consent_timeout fresh < t <= last + consent_timeout fresh + L.
Proof.
  intros Hlat now last k Hle. remember (consent_timeout fresh - (now - last)) as r eqn:Hr.
  assert (Hr0 : 0 <= r) by lia. revert now k Hle Hr. pattern r. apply Z_lt_induction; [|exact Hr0]. clear r Hr0.
  intros r IH now k Hle Hr.
  destruct (consent_tick fresh now last) as [d|] eqn:Et.
  2:{ apply tick_expired in Et. lia. }
  destruct (tick_rearm _ _ _ _ Et) as (Hd & Hlo & Hhi). specialize (Hlat k) as Hl.
  set (now' := now + d * 1000 + lat k).
  destruct (Z_le_gt_dec (now' - last) (consent_timeout fresh)) as [Hc|Hc].
  - destruct (IH (consent_timeout fresh - (now' - last)) ltac:(subst now'; lia) now' (S k) Hc eq_refl) as (fuel & t & Hrun & Hb).
    exists (S fuel), t. cbn [consent_run]. rewrite Et. split; [exact Hrun|exact Hb].
  - exists 2%nat, now'. cbn [consent_run]. rewrite Et. fold now'.
    unfold consent_tick. replace (now' - last >? consent_timeout fresh) with true by lia. split; [reflexivity|subst now'; lia].
Qed.

(** FAILED is never announced while an answer is younger than the timeout *)
Theorem consent_never_early fresh lat : forall fuel now last k t,
  consent_run fuel fresh now last lat k = Some t -> consent_timeout fresh < t - last.
Proof.
  induction fuel as [|f IH]; intros now last k t H; [discriminate|]. cbn [consent_run] in H.
  destruct (consent_tick fresh now last) as [d|] eqn:Et.
  - eapply IH; exact H.
  - injection H as <-. apply tick_expired in Et. exact Et.
Qed.

(** keepalives under consent freshness are re-armed 4 .. 6 s ahead; 25 s otherwise *)
Theorem keepalive_delay_bounds m : 800000 <= m < 1200000 -> 4000000 <= keepalive_delay_consent m < 6000000.
Proof. unfold keepalive_delay_consent, T_CONSENT_DEFAULT, T_MIN_CONSENT_INTERVAL. intros H. lia. Qed.

Example expiry_nonvacuous : consent_run 5 true 1000000 0 (fun _ => 7) 0 = Some 30000007.
Proof. reflexivity. Qed.
