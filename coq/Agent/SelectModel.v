(** Selection of the pair media is sent on (agent/conncheck.c conn_check_update_selected_pair): a nominated pair replaces
    the selected one only when its priority is strictly higher; an ICE restart resets the selected priority to 0.
    The modelled statement is checked to be present in the source on every run (lib/tabgen.py::select_shape). *)
From Coq Require Import ZArith List Bool.
Import ListNotations.
Local Open Scope Z_scope.

Record pair := { p_id : Z; p_prio : Z }.
Definition none : pair := {| p_id := -1; p_prio := 0 |}.       (* nothing selected: priority 0 *)

Definition update (sel : pair) (p : pair) : pair := if p_prio sel <? p_prio p then p else sel.
Definition select (nominated : list pair) : pair := fold_left update nominated none.
