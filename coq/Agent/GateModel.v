(** Source-address gate in front of the application (agent/component.c: nice_component_add_valid_candidate,
    nice_component_verify_remote_candidate; call site agent/agent.c agent_recv_message_unlocked).
    Hand model, tied to the code by harness/gate_h.c (differential execution, props/C03.py). *)
From Coq Require Import ZArith List Bool.
Import ListNotations.
Local Open Scope Z_scope.

Record cand := { c_tr : Z (* 0 = UDP, 1..3 = TCP active/passive/so *); c_addr : Z (* transport address, abstract id *) }.
Definition MAXV : Z := 50.   (* NICE_COMPONENT_MAX_VALID_CANDIDATES *)

Definition eq_target (a b : cand) : bool := (c_tr a =? c_tr b) && (c_addr a =? c_addr b).

(** nice_component_add_valid_candidate: no duplicates; prepend; when the OLD list had more than MAXV entries its last one is dropped *)
Definition add_valid (l : list cand) (c : cand) : list cand :=
  if existsb (eq_target c) l then l else
  if MAXV <? Z.of_nat (length l) then c :: removelast l else c :: l.

(** the match condition of nice_component_verify_remote_candidate; [tcpish] = socket type TCP_BSD or UDP_TURN *)
Definition gate_match (tcpish : bool) (a : Z) (c : cand) : bool :=
  ((tcpish && negb (c_tr c =? 0)) || (c_tr c =? 0)) && (c_addr c =? a).

Fixpoint take_first (f : cand -> bool) (l : list cand) : option (cand * list cand) :=
  match l with
  | [] => None
  | c :: r => if f c then Some (c, r) else
              match take_first f r with Some (x, r') => Some (x, c :: r') | None => None end
  end.

(** returns (deliver?, new list): a hit is moved to the front *)
Definition verify (fallback tcpish : bool) (a : Z) (l : list cand) : bool * list cand :=
  if fallback then (true, l) else
  match take_first (gate_match tcpish a) l with
  | Some (c, r) => (true, c :: r)
  | None => (false, l)
  end.

Inductive gop := Auth (c : cand) | Data (tcpish : bool) (a : Z).

(** one step: state = valid list; output = Some deliver? for datagrams *)
Definition gstep (l : list cand) (o : gop) : list cand * option bool :=
  match o with
  | Auth c => (add_valid l c, None)
  | Data t a => let '(d, l') := verify false t a l in (l', Some d)
  end.

Fixpoint grun (l : list cand) (ops : list gop) : list cand * list (option bool) :=
  match ops with
  | [] => (l, [])
  | o :: r => let '(l1, x) := gstep l o in let '(l2, xs) := grun l1 r in (l2, x :: xs)
  end.
