(** C12 — proofs over the reference-graph model (OwnModel.v): removing a socket erases every reference to what it frees. *)
From Coq Require Import ZArith List Bool Lia.
From Nice Require Import Agent.OwnModel.
Import ListNotations.
Local Open Scope Z_scope.

(** ---- lists *)
Lemma remove1_incl x l y : In y (remove1 x l) -> In y l.
Proof. induction l as [|a l IH]; cbn; [tauto|]. destruct (a =? x); cbn; intuition. Qed.
Lemma remove1_nodup x l : NoDup l -> NoDup (remove1 x l).
Proof.
  induction 1 as [|a l Ha Hl IH]; cbn; [constructor|]. destruct (a =? x); [exact Hl|]. constructor; [|exact IH].
  intro H. apply Ha. eapply remove1_incl; exact H.
Qed.
Lemma remove1_notin x l : NoDup l -> ~ In x (remove1 x l).
Proof.
  induction 1 as [|a l Ha Hl IH]; cbn; [tauto|]. destruct (a =? x) eqn:E; [apply Z.eqb_eq in E; subst; exact Ha|].
  cbn. intros [->|H]; [rewrite Z.eqb_refl in E; discriminate|exact (IH H)].
Qed.
Lemma remove1_keep x l y : In y l -> y <> x -> In y (remove1 x l).
Proof.
  induction l as [|a l IH]; cbn; [tauto|]. intros [->|H] Hne.
  - destruct (y =? x) eqn:E; [apply Z.eqb_eq in E; contradiction|left; reflexivity].
  - destruct (a =? x); [exact H|right; apply IH; assumption].
Qed.
Lemma remove1_id x l : ~ In x l -> remove1 x l = l.
Proof. induction l as [|a l IH]; cbn; [reflexivity|]. intros H. destruct (a =? x) eqn:E; [apply Z.eqb_eq in E; subst; tauto|]. f_equal. apply IH. tauto. Qed.
Lemma memb_In x l : memb x l = true <-> In x l.
Proof.
  unfold memb. rewrite existsb_exists. split; [intros (y & Hy & E); apply Z.eqb_eq in E; subst; exact Hy|].
  intros H. exists x. split; [exact H|apply Z.eqb_refl].
Qed.
Lemma nodup_map_filter {A} (f : A -> Z) (g : A -> bool) l : NoDup (map f l) -> NoDup (map f (filter g l)).
Proof.
  induction l as [|a l IH]; cbn; [auto|]. intros H. inversion H as [|? ? Ha Hl]; subst. destruct (g a); cbn; [|apply IH; exact Hl].
  constructor; [|apply IH; exact Hl]. intro Hin. apply Ha. apply in_map_iff in Hin. destruct Hin as (b & Hb & Hin). apply filter_In in Hin.
  apply in_map_iff. exists b. tauto.
Qed.
Lemma in_map_filter {A} (f : A -> Z) (g : A -> bool) l y : In y (map f (filter g l)) -> In y (map f l).
Proof. rewrite !in_map_iff. intros (b & Hb & Hin). apply filter_In in Hin. exists b. tauto. Qed.

(** find on a heap whose ids are distinct *)
Lemma find_some_in {A} (f : A -> Z) (h : list A) i x : find (fun y => f y =? i) h = Some x -> In x h /\ f x = i.
Proof. intros H. apply find_some in H. destruct H as [H1 H2]. apply Z.eqb_eq in H2. tauto. Qed.
Lemma find_in_nodup {A} (f : A -> Z) (h : list A) x : NoDup (map f h) -> In x h -> find (fun y => f y =? f x) h = Some x.
Proof.
  induction h as [|a h IH]; cbn; [tauto|]. intros Hn [->|Hin]; [rewrite Z.eqb_refl; reflexivity|].
  inversion Hn as [|? ? Ha Hh]; subst. destruct (f a =? f x) eqn:E; [|apply IH; assumption].
  apply Z.eqb_eq in E. exfalso. apply Ha. rewrite E. apply in_map. exact Hin.
Qed.
Lemma find_none_notin {A} (f : A -> Z) (h : list A) i : find (fun y => f y =? i) h = None -> ~ In i (map f h).
Proof.
  intros H Hin. apply in_map_iff in Hin. destruct Hin as (x & Hx & Hin). apply (find_none _ _ H) in Hin. cbn in Hin. rewrite Hx, Z.eqb_refl in Hin. discriminate.
Qed.
Lemma find_live {A} (f : A -> Z) (h : list A) i : In i (map f h) -> exists x, find (fun y => f y =? i) h = Some x.
Proof. intros H. destruct (find (fun y => f y =? i) h) eqn:E; [eauto|]. exfalso. exact (find_none_notin _ _ _ E H). Qed.
